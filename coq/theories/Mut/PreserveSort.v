(* sort_children: the sorted child list is a (recursive) rearrangement *)
From Coq Require Import List ZArith Bool Arith Lia Permutation.
From NT Require Import Sx Rose ListFacts RoseFacts Surgery SurgeryFacts Machine WF MachineFacts PreserveSteps.
Import ListNotations.

(* [LRel l l']: same rows up to order, sibling uniqueness carried over *)
Definition LRel (l l' : list rt) : Prop :=
  (forall o, Permutation (rows o l) (rows o l')) /\ (SU l -> SU l').
Definition Rel (t t' : rt) : Prop :=
  rid t' = rid t /\ rinfo t' = rinfo t /\ LRel (rch t) (rch t').

Lemma LRel_refl l : LRel l l.
Proof. split; auto. Qed.
Lemma LRel_trans a b c : LRel a b -> LRel b c -> LRel a c.
Proof. intros [H1 H2] [H3 H4]. split; [intros o; transitivity (rows o b); [apply H1|apply H3]|auto]. Qed.
Lemma Rel_refl t : Rel t t.
Proof. split; [reflexivity|split; [reflexivity|apply LRel_refl]]. Qed.

Lemma Rel_rows t t' o : Rel t t' -> Permutation (rows_t o t) (rows_t o t').
Proof. intros (E1 & E2 & H & _). rewrite !rows_t_unfold, E1, E2. constructor. apply H. Qed.

Lemma perm_SU l l' : Permutation l l' -> SU l -> SU l'.
Proof.
  intros P H. constructor.
  - apply (Permutation_NoDup (Permutation_map rdid P)). now apply SU_top.
  - intros t Ht. apply (SU_child l t H). now apply (Permutation_in _ (Permutation_sym P)).
Qed.

Lemma perm_LRel l l' : Permutation l l' -> LRel l l'.
Proof. intros P. split; [intros o; now apply Permutation_flat_map|now apply perm_SU]. Qed.

Lemma Forall2_in_r l l' : Forall2 Rel l l' -> forall t', In t' l' -> exists t, In t l /\ Rel t t'.
Proof.
  induction 1 as [|t t1 l l' R F IH]; intros t' Ht'; [contradiction|]. destruct Ht' as [<-|Ht'].
  - exists t. split; [now left|assumption].
  - destruct (IH t' Ht') as (t0 & H0 & R0). exists t0. split; [now right|assumption].
Qed.

Lemma Forall2_Rel_LRel l l' : Forall2 Rel l l' -> LRel l l'.
Proof.
  intros F. split.
  - intros o. induction F as [|t t' l l' R F IH]; [reflexivity|]. cbn [flat_map]. apply Permutation_app; [now apply Rel_rows|assumption].
  - intros H. assert (E : map rdid l' = map rdid l).
    { clear H. induction F as [|t t' l l' (E1 & E2 & _) F IH]; [reflexivity|]. cbn [map]. unfold rdid at 1 3. now rewrite E2, IH. }
    constructor; [rewrite E; now apply SU_top|].
    intros t' Ht'. destruct (Forall2_in_r _ _ F t' Ht') as (t & Ht & (_ & _ & _ & R)). apply R. now apply (SU_child l t H).
Qed.

(* sorting permutes *)
Lemma ins_sorted_perm k x l : Permutation (ins_sorted k x l) (x :: l).
Proof.
  induction l as [|y l IH]; cbn [ins_sorted]; [reflexivity|].
  destruct (key_of k (rid x)); [|reflexivity]. destruct (key_of k (rid y)); [|reflexivity].
  destruct (text_leb t t0); [reflexivity|]. rewrite IH. apply perm_swap.
Qed.

Lemma isort_perm k l : Permutation (isort k l) l.
Proof. unfold isort. induction l as [|x l IH]; cbn [fold_right]; [reflexivity|]. rewrite ins_sorted_perm. now constructor. Qed.

Lemma py_sort_perm k r l : Permutation (py_sort k r l) l.
Proof.
  unfold py_sort. destruct r; [|apply isort_perm].
  rewrite <- Permutation_rev, isort_perm. symmetry. apply Permutation_rev.
Qed.

Lemma go_rel (sd : rt -> bool -> rt * bool) (go : list rt -> bool -> list rt * bool) :
  (forall fl, go [] fl = ([], fl)) ->
  (forall c l fl, go (c :: l) fl = let (c', f1) := sd c fl in let (r', f2) := go l f1 in (c' :: r', f2)) ->
  (forall c fl, Rel c (fst (sd c fl))) ->
  forall l fl, Forall2 Rel l (fst (go l fl)).
Proof.
  intros G0 G1 Hsd. induction l as [|c l IH]; intros fl.
  - rewrite G0. constructor.
  - rewrite G1. specialize (Hsd c fl). destruct (sd c fl) as [c' f1]. specialize (IH f1).
    destruct (go l f1) as [r' f2]. cbn [fst] in *. now constructor.
Qed.

Lemma sort_deep_rel : forall fuel k rev t failed, Rel t (fst (sort_deep fuel k rev t failed)).
Proof.
  induction fuel as [|fuel IH]; intros k rev t failed; [apply Rel_refl|].
  destruct t as [id i ch]. cbn [sort_deep]. destruct failed; [apply Rel_refl|].
  destruct ch as [|c0 ch0]; [apply Rel_refl|].
  destruct (negb (keys_ok k (c0 :: ch0))); [apply Rel_refl|].
  cbv zeta. cbn [fst]. split; [reflexivity|]. split; [reflexivity|]. cbn [rch].
  apply (LRel_trans _ (py_sort k rev (c0 :: ch0))).
  - apply perm_LRel. symmetry. apply py_sort_perm.
  - apply Forall2_Rel_LRel. apply (go_rel (sort_deep fuel k rev)); [reflexivity|reflexivity|apply IH].
Qed.

Lemma sort_list_rel k rev deep ch : LRel ch (fst (sort_list k rev deep ch)).
Proof.
  unfold sort_list. destruct ch as [|c0 ch0]; [apply LRel_refl|].
  destruct (Nat.eqb (length (c0 :: ch0)) 1 && negb deep); [apply LRel_refl|].
  destruct (negb (keys_ok k (c0 :: ch0))); [apply LRel_refl|].
  cbv zeta. destruct deep.
  - apply (LRel_trans _ (py_sort k rev (c0 :: ch0))).
    + apply perm_LRel. symmetry. apply py_sort_perm.
    + apply Forall2_Rel_LRel. apply (go_rel (sort_deep (S (size_f (c0 :: ch0))) k rev)); [reflexivity|reflexivity|apply sort_deep_rel].
  - cbn [fst]. apply perm_LRel. symmetry. apply py_sort_perm.
Qed.

(* SUB-STEP: rearrange the child list at a path *)
Lemma WF_rearrange t pq ch ch' :
  WF t -> get_ch pq (forest_of t) = Some ch -> LRel ch ch' ->
  WF (set_forest t (upd_ch pq (fun _ => ch') (forest_of t)))
  /\ Permutation (ids (forest_of t)) (ids (upd_ch pq (fun _ => ch') (forest_of t))).
Proof.
  intros H G [L1 L2]. set (f := forest_of t) in *. set (f' := upd_ch pq (fun _ => ch') f).
  destruct (upd_ch_context pq f 0 ch G) as (A & B & E1 & E2). specialize (E2 (fun _ => ch')). fold f' in E2. cbn beta in E2.
  assert (P : Permutation (rows 0 f) (rows 0 f')).
  { rewrite E1, E2. apply Permutation_app_head. apply Permutation_app_tail. apply L1. }
  assert (Pi : Permutation (ids f) (ids f')).
  { rewrite <- (rows_ids f 0), <- (rows_ids f' 0). now apply Permutation_map. }
  assert (Pk : Permutation (keys f) (keys f')).
  { rewrite <- (rows_keys' f 0), <- (rows_keys' f' 0). now apply Permutation_map. }
  split; [|exact Pi].
  destruct H as [H1 H2 H3 H4 H5 H6 H7]. fold f in H1, H2, H3, H6, H7.
  eapply WF_intro; [reflexivity| | | | |].
  - apply (Permutation_NoDup Pi H1).
  - intros Y. apply H2. now apply (Permutation_in _ (Permutation_sym Pi)).
  - now rewrite H3.
  - apply (IdxOK_perm _ (keys f)); [now repeat split|exact Pk].
  - unfold f'. apply (SU_upd pq f ch); auto. apply L2. now apply (SU_get pq f).
Qed.

Theorem WFx_op_sort w ti p k rev deep : WFw w -> WFx w (snd (op_sort w ti p k rev deep)).
Proof.
  intros H. unfold op_sort. destruct (get_tree w ti) as [t|] eqn:Gt; [|exact (WFx_refl w H)].
  destruct (parent_path p (forest_of t)) as [pq|]; [|exact (WFx_refl w H)].
  destruct (get_ch pq (forest_of t)) as [ch|] eqn:G; [|exact (WFx_refl w H)].
  assert (L := sort_list_rel k rev deep ch). destruct (sort_list k rev deep ch) as [ch' failed]. cbn [fst snd] in *.
  unfold put_tree. assert (Wt := WFw_tree w ti t H Gt).
  destruct (WF_rearrange t pq ch ch' Wt G L) as (W' & P).
  apply (WFx_put w ti t); auto. intros m Hm. left. now apply (Permutation_in _ (Permutation_sym P)).
Qed.

Theorem WFw_op_sort w ti p k rev deep : WFw w -> WFw (snd (op_sort w ti p k rev deep)).
Proof. intros H0. exact (proj1 (WFx_op_sort w ti p k rev deep H0)). Qed.

