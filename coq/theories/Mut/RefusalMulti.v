(* C13, refusal of the multi-source copies add(tree) and copy_to(add_self=False):
   all sources are validated before the first copy is made, and in a
   well-formed world no later add_child(node) of the sequence can be refused -
   so a refusal leaves the trees unchanged here too.

   This is the one place of the refusal half where the invariant is needed:
   with two equal data_ids among the top nodes of the source (a state C03
   excludes) the second copy would be refused after the first one was made. *)
From Coq Require Import List ZArith Bool Arith Lia Permutation.
From NT Require Import Sx Rose ListFacts RoseFacts Surgery SurgeryFacts Machine WF MachineFacts
  PreserveSteps PreserveOps PreserveCopy Effects RefusalC13.
Import ListNotations.

(* ---- small facts ---- *)
Lemma index_by_id_some s l : (exists y, In y l /\ rid y = s) <-> index_by_id s l <> None.
Proof.
  induction l as [|x l IH]; cbn [index_by_id].
  - split; [intros (y & [] & _)|congruence].
  - destruct (Nat.eqb (rid x) s) eqn:E.
    + apply Nat.eqb_eq in E. split; [discriminate|]. intros _. exists x. split; [now left|assumption].
    + apply Nat.eqb_neq in E. split.
      * intros (y & Hy & R). destruct Hy as [Hy|Hy]; [subst y; contradiction|].
        assert (X : index_by_id s l <> None) by (apply IH; now exists y).
        destruct (index_by_id s l); [discriminate|congruence].
      * intros H. assert (X : index_by_id s l <> None) by (destruct (index_by_id s l); [discriminate|congruence]).
        apply IH in X. destruct X as (y & Hy & R). exists y. split; [now right|assumption].
Qed.

Lemma owner_in : forall q f o c, get_ch q f = Some c -> owner q f o = o \/ In (owner q f o) (ids f).
Proof.
  intros q f o c G. destruct (get_ch_owner q f o c G) as [(_ & _ & E)|(s & Hs & E & _)]; [now left|right].
  rewrite <- E. unfold ids. now apply in_map.
Qed.

(* a node whose branch does not contain the owner of the edited child list is still there, untouched *)
Lemma upd_ch_keeps_node (g : list rt -> list rt) node :
  (forall c y, In y c -> In y (g c)) ->
  forall q f o c, get_ch q f = Some c -> In node (pre_f f) -> ~ In (owner q f o) (ids_t node) ->
  In node (pre_f (upd_ch q g f)).
Proof.
  intros Hg. induction q as [|i rest IH]; intros f o c G Hn Ho.
  - cbn [upd_ch]. apply in_flat_map in Hn. destruct Hn as (y & Hy & Hn). apply in_flat_map. exists y. split; [now apply Hg|assumption].
  - cbn [get_ch owner upd_ch] in *. destruct (nth_error f i) as [t0|] eqn:E; [|discriminate].
    destruct (nth_error_split f i E) as (a & b & -> & <-). rewrite upd_nth_split.
    rewrite flat_map_app in Hn. cbn [flat_map] in Hn. rewrite flat_map_app. cbn [flat_map].
    apply in_app_or in Hn. destruct Hn as [Hn|Hn]; [apply in_or_app; now left|].
    apply in_app_or in Hn. destruct Hn as [Hn|Hn]; [|apply in_or_app; right; apply in_or_app; now right].
    apply in_or_app. right. apply in_or_app. left.
    rewrite pre_unfold in Hn. destruct Hn as [<-|Hn].
    + exfalso. apply Ho. rewrite ids_t_unfold. destruct (owner_in rest (rch t0) (rid t0) c G) as [->|X]; [now left|now right].
    + destruct t0 as [id0 inf0 ch0]. cbn [set_ch rch rid] in *. cbn [pre]. right. apply (IH ch0 id0 c); assumption.
Qed.

Lemma place_keeps nb x c y : In y c -> In y (place nb x c).
Proof.
  intros H. destruct (place_split nb x c) as (a & b0 & -> & ->). apply in_app_or in H. apply in_or_app.
  destruct H; [now left|right; now right].
Qed.

(* ---- the uniqueness test of Tree._register, read on the rows of the tree ---- *)
Lemma key_row f n d : In (n, d) (keys f) -> exists q inf, In (q, n, inf) (rows 0 f) /\ i_did inf = d.
Proof.
  intros H. rewrite <- (rows_keys' f 0) in H. apply in_map_iff in H. destruct H as ([[q c] inf] & E & Hr).
  unfold r_key, r_id, r_did in E. cbn [fst snd] in E. injection E as -> <-. now exists q, inf.
Qed.

Lemma row_key f q n inf : In (q, n, inf) (rows 0 f) -> In (n, i_did inf) (keys f).
Proof.
  intros H. rewrite <- (rows_keys' f 0). change (n, i_did inf) with (r_key (q, n, inf)). now apply in_map.
Qed.

Lemma collides_rows t p d : WF t ->
  (collides t p d = true <-> exists c inf, In (p, c, inf) (rows 0 (forest_of t)) /\ i_did inf = d).
Proof.
  intros H. unfold collides. rewrite existsb_exists. split.
  - intros (c & Hc & Hp). destruct (parent_of c (forest_of t)) as [q|] eqn:E; [|discriminate].
    apply Nat.eqb_eq in Hp. subst q. apply (parent_of_rows c _ p (wf_nodup t H)) in E. destruct E as (inf & Hr).
    apply (idx_get_keys t c d H) in Hc. destruct (key_row _ _ _ Hc) as (q' & inf' & Hr' & Ed).
    assert (X := rows_id_unique _ 0 _ _ (wf_nodup t H) Hr Hr' eq_refl). injection X as _ ->. now exists c, inf'.
  - intros (c & inf & Hr & Ed). exists c. split.
    + apply (idx_get_keys t c d H). rewrite <- Ed. now apply (row_key _ p).
    + assert (E : parent_of c (forest_of t) = Some p) by (apply parent_of_rows; [apply H|now exists inf]).
      rewrite E. apply Nat.eqb_refl.
Qed.

(* ------------------------------------------------------------------ *)
Section Multi.
Variables (ti p sti : nat) (b : before) (deep : option bool).
Let dp : bool := match deep with Some x => x | None => false end.
Let nb : nbefore := norm_before b.

(* what a successful add_child(node) did *)
Lemma add_node_ok_inv w s r w' :
  op_add_node w ti p sti s None None b deep = (Ok r, w') ->
  exists t st node pq ch x r' ix' n',
    get_tree w ti = Some t /\ get_tree w sti = Some st /\ get_node s (forest_of st) = Some node /\
    parent_path p (forest_of t) = Some pq /\ get_ch pq (forest_of t) = Some ch /\
    before_ok nb ch = true /\
    rid x = next w /\ rdid x = rdid node /\ (forall m, In m (ids (rch x)) -> next w < m) /\
    w' = put_tree (W (trees w) n') ti (set_all t (upd_ch pq (place nb x) (forest_of t)) r' ix').
Proof.
  unfold op_add_node. destruct (get_tree w ti) as [t|] eqn:Gt; [|discriminate].
  destruct (get_tree w sti) as [st|] eqn:Gs; [|discriminate].
  destruct (get_node s (forest_of st)) as [node|] eqn:Gn; [|discriminate].
  destruct (parent_path p (forest_of t)) as [pq|] eqn:Gp; [|discriminate].
  destruct (get_ch pq (forest_of t)) as [ch|] eqn:Gc; [|discriminate].
  repeat match goal with |- context [if ?c then (Err _, _) else _] => destruct c eqn:?; [discriminate|] end.
  fold dp. fold nb in Heqb4.
  match goal with |- context [if dp then ?a else ?bb] => destruct (if dp then a else bb) as [kids n'] eqn:Ek end.
  match goal with |- context [register_all ?a ?bb ?c] => destruct (register_all a bb c) as [r' ix'] end.
  match goal with |- context [upd_ch pq (place _ ?xx) _] => set (x := xx) end.
  intros X. injection X as _ <-.
  exists t, st, node, pq, ch, x, r', ix', n'. repeat (split; [try reflexivity; try assumption|]); try reflexivity.
  - now apply negb_false_iff in Heqb4.
  - unfold x. cbn [rch]. intros m Hm. destruct dp.
    + destruct (proj2 copy_spec (rch node) (typed t) None (S (next w))) as (_ & C2 & _). rewrite Ek in C2. cbn [fst] in C2.
      rewrite C2 in Hm. apply in_seq in Hm. lia.
    + injection Ek as <- _. destruct Hm.
Qed.

(* [safe w s d]: the source s (with data_id d) passes every check of add_child(node) below p *)
Definition safe (w : world) (s : nat) (d : did) : Prop :=
  forall t st, get_tree w ti = Some t -> get_tree w sti = Some st ->
    (exists node, get_node s (forest_of st) = Some node /\ rdid node = d)
    /\ collides t p d = false
    /\ (dp = true -> ti = sti -> is_desc_or_self s p (forest_of st) = false).

(* [bok w]: `before` is acceptable for the children of p *)
Definition bok (w : world) : Prop :=
  forall t pq ch, get_tree w ti = Some t -> parent_path p (forest_of t) = Some pq -> get_ch pq (forest_of t) = Some ch ->
    before_ok nb ch = true.

Lemma ok_bok w s r w' : op_add_node w ti p sti s None None b deep = (Ok r, w') -> bok w.
Proof.
  intros E. destruct (add_node_ok_inv w s r w' E) as (t & st & node & pq & ch & x & r' & ix' & n' & Gt & _ & _ & Gp & Gc & B & _).
  intros t0 pq0 ch0 Gt0 Gp0 Gc0. congruence.
Qed.

(* a safe source is not refused with one of the library's errors *)
Lemma safe_no_lib w s d e :
  WFw w -> safe w s d -> bok w -> fst (op_add_node w ti p sti s None None b deep) = Err e -> library_error e = false.
Proof.
  intros H S B. unfold op_add_node.
  destruct (get_tree w ti) as [t|] eqn:Gt; [|intros X; now injection X as <-].
  destruct (get_tree w sti) as [st|] eqn:Gs; [|intros X; now injection X as <-].
  destruct (S t st Gt Gs) as ((node & Gn & Ed) & Col & Own). rewrite Gn.
  destruct (parent_path p (forest_of t)) as [pq|] eqn:Gp; [|intros X; now injection X as <-].
  destruct (get_ch pq (forest_of t)) as [ch|] eqn:Gc; [|intros X; now injection X as <-].
  assert (Wt := WFw_tree w ti t H Gt).
  destruct (typed t && negb (typed st)); [intros X; now injection X as <-|].
  fold dp. rewrite andb_false_r.
  destruct (Nat.eqb ti sti && _) eqn:E3.
  { (* same tree, already a child of p: then the uniqueness test fires as well *)
    exfalso. apply andb_true_iff in E3. destruct E3 as [E3 E4]. apply Nat.eqb_eq in E3.
    assert (st = t) by (rewrite <- E3 in Gs; congruence). subst st.
    destruct (parent_of s (forest_of t)) as [q|] eqn:Ep; [|discriminate]. apply Nat.eqb_eq in E4. subst q.
    apply (parent_of_rows s _ p (wf_nodup t Wt)) in Ep. destruct Ep as (inf & Hr).
    destruct (get_node_spec s _ node Gn) as (Hn & Rn).
    assert (K : In (s, d) (keys (forest_of t))) by (rewrite <- Rn, <- Ed; now apply keys_in).
    destruct (key_row _ _ _ K) as (q' & inf' & Hr' & Ed').
    assert (X := rows_id_unique _ 0 _ _ (wf_nodup t Wt) Hr Hr' eq_refl). injection X as _ ->.
    assert (C : collides t p d = true) by (apply (collides_rows t p d Wt); now exists s, inf').
    congruence. }
  cbn [negb andb]. destruct (dp && Nat.eqb ti sti && is_desc_or_self s p (forest_of st)) eqn:E5.
  { exfalso. apply andb_true_iff in E5. destruct E5 as [E5 E6]. apply andb_true_iff in E5. destruct E5 as [E5 E7].
    apply Nat.eqb_eq in E7. rewrite (Own E5 E7) in E6. discriminate. }
  fold nb. rewrite (B t pq ch Gt Gp Gc). cbn [negb].
  destruct (negb (typed t) && typed st); [intros X; now injection X as <-|].
  rewrite Ed, Col.
  match goal with |- context [if dp then ?a else ?bb] => destruct (if dp then a else bb) as [kids n'] end.
  match goal with |- context [register_all ?a ?bb ?c] => destruct (register_all a bb c) as [r' ix'] end.
  discriminate.
Qed.

(* everything the later sources need to know about one successful copy *)
Lemma add_node_ok_ctx w s1 r w' :
  WFw w -> op_add_node w ti p sti s1 None None b deep = (Ok r, w') ->
  exists t st node1 x t',
    get_tree w ti = Some t /\ get_tree w sti = Some st /\ get_node s1 (forest_of st) = Some node1 /\
    rdid x = rdid node1 /\ rid x = next w /\ (forall m, In m (ids (rch x)) -> next w < m) /\
    WFw w' /\ get_tree w' ti = Some t' /\ (forall tj, tj <> ti -> get_tree w' tj = get_tree w tj) /\
    Permutation (rows 0 (forest_of t')) (rows_t p x ++ rows 0 (forest_of t)) /\ p < next w /\
    (forall node, In node (pre_f (forest_of t)) -> ~ In p (ids_t node) -> In node (pre_f (forest_of t'))).
Proof.
  intros H E.
  assert (H' : WFw w') by (assert (X := WFw_op_add_node w ti p sti s1 None None b deep H); rewrite E in X; exact X).
  destruct (add_node_ok_inv w s1 r w' E) as (t & st & node1 & pq & ch & x & r' & ix' & n' & Gt & Gs & Gn & Gp & Gc & B & Rx & Dx & Kx & Ew).
  set (t' := set_all t (upd_ch pq (place nb x) (forest_of t)) r' ix') in *.
  assert (Wt := WFw_tree w ti t H Gt).
  assert (Eo : owner pq (forest_of t) 0 = p) by (apply (parent_path_owner p _ pq ch Gp Gc)).
  exists t, st, node1, x, t'. repeat (split; [assumption|]). split; [|split; [|split; [|split]]].
  - subst w'. apply (get_put_same (W (trees w) n') ti t t'). exact Gt.
  - intros tj Hj. subst w'. rewrite get_put_other by congruence. reflexivity.
  - unfold t'. cbn [forest_of set_all]. rewrite <- Eo. apply (rows_insert_perm pq (forest_of t) ch 0 nb x Gc).
  - destruct (parent_path_spec p _ pq ch 0 Gp Gc) as [(-> & _)|(_ & s & Hs & Rs & _)]; [apply H|].
    apply (WFw_tree_lt w ti t p H Gt). rewrite <- Rs. unfold ids. now apply in_map.
  - intros node Hn Hp. unfold t'. cbn [forest_of set_all].
    apply (upd_ch_keeps_node (place nb x) node (place_keeps nb x) pq (forest_of t) 0 ch Gc Hn). now rewrite Eo.
Qed.

Lemma step_keeps_bok w s1 r w' :
  WFw w -> op_add_node w ti p sti s1 None None b deep = (Ok r, w') -> bok w'.
Proof.
  intros H E. assert (B := ok_bok w s1 r w' E).
  destruct (add_node_ok_inv w s1 r w' E) as (t & st & node1 & pq & ch & x0 & r' & ix' & n' & Gt & _ & _ & Gp & Gc & Bo & _).
  destruct (add_node_ok_ctx w s1 r w' H E) as (t0 & st0 & node0 & x & t' & Gt0 & _ & _ & _ & _ & _ & H' & Gt' & _ & P & _).
  assert (t0 = t) by congruence. subst t0.
  intros t1 pq1 ch1 Gt1 Gp1 Gc1. assert (t1 = t') by congruence. subst t1.
  unfold before_ok in *. destruct nb as [| z | s0]; try reflexivity.
  destruct (index_by_id s0 ch) as [j|] eqn:I; [|discriminate].
  assert (X : exists y, In y ch /\ rid y = s0) by (apply index_by_id_some; congruence).
  destruct X as (y & Hy & Ry).
  assert (Hr : In (p, rid y, rinfo y) (rows 0 (forest_of t))).
  { rewrite <- (parent_path_owner p _ pq ch Gp Gc). now apply (rows_child_in pq _ ch). }
  assert (Hr' : In (p, rid y, rinfo y) (rows 0 (forest_of t'))).
  { apply (Permutation_in _ (Permutation_sym P)). apply in_or_app. now right. }
  assert (Wt' := WFw_tree w' ti t' H' Gt').
  rewrite <- (parent_path_owner p _ pq1 ch1 Gp1 Gc1) in Hr'.
  destruct (rows_owner_member pq1 _ ch1 _ _ (wf_nodup t' Wt') (wf_pos t' Wt') Gc1 Hr') as (y' & Hy' & Ry' & _).
  assert (Z : index_by_id s0 ch1 <> None) by (apply index_by_id_some; exists y'; split; [assumption|congruence]).
  destruct (index_by_id s0 ch1); [reflexivity|congruence].
Qed.

Lemma step_keeps_safe w s1 r w' d1 s2 d2 :
  WFw w -> op_add_node w ti p sti s1 None None b deep = (Ok r, w') ->
  safe w s1 d1 -> safe w s2 d2 -> d1 <> d2 -> safe w' s2 d2.
Proof.
  intros H E S1 S2 Hd.
  destruct (add_node_ok_ctx w s1 r w' H E) as (t & st & node1 & x & t' & Gt & Gs & Gn1 & Dx & Rx & Kx & H' & Gt' & Go & P & Lp & Keep).
  destruct (S1 t st Gt Gs) as ((node1' & Gn1' & Ed1) & _). assert (node1' = node1) by congruence. subst node1'.
  destruct (S2 t st Gt Gs) as ((node2 & Gn2 & Ed2) & Col2 & Own2).
  assert (Wt := WFw_tree w ti t H Gt). assert (Wt' := WFw_tree w' ti t' H' Gt').
  intros t1 st1 Gt1 Gs1. assert (t1 = t') by congruence. subst t1.
  split; [|split].
  - (* the source is still there, with its data_id *)
    destruct (Nat.eq_dec sti ti) as [Es|Es].
    + assert (st = t) by (rewrite Es in Gs; congruence). subst st.
      assert (st1 = t') by (rewrite Es in Gs1; congruence). subst st1.
      destruct (get_node_spec s2 _ node2 Gn2) as (Hn2 & Rn2).
      assert (K : In (s2, d2) (keys (forest_of t))) by (rewrite <- Rn2, <- Ed2; now apply keys_in).
      destruct (key_row _ _ _ K) as (q & inf & Hr & Ei).
      assert (Hr' : In (q, s2, inf) (rows 0 (forest_of t'))).
      { apply (Permutation_in _ (Permutation_sym P)). apply in_or_app. now right. }
      apply row_key in Hr'. rewrite Ei in Hr'. unfold keys in Hr'. apply in_map_iff in Hr'.
      destruct Hr' as (node' & Ek & Hn'). unfold key_of_node in Ek. injection Ek as R' D'.
      exists node'. split; [|assumption]. apply get_node_unique; [apply Wt'|assumption|assumption].
    + rewrite (Go sti Es) in Gs1. assert (st1 = st) by congruence. subst st1. now exists node2.
  - (* no child of p carries its data_id *)
    destruct (collides t' p d2) eqn:C; [|reflexivity]. exfalso.
    apply (collides_rows t' p d2 Wt') in C. destruct C as (c & inf & Hr & Ei).
    apply (Permutation_in _ P) in Hr. apply in_app_or in Hr. destruct Hr as [Hr|Hr].
    + rewrite rows_t_unfold in Hr. destruct Hr as [Hr|Hr].
      * injection Hr as _ <-. apply Hd. rewrite <- Ed1, <- Dx. exact Ei.
      * destruct (rows_par _ _ _ Hr) as [X|X]; unfold r_par in X; cbn [fst] in X.
        -- lia.
        -- apply Kx in X. lia.
    + assert (C : collides t p d2 = true) by (apply (collides_rows t p d2 Wt); now exists c, inf). congruence.
  - (* p is still outside its branch *)
    intros Edp Ets. assert (st = t) by (rewrite <- Ets in Gs; congruence). subst st.
    assert (st1 = t') by (rewrite <- Ets in Gs1; congruence). subst st1.
    assert (O := Own2 Edp Ets). unfold is_desc_or_self in O. rewrite Gn2 in O.
    destruct (get_node_spec s2 _ node2 Gn2) as (Hn2 & Rn2).
    assert (Np : ~ In p (ids_t node2)).
    { intros X. assert (Y : existsb (Nat.eqb p) (ids_t node2) = true) by (apply existsb_exists; exists p; split; [assumption|apply Nat.eqb_refl]).
      congruence. }
    assert (G' : get_node s2 (forest_of t') = Some node2) by (apply get_node_unique; [apply Wt'|now apply Keep|assumption]).
    unfold is_desc_or_self. now rewrite G'.
Qed.

Lemma Forall2_weaken_r {A B} (P Q : A -> B -> Prop) l1 l2 :
  Forall2 P l1 l2 -> (forall a b0, In b0 l2 -> P a b0 -> Q a b0) -> Forall2 Q l1 l2.
Proof.
  induction 1 as [|a b0 l1 l2 Hab F IH]; intros HQ; constructor.
  - apply HQ; [now left|assumption].
  - apply IH. intros a' b' Hb'. apply HQ. now right.
Qed.

(* once the first copy has been made, no later one is refused *)
Lemma add_nodes_no_lib : forall srcs ds w acc e,
  WFw w -> bok w -> Forall2 (safe w) srcs ds -> NoDup ds ->
  fst (add_nodes w ti p sti srcs b deep acc) = Err e -> library_error e = false.
Proof.
  induction srcs as [|s rest IH]; intros ds w acc e H B F N; cbn [add_nodes]; [discriminate|].
  inversion F as [|s' d rest' ds' Sd Fr]; subst. inversion N as [|d' l' Nd Nr]; subst.
  destruct (op_add_node w ti p sti s None None b deep) as [[r|e'] w'] eqn:E.
  - apply (IH ds' w').
    + assert (X := WFw_op_add_node w ti p sti s None None b deep H). rewrite E in X. exact X.
    + apply (step_keeps_bok w s r w' H E).
    + apply (Forall2_weaken_r _ _ _ _ Fr). intros s2 d2 Hd2 S2. apply (step_keeps_safe w s r w' d s2 d2 H E Sd S2).
      intros ->. contradiction.
    + assumption.
  - cbn [fst]. intros X. injection X as <-. apply (safe_no_lib w s d e' H Sd B). now rewrite E.
Qed.

Theorem add_nodes_refusal srcs ds w acc e :
  WFw w -> Forall2 (safe w) srcs ds -> NoDup ds ->
  fst (add_nodes w ti p sti srcs b deep acc) = Err e -> library_error e = true ->
  trees (snd (add_nodes w ti p sti srcs b deep acc)) = trees w.
Proof.
  intros H F N E L. destruct srcs as [|s rest]; [discriminate E|].
  destruct (op_add_node w ti p sti s None None b deep) as [[r|e'] w'] eqn:E1.
  - exfalso. assert (B := ok_bok w s r w' E1).
    assert (X := add_nodes_no_lib (s :: rest) ds w acc e H B F N E). congruence.
  - cbn [add_nodes]. rewrite E1. cbn [snd].
    assert (K := keeps_op_add_node w ti p sti s None None b deep). unfold keeps in K. rewrite E1 in K. exact K.
Qed.

(* the up-front checks of add(tree) / copy_to establish [safe] for every source *)
Lemma safe_of_checks w t st srcs x :
  get_tree w ti = Some t -> get_tree w sti = Some st -> NoDup (ids (forest_of st)) ->
  In x (pre_f (forest_of st)) -> In (rid x) srcs ->
  any_collides t p st srcs = false -> any_into_own_branch ti sti st srcs p deep = false ->
  safe w (rid x) (rdid x).
Proof.
  intros Gt Gs ND Hx Hs AC AO t0 st0 Gt0 Gs0. assert (t0 = t) by congruence. assert (st0 = st) by congruence. subst t0 st0.
  assert (G : get_node (rid x) (forest_of st) = Some x) by (now apply get_node_unique).
  split; [now exists x|]. split.
  - destruct (collides t p (rdid x)) eqn:C; [|reflexivity]. exfalso.
    assert (Y : any_collides t p st srcs = true); [|congruence].
    unfold any_collides. apply existsb_exists. exists (rid x). split; [assumption|]. unfold did_of. rewrite G. exact C.
  - intros Edp Ets. destruct (is_desc_or_self (rid x) p (forest_of st)) eqn:C; [|reflexivity]. exfalso.
    assert (Y : any_into_own_branch ti sti st srcs p deep = true); [|congruence].
    unfold any_into_own_branch. subst dp. destruct deep as [[|]|]; try discriminate Edp.
    apply andb_true_iff. split; [now apply Nat.eqb_eq|]. apply existsb_exists. now exists (rid x).
Qed.

End Multi.

Lemma Forall2_map_same {A B C} (P : B -> C -> Prop) (g : A -> B) (h : A -> C) l :
  (forall x, In x l -> P (g x) (h x)) -> Forall2 P (map g l) (map h l).
Proof. induction l as [|x l IH]; intros H; cbn [map]; constructor; [apply H; now left|apply IH; intros y Hy; apply H; now right]. Qed.

(* ---- add(tree) ---- *)
Theorem add_tree_refusal w ti p sti b deep e :
  WFw w -> fst (op_add_tree w ti p sti b deep) = Err e -> library_error e = true ->
  trees (snd (op_add_tree w ti p sti b deep)) = trees w.
Proof.
  intros H. unfold op_add_tree.
  destruct (get_tree w ti) as [t|] eqn:Gt; [|reflexivity]. destruct (get_tree w sti) as [st|] eqn:Gs; [|reflexivity].
  destruct (typed t && negb (typed st)); [reflexivity|]. cbv zeta.
  destruct (any_collides t p st (map rid (forest_of st))) eqn:AC; [reflexivity|].
  destruct (any_into_own_branch ti sti st (map rid (forest_of st)) p _) eqn:AO; [reflexivity|].
  set (dpo := match deep with Some x => Some x | None => Some true end) in *.
  set (jb := match b with BTrue => Some 0 | BIdx z => Some (py_index z _) | _ => None end).
  set (b' := match jb with Some j => BIdx (Z.of_nat j) | None => b end).
  set (L := match jb with Some _ => rev (forest_of st) | None => forest_of st end).
  assert (EL : match jb with Some _ => rev (map rid (forest_of st)) | None => map rid (forest_of st) end = map rid L)
    by (unfold L; destruct jb; [now rewrite map_rev|reflexivity]).
  rewrite EL.
  assert (Ws := WFw_tree w sti st H Gs).
  assert (InL : forall x, In x L -> In x (forest_of st)) by (unfold L; intros x Hx; destruct jb; [now apply in_rev|assumption]).
  assert (PL : Permutation L (forest_of st)) by (unfold L; destruct jb; [symmetry; apply Permutation_rev|reflexivity]).
  assert (F : Forall2 (safe ti p sti dpo w) (map rid L) (map rdid L)).
  { apply Forall2_map_same. intros x Hx. apply (safe_of_checks ti p sti dpo w t st (map rid (forest_of st)) x Gt Gs); try assumption.
    - apply Ws.
    - apply in_pre_f_top. now apply InL.
    - apply in_map. now apply InL. }
  assert (N : NoDup (map rdid L)).
  { apply (Permutation_NoDup (Permutation_map rdid (Permutation_sym PL))). apply SU_top. apply Ws. }
  destruct (add_nodes w ti p sti (map rid L) b' dpo []) as [[r|e'] w'] eqn:EA; [discriminate|].
  cbn [fst snd]. intros X Le. injection X as ->.
  assert (R := add_nodes_refusal ti p sti b' dpo (map rid L) (map rdid L) w [] e H F N). rewrite EA in R. now apply R.
Qed.

(* ---- copy_to(add_self=False), Tree.copy_to ---- *)
Theorem copy_to_refusal w sti src ti target add_self b deep e :
  WFw w -> fst (op_copy_to w sti src ti target add_self b deep) = Err e -> library_error e = true ->
  trees (snd (op_copy_to w sti src ti target add_self b deep)) = trees w.
Proof.
  intros H. unfold op_copy_to. destruct add_self.
  { intros E _. assert (K := keeps_op_add_node w ti target sti src None None b (Some deep)). unfold keeps in K. rewrite E in K. exact K. }
  destruct (get_tree w ti) as [t|] eqn:Gt; [|reflexivity]. destruct (get_tree w sti) as [st|] eqn:Gs; [|reflexivity].
  destruct (children_of src (forest_of st)) as [[|c0 ch0]|] eqn:Gc; [reflexivity| |reflexivity].
  set (ch := c0 :: ch0) in *.
  destruct (any_collides t target st (map rid ch)) eqn:AC; [reflexivity|].
  destruct (any_into_own_branch ti sti st (map rid ch) target (Some deep)) eqn:AO; [reflexivity|].
  assert (Ws := WFw_tree w sti st H Gs).
  unfold children_of in Gc. destruct (parent_path src (forest_of st)) as [pq|] eqn:Gp; [|discriminate].
  assert (F : Forall2 (safe ti target sti (Some deep) w) (map rid ch) (map rdid ch)).
  { apply Forall2_map_same. intros x Hx. apply (safe_of_checks ti target sti (Some deep) w t st (map rid ch) x Gt Gs); try assumption.
    - apply Ws.
    - apply (get_ch_pre pq _ ch Gc). now apply in_pre_f_top.
    - now apply in_map. }
  assert (N : NoDup (map rdid ch)) by (apply SU_top; apply (SU_get pq (forest_of st)); [apply Ws|assumption]).
  destruct (add_nodes w ti target sti (map rid ch) BNone (Some deep) []) as [[r|e'] w'] eqn:EA; [discriminate|].
  cbn [fst snd]. intros X Le. injection X as ->.
  assert (R := add_nodes_refusal ti target sti BNone (Some deep) (map rid ch) (map rdid ch) w [] e H F N). rewrite EA in R. now apply R.
Qed.

(* ---- C13, refusal, for every operation ---- *)
Theorem refusal_all w o e :
  WFw w -> fst (step w o) = Err e -> library_error e = true -> trees (snd (step w o)) = trees w.
Proof.
  intros H E L. destruct (multi_source o) eqn:M.
  - destruct o; try discriminate M; cbn [step] in *.
    + now apply (add_tree_refusal w ti p sti b deep e).
    + now apply (copy_to_refusal w sti src ti target add_self b deep e).
  - apply (refusal_single w o e M E). now apply library_not_crash.
Qed.
