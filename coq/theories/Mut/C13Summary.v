(* C13: the refusal theorem combined with the invariant theorems of Invariant.v:
   what a refused operation leaves behind, and the statement for every world
   that a history of public operations can reach (no hypothesis left). *)
From Coq Require Import List ZArith Bool Arith Lia.
From NT Require Import Sx Rose Surgery Machine WF PreserveSteps Invariant RefusalC13 RefusalMulti Faults.
Import ListNotations.

(* a refused operation: same trees, a well-formed world, the allocator only moved forward
   (so a node object that was constructed and dropped is never confused with a later one) *)
Theorem refusal_summary w o e :
  WFw w -> fst (step w o) = Err e -> library_error e = true ->
  trees (snd (step w o)) = trees w /\ next w <= next (snd (step w o)) /\ WFw (snd (step w o)).
Proof.
  intros H E L. split; [exact (refusal_all w o e H E L)|]. destruct (WFx_step w o H) as (H' & Ln & _). now split.
Qed.

(* every world reachable from the empty world by any history of operations (valid, refused,
   failing, with any callback tables): a refusal changes nothing *)
Theorem reachable_refusal ops o e :
  fst (step (run ops empty_world) o) = Err e -> library_error e = true ->
  trees (snd (step (run ops empty_world) o)) = trees (run ops empty_world).
Proof. intros E L. apply (refusal_all _ o e); [apply WFw_run, WFw_empty|assumption|assumption]. Qed.

(* refusals can be dropped from a history as far as the observable state is concerned:
   running the refused operation and then anything else that is refused again ... is the
   special case used by the harness: the state after a refused step is the state before *)
Corollary refused_step_invisible ops o e :
  fst (step (run ops empty_world) o) = Err e -> library_error e = true ->
  sx_world (run (ops ++ [o]) empty_world) = sx_world (run ops empty_world).
Proof.
  intros E L. unfold run. rewrite fold_left_app. cbn [fold_left]. apply trees_sx_world. now apply (reachable_refusal ops o e).
Qed.
