(* C02: under WF, lookups and clone queries are exact. *)
From Coq Require Import List ZArith Bool Arith Lia Permutation.
From NT Require Import Sx Rose ListFacts RoseFacts Surgery SurgeryFacts Machine WF MachineFacts PreserveSteps Queries.
Import ListNotations.

(* the nodes of the forest carrying data_id d *)
Definition nodes_with (f : forest) (d : did) : list nat :=
  map rid (filter (fun s => did_eqb (rdid s) d) (pre_f f)).

Lemma keys_in_iff f n d : In (n, d) (keys f) <-> exists s, In s (pre_f f) /\ rid s = n /\ rdid s = d.
Proof.
  unfold keys. rewrite in_map_iff. split.
  - intros (s & E & Hs). injection E as <- <-. now exists s.
  - intros (s & Hs & <- & <-). now exists s.
Qed.

Lemma did_of_keys f n d : NoDup (ids f) -> (did_of n f = Some d <-> In (n, d) (keys f)).
Proof.
  intros ND. unfold did_of. rewrite keys_in_iff. split.
  - destruct (get_node n f) as [s|] eqn:E; [|discriminate]. cbn. intros X. injection X as <-.
    destruct (get_node_spec n f s E) as (H1 & H2). now exists s.
  - intros (s & Hs & R & Dd). rewrite (get_node_unique n f s ND Hs R). cbn. now rewrite Dd.
Qed.

Lemma nodes_with_in f n d : In n (nodes_with f d) <-> In (n, d) (keys f).
Proof.
  unfold nodes_with. rewrite in_map_iff, keys_in_iff. split.
  - intros (s & R & Hs). apply filter_In in Hs. destruct Hs as [Hs E]. apply did_eqb_eq in E. now exists s.
  - intros (s & Hs & R & E). exists s. split; [assumption|]. apply filter_In. split; [assumption|]. now apply did_eqb_eq.
Qed.

Lemma NoDup_map_filter {X Y} (g : X -> Y) p (l : list X) : NoDup (map g l) -> NoDup (map g (filter p l)).
Proof.
  induction l as [|x l IH]; cbn; intros H; [constructor|]. inversion H as [|y l' H1 H2]; subst.
  destruct (p x); [|auto]. cbn. constructor; [|auto]. intros X0. apply H1.
  apply in_map_iff in X0. destruct X0 as (z & E & Hz). apply filter_In in Hz. rewrite <- E. apply in_map. tauto.
Qed.

Section UnderWF.
  Variable t : tstate.
  Hypothesis H : WF t.
  Let f := forest_of t.

  Lemma idx_group_nodup d : NoDup (idx_get d (idx t)).
  Proof.
    destruct (WF_spelled t H) as (_ & _ & _ & K & G & _). unfold idx_get.
    destruct (find (fun e => did_eqb (fst e) d) (idx t)) as [e|] eqn:E; [|constructor].
    apply find_some in E. destruct E as [E _]. rewrite Forall_forall in G. now apply (G e E).
  Qed.

  (* find_all(data_id=d) = exactly the nodes of the forest with that data_id *)
  Theorem find_all_exact d : Permutation (find_all_did t d) (nodes_with f d).
  Proof.
    apply NoDup_Permutation.
    - apply idx_group_nodup.
    - unfold nodes_with. apply NoDup_map_filter. apply H.
    - intros n. unfold find_all_did. rewrite (idx_get_keys t n d H), nodes_with_in. reflexivity.
  Qed.

  Theorem find_all_live n d : In n (find_all_did t d) <-> In n (ids f) /\ did_of n f = Some d.
  Proof.
    unfold find_all_did. rewrite (idx_get_keys t n d H), (did_of_keys f n d (wf_nodup t H)). split; [|tauto].
    intros X. split; [|assumption]. fold f in X. rewrite <- (keys_fst f). change n with (fst (n, d)). now apply in_map.
  Qed.

  Theorem find_first_exact d : match find_first_did t d with
                               | Some n => In n (ids f) /\ did_of n f = Some d
                               | None => forall n, In n (ids f) -> did_of n f <> Some d
                               end.
  Proof.
    unfold find_first_did. destruct (idx_get d (idx t)) as [|n l] eqn:E; cbn [hd_error].
    - intros n Hn X. assert (Y : In n (find_all_did t d)) by (apply find_all_live; now split).
      unfold find_all_did in Y. now rewrite E in Y.
    - apply find_all_live. unfold find_all_did. rewrite E. now left.
  Qed.

  Theorem find_node_id_exact n : find_node_id t n = Some n <-> In n (ids f).
  Proof.
    unfold find_node_id. destruct (existsb (Nat.eqb n) (reg t)) eqn:E.
    - split; [intros _|reflexivity]. apply existsb_exists in E. destruct E as (m & Hm & E). apply Nat.eqb_eq in E. subst m.
      apply (Permutation_in _ (wf_reg t H) Hm).
    - split; [discriminate|]. intros X. apply (Permutation_in _ (Permutation_sym (wf_reg t H))) in X.
      assert (Y : existsb (Nat.eqb n) (reg t) = true) by (apply existsb_exists; exists n; split; [assumption|apply Nat.eqb_refl]). congruence.
  Qed.

  Theorem contains_node_exact n : contains_node t n = true <-> In n (ids f).
  Proof.
    rewrite <- find_node_id_exact. unfold find_node_id, contains_node. destruct (existsb (Nat.eqb n) (reg t)); split; congruence.
  Qed.

  Lemma idx_key_inhabited d : In d (map fst (idx t)) <-> exists n, In (n, d) (keys f).
  Proof.
    split.
    - intros X. apply in_map_iff in X. destruct X as (e & <- & He).
      assert (Ne := wf_ine t H). rewrite Forall_forall in Ne. specialize (Ne e He).
      destruct (snd e) as [|n l] eqn:E; [contradiction|]. exists n.
      apply (Permutation_in _ (wf_idx t H)). unfold idx_flat. apply in_flat_map. exists e. split; [assumption|]. rewrite E. now left.
    - intros (n & X). apply (Permutation_in _ (Permutation_sym (wf_idx t H))) in X. now apply idx_flat_key in X.
  Qed.

  Theorem contains_did_exact d : contains_did t d = true <-> exists n, In n (ids f) /\ did_of n f = Some d.
  Proof.
    unfold contains_did. rewrite idx_has_In, idx_key_inhabited. split; intros (n & X); exists n.
    - apply find_all_live. unfold find_all_did. now apply (idx_get_keys t n d H).
    - apply (idx_get_keys t n d H). apply find_all_live in X. exact X.
  Qed.

  (* clones of a node: every other node with the same data_id, nothing else *)
  Theorem get_clones_exact n add_self c :
    In c (get_clones t n add_self) <->
    In n (ids f) /\ In c (ids f) /\ did_of c f = did_of n f /\ (add_self = true \/ c <> n).
  Proof.
    unfold get_clones. fold f. destruct (did_of n f) as [d|] eqn:E.
    - rewrite filter_In. fold (find_all_did t d). rewrite find_all_live, orb_true_iff, negb_true_iff, Nat.eqb_neq. fold f.
      assert (Hn : In n (ids f)). { apply (did_of_keys f n d (wf_nodup t H)) in E. rewrite <- (keys_fst f). change n with (fst (n, d)). now apply in_map. }
      tauto.
    - split; [intros []|]. intros (Hn & _). destruct (get_node_complete n f Hn) as (s & Es). unfold did_of in E. now rewrite Es in E.
  Qed.

  Theorem get_clones_nodup n add_self : NoDup (get_clones t n add_self).
  Proof. unfold get_clones. destruct (did_of n (forest_of t)); [apply NoDup_filter, idx_group_nodup|constructor]. Qed.

  Theorem is_clone_exact n : In n (ids f) ->
    (is_clone t n = true <-> exists c, c <> n /\ In c (ids f) /\ did_of c f = did_of n f).
  Proof.
    intros Hn. unfold is_clone. fold f. destruct (get_node_complete n f Hn) as (s & Es).
    assert (E : did_of n f = Some (rdid s)) by (unfold did_of; now rewrite Es). rewrite E.
    assert (Hin : In n (idx_get (rdid s) (idx t))) by (apply find_all_live; now split).
    assert (ND := idx_group_nodup (rdid s)). rewrite Nat.ltb_lt. split.
    - intros L. destruct (idx_get (rdid s) (idx t)) as [|a [|b l]] eqn:G; cbn in L; try lia.
      assert (X : a <> n \/ b <> n). { inversion ND as [|x l' N1 N2]; subst. destruct (Nat.eq_dec a n); [right|now left]. intros ->. apply N1. subst. now left. }
      destruct X as [X|X]; [exists a|exists b]; (split; [assumption|]); apply find_all_live; unfold find_all_did; rewrite G; cbn; tauto.
    - intros (c & Nc & Hc & Ec). assert (Hcin : In c (idx_get (rdid s) (idx t))) by (apply find_all_live; split; [assumption|congruence]).
      destruct (idx_get (rdid s) (idx t)) as [|a [|b l]]; cbn; try lia; [contradiction|].
      destruct Hin as [<-|[]]. destruct Hcin as [<-|[]]. contradiction.
  Qed.

  Theorem count_exact : count t = length (ids f).
  Proof. apply Permutation_length, H. Qed.

  Theorem count_unique_exact : count_unique t = length (nodup did_eq_dec (map rdid (pre_f f))).
  Proof.
    unfold count_unique. rewrite <- (map_length fst). apply Permutation_length. apply NoDup_Permutation.
    - apply H.
    - apply NoDup_nodup.
    - intros d. rewrite nodup_In, idx_key_inhabited, in_map_iff. split.
      + intros (n & X). apply keys_in_iff in X. destruct X as (s & Hs & _ & E). now exists s.
      + intros (s & E & Hs). exists (rid s). apply keys_in_iff. now exists s.
  Qed.
End UnderWF.
