(* C02: under WF, lookups and clone queries are exact. *)
From Coq Require Import List ZArith Bool Arith Lia Permutation.
From NT Require Import Sx Rose ListFacts RoseFacts Surgery SurgeryFacts Machine WF MachineFacts PreserveSteps PreserveOps Lookup.
Import ListNotations.

(* the nodes of the forest carrying data_id d *)
Definition nodes_with (f : forest) (d : did) : list nat :=
  map rid (filter (fun s => did_eqb (rdid s) d) (pre_f f)).

Lemma keys_in_iff f n d : In (n, d) (keys f) <-> exists s, In s (pre_f f) /\ rid s = n /\ rdid s = d.
Proof.
  unfold keys. rewrite in_map_iff. split.
  - intros (s & E & Hs). injection E as <- <-. now exists s.
  - intros (s & Hs & <- & <-). now exists s.
Qed.

Lemma did_of_keys f n d : NoDup (ids f) -> (did_of n f = Some d <-> In (n, d) (keys f)).
Proof.
  intros ND. unfold did_of. rewrite keys_in_iff. split.
  - destruct (get_node n f) as [s|] eqn:E; [|discriminate]. cbn. intros X. injection X as <-.
    destruct (get_node_spec n f s E) as (H1 & H2). now exists s.
  - intros (s & Hs & R & Dd). rewrite (get_node_unique n f s ND Hs R). cbn. now rewrite Dd.
Qed.

Lemma nodes_with_in f n d : In n (nodes_with f d) <-> In (n, d) (keys f).
Proof.
  unfold nodes_with. rewrite in_map_iff, keys_in_iff. split.
  - intros (s & R & Hs). apply filter_In in Hs. destruct Hs as [Hs E]. apply did_eqb_eq in E. now exists s.
  - intros (s & Hs & R & E). exists s. split; [assumption|]. apply filter_In. split; [assumption|]. now apply did_eqb_eq.
Qed.

Lemma NoDup_map_filter {X Y} (g : X -> Y) p (l : list X) : NoDup (map g l) -> NoDup (map g (filter p l)).
Proof.
  induction l as [|x l IH]; cbn; intros H; [constructor|]. inversion H as [|y l' H1 H2]; subst.
  destruct (p x); [|auto]. cbn. constructor; [|auto]. intros X0. apply H1.
  apply in_map_iff in X0. destruct X0 as (z & E & Hz). apply filter_In in Hz. rewrite <- E. apply in_map. tauto.
Qed.

Section UnderWF.
  Variable t : tstate.
  Hypothesis H : WF t.
  Let f := forest_of t.

  Lemma idx_group_nodup d : NoDup (idx_get d (idx t)).
  Proof.
    destruct (WF_spelled t H) as (_ & _ & _ & K & G & _). unfold idx_get.
    destruct (find (fun e => did_eqb (fst e) d) (idx t)) as [e|] eqn:E; [|constructor].
    apply find_some in E. destruct E as [E _]. rewrite Forall_forall in G. now apply (G e E).
  Qed.

  (* find_all(data_id=d) = exactly the nodes of the forest with that data_id *)
  Theorem find_all_exact d : Permutation (lk_find_all_did t d) (nodes_with f d).
  Proof.
    apply NoDup_Permutation.
    - apply idx_group_nodup.
    - unfold nodes_with. apply NoDup_map_filter. apply H.
    - intros n. unfold lk_find_all_did. rewrite (idx_get_keys t n d H), nodes_with_in. reflexivity.
  Qed.

  Theorem find_all_live n d : In n (lk_find_all_did t d) <-> In n (ids f) /\ did_of n f = Some d.
  Proof.
    unfold lk_find_all_did. rewrite (idx_get_keys t n d H), (did_of_keys f n d (wf_nodup t H)). split; [|tauto].
    intros X. split; [|assumption]. fold f in X. rewrite <- (keys_fst f). change n with (fst (n, d)). now apply in_map.
  Qed.

  Theorem find_first_exact d : match lk_find_first_did t d with
                               | Some n => In n (ids f) /\ did_of n f = Some d
                               | None => forall n, In n (ids f) -> did_of n f <> Some d
                               end.
  Proof.
    unfold lk_find_first_did. destruct (idx_get d (idx t)) as [|n l] eqn:E; cbn [hd_error].
    - intros n Hn X. assert (Y : In n (lk_find_all_did t d)) by (apply find_all_live; now split).
      unfold lk_find_all_did in Y. now rewrite E in Y.
    - apply find_all_live. unfold lk_find_all_did. rewrite E. now left.
  Qed.

  Theorem find_nodeid_exact n : lk_find_nodeid t n = Some n <-> In n (ids f).
  Proof.
    unfold lk_find_nodeid. destruct (existsb (Nat.eqb n) (reg t)) eqn:E.
    - split; [intros _|reflexivity]. apply existsb_exists in E. destruct E as (m & Hm & E). apply Nat.eqb_eq in E. subst m.
      apply (Permutation_in _ (wf_reg t H) Hm).
    - split; [discriminate|]. intros X. apply (Permutation_in _ (Permutation_sym (wf_reg t H))) in X.
      assert (Y : existsb (Nat.eqb n) (reg t) = true) by (apply existsb_exists; exists n; split; [assumption|apply Nat.eqb_refl]). congruence.
  Qed.

  Lemma idx_key_inhabited d : In d (map fst (idx t)) <-> exists n, In (n, d) (keys f).
  Proof.
    split.
    - intros X. apply in_map_iff in X. destruct X as (e & <- & He).
      assert (Ne := wf_ine t H). rewrite Forall_forall in Ne. specialize (Ne e He).
      destruct (snd e) as [|n l] eqn:E; [contradiction|]. exists n.
      apply (Permutation_in _ (wf_idx t H)). unfold idx_flat. apply in_flat_map. exists e. split; [assumption|]. rewrite E. now left.
    - intros (n & X). apply (Permutation_in _ (Permutation_sym (wf_idx t H))) in X. now apply idx_flat_key in X.
  Qed.

  Theorem has_did_exact d : idx_has d (idx t) = true <-> exists n, In n (ids f) /\ did_of n f = Some d.
  Proof.
    rewrite idx_has_In, idx_key_inhabited. split; intros (n & X); exists n.
    - apply find_all_live. unfold lk_find_all_did. now apply (idx_get_keys t n d H).
    - apply (idx_get_keys t n d H). apply find_all_live in X. exact X.
  Qed.

  (* key in tree (the key's data_id is e) *)
  Theorem contains_key_exact e : lk_contains_key t (Some e) = Some true <-> exists n, In n (ids f) /\ did_of n f = Some e.
  Proof.
    unfold lk_contains_key. cbn [option_map]. assert (X := find_first_exact e).
    destruct (lk_find_first_did t e) as [n|]; split.
    - intros _. now exists n.
    - reflexivity.
    - discriminate.
    - intros (n & Hn & E). exfalso. now apply (X n Hn).
  Qed.

  Theorem contains_data_exact dat e : calc_id (calc t) dat = Some e ->
    (lk_contains_data t dat = Some true <-> exists n, In n (ids f) /\ did_of n f = Some e).
  Proof.
    intros C. rewrite <- contains_key_exact. unfold lk_contains_data, lk_find_first_data, lk_contains_key. rewrite C. reflexivity.
  Qed.

  Theorem find_all_data_exact dat e : calc_id (calc t) dat = Some e ->
    exists l, lk_find_all_data t dat = Some l /\ Permutation l (nodes_with f e).
  Proof. intros C. unfold lk_find_all_data. rewrite C. eexists. split; [reflexivity|apply find_all_exact]. Qed.

  (* tree[key]: a result is a live node; for a present int/str key it is the unique node with that data_id *)
  Theorem getitem_sound k n : lk_getitem t k = Ok [n] -> In n (ids f).
  Proof.
    unfold lk_getitem. destruct (lk_candidates t k) as [[|m [|m2 l]]|] eqn:E; try discriminate. intros X. injection X as ->.
    assert (A : forall d, In n (lk_find_all_did t d) -> In n (ids f)) by (intros d Y; now apply find_all_live in Y).
    assert (B : forall o, option_map (lk_find_all_did t) o = Some [n] -> In n (ids f)).
    { intros [d|]; [|discriminate]. cbn. intros Y. injection Y as Y. apply (A d). rewrite Y. now left. }
    destruct k as [m fb|e fb|dd a]; cbn [lk_candidates] in E.
    - destruct (lk_find_nodeid t m) as [r|] eqn:F; [|now apply (B fb)].
      injection E as <-. unfold lk_find_nodeid in F. destruct (existsb (Nat.eqb m) (reg t)) eqn:X; [|discriminate].
      injection F as <-. apply find_nodeid_exact. unfold lk_find_nodeid. now rewrite X.
    - destruct (idx_has e (idx t)); [|now apply (B fb)]. injection E as E. apply (A e). rewrite E. now left.
    - unfold lk_find_all_data in E. destruct a as [e|]; [destruct (idx_has e (idx t))|]; try (now apply (B (calc_id (calc t) dd))).
      injection E as E. apply (A e). rewrite E. now left.
  Qed.

  Theorem getitem_did_exact e fb n : idx_has e (idx t) = true ->
    (lk_getitem t (LDid e fb) = Ok [n] <-> nodes_with f e = [n]).
  Proof.
    intros Hh. unfold lk_getitem. cbn [lk_candidates]. rewrite Hh. assert (P := find_all_exact e). split.
    - destruct (lk_find_all_did t e) as [|m [|m2 l]]; try discriminate. intros X. injection X as ->.
      now apply Permutation_length_1_inv in P.
    - intros E. rewrite E in P. apply Permutation_sym, Permutation_length_1_inv in P. now rewrite P.
  Qed.

  (* clones of a node: every other node with the same data_id, nothing else *)
  Theorem get_clones_exact n add_self c :
    In c (lk_get_clones t n add_self) <->
    In n (ids f) /\ In c (ids f) /\ did_of c f = did_of n f /\ (add_self = true \/ c <> n).
  Proof.
    unfold lk_get_clones. fold f. destruct (did_of n f) as [d|] eqn:E.
    - rewrite filter_In. fold (lk_find_all_did t d). rewrite find_all_live, orb_true_iff, negb_true_iff, Nat.eqb_neq. fold f.
      assert (Hn : In n (ids f)). { apply (did_of_keys f n d (wf_nodup t H)) in E. rewrite <- (keys_fst f). change n with (fst (n, d)). now apply in_map. }
      tauto.
    - split; [intros []|]. intros (Hn & _). destruct (get_node_complete n f Hn) as (s & Es). unfold did_of in E. now rewrite Es in E.
  Qed.

  Theorem get_clones_nodup n add_self : NoDup (lk_get_clones t n add_self).
  Proof. unfold lk_get_clones. destruct (did_of n (forest_of t)); [apply NoDup_filter, idx_group_nodup|constructor]. Qed.

  Theorem is_clone_exact n : In n (ids f) ->
    (lk_is_clone t n = true <-> exists c, c <> n /\ In c (ids f) /\ did_of c f = did_of n f).
  Proof.
    intros Hn. unfold lk_is_clone. fold f. destruct (get_node_complete n f Hn) as (s & Es).
    assert (E : did_of n f = Some (rdid s)) by (unfold did_of; now rewrite Es). rewrite E.
    assert (Hin : In n (idx_get (rdid s) (idx t))) by (apply find_all_live; now split).
    assert (ND := idx_group_nodup (rdid s)). rewrite Nat.ltb_lt. split.
    - intros L. destruct (idx_get (rdid s) (idx t)) as [|a [|b l]] eqn:G; cbn in L; try lia.
      assert (X : a <> n \/ b <> n). { inversion ND as [|x l' N1 N2]; subst. destruct (Nat.eq_dec a n); [right|now left]. intros ->. apply N1. subst. now left. }
      destruct X as [X|X]; [exists a|exists b]; (split; [assumption|]); apply find_all_live; unfold lk_find_all_did; rewrite G; cbn; tauto.
    - intros (c & Nc & Hc & Ec). assert (Hcin : In c (idx_get (rdid s) (idx t))) by (apply find_all_live; split; [assumption|congruence]).
      destruct (idx_get (rdid s) (idx t)) as [|a [|b l]]; cbn; try lia; [contradiction|].
      destruct Hin as [<-|[]]. destruct Hcin as [<-|[]]. contradiction.
  Qed.

  Theorem count_exact : lk_count t = length (ids f).
  Proof. apply Permutation_length, H. Qed.

  Theorem count_unique_exact : lk_count_unique t = length (nodup did_eq_dec (map rdid (pre_f f))).
  Proof.
    unfold lk_count_unique. rewrite <- (map_length fst). apply Permutation_length. apply NoDup_Permutation.
    - apply H.
    - apply NoDup_nodup.
    - intros d. rewrite nodup_In, idx_key_inhabited, in_map_iff. split.
      + intros (n & X). apply keys_in_iff in X. destruct X as (s & Hs & _ & E). now exists s.
      + intros (s & E & Hs). exists (rid s). apply keys_in_iff. now exists s.
  Qed.
End UnderWF.

Lemma Invariant_get_put w ti t t' : get_tree w ti = Some t -> get_tree (put_tree (bump w 1) ti t') ti = Some t'.
Proof.
  unfold get_tree, put_tree, bump. cbn [trees]. intros G. destruct (nth_error_split _ _ G) as (a & b & -> & <-).
  rewrite upd_nth_split. apply nth_error_app_len.
Qed.

(* ---- provenance of a new node's data_id ---- *)
Lemma did_of_new_spec t d explicit :
  lk_did_of_new t d explicit =
  match explicit with
  | Some e => Some e                                   (* the explicit data_id *)
  | None => match calc t with
            | None => Some (DInt (d_hash d))           (* hash(data) *)
            | Some tbl => match find (fun e => Z.eqb (fst e) (d_obj d)) tbl with   (* the tree's callback *)
                          | Some e => snd e
                          | None => None
                          end
            end
  end.
Proof. unfold lk_did_of_new, calc_id. destruct explicit; [reflexivity|]. now destruct (calc t). Qed.

Theorem add_did_provenance w ti p d explicit k b n :
  WFw w -> fst (op_add w ti p d explicit k b) = Ok [n] ->
  exists t t' id, get_tree w ti = Some t /\ get_tree (snd (op_add w ti p d explicit k b)) ti = Some t' /\
                  lk_did_of_new t d explicit = Some id /\ did_of n (forest_of t') = Some id /\ n = next w.
Proof.
  intros H. assert (H' := PreserveOps.WFw_op_add w ti p d explicit k b H). revert H'. unfold op_add.
  destruct (get_tree w ti) as [t|] eqn:Gt; [|discriminate].
  destruct (parent_path p (forest_of t)) as [pq|] eqn:Gp; [|discriminate].
  destruct (get_ch pq (forest_of t)) as [ch|] eqn:Gc; [|discriminate].
  destruct (negb (before_ok (norm_before b) ch)); [discriminate|].
  fold (lk_did_of_new t d explicit). destruct (lk_did_of_new t d explicit) as [id|] eqn:Ed; [|discriminate].
  destruct (collides t p id); [discriminate|]. cbn [fst snd]. intros H' E. injection E as <-.
  set (x := T (next w) (mk_info d id (default_kind t k) []) []) in *.
  set (t' := set_all t (upd_ch pq (place (norm_before b) x) (forest_of t)) (reg t ++ [next w]) (idx_add id (next w) (idx t))) in *.
  assert (G' : get_tree (put_tree (bump w 1) ti t') ti = Some t') by (now apply (Invariant_get_put w ti t t')).
  exists t, t', id. repeat split; auto.
  assert (Wt' := WFw_tree _ ti t' H' G').
  apply (did_of_keys _ _ _ (wf_nodup t' Wt')). cbn [forest_of t' set_all].
  assert (P := rows_insert_perm pq (forest_of t) ch 0 (norm_before b) x Gc).
  rewrite <- (rows_keys' _ 0). apply (Permutation_in _ (Permutation_sym (Permutation_map r_key P))).
  rewrite map_app. apply in_or_app. left. cbn. now left.
Qed.

(* ---- list-level forms ---- *)
Lemma filter_neq_remove n l : filter (fun c => negb (Nat.eqb c n)) l = remove Nat.eq_dec n l.
Proof.
  induction l as [|x l IH]; [reflexivity|]. cbn [filter remove]. destruct (Nat.eq_dec n x) as [->|Ne].
  - rewrite Nat.eqb_refl. cbn [negb]. exact IH.
  - replace (Nat.eqb x n) with false by (symmetry; apply Nat.eqb_neq; congruence). cbn [negb]. now rewrite IH.
Qed.

Theorem get_clones_as_remove t n d : did_of n (forest_of t) = Some d ->
  lk_get_clones t n false = remove Nat.eq_dec n (lk_find_all_did t d) /\
  lk_get_clones t n true = lk_find_all_did t d /\
  lk_is_clone t n = Nat.ltb 1 (length (lk_find_all_did t d)).
Proof.
  intros E. unfold lk_get_clones, lk_is_clone, lk_find_all_did. rewrite E. cbn [orb]. refine (conj _ (conj _ eq_refl)).
  - apply filter_neq_remove.
  - apply filter_all_true. reflexivity.
Qed.

(* tree[key] for a present int/str key: the unique node, or the ambiguity error when there are several *)
Theorem getitem_did_class t e fb : WF t -> idx_has e (idx t) = true ->
  (exists n, lk_getitem t (LDid e fb) = Ok [n] /\ nodes_with (forest_of t) e = [n]) \/
  (lk_getitem t (LDid e fb) = Err EAmbiguous /\ 2 <= length (nodes_with (forest_of t) e)).
Proof.
  intros H Hh. assert (P := find_all_exact t H e). assert (L := Permutation_length P).
  unfold lk_getitem. cbn [lk_candidates]. rewrite Hh.
  destruct (lk_find_all_did t e) as [|m [|m2 l]] eqn:E.
  - exfalso. apply (has_did_exact t H e) in Hh. destruct Hh as (n & Hn).
    apply (find_all_live t H n e) in Hn. now rewrite E in Hn.
  - left. exists m. split; [reflexivity|]. now apply Permutation_length_1_inv in P.
  - right. split; [reflexivity|]. rewrite <- L. cbn. lia.
Qed.
