(* Lookups and clone queries of Tree / Node (tree.py: find_all, find_first,
   __getitem__, __contains__, count, count_unique, calc_data_id; node.py:
   get_clones, is_clone, the data_id a new node gets), as executable functions
   on one tree state of the mutation machine.  They read the explicit state the
   way the code does: [reg] = Tree._node_by_id, [idx] = Tree._nodes_by_data_id.
   Executable definitions only, NO proofs here (the C02 theorems about exactly
   these functions are in the proof files of the WF invariant).

   Conventions
   * a node is its allocation index; its node_id key is the node itself
     (node_id = id(node), never given explicitly by the harness);
   * [option] around a result: [None] = the tree's calc_data_id callback raised
     (the exception propagates out of the public call);
   * a lookup key that is an int/str which is not one of the universe's data
     objects (a data_id, a node_id, a Node object used as key) cannot be put
     through the callback table of [calc]; what the tree's calc_data_id answers
     for it is supplied with the key ([fb], None = it raises), exactly as
     Machine.delkey does for [del tree[key]]. *)
From Coq Require Import List ZArith Bool Arith.
From NT Require Import Sx Rose Surgery Machine.
Import ListNotations.

(* ---- Tree.find_all / find_first on the index path --------------------- *)
(* find_all(data_id=d):  res = self._nodes_by_data_id.get(d);  return res or [] *)
Definition lk_find_all_did (t : tstate) (d : did) : list nat := idx_get d (idx t).

(* find_all(data):  data_id = self.calc_data_id(data), then as above *)
Definition lk_find_all_data (t : tstate) (dat : dat) : option (list nat) :=
  option_map (lk_find_all_did t) (calc_id (calc t) dat).

(* find_first(data_id=d):  res[0] if res else None *)
Definition lk_find_first_did (t : tstate) (d : did) : option nat := hd_error (idx_get d (idx t)).

(* find_first(data) *)
Definition lk_find_first_data (t : tstate) (dat : dat) : option (option nat) :=
  option_map (lk_find_first_did t) (calc_id (calc t) dat).

(* find_first(node_id=k) = self._node_by_id.get(k), k the node_id of node n *)
Definition lk_find_nodeid (t : tstate) (n : nat) : option nat :=
  if existsb (Nat.eqb n) (reg t) then Some n else None.

(* ---- Tree.__contains__:  bool(self.find_first(data)) ------------------- *)
Definition lk_contains_data (t : tstate) (dat : dat) : option bool :=
  option_map (fun r => match r with Some _ => true | None => false end) (lk_find_first_data t dat).

(* [key in tree] for a key that is not a universe object (an int/str data_id, a
   Node): the key goes through calc_data_id like any data object; fb = its answer *)
Definition lk_contains_key (t : tstate) (fb : option did) : option bool :=
  option_map (fun e => match lk_find_first_did t e with Some _ => true | None => false end) fb.
Definition lk_contains_did (t : tstate) (e : did) (fb : option did) : option bool := lk_contains_key t fb.
Definition lk_contains_node (t : tstate) (n : nat) (fb : option did) : option bool := lk_contains_key t fb.

(* ---- Node.get_clones / is_clone ---------------------------------------- *)
(* clones = self._tree._nodes_by_data_id[self._data_id];
   add_self: clones.copy(), else [n for n in clones if n is not self] *)
Definition lk_get_clones (t : tstate) (n : nat) (add_self : bool) : list nat :=
  match did_of n (forest_of t) with
  | Some d => filter (fun c => add_self || negb (Nat.eqb c n)) (idx_get d (idx t))
  | None => []
  end.

(* len(self._tree._nodes_by_data_id.get(self._data_id)) > 1 *)
Definition lk_is_clone (t : tstate) (n : nat) : bool :=
  match did_of n (forest_of t) with
  | Some d => Nat.ltb 1 (length (idx_get d (idx t)))
  | None => false
  end.

(* ---- Tree.count = len(tree), Tree.count_unique ------------------------- *)
Definition lk_count (t : tstate) : nat := length (reg t).
Definition lk_count_unique (t : tstate) : nat := length (idx t).

(* ---- data_id provenance: Node.__init__ ---------------------------------
   data_id given -> that; else tree.calc_data_id(data) = the callback's answer
   if the tree has one, else hash(data) *)
Definition lk_did_of_new (t : tstate) (dat : dat) (explicit : option did) : option did :=
  match explicit with
  | Some e => Some e
  | None => calc_id (calc t) dat
  end.

(* ---- Tree.__getitem__ ---------------------------------------------------
   if isinstance(key, int): res = _node_by_id.get(key); if res is not None: return res
   if isinstance(key, (int, str)) and key in _nodes_by_data_id: res = find_all(data_id=key)
   else: res = find_all(key)
   not res -> KeyError; len(res) > 1 -> AmbiguousMatchError; else res[0] *)
Inductive lkey :=
| LNid (n : nat) (fb : option did)        (* the node_id of node n (an int that is nobody's data_id) *)
| LDid (e : did) (fb : option did)        (* an int/str *)
| LData (d : dat) (as_did : option did).  (* a universe object; as_did = itself when it is an int/str *)

Definition lk_candidates (t : tstate) (k : lkey) : option (list nat) :=
  match k with
  | LNid n fb =>
      match lk_find_nodeid t n with
      | Some r => Some [r]
      | None => option_map (lk_find_all_did t) fb
      end
  | LDid e fb =>
      if idx_has e (idx t) then Some (lk_find_all_did t e) else option_map (lk_find_all_did t) fb
  | LData d a =>
      match a with
      | Some e => if idx_has e (idx t) then Some (lk_find_all_did t e) else lk_find_all_data t d
      | None => lk_find_all_data t d
      end
  end.

Definition lk_getitem (t : tstate) (k : lkey) : res :=
  match lk_candidates t k with
  | None => Err ECrash
  | Some [] => Err EKey
  | Some [n] => Ok [n]
  | Some _ => Err EAmbiguous
  end.

(* ---- the observation of one tree through the lookup API ----------------- *)
Inductive probe :=
| PDid (e : did) (fb : option did)       (* an int/str key, present or absent *)
| PData (d : dat) (as_did : option did)  (* a data object of the universe *)
| PNid (n : nat) (fb : option did)       (* the node_id of node n (live or removed) *)
| PNode (n : nat) (cont : option (option did))
                                         (* the Node object n, live in this tree; cont = Some fb: [n in tree] is probed
                                            too and fb is what calc_data_id answers for the Node object (None: it raises,
                                            e.g. the default hash() on the unhashable Node) *)
| PCount.

(* a result that may be "the callback raised" *)
Definition sx_cb {X} (f : X -> sx) (o : option X) : sx :=
  match o with Some x => L [A 0%Z; f x] | None => L [A 1%Z] end.
Definition sx_onat (o : option nat) : sx := sx_opt sx_nat o.

Definition sx_probe (t : tstate) (p : probe) : sx :=
  match p with
  | PDid e fb =>
      L [ sx_ids (lk_find_all_did t e);                       (* find_all(data_id=e) *)
          sx_onat (lk_find_first_did t e);                    (* find_first(data_id=e) *)
          sx_cb sx_ids (option_map (lk_find_all_did t) fb);   (* find_all(e): e as a data object *)
          sx_cb sx_bool (lk_contains_did t e fb);             (* e in tree *)
          sx_res (lk_getitem t (LDid e fb)) ]                 (* tree[e] *)
  | PData d a =>
      L [ sx_cb sx_ids (lk_find_all_data t d);                (* find_all(d) *)
          sx_cb sx_onat (lk_find_first_data t d);             (* find_first(d) *)
          sx_cb sx_bool (lk_contains_data t d);               (* d in tree *)
          sx_res (lk_getitem t (LData d a));                  (* tree[d] *)
          sx_cb sx_did (lk_did_of_new t d None) ]             (* tree.calc_data_id(d): the id a new node for d gets *)
  | PNid n fb =>
      L [ sx_onat (lk_find_nodeid t n);                       (* find_first(node_id=k) *)
          sx_res (lk_getitem t (LNid n fb)) ]                 (* tree[k] *)
  | PNode n cont =>
      L [ sx_ids (lk_get_clones t n false);                   (* n.get_clones() *)
          sx_ids (lk_get_clones t n true);                    (* n.get_clones(add_self=True) *)
          sx_bool (lk_is_clone t n);                          (* n.is_clone() *)
          match cont with                                     (* n in tree *)
          | Some fb => sx_cb sx_bool (lk_contains_node t n fb)
          | None => L []
          end ]
  | PCount =>
      L [ sx_nat (lk_count t); sx_nat (lk_count_unique t) ]   (* tree.count = len(tree), tree.count_unique *)
  end.

Definition sx_lookups (t : tstate) (ps : list probe) : sx := L (map (sx_probe t) ps).
