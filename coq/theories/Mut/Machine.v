(* Layer B: the mutation machine.  Executable model of the public mutating
   operations of node.py / tree.py / typed_tree.py (as repaired by the fix:
   commits), over explicit state: the forest, the node registry
   ([_node_by_id], insertion-ordered) and the clone index
   ([_nodes_by_data_id], insertion-ordered groups).  No proofs here. *)
From Coq Require Import List ZArith Bool Arith Lia.
From NT Require Import Sx Rose Surgery.
Import ListNotations.

(* ---- data objects as the library sees them ---- *)
Record dat := D { d_obj : Z; d_eqc : Z; d_hash : Z; d_isstr : bool; d_name : text }.

Definition mk_info (d : dat) (id : did) (k : kind) (m : list (text * sx)) : info :=
  I (d_obj d) (d_eqc d) (d_hash d) (d_isstr d) (d_name d) id k m.
Definition dat_of (i : info) : dat := D (i_obj i) (i_eqc i) (i_hash i) (i_isstr i) (i_name i).
Definition set_dat_i (d : dat) (i : info) : info := mk_info d (i_did i) (i_kind i) (i_meta i).

(* the tree's calc_data_id callback: None = default hash(data); otherwise a
   table data object -> Some id | None (= the callback raises) *)
Definition calcspec := option (list (Z * option did)).
Definition calc_id (c : calcspec) (d : dat) : option did :=
  match c with
  | None => Some (DInt (d_hash d))
  | Some tbl => match find (fun e => Z.eqb (fst e) (d_obj d)) tbl with
                | Some e => snd e
                | None => None
                end
  end.

Definition idxt := list (did * list nat).

Record tstate := TS {
  forest_of : forest;
  reg : list nat;
  idx : idxt;
  typed : bool;
  calc : calcspec
}.

Record world := W { trees : list tstate; next : nat }.

(* error classes, as harness/common.py err_class *)
Definition EUnique := 1. Definition EAmbiguous := 2. Definition EValue := 3. Definition EKey := 4.
Definition ENotImpl := 5. Definition EAssert := 6. Definition EType := 7. Definition ECrash := 8.
Definition EModel := 99.   (* the op refers to a node/tree that does not exist: not a public operation *)

Inductive res := Ok (ret : list nat) | Err (e : nat).

(* ---- index and registry primitives ---- *)
Definition idx_get (d : did) (ix : idxt) : list nat :=
  match find (fun e => did_eqb (fst e) d) ix with Some e => snd e | None => [] end.

Definition idx_has (d : did) (ix : idxt) : bool := existsb (fun e => did_eqb (fst e) d) ix.

Definition idx_add (d : did) (n : nat) (ix : idxt) : idxt :=
  if idx_has d ix
  then map (fun e => if did_eqb (fst e) d then (fst e, snd e ++ [n]) else e) ix
  else ix ++ [(d, [n])].

Fixpoint remove_first (n : nat) (l : list nat) : list nat :=
  match l with
  | [] => []
  | x :: l' => if Nat.eqb x n then l' else x :: remove_first n l'
  end.

Definition idx_del (d : did) (n : nat) (ix : idxt) : idxt :=
  flat_map (fun e => if did_eqb (fst e) d
                     then match remove_first n (snd e) with [] => [] | l => [(fst e, l)] end
                     else [e]) ix.

Definition reg_del (n : nat) (r : list nat) : list nat := filter (fun x => negb (Nat.eqb x n)) r.

(* parent reference of a node: 0 for top-level nodes *)
Fixpoint parent_in (n pid : nat) (t : rt) {struct t} : option nat :=
  match t with
  | T id _ ch =>
      if Nat.eqb id n then Some pid
      else (fix go (l : list rt) : option nat :=
              match l with
              | [] => None
              | c :: l' => match parent_in n id c with Some r => Some r | None => go l' end
              end) ch
  end.
Fixpoint parent_in_f (n pid : nat) (l : list rt) : option nat :=
  match l with
  | [] => None
  | c :: l' => match parent_in n pid c with Some r => Some r | None => parent_in_f n pid l' end
  end.
Definition parent_of (n : nat) (f : forest) : option nat := parent_in_f n 0 f.

Definition did_of (n : nat) (f : forest) : option did := option_map rdid (get_node n f).

(* ---- before= argument ---- *)
Inductive before := BNone | BTrue | BFalse | BIdx (z : Z) | BNode (n : nat).
Inductive nbefore := NApp | NIdx (z : Z) | NNode (n : nat).
Definition norm_before (b : before) : nbefore :=
  match b with
  | BNone | BFalse => NApp
  | BTrue => NIdx 0
  | BIdx z => NIdx z
  | BNode n => NNode n
  end.

(* validation that happens before anything is changed *)
Definition before_ok (b : nbefore) (ch : list rt) : bool :=
  match b with NNode s => match index_by_id s ch with Some _ => true | None => false end | _ => true end.

Definition place (b : nbefore) (x : rt) (ch : list rt) : list rt :=
  match ch with
  | [] => [x]
  | _ => match b with
         | NApp => ch ++ [x]
         | NIdx z => py_insert z x ch
         | NNode s => match index_by_id s ch with Some j => insert_at j x ch | None => ch ++ [x] end
         end
  end.

(* ---- state access helpers ---- *)
Definition set_forest (t : tstate) (f : forest) : tstate := TS f (reg t) (idx t) (typed t) (calc t).
Definition set_all (t : tstate) (f : forest) (r : list nat) (ix : idxt) : tstate := TS f r ix (typed t) (calc t).

Definition get_tree (w : world) (ti : nat) : option tstate := nth_error (trees w) ti.
Definition put_tree (w : world) (ti : nat) (t : tstate) : world :=
  W (upd_nth ti (fun _ => t) (trees w)) (next w).
Definition bump (w : world) (k : nat) : world := W (trees w) (next w + k).

Definition default_kind (t : tstate) (k : kind) : kind :=
  if typed t then match k with Some _ => k | None => Some [99; 104; 105; 108; 100]%Z end else None.

(* Tree._register's uniqueness test: a clone with the same parent *)
Definition collides (t : tstate) (p : nat) (d : did) : bool :=
  existsb (fun c => match parent_of c (forest_of t) with Some q => Nat.eqb q p | None => false end)
          (idx_get d (idx t)).

Definition is_desc_or_self (n target : nat) (f : forest) : bool :=
  match get_node n f with
  | Some t => existsb (Nat.eqb target) (ids_t t)
  | None => false
  end.

Definition did_truthy (d : did) : bool :=
  match d with DInt z => negb (Z.eqb z 0) | DStr s => match s with [] => false | _ => true end end.

(* ---- add_child(data) ---- *)
Definition op_add (w : world) (ti p : nat) (d : dat) (explicit : option did) (k : kind) (b : before)
  : res * world :=
  match get_tree w ti with
  | None => (Err EModel, w)
  | Some t =>
    match parent_path p (forest_of t) with
    | None => (Err EModel, w)
    | Some pq =>
      match get_ch pq (forest_of t) with
      | None => (Err EModel, w)
      | Some ch =>
        let nb := norm_before b in
        if negb (before_ok nb ch) then (Err EValue, w)
        else
          let n := next w in
          let w1 := bump w 1 in          (* the Node object is constructed from here on *)
          match (match explicit with Some e => Some e | None => calc_id (calc t) d end) with
          | None => (Err ECrash, w1)     (* calc_data_id raised inside Node.__init__ *)
          | Some id =>
            if collides t p id then (Err EUnique, w1)
            else
              let x := T n (mk_info d id (default_kind t k) []) [] in
              let f' := upd_ch pq (place nb x) (forest_of t) in
              (Ok [n], put_tree w1 ti (set_all t f' (reg t ++ [n]) (idx_add id n (idx t))))
          end
      end
    end
  end.

(* ---- deep copy below a fresh node: Node._add_from ---- *)
(* copies the children [src] (sub-trees of the source) with fresh identities
   in pre-order; returns the copies and the next free identity *)
Fixpoint copy_t (keep_kind : bool) (dk : kind) (n : nat) (t : rt) {struct t} : rt * nat :=
  match t with
  | T _ i ch =>
      let r := (fix go (n : nat) (l : list rt) : list rt * nat :=
                  match l with
                  | [] => ([], n)
                  | c :: l' => let (c', n1) := copy_t keep_kind dk n c in
                               let (r', n2) := go n1 l' in
                               (c' :: r', n2)
                  end) (S n) ch in
      (T n (I (i_obj i) (i_eqc i) (i_hash i) (i_isstr i) (i_name i) (i_did i)
              (if keep_kind then i_kind i else dk) []) (fst r), snd r)
  end.
Fixpoint copy_f (keep_kind : bool) (dk : kind) (n : nat) (l : list rt) : list rt * nat :=
  match l with
  | [] => ([], n)
  | c :: l' => let (c', n1) := copy_t keep_kind dk n c in
               let (r', n2) := copy_f keep_kind dk n1 l' in
               (c' :: r', n2)
  end.

Definition register_all (nodes : list rt) (r : list nat) (ix : idxt) : list nat * idxt :=
  fold_left (fun acc t => (fst acc ++ [rid t], idx_add (rdid t) (rid t) (snd acc))) nodes (r, ix).

(* ---- add_child(node): copy of an existing node, shallow or deep ---- *)
Definition op_add_node (w : world) (ti p sti src : nat) (explicit : option did) (k : kind) (b : before)
           (deep : option bool) : res * world :=
  match get_tree w ti, get_tree w sti with
  | Some t, Some st =>
    match get_node src (forest_of st), parent_path p (forest_of t) with
    | Some s, Some pq =>
      match get_ch pq (forest_of t) with
      | None => (Err EModel, w)
      | Some ch =>
        if typed t && negb (typed st) then (Err EType, w)
        else
        let dp := match deep with Some x => x | None => false end in
        if dp && (match explicit with Some _ => true | None => false end) then (Err EValue, w)
        else if Nat.eqb ti sti && (match parent_of src (forest_of st) with Some q => Nat.eqb q p | None => false end)
        then (Err EUnique, w)
        else if (match explicit with Some e => negb (did_eqb e (rdid s)) | None => false end)
        then (Err EUnique, w)
        else if dp && Nat.eqb ti sti && is_desc_or_self src p (forest_of st) then (Err EValue, w)
        else
          let nb := norm_before b in
          if negb (before_ok nb ch) then (Err EValue, w)
          else if negb (typed t) && typed st then (Err EType, w)   (* TypedNode(data, parent=...) : the constructor call itself fails *)
          else
            let n := next w in
            let id := match explicit with Some e => e | None => rdid s end in
            if collides t p id then (Err EUnique, bump w 1)
            else
              let knd := default_kind t k in
              let (kids, n') := if dp then copy_f (typed t) None (S n) (rch s) else ([], S n) in
              let x := T n (I (i_obj (rinfo s)) (i_eqc (rinfo s)) (i_hash (rinfo s)) (i_isstr (rinfo s))
                              (i_name (rinfo s)) id knd []) kids in
              let f' := upd_ch pq (place nb x) (forest_of t) in
              let (r', ix') := register_all (pre x) (reg t) (idx t) in
              (Ok [n], put_tree (W (trees w) n') ti (set_all t f' r' ix'))
      end
    | _, _ => (Err EModel, w)
    end
  | _, _ => (Err EModel, w)
  end.

(* several sources copied one after the other (add(tree), copy_to(add_self=False)):
   all collisions are checked before the first copy is made *)
Fixpoint add_nodes (w : world) (ti p sti : nat) (srcs : list nat) (b : before) (deep : option bool)
         (acc : list nat) : res * world :=
  match srcs with
  | [] => (Ok acc, w)
  | s :: rest =>
      match op_add_node w ti p sti s None None b deep with
      | (Ok r, w') => add_nodes w' ti p sti rest b deep (acc ++ r)
      | (Err e, w') => (Err e, w')
      end
  end.

Definition any_collides (t : tstate) (p : nat) (st : tstate) (srcs : list nat) : bool :=
  existsb (fun s => match did_of s (forest_of st) with Some d => collides t p d | None => false end) srcs.

(* Node._check_copies, second loop: a deep copy of a branch into itself is refused up front *)
Definition any_into_own_branch (ti sti : nat) (st : tstate) (srcs : list nat) (p : nat) (deep : option bool) : bool :=
  match deep with
  | Some true => Nat.eqb ti sti && existsb (fun s => is_desc_or_self s p (forest_of st)) srcs
  | _ => false
  end.

Definition op_add_tree (w : world) (ti p sti : nat) (b : before) (deep : option bool) : res * world :=
  match get_tree w ti, get_tree w sti with
  | Some t, Some st =>
      if typed t && negb (typed st) then (Err EType, w)
      else
      let tops := map rid (forest_of st) in
      (* an index is resolved once against the present child list (as list.insert would) and the
         copies are inserted in reverse at that fixed index; before=node / None keep the order (fix D70) *)
      let nch := match children_of p (forest_of t) with Some ch => length ch | None => 0 end in
      let jb := match b with BTrue => Some 0 | BIdx z => Some (py_index z nch) | _ => None end in
      let order := match jb with Some _ => rev tops | None => tops end in
      let b := match jb with Some j => BIdx (Z.of_nat j) | None => b end in
      let dp := match deep with Some x => Some x | None => Some true end in
      if any_collides t p st tops then (Err EUnique, w)
      else if any_into_own_branch ti sti st tops p dp then (Err EValue, w)
      else match add_nodes w ti p sti order b dp [] with
           | (Ok r, w') => (Ok (if typed t then [] else match rev r with x :: _ => [x] | [] => [] end), w')
           | other => other
           end
  | _, _ => (Err EModel, w)
  end.

Definition op_copy_to (w : world) (sti src ti target : nat) (add_self : bool) (b : before) (deep : bool)
  : res * world :=
  if add_self then op_add_node w ti target sti src None None b (Some deep)
  else
    match get_tree w ti, get_tree w sti with
    | Some t, Some st =>
        match children_of src (forest_of st) with
        | None => (Err EModel, w)
        | Some [] => (Err EValue, w)
        | Some ch =>
            if any_collides t target st (map rid ch) then (Err EUnique, w)
            else if any_into_own_branch ti sti st (map rid ch) target (Some deep) then (Err EValue, w)
            else match add_nodes w ti target sti (map rid ch) BNone (Some deep) [] with
                 | (Ok r, w') => (Ok (if Nat.eqb src 0 then [] (* Tree.copy_to returns None *)
                                      else match r with x :: _ => [x] | [] => [] end), w')
                 | other => other
                 end
        end
    | _, _ => (Err EModel, w)
    end.

(* Tree.copy(): a new tree holding a deep copy of all top-level branches *)
Definition op_tree_copy (w : world) (sti : nat) : res * world :=
  match get_tree w sti with
  | None => (Err EModel, w)
  | Some st =>
      let (kids, n') := copy_f (typed st) None (next w) (forest_of st) in
      let (r', ix') := register_all (pre_f kids) [] [] in
      (Ok [length (trees w)], W (trees w ++ [TS kids r' ix' (typed st) None]) n')
  end.

(* Node.copy(add_self): a new tree of the same class from a branch *)
Definition op_node_copy (w : world) (sti src : nat) (add_self : bool) : res * world :=
  match get_tree w sti with
  | None => (Err EModel, w)
  | Some st =>
      match get_node src (forest_of st) with
      | None => (Err EModel, w)
      | Some s =>
          let (kids0, n') := copy_f (typed st) None (next w) (if add_self then [s] else rch s) in
          (* new_tree.add(self): the top node of a typed copy gets the default kind *)
          let kids := if add_self && typed st
                      then map (fun t => match t with T id i ch => T id (set_kind_i (default_kind st None) i) ch end) kids0
                      else kids0 in
          let (r', ix') := register_all (pre_f kids) [] [] in
          (Ok [length (trees w)], W (trees w ++ [TS kids r' ix' (typed st) None]) n')
      end
  end.

(* ---- removal ---- *)
Definition unregister_all (nodes : list rt) (r : list nat) (ix : idxt) : list nat * idxt :=
  fold_left (fun acc t => (reg_del (rid t) (fst acc), idx_del (rdid t) (rid t) (snd acc))) nodes (r, ix).

Definition detach (n : nat) (f : forest) : option (rt * forest) :=
  match node_loc n f with
  | Some (q0, i, l) => match nth_error l i with
                       | Some t => Some (t, upd_ch q0 (remove_nth i) f)
                       | None => None
                       end
  | None => None
  end.

(* remove() without keep_children: the whole branch goes *)
Definition remove_branch (t : tstate) (n : nat) : option tstate :=
  match detach n (forest_of t) with
  | Some (s, f') => let (r', ix') := unregister_all (pre s) (reg t) (idx t) in Some (set_all t f' r' ix')
  | None => None
  end.

(* move_to inside one tree *)
Definition move_in (t : tstate) (n target : nat) (nb : nbefore) : option tstate :=
  match detach n (forest_of t) with
  | Some (s, f1) => match parent_path target f1 with
                    | Some pq => Some (set_forest t (upd_ch pq (place nb s) f1))
                    | None => None
                    end
  | None => None
  end.

Definition op_move (w : world) (ti n tti target : nat) (b : before) : res * world :=
  match get_tree w ti with
  | None => (Err EModel, w)
  | Some t =>
      if typed t then (Err ENotImpl, w)
      else if negb (Nat.eqb ti tti) then (Err ENotImpl, w)
      else
      match get_node n (forest_of t), children_of target (forest_of t), parent_of n (forest_of t) with
      | Some s, Some tch, Some cur =>
          if is_desc_or_self n target (forest_of t) then (Err EValue, w)
          else
            let nb := norm_before b in
            if negb (before_ok nb tch) then (Err EValue, w)
            else if negb (Nat.eqb cur target) && existsb (fun c => did_eqb (rdid c) (rdid s)) tch
            then (Err EUnique, w)
            else if (match nb with NNode s0 => Nat.eqb s0 n | _ => false end) then (Ok [], w)   (* before=self: already there *)
            else match move_in t n target nb with
                 | Some t' => (Ok [], put_tree w ti t')
                 | None => (Err EModel, w)
                 end
      | _, _, _ => (Err EModel, w)
      end
  end.

(* remove(keep_children=True): children are spliced in at the node's position *)
Definition remove_keep (t : tstate) (n : nat) : option tstate :=
  match node_loc n (forest_of t) with
  | Some (q0, i, l) =>
      match nth_error l i with
      | Some s =>
          let f' := upd_ch q0 (fun l => firstn i l ++ rch s ++ skipn (S i) l) (forest_of t) in
          Some (set_all t f' (reg_del n (reg t)) (idx_del (rdid s) n (idx t)))
      | None => None
      end
  | None => None
  end.

Definition keep_collides (t : tstate) (n : nat) : bool :=
  match node_loc n (forest_of t) with
  | Some (_, i, l) =>
      match nth_error l i with
      | Some s => existsb (fun c => existsb (fun o => negb (Nat.eqb (rid o) n) && did_eqb (rdid o) (rdid c)) l) (rch s)
      | None => false
      end
  | None => false
  end.

(* Node._check_keep_children: the child list with every victim replaced (recursively) by its children *)
Fixpoint contract_t (victims : list nat) (t : rt) : list rt :=
  match t with
  | T id _ ch => if existsb (Nat.eqb id) victims then flat_map (contract_t victims) ch else [t]
  end.
Fixpoint has_dup_did (l : list did) : bool :=
  match l with
  | [] => false
  | d :: l' => existsb (did_eqb d) l' || has_dup_did l'
  end.
Definition keep_collides_all (t : tstate) (victims : list nat) (n : nat) : bool :=
  match node_loc n (forest_of t) with
  | Some (_, _, l) => has_dup_did (map rdid (flat_map (contract_t victims) l))
  | None => false
  end.

Definition remove_one (t : tstate) (n : nat) (keep : bool) : option tstate :=
  if keep then remove_keep t n else remove_branch t n.

Definition live (t : tstate) (n : nat) : bool := existsb (Nat.eqb n) (ids (forest_of t)).

Definition op_remove (w : world) (ti n : nat) (keep with_clones : bool) : res * world :=
  match get_tree w ti with
  | None => (Err EModel, w)
  | Some t =>
      match did_of n (forest_of t) with
      | None => (Err EModel, w)
      | Some d =>
          let victims := if with_clones then filter (fun c => negb (Nat.eqb c n)) (idx_get d (idx t)) ++ [n] else [n] in
          (* everything is validated before the first node goes *)
          if keep && existsb (keep_collides_all t victims) victims then (Err EUnique, w)
          else
            let t' := fold_left (fun acc v => if live acc v
                                              then match remove_one acc v keep with Some a => a | None => acc end
                                              else acc) victims t in
            (Ok [], put_tree w ti t')
      end
  end.

Definition op_remove_children (w : world) (ti n : nat) : res * world :=
  match get_tree w ti with
  | None => (Err EModel, w)
  | Some t =>
      match parent_path n (forest_of t) with
      | None => (Err EModel, w)
      | Some pq =>
          match get_ch pq (forest_of t) with
          | None => (Err EModel, w)
          | Some ch =>
              (* post-order unregistering; the order does not show in the result *)
              let (r', ix') := unregister_all (pre_f ch) (reg t) (idx t) in
              (Ok [], put_tree w ti (set_all t (upd_ch pq (fun _ => []) (forest_of t)) r' ix'))
          end
      end
  end.

(* ---- sort ---- *)
Fixpoint text_leb (a b : text) : bool :=
  match a, b with
  | [], _ => true
  | _ :: _, [] => false
  | x :: a', y :: b' => if (x <? y)%Z then true else if (y <? x)%Z then false else text_leb a' b'
  end.

Definition keyt := list (nat * option text).     (* node -> key, None = the key callback raises *)
Definition key_of (k : keyt) (n : nat) : option text :=
  match find (fun e => Nat.eqb (fst e) n) k with Some e => snd e | None => None end.

Fixpoint ins_sorted (k : keyt) (x : rt) (l : list rt) : list rt :=
  match l with
  | [] => [x]
  | y :: l' =>
      match key_of k (rid x), key_of k (rid y) with
      | Some kx, Some ky => if text_leb kx ky then x :: l else y :: ins_sorted k x l'
      | _, _ => x :: l
      end
  end.
Definition isort (k : keyt) (l : list rt) : list rt := fold_right (ins_sorted k) [] l.
Definition py_sort (k : keyt) (reverse : bool) (l : list rt) : list rt :=
  if reverse then rev (isort k (rev l)) else isort k l.

Definition keys_ok (k : keyt) (l : list rt) : bool :=
  forallb (fun t => match key_of k (rid t) with Some _ => true | None => false end) l.

(* sort_children(deep): returns the new branch and whether a key raised; after
   a raise nothing further is touched.  Python sorts a level and then
   recurses into the *sorted* children, so the recursion is on fuel
   (the height bounds the depth; [size] is used, exhaustion is impossible
   and reported as failure) *)
Fixpoint sort_deep (fuel : nat) (k : keyt) (reverse : bool) (t : rt) (failed : bool) {struct fuel} : rt * bool :=
  match fuel with
  | 0 => (t, true)
  | S fuel' =>
    match t with
    | T id i ch =>
      if failed then (t, true)
      else match ch with
           | [] => (t, false)
           | _ =>
             if negb (keys_ok k ch) then (t, true)
             else
               let sorted := py_sort k reverse ch in
               let r := (fix go (l : list rt) (failed : bool) : list rt * bool :=
                           match l with
                           | [] => ([], failed)
                           | c :: l' => let (c', f1) := sort_deep fuel' k reverse c failed in
                                        let (r', f2) := go l' f1 in (c' :: r', f2)
                           end) sorted false in
               (T id i (fst r), snd r)
           end
    end
  end.

Definition sort_list (k : keyt) (reverse deep : bool) (ch : list rt) : list rt * bool :=
  let fuel := S (size_f ch) in
  match ch with
  | [] => (ch, false)
  | _ =>
      if Nat.eqb (length ch) 1 && negb deep then (ch, false)
      else if negb (keys_ok k ch) then (ch, true)
      else
        let sorted := py_sort k reverse ch in
        if deep then
          (fix go (l : list rt) (failed : bool) : list rt * bool :=
             match l with
             | [] => ([], failed)
             | c :: l' => let (c', f1) := sort_deep fuel k reverse c failed in
                          let (r', f2) := go l' f1 in (c' :: r', f2)
             end) sorted false
        else (sorted, false)
  end.

Definition op_sort (w : world) (ti p : nat) (k : keyt) (reverse deep : bool) : res * world :=
  match get_tree w ti with
  | None => (Err EModel, w)
  | Some t =>
      match parent_path p (forest_of t) with
      | None => (Err EModel, w)
      | Some pq =>
          match get_ch pq (forest_of t) with
          | None => (Err EModel, w)
          | Some ch =>
              let (ch', failed) := sort_list k reverse deep ch in
              let w' := put_tree w ti (set_forest t (upd_ch pq (fun _ => ch') (forest_of t))) in
              (if failed then Err ECrash else Ok [], w')
          end
      end
  end.

(* ---- set_data / rename ---- *)
Definition set_info_at (n : nat) (g : info -> info) (f : forest) : forest :=
  match node_loc n f with
  | Some (q0, i, _) => upd_ch q0 (upd_nth i (fun t => match t with T id inf ch => T id (g inf) ch end)) f
  | None => f
  end.

Definition sib_clash (f : forest) (group : list nat) (newid : did) (n : nat) : bool :=
  match node_loc n f with
  | Some (_, _, l) => existsb (fun s => did_eqb (rdid s) newid && negb (existsb (Nat.eqb (rid s)) group)) l
  | None => false
  end.

Definition idx_move_group (old e : did) (cur : list nat) (ix : idxt) : idxt :=
  let ix1 := filter (fun en => negb (did_eqb (fst en) old)) ix in
  if idx_has e ix1
  then map (fun en => if did_eqb (fst en) e then (fst en, snd en ++ cur) else en) ix1
  else ix1 ++ [(e, cur)].

Definition relabel (group : list nat) (g : info -> info) (f : forest) : forest :=
  fold_left (fun acc m => set_info_at m g acc) group f.

Definition op_set_data (w : world) (ti n : nat) (d : option dat) (explicit : option did)
           (with_clones : option bool) : res * world :=
  match get_tree w ti with
  | None => (Err EModel, w)
  | Some t =>
      match get_node n (forest_of t) with
      | None => (Err EModel, w)
      | Some s =>
          match d, explicit with
          | None, None => (Err EValue, w)
          | _, _ =>
            let new_data := match d with
                            | Some x => if Z.eqb (d_obj x) (i_obj (rinfo s)) then None else Some x
                            | None => None
                            end in
            (* data_id defaults to the id calculated from the new data *)
            match (match new_data, explicit with
                   | Some x, None => option_map Some (calc_id (calc t) x)
                   | _, e => Some e
                   end) with
            | None => (Err ECrash, w)
            | Some did' =>
              let new_did := match did' with
                             | Some e => if did_eqb e (rdid s) then None else Some e
                             | None => None
                             end in
              let cur := idx_get (rdid s) (idx t) in
              let has_clones := Nat.ltb 1 (length cur) in
              let wc := match with_clones with Some true => true | _ => false end in
              if has_clones && (match with_clones with None => true | _ => false end)
              then (Err EAmbiguous, w)
              else
                let setd := fun inf => match new_data with Some x => set_dat_i x inf | None => inf end in
                match new_did with
                | Some e =>
                    let group := if has_clones && wc then cur else [n] in
                    if existsb (sib_clash (forest_of t) group e) group then (Err EUnique, w)
                    else
                      let f' := relabel group (fun inf => set_did_i e (setd inf)) (forest_of t) in
                      let ix' := if has_clones && wc then idx_move_group (rdid s) e cur (idx t)
                                 else idx_add e n (idx_del (rdid s) n (idx t)) in
                      (Ok [], put_tree w ti (set_all t f' (reg t) ix'))
                | None =>
                    match new_data with
                    | Some _ =>
                        let group := if wc then cur else [n] in
                        (Ok [], put_tree w ti (set_forest t (relabel group setd (forest_of t))))
                    | None => (Ok [], w)
                    end
                end
            end
          end
      end
  end.

Definition op_rename (w : world) (ti n : nat) (d : dat) : res * world :=
  match get_tree w ti with
  | None => (Err EModel, w)
  | Some t => match get_node n (forest_of t) with
              | None => (Err EModel, w)
              | Some s => if i_isstr (rinfo s) then op_set_data w ti n (Some d) None None
                          else (Err EValue, w)
              end
  end.

(* ---- metadata ---- *)
Definition meta_del (k : text) (m : list (text * sx)) : list (text * sx) :=
  filter (fun e => negb (text_eqb (fst e) k)) m.
Definition meta_set (k : text) (v : sx) (m : list (text * sx)) : list (text * sx) :=
  if existsb (fun e => text_eqb (fst e) k) m
  then map (fun e => if text_eqb (fst e) k then (k, v) else e) m
  else m ++ [(k, v)].

Inductive metaop :=
| MSet (k : text) (v : option sx)
| MClear (k : option text)
| MUpdate (vals : list (text * sx)) (replace : bool).

Definition apply_meta (o : metaop) (m : list (text * sx)) : list (text * sx) :=
  match o with
  | MSet k (Some v) => meta_set k v m
  | MSet k None => meta_del k m
  | MClear None => []
  | MClear (Some k) => meta_del k m
  | MUpdate vals replace =>
      if replace || (match m with [] => true | _ => false end) then fold_left (fun a e => meta_set (fst e) (snd e) a) vals []
      else fold_left (fun a e => meta_set (fst e) (snd e) a) vals m
  end.

Definition op_meta (w : world) (ti n : nat) (o : metaop) : res * world :=
  match get_tree w ti with
  | None => (Err EModel, w)
  | Some t => if live t n
              then (Ok [], put_tree w ti (set_forest t (set_info_at n (fun i => set_meta_i (apply_meta o (i_meta i)) i) (forest_of t))))
              else (Err EModel, w)
  end.

(* ---- the shortcuts ---- *)
Inductive shortcut := SAppendChild | SPrependChild | SPrependSibling | SAppendSibling.

Definition op_shortcut (w : world) (ti n : nat) (how : shortcut) (d : dat) (explicit : option did) (k : kind)
  : res * world :=
  match get_tree w ti with
  | None => (Err EModel, w)
  | Some t =>
      match how with
      | SAppendChild => op_add w ti n d explicit k BNone
      | SPrependChild =>
          match children_of n (forest_of t) with
          | Some (c :: _) => op_add w ti n d explicit k (BNode (rid c))
          | Some [] => op_add w ti n d explicit k BNone
          | None => (Err EModel, w)
          end
      | SPrependSibling =>
          match parent_of n (forest_of t), get_node n (forest_of t) with
          | Some p, Some s => op_add w ti p d explicit (if typed t then rkind s else None) (BNode n)
          | _, _ => (Err EModel, w)
          end
      | SAppendSibling =>
          match parent_of n (forest_of t), node_loc n (forest_of t), get_node n (forest_of t) with
          | Some p, Some (_, i, l), Some s =>
              op_add w ti p d explicit (if typed t then rkind s else None)
                     (match nth_error l (S i) with Some nx => BNode (rid nx) | None => BNone end)
          | _, _, _ => (Err EModel, w)
          end
      end
  end.

(* ---- clear / del ---- *)
Definition op_clear (w : world) (ti : nat) : res * world := op_remove_children w ti 0.

(* del tree[key] = tree[key].remove().  Tree.__getitem__: a node_id, else the key itself as data_id
   if it is an int/str present in the index, else calc_data_id(key) *)
Inductive delkey :=
| KNode (n : nat)                           (* tree[node.node_id] *)
| KDid (e : did) (fallback : option did)    (* an int/str key; fallback = calc_data_id(key), None = the callback raises *)
| KData (d : dat) (as_did : option did).    (* a data object; as_did = the object itself when it is an int/str *)

Definition getitem (t : tstate) (k : delkey) : option (list nat) :=      (* None: the id callback raised *)
  match k with
  | KNode n => Some (if live t n then [n] else [])
  | KDid e fb => if idx_has e (idx t) then Some (idx_get e (idx t))
                 else option_map (fun x => idx_get x (idx t)) fb
  | KData d a =>
      match a with
      | Some e => if idx_has e (idx t) then Some (idx_get e (idx t))
                  else option_map (fun x => idx_get x (idx t)) (calc_id (calc t) d)
      | None => option_map (fun x => idx_get x (idx t)) (calc_id (calc t) d)
      end
  end.

Definition op_del (w : world) (ti : nat) (k : delkey) : res * world :=
  match get_tree w ti with
  | None => (Err EModel, w)
  | Some t =>
      match getitem t k with
      | None => (Err ECrash, w)
      | Some [] => (Err EKey, w)
      | Some [n] => op_remove w ti n false false
      | Some _ => (Err EAmbiguous, w)
      end
  end.

(* ---- in-place filter (as repaired: D05, D25) ---- *)
Inductive verdict := VTrue | VFalse | VSkip | VSkipKeep | VSelect | VStop | VRaise.
Definition verdicts := list (nat * verdict).
Definition verdict_of (vd : verdicts) (n : nat) : verdict :=
  match find (fun e => Nat.eqb (fst e) n) vd with Some e => snd e | None => VTrue end.

(* what Node.filter does to the tree, in execution order *)
Inductive fact := FBranch (n : nat) (* n.remove() *) | FKids (n : nat) (* n.remove_children() *).

(* _visit(t): (must_keep, actions, stopped, predicate raised) *)
Fixpoint fvisit (vd : verdicts) (t : rt) (stopped : bool) {struct t} : bool * list fact * bool * bool :=
  match t with
  | T _ _ ch =>
      (fix go (l : list rt) (s : bool) (pend : list nat) (must : bool) (acts : list fact) {struct l}
         : bool * list fact * bool * bool :=
         match l with
         | [] => (must, acts ++ map FBranch pend, s, false)
         | c :: l' =>
             match (if s then VSkip else verdict_of vd (rid c)) with
             | VRaise => (must, acts, s, true)
             | VStop => go l' true (pend ++ [rid c]) must acts
             | VSkip => go l' s (pend ++ [rid c]) must acts
             | VSkipKeep => go l' s pend true (acts ++ [FKids (rid c)])
             | VSelect => go l' s pend true acts
             | VTrue =>
                 match fvisit vd c s with
                 | (_, a, s', true) => (must, acts ++ a, s', true)
                 | (_, a, s', false) => go l' s' pend true (acts ++ a)
                 end
             | VFalse =>
                 match fvisit vd c s with
                 | (_, a, s', true) => (must, acts ++ a, s', true)
                 | (true, a, s', false) => go l' s' pend true (acts ++ a)
                 | (false, a, s', false) => go l' s' (pend ++ [rid c]) must (acts ++ a)
                 end
             end
         end) ch stopped [] false []
  end.

Definition dummy_info : info := I 0 0 0 false [] (DInt 0) None [].

Definition remove_kids (t : tstate) (n : nat) : option tstate :=
  match parent_path n (forest_of t) with
  | Some pq => match get_ch pq (forest_of t) with
               | Some ch => let (r', ix') := unregister_all (pre_f ch) (reg t) (idx t) in
                            Some (set_all t (upd_ch pq (fun _ => []) (forest_of t)) r' ix')
               | None => None
               end
  | None => None
  end.

Definition apply_fact (t : tstate) (a : fact) : tstate :=
  match a with
  | FBranch n => match remove_branch t n with Some t' => t' | None => t end
  | FKids n => match remove_kids t n with Some t' => t' | None => t end
  end.

Definition op_filter (w : world) (ti n : nat) (vd : verdicts) : res * world :=
  match get_tree w ti with
  | None => (Err EModel, w)
  | Some t =>
      match children_of n (forest_of t) with
      | None => (Err EModel, w)
      | Some ch =>
          match fvisit vd (T 0 dummy_info ch) false with
          | (_, acts, _, failed) =>
              (if failed then Err ECrash else Ok [], put_tree w ti (fold_left apply_fact acts t))
          end
      end
  end.

(* ---- from_dict ---- *)
Inductive ditem := DI (d : dat) (e : option did) (ch : list ditem).

Fixpoint from_dict_item (ti p : nat) (it : ditem) (w : world) {struct it} : res * world :=
  match it with
  | DI d e ch =>
      match op_add w ti p d e None BNone with
      | (Ok [n], w1) =>
          (fix go (l : list ditem) (w : world) {struct l} : res * world :=
             match l with
             | [] => (Ok [], w)
             | x :: l' => match from_dict_item ti n x w with
                          | (Ok _, w2) => go l' w2
                          | err => err
                          end
             end) ch w1
      | (Ok _, w1) => (Err EModel, w1)
      | (Err x, w1) => (Err x, w1)
      end
  end.

Fixpoint from_dict_items (ti p : nat) (l : list ditem) (w : world) : res * world :=
  match l with
  | [] => (Ok [], w)
  | x :: l' => match from_dict_item ti p x w with
               | (Ok _, w2) => from_dict_items ti p l' w2
               | err => err
               end
  end.

Definition op_from_dict (w : world) (ti p : nat) (items : list ditem) : res * world :=
  match get_tree w ti with
  | None => (Err EModel, w)
  | Some t =>
      match children_of p (forest_of t) with
      | None => (Err EModel, w)
      | Some (_ :: _) => (Err EAssert, w)          (* assert not self._children *)
      | Some [] =>
          match from_dict_items ti p items w with
          | (Ok _, w1) => (Ok [], w1)
          | (Err e, w1) => (Err e, W (trees w) (next w1))     (* the half-built branch is removed again (fix D48) *)
          end
      end
  end.

(* Tree.from_dict: a new plain tree; when an item is refused the half-built tree is dropped *)
Definition op_tree_from_dict (w : world) (items : list ditem) : res * world :=
  let ti := length (trees w) in
  let w0 := W (trees w ++ [TS [] [] [] false None]) (next w) in
  match from_dict_items ti 0 items w0 with
  | (Ok _, w1) => (Ok [ti], w1)
  | (Err e, w1) => (Err e, W (trees w) (next w1))
  end.

(* ---- operations and histories ---- *)
Inductive op :=
| OAdd (ti p : nat) (d : dat) (explicit : option did) (k : kind) (b : before)
| OShort (ti n : nat) (how : shortcut) (d : dat) (explicit : option did) (k : kind)
| OAddNode (ti p sti src : nat) (explicit : option did) (k : kind) (b : before) (deep : option bool)
| OAddTree (ti p sti : nat) (b : before) (deep : option bool)
| OCopyTo (sti src ti target : nat) (add_self : bool) (b : before) (deep : bool)
| OTreeCopy (sti : nat)
| ONodeCopy (sti src : nat) (add_self : bool)
| OMove (ti n tti target : nat) (b : before)
| ORemove (ti n : nat) (keep with_clones : bool)
| ORemoveChildren (ti n : nat)
| OSort (ti p : nat) (k : keyt) (reverse deep : bool)
| OSetData (ti n : nat) (d : option dat) (explicit : option did) (with_clones : option bool)
| ORename (ti n : nat) (d : dat)
| OMeta (ti n : nat) (o : metaop)
| ONewTree (is_typed : bool) (c : calcspec)
| OClear (ti : nat)
| ODel (ti : nat) (k : delkey)
| OFilter (ti n : nat) (vd : verdicts)
| OFromDict (ti p : nat) (items : list ditem)
| OTreeFromDict (items : list ditem).

Definition step (w : world) (o : op) : res * world :=
  match o with
  | OAdd ti p d e k b => op_add w ti p d e k b
  | OShort ti n how d e k => op_shortcut w ti n how d e k
  | OAddNode ti p sti src e k b deep => op_add_node w ti p sti src e k b deep
  | OAddTree ti p sti b deep => op_add_tree w ti p sti b deep
  | OCopyTo sti src ti target a b deep => op_copy_to w sti src ti target a b deep
  | OTreeCopy sti => op_tree_copy w sti
  | ONodeCopy sti src a => op_node_copy w sti src a
  | OMove ti n tti target b => op_move w ti n tti target b
  | ORemove ti n keep wc => op_remove w ti n keep wc
  | ORemoveChildren ti n => op_remove_children w ti n
  | OSort ti p k r dp => op_sort w ti p k r dp
  | OSetData ti n d e wc => op_set_data w ti n d e wc
  | ORename ti n d => op_rename w ti n d
  | OMeta ti n o => op_meta w ti n o
  | ONewTree ty c => (Ok [length (trees w)], W (trees w ++ [TS [] [] [] ty c]) (next w))
  | OClear ti => op_clear w ti
  | ODel ti k => op_del w ti k
  | OFilter ti n vd => op_filter w ti n vd
  | OFromDict ti p items => op_from_dict w ti p items
  | OTreeFromDict items => op_tree_from_dict w items
  end.

Definition run (ops : list op) (w : world) : world := fold_left (fun w o => snd (step w o)) ops w.

(* trace of results + states, for the correspondence *)
Definition sx_res (r : res) : sx :=
  match r with Ok l => L [A 0%Z; sx_ids l] | Err e => L [A 1%Z; sx_nat e] end.

Definition sx_idx (ix : idxt) : sx := L (map (fun e => L [sx_did (fst e); sx_ids (snd e)]) ix).

Definition sx_tstate (t : tstate) : sx :=
  L [sx_forest (forest_of t); sx_ids (reg t); sx_idx (idx t)].

Definition sx_world (w : world) : sx := L (map sx_tstate (trees w)).

Fixpoint trace (ops : list op) (w : world) : list sx :=
  match ops with
  | [] => []
  | o :: rest => let (r, w') := step w o in L [sx_res r; sx_world w'] :: trace rest w'
  end.

Definition empty_world : world := W [] 1.
