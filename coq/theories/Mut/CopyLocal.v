(* C07, part 7: locality.  The outcome of an operation - its result, the tree it works on
   afterwards, the allocator - is a function of the tree it works on, of the tree it reads its
   copy source from (copy operations only) and of the allocator.  No other tree is read.
   Together with FrameTrees (no other tree is written) this is the full independence of
   a copy and its source: a history on one side neither changes the other side nor depends on it. *)
From Coq Require Import List ZArith Bool Arith Lia.
From NT Require Import Sx Rose Surgery Machine Effects FrameTrees CopyFacts.
Import ListNotations.

(* two worlds that agree on the allocator and on the trees listed in S *)
Definition same_on (S : list nat) (w1 w2 : world) : Prop :=
  next w1 = next w2 /\ forall t, In t S -> get_tree w1 t = get_tree w2 t.

Definition sim (S : list nat) (x1 x2 : res * world) : Prop :=
  fst x1 = fst x2 /\ same_on S (snd x1) (snd x2).

Lemma get_put_map : forall l ti (t' : tstate), nth_error (upd_nth ti (fun _ => t') l) ti = option_map (fun _ => t') (nth_error l ti).
Proof. induction l as [|x l IH]; intros [|ti] t'; cbn; auto. Qed.

Lemma same_on_put S w1 w2 n ti t' :
  same_on S w1 w2 -> In ti S -> same_on S (put_tree (W (trees w1) n) ti t') (put_tree (W (trees w2) n) ti t').
Proof.
  intros (N & E) Hi. split; [reflexivity|]. intros t Ht. destruct (Nat.eq_dec t ti) as [->|Hn].
  - unfold get_tree, put_tree. cbn [trees]. rewrite !get_put_map.
    specialize (E ti Hi). unfold get_tree in E. now rewrite E.
  - rewrite !get_put_other' by congruence. now apply E.
Qed.

Lemma same_on_put' S w1 w2 ti t' :
  same_on S w1 w2 -> In ti S -> same_on S (put_tree w1 ti t') (put_tree w2 ti t').
Proof.
  intros H Hi. pose proof (same_on_put S w1 w2 (next w2) ti t' H Hi) as X.
  destruct H as (N & _). destruct w1 as [ts1 n1], w2 as [ts2 n2]. cbn [next trees] in *. subst n1. exact X.
Qed.

Lemma same_on_next S w1 w2 n : same_on S w1 w2 -> same_on S (W (trees w1) n) (W (trees w2) n).
Proof. intros (N & E). split; [reflexivity|exact E]. Qed.

Lemma sim_leaf S r w1 w2 : same_on S w1 w2 -> sim S (r, w1) (r, w2).
Proof. intros H. split; [reflexivity|exact H]. Qed.

Ltac sim_step :=
  match goal with
  | |- sim _ (match ?x with _ => _ end) (match ?x with _ => _ end) => destruct x eqn:?
  | |- sim _ (if ?x then _ else _) (if ?x then _ else _) => destruct x eqn:?
  | |- sim _ (let (_, _) := ?x in _) (let (_, _) := ?x in _) => destruct x eqn:?
  end.
Ltac sim_leaf :=
  apply sim_leaf;
  first [ assumption
        | apply same_on_next; assumption
        | apply same_on_put; assumption
        | apply same_on_put'; assumption ].
(* [H : same_on S w1 w2], [Hi : In ti S]: rewrite the reads of w1 into reads of w2 *)
Ltac sim_crush := repeat sim_step; try sim_leaf.

Lemma op_add_local S w1 w2 ti p d e k b : same_on S w1 w2 -> In ti S ->
  sim S (op_add w1 ti p d e k b) (op_add w2 ti p d e k b).
Proof.
  intros H Hi. pose proof H as (N & E). unfold op_add, bump. rewrite (E ti Hi), N. sim_crush.
Qed.

Ltac sim_open H Hi op :=
  let N := fresh "N" in let E := fresh "E" in
  pose proof H as (N & E); unfold op, bump; rewrite (E _ Hi), ?N.

Lemma op_add_node_local S w1 w2 ti p sti src e k b deep : same_on S w1 w2 -> In ti S -> In sti S ->
  sim S (op_add_node w1 ti p sti src e k b deep) (op_add_node w2 ti p sti src e k b deep).
Proof.
  intros H Hi Hs. pose proof H as (N & E). unfold op_add_node, bump. rewrite (E ti Hi), (E sti Hs), N. sim_crush.
Qed.

Lemma add_nodes_local S ti p sti b deep : In ti S -> In sti S -> forall srcs w1 w2 acc,
  same_on S w1 w2 -> sim S (add_nodes w1 ti p sti srcs b deep acc) (add_nodes w2 ti p sti srcs b deep acc).
Proof.
  intros Hi Hs. induction srcs as [|s srcs IH]; intros w1 w2 acc H; cbn [add_nodes]; [now apply sim_leaf|].
  destruct (op_add_node_local S w1 w2 ti p sti s None None b deep H Hi Hs) as (F & X).
  destruct (op_add_node w1 ti p sti s None None b deep) as [r1 v1], (op_add_node w2 ti p sti s None None b deep) as [r2 v2].
  cbn [fst snd] in *. subst r2. destruct r1 as [r|e]; [now apply IH|now apply sim_leaf].
Qed.

Lemma sim_post S (f : list nat -> list nat) x1 x2 : sim S x1 x2 ->
  sim S (let (r0, w') := x1 in match r0 with Ok r => (Ok (f r), w') | Err e => (Err e, w') end)
        (let (r0, w') := x2 in match r0 with Ok r => (Ok (f r), w') | Err e => (Err e, w') end).
Proof.
  destruct x1 as [r1 v1], x2 as [r2 v2]. intros (F & X). cbn [fst snd] in *. subst r2.
  destruct r1; split; cbn [fst snd]; auto.
Qed.

Lemma op_add_tree_local S w1 w2 ti p sti b deep : same_on S w1 w2 -> In ti S -> In sti S ->
  sim S (op_add_tree w1 ti p sti b deep) (op_add_tree w2 ti p sti b deep).
Proof.
  intros H Hi Hs. pose proof H as (N & E). unfold op_add_tree. rewrite (E ti Hi), (E sti Hs).
  repeat sim_step; try sim_leaf.
  all: cbv zeta; apply (sim_post S (fun r => if typed t then [] else match rev r with x :: _ => [x] | [] => [] end));
    now apply add_nodes_local.
Qed.

Lemma op_copy_to_local S w1 w2 sti src ti target a b deep : same_on S w1 w2 -> In ti S -> In sti S ->
  sim S (op_copy_to w1 sti src ti target a b deep) (op_copy_to w2 sti src ti target a b deep).
Proof.
  intros H Hi Hs. pose proof H as (N & E). unfold op_copy_to. destruct a; [now apply op_add_node_local|].
  rewrite (E ti Hi), (E sti Hs).
  repeat sim_step; try sim_leaf.
  all: apply (sim_post S (fun r => if Nat.eqb src 0 then [] else match r with x :: _ => [x] | [] => [] end));
    now apply add_nodes_local.
Qed.

(* -- the operations that read nothing but their own tree -- *)
Lemma op_move_local S w1 w2 ti n tti target b : same_on S w1 w2 -> In ti S ->
  sim S (op_move w1 ti n tti target b) (op_move w2 ti n tti target b).
Proof. intros H Hi. pose proof H as (N & E). unfold op_move. rewrite (E ti Hi). sim_crush. Qed.

Lemma op_remove_local S w1 w2 ti n keep wc : same_on S w1 w2 -> In ti S ->
  sim S (op_remove w1 ti n keep wc) (op_remove w2 ti n keep wc).
Proof. intros H Hi. pose proof H as (N & E). unfold op_remove. rewrite (E ti Hi). sim_crush. Qed.

Lemma op_remove_children_local S w1 w2 ti n : same_on S w1 w2 -> In ti S ->
  sim S (op_remove_children w1 ti n) (op_remove_children w2 ti n).
Proof. intros H Hi. pose proof H as (N & E). unfold op_remove_children. rewrite (E ti Hi). sim_crush. Qed.

Lemma op_sort_local S w1 w2 ti p k rv dp : same_on S w1 w2 -> In ti S ->
  sim S (op_sort w1 ti p k rv dp) (op_sort w2 ti p k rv dp).
Proof.
  intros H Hi. pose proof H as (N & E). unfold op_sort. rewrite (E ti Hi). repeat sim_step; try sim_leaf.
  all: split; [reflexivity|now apply same_on_put'].
Qed.

Lemma op_set_data_local S w1 w2 ti n d e wc : same_on S w1 w2 -> In ti S ->
  sim S (op_set_data w1 ti n d e wc) (op_set_data w2 ti n d e wc).
Proof. intros H Hi. pose proof H as (N & E). unfold op_set_data. rewrite (E ti Hi). sim_crush. Qed.

Lemma op_rename_local S w1 w2 ti n d : same_on S w1 w2 -> In ti S ->
  sim S (op_rename w1 ti n d) (op_rename w2 ti n d).
Proof.
  intros H Hi. pose proof H as (N & E). unfold op_rename. rewrite (E ti Hi). repeat sim_step; try sim_leaf.
  now apply op_set_data_local.
Qed.

Lemma op_meta_local S w1 w2 ti n o : same_on S w1 w2 -> In ti S ->
  sim S (op_meta w1 ti n o) (op_meta w2 ti n o).
Proof. intros H Hi. pose proof H as (N & E). unfold op_meta. rewrite (E ti Hi). sim_crush. Qed.

Lemma op_shortcut_local S w1 w2 ti n how d e k : same_on S w1 w2 -> In ti S ->
  sim S (op_shortcut w1 ti n how d e k) (op_shortcut w2 ti n how d e k).
Proof.
  intros H Hi. pose proof H as (N & E). unfold op_shortcut. rewrite (E ti Hi).
  destruct (get_tree w2 ti); [|now apply sim_leaf].
  destruct how; repeat sim_step; try sim_leaf; now apply op_add_local.
Qed.

Lemma op_del_local S w1 w2 ti k : same_on S w1 w2 -> In ti S ->
  sim S (op_del w1 ti k) (op_del w2 ti k).
Proof.
  intros H Hi. pose proof H as (N & E). unfold op_del. rewrite (E ti Hi). repeat sim_step; try sim_leaf.
  now apply op_remove_local.
Qed.

Lemma op_filter_local S w1 w2 ti n vd : same_on S w1 w2 -> In ti S ->
  sim S (op_filter w1 ti n vd) (op_filter w2 ti n vd).
Proof.
  intros H Hi. pose proof H as (N & E). unfold op_filter. rewrite (E ti Hi). repeat sim_step; try sim_leaf.
  all: split; [reflexivity|now apply same_on_put'].
Qed.

(* -- from_dict: a fold of add_child(data) -- *)
Lemma from_dict_item_local S ti : In ti S -> forall it p w1 w2, same_on S w1 w2 ->
  sim S (from_dict_item ti p it w1) (from_dict_item ti p it w2).
Proof.
  intros Hi. fix IH 1. intros [d e ch] p w1 w2 H. cbn [from_dict_item].
  destruct (op_add_local S w1 w2 ti p d e None BNone H Hi) as (F & X).
  destruct (op_add w1 ti p d e None BNone) as [r1 v1], (op_add w2 ti p d e None BNone) as [r2 v2].
  cbn [fst snd] in *. subst r2. destruct r1 as [[|n [|? ?]]|x]; try (now apply sim_leaf).
  revert v1 v2 X. induction ch as [|c ch IHch]; intros v1 v2 X; [now apply sim_leaf|].
  destruct (IH c n v1 v2 X) as (F2 & X2).
  destruct (from_dict_item ti n c v1) as [q1 u1], (from_dict_item ti n c v2) as [q2 u2].
  cbn [fst snd] in *. subst q2. destruct q1; [now apply IHch|now apply sim_leaf].
Qed.

Lemma from_dict_items_local S ti p : In ti S -> forall l w1 w2, same_on S w1 w2 ->
  sim S (from_dict_items ti p l w1) (from_dict_items ti p l w2).
Proof.
  intros Hi. induction l as [|x l IH]; intros w1 w2 H; cbn [from_dict_items]; [now apply sim_leaf|].
  destruct (from_dict_item_local S ti Hi x p w1 w2 H) as (F & X).
  destruct (from_dict_item ti p x w1) as [q1 u1], (from_dict_item ti p x w2) as [q2 u2].
  cbn [fst snd] in *. subst q2. destruct q1; [now apply IH|now apply sim_leaf].
Qed.

Lemma op_from_dict_local S w1 w2 ti p items : same_on S w1 w2 -> In ti S ->
  sim S (op_from_dict w1 ti p items) (op_from_dict w2 ti p items).
Proof.
  intros H Hi. pose proof H as (N & E). unfold op_from_dict. rewrite (E ti Hi). repeat sim_step; try sim_leaf.
  destruct (from_dict_items_local S ti p Hi items w1 w2 H) as (F & X).
  destruct (from_dict_items ti p items w1) as [q1 u1], (from_dict_items ti p items w2) as [q2 u2].
  cbn [fst snd] in *. subst q2. destruct q1; apply sim_leaf; [exact X|].
  destruct X as (N2 & _). rewrite N2. now apply same_on_next.
Qed.

(* ------------------------------------------------------------------ *)
(* the trees an operation reads: the one it works on and (copies) the source tree *)
Definition op_footprint (o : op) : list nat :=
  match op_tree o, op_reads o with
  | Some ti, Some s => [ti; s]
  | Some ti, None => [ti]
  | None, Some s => [s]
  | None, None => []
  end.

(* operations on an existing tree: result, the trees of the footprint and the allocator afterwards
   are determined by the trees of the footprint and the allocator before *)
Theorem step_local S w1 w2 o ti :
  op_tree o = Some ti -> incl (op_footprint o) S -> same_on S w1 w2 -> sim S (step w1 o) (step w2 o).
Proof.
  intros Ht Hf H.
  assert (Hi : In ti S) by (apply Hf; unfold op_footprint; rewrite Ht; destruct (op_reads o); now left).
  destruct o; cbn [op_tree] in Ht; try discriminate; injection Ht as ->; cbn [step].
  - now apply op_add_local.
  - now apply op_shortcut_local.
  - apply op_add_node_local; auto. apply Hf. cbn. auto.
  - apply op_add_tree_local; auto. apply Hf. cbn. auto.
  - apply op_copy_to_local; auto. apply Hf. cbn. auto.
  - now apply op_move_local.
  - now apply op_remove_local.
  - now apply op_remove_children_local.
  - now apply op_sort_local.
  - now apply op_set_data_local.
  - now apply op_rename_local.
  - now apply op_meta_local.
  - now apply op_remove_children_local.
  - now apply op_del_local.
  - now apply op_filter_local.
  - now apply op_from_dict_local.
Qed.

(* the operations that build a new tree: its index, the new tree and the allocator are determined by the
   source tree (Tree.copy, Node.copy), the number of trees and the allocator *)
Lemma get_tree_snoc l (t : tstate) n : get_tree (W (l ++ [t]) n) (length l) = Some t.
Proof. unfold get_tree. cbn [trees]. rewrite nth_error_app2 by lia. now rewrite Nat.sub_diag. Qed.

Lemma get_tree_end w : get_tree w (length (trees w)) = None.
Proof. unfold get_tree. apply nth_error_None. lia. Qed.

Lemma same_on_end w1 w2 n : length (trees w1) = length (trees w2) ->
  same_on [length (trees w1)] (W (trees w1) n) (W (trees w2) n).
Proof.
  intros L. split; [reflexivity|]. intros t [<-|[]].
  change (get_tree (W (trees w1) n) (length (trees w1))) with (get_tree w1 (length (trees w1))).
  rewrite get_tree_end. rewrite L.
  change (get_tree (W (trees w2) n) (length (trees w2))) with (get_tree w2 (length (trees w2))).
  now rewrite get_tree_end.
Qed.

Lemma same_on_snoc w1 w2 t n : length (trees w1) = length (trees w2) ->
  same_on [length (trees w1)] (W (trees w1 ++ [t]) n) (W (trees w2 ++ [t]) n).
Proof.
  intros L. split; [reflexivity|]. intros x [<-|[]]. rewrite get_tree_snoc, L. now rewrite get_tree_snoc.
Qed.

Theorem new_tree_local w1 w2 o :
  op_tree o = None -> length (trees w1) = length (trees w2) -> same_on (op_footprint o) w1 w2 ->
  sim [length (trees w1)] (step w1 o) (step w2 o).
Proof.
  intros Ht L (N & E). destruct o; cbn [op_tree] in Ht; try discriminate; cbn [step op_footprint op_tree op_reads] in *.
  - (* Tree.copy *)
    unfold op_tree_copy. rewrite (E sti (or_introl eq_refl)), N.
    destruct (get_tree w2 sti) as [st|].
    + destruct (copy_f _ _ _ _) as [kids n']. destruct (register_all _ _ _) as [r' ix'].
      split; cbn [fst snd]; [now rewrite L|now apply same_on_snoc].
    + split; [reflexivity|]. cbn [snd]. destruct w1 as [l1 n1], w2 as [l2 n2]. cbn [next] in N. subst n1.
      apply (same_on_end (W l1 n2) (W l2 n2) n2 L).
  - (* Node.copy *)
    unfold op_node_copy. rewrite (E sti (or_introl eq_refl)), N.
    assert (Herr : sim [length (trees w1)] (Err EModel, w1) (Err EModel, w2)).
    { split; [reflexivity|]. cbn [snd]. destruct w1 as [l1 n1], w2 as [l2 n2]. cbn [next] in N. subst n1.
      apply (same_on_end (W l1 n2) (W l2 n2) n2 L). }
    destruct (get_tree w2 sti) as [st|]; [|exact Herr].
    destruct (get_node src (forest_of st)) as [s|]; [|exact Herr].
    destruct (copy_f _ _ _ _) as [kids0 n']. destruct (register_all _ _ _) as [r' ix'].
    split; cbn [fst snd]; [now rewrite L|now apply same_on_snoc].
  - (* new tree *)
    split; cbn [fst snd]; [now rewrite L|]. rewrite N. now apply same_on_snoc.
  - (* Tree.from_dict *)
    unfold op_tree_from_dict. rewrite N, <- L.
    assert (X0 : same_on [length (trees w1)] (W (trees w1 ++ [TS [] [] [] false None]) (next w2))
                                              (W (trees w2 ++ [TS [] [] [] false None]) (next w2)))
      by now apply same_on_snoc.
    destruct (from_dict_items_local [length (trees w1)] (length (trees w1)) 0 (or_introl eq_refl) items _ _ X0) as (F & X).
    destruct (from_dict_items _ 0 items (W (trees w1 ++ _) _)) as [q1 u1], (from_dict_items _ 0 items (W (trees w2 ++ _) _)) as [q2 u2].
    cbn [fst snd] in *. subst q2. destruct q1; split; cbn [fst snd]; auto.
    destruct X as (N2 & _). rewrite N2. now apply same_on_end.
Qed.

(* ------------------------------------------------------------------ *)
(* histories on one tree: everything they do to it is determined by that tree and the allocator;
   whatever the other trees of the world are *)
Fixpoint results (ops : list op) (w : world) : list res :=
  match ops with [] => [] | o :: rest => fst (step w o) :: results rest (snd (step w o)) end.

Theorem history_local ti : forall ops w1 w2,
  Forall (fun o => op_tree o = Some ti /\ (op_reads o = None \/ op_reads o = Some ti)) ops ->
  same_on [ti] w1 w2 ->
  results ops w1 = results ops w2 /\ same_on [ti] (run ops w1) (run ops w2).
Proof.
  unfold run. induction ops as [|o ops IH]; intros w1 w2 Hf H; cbn [results fold_left]; [auto|].
  inversion Hf as [|? ? (Ht & Hr) Hf']; subst.
  assert (Hfp : incl (op_footprint o) [ti]).
  { unfold op_footprint. rewrite Ht. destruct Hr as [->| ->]; intros x [<-|[<-|[]]] || intros x [<-|[]]; now left. }
  destruct (step_local [ti] w1 w2 o ti Ht Hfp H) as (F & X).
  destruct (IH _ _ Hf' X) as (R & Y). split; [now rewrite F, R|exact Y].
Qed.
