(* Lookups and clone queries of Tree / Node as they read the explicit state
   ([_node_by_id] = reg, [_nodes_by_data_id] = idx).  Executable definitions only. *)
From Coq Require Import List ZArith Bool Arith.
From NT Require Import Sx Rose Surgery Machine.
Import ListNotations.

(* Tree.find_all(data_id=d) / tree[d] candidates: the index group *)
Definition find_all_did (t : tstate) (d : did) : list nat := idx_get d (idx t).
(* Tree.find_first(data_id=d) *)
Definition find_first_did (t : tstate) (d : did) : option nat := hd_error (idx_get d (idx t)).
(* Tree.find_first(node_id=n) / tree._node_by_id.get(n) *)
Definition find_node_id (t : tstate) (n : nat) : option nat :=
  if existsb (Nat.eqb n) (reg t) then Some n else None.
(* data_id in tree  (Tree.__contains__ on the index) *)
Definition contains_did (t : tstate) (d : did) : bool := idx_has d (idx t).
(* node in tree (by node) *)
Definition contains_node (t : tstate) (n : nat) : bool := existsb (Nat.eqb n) (reg t).
(* Node.get_clones(add_self) *)
Definition get_clones (t : tstate) (n : nat) (add_self : bool) : list nat :=
  match did_of n (forest_of t) with
  | Some d => filter (fun c => add_self || negb (Nat.eqb c n)) (idx_get d (idx t))
  | None => []
  end.
(* Node.is_clone() *)
Definition is_clone (t : tstate) (n : nat) : bool :=
  match did_of n (forest_of t) with
  | Some d => Nat.ltb 1 (length (idx_get d (idx t)))
  | None => false
  end.
(* Tree.count / Tree.count_unique *)
Definition count (t : tstate) : nat := length (reg t).
Definition count_unique (t : tstate) : nat := length (idx t).
(* the data_id a new node gets: explicit, else the tree's callback, else hash(data) *)
Definition did_of_new (c : calcspec) (explicit : option did) (d : dat) : option did :=
  match explicit with Some e => Some e | None => calc_id c d end.
