(* Heap refinement: copies - Node._add_from allocates the copy of a branch node by node *)
From Coq Require Import List ZArith Bool Arith Lia Permutation.
From NT Require Import Sx Rose ListFacts RoseFacts Surgery SurgeryFacts Machine WF MachineFacts PreserveSteps PreserveOps
  PreserveCopy Heap HeapProofs HeapRemove HeapMove.
Import ListNotations.

(* [Below h h' dst kids]: h' is h with the branches [kids] (fresh identities) appended below dst *)
Record Below (h h' : hstate) (dst : nat) (kids : list rt) : Prop := {
  b_dst : hch h' dst = hch h dst ++ map rid kids;
  b_node : forall y, In y (pre_f kids) -> hch h' (rid y) = map rid (rch y) /\ hinf h' (rid y) = rinfo y /\ htr h' (rid y) = true;
  b_par : forall r, In r (rows dst kids) -> hpar h' (r_id r) = Some (r_par r);
  b_ch_out : forall z, z <> dst -> ~ In z (ids kids) -> hch h' z = hch h z;
  b_out : forall z, ~ In z (ids kids) -> hpar h' z = hpar h z /\ htr h' z = htr h z /\ hinf h' z = hinf h z;
  b_reg : hreg h' = hreg h ++ ids kids;
  b_idx : hidx h' = fold_left (fun a s => idx_add (rdid s) (rid s) a) (pre_f kids) (hidx h);
  b_all : hall h' = hall h ++ ids kids;
  b_typed : htyped h' = htyped h;
  b_calc : hcalc h' = hcalc h
}.

Lemma Below_nil h dst : Below h h dst [].
Proof.
  constructor; cbn; try reflexivity; try (now rewrite app_nil_r); try (intros; contradiction); auto.
Qed.

Lemma copy_f_cons kk dk n c l : copy_f kk dk n (c :: l) =
  let (c', n1) := copy_t kk dk n c in let (r', n2) := copy_f kk dk n1 l in (c' :: r', n2).
Proof. reflexivity. Qed.

Lemma copy_ids_seq kk dk n l : ids (fst (copy_f kk dk n l)) = seq n (size_f l) /\ snd (copy_f kk dk n l) = n + size_f l.
Proof. destruct (proj2 copy_spec l kk dk n) as (H1 & H2 & _). split; [exact H2|now rewrite <- H1]. Qed.

Lemma seq_notin a k x : x < a -> ~ In x (seq a k).
Proof. intros L H. apply in_seq in H. lia. Qed.

(* one source child: allocate + register + append the copy of its root, graft its children, then go on *)
Lemma Below_step h dst nx inf kidsc r' a3 h' n1 :
  dst < nx -> S nx <= n1 ->
  (forall z, In z (ids kidsc) -> S nx <= z < n1) -> (forall z, In z (ids r') -> n1 <= z) ->
  let a1 := h_register (h_init h nx dst inf) nx in
  let a2 := touch_root (set_chl a1 dst (hch a1 dst ++ [nx])) dst in
  Below a2 a3 nx kidsc -> Below a3 h' dst r' ->
  Below h h' dst (T nx inf kidsc :: r').
Proof.
  intros Lt Ln Hk1 Hk2 a1 a2 B1 B2.
  assert (Dn : dst <> nx) by lia.
  destruct (touch_fields (set_chl a1 dst (hch a1 dst ++ [nx])) dst) as (T1 & T2 & T3 & T4 & T5 & T6 & T7 & T8 & T9).
  fold a2 in T1, T2, T3, T4, T5, T6, T7, T8, T9.
  cbn [a1 h_register set_regidx h_init add_all set_inf set_chl set_tr set_par hpar hch htr hinf hall hreg hidx htyped hcalc] in T1, T2, T3, T4, T5, T6, T7, T8, T9.
  assert (Nk : ~ In nx (ids kidsc)) by (intros Y; apply Hk1 in Y; lia).
  assert (Nr : ~ In nx (ids r')) by (intros Y; apply Hk2 in Y; lia).
  assert (Dk : ~ In dst (ids kidsc)) by (intros Y; apply Hk1 in Y; lia).
  assert (Dr : ~ In dst (ids r')) by (intros Y; apply Hk2 in Y; lia).
  assert (Kr : forall z, In z (ids kidsc) -> ~ In z (ids r')) by (intros z Y1 Y2; apply Hk1 in Y1; apply Hk2 in Y2; lia).
  set (x := T nx inf kidsc).
  assert (Ix : forall z, In z (ids (x :: r')) <-> z = nx \/ In z (ids kidsc) \/ In z (ids r')).
  { intros z. rewrite ids_cons. cbn [rid rch x In]. rewrite in_app_iff. intuition congruence. }
  assert (Hdst2 : hch a2 dst = hch h dst ++ [nx]).
  { rewrite T2. rewrite upd_eq. now rewrite (upd_neq _ nx [] dst Dn). }
  assert (Hnx2 : hch a2 nx = []).
  { rewrite T2. rewrite (upd_neq _ dst _ nx) by congruence. now rewrite upd_eq. }
  constructor.
  - (* b_dst *)
    rewrite (b_dst _ _ _ _ B2), (b_ch_out _ _ _ _ B1 dst Dn Dk), Hdst2. cbn [map rid x]. now rewrite <- app_assoc.
  - (* b_node *)
    intros y Hy. cbn [flat_map] in Hy. rewrite pre_unfold in Hy. cbn [rch x] in Hy. apply in_app_or in Hy.
    destruct Hy as [[<-|Hy]|Hy].
    + cbn [rid rch rinfo x]. destruct (b_out _ _ _ _ B2 nx Nr) as (_ & O2 & O3). destruct (b_out _ _ _ _ B1 nx Nk) as (_ & P2 & P3).
      rewrite (b_ch_out _ _ _ _ B2 nx (not_eq_sym Dn) Nr), (b_dst _ _ _ _ B1), Hnx2, O2, O3, P2, P3, T3, T4, !upd_eq. now repeat split.
    + assert (Iy : In (rid y) (ids kidsc)) by (unfold ids; now apply in_map).
      assert (Ny : rid y <> dst) by (intros E; apply Dk; now rewrite <- E).
      destruct (b_node _ _ _ _ B1 y Hy) as (N1 & N2 & N3). destruct (b_out _ _ _ _ B2 (rid y) (Kr _ Iy)) as (_ & O2 & O3).
      rewrite (b_ch_out _ _ _ _ B2 (rid y) Ny (Kr _ Iy)), O2, O3. now repeat split.
    + now apply (b_node _ _ _ _ B2).
  - (* b_par *)
    intros r Hr. rewrite rows_cons in Hr. cbn [rid rch rinfo x] in Hr. destruct Hr as [<-|Hr].
    + cbn [r_id r_par fst snd]. destruct (b_out _ _ _ _ B2 nx Nr) as (O1 & _). destruct (b_out _ _ _ _ B1 nx Nk) as (P1 & _).
      now rewrite O1, P1, T1, upd_eq.
    + apply in_app_or in Hr. destruct Hr as [Hr|Hr]; [|now apply (b_par _ _ _ _ B2)].
      assert (Ir : In (r_id r) (ids kidsc)) by (now apply (rows_id_in kidsc nx)).
      destruct (b_out _ _ _ _ B2 (r_id r) (Kr _ Ir)) as (O1 & _). rewrite O1. now apply (b_par _ _ _ _ B1).
  - (* b_ch_out *)
    intros z Nz Iz. assert (Z1 : z <> nx) by (intros ->; apply Iz, Ix; now left).
    assert (Z2 : ~ In z (ids kidsc)) by (intros Y; apply Iz, Ix; tauto). assert (Z3 : ~ In z (ids r')) by (intros Y; apply Iz, Ix; tauto).
    rewrite (b_ch_out _ _ _ _ B2 z Nz Z3), (b_ch_out _ _ _ _ B1 z Z1 Z2), T2.
    rewrite (upd_neq _ dst _ z Nz). now rewrite (upd_neq _ nx _ z Z1).
  - (* b_out *)
    intros z Iz. assert (Z1 : z <> nx) by (intros ->; apply Iz, Ix; now left).
    assert (Z2 : ~ In z (ids kidsc)) by (intros Y; apply Iz, Ix; tauto). assert (Z3 : ~ In z (ids r')) by (intros Y; apply Iz, Ix; tauto).
    destruct (b_out _ _ _ _ B2 z Z3) as (O1 & O2 & O3). destruct (b_out _ _ _ _ B1 z Z2) as (P1 & P2 & P3).
    rewrite O1, O2, O3, P1, P2, P3, T1, T3, T4, !(upd_neq _ nx _ z Z1). now repeat split.
  - rewrite (b_reg _ _ _ _ B2), (b_reg _ _ _ _ B1), T6, ids_cons. cbn [rid rch x]. now rewrite <- !app_assoc.
  - rewrite (b_idx _ _ _ _ B2), (b_idx _ _ _ _ B1), T7.
    change (pre_f (x :: r')) with (pre x ++ pre_f r'). rewrite pre_unfold, fold_left_app. cbn [rch x app fold_left].
    unfold hdid, rdid, h_init, add_all, set_inf. cbn [hinf rinfo rid x]. now rewrite upd_eq.
  - rewrite (b_all _ _ _ _ B2), (b_all _ _ _ _ B1), T5, ids_cons. cbn [rid rch x]. now rewrite <- !app_assoc.
  - now rewrite (b_typed _ _ _ _ B2), (b_typed _ _ _ _ B1), T8.
  - now rewrite (b_calc _ _ _ _ B2), (b_calc _ _ _ _ B1), T9.
Qed.

Lemma fold_left_map' {X Y S} (g : S -> Y -> S) (k : X -> Y) l : forall s, fold_left g (map k l) s = fold_left (fun a x => g a (k x)) l s.
Proof. induction l as [|x l IH]; intros s; [reflexivity|]. cbn. apply IH. Qed.

Lemma size_le_in c l : In c l -> size c <= size_f l.
Proof. induction l as [|y l IH]; intros H; [contradiction|]. rewrite size_f_cons. destruct H as [->|H]; [lia|]. specialize (IH H). lia. Qed.

(* Node._add_from builds exactly the copy [copy_f] describes, appended below dst *)
Lemma add_from_below kk hs : forall fuel l src,
  hch hs src = map rid l ->
  (forall y, In y (pre_f l) -> hch hs (rid y) = map rid (rch y) /\ hinf hs (rid y) = rinfo y) ->
  size_f l < fuel ->
  forall h dst nx, dst < nx ->
  exists h', h_add_from fuel kk hs src h dst nx = (h', snd (copy_f kk None nx l)) /\
             Below h h' dst (fst (copy_f kk None nx l)).
Proof.
  induction fuel as [|fuel IH]; intros l src Hsrc Hn Lt h dst nx Ld; [lia|].
  cbn [h_add_from]. rewrite Hsrc, fold_left_map'.
  assert (Hsz : forall c, In c l -> size_f (rch c) < fuel).
  { intros c Hc. assert (X := size_le_in c l Hc). destruct c as [id i ch]. rewrite size_unfold in X. cbn [rch]. lia. }
  clear Hsrc Lt. revert h nx Ld. induction l as [|c l IHl]; intros h nx Ld.
  - cbn. exists h. split; [reflexivity|apply Below_nil].
  - cbn [fold_left]. rewrite copy_f_cons. destruct c as [cid ci cch] eqn:Ec. rewrite copy_t_unfold. cbv zeta.
    assert (Hc : hch hs cid = map rid cch /\ hinf hs cid = ci).
    { apply (Hn (T cid ci cch)). apply in_pre_f_top. now left. }
    destruct Hc as (Hc1 & Hc2). cbn [rid]. rewrite Hc2.
    set (a1 := h_register (h_init h nx dst (copy_info kk ci)) nx).
    set (a2 := touch_root (set_chl a1 dst (hch a1 dst ++ [nx])) dst).
    destruct (IH cch cid Hc1) with (h := a2) (dst := nx) (nx := S nx) as (a3 & E3 & B3).
    { intros y Hy. apply Hn. cbn [flat_map]. apply in_or_app. left. cbn [pre]. now right. }
    { apply (Hsz (T cid ci cch)). now left. }
    { lia. }
    rewrite E3. destruct (copy_ids_seq kk None (S nx) cch) as (S1 & S2).
    set (kidsc := fst (copy_f kk None (S nx) cch)) in *. set (n1 := snd (copy_f kk None (S nx) cch)) in *.
    destruct (IHl) with (h := a3) (nx := n1) as (h' & E' & B').
    { intros y Hy. apply Hn. cbn [flat_map]. apply in_or_app. now right. }
    { intros c' Hc'. apply Hsz. now right. }
    { lia. }
    destruct (copy_ids_seq kk None n1 l) as (R1 & R2).
    destruct (copy_f kk None n1 l) as [r' n2] eqn:Er. cbn [fst snd] in *.
    exists h'. split; [exact E'|].
    apply (Below_step h dst nx (copy_info kk ci) kidsc r' a3 h' n1); auto; try lia.
    + intros z Hz. rewrite S1 in Hz. apply in_seq in Hz. lia.
    + intros z Hz. rewrite R1 in Hz. apply in_seq in Hz. lia.
Qed.

Lemma place_split_uniform nb ch : exists a b, ch = a ++ b /\ forall x, place nb x ch = a ++ x :: b.
Proof.
  unfold place. destruct ch as [|c ch]; [exists [], []; now split|].
  destruct nb as [|z|s].
  - exists (c :: ch), []. split; [now rewrite app_nil_r|reflexivity].
  - exists (firstn (py_index z (length (c :: ch))) (c :: ch)), (skipn (py_index z (length (c :: ch))) (c :: ch)).
    split; [symmetry; apply firstn_skipn|reflexivity].
  - destruct (index_by_id s (c :: ch)) as [j|].
    + exists (firstn j (c :: ch)), (skipn j (c :: ch)). split; [symmetry; apply firstn_skipn|reflexivity].
    + exists (c :: ch), []. split; [now rewrite app_nil_r|reflexivity].
Qed.

Lemma node_of_row : forall l o r, In r (rows o l) -> exists y, In y (pre_f l) /\ rid y = r_id r /\ rinfo y = r_info r.
Proof.
  intros l o r Hr. assert (X : In (r_id r, r_info r) (map (fun r => (r_id r, r_info r)) (rows o l))) by (apply in_map_iff; now exists r).
  rewrite (rows_nodes l o) in X. apply in_map_iff in X. destruct X as (y & E & Hy). injection E as E1 E2. now exists y.
Qed.

(* SUB-STEP: the freshly inserted leaf n receives the copied branches [kids] *)
Lemma Rep_graft h3 h4 t p pq ch n inf nb kids :
  WF t -> parent_path p (forest_of t) = Some pq -> get_ch pq (forest_of t) = Some ch ->
  ~ In n (ids (forest_of t)) -> n <> 0 ->
  Rep h3 (set_all t (upd_ch pq (place nb (T n inf [])) (forest_of t)) (reg t ++ [n]) (idx_add (i_did inf) n (idx t))) ->
  hch h3 n = [] -> Below h3 h4 n kids -> NoDup (ids kids) ->
  (forall z, In z (ids kids) -> ~ In z (ids (forest_of t)) /\ z <> 0 /\ z <> n) ->
  Rep h4 (set_all t (upd_ch pq (place nb (T n inf kids)) (forest_of t)) (reg t ++ ids_t (T n inf kids))
            (fold_left (fun a s => idx_add (rdid s) (rid s) a) (pre (T n inf kids)) (idx t))).
Proof.
  intros W Gp G Fn Nz R3 Hn3 Bl NDk Fk. set (f := forest_of t) in *.
  destruct (ctx_kids pq f 0 ch (wf_nodup t W) (wf_pos t W) G) as (A & B & E1 & E2 & E3 & E4 & E5).
  rewrite (parent_path_owner p f pq ch Gp G) in *.
  destruct (place_split_uniform nb ch) as (a & b & Ech & Epl).
  assert (E2a := E2 (place nb (T n inf []))). assert (E2b := E2 (place nb (T n inf kids))). clear E2.
  rewrite !Epl, !flat_map_in_split in E2a, E2b. cbn [rows_t flat_map] in E2a. rewrite rows_t_unfold in E2b. cbn [rid rinfo rch] in E2b.
  set (X := A ++ rows p a) in *. set (Y := rows p b ++ B) in *.
  assert (R3rows : rows 0 (upd_ch pq (place nb (T n inf [])) f) = X ++ (p, n, inf) :: Y) by (rewrite E2a; unfold X, Y; la).
  assert (R4rows : rows 0 (upd_ch pq (place nb (T n inf kids)) f) = X ++ (p, n, inf) :: rows n kids ++ Y) by (rewrite E2b; unfold X, Y; la).
  assert (Pn : p <> n).
  { intros ->. destruct (proj1 (parent_path_live n f) (ex_intro _ pq Gp)) as [Y0|Y0]; contradiction. }
  assert (Nk : ~ In n (ids kids)) by (intros Y0; now apply Fk in Y0).
  assert (XYold : forall r, In r (X ++ Y) -> In r (rows 0 f)).
  { intros r. unfold X, Y. rewrite E1, Ech, rows_app, !in_app_iff. tauto. }
  assert (XYid : forall r, In r (X ++ Y) -> ~ In (r_id r) (ids kids) /\ r_id r <> n).
  { intros r Hr. apply XYold in Hr. assert (I := rows_id_in f 0 r Hr). split; [intros Y0; now apply Fk in Y0|congruence]. }
  assert (XYpar : forall r, In r (X ++ Y) -> ~ In (r_par r) (ids kids) /\ r_par r <> n).
  { intros r Hr. apply XYold in Hr. destruct (rows_parent_in f 0 r Hr) as [E|E].
    - rewrite E. split; [intros Y0; apply Fk in Y0; tauto|congruence].
    - split; [intros Y0; now apply Fk in Y0|congruence]. }
  assert (Kpar : forall r, In r (rows n kids) -> r_par r = n \/ In (r_par r) (ids kids)) by (intros r Hr; now apply rows_par).
  assert (Pk : ~ In p (ids kids)).
  { intros Y0. destruct (proj1 (parent_path_live p f) (ex_intro _ pq Gp)) as [Z0|Z0]; apply Fk in Y0; tauto. }
  constructor; cbn [set_all forest_of reg idx typed calc]; fold f.
  - rewrite (b_reg _ _ _ _ Bl), (rep_reg _ _ R3). cbn [set_all reg]. rewrite ids_t_unfold. cbn [rid rch]. now rewrite <- app_assoc.
  - rewrite (b_idx _ _ _ _ Bl), (rep_idx _ _ R3). cbn [set_all idx pre fold_left]. reflexivity.
  - rewrite (b_typed _ _ _ _ Bl). apply R3.
  - rewrite (b_calc _ _ _ _ Bl). apply R3.
  - intros q. rewrite R4rows, !kids_app, kids_cons, kids_app. cbn [r_par r_id fst snd].
    assert (Old := rep_ch _ _ R3 q). cbn [set_all forest_of] in Old. fold f in Old. rewrite R3rows, kids_app, kids_cons in Old. cbn [r_par r_id fst snd] in Old.
    destruct (in_dec Nat.eq_dec q (ids kids)) as [Iq|Iq].
    + (* a copied node *)
      unfold ids in Iq. apply in_map_iff in Iq. destruct Iq as (y & <- & Hy).
      assert (Iy : In (rid y) (ids kids)) by (unfold ids; now apply in_map).
      rewrite (kids_none (rid y) X) by (intros r Hr E; apply (proj1 (XYpar r (in_or_app X Y r (or_introl Hr)))); now rewrite E).
      rewrite (kids_none (rid y) Y) by (intros r Hr E; apply (proj1 (XYpar r (in_or_app X Y r (or_intror Hr)))); now rewrite E).
      replace (Nat.eqb p (rid y)) with false by (symmetry; apply Nat.eqb_neq; intros E; apply Pk; now rewrite E).
      cbn [app]. rewrite app_nil_r. rewrite (proj2 kids_node kids n y NDk Nk Hy). apply (b_node _ _ _ _ Bl y Hy).
    + destruct (Nat.eq_dec q n) as [->|Qn].
      * rewrite (b_dst _ _ _ _ Bl), Hn3. cbn [app]. rewrite Hn3 in Old.
        replace (Nat.eqb p n) with false in * by (symmetry; now apply Nat.eqb_neq). cbn [app] in *.
        symmetry in Old. apply app_eq_nil in Old. destruct Old as (O1 & O2). rewrite O1, O2, app_nil_r. cbn [app]. now rewrite (kids_top kids n Nk).
      * rewrite (b_ch_out _ _ _ _ Bl q Qn Iq), Old. rewrite (kids_none q (rows n kids)); [reflexivity|].
        intros r Hr E. destruct (Kpar r Hr) as [Z0|Z0]; [congruence|]. apply Iq. now rewrite <- E.
  - intros r Hr. rewrite R4rows, in_app_iff in Hr. cbn [In] in Hr. rewrite in_app_iff in Hr.
    assert (Cs : In r (X ++ (p, n, inf) :: Y) \/ In r (rows n kids)) by (rewrite in_app_iff; cbn [In]; tauto).
    destruct Cs as [C|C].
    + assert (Nr : ~ In (r_id r) (ids kids)).
      { apply in_app_or in C. destruct C as [C|[<-|C]]; [apply (XYid r); apply in_or_app; now left|exact Nk|apply (XYid r); apply in_or_app; now right]. }
      destruct (b_out _ _ _ _ Bl (r_id r) Nr) as (O1 & O2 & O3). rewrite O1, O2, O3.
      apply (rep_node _ _ R3). cbn [set_all forest_of]. fold f. now rewrite R3rows.
    + destruct (node_of_row kids n r C) as (y & Hy & Ry & Iy). destruct (b_node _ _ _ _ Bl y Hy) as (_ & N2 & N3).
      rewrite <- Ry, N2, N3, Ry. refine (conj (b_par _ _ _ _ Bl r C) (conj eq_refl Iy)).
  - assert (N0 : ~ In 0 (ids kids)) by (intros Y0; apply Fk in Y0; tauto). destruct (b_out _ _ _ _ Bl 0 N0) as (O1 & O2 & _). rewrite O1, O2. apply R3.
  - rewrite (b_all _ _ _ _ Bl). intros m Hm. rewrite <- (rows_ids _ 0) in Hm. rewrite R4rows in Hm. apply in_map_iff in Hm. destruct Hm as (r & <- & Hr).
    rewrite in_app_iff in Hr. cbn [In] in Hr. rewrite in_app_iff in Hr. apply in_or_app.
    assert (Cs : In r (X ++ (p, n, inf) :: Y) \/ In r (rows n kids)) by (rewrite in_app_iff; cbn [In]; tauto).
    destruct Cs as [C|C]; [left|right; now apply (rows_id_in kids n)].
    apply (rep_all _ _ R3). cbn [set_all forest_of]. fold f. rewrite <- (rows_ids _ 0), R3rows. now apply in_map.
Qed.

(* ---- add_child(node): shallow or deep copy of a node of the same or another tree ---- *)
Lemma RepW_get2 hw w ti sti : RepW hw w ->
  match h_get hw ti, h_get hw sti, get_tree w ti, get_tree w sti with
  | Some h, Some hs, Some t, Some st => Rep h t /\ Rep hs st
  | Some _, None, Some _, None => True
  | None, Some _, None, Some _ => True
  | None, None, None, None => True
  | _, _, _, _ => False
  end.
Proof.
  intros RW. assert (G1 := RepW_get hw w ti RW). assert (G2 := RepW_get hw w sti RW).
  destruct (h_get hw ti), (h_get hw sti), (get_tree w ti), (get_tree w sti); try contradiction; auto.
Qed.

Theorem sim_op_add_node hw w ti p sti src explicit k b deep : WFw w -> RepW hw w ->
  Sim (h_op_add_node hw ti p sti src explicit k b deep) (op_add_node w ti p sti src explicit k b deep).
Proof.
  intros W RW. unfold h_op_add_node, op_add_node. assert (G := RepW_get2 hw w ti sti RW).
  destruct (h_get hw ti) as [h|] eqn:Gh; destruct (h_get hw sti) as [hs|] eqn:Ghs;
    destruct (get_tree w ti) as [t|] eqn:Gt; destruct (get_tree w sti) as [st|] eqn:Gst; try contradiction; try (now apply Sim_same).
  destruct G as (R & Rs).
  assert (Wt := WFw_tree w ti t W Gt). assert (Wst := WFw_tree w sti st W Gst).
  set (f := forest_of t). set (fs := forest_of st).
  (* liveness *)
  assert (Ls := h_live_ids hs st src Wst Rs). fold fs in Ls.
  destruct (get_node src fs) as [s|] eqn:Gn.
  2:{ replace (h_live hs src) with false; [now apply Sim_same|]. destruct (h_live hs src); [|reflexivity].
      destruct (get_node_complete src fs (proj1 Ls eq_refl)) as (s & X). congruence. }
  destruct (get_node_spec src fs s Gn) as (Ps & Rsrc).
  replace (h_live hs src) with true by (symmetry; apply Ls; rewrite <- Rsrc; unfold ids; now apply in_map). cbn [andb].
  assert (Pl := h_plive_path h t p Wt R). fold f in Pl.
  destruct (parent_path p f) as [pq|] eqn:Gp.
  2:{ replace (h_plive h p) with false; [now apply Sim_same|]. destruct (h_plive h p); [|reflexivity].
      destruct (proj1 Pl eq_refl) as (pq & X). discriminate. }
  replace (h_plive h p) with true by (symmetry; apply Pl; now exists pq). cbn [negb].
  destruct (parent_path_get p f pq Gp) as (ch & Gc). rewrite Gc.
  rewrite (rep_typed h t R), (rep_typed hs st Rs).
  destruct (typed t && negb (typed st)); [now apply Sim_same|].
  set (dp := match deep with Some x => x | None => false end).
  destruct (dp && match explicit with Some _ => true | None => false end); [now apply Sim_same|].
  (* source_node._parent is self *)
  destruct (row_of_node fs 0 s Ps) as ([[cur n0] inf0] & Hr & En & Ei). cbn in En, Ei. rewrite Rsrc in En. subst n0.
  destruct (rep_node hs st Rs _ Hr) as (Hp & _). cbn [r_id r_par fst snd] in Hp. rewrite Hp.
  assert (Pof : parent_of src fs = Some cur) by (apply parent_of_rows; [apply Wst|now exists inf0]). rewrite Pof.
  destruct (Nat.eqb ti sti && Nat.eqb cur p); [now apply Sim_same|].
  assert (Ed : hdid hs src = rdid s) by (unfold hdid; rewrite <- Rsrc; now rewrite (rep_info hs st s Rs Ps)).
  rewrite Ed.
  destruct (match explicit with Some e => negb (did_eqb e (rdid s)) | None => false end); [now apply Sim_same|].
  (* deep copy into the own branch *)
  assert (Ea : dp && Nat.eqb ti sti && (if Nat.eqb p 0 then false else h_is_anc (h_fuel hs) hs src p) = dp && Nat.eqb ti sti && is_desc_or_self src p fs).
  { destruct dp; [|reflexivity]. destruct (Nat.eqb ti sti) eqn:Eti; [|reflexivity]. cbn [andb]. apply Nat.eqb_eq in Eti. subst sti.
    assert (hs = h) by congruence. assert (st = t) by congruence. subst hs st.
    unfold is_desc_or_self. fold fs in Gn. rewrite Gn. destruct (Nat.eqb p 0) eqn:E0.
    - apply Nat.eqb_eq in E0. subst p. symmetry. destruct (existsb (Nat.eqb 0) (ids_t s)) eqn:X; [|reflexivity].
      apply existsb_exists in X. destruct X as (m & Hm & E). apply Nat.eqb_eq in E. subst m. exfalso. apply (wf_pos t Wt).
      unfold ids_t in Hm. apply in_map_iff in Hm. destruct Hm as (y & <- & Hy). unfold ids. apply in_map.
      destruct (pre_f_segment _ s Ps) as (a0 & b0 & E0). fold fs. rewrite E0. apply in_or_app. right. apply in_or_app. now left.
    - apply Nat.eqb_neq in E0. apply (is_anc_agree h t Wt R src p s Gn).
      destruct (proj1 (parent_path_live p f) (ex_intro _ pq Gp)) as [X|X]; [contradiction|exact X]. }
  rewrite Ea. destruct (dp && Nat.eqb ti sti && is_desc_or_self src p fs); [now apply Sim_same|].
  rewrite (before_ok_agree h t p pq ch _ Wt R Gp Gc).
  destruct (negb (before_ok (norm_before b) ch)); [now apply Sim_same|].
  destruct (negb (typed t) && typed st); [now apply Sim_same|].
  rewrite (repw_next hw w RW).
  assert (Fn : ~ In (next w) (ids f)) by (intros X; apply (WFw_tree_lt w ti t _ W Gt) in X; lia).
  assert (Nz : next w <> 0) by (destruct W; lia).
  set (id := match explicit with Some e => e | None => rdid s end).
  rewrite (collides_agree h t p id Wt R).
  replace (if typed t then match k with Some _ => k | None => Some [99; 104; 105; 108; 100]%Z end else None) with (default_kind t k)
    by (unfold default_kind; reflexivity).
  assert (Ei' : hinf hs src = rinfo s) by (rewrite <- Rsrc; now apply (rep_info hs st s Rs Ps)). rewrite Ei'.
  set (inf := I (i_obj (rinfo s)) (i_eqc (rinfo s)) (i_hash (rinfo s)) (i_isstr (rinfo s)) (i_name (rinfo s)) id (default_kind t k) []).
  destruct (collides t p id).
  - split; [reflexivity|]. cbn [snd]. unfold h_put, h_bump, bump. cbn [htrees hnext trees next].
    rewrite (repw_next hw w RW). apply (RepW_put_l hw w ti _ t); auto. now apply Rep_dangling.
  - assert (R3 := Rep_touch _ _ p (Rep_add_leaf h t p pq ch (next w) inf (norm_before b) Wt R Gp Gc Fn Nz)).
    set (h3 := touch_root (set_chl (h_register (h_init h (next w) p inf) (next w)) p
                  (place_ids (norm_before b) (next w) (hch (h_register (h_init h (next w) p inf) (next w)) p))) p) in *.
    destruct dp.
    + (* deep *)
      assert (Sub : forall y, In y (pre_f (rch s)) -> In y (pre_f fs)) by (intros y Hy; now apply (pre_f_sub fs s)).
      assert (NDs := NoDup_ids_sub fs s (wf_nodup st Wst) Ps). rewrite ids_t_unfold in NDs. inversion NDs as [|y ys Nn NDc]; subst y ys.
      assert (Ic : incl (ids (rch s)) (ids fs)) by (intros x Hx; unfold ids in *; apply in_map_iff in Hx; destruct Hx as (y & <- & Hy); apply in_map; now apply Sub).
      destruct (add_from_below (typed t) hs (h_fuel hs) (rch s) src) with (h := h3) (dst := next w) (nx := S (next w)) as (h4 & E4 & Bl).
      { rewrite <- Rsrc. now apply (rep_node_children hs st s Wst Rs). }
      { intros y Hy. split; [apply (rep_node_children hs st y Wst Rs); now apply Sub|apply (rep_info hs st y Rs); now apply Sub]. }
      { now apply (fuel_enough hs st). }
      { lia. }
      rewrite E4. destruct (copy_ids_seq (typed t) None (S (next w)) (rch s)) as (S1 & S2).
      destruct (copy_f (typed t) None (S (next w)) (rch s)) as [kids n'] eqn:Ec. cbn [fst snd] in *.
      rewrite register_all_eq. split; [reflexivity|]. cbn [snd]. unfold h_put, put_tree. cbn [htrees trees next].
      apply RepW_put; [assumption|].
      apply (Rep_graft h3 h4 t p pq ch (next w) inf (norm_before b) kids Wt Gp Gc Fn Nz R3); auto.
      * unfold h3. destruct (touch_fields (set_chl (h_register (h_init h (next w) p inf) (next w)) p
                  (place_ids (norm_before b) (next w) (hch (h_register (h_init h (next w) p inf) (next w)) p))) p) as (_ & T2 & _).
        rewrite T2. cbn [set_chl h_register set_regidx h_init add_all set_inf set_tr set_par hch].
        assert (Pn : p <> next w).
        { intros E. destruct (proj1 (parent_path_live p f) (ex_intro _ pq Gp)) as [X|X]; [congruence|]. apply Fn. now rewrite <- E. }
        rewrite (upd_neq _ p _ (next w)) by congruence. now rewrite upd_eq.
      * rewrite S1. apply seq_NoDup.
      * intros z Hz. rewrite S1 in Hz. apply in_seq in Hz. refine (conj _ (conj _ _)); try lia.
        intros X. apply (WFw_tree_lt w ti t _ W Gt) in X. lia.
    + (* shallow *)
      rewrite register_all_eq. split; [reflexivity|]. cbn [snd]. unfold h_put, put_tree. cbn [htrees trees next].
      apply RepW_put; [assumption|]. exact R3.
Qed.

(* ---- several sources: add(tree), copy_to(add_self=False) ---- *)
Lemma sim_add_nodes ti p sti b deep : forall srcs hw w acc, WFw w -> RepW hw w ->
  Sim (h_add_nodes hw ti p sti srcs b deep acc) (add_nodes w ti p sti srcs b deep acc).
Proof.
  induction srcs as [|s rest IH]; intros hw w acc W RW; cbn [h_add_nodes add_nodes]; [now apply Sim_same|].
  destruct (sim_op_add_node hw w ti p sti s None None b deep W RW) as (E1 & E2).
  assert (W' := WFw_op_add_node w ti p sti s None None b deep W).
  destruct (h_op_add_node hw ti p sti s None None b deep) as [r1 hw1]. destruct (op_add_node w ti p sti s None None b deep) as [r2 w1].
  cbn [fst snd] in *. subst r2. destruct r1 as [r|e]; [now apply IH|now split].
Qed.

Lemma any_collides_agree h t p hs st srcs : WF t -> Rep h t -> WF st -> Rep hs st ->
  h_any_collides h p hs srcs = any_collides t p st srcs.
Proof.
  intros W R Ws Rs. unfold h_any_collides, any_collides. apply existsb_ext_in'. intros s _.
  assert (D := did_of_agree hs st s Ws Rs). destruct (did_of s (forest_of st)) as [d|].
  - destruct D as (L & Ed). rewrite L, Ed. cbn [andb]. now apply collides_agree.
  - now rewrite D.
Qed.

Lemma is_desc_agree h t s p : WF t -> Rep h t ->
  h_live h s && h_plive h p && (if Nat.eqb p 0 then false else h_is_anc (h_fuel h) h s p) = is_desc_or_self s p (forest_of t).
Proof.
  intros W R. unfold is_desc_or_self. assert (Ls := h_live_ids h t s W R).
  destruct (get_node s (forest_of t)) as [x|] eqn:Gn.
  2:{ replace (h_live h s) with false; [reflexivity|]. destruct (h_live h s); [|reflexivity].
      destruct (get_node_complete s _ (proj1 Ls eq_refl)) as (x & X). congruence. }
  destruct (get_node_spec s _ x Gn) as (Px & Rx).
  replace (h_live h s) with true by (symmetry; apply Ls; rewrite <- Rx; unfold ids; now apply in_map). cbn [andb].
  destruct (Nat.eqb p 0) eqn:E0.
  - rewrite andb_false_r. apply Nat.eqb_eq in E0. subst p. symmetry. destruct (existsb (Nat.eqb 0) (ids_t x)) eqn:X; [|reflexivity].
    apply existsb_exists in X. destruct X as (m & Hm & E). apply Nat.eqb_eq in E. subst m. exfalso. apply (wf_pos t W).
    unfold ids_t in Hm. apply in_map_iff in Hm. destruct Hm as (y & <- & Hy). unfold ids. apply in_map.
    destruct (pre_f_segment _ x Px) as (a0 & b0 & E0). rewrite E0. apply in_or_app. right. apply in_or_app. now left.
  - apply Nat.eqb_neq in E0. unfold h_plive. replace (Nat.eqb p 0) with false by (symmetry; now apply Nat.eqb_neq). cbn [orb].
    destruct (h_live h p) eqn:Lp; cbn [andb].
    + apply (is_anc_agree h t W R s p x Gn). now apply (h_live_ids h t p W R).
    + symmetry. destruct (existsb (Nat.eqb p) (ids_t x)) eqn:X; [|reflexivity]. exfalso.
      apply existsb_exists in X. destruct X as (m & Hm & E). apply Nat.eqb_eq in E. subst m.
      assert (Hp : In p (ids (forest_of t))).
      { unfold ids_t in Hm. apply in_map_iff in Hm. destruct Hm as (y & <- & Hy). unfold ids. apply in_map.
        destruct (pre_f_segment _ x Px) as (a0 & b0 & E1). rewrite E1. apply in_or_app. right. apply in_or_app. now left. }
      apply (h_live_ids h t p W R) in Hp. congruence.
Qed.

Lemma into_own_agree hw w ti sti h hs t st srcs p deep :
  h_get hw ti = Some h -> h_get hw sti = Some hs -> get_tree w ti = Some t -> get_tree w sti = Some st ->
  WF st -> Rep hs st ->
  h_any_into_own_branch ti sti hs srcs p deep = any_into_own_branch ti sti st srcs p deep.
Proof.
  intros Gh Ghs Gt Gst Ws Rs. unfold h_any_into_own_branch, any_into_own_branch. destruct deep as [[|]|]; try reflexivity.
  f_equal. apply existsb_ext_in'. intros s _. now apply is_desc_agree.
Qed.

Theorem sim_op_add_tree hw w ti p sti b deep : WFw w -> RepW hw w ->
  Sim (h_op_add_tree hw ti p sti b deep) (op_add_tree w ti p sti b deep).
Proof.
  intros W RW. unfold h_op_add_tree, op_add_tree. assert (G := RepW_get2 hw w ti sti RW).
  destruct (h_get hw ti) as [h|] eqn:Gh; destruct (h_get hw sti) as [hs|] eqn:Ghs;
    destruct (get_tree w ti) as [t|] eqn:Gt; destruct (get_tree w sti) as [st|] eqn:Gst; try contradiction; try (now apply Sim_same).
  destruct G as (R & Rs). assert (Wt := WFw_tree w ti t W Gt). assert (Wst := WFw_tree w sti st W Gst).
  rewrite (rep_typed h t R), (rep_typed hs st Rs). destruct (typed t && negb (typed st)); [now apply Sim_same|].
  assert (Et : hch hs 0 = map rid (forest_of st)) by (apply (rep_children hs st 0 [] _ Wst Rs); reflexivity). rewrite Et.
  assert (En : (if h_plive h p then length (hch h p) else 0) = match children_of p (forest_of t) with Some ch => length ch | None => 0 end).
  { assert (Pl := h_plive_path h t p Wt R). unfold children_of. destruct (parent_path p (forest_of t)) as [pq|] eqn:Gp.
    - replace (h_plive h p) with true by (symmetry; apply Pl; now exists pq). destruct (parent_path_get p _ pq Gp) as (ch & Gc).
      rewrite Gc, (rep_children h t p pq ch Wt R Gp Gc). apply map_length.
    - replace (h_plive h p) with false; [reflexivity|]. destruct (h_plive h p); [|reflexivity]. destruct (proj1 Pl eq_refl) as (pq & X). discriminate. }
  rewrite En. rewrite (any_collides_agree h t p hs st _ Wt R Wst Rs).
  destruct (any_collides t p st (map rid (forest_of st))); [now apply Sim_same|].
  rewrite (into_own_agree hw w ti sti h hs t st _ p _ Gh Ghs Gt Gst Wst Rs).
  match goal with |- context [if ?c then (Err EValue, hw) else _] => destruct c end; [now apply Sim_same|].
  match goal with |- context [add_nodes w ti p sti ?o ?bb ?d []] => destruct (sim_add_nodes ti p sti bb d o hw w [] W RW) as (E1 & E2);
    destruct (h_add_nodes hw ti p sti o bb d []) as [r1 hw1]; destruct (add_nodes w ti p sti o bb d []) as [r2 w1] end.
  cbn [fst snd] in *. subst r2. destruct r1; now split.
Qed.

Theorem sim_op_copy_to hw w sti src ti target add_self b deep : WFw w -> RepW hw w ->
  Sim (h_op_copy_to hw sti src ti target add_self b deep) (op_copy_to w sti src ti target add_self b deep).
Proof.
  intros W RW. unfold h_op_copy_to, op_copy_to. destruct add_self; [now apply sim_op_add_node|].
  assert (G := RepW_get2 hw w ti sti RW).
  destruct (h_get hw ti) as [h|] eqn:Gh; destruct (h_get hw sti) as [hs|] eqn:Ghs;
    destruct (get_tree w ti) as [t|] eqn:Gt; destruct (get_tree w sti) as [st|] eqn:Gst; try contradiction; try (now apply Sim_same).
  destruct G as (R & Rs). assert (Wt := WFw_tree w ti t W Gt). assert (Wst := WFw_tree w sti st W Gst).
  assert (Pl := h_plive_path hs st src Wst Rs). unfold children_of.
  destruct (parent_path src (forest_of st)) as [pq|] eqn:Gp.
  2:{ replace (h_plive hs src) with false; [now apply Sim_same|]. destruct (h_plive hs src); [|reflexivity].
      destruct (proj1 Pl eq_refl) as (pq & X). discriminate. }
  replace (h_plive hs src) with true by (symmetry; apply Pl; now exists pq). cbn [negb].
  destruct (parent_path_get src _ pq Gp) as (ch & Gc). rewrite Gc, (rep_children hs st src pq ch Wst Rs Gp Gc).
  destruct ch as [|c0 ch]; [now apply Sim_same|]. cbn [map].
  change (rid c0 :: map rid ch) with (map rid (c0 :: ch)).
  rewrite (any_collides_agree h t target hs st _ Wt R Wst Rs).
  destruct (any_collides t target st (map rid (c0 :: ch))); [now apply Sim_same|].
  rewrite (into_own_agree hw w ti sti h hs t st _ target _ Gh Ghs Gt Gst Wst Rs).
  destruct (any_into_own_branch ti sti st (map rid (c0 :: ch)) target (Some deep)); [now apply Sim_same|].
  destruct (sim_add_nodes ti target sti BNone (Some deep) (map rid (c0 :: ch)) hw w [] W RW) as (E1 & E2).
  destruct (h_add_nodes hw ti target sti (map rid (c0 :: ch)) BNone (Some deep) []) as [r1 hw1].
  destruct (add_nodes w ti target sti (map rid (c0 :: ch)) BNone (Some deep) []) as [r2 w1].
  cbn [fst snd] in *. subst r2. destruct r1; now split.
Qed.

(* ---- Tree.copy / Node.copy: a new tree built below a fresh root ---- *)
Lemma Rep_new_tree h' kids ty c : Below (h_empty ty c) h' 0 kids -> NoDup (ids kids) -> ~ In 0 (ids kids) ->
  Rep h' (TS kids ([] ++ ids kids) (fold_left (fun a s => idx_add (rdid s) (rid s) a) (pre_f kids) []) ty c).
Proof.
  intros Bl ND Z.
  constructor; cbn [forest_of reg idx typed calc].
  - now rewrite (b_reg _ _ _ _ Bl).
  - now rewrite (b_idx _ _ _ _ Bl).
  - now rewrite (b_typed _ _ _ _ Bl).
  - now rewrite (b_calc _ _ _ _ Bl).
  - intros q. destruct (Nat.eq_dec q 0) as [->|Q0].
    + rewrite (b_dst _ _ _ _ Bl). cbn [h_empty hch app]. now rewrite (kids_top kids 0 Z).
    + destruct (in_dec Nat.eq_dec q (ids kids)) as [Iq|Iq].
      * unfold ids in Iq. apply in_map_iff in Iq. destruct Iq as (y & <- & Hy).
        rewrite (proj2 kids_node kids 0 y ND Z Hy). apply (b_node _ _ _ _ Bl y Hy).
      * rewrite (b_ch_out _ _ _ _ Bl q Q0 Iq). cbn [h_empty hch]. symmetry. apply kids_none. intros r Hr E.
        apply rows_par in Hr. destruct Hr as [X|X]; [congruence|]. apply Iq. now rewrite <- E.
  - intros r Hr. destruct (node_of_row kids 0 r Hr) as (y & Hy & Ry & Iy). destruct (b_node _ _ _ _ Bl y Hy) as (_ & N2 & N3).
    rewrite <- Ry, N2, N3, Ry. refine (conj (b_par _ _ _ _ Bl r Hr) (conj eq_refl Iy)).
  - destruct (b_out _ _ _ _ Bl 0 Z) as (O1 & O2 & _). rewrite O1, O2. cbn. now split.
  - rewrite (b_all _ _ _ _ Bl). cbn [h_empty hall app]. apply incl_refl.
Qed.

Lemma RepW_app hw w h t nx : RepW hw w -> Rep h t -> RepW (HW (htrees hw ++ [h]) nx) (W (trees w ++ [t]) nx).
Proof. intros [E F] R. constructor; [reflexivity|]. cbn. apply Forall2_app; [assumption|]. constructor; [assumption|constructor]. Qed.

Lemma RepW_length hw w : RepW hw w -> length (htrees hw) = length (trees w).
Proof. intros [_ F]. induction F; cbn; congruence. Qed.

Lemma src_facts hs st l : WF st -> Rep hs st -> (forall y, In y (pre_f l) -> In y (pre_f (forest_of st))) ->
  forall y, In y (pre_f l) -> hch hs (rid y) = map rid (rch y) /\ hinf hs (rid y) = rinfo y.
Proof. intros W R Sub y Hy. split; [apply (rep_node_children hs st y W R); now apply Sub|apply (rep_info hs st y R); now apply Sub]. Qed.

Theorem sim_op_tree_copy hw w sti : WFw w -> RepW hw w -> Sim (h_op_tree_copy hw sti) (op_tree_copy w sti).
Proof.
  intros W RW. unfold h_op_tree_copy, op_tree_copy. assert (G := RepW_get hw w sti RW).
  destruct (h_get hw sti) as [hs|]; destruct (get_tree w sti) as [st|] eqn:Gst; try contradiction; [|now apply Sim_same].
  assert (Wst := WFw_tree w sti st W Gst). set (fs := forest_of st).
  rewrite (rep_typed hs st G), (repw_next hw w RW).
  destruct (add_from_below (typed st) hs (h_fuel hs) fs 0) with (h := h_empty (typed st) None) (dst := 0) (nx := next w) as (h' & E' & Bl).
  { apply (rep_children hs st 0 [] fs Wst G); reflexivity. }
  { apply (src_facts hs st fs Wst G). auto. }
  { apply (fuel_enough hs st fs Wst G (wf_nodup st Wst)). apply incl_refl. }
  { destruct W; lia. }
  rewrite E'. destruct (copy_ids_seq (typed st) None (next w) fs) as (S1 & S2).
  destruct (copy_f (typed st) None (next w) fs) as [kids n'] eqn:Ec. cbn [fst snd] in *.
  rewrite register_all_eq. split; [cbn [fst]; now rewrite (RepW_length hw w RW)|]. cbn [snd]. apply RepW_app; [assumption|].
  apply Rep_new_tree; [assumption|rewrite S1; apply seq_NoDup|]. rewrite S1. intros X. apply in_seq in X. destruct W. lia.
Qed.

Theorem sim_op_node_copy hw w sti src add_self : WFw w -> RepW hw w -> Sim (h_op_node_copy hw sti src add_self) (op_node_copy w sti src add_self).
Proof.
  intros W RW. unfold h_op_node_copy, op_node_copy. assert (G := RepW_get hw w sti RW).
  destruct (h_get hw sti) as [hs|]; destruct (get_tree w sti) as [st|] eqn:Gst; try contradiction; [|now apply Sim_same].
  assert (Wst := WFw_tree w sti st W Gst). set (fs := forest_of st).
  assert (Ls := h_live_ids hs st src Wst G). fold fs in Ls.
  destruct (get_node src fs) as [s|] eqn:Gn.
  2:{ replace (h_live hs src) with false; [now apply Sim_same|]. destruct (h_live hs src); [|reflexivity].
      destruct (get_node_complete src fs (proj1 Ls eq_refl)) as (s & X). congruence. }
  destruct (get_node_spec src fs s Gn) as (Ps & Rsrc).
  replace (h_live hs src) with true by (symmetry; apply Ls; rewrite <- Rsrc; unfold ids; now apply in_map). cbn [negb].
  rewrite (rep_typed hs st G), (repw_next hw w RW).
  assert (Sub : forall y, In y (pre_f (rch s)) -> In y (pre_f fs)) by (intros y Hy; now apply (pre_f_sub fs s)).
  assert (NDs := NoDup_ids_sub fs s (wf_nodup st Wst) Ps). rewrite ids_t_unfold in NDs. inversion NDs as [|y ys Nn NDc]; subst y ys.
  assert (Ic : incl (ids (rch s)) (ids fs)) by (intros x Hx; unfold ids in *; apply in_map_iff in Hx; destruct Hx as (y & <- & Hy); apply in_map; now apply Sub).
  assert (Hsrc : hch hs src = map rid (rch s)) by (rewrite <- Rsrc; now apply (rep_node_children hs st s Wst G)).
  assert (Ei : hinf hs src = rinfo s) by (rewrite <- Rsrc; now apply (rep_info hs st s G Ps)).
  assert (Pos : 0 < next w) by (destruct W; lia).
  destruct add_self.
  - (* the node itself becomes the only top node of the new tree *)
    rewrite Ei. cbn [andb]. cbv beta iota zeta.
    match goal with |- context [h_init (h_empty (typed st) None) (next w) 0 ?i] => set (inf := i) end.
    set (a1 := h_register (h_init (h_empty (typed st) None) (next w) 0 inf) (next w)).
    set (a2 := touch_root (set_chl a1 0 (hch a1 0 ++ [next w])) 0).
    destruct (add_from_below (typed st) hs (h_fuel hs) (rch s) src Hsrc (src_facts hs st (rch s) Wst G Sub) (fuel_enough hs st (rch s) Wst G NDc Ic)
               a2 (next w) (S (next w))) as (a3 & E3 & B3); [lia|].
    rewrite E3. rewrite copy_f_cons. destruct s as [sid si sch] eqn:Es. rewrite copy_t_unfold. cbv zeta. cbn [rch rinfo] in *.
    destruct (copy_ids_seq (typed st) None (S (next w)) sch) as (S1 & S2).
    destruct (copy_f (typed st) None (S (next w)) sch) as [kidsc n1] eqn:Ec. cbn [fst snd copy_f] in *.
    assert (Ek : (if typed st
                  then map (fun t0 => match t0 with T id i ch => T id (set_kind_i (default_kind st None) i) ch end)
                         [T (next w) (I (i_obj si) (i_eqc si) (i_hash si) (i_isstr si) (i_name si) (i_did si) (if typed st then i_kind si else None) []) kidsc]
                  else [T (next w) (I (i_obj si) (i_eqc si) (i_hash si) (i_isstr si) (i_name si) (i_did si) (if typed st then i_kind si else None) []) kidsc])
                = [T (next w) inf kidsc]).
    { unfold inf, default_kind. destruct (typed st); reflexivity. }
    rewrite Ek, register_all_eq. split; [cbn [fst]; now rewrite (RepW_length hw w RW)|]. cbn [snd]. apply RepW_app; [assumption|].
    assert (Bl : Below (h_empty (typed st) None) a3 0 [T (next w) inf kidsc]).
    { apply (Below_step (h_empty (typed st) None) 0 (next w) inf kidsc [] a3 a3 n1); auto; try lia.
      - intros z Hz. rewrite S1 in Hz. apply in_seq in Hz. lia.
      - intros z [].
      - apply Below_nil. }
    apply Rep_new_tree; [exact Bl| |].
    + rewrite ids_cons. cbn [rid rch]. rewrite ids_nil, app_nil_r, S1. change (NoDup (seq (next w) (S (size_f sch)))). apply seq_NoDup.
    + rewrite ids_cons. cbn [rid rch]. rewrite ids_nil, app_nil_r, S1. intros [X|X]; [lia|]. apply in_seq in X. lia.
  - cbn [andb].
    destruct (add_from_below (typed st) hs (h_fuel hs) (rch s) src Hsrc (src_facts hs st (rch s) Wst G Sub) (fuel_enough hs st (rch s) Wst G NDc Ic)
               (h_empty (typed st) None) 0 (next w) Pos) as (h' & E' & Bl).
    rewrite E'. destruct (copy_ids_seq (typed st) None (next w) (rch s)) as (S1 & S2).
    destruct (copy_f (typed st) None (next w) (rch s)) as [kids n'] eqn:Ec. cbn [fst snd] in *.
    rewrite register_all_eq. split; [cbn [fst]; now rewrite (RepW_length hw w RW)|]. cbn [snd]. apply RepW_app; [assumption|].
    apply Rep_new_tree; [assumption|rewrite S1; apply seq_NoDup|]. rewrite S1. intros X. apply in_seq in X. lia.
Qed.
