(* Heap refinement: copies - Node._add_from allocates the copy of a branch node by node *)
From Coq Require Import List ZArith Bool Arith Lia Permutation.
From NT Require Import Sx Rose ListFacts RoseFacts Surgery SurgeryFacts Machine WF MachineFacts PreserveSteps PreserveOps
  PreserveCopy Heap HeapProofs HeapRemove HeapMove.
Import ListNotations.

(* [Below h h' dst kids]: h' is h with the branches [kids] (fresh identities) appended below dst *)
Record Below (h h' : hstate) (dst : nat) (kids : list rt) : Prop := {
  b_dst : hch h' dst = hch h dst ++ map rid kids;
  b_node : forall y, In y (pre_f kids) -> hch h' (rid y) = map rid (rch y) /\ hinf h' (rid y) = rinfo y /\ htr h' (rid y) = true;
  b_par : forall r, In r (rows dst kids) -> hpar h' (r_id r) = Some (r_par r);
  b_ch_out : forall z, z <> dst -> ~ In z (ids kids) -> hch h' z = hch h z;
  b_out : forall z, ~ In z (ids kids) -> hpar h' z = hpar h z /\ htr h' z = htr h z /\ hinf h' z = hinf h z;
  b_reg : hreg h' = hreg h ++ ids kids;
  b_idx : hidx h' = fold_left (fun a s => idx_add (rdid s) (rid s) a) (pre_f kids) (hidx h);
  b_all : hall h' = hall h ++ ids kids;
  b_typed : htyped h' = htyped h;
  b_calc : hcalc h' = hcalc h
}.

Lemma Below_nil h dst : Below h h dst [].
Proof.
  constructor; cbn; try reflexivity; try (now rewrite app_nil_r); try (intros; contradiction); auto.
Qed.

Lemma copy_f_cons kk dk n c l : copy_f kk dk n (c :: l) =
  let (c', n1) := copy_t kk dk n c in let (r', n2) := copy_f kk dk n1 l in (c' :: r', n2).
Proof. reflexivity. Qed.

Lemma copy_ids_seq kk dk n l : ids (fst (copy_f kk dk n l)) = seq n (size_f l) /\ snd (copy_f kk dk n l) = n + size_f l.
Proof. destruct (proj2 copy_spec l kk dk n) as (H1 & H2 & _). split; [exact H2|now rewrite <- H1]. Qed.

Lemma seq_notin a k x : x < a -> ~ In x (seq a k).
Proof. intros L H. apply in_seq in H. lia. Qed.

(* one source child: allocate + register + append the copy of its root, graft its children, then go on *)
Lemma Below_step h dst nx inf kidsc r' a3 h' n1 :
  dst < nx -> S nx <= n1 ->
  (forall z, In z (ids kidsc) -> S nx <= z < n1) -> (forall z, In z (ids r') -> n1 <= z) ->
  let a1 := h_register (h_init h nx dst inf) nx in
  let a2 := touch_root (set_chl a1 dst (hch a1 dst ++ [nx])) dst in
  Below a2 a3 nx kidsc -> Below a3 h' dst r' ->
  Below h h' dst (T nx inf kidsc :: r').
Proof.
  intros Lt Ln Hk1 Hk2 a1 a2 B1 B2.
  assert (Dn : dst <> nx) by lia.
  destruct (touch_fields (set_chl a1 dst (hch a1 dst ++ [nx])) dst) as (T1 & T2 & T3 & T4 & T5 & T6 & T7 & T8 & T9).
  fold a2 in T1, T2, T3, T4, T5, T6, T7, T8, T9.
  cbn [a1 h_register set_regidx h_init add_all set_inf set_chl set_tr set_par hpar hch htr hinf hall hreg hidx htyped hcalc] in T1, T2, T3, T4, T5, T6, T7, T8, T9.
  assert (Nk : ~ In nx (ids kidsc)) by (intros Y; apply Hk1 in Y; lia).
  assert (Nr : ~ In nx (ids r')) by (intros Y; apply Hk2 in Y; lia).
  assert (Dk : ~ In dst (ids kidsc)) by (intros Y; apply Hk1 in Y; lia).
  assert (Dr : ~ In dst (ids r')) by (intros Y; apply Hk2 in Y; lia).
  assert (Kr : forall z, In z (ids kidsc) -> ~ In z (ids r')) by (intros z Y1 Y2; apply Hk1 in Y1; apply Hk2 in Y2; lia).
  set (x := T nx inf kidsc).
  assert (Ix : forall z, In z (ids (x :: r')) <-> z = nx \/ In z (ids kidsc) \/ In z (ids r')).
  { intros z. rewrite ids_cons. cbn [rid rch x In]. rewrite in_app_iff. intuition congruence. }
  assert (Hdst2 : hch a2 dst = hch h dst ++ [nx]).
  { rewrite T2. rewrite upd_eq. now rewrite (upd_neq _ nx [] dst Dn). }
  assert (Hnx2 : hch a2 nx = []).
  { rewrite T2. rewrite (upd_neq _ dst _ nx) by congruence. now rewrite upd_eq. }
  constructor.
  - (* b_dst *)
    rewrite (b_dst _ _ _ _ B2), (b_ch_out _ _ _ _ B1 dst Dn Dk), Hdst2. cbn [map rid x]. now rewrite <- app_assoc.
  - (* b_node *)
    intros y Hy. cbn [flat_map] in Hy. rewrite pre_unfold in Hy. cbn [rch x] in Hy. apply in_app_or in Hy.
    destruct Hy as [[<-|Hy]|Hy].
    + cbn [rid rch rinfo x]. destruct (b_out _ _ _ _ B2 nx Nr) as (_ & O2 & O3). destruct (b_out _ _ _ _ B1 nx Nk) as (_ & P2 & P3).
      rewrite (b_ch_out _ _ _ _ B2 nx (not_eq_sym Dn) Nr), (b_dst _ _ _ _ B1), Hnx2, O2, O3, P2, P3, T3, T4, !upd_eq. now repeat split.
    + assert (Iy : In (rid y) (ids kidsc)) by (unfold ids; now apply in_map).
      assert (Ny : rid y <> dst) by (intros E; apply Dk; now rewrite <- E).
      destruct (b_node _ _ _ _ B1 y Hy) as (N1 & N2 & N3). destruct (b_out _ _ _ _ B2 (rid y) (Kr _ Iy)) as (_ & O2 & O3).
      rewrite (b_ch_out _ _ _ _ B2 (rid y) Ny (Kr _ Iy)), O2, O3. now repeat split.
    + now apply (b_node _ _ _ _ B2).
  - (* b_par *)
    intros r Hr. rewrite rows_cons in Hr. cbn [rid rch rinfo x] in Hr. destruct Hr as [<-|Hr].
    + cbn [r_id r_par fst snd]. destruct (b_out _ _ _ _ B2 nx Nr) as (O1 & _). destruct (b_out _ _ _ _ B1 nx Nk) as (P1 & _).
      now rewrite O1, P1, T1, upd_eq.
    + apply in_app_or in Hr. destruct Hr as [Hr|Hr]; [|now apply (b_par _ _ _ _ B2)].
      assert (Ir : In (r_id r) (ids kidsc)) by (now apply (rows_id_in kidsc nx)).
      destruct (b_out _ _ _ _ B2 (r_id r) (Kr _ Ir)) as (O1 & _). rewrite O1. now apply (b_par _ _ _ _ B1).
  - (* b_ch_out *)
    intros z Nz Iz. assert (Z1 : z <> nx) by (intros ->; apply Iz, Ix; now left).
    assert (Z2 : ~ In z (ids kidsc)) by (intros Y; apply Iz, Ix; tauto). assert (Z3 : ~ In z (ids r')) by (intros Y; apply Iz, Ix; tauto).
    rewrite (b_ch_out _ _ _ _ B2 z Nz Z3), (b_ch_out _ _ _ _ B1 z Z1 Z2), T2.
    rewrite (upd_neq _ dst _ z Nz). now rewrite (upd_neq _ nx _ z Z1).
  - (* b_out *)
    intros z Iz. assert (Z1 : z <> nx) by (intros ->; apply Iz, Ix; now left).
    assert (Z2 : ~ In z (ids kidsc)) by (intros Y; apply Iz, Ix; tauto). assert (Z3 : ~ In z (ids r')) by (intros Y; apply Iz, Ix; tauto).
    destruct (b_out _ _ _ _ B2 z Z3) as (O1 & O2 & O3). destruct (b_out _ _ _ _ B1 z Z2) as (P1 & P2 & P3).
    rewrite O1, O2, O3, P1, P2, P3, T1, T3, T4, !(upd_neq _ nx _ z Z1). now repeat split.
  - rewrite (b_reg _ _ _ _ B2), (b_reg _ _ _ _ B1), T6, ids_cons. cbn [rid rch x]. now rewrite <- !app_assoc.
  - rewrite (b_idx _ _ _ _ B2), (b_idx _ _ _ _ B1), T7. cbn [flat_map]. rewrite pre_unfold, fold_left_app. cbn [rch x fold_left]. rewrite fold_left_app.
    unfold hdid, rdid. cbn [hinf rinfo rid x]. now rewrite upd_eq.
  - rewrite (b_all _ _ _ _ B2), (b_all _ _ _ _ B1), T5, ids_cons. cbn [rid rch x]. now rewrite <- !app_assoc.
  - now rewrite (b_typed _ _ _ _ B2), (b_typed _ _ _ _ B1), T8.
  - now rewrite (b_calc _ _ _ _ B2), (b_calc _ _ _ _ B1), T9.
Qed.
