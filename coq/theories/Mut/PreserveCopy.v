(* Layer (c): copies (add_child(node), add(tree), copy_to, Tree.copy, Node.copy) *)
From Coq Require Import List ZArith Bool Arith Lia Permutation.
From NT Require Import Sx Rose ListFacts RoseFacts Surgery SurgeryFacts Machine WF MachineFacts PreserveSteps PreserveOps.
Import ListNotations.

Lemma WFw_new w tnew nx :
  WFw w -> WF tnew -> next w <= nx -> (forall m, In m (ids (forest_of tnew)) -> next w <= m < nx) ->
  WFw (W (trees w ++ [tnew]) nx).
Proof.
  intros [H1 H2 H3 H4] Wn Hnx F. rewrite Forall_forall in H3.
  assert (E : all_ids (W (trees w ++ [tnew]) nx) = all_ids w ++ ids (forest_of tnew)).
  { unfold all_ids. cbn [trees]. rewrite flat_map_app. cbn. now rewrite app_nil_r. }
  constructor; cbn [trees next]; rewrite ?E.
  - apply Forall_app. split; [assumption|now constructor].
  - apply NoDup_app_intro; [assumption|apply Wn|]. intros m Hm1 Hm2. apply H3 in Hm1. apply F in Hm2. lia.
  - apply Forall_forall. intros m Hm. apply in_app_or in Hm. destruct Hm as [Hm|Hm]; [apply H3 in Hm; lia|apply F in Hm; lia].
  - lia.
Qed.

Lemma WFx_new w tnew nx :
  WFw w -> WF tnew -> next w <= nx -> (forall m, In m (ids (forest_of tnew)) -> next w <= m < nx) ->
  WFx w (W (trees w ++ [tnew]) nx).
Proof.
  intros H Wn Hnx F. split; [now apply WFw_new|]. split; [exact Hnx|]. intros m Hm.
  assert (E : all_ids (W (trees w ++ [tnew]) nx) = all_ids w ++ ids (forest_of tnew)).
  { unfold all_ids. cbn [trees]. rewrite flat_map_app. cbn. now rewrite app_nil_r. }
  rewrite E in Hm. apply in_app_or in Hm. destruct Hm as [Hm|Hm]; [now left|right]. apply F in Hm. lia.
Qed.

(* link a branch with fresh consecutive identities below a parent and register it *)
Lemma WFx_link_fresh w ti t p pq ch nb inf kids n' :
  WFw w -> get_tree w ti = Some t ->
  parent_path p (forest_of t) = Some pq -> get_ch pq (forest_of t) = Some ch ->
  collides t p (i_did inf) = false ->
  ids kids = seq (S (next w)) (n' - S (next w)) -> S (next w) <= n' -> SU kids ->
  let x := T (next w) inf kids in
  WFx w (put_tree (W (trees w) n') ti
         (set_all t (upd_ch pq (place nb x) (forest_of t)) (reg t ++ map rid (pre x))
                  (fold_left (fun a s => idx_add (rdid s) (rid s) a) (pre x) (idx t)))).
Proof.
  intros H Gt Gp Gc Col Ek Hn Sk x. unfold put_tree. cbn [trees next].
  assert (Wt := WFw_tree w ti t H Gt).
  assert (Ex : ids_t x = seq (next w) (n' - next w)).
  { rewrite ids_t_unfold. cbn [rid rch x]. rewrite Ek. replace (n' - next w) with (S (n' - S (next w))) by lia. reflexivity. }
  assert (Fx : forall m, In m (ids_t x) -> next w <= m < n').
  { intros m Hm. rewrite Ex in Hm. apply in_seq in Hm. lia. }
  apply (WFx_put w ti t); try assumption; [|lia|].
  - apply (WF_insert t pq ch nb x Wt Gc).
    + rewrite Ex. apply seq_NoDup.
    + intros m Hm. apply Fx in Hm. split; [destruct H; lia|]. intros X. apply (WFw_tree_lt w ti t _ H Gt) in X. lia.
    + exact Sk.
    + intros X. assert (Y := collides_complete t p pq ch _ Wt Gp Gc X). unfold x, rdid in Y. cbn [rinfo] in Y. congruence.
  - intros m Hm. cbn [forest_of set_all] in Hm.
    assert (P := rows_insert_perm pq (forest_of t) ch 0 nb x Gc).
    rewrite <- (rows_ids _ 0) in Hm. apply (Permutation_in _ (Permutation_map r_id P)) in Hm.
    rewrite map_app, rows_ids, rows_t_ids in Hm. apply in_app_or in Hm. destruct Hm as [Hm|Hm]; [right; now apply Fx|now left].
Qed.

Lemma WFw_link_fresh w ti t p pq ch nb inf kids n' :
  WFw w -> get_tree w ti = Some t ->
  parent_path p (forest_of t) = Some pq -> get_ch pq (forest_of t) = Some ch ->
  collides t p (i_did inf) = false ->
  ids kids = seq (S (next w)) (n' - S (next w)) -> S (next w) <= n' -> SU kids ->
  let x := T (next w) inf kids in
  WFw (put_tree (W (trees w) n') ti
         (set_all t (upd_ch pq (place nb x) (forest_of t)) (reg t ++ map rid (pre x))
                  (fold_left (fun a s => idx_add (rdid s) (rid s) a) (pre x) (idx t)))).
Proof. intros H0 H1 H2 H3 H4 H5 H6 H7. exact (proj1 (WFx_link_fresh w ti t p pq ch nb inf kids n' H0 H1 H2 H3 H4 H5 H6 H7)). Qed.


Theorem WFx_op_add_node w ti p sti src explicit k b deep :
  WFw w -> WFx w (snd (op_add_node w ti p sti src explicit k b deep)).
Proof.
  intros H. unfold op_add_node.
  destruct (get_tree w ti) as [t|] eqn:Gt; [|exact (WFx_refl w H)].
  destruct (get_tree w sti) as [st|] eqn:Gs; [|exact (WFx_refl w H)].
  destruct (get_node src (forest_of st)) as [s|] eqn:Gn; [|exact (WFx_refl w H)].
  destruct (parent_path p (forest_of t)) as [pq|] eqn:Gp; [|exact (WFx_refl w H)].
  destruct (get_ch pq (forest_of t)) as [ch|] eqn:Gc; [|exact (WFx_refl w H)].
  repeat match goal with |- context [if ?c then (Err _, w) else _] => destruct c; [exact (WFx_refl w H)|] end.
  match goal with |- context [if collides t p ?i then _ else _] => destruct (collides t p i) eqn:Col end; [now apply WFx_bump|].
  assert (Ss : SU (rch s)).
  { destruct (get_node_spec src _ s Gn) as (Ps & _). apply (SU_pre_f (forest_of st)); [|assumption]. apply (WFw_tree w sti st H Gs). }
  destruct (match deep with Some x => x | None => false end).
  - destruct (proj2 copy_spec (rch s) (typed t) None (S (next w))) as (C1 & C2 & C3 & C4).
    destruct (copy_f (typed t) None (S (next w)) (rch s)) as [kids n'] eqn:Ec. cbn [fst snd] in *.
    rewrite register_all_eq. cbn [snd].
    apply (WFx_link_fresh w ti t p pq ch); try assumption.
    + rewrite C2. f_equal. lia.
    + lia.
    + now apply C4.
  - rewrite register_all_eq. cbn [snd].
    apply (WFx_link_fresh w ti t p pq ch); try assumption.
    + replace (S (next w) - S (next w)) with 0 by lia. reflexivity.
    + lia.
    + constructor; [constructor|intros x []].
Qed.

Theorem WFw_op_add_node w ti p sti src explicit k b deep :
  WFw w -> WFw (snd (op_add_node w ti p sti src explicit k b deep)).
Proof. intros H0. exact (proj1 (WFx_op_add_node w ti p sti src explicit k b deep H0)). Qed.


Lemma WFx_add_nodes srcs : forall w ti p sti b deep acc, WFw w -> WFx w (snd (add_nodes w ti p sti srcs b deep acc)).
Proof.
  induction srcs as [|s rest IH]; intros w ti p sti b deep acc H; cbn [add_nodes]; [exact (WFx_refl w H)|].
  assert (X := WFx_op_add_node w ti p sti s None None b deep H).
  destruct (op_add_node w ti p sti s None None b deep) as [[r|e] w']; cbn [snd] in X; [|exact X].
  apply (WFx_trans w w'); [exact X|]. apply IH. apply X.
Qed.

Lemma WFw_add_nodes srcs : forall w ti p sti b deep acc, WFw w -> WFw (snd (add_nodes w ti p sti srcs b deep acc)).
Proof. intros w ti p sti b deep acc H. exact (proj1 (WFx_add_nodes srcs w ti p sti b deep acc H)). Qed.

Theorem WFx_op_add_tree w ti p sti b deep : WFw w -> WFx w (snd (op_add_tree w ti p sti b deep)).
Proof.
  intros H. unfold op_add_tree.
  destruct (get_tree w ti) as [t|]; [|exact (WFx_refl w H)]. destruct (get_tree w sti) as [st|]; [|exact (WFx_refl w H)].
  repeat match goal with |- context [if ?c then (Err _, w) else _] => destruct c; [exact (WFx_refl w H)|] end.
  match goal with |- context [add_nodes w ti p sti ?o ?bb ?d []] => assert (X := WFx_add_nodes o w ti p sti bb d [] H);
    destruct (add_nodes w ti p sti o bb d []) as [[r|e] w'] end; exact X.
Qed.

Theorem WFw_op_add_tree w ti p sti b deep : WFw w -> WFw (snd (op_add_tree w ti p sti b deep)).
Proof. intros H0. exact (proj1 (WFx_op_add_tree w ti p sti b deep H0)). Qed.


Theorem WFx_op_copy_to w sti src ti target add_self b deep : WFw w -> WFx w (snd (op_copy_to w sti src ti target add_self b deep)).
Proof.
  intros H. unfold op_copy_to. destruct add_self; [now apply WFx_op_add_node|].
  destruct (get_tree w ti) as [t|]; [|exact (WFx_refl w H)]. destruct (get_tree w sti) as [st|]; [|exact (WFx_refl w H)].
  destruct (children_of src (forest_of st)) as [[|c ch]|]; [exact (WFx_refl w H)| |exact (WFx_refl w H)].
  repeat match goal with |- context [if ?c then (Err _, w) else _] => destruct c; [exact (WFx_refl w H)|] end.
  match goal with |- context [add_nodes w ti target sti ?o BNone ?d []] => assert (X := WFx_add_nodes o w ti target sti BNone d [] H);
    destruct (add_nodes w ti target sti o BNone d []) as [[r|e] w'] end; exact X.
Qed.

Theorem WFw_op_copy_to w sti src ti target add_self b deep : WFw w -> WFw (snd (op_copy_to w sti src ti target add_self b deep)).
Proof. intros H0. exact (proj1 (WFx_op_copy_to w sti src ti target add_self b deep H0)). Qed.


(* a whole new tree from copied branches *)
Lemma WF_fresh_tree kids ty c : NoDup (ids kids) -> ~ In 0 (ids kids) -> SU kids ->
  WF (TS kids ([] ++ map rid (pre_f kids)) (fold_left (fun a s => idx_add (rdid s) (rid s) a) (pre_f kids) []) ty c).
Proof.
  intros H1 H2 H3. eapply WF_intro; [reflexivity|assumption|assumption|reflexivity| |assumption].
  apply (IdxOK_perm _ (map key_of_node (pre_f kids) ++ [])); [|now rewrite app_nil_r].
  apply register_all_ok. repeat split; constructor.
Qed.

Lemma WFx_copy_tree w kids n' ty c :
  WFw w -> ids kids = seq (next w) (n' - next w) -> next w <= n' -> SU kids ->
  WFx w (W (trees w ++ [TS kids ([] ++ map rid (pre_f kids)) (fold_left (fun a s => idx_add (rdid s) (rid s) a) (pre_f kids) []) ty c]) n').
Proof.
  intros H E Hn S. apply WFx_new; try assumption.
  - apply WF_fresh_tree; [rewrite E; apply seq_NoDup| |assumption].
    rewrite E. intros X. apply in_seq in X. destruct H. lia.
  - cbn [forest_of]. intros m Hm. rewrite E in Hm. apply in_seq in Hm. lia.
Qed.

Lemma WFw_copy_tree w kids n' ty c :
  WFw w -> ids kids = seq (next w) (n' - next w) -> next w <= n' -> SU kids ->
  WFw (W (trees w ++ [TS kids ([] ++ map rid (pre_f kids)) (fold_left (fun a s => idx_add (rdid s) (rid s) a) (pre_f kids) []) ty c]) n').
Proof. intros H0 H1 H2 H3. exact (proj1 (WFx_copy_tree w kids n' ty c H0 H1 H2 H3)). Qed.


Theorem WFx_op_tree_copy w sti : WFw w -> WFx w (snd (op_tree_copy w sti)).
Proof.
  intros H. unfold op_tree_copy. destruct (get_tree w sti) as [st|] eqn:Gs; [|exact (WFx_refl w H)].
  destruct (proj2 copy_spec (forest_of st) (typed st) None (next w)) as (C1 & C2 & C3 & C4).
  destruct (copy_f (typed st) None (next w) (forest_of st)) as [kids n'] eqn:Ec. cbn [fst snd] in *.
  rewrite register_all_eq. cbn [snd]. apply WFx_copy_tree; try assumption.
  - rewrite C2. f_equal. lia.
  - lia.
  - apply C4. apply (WFw_tree w sti st H Gs).
Qed.

Theorem WFw_op_tree_copy w sti : WFw w -> WFw (snd (op_tree_copy w sti)).
Proof. intros H0. exact (proj1 (WFx_op_tree_copy w sti H0)). Qed.


(* giving the top nodes another kind changes neither identities, data_ids nor children *)
Definition rekind (k : kind) (t : rt) : rt := match t with T id i ch => T id (set_kind_i k i) ch end.

Lemma rekind_ids k l : ids (map (rekind k) l) = ids l.
Proof.
  induction l as [|t l IH]; [reflexivity|]. cbn [map]. rewrite !ids_cons, IH. destruct t. reflexivity.
Qed.

Lemma rekind_SU k l : SU l -> SU (map (rekind k) l).
Proof.
  intros H. constructor.
  - rewrite map_map. replace (map (fun x => rdid (rekind k x)) l) with (map rdid l); [now apply SU_top|].
    apply map_ext. now intros [id i ch].
  - intros t Ht. apply in_map_iff in Ht. destruct Ht as (t0 & <- & Ht0). destruct t0 as [id i ch]. cbn [rekind rch].
    apply (SU_child l _ H Ht0).
Qed.

Theorem WFx_op_node_copy w sti src add_self : WFw w -> WFx w (snd (op_node_copy w sti src add_self)).
Proof.
  intros H. unfold op_node_copy. destruct (get_tree w sti) as [st|] eqn:Gs; [|exact (WFx_refl w H)].
  destruct (get_node src (forest_of st)) as [s|] eqn:Gn; [|exact (WFx_refl w H)].
  assert (Ss : SU (rch s)).
  { destruct (get_node_spec src _ s Gn) as (Ps & _). apply (SU_pre_f (forest_of st)); [|assumption]. apply (WFw_tree w sti st H Gs). }
  assert (Sl : SU (if add_self then [s] else rch s)).
  { destruct add_self; [|assumption]. constructor; [cbn; constructor; [intros []|constructor]|]. intros x [<-|[]]. assumption. }
  match goal with |- context [copy_f ?a ?b ?c ?l] =>
    destruct (proj2 copy_spec l a b c) as (C1 & C2 & C3 & C4); destruct (copy_f a b c l) as [kids0 n'] eqn:Ec end.
  cbn [fst snd] in *.
  rewrite register_all_eq. cbn [snd].
  destruct (add_self && typed st).
  - fold (rekind (default_kind st None)). apply WFx_copy_tree; try assumption.
    + rewrite rekind_ids, C2. f_equal. lia.
    + lia.
    + apply rekind_SU. now apply C4.
  - apply WFx_copy_tree; try assumption.
    + rewrite C2. f_equal. lia.
    + lia.
    + now apply C4.
Qed.

Theorem WFw_op_node_copy w sti src add_self : WFw w -> WFw (snd (op_node_copy w sti src add_self)).
Proof. intros H0. exact (proj1 (WFx_op_node_copy w sti src add_self H0)). Qed.

