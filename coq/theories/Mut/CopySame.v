(* C07, part 8: several sources copied inside ONE tree (copy_to(add_self=False) to another
   place of the same tree, a shallow add(tree) below one of the tree's own nodes): the copies
   are faithful to the nodes as they were BEFORE the call, although every single copy changes
   the tree the next source is read from. *)
From Coq Require Import List ZArith Bool Arith Lia Permutation.
From NT Require Import Sx Rose ListFacts RoseFacts Surgery SurgeryFacts Machine WF MachineFacts Effects FrameTrees
                       CopyFacts CopyMulti CopyWF.
Import ListNotations.

(* every sub-tree shows as a row *)
Lemma pre_row :
  (forall t o u, In u (pre t) -> exists q, In (q, rid u, rinfo u) (rows_t o t)) /\
  (forall f o u, In u (pre_f f) -> exists q, In (q, rid u, rinfo u) (rows o f)).
Proof.
  apply rt_forest_ind.
  - intros id i ch IH o u Hu. rewrite rows_t_unfold. cbn [pre rid rinfo rch] in *. destruct Hu as [<-|Hu].
    + exists o. now left.
    + destruct (IH id u Hu) as (q & Hq). exists q. now right.
  - intros o u [].
  - intros t f IHt IHf o u Hu. cbn [flat_map] in *. apply in_app_iff in Hu. destruct Hu as [Hu|Hu].
    + destruct (IHt o u Hu) as (q & Hq). exists q. apply in_app_iff. now left.
    + destruct (IHf o u Hu) as (q & Hq). exists q. apply in_app_iff. now right.
Qed.

(* one copy inside a tree: every node keeps its payload; a branch that does not contain the
   target keeps its value; the invariants needed for the next copy are kept *)
Lemma add_node_same_all w ti p src e k b deep r w' t :
  op_add_node w ti p ti src e k b deep = (Ok r, w') ->
  get_tree w ti = Some t -> NoDup (ids (forest_of t)) -> (forall n, In n (ids (forest_of t)) -> n < next w) ->
  exists t', get_tree w' ti = Some t' /\ NoDup (ids (forest_of t')) /\
    (forall n, In n (ids (forest_of t')) -> n < next w') /\
    (forall m u, get_node m (forest_of t) = Some u ->
       exists u', get_node m (forest_of t') = Some u' /\ rinfo u' = rinfo u /\ (~ In p (ids_t u) -> u' = u)).
Proof.
  intros H Et ND Hlt.
  destruct (add_node_effect _ _ _ _ _ _ _ _ _ _ _ H)
    as (t0 & st0 & s & pq & ch & x & t' & Et0 & Est0 & Et' & Es & Ep & Ec & _ & _ & Hc & Hn & _ & Hr & Hf & _).
  rewrite Et in Et0. injection Et0 as <-. rewrite Et in Est0. injection Est0 as <-.
  destruct (add_node_same_tree w ti p src e k b deep r w' t s H Et ND Hlt Es) as (t'' & Et'' & ND' & _ & _).
  rewrite Et' in Et''. injection Et'' as <-.
  exists t'. refine (conj Et' (conj ND' (conj _ _))).
  - destruct Hr as (A & B & E1 & E2). intros n Hn'. rewrite (ids_rows _ 0), E2, !map_app, rows_ids_t in Hn'.
    rewrite Hn, (is_copy_size _ _ _ _ _ _ Hc). rewrite (ic_ids _ _ _ _ _ _ Hc) in Hn'.
    assert (Hold : In n (map r_id A) \/ In n (map r_id B) -> n < next w).
    { intros Ho. apply Hlt. rewrite (ids_rows _ 0), E1, map_app. apply in_app_iff. exact Ho. }
    rewrite !in_app_iff in Hn'. destruct Hn' as [Ha|[Hs|Hb]].
    + specialize (Hold (or_introl Ha)). destruct (deep_of deep); lia.
    + apply in_seq in Hs. lia.
    + specialize (Hold (or_intror Hb)). destruct (deep_of deep); lia.
  - intros m u Hu. destruct (get_node_spec m _ u Hu) as (Hin & Hid).
    assert (Hm' : In m (ids (forest_of t'))).
    { destruct Hr as (A & B & E1 & E2). rewrite (ids_rows _ 0), E2, !map_app.
      assert (Hm : In m (ids (forest_of t))) by (subst m; unfold ids; now apply in_map).
      rewrite (ids_rows _ 0), E1, map_app in Hm. rewrite !in_app_iff in *. tauto. }
    destruct (get_node_complete m _ Hm') as (u' & Hu'). exists u'. refine (conj Hu' (conj _ _)).
    + destruct (get_node_spec m _ u' Hu') as (Hin' & Hid').
      destruct (proj2 pre_row _ 0 u Hin) as (q & Hq). destruct (proj2 pre_row _ 0 u' Hin') as (q' & Hq').
      assert (Hq2 : In (q, rid u, rinfo u) (rows 0 (forest_of t'))).
      { destruct Hr as (A & B & E1 & E2). rewrite E2. rewrite E1 in Hq. rewrite !in_app_iff in *. tauto. }
      pose proof (rows_id_unique _ 0 _ _ ND' Hq2 Hq') as X. cbn in X. specialize (X (eq_trans Hid (eq_sym Hid'))).
      now injection X.
    + intros Hnp. rewrite Hf in Hu'. 
      assert (Hk : In u (pre_f (upd_ch pq (place (norm_before b) x) (forest_of t)))).
      { apply (upd_ch_keeps pq (forest_of t) 0 ch); [exact Ec|apply incl_place|exact Hin|].
        intros _. now rewrite (parent_path_owner p _ pq ch Ep Ec). }
      rewrite <- Hf in Hk, Hu'. rewrite (get_node_unique m _ u ND' Hk Hid) in Hu'. now injection Hu'.
Qed.

(* a shallow copy only reads the payload of its source *)
Lemma is_copy_shallow ty topk n s s' x : rinfo s' = rinfo s -> is_copy ty false topk n s' x -> is_copy ty false topk n s x.
Proof.
  intros E [H1 H2 H3 H4 H5]. constructor; auto. unfold rdid in *. now rewrite <- E.
Qed.

(* the source [src], found as s0 in the forest f0 before the call, as it is found in f now *)
Definition src_ok (f0 f : forest) (p src : nat) : Prop :=
  exists s0 s, get_node src f0 = Some s0 /\ get_node src f = Some s /\ rinfo s = rinfo s0 /\
               (~ In p (ids_t s0) -> s = s0).

Theorem add_nodes_same ti p b deep f0 : forall srcs w acc r w' t pq ch,
  add_nodes w ti p ti srcs b deep acc = (Ok r, w') ->
  get_tree w ti = Some t -> NoDup (ids (forest_of t)) -> (forall n, In n (ids (forest_of t)) -> n < next w) ->
  parent_path p (forest_of t) = Some pq -> get_ch pq (forest_of t) = Some ch ->
  (forall src, In src srcs -> src_ok f0 (forest_of t) p src) ->
  (deep_of deep = true -> forall src s0, In src srcs -> get_node src f0 = Some s0 -> ~ In p (ids_t s0)) ->
  exists xs t',
    r = acc ++ map rid xs /\ get_tree w' ti = Some t' /\
    copies (typed t) (deep_of deep) (default_kind t None) f0 (next w) srcs xs (next w') /\
    get_ch pq (forest_of t') = Some (place_all (norm_before b) xs ch) /\
    NoDup (ids (forest_of t')) /\ (forall n, In n (ids (forest_of t')) -> n < next w').
Proof.
  induction srcs as [|src srcs IH]; intros w acc r w' t pq ch H Et ND Hlt Ep Ec Hok Hdeep; cbn [add_nodes] in H.
  - injection H as <- <-. exists [], t. cbn [map place_all fold_left]. rewrite app_nil_r.
    refine (conj eq_refl (conj Et (conj (copies_nil _ _ _ _ _) (conj Ec (conj ND Hlt))))).
  - destruct (op_add_node w ti p ti src None None b deep) as [[r1|e1] w1] eqn:E1; [|discriminate].
    destruct (add_node_effect _ _ _ _ _ _ _ _ _ _ _ E1)
      as (t0 & st0 & s & pq0 & ch0 & x & t1 & Et0 & Est0 & Et1 & Es & Ep0 & Ec0 & _ & -> & Hc & Hn & Hch & _ & Hf & Hty1 & _ & _ & _).
    rewrite Et in Et0. injection Et0 as <-. rewrite Et in Est0. injection Est0 as <-.
    rewrite Ep in Ep0. injection Ep0 as <-. rewrite Ec in Ec0. injection Ec0 as <-.
    destruct (add_node_same_all w ti p src None None b deep _ w1 t E1 Et ND Hlt) as (t1' & Et1' & ND1 & Hlt1 & Hkeep).
    rewrite Et1 in Et1'. injection Et1' as <-.
    assert (Ep1 : parent_path p (forest_of t1) = Some pq) by (rewrite Hf; now apply parent_path_stable).
    (* the copy just made is a copy of the ORIGINAL source *)
    destruct (Hok src (or_introl eq_refl)) as (s0 & s' & Hs0 & Hs' & Hinfo & Hsame).
    rewrite Es in Hs'. injection Hs' as <-.
    assert (Hc0 : is_copy (typed t) (deep_of deep) (default_kind t None) (next w) s0 x).
    { destruct (deep_of deep) eqn:Ed.
      - rewrite <- (Hsame (Hdeep eq_refl src s0 (or_introl eq_refl) Hs0)). exact Hc.
      - now apply (is_copy_shallow _ _ _ s0 s). }
    destruct (IH w1 (acc ++ [next w]) r w' t1 pq _ H Et1 ND1 Hlt1 Ep1 Hch) as (xs & t' & -> & Et' & Hcs & Ech' & ND' & Hlt').
    + intros src' Hin'. destruct (Hok src' (or_intror Hin')) as (a0 & a & Ha0 & Ha & Hai & Has).
      destruct (Hkeep src' a Ha) as (a' & Ha' & Hai' & Has').
      exists a0, a'. refine (conj Ha0 (conj Ha' (conj (eq_trans Hai' Hai) _))).
      intros Hnp. rewrite <- (Has Hnp). apply Has'. now rewrite (Has Hnp).
    + intros Hd src' a0 Hin'. apply (Hdeep Hd). now right.
    + exists (x :: xs), t'. cbn [map place_all fold_left].
      refine (conj _ (conj Et' (conj _ (conj Ech' (conj ND' Hlt'))))).
      * rewrite (ic_id _ _ _ _ _ _ Hc). repeat (rewrite <- app_assoc). reflexivity.
      * econstructor; [exact Hs0|exact Hc0|]. rewrite <- Hn.
        rewrite Hty1, (default_kind_typed t1 t None Hty1) in Hcs. exact Hcs.
Qed.

(* copy_to(add_self=False) inside one tree: the children of src (as they were) appended below target *)
Theorem copy_to_children_same w ti src target b deep r w' t ch sch :
  op_copy_to w ti src ti target false b deep = (Ok r, w') ->
  get_tree w ti = Some t -> NoDup (ids (forest_of t)) -> (forall n, In n (ids (forest_of t)) -> n < next w) ->
  children_of target (forest_of t) = Some ch ->
  children_of src (forest_of t) = Some sch ->
  exists t' pq xs,
    get_tree w' ti = Some t' /\
    parent_path target (forest_of t) = Some pq /\
    get_ch pq (forest_of t') = Some (ch ++ xs) /\
    Forall2 (copy_rel (typed t) deep (default_kind t None) (next w) (next w')) sch xs /\ sch <> [] /\
    NoDup (ids (forest_of t')) /\
    (* every row of the tree - the source branch included - is still there, in order *)
    subseq (rows 0 (forest_of t)) (rows 0 (forest_of t')).
Proof.
  intros H Et ND Hlt Hch Hsch.
  destruct (copy_to_children_rows w ti src ti target b deep r w' t H Et) as (t'' & Et'' & Hsub & _).
  unfold op_copy_to in H. rewrite Et, Hsch in H.
  destruct sch as [|c0 sch0]; [discriminate|].
  destruct (any_collides t target t (map rid (c0 :: sch0))); [discriminate|].
  destruct (any_into_own_branch ti ti t (map rid (c0 :: sch0)) target (Some deep)) eqn:Eown; [discriminate|].
  destruct (add_nodes w ti target ti (map rid (c0 :: sch0)) BNone (Some deep) []) as [[r0|e] w0] eqn:EA; [|discriminate].
  injection H as _ <-.
  unfold children_of in Hch. destruct (parent_path target (forest_of t)) as [pq|] eqn:Ep; [|discriminate].
  assert (Hsub_in : incl (c0 :: sch0) (pre_f (forest_of t))).
  { unfold children_of in Hsch. destruct (parent_path src (forest_of t)) as [q|]; [|discriminate].
    intros y Hy. apply (get_ch_pre q (forest_of t) _ Hsch). now apply in_pre_f_top. }
  assert (Hget : forall c, In c (c0 :: sch0) -> get_node (rid c) (forest_of t) = Some c).
  { intros c Hc. apply get_node_unique; auto. }
  destruct (add_nodes_same ti target BNone (Some deep) (forest_of t) (map rid (c0 :: sch0)) w [] r0 w0 t pq ch EA Et ND Hlt Ep Hch)
    as (xs & t' & _ & Et' & Hcs & Hg & ND' & _).
  - intros s Hs. apply in_map_iff in Hs. destruct Hs as (c & <- & Hc). exists c, c. now rewrite (Hget c Hc).
  - cbn [deep_of]. intros -> s s0 Hs Hs0. apply in_map_iff in Hs. destruct Hs as (c & <- & Hc).
    rewrite (Hget c Hc) in Hs0. injection Hs0 as <-.
    unfold any_into_own_branch in Eown. rewrite Nat.eqb_refl in Eown. cbn [andb] in Eown.
    intros Hin. assert (X : existsb (fun s => is_desc_or_self s target (forest_of t)) (map rid (c0 :: sch0)) = true).
    { apply existsb_exists. exists (rid c). split; [now apply in_map|]. unfold is_desc_or_self. rewrite (Hget c Hc).
      apply existsb_exists. exists target. split; [exact Hin|apply Nat.eqb_refl]. }
    rewrite X in Eown. discriminate.
  - cbn [norm_before deep_of] in *. rewrite place_all_app in Hg.
    rewrite Et' in Et''. injection Et'' as <-.
    exists t', pq, xs. refine (conj Et' (conj eq_refl (conj Hg (conj _ (conj _ (conj ND' Hsub)))))).
    + apply (copies_tops _ _ _ _ _ _ ND); [exact Hsub_in|exact Hcs].
    + discriminate.
Qed.

(* ------------------------------------------------------------------ *)
(* add(tree) with the tree's own nodes as target (only a shallow copy can succeed there) *)

(* how op_add_tree resolves `before` against the present child list *)
Definition tree_jb (b : before) (nch : nat) : option nat :=
  match b with BTrue => Some 0 | BIdx z => Some (py_index z nch) | _ => None end.
Definition tree_b' (b : before) (nch : nat) : before :=
  match tree_jb b nch with Some j => BIdx (Z.of_nat j) | None => b end.

Lemma Forall2_len {A B} (R : A -> B -> Prop) l1 l2 : Forall2 R l1 l2 -> length l1 = length l2.
Proof. induction 1; cbn; congruence. Qed.

(* the loop of add(tree): whatever `before` is, the copies end up as one block, in source order *)
Lemma add_tree_block b ch xs0 :
  (forall s, b = BNode s -> xs0 <> [] -> before_ok (NNode s) ch = true /\ Forall (fun u => rid u <> s) xs0) ->
  exists a c, ch = a ++ c /\
    place_all (norm_before (tree_b' b (length ch))) xs0 ch =
      a ++ (match tree_jb b (length ch) with Some _ => rev xs0 | None => xs0 end) ++ c /\
    block_pos b a c (match xs0 with [] => false | _ => true end).
Proof.
  intros Hnode. unfold tree_b'. destruct b as [| | |z|s]; cbn [tree_jb norm_before].
  - exists ch, []. rewrite place_all_app, !app_nil_r. repeat split.
  - exists [], ch. rewrite place_all_idx by lia. cbn [firstn skipn app]. repeat split.
  - exists ch, []. rewrite place_all_app, !app_nil_r. repeat split.
  - set (j := py_index z (length ch)). assert (Hj : j <= length ch) by apply py_index_le.
    exists (firstn j ch), (skipn j ch). rewrite place_all_idx by exact Hj. rewrite firstn_skipn.
    refine (conj eq_refl (conj eq_refl _)). cbn [block_pos]. rewrite firstn_skipn, firstn_length. fold j. lia.
  - destruct xs0 as [|x0 xs1].
    + exists ch, []. cbn [place_all fold_left]. rewrite !app_nil_r. refine (conj eq_refl (conj eq_refl _)).
      cbn [block_pos]. discriminate.
    + destruct (Hnode s eq_refl) as (Hb & Hf); [discriminate|].
      cbn [before_ok] in Hb. destruct (index_by_id s ch) as [j|] eqn:Ei; [|discriminate].
      destruct (index_by_id_spec s ch j Ei) as (a & t0 & c' & -> & _ & Rt & Fa).
      exists a, (t0 :: c'). rewrite place_all_node by assumption.
      refine (conj eq_refl (conj eq_refl _)). cbn [block_pos]. intros _. exists t0, c'. auto.
Qed.

Theorem add_tree_same w ti p b deep r w' t ch :
  op_add_tree w ti p ti b deep = (Ok r, w') ->
  get_tree w ti = Some t -> NoDup (ids (forest_of t)) -> (forall n, In n (ids (forest_of t)) -> n < next w) ->
  children_of p (forest_of t) = Some ch ->
  exists t' pq a c xs,
    get_tree w' ti = Some t' /\ parent_path p (forest_of t) = Some pq /\ ch = a ++ c /\
    get_ch pq (forest_of t') = Some (a ++ xs ++ c) /\
    (* the copies of the top-level nodes AS THEY WERE, in source order *)
    Forall2 (copy_rel (typed t) (deep_tree deep) (default_kind t None) (next w) (next w')) (forest_of t) xs /\
    block_pos b a c (match forest_of t with [] => false | _ => true end) /\
    NoDup (ids (forest_of t')) /\
    subseq (rows 0 (forest_of t)) (rows 0 (forest_of t')).
Proof.
  intros H Et ND Hlt Hch.
  destruct (add_tree_rows w ti p ti b deep r w' t H Et) as (t'' & Et'' & Hsub & _).
  unfold op_add_tree in H. rewrite Et, Hch in H.
  destruct (typed t && negb (typed t)); [discriminate|].
  destruct (any_collides t p t (map rid (forest_of t))); [discriminate|].
  set (dp := match deep with Some x => Some x | None => Some true end) in *.
  assert (Edp : deep_of dp = deep_tree deep) by (destruct deep as [[|]|]; reflexivity).
  destruct (any_into_own_branch ti ti t (map rid (forest_of t)) p dp) eqn:Eown; [discriminate|].
  fold (tree_jb b (length ch)) in H. fold (tree_b' b (length ch)) in H.
  set (order := match tree_jb b (length ch) with Some _ => rev (map rid (forest_of t)) | None => map rid (forest_of t) end) in *.
  destruct (add_nodes w ti p ti order (tree_b' b (length ch)) dp []) as [[r0|e] w0] eqn:EA; [|discriminate].
  injection H as _ <-.
  unfold children_of in Hch. destruct (parent_path p (forest_of t)) as [pq|] eqn:Ep; [|discriminate].
  assert (Hget : forall c, In c (forest_of t) -> get_node (rid c) (forest_of t) = Some c).
  { intros c Hc. apply get_node_unique; auto. now apply in_pre_f_top. }
  assert (Hord : forall s, In s order -> exists c, In c (forest_of t) /\ rid c = s).
  { intros s Hs. unfold order in Hs. destruct (tree_jb b (length ch)); [apply in_rev in Hs|];
      apply in_map_iff in Hs; destruct Hs as (c & <- & Hc); now exists c. }
  destruct (add_nodes_same ti p (tree_b' b (length ch)) dp (forest_of t) order w [] r0 w0 t pq ch EA Et ND Hlt Ep Hch)
    as (xs0 & t' & _ & Et' & Hcs & Hg & ND' & _).
  - intros s Hs. destruct (Hord s Hs) as (c & Hc & <-). exists c, c. now rewrite (Hget c Hc).
  - rewrite Edp. intros Hd s s0 Hs Hs0. destruct (Hord s Hs) as (c & Hc & <-).
    rewrite (Hget c Hc) in Hs0. injection Hs0 as <-.
    unfold any_into_own_branch in Eown. assert (dp = Some true) as Edp2.
    { unfold dp. destruct deep as [[|]|]; try reflexivity. discriminate. }
    rewrite Edp2, Nat.eqb_refl in Eown. cbn [andb] in Eown.
    intros Hin. assert (X : existsb (fun s => is_desc_or_self s p (forest_of t)) (map rid (forest_of t)) = true).
    { apply existsb_exists. exists (rid c). split; [now apply in_map|]. unfold is_desc_or_self. rewrite (Hget c Hc).
      apply existsb_exists. exists p. split; [exact Hin|apply Nat.eqb_refl]. }
    rewrite X in Eown. discriminate.
  - rewrite Et' in Et''. injection Et'' as <-. rewrite Edp in Hcs.
    (* the copies, in the order they were made, correspond to [order] *)
    set (onodes := match tree_jb b (length ch) with Some _ => rev (forest_of t) | None => forest_of t end).
    assert (Eo : order = map rid onodes).
    { unfold order, onodes. destruct (tree_jb b (length ch)); [now rewrite map_rev|reflexivity]. }
    rewrite Eo in Hcs.
    assert (HF0 : Forall2 (copy_rel (typed t) (deep_tree deep) (default_kind t None) (next w) (next w0)) onodes xs0).
    { apply (copies_tops _ _ _ _ _ _ ND); [|exact Hcs]. intros y Hy. apply in_pre_f_top.
      unfold onodes in Hy. destruct (tree_jb b (length ch)); [now apply in_rev|exact Hy]. }
    destruct (add_tree_block b ch xs0) as (a & c & Ech & Epl & Hpos).
    + intros s -> Hne. split.
      * apply (add_nodes_before_ok ti p ti (BNode s) dp order w [] r0 w0 t pq ch); auto.
        intros E0. rewrite E0 in Eo. destruct onodes; [|discriminate]. inversion HF0; subst. congruence.
      * apply Forall_forall. intros x Hx. destruct (Forall2_In_r _ _ _ x HF0 Hx) as (c0 & _ & Hc0).
        apply copy_rel_fresh in Hc0. intros Es.
        assert (Hb : before_ok (NNode s) ch = true).
        { apply (add_nodes_before_ok ti p ti (BNode s) dp order w [] r0 w0 t pq ch); auto.
          intros E0. rewrite E0 in Eo. destruct onodes; [|discriminate]. inversion HF0; subst. destruct Hx. }
        cbn [before_ok] in Hb. destruct (index_by_id s ch) as [j|] eqn:Ei; [|discriminate].
        destruct (index_by_id_spec s ch j Ei) as (a0 & t0 & c' & E1 & _ & Rt & _).
        assert (s < next w).
        { apply Hlt. rewrite <- Rt. unfold ids. apply in_map. apply (get_ch_pre pq (forest_of t) ch Hch).
          apply in_pre_f_top. rewrite E1. apply in_app_iff. right. now left. }
        lia.
    + rewrite Epl in Hg.
      exists t', pq, a, c, (match tree_jb b (length ch) with Some _ => rev xs0 | None => xs0 end).
      refine (conj Et' (conj eq_refl (conj Ech (conj Hg (conj _ (conj _ (conj ND' Hsub))))))).
      * unfold onodes in HF0. destruct (tree_jb b (length ch)); [|exact HF0].
        apply Forall2_rev' in HF0. now rewrite rev_involutive in HF0.
      * assert (Enil : match xs0 with [] => false | _ => true end = match forest_of t with [] => false | _ => true end).
        { apply Forall2_len in HF0. unfold onodes in HF0.
          assert (L : length (forest_of t) = length xs0) by (destruct (tree_jb b (length ch)); [now rewrite rev_length in HF0|exact HF0]).
          destruct xs0, (forest_of t); cbn in L; try reflexivity; discriminate. }
        rewrite <- Enil. exact Hpos.
Qed.
