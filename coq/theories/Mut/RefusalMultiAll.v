(* C13: the two multi-source copies (add(tree), copy_to(add_self=False)) with ANY error class,
   not only the library's refusals: once the first copy has been made, no later add_child(node)
   of the sequence fails at all (type errors and dead references included), so every error exit
   leaves the trees unchanged.  Completes [error_single] to all operations. *)
From Coq Require Import List ZArith Bool Arith Lia Permutation.
From NT Require Import Sx Rose ListFacts RoseFacts Surgery SurgeryFacts Machine WF MachineFacts
  PreserveSteps PreserveOps PreserveCopy Effects RefusalC13 RefusalMulti.
Import ListNotations.

Section All.
Variables (ti p sti : nat) (b : before) (deep : option bool).
Let dp : bool := match deep with Some x => x | None => false end.
Let nb : nbefore := norm_before b.

(* the checks of add_child(node) that do not depend on the source: classes of the two trees, the parent *)
Definition envok (w : world) : Prop :=
  exists t st pq ch, get_tree w ti = Some t /\ get_tree w sti = Some st /\
    typed t && negb (typed st) = false /\ negb (typed t) && typed st = false /\
    parent_path p (forest_of t) = Some pq /\ get_ch pq (forest_of t) = Some ch.

Lemma ok_envok w s r w' : op_add_node w ti p sti s None None b deep = (Ok r, w') -> envok w.
Proof.
  unfold op_add_node. destruct (get_tree w ti) as [t|] eqn:Gt; [|discriminate].
  destruct (get_tree w sti) as [st|] eqn:Gs; [|discriminate].
  destruct (get_node s (forest_of st)) as [node|]; [|discriminate].
  destruct (parent_path p (forest_of t)) as [pq|] eqn:Gp; [|discriminate].
  destruct (get_ch pq (forest_of t)) as [ch|] eqn:Gc; [|discriminate].
  destruct (typed t && negb (typed st)) eqn:T1; [discriminate|].
  repeat match goal with |- context [if ?c then (Err EValue, _) else _] => destruct c; [discriminate|]
                       | |- context [if ?c then (Err EUnique, _) else _] => destruct c; [discriminate|] end.
  destruct (negb (typed t) && typed st) eqn:T2; [discriminate|].
  intros _. now exists t, st, pq, ch.
Qed.

(* a safe source in an acceptable environment is copied: no error of any class *)
Lemma safe_is_ok w s d :
  WFw w -> safe ti p sti deep w s d -> bok ti p b w -> envok w ->
  exists r w', op_add_node w ti p sti s None None b deep = (Ok r, w').
Proof.
  intros H S B (t & st & pq & ch & Gt & Gs & T1 & T2 & Gp & Gc).
  destruct (op_add_node w ti p sti s None None b deep) as [[r|e] w'] eqn:E; [now exists r, w'|exfalso].
  assert (L : library_error e = false) by (apply (safe_no_lib ti p sti b deep w s d e H S B); now rewrite E).
  revert E. unfold op_add_node. rewrite Gt, Gs. destruct (S t st Gt Gs) as ((node & Gn & Ed) & Col & Own). rewrite Gn, Gp, Gc, T1.
  repeat match goal with |- context [if ?c then (Err EValue, _) else _] => destruct c; [intros X; injection X as <- _; discriminate L|]
                       | |- context [if ?c then (Err EUnique, _) else _] => destruct c; [intros X; injection X as <- _; discriminate L|] end.
  rewrite T2.
  repeat match goal with |- context [if ?c then (Err EUnique, _) else _] => destruct c; [intros X; injection X as <- _; discriminate L|] end.
  match goal with |- context [if ?c then ?a else ?bb] => destruct (if c then a else bb) as [kids n'] end.
  match goal with |- context [register_all ?a ?bb ?c] => destruct (register_all a bb c) as [r' ix'] end.
  discriminate.
Qed.

Lemma step_keeps_envok w s1 r w' :
  WFw w -> op_add_node w ti p sti s1 None None b deep = (Ok r, w') -> envok w'.
Proof.
  intros H E. destruct (ok_envok w s1 r w' E) as (t & st & pq & ch & Gt & Gs & T1 & T2 & Gp & Gc).
  destruct (add_node_ok_inv ti p sti b deep w s1 r w' E) as (t0 & st0 & node & pq0 & ch0 & x & r' & ix' & n' & Gt0 & Gs0 & _ & Gp0 & Gc0 & _ & _ & _ & _ & Ew).
  assert (t0 = t) by congruence. subst t0. assert (pq0 = pq) by congruence. subst pq0.
  set (t' := set_all t (upd_ch pq (place (norm_before b) x) (forest_of t)) r' ix') in *.
  assert (Gt' : get_tree w' ti = Some t') by (subst w'; apply (get_put_same (W (trees w) n') ti t t'); exact Gt).
  assert (H' : WFw w') by (assert (X := WFw_op_add_node w ti p sti s1 None None b deep H); rewrite E in X; exact X).
  assert (Wt' := WFw_tree w' ti t' H' Gt').
  assert (Gs' : exists st', get_tree w' sti = Some st' /\ typed st' = typed st).
  { destruct (Nat.eq_dec sti ti) as [Es|Es].
    - exists t'. split; [now rewrite Es|]. assert (st = t) by (rewrite Es in Gs; congruence). subst st. reflexivity.
    - exists st. split; [|reflexivity]. subst w'. rewrite get_put_other by congruence. exact Gs. }
  destruct Gs' as (st' & Gs' & Ts).
  assert (Pp : exists pq', parent_path p (forest_of t') = Some pq').
  { destruct (parent_path_spec p _ pq ch 0 Gp Gc) as [(-> & _)|(Nz & s & Hs & Rs & _)]; [now exists []|].
    unfold parent_path. apply Nat.eqb_neq in Nz. rewrite Nz. apply node_path_complete.
    assert (Hin : In p (ids (forest_of t))) by (rewrite <- Rs; unfold ids; now apply in_map).
    unfold t'. cbn [forest_of set_all]. destruct (ids_context pq (forest_of t) ch Gc) as (A & B & E1 & E2). rewrite E2.
    rewrite E1 in Hin. apply in_app_or in Hin. apply in_or_app. destruct Hin as [Hin|Hin]; [now left|right].
    apply in_app_or in Hin. apply in_or_app. destruct Hin as [Hin|Hin]; [left|now right].
    destruct (place_split (norm_before b) x ch) as (a0 & b0 & -> & ->). rewrite ids_app in *. apply in_app_or in Hin. apply in_or_app.
    destruct Hin as [Hin|Hin]; [now left|right]. rewrite ids_cons. right. apply in_or_app. now right. }
  destruct Pp as (pq' & Gp'). destruct (parent_path_get p _ pq' Gp') as (ch' & Gc').
  exists t', st', pq', ch'. repeat split; try assumption; rewrite ?Ts; assumption.
Qed.

Lemma add_nodes_all_ok : forall srcs ds w acc,
  WFw w -> bok ti p b w -> envok w -> Forall2 (safe ti p sti deep w) srcs ds -> NoDup ds ->
  exists r w', add_nodes w ti p sti srcs b deep acc = (Ok r, w').
Proof.
  induction srcs as [|s rest IH]; intros ds w acc H B En F N; cbn [add_nodes]; [now eexists _, _|].
  inversion F as [|s' d rest' ds' Sd Fr]; subst. inversion N as [|d' l' Nd Nr]; subst.
  destruct (safe_is_ok w s d H Sd B En) as (r & w' & E). rewrite E.
  apply (IH ds' w').
  - assert (X := WFw_op_add_node w ti p sti s None None b deep H). rewrite E in X. exact X.
  - apply (step_keeps_bok ti p sti b deep w s r w' H E).
  - apply (step_keeps_envok w s r w' H E).
  - apply (Forall2_weaken_r _ _ _ _ Fr). intros s2 d2 Hd2 S2. apply (step_keeps_safe ti p sti b deep w s r w' d s2 d2 H E Sd S2).
    intros ->. contradiction.
  - assumption.
Qed.

Theorem add_nodes_error_unchanged srcs ds w acc e :
  WFw w -> Forall2 (safe ti p sti deep w) srcs ds -> NoDup ds ->
  fst (add_nodes w ti p sti srcs b deep acc) = Err e ->
  trees (snd (add_nodes w ti p sti srcs b deep acc)) = trees w.
Proof.
  intros H F N E. destruct srcs as [|s rest]; [discriminate E|].
  destruct (op_add_node w ti p sti s None None b deep) as [[r|e'] w'] eqn:E1.
  - exfalso. destruct (add_nodes_all_ok (s :: rest) ds w acc H (ok_bok ti p sti b deep w s r w' E1) (ok_envok w s r w' E1) F N) as (r2 & w2 & X).
    rewrite X in E. discriminate E.
  - cbn [add_nodes]. rewrite E1. cbn [snd].
    assert (K := keeps_op_add_node w ti p sti s None None b deep). unfold keeps in K. rewrite E1 in K. exact K.
Qed.
End All.

Theorem add_tree_error_unchanged w ti p sti b deep e :
  WFw w -> fst (op_add_tree w ti p sti b deep) = Err e -> trees (snd (op_add_tree w ti p sti b deep)) = trees w.
Proof.
  intros H. unfold op_add_tree.
  destruct (get_tree w ti) as [t|] eqn:Gt; [|reflexivity]. destruct (get_tree w sti) as [st|] eqn:Gs; [|reflexivity].
  destruct (typed t && negb (typed st)); [reflexivity|]. cbv zeta.
  destruct (any_collides t p st (map rid (forest_of st))) eqn:AC; [reflexivity|].
  destruct (any_into_own_branch ti sti st (map rid (forest_of st)) p _) eqn:AO; [reflexivity|].
  set (dpo := match deep with Some x => Some x | None => Some true end) in *.
  set (jb := match b with BTrue => Some 0 | BIdx z => Some (py_index z _) | _ => None end).
  set (b' := match jb with Some j => BIdx (Z.of_nat j) | None => b end).
  set (L := match jb with Some _ => rev (forest_of st) | None => forest_of st end).
  assert (EL : match jb with Some _ => rev (map rid (forest_of st)) | None => map rid (forest_of st) end = map rid L)
    by (unfold L; destruct jb; [now rewrite map_rev|reflexivity]).
  rewrite EL.
  assert (Ws := WFw_tree w sti st H Gs).
  assert (InL : forall x, In x L -> In x (forest_of st)) by (unfold L; intros x Hx; destruct jb; [now apply in_rev|assumption]).
  assert (PL : Permutation L (forest_of st)) by (unfold L; destruct jb; [symmetry; apply Permutation_rev|reflexivity]).
  assert (F : Forall2 (safe ti p sti dpo w) (map rid L) (map rdid L)).
  { apply Forall2_map_same. intros x Hx. apply (safe_of_checks ti p sti dpo w t st (map rid (forest_of st)) x Gt Gs); try assumption.
    - apply Ws.
    - apply in_pre_f_top. now apply InL.
    - apply in_map. now apply InL. }
  assert (N : NoDup (map rdid L)).
  { apply (Permutation_NoDup (Permutation_map rdid (Permutation_sym PL))). apply SU_top. apply Ws. }
  destruct (add_nodes w ti p sti (map rid L) b' dpo []) as [[r|e'] w'] eqn:EA; [discriminate|].
  cbn [fst snd]. intros X. injection X as ->.
  assert (R := add_nodes_error_unchanged ti p sti b' dpo (map rid L) (map rdid L) w [] e H F N). rewrite EA in R. now apply R.
Qed.

Theorem copy_to_error_unchanged w sti src ti target add_self b deep e :
  WFw w -> fst (op_copy_to w sti src ti target add_self b deep) = Err e ->
  trees (snd (op_copy_to w sti src ti target add_self b deep)) = trees w.
Proof.
  intros H. unfold op_copy_to. destruct add_self.
  { intros E. assert (K := keeps_op_add_node w ti target sti src None None b (Some deep)). unfold keeps in K. rewrite E in K. exact K. }
  destruct (get_tree w ti) as [t|] eqn:Gt; [|reflexivity]. destruct (get_tree w sti) as [st|] eqn:Gs; [|reflexivity].
  destruct (children_of src (forest_of st)) as [[|c0 ch0]|] eqn:Gc; [reflexivity| |reflexivity].
  set (ch := c0 :: ch0) in *.
  destruct (any_collides t target st (map rid ch)) eqn:AC; [reflexivity|].
  destruct (any_into_own_branch ti sti st (map rid ch) target (Some deep)) eqn:AO; [reflexivity|].
  assert (Ws := WFw_tree w sti st H Gs).
  unfold children_of in Gc. destruct (parent_path src (forest_of st)) as [pq|] eqn:Gp; [|discriminate].
  assert (F : Forall2 (safe ti target sti (Some deep) w) (map rid ch) (map rdid ch)).
  { apply Forall2_map_same. intros x Hx. apply (safe_of_checks ti target sti (Some deep) w t st (map rid ch) x Gt Gs); try assumption.
    - apply Ws.
    - apply (get_ch_pre pq _ ch Gc). now apply in_pre_f_top.
    - now apply in_map. }
  assert (N : NoDup (map rdid ch)) by (apply SU_top; apply (SU_get pq (forest_of st)); [apply Ws|assumption]).
  destruct (add_nodes w ti target sti (map rid ch) BNone (Some deep) []) as [[r|e'] w'] eqn:EA; [discriminate|].
  cbn [fst snd]. intros X. injection X as ->.
  assert (R := add_nodes_error_unchanged ti target sti BNone (Some deep) (map rid ch) (map rdid ch) w [] e H F N). rewrite EA in R. now apply R.
Qed.

(* every operation, every error class: only a raising sort key / filter predicate leaves a partial effect *)
Theorem error_all w o e :
  WFw w -> partial_on_crash o = false -> fst (step w o) = Err e -> trees (snd (step w o)) = trees w.
Proof.
  intros H P E. destruct (multi_source o) eqn:M; [|exact (error_single w o e M P E)].
  destruct o; try discriminate M; cbn [step] in *.
  - now apply (add_tree_error_unchanged w ti p sti b deep e).
  - now apply (copy_to_error_unchanged w sti src ti target add_self b deep e).
Qed.
