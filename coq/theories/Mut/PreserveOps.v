(* Layer (c): per-operation preservation theorems, assembled from the
   sub-step lemmas of PreserveSteps.v. *)
From Coq Require Import List ZArith Bool Arith Lia Permutation.
From NT Require Import Sx Rose ListFacts RoseFacts Surgery SurgeryFacts Machine WF MachineFacts PreserveSteps.
Import ListNotations.

(* ---- add_child(data) and everything that goes through it ---- *)
Theorem WFx_op_add w ti p d explicit k b : WFw w -> WFx w (snd (op_add w ti p d explicit k b)).
Proof.
  intros H. unfold op_add.
  destruct (get_tree w ti) as [t|] eqn:Gt; [|exact (WFx_refl w H)].
  destruct (parent_path p (forest_of t)) as [pq|] eqn:Gp; [|exact (WFx_refl w H)].
  destruct (get_ch pq (forest_of t)) as [ch|] eqn:Gc; [|exact (WFx_refl w H)].
  destruct (negb (before_ok (norm_before b) ch)); [exact (WFx_refl w H)|].
  destruct (match explicit with Some e => Some e | None => calc_id (calc t) d end) as [id|]; [|now apply WFx_bump].
  destruct (collides t p id) eqn:Col; [now apply WFx_bump|].
  cbn [snd]. unfold put_tree. cbn [bump trees next].
  assert (Wt := WFw_tree w ti t H Gt).
  set (x := T (next w) (mk_info d id (default_kind t k) []) []).
  apply (WFx_put w ti t); try assumption; [|lia|].
  - apply (WF_insert t pq ch (norm_before b) x Wt Gc).
    + cbn. constructor; [intros []|constructor].
    + intros m [<-|[]]. cbn [rid]. split; [destruct H; lia|]. intros X. apply (WFw_tree_lt w ti t _ H Gt) in X. lia.
    + cbn. constructor; [constructor|intros s []].
    + intros X. assert (Y := collides_complete t p pq ch _ Wt Gp Gc X). cbn in Y. congruence.
  - intros m Hm. cbn [forest_of set_all] in Hm.
    assert (P := rows_insert_perm pq (forest_of t) ch 0 (norm_before b) x Gc).
    rewrite <- (rows_ids _ 0) in Hm. apply (Permutation_in _ (Permutation_map r_id P)) in Hm.
    rewrite map_app, rows_ids, rows_t_ids in Hm. apply in_app_or in Hm. destruct Hm as [[<-|[]]|Hm]; [right; cbn [rid]; lia|now left].
Qed.

Theorem WFw_op_add w ti p d explicit k b : WFw w -> WFw (snd (op_add w ti p d explicit k b)).
Proof. intros H0. exact (proj1 (WFx_op_add w ti p d explicit k b H0)). Qed.


Theorem WFx_op_shortcut w ti n how d explicit k : WFw w -> WFx w (snd (op_shortcut w ti n how d explicit k)).
Proof.
  intros H. unfold op_shortcut. destruct (get_tree w ti) as [t|]; [|exact (WFx_refl w H)].
  destruct how.
  - now apply WFx_op_add.
  - destruct (children_of n (forest_of t)) as [[|c l]|]; [now apply WFx_op_add|now apply WFx_op_add|exact (WFx_refl w H)].
  - destruct (parent_of n (forest_of t)); [|exact (WFx_refl w H)]. destruct (get_node n (forest_of t)); [|exact (WFx_refl w H)]. now apply WFx_op_add.
  - destruct (parent_of n (forest_of t)); [|exact (WFx_refl w H)]. destruct (node_loc n (forest_of t)) as [[[q0 i] l]|]; [|exact (WFx_refl w H)].
    destruct (get_node n (forest_of t)); [|exact (WFx_refl w H)]. now apply WFx_op_add.
Qed.

Theorem WFw_op_shortcut w ti n how d explicit k : WFw w -> WFw (snd (op_shortcut w ti n how d explicit k)).
Proof. intros H0. exact (proj1 (WFx_op_shortcut w ti n how d explicit k H0)). Qed.


(* ---- removal ---- *)
(* per-victim form of the keep_children check (a child's data_id among the other siblings); the
   machine validates with [keep_collides_all]; this local copy keeps the proofs independent of the
   unused [Machine.keep_collides] *)
Definition keep_collides (t : tstate) (n : nat) : bool :=
  match node_loc n (forest_of t) with
  | Some (_, i, l) =>
      match nth_error l i with
      | Some s => existsb (fun c => existsb (fun o => negb (Nat.eqb (rid o) n) && did_eqb (rdid o) (rdid c)) l) (rch s)
      | None => false
      end
  | None => false
  end.

Lemma detach_spec n f s f1 : detach n f = Some (s, f1) ->
  exists q0 a b, get_ch q0 f = Some (a ++ s :: b) /\ f1 = upd_ch q0 (fun _ => a ++ b) f /\ rid s = n /\ In s (pre_f f).
Proof.
  unfold detach. destruct (node_loc n f) as [[[q0 i] l]|] eqn:E; [|discriminate].
  destruct (node_loc_spec n f q0 i l E) as (G & s' & N & R & _ & P).
  rewrite N. intros X. injection X as <- <-.
  destruct (nth_error_split l i N) as (a & b & -> & <-). exists q0, a, b. repeat split; try assumption.
  rewrite (upd_ch_const q0 f _ _ G). now rewrite remove_nth_split.
Qed.

Lemma WF_remove_branch t n t' : WF t -> remove_branch t n = Some t' ->
  WF t' /\ exists s, In s (pre_f (forest_of t)) /\ rid s = n /\
                     Permutation (ids (forest_of t)) (ids_t s ++ ids (forest_of t')).
Proof.
  intros H. unfold remove_branch. destruct (detach n (forest_of t)) as [[s f1]|] eqn:E; [|discriminate].
  destruct (detach_spec n _ s f1 E) as (q0 & a & b & G & -> & R & P).
  rewrite unregister_all_eq. intros X. injection X as <-.
  destruct (WF_cut t q0 a [s] b H G) as (W1 & W2). cbn [flat_map] in W1. rewrite app_nil_r in W1.
  split; [exact W1|]. exists s. repeat split; try assumption. cbn [forest_of set_all].
  replace (ids_t s) with (ids [s]) by (unfold ids, ids_t; cbn; now rewrite app_nil_r). exact W2.
Qed.

Lemma keep_collides_spec t n q0 a s b : NoDup (ids (forest_of t)) ->
  node_loc n (forest_of t) = Some (q0, length a, a ++ s :: b) -> keep_collides t n = false ->
  forall c o, In c (rch s) -> In o (a ++ b) -> rdid o <> rdid c.
Proof.
  intros ND E K c o Hc Ho Ed. unfold keep_collides in K. rewrite E, nth_error_app_len in K.
  destruct (node_loc_spec n _ _ _ _ E) as (G & s' & N & R & _). rewrite nth_error_app_len in N. injection N as <-.
  assert (X : existsb (fun c => existsb (fun o => negb (Nat.eqb (rid o) n) && did_eqb (rdid o) (rdid c)) (a ++ s :: b)) (rch s) = true).
  { apply existsb_exists. exists c. split; [assumption|]. apply existsb_exists. exists o. split.
    - apply in_app_or in Ho. apply in_or_app. destruct Ho; [now left|right; now right].
    - apply andb_true_iff. split; [|now apply did_eqb_eq]. apply negb_true_iff, Nat.eqb_neq. intros Y.
      assert (NL := NoDup_ids_top _ (NoDup_child_list q0 _ _ ND G)). rewrite map_app in NL. cbn [map] in NL.
      apply NoDup_remove_2 in NL. apply NL. rewrite <- map_app. rewrite R, <- Y. now apply in_map. }
  congruence.
Qed.

Lemma WF_remove_keep t n t' : WF t -> keep_collides t n = false -> remove_keep t n = Some t' ->
  WF t' /\ Permutation (ids (forest_of t)) (n :: ids (forest_of t')).
Proof.
  intros H K. unfold remove_keep. destruct (node_loc n (forest_of t)) as [[[q0 i] l]|] eqn:E; [|discriminate].
  destruct (node_loc_spec n _ q0 i l E) as (G & s & N & R & _ & P). rewrite N.
  destruct (nth_error_split l i N) as (a & b & -> & <-).
  assert (Hf : upd_ch q0 (fun l => firstn (length a) l ++ rch s ++ skipn (S (length a)) l) (forest_of t)
               = upd_ch q0 (fun _ => a ++ rch s ++ b) (forest_of t)).
  { rewrite (upd_ch_const q0 _ _ _ G). destruct (firstn_skipn_split a s b) as [E1 E2]. now rewrite E1, E2. }
  rewrite Hf. intros X. injection X as <-.
  destruct (WF_splice t q0 a s b H G) as (W1 & W2).
  - apply (keep_collides_spec t n q0 a s b); [apply H|assumption|assumption].
  - rewrite <- R. split; assumption.
Qed.

Lemma remove_fold_branch victims : forall t, WF t ->
  let t' := fold_left (fun acc v => if live acc v
                                     then match remove_one acc v false with Some a => a | None => acc end
                                     else acc) victims t in
  WF t' /\ incl (ids (forest_of t')) (ids (forest_of t)).
Proof.
  induction victims as [|v vs IH]; intros t H; cbn [fold_left]; [split; [assumption|apply incl_refl]|].
  destruct (live t v); [|now apply IH]. cbn [remove_one].
  destruct (remove_branch t v) as [a|] eqn:E; [|now apply IH].
  destruct (WF_remove_branch t v a H E) as (Wa & s & _ & _ & P). destruct (IH a Wa) as (W' & I').
  split; [assumption|]. intros m Hm. apply I' in Hm. apply (Permutation_in _ (Permutation_sym P)). apply in_or_app. now right.
Qed.

(* the up-front validation of remove(keep_children=True) *)
Lemma has_dup_did_spec l : has_dup_did l = false <-> NoDup l.
Proof.
  induction l as [|d l IH]; cbn [has_dup_did]; [split; [constructor|reflexivity]|].
  rewrite orb_false_iff, IH. split.
  - intros [H1 H2]. constructor; [|assumption]. intros X.
    assert (Y : existsb (did_eqb d) l = true) by (apply existsb_exists; exists d; split; [assumption|apply did_eqb_refl]). congruence.
  - intros H. inversion H as [|x l' H1 H2]; subst. split; [|assumption].
    destruct (existsb (did_eqb d) l) eqn:E; [|reflexivity]. apply existsb_exists in E. destruct E as (y & Hy & E).
    apply did_eqb_eq in E. subst y. contradiction.
Qed.

Lemma contract_t_out V t : ~ In (rid t) V -> contract_t V t = [t].
Proof.
  destruct t as [id i ch]. cbn [contract_t rid]. intros H.
  destruct (existsb (Nat.eqb id) V) eqn:E; [|reflexivity]. apply existsb_exists in E. destruct E as (y & Hy & E).
  apply Nat.eqb_eq in E. subst y. contradiction.
Qed.

Lemma contract_t_in V t : In (rid t) V -> contract_t V t = flat_map (contract_t V) (rch t).
Proof.
  destruct t as [id i ch]. cbn [contract_t rid rch]. intros H.
  destruct (existsb (Nat.eqb id) V) eqn:E; [reflexivity|].
  assert (Y : existsb (Nat.eqb id) V = true) by (apply existsb_exists; exists id; split; [assumption|apply Nat.eqb_refl]). congruence.
Qed.

Lemma contract_out V l : (forall x, In x l -> ~ In (rid x) V) -> flat_map (contract_t V) l = l.
Proof.
  induction l as [|x l IH]; intros H; [reflexivity|]. cbn [flat_map]. rewrite contract_t_out, IH; [reflexivity| |].
  - intros y Hy. apply H. now right.
  - apply H. now left.
Qed.

Lemma keep_all_single t n : NoDup (ids (forest_of t)) -> keep_collides_all t [n] n = false -> keep_collides t n = false.
Proof.
  intros ND K. unfold keep_collides_all in K. unfold keep_collides.
  destruct (node_loc n (forest_of t)) as [[[q0 i] l]|] eqn:E; [|reflexivity].
  destruct (node_loc_spec n _ _ _ _ E) as (G & s & N & R & _). rewrite N.
  destruct (nth_error_split l i N) as (a & b & -> & <-).
  apply has_dup_did_spec in K.
  assert (NL := NoDup_child_list q0 _ _ ND G). rewrite ids_app, ids_cons in NL.
  assert (Hs : ~ In n (ids (rch s))).
  { apply NoDup_app_r in NL. inversion NL as [|x l' H1 H2]; subst. intros X. apply H1. apply in_or_app. now left. }
  assert (Hab : forall x, In x (a ++ b) -> rid x <> n).
  { intros x Hx Ex. apply in_app_or in Hx. destruct Hx as [Hx|Hx].
    - apply (NoDup_app_disj _ _ n NL); [|rewrite <- R; now left]. rewrite <- Ex. now apply incl_top_ids, in_map.
    - apply NoDup_app_r in NL. inversion NL as [|y l' H1 H2]; subst. apply H1. apply in_or_app. right.
      rewrite <- Ex. now apply incl_top_ids, in_map. }
  rewrite flat_map_in_split in K. rewrite (contract_t_in [n] s) in K by (rewrite R; now left).
  rewrite !contract_out in K.
  2:{ intros x Hx [X|[]]. apply (Hab x); [apply in_or_app; now right|congruence]. }
  2:{ intros x Hx [X|[]]. apply Hs. rewrite X. now apply incl_top_ids, in_map. }
  2:{ intros x Hx [X|[]]. apply (Hab x); [apply in_or_app; now left|congruence]. }
  destruct (existsb _ (rch s)) eqn:X; [|reflexivity]. exfalso.
  apply existsb_exists in X. destruct X as (c & Hc & X). apply existsb_exists in X. destruct X as (o & Ho & X).
  apply andb_true_iff in X. destruct X as [X1 X2]. apply negb_true_iff, Nat.eqb_neq in X1. apply did_eqb_eq in X2.
  rewrite !map_app in K. apply in_app_or in Ho. destruct Ho as [Ho|[<-|Ho]]; [| congruence |].
  - apply (NoDup_app_disj _ _ (rdid c) K); [rewrite <- X2; now apply in_map|]. apply in_or_app. left. now apply in_map.
  - apply NoDup_app_r in K. apply (NoDup_app_disj _ _ (rdid c) K); [now apply in_map|rewrite <- X2; now apply in_map].
Qed.

(* remove(), except the combination keep_children + with_clones *)
Theorem WFx_op_remove w ti n keep wc : WFw w -> keep && wc = false -> WFx w (snd (op_remove w ti n keep wc)).
Proof.
  intros H Hk. unfold op_remove. destruct (get_tree w ti) as [t|] eqn:Gt; [|exact (WFx_refl w H)].
  destruct (did_of n (forest_of t)) as [d|]; [|exact (WFx_refl w H)].
  assert (Wt := WFw_tree w ti t H Gt).
  match goal with |- context [if ?c then (Err EUnique, w) else _] => destruct c eqn:Col end; [exact (WFx_refl w H)|].
  cbn [snd]. unfold put_tree. destruct keep.
  - cbn [andb] in Hk. subst wc. cbn [andb] in Col. cbn [existsb] in Col. rewrite orb_false_r in Col.
    apply keep_all_single in Col; [|apply Wt].
    cbn [fold_left]. destruct (live t n).
    + cbn [remove_one]. destruct (remove_keep t n) as [a|] eqn:E.
      * destruct (WF_remove_keep t n a Wt Col E) as (Wa & P). apply (WFx_put w ti t); auto.
        intros m Hm. left. apply (Permutation_in _ (Permutation_sym P)). now right.
      * apply (WFx_put w ti t); auto.
    + apply (WFx_put w ti t); auto.
  - match goal with |- context [fold_left ?f ?vs t] => destruct (remove_fold_branch vs t Wt) as (W' & I') end.
    apply (WFx_put w ti t); auto.
Qed.

Theorem WFw_op_remove w ti n keep wc : WFw w -> keep && wc = false -> WFw (snd (op_remove w ti n keep wc)).
Proof. intros H0 H1. exact (proj1 (WFx_op_remove w ti n keep wc H0 H1)). Qed.


Theorem WFx_op_remove_children w ti n : WFw w -> WFx w (snd (op_remove_children w ti n)).
Proof.
  intros H. unfold op_remove_children. destruct (get_tree w ti) as [t|] eqn:Gt; [|exact (WFx_refl w H)].
  destruct (parent_path n (forest_of t)) as [pq|]; [|exact (WFx_refl w H)].
  destruct (get_ch pq (forest_of t)) as [ch|] eqn:G; [|exact (WFx_refl w H)].
  rewrite unregister_all_eq. cbn [snd]. unfold put_tree.
  assert (Wt := WFw_tree w ti t H Gt).
  assert (G' : get_ch pq (forest_of t) = Some ([] ++ ch ++ [])) by (now rewrite app_nil_r).
  destruct (WF_cut t pq [] ch [] Wt G') as (W1 & W2). cbn [app] in W1, W2.
  apply (WFx_put w ti t); auto.
  intros m Hm. left. apply (Permutation_in _ (Permutation_sym W2)). apply in_or_app. now right.
Qed.

Theorem WFw_op_remove_children w ti n : WFw w -> WFw (snd (op_remove_children w ti n)).
Proof. intros H0. exact (proj1 (WFx_op_remove_children w ti n H0)). Qed.


(* ---- move_to ---- *)
Lemma WF_move_in t n target nb t' s tch cur :
  WF t -> move_in t n target nb = Some t' ->
  get_node n (forest_of t) = Some s -> children_of target (forest_of t) = Some tch ->
  parent_of n (forest_of t) = Some cur ->
  negb (Nat.eqb cur target) && existsb (fun c => did_eqb (rdid c) (rdid s)) tch = false ->
  WF t' /\ Permutation (ids (forest_of t)) (ids (forest_of t')).
Proof.
  intros H M Gn Gc Gp U. unfold move_in in M. set (f := forest_of t) in *.
  destruct (detach n f) as [[s' f1]|] eqn:D; [|discriminate].
  destruct (detach_spec n f s' f1 D) as (q0 & a & b & G & -> & R & P).
  destruct (get_node_spec n f s Gn) as (Ps & Rs).
  assert (s' = s) by (apply (node_unique f); auto; [apply H|congruence]). subst s'.
  set (f1 := upd_ch q0 (fun _ => a ++ b) f) in *.
  destruct (parent_path target f1) as [pq|] eqn:Pp; [|discriminate]. injection M as <-.
  destruct (parent_path_get target f1 pq Pp) as (tch1 & G1).
  apply (WF_relink t q0 a s b pq tch1 nb H G G1).
  (* the moved node's data_id does not occur among its new siblings *)
  intros X. apply in_map_iff in X. destruct X as (x & Ex & Hx).
  assert (ND := wf_nodup t H). assert (Z := wf_pos t H). fold f in ND, Z.
  assert (P1 := rows_cut_perm q0 f a [s] b 0 G). fold f1 in P1. rewrite rows_single in P1.
  assert (Row1 : In (target, rid x, rinfo x) (rows 0 f)).
  { apply (Permutation_in _ (Permutation_sym P1)). apply in_or_app. right.
    rewrite <- (parent_path_owner target f1 pq tch1 Pp G1). now apply rows_child_in with (ch := tch1). }
  unfold children_of in Gc. destruct (parent_path target f) as [pq0|] eqn:Pp0; [|discriminate].
  assert (O0 := parent_path_owner target f pq0 tch Pp0 Gc).
  rewrite <- O0 in Row1. destruct (rows_owner_member pq0 f tch _ _ ND Z Gc Row1) as (x' & Hx' & Rx' & Ix').
  assert (Dx' : rdid x' = rdid s) by (unfold rdid in *; congruence).
  destruct (Nat.eqb cur target) eqn:Ec.
  - apply Nat.eqb_eq in Ec. subst cur.
    assert (Row0 : In (owner q0 f 0, n, rinfo s) (rows 0 f)).
    { apply (Permutation_in _ (Permutation_sym P1)). apply in_or_app. left. rewrite rows_t_unfold, Rs. now left. }
    apply (parent_of_rows n f target ND) in Gp. destruct Gp as (inf & Rowp).
    assert (Eq := rows_id_unique f 0 _ _ ND Rowp Row0 eq_refl). injection Eq as Eo Ei.
    rewrite <- Eo, <- O0 in Row0. destruct (rows_owner_member pq0 f tch _ _ ND Z Gc Row0) as (s2 & Hs2 & Rs2 & Is2).
    assert (Ds2 : rdid s2 = rdid s) by (unfold rdid; congruence).
    assert (Su := SU_top _ (SU_get pq0 f tch (wf_su t H) Gc)).
    assert (x' = s2) by (apply (NoDup_map_inj rdid tch); auto; congruence). subst s2.
    (* rid x = n, but x is in f1 and n is in the detached branch *)
    assert (NN : NoDup (map r_id (rows_t (owner q0 f 0) s ++ rows 0 f1))).
    { rewrite <- (Permutation_map r_id P1), rows_ids. exact ND. }
    rewrite map_app, rows_t_ids, rows_ids in NN. apply (NoDup_app_disj _ _ n NN).
    + rewrite <- Rs. unfold ids_t. apply in_map. apply pre_in_self.
    + rewrite <- Rs2, Rx'. unfold ids. apply in_map. apply (get_ch_pre pq f1 tch1 G1). now apply in_pre_f_top.
  - cbn [negb andb] in U. assert (Y : existsb (fun c => did_eqb (rdid c) (rdid s)) tch = true).
    { apply existsb_exists. exists x'. split; [assumption|]. now apply did_eqb_eq. }
    congruence.
Qed.

Theorem WFx_op_move w ti n tti target b : WFw w -> WFx w (snd (op_move w ti n tti target b)).
Proof.
  intros H. unfold op_move. destruct (get_tree w ti) as [t|] eqn:Gt; [|exact (WFx_refl w H)].
  destruct (typed t); [exact (WFx_refl w H)|]. destruct (negb (Nat.eqb ti tti)); [exact (WFx_refl w H)|].
  destruct (get_node n (forest_of t)) as [s|] eqn:Gn; [|exact (WFx_refl w H)].
  destruct (children_of target (forest_of t)) as [tch|] eqn:Gc; [|exact (WFx_refl w H)].
  destruct (parent_of n (forest_of t)) as [cur|] eqn:Gp; [|exact (WFx_refl w H)].
  destruct (is_desc_or_self n target (forest_of t)); [exact (WFx_refl w H)|].
  destruct (negb (before_ok (norm_before b) tch)); [exact (WFx_refl w H)|].
  match goal with |- context [if ?c then (Err EUnique, w) else _] => destruct c eqn:U end; [exact (WFx_refl w H)|].
  match goal with |- context [if ?c then (Ok [], w) else _] => destruct c end; [exact (WFx_refl w H)|].
  destruct (move_in t n target (norm_before b)) as [t'|] eqn:M; [|exact (WFx_refl w H)].
  cbn [snd]. unfold put_tree. assert (Wt := WFw_tree w ti t H Gt).
  destruct (WF_move_in t n target _ t' s tch cur Wt M Gn Gc Gp U) as (W' & P).
  apply (WFx_put w ti t); auto. intros m Hm. left. now apply (Permutation_in _ (Permutation_sym P)).
Qed.

Theorem WFw_op_move w ti n tti target b : WFw w -> WFw (snd (op_move w ti n tti target b)).
Proof. intros H0. exact (proj1 (WFx_op_move w ti n tti target b H0)). Qed.


(* ---- metadata ---- *)
Theorem WFx_op_meta w ti n o : WFw w -> WFx w (snd (op_meta w ti n o)).
Proof.
  intros H. unfold op_meta. destruct (get_tree w ti) as [t|] eqn:Gt; [|exact (WFx_refl w H)].
  destruct (live t n); [|exact (WFx_refl w H)]. cbn [snd]. unfold put_tree. assert (Wt := WFw_tree w ti t H Gt).
  destruct (node_loc n (forest_of t)) as [[[q0 i] l]|] eqn:E.
  - destruct (set_info_at_spec n (fun i0 => set_meta_i (apply_meta o (i_meta i0)) i0) _ q0 i l E) as (a & s & b & -> & _ & R & G & ->).
    rewrite <- R. destruct (WF_relabel_same t q0 a s b (set_meta_i (apply_meta o (i_meta (rinfo s))) (rinfo s)) Wt G eq_refl) as (W' & Ei).
    apply (WFx_put w ti t); [exact H|exact Gt|exact W'|lia|].
    intros m Hm. left. cbn [forest_of set_forest] in Hm. now rewrite Ei in Hm.
  - rewrite set_info_at_none by assumption. replace (set_forest t (forest_of t)) with t by (now destruct t).
    apply (WFx_put w ti t); auto.
Qed.

Theorem WFw_op_meta w ti n o : WFw w -> WFw (snd (op_meta w ti n o)).
Proof. intros H0. exact (proj1 (WFx_op_meta w ti n o H0)). Qed.

