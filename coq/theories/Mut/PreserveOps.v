(* Layer (c): per-operation preservation theorems, assembled from the
   sub-step lemmas of PreserveSteps.v. *)
From Coq Require Import List ZArith Bool Arith Lia Permutation.
From NT Require Import Sx Rose ListFacts RoseFacts Surgery SurgeryFacts Machine WF MachineFacts PreserveSteps.
Import ListNotations.

(* ---- add_child(data) and everything that goes through it ---- *)
Theorem WFw_op_add w ti p d explicit k b : WFw w -> WFw (snd (op_add w ti p d explicit k b)).
Proof.
  intros H. unfold op_add.
  destruct (get_tree w ti) as [t|] eqn:Gt; [|exact H].
  destruct (parent_path p (forest_of t)) as [pq|] eqn:Gp; [|exact H].
  destruct (get_ch pq (forest_of t)) as [ch|] eqn:Gc; [|exact H].
  destruct (negb (before_ok (norm_before b) ch)); [exact H|].
  destruct (match explicit with Some e => Some e | None => calc_id (calc t) d end) as [id|]; [|now apply WFw_bump].
  destruct (collides t p id) eqn:Col; [now apply WFw_bump|].
  cbn [snd]. unfold put_tree. cbn [bump trees next].
  assert (Wt := WFw_tree w ti t H Gt).
  set (x := T (next w) (mk_info d id (default_kind t k) []) []).
  apply (WFw_put w ti t); try assumption; [|lia|].
  - apply (WF_insert t pq ch (norm_before b) x Wt Gc).
    + cbn. constructor; [intros []|constructor].
    + intros m [<-|[]]. cbn [rid]. split; [destruct H; lia|]. intros X. apply (WFw_tree_lt w ti t _ H Gt) in X. lia.
    + cbn. constructor; [constructor|intros s []].
    + intros X. assert (Y := collides_complete t p pq ch _ Wt Gp Gc X). cbn in Y. congruence.
  - intros m Hm. cbn [forest_of set_all] in Hm.
    assert (P := rows_insert_perm pq (forest_of t) ch 0 (norm_before b) x Gc).
    rewrite <- (rows_ids _ 0) in Hm. apply (Permutation_in _ (Permutation_map r_id P)) in Hm.
    rewrite map_app, rows_ids, rows_t_ids in Hm. apply in_app_or in Hm. destruct Hm as [[<-|[]]|Hm]; [right; cbn [rid]; lia|now left].
Qed.
