(* C13, refusal half: every exit [Err e] of the mutation machine is taken
   before the first [put_tree], so the trees of the world (forest, registry,
   index of every tree) are literally unchanged; only the allocation counter
   may have advanced (a Node object was constructed and dropped).

   Two exits do keep a partial effect, both only for an exception escaping
   from a user callback (class ECrash): sort (a key raised after some child
   lists were already reordered) and the in-place filter (the predicate raised
   after some removals were already executed).  They are characterised in
   Faults.v.

   The operations that copy several sources one after the other (add(tree),
   copy_to(add_self=False)) validate all sources up front and then call
   add_child(node) per source; that no later call can be refused needs the
   well-formedness of the world (two top nodes of a source never share a
   data_id ...) and is proved in RefusalMulti.v. *)
From Coq Require Import List ZArith Bool Arith Lia.
From NT Require Import Sx Rose Surgery Machine.
Import ListNotations.

(* the classes the repaired code raises as refusals:
   UniqueConstraintError, AmbiguousMatchError, ValueError, NotImplementedError *)
Definition library_error (e : nat) : bool :=
  Nat.eqb e EUnique || Nat.eqb e EAmbiguous || Nat.eqb e EValue || Nat.eqb e ENotImpl.

(* [keeps w r]: if r is an error exit, the trees are those of w *)
Definition keeps (w : world) (r : res * world) : Prop :=
  match fst r with Err _ => trees (snd r) = trees w | Ok _ => True end.

(* the same, except on the ECrash exit *)
Definition keeps_nc (w : world) (r : res * world) : Prop :=
  match fst r with Err e => e <> ECrash -> trees (snd r) = trees w | Ok _ => True end.

Lemma keeps_weaken w r : keeps w r -> keeps_nc w r.
Proof. unfold keeps, keeps_nc. destruct (fst r); auto. Qed.

Ltac brk :=
  repeat (cbn [fst snd];
          match goal with
          | |- context [match ?x with _ => _ end] =>
              lazymatch x with
              | context [match _ with _ => _ end] => fail
              | _ => destruct x eqn:?
              end
          end).

Ltac fin := cbn [fst snd trees bump]; try exact Logic.I; try reflexivity.

Lemma keeps_op_add w ti p d e k b : keeps w (op_add w ti p d e k b).
Proof. unfold keeps, op_add. brk; fin. Qed.

Lemma keeps_op_add_node w ti p sti src e k b deep : keeps w (op_add_node w ti p sti src e k b deep).
Proof. unfold keeps, op_add_node. brk; fin. Qed.

Lemma keeps_op_tree_copy w sti : keeps w (op_tree_copy w sti).
Proof. unfold keeps, op_tree_copy. brk; fin. Qed.

Lemma keeps_op_node_copy w sti src a : keeps w (op_node_copy w sti src a).
Proof.
  unfold keeps, op_node_copy. destruct (get_tree w sti) as [st|]; [|reflexivity].
  destruct (get_node src (forest_of st)) as [s|]; [|reflexivity].
  destruct (copy_f _ _ _ _) as [kids0 n']. destruct (register_all _ _ _). cbn [fst]. exact Logic.I.
Qed.

Lemma keeps_op_move w ti n tti target b : keeps w (op_move w ti n tti target b).
Proof. unfold keeps, op_move. brk; fin. Qed.

Lemma keeps_op_remove w ti n keep wc : keeps w (op_remove w ti n keep wc).
Proof. unfold keeps, op_remove. brk; fin. Qed.

Lemma keeps_op_remove_children w ti n : keeps w (op_remove_children w ti n).
Proof. unfold keeps, op_remove_children. brk; fin. Qed.

Lemma keeps_op_set_data w ti n d e wc : keeps w (op_set_data w ti n d e wc).
Proof. unfold keeps, op_set_data. brk; fin. Qed.

Lemma keeps_op_rename w ti n d : keeps w (op_rename w ti n d).
Proof.
  unfold op_rename. destruct (get_tree w ti); [|reflexivity]. destruct (get_node n (forest_of t)); [|reflexivity].
  destruct (i_isstr (rinfo r)); [apply keeps_op_set_data|reflexivity].
Qed.

Lemma keeps_op_meta w ti n o : keeps w (op_meta w ti n o).
Proof. unfold keeps, op_meta. brk; fin. Qed.

Lemma keeps_op_shortcut w ti n how d e k : keeps w (op_shortcut w ti n how d e k).
Proof.
  unfold op_shortcut. destruct (get_tree w ti); [|reflexivity].
  destruct how; brk; try apply keeps_op_add; reflexivity.
Qed.

Lemma keeps_op_del w ti k : keeps w (op_del w ti k).
Proof.
  unfold op_del. destruct (get_tree w ti); [|reflexivity].
  destruct (getitem t k) as [[|n [|m l]]|]; try reflexivity. apply keeps_op_remove.
Qed.

Lemma keeps_op_from_dict w ti p items : keeps w (op_from_dict w ti p items).
Proof. unfold keeps, op_from_dict. brk; fin. Qed.

Lemma keeps_op_tree_from_dict w items : keeps w (op_tree_from_dict w items).
Proof. unfold keeps, op_tree_from_dict. brk; fin. Qed.

(* sort and filter: the only error exits besides the callback fault are model-level *)
Lemma keeps_nc_op_sort w ti p k r dp : keeps_nc w (op_sort w ti p k r dp).
Proof.
  unfold keeps_nc, op_sort. brk; fin; cbn [fst snd]; intros X; try reflexivity; now contradiction X.
Qed.

Lemma keeps_nc_op_filter w ti n vd : keeps_nc w (op_filter w ti n vd).
Proof.
  unfold keeps_nc, op_filter. brk; fin; cbn [fst snd]; intros X; try reflexivity; now contradiction X.
Qed.

(* copy_to(add_self=True) is add_child(node) *)
Lemma keeps_op_copy_to_self w sti src ti target b deep : keeps w (op_copy_to w sti src ti target true b deep).
Proof. unfold op_copy_to. apply keeps_op_add_node. Qed.

(* ---- operations with a single validation phase ---- *)
Definition multi_source (o : op) : bool :=
  match o with
  | OAddTree _ _ _ _ _ => true
  | OCopyTo _ _ _ _ add_self _ _ => negb add_self
  | _ => false
  end.

Theorem step_keeps w o : multi_source o = false -> keeps_nc w (step w o).
Proof.
  intros M. destruct o; cbn [step]; try discriminate M.
  - apply keeps_weaken, keeps_op_add.
  - apply keeps_weaken, keeps_op_shortcut.
  - apply keeps_weaken, keeps_op_add_node.
  - cbn [multi_source] in M. destruct add_self; [|discriminate M]. apply keeps_weaken, keeps_op_copy_to_self.
  - apply keeps_weaken, keeps_op_tree_copy.
  - apply keeps_weaken, keeps_op_node_copy.
  - apply keeps_weaken, keeps_op_move.
  - apply keeps_weaken, keeps_op_remove.
  - apply keeps_weaken, keeps_op_remove_children.
  - apply keeps_nc_op_sort.
  - apply keeps_weaken, keeps_op_set_data.
  - apply keeps_weaken, keeps_op_rename.
  - apply keeps_weaken, keeps_op_meta.
  - exact Logic.I.
  - apply keeps_weaken. unfold op_clear. apply keeps_op_remove_children.
  - apply keeps_weaken, keeps_op_del.
  - apply keeps_nc_op_filter.
  - apply keeps_weaken, keeps_op_from_dict.
  - apply keeps_weaken, keeps_op_tree_from_dict.
Qed.

Lemma library_not_crash e : library_error e = true -> e <> ECrash.
Proof. intros H ->. discriminate H. Qed.

Lemma trees_sx_world w w' : trees w' = trees w -> sx_world w' = sx_world w.
Proof. unfold sx_world. now intros ->. Qed.

(* a refusal of any single-phase operation, in ANY world (well-formed or not) *)
Theorem refusal_single w o e :
  multi_source o = false -> fst (step w o) = Err e -> e <> ECrash -> trees (snd (step w o)) = trees w.
Proof.
  intros M E C. assert (K := step_keeps w o M). unfold keeps_nc in K. rewrite E in K. now apply K.
Qed.

(* every error exit other than sort/filter's callback fault - also ECrash from
   calc_data_id (add, set_data, rename, del, from_dict), TypeError, KeyError,
   the assertion of from_dict - leaves the trees unchanged *)
Definition partial_on_crash (o : op) : bool :=
  match o with OSort _ _ _ _ _ | OFilter _ _ _ => true | _ => false end.

Theorem error_single w o e :
  multi_source o = false -> partial_on_crash o = false -> fst (step w o) = Err e -> trees (snd (step w o)) = trees w.
Proof.
  intros M P E. destruct o; try discriminate P; cbn [step] in *;
  match goal with |- trees (snd ?r) = _ => assert (K : keeps w r) end;
  try (unfold keeps in K; rewrite E in K; exact K).
  - apply keeps_op_add.
  - apply keeps_op_shortcut.
  - apply keeps_op_add_node.
  - discriminate M.
  - cbn [multi_source] in M. destruct add_self; [|discriminate M]. apply keeps_op_copy_to_self.
  - apply keeps_op_tree_copy.
  - apply keeps_op_node_copy.
  - apply keeps_op_move.
  - apply keeps_op_remove.
  - apply keeps_op_remove_children.
  - apply keeps_op_set_data.
  - apply keeps_op_rename.
  - apply keeps_op_meta.
  - exact Logic.I.
  - unfold op_clear. apply keeps_op_remove_children.
  - apply keeps_op_del.
  - apply keeps_op_from_dict.
  - apply keeps_op_tree_from_dict.
Qed.
