(* Explicit node ids (audit C01 F1 / C02 F3, top-15 item 8).
   Machine.v identifies a node's [node_id] with its allocation index: [reg : list nat] IS the list of nodes, a registry
   that maps a key to a DIFFERENT node is not representable, and the public argument `add_child(..., node_id=k)` is
   not an operation.  This file adds it, additively (Machine.v's [op] and [step] are untouched, as for MachineLoad):
     - a world carries, next to the machine's world, the table of explicit keys [kkeys : node -> Z];
       the key of a node is [KExp z] when it was created with node_id=z, else [KAuto n] (= id(node): the object's
       address, distinct for distinct live objects).  ASSUMED: an explicit node_id never equals the address of a live
       node object of the same tree (constructor disjointness KAuto/KExp).
     - [KAddId] = add_child(data, node_id=z): Node.__init__ computes the data_id, then Tree._register FIRST asserts
       `node._node_id and node._node_id not in self._node_by_id` (tree.py:204), then tests sibling uniqueness.  So a key
       that is 0 or is the key of a node registered in THAT tree is refused with the assertion error - after the
       `before` validation and a raising calc_data_id, before the uniqueness error - and the node object has been
       allocated (the allocator moves, nothing else).
     - every other operation creates nodes with automatic keys and leaves the table alone (add(node), copies,
       from_dict items without "node_id", load).
   Proved: the keys registered in one tree are pairwise different after every history ([WFk], [keys_nodup]); the
   lookup by key finds exactly the live node carrying it ([lk_key_exact]); the refusal ([add_id_refused]); what a
   successful call does ([add_id_ok]).  The refusal rests on an `assert`: under `python -O` the library accepts the
   duplicate (count 1, two reachable nodes); the correspondence (Cases/CaseNodeId.v, harness/mut_c01_nid.py) runs
   without -O and fails if the assertion is deleted.
   NOT modelled: node_id= on the four shortcuts (they forward to add_child), on add(node) (always ValueError), the
   "node_id" key of from_dict items, non-int node ids (int(node_id) conversion). *)
From Coq Require Import List ZArith Bool Arith Lia Permutation.
From NT Require Import Sx Rose Surgery Machine WF PreserveSteps Invariant Effects FrameTrees.
Import ListNotations.

Definition keymap := list (nat * Z).
Fixpoint km_get (km : keymap) (n : nat) : option Z :=
  match km with
  | [] => None
  | (m, z) :: r => if Nat.eqb m n then Some z else km_get r n
  end.

Inductive nkey := KAuto (n : nat) | KExp (z : Z).
Definition nkey_eqb (a b : nkey) : bool :=
  match a, b with KAuto n, KAuto m => Nat.eqb n m | KExp x, KExp y => Z.eqb x y | _, _ => false end.
Lemma nkey_eqb_eq a b : nkey_eqb a b = true <-> a = b.
Proof.
  destruct a, b; cbn; try (split; [discriminate|intros X; discriminate X]).
  - rewrite Nat.eqb_eq. split; [now intros ->|now intros [= ->]].
  - rewrite Z.eqb_eq. split; [now intros ->|now intros [= ->]].
Qed.

Definition nkey_of (km : keymap) (n : nat) : nkey := match km_get km n with Some z => KExp z | None => KAuto n end.

Record worldk := WK { kbase : world; kkeys : keymap }.
Definition empty_worldk : worldk := WK empty_world [].

(* `node._node_id` falsy, or already a key of this tree's registry *)
Definition key_taken (km : keymap) (t : tstate) (z : Z) : bool :=
  Z.eqb z 0 || existsb (fun n => match km_get km n with Some z' => Z.eqb z' z | None => false end) (reg t).

Definition op_add_id (wk : worldk) (ti p : nat) (d : dat) (e : option did) (k : kind) (b : before) (z : Z) : res * worldk :=
  let w := kbase wk in
  match get_tree w ti with
  | None => (Err EModel, wk)
  | Some t =>
      match op_add w ti p d e k b with
      | (Ok [n], w') => if key_taken (kkeys wk) t z then (Err EAssert, WK (bump w 1) (kkeys wk))
                        else (Ok [n], WK w' ((n, z) :: kkeys wk))
      | (Ok _, _) => (Err EModel, wk)
      | (Err x, w') => if Nat.eqb x EUnique && key_taken (kkeys wk) t z then (Err EAssert, WK w' (kkeys wk))
                       else (Err x, WK w' (kkeys wk))
      end
  end.

Inductive opk :=
| KOp (o : op)
| KAddId (ti p : nat) (d : dat) (e : option did) (k : kind) (b : before) (z : Z).

Definition step_k (wk : worldk) (o : opk) : res * worldk :=
  match o with
  | KOp o => let (r, w') := step (kbase wk) o in (r, WK w' (kkeys wk))
  | KAddId ti p d e k b z => op_add_id wk ti p d e k b z
  end.
Definition run_k (ops : list opk) (wk : worldk) : worldk := fold_left (fun w o => snd (step_k w o)) ops wk.

(* Tree.find(node_id=k) / tree[k]: `_node_by_id.get(k)` *)
Definition lk_key (km : keymap) (t : tstate) (key : nkey) : option nat :=
  find (fun n => nkey_eqb (nkey_of km n) key) (reg t).

(* ---- the invariant ---- *)
Record WFk (wk : worldk) : Prop := {
  wk_base  : WFw (kbase wk);
  wk_alloc : forall n z, km_get (kkeys wk) n = Some z -> n < next (kbase wk) /\ z <> 0%Z;
  wk_uniq  : forall t n m z, In t (trees (kbase wk)) -> In n (reg t) -> In m (reg t) ->
               km_get (kkeys wk) n = Some z -> km_get (kkeys wk) m = Some z -> n = m
}.

Lemma WFk_empty : WFk empty_worldk.
Proof. split; [exact WFw_empty|intros n z X; discriminate X|intros t n m z []]. Qed.

Lemma NoDup_map_inj_in {X Y} (f : X -> Y) : forall l, (forall x y, In x l -> In y l -> f x = f y -> x = y) -> NoDup l -> NoDup (map f l).
Proof.
  induction l as [|a l IH]; intros Hi Hn; [constructor|]. inversion Hn as [|? ? Na Nl]; subst. cbn [map]. constructor.
  - intros Hin. apply in_map_iff in Hin. destruct Hin as (y & Ey & Hy). apply Na.
    rewrite <- (Hi y a (or_intror Hy) (or_introl eq_refl) Ey). exact Hy.
  - apply IH; [|exact Nl]. intros x y Hx Hy. apply Hi; now right.
Qed.

(* the headline: within one tree no two registered nodes have the same node_id *)
Theorem keys_nodup wk t : WFk wk -> In t (trees (kbase wk)) -> NoDup (map (nkey_of (kkeys wk)) (reg t)).
Proof.
  intros H Ht. assert (Wt : WF t) by (exact (proj1 (Forall_forall _ _) (ww_trees _ (wk_base _ H)) t Ht)).
  apply NoDup_map_inj_in.
  - intros x y Hx Hy. unfold nkey_of. destruct (km_get (kkeys wk) x) as [zx|] eqn:Ex; destruct (km_get (kkeys wk) y) as [zy|] eqn:Ey; intros E; try discriminate E.
    + injection E as ->. exact (wk_uniq _ H t x y zy Ht Hx Hy Ex Ey).
    + now injection E.
  - apply (Permutation_NoDup (Permutation_sym (wf_reg t Wt))). apply (wf_nodup t Wt).
Qed.

Theorem lk_key_exact wk t key n : WFk wk -> In t (trees (kbase wk)) ->
  (lk_key (kkeys wk) t key = Some n <-> In n (ids (forest_of t)) /\ nkey_of (kkeys wk) n = key).
Proof.
  intros H Ht. assert (Wt : WF t) by (exact (proj1 (Forall_forall _ _) (ww_trees _ (wk_base _ H)) t Ht)).
  assert (ND := keys_nodup wk t H Ht). unfold lk_key. split.
  - intros F. apply find_some in F. destruct F as [F1 F2]. apply nkey_eqb_eq in F2. split; [|exact F2].
    apply (Permutation_in _ (wf_reg t Wt)). exact F1.
  - intros [Hn Hk]. apply (Permutation_in _ (Permutation_sym (wf_reg t Wt))) in Hn. revert ND Hn. generalize (reg t) as l.
    induction l as [|a l IH]; intros ND Hn; [contradiction|]. cbn [find]. cbn [map] in ND. inversion ND as [|? ? Na Nl]; subst.
    destruct (nkey_eqb (nkey_of (kkeys wk) a) (nkey_of (kkeys wk) n)) eqn:E.
    + apply nkey_eqb_eq in E. destruct Hn as [->|Hn]; [reflexivity|]. exfalso. apply Na. rewrite E. now apply in_map.
    + destruct Hn as [->|Hn]; [|now apply IH]. assert (X : nkey_eqb (nkey_of (kkeys wk) n) (nkey_of (kkeys wk) n) = true) by now apply nkey_eqb_eq.
      congruence.
Qed.

(* ---- preservation ---- *)
Lemma in_tree_get w t : In t (trees w) -> exists j, get_tree w j = Some t.
Proof. intros H. apply In_nth_error in H. exact H. Qed.

Lemma get_tree_in w j t : get_tree w j = Some t -> In t (trees w).
Proof. unfold get_tree. apply nth_error_In. Qed.

Lemma get_tree_lt w j t : get_tree w j = Some t -> j < length (trees w).
Proof. unfold get_tree. intros H. apply nth_error_Some. congruence. Qed.

Lemma in_all_ids w j t n : get_tree w j = Some t -> In n (ids (forest_of t)) -> In n (all_ids w).
Proof. intros G Hn. apply in_flat_map. exists t. split; [now apply (get_tree_in w j)|exact Hn]. Qed.

Lemma all_ids_tree w n : In n (all_ids w) -> exists j t, get_tree w j = Some t /\ In n (ids (forest_of t)).
Proof.
  intros H. apply in_flat_map in H. destruct H as (t & Ht & Hn). destruct (in_tree_get w t Ht) as (j & G). now exists j, t.
Qed.

(* two old nodes that share a tree after a step shared a tree before it *)
Lemma same_tree_before w o t' n m : WFw w -> In t' (trees (snd (step w o))) ->
  In n (ids (forest_of t')) -> In m (ids (forest_of t')) -> n < next w -> m < next w ->
  exists t, In t (trees w) /\ In n (ids (forest_of t)) /\ In m (ids (forest_of t)).
Proof.
  intros H Ht' Hn Hm Ln Lm. set (w' := snd (step w o)) in *.
  assert (H' : WFw w') by (apply WFw_step; exact H).
  destruct (WFx_step w o H) as (_ & _ & Fr). destruct (in_tree_get w' t' Ht') as (j & Gj).
  assert (On : In n (all_ids w)) by (destruct (Fr n (in_all_ids w' j t' n Gj Hn)) as [X|X]; [exact X|fold w' in X; lia]).
  assert (Om : In m (all_ids w)) by (destruct (Fr m (in_all_ids w' j t' m Gj Hm)) as [X|X]; [exact X|lia]).
  destruct (all_ids_tree w n On) as (a & ta & Ga & Na). destruct (all_ids_tree w m Om) as (b & tb & Gb & Nb).
  destruct (Nat.eq_dec a b) as [->|Ne]; [rewrite Gb in Ga; injection Ga as <-; exists tb; split; [now apply (get_tree_in w b)|now split]|].
  exfalso. destruct (step_frame_trees w o) as (_ & Ext). fold w' in Ext.
  (* x lives in the old tree c which the step does not work on, and y in the old tree c' <> c: impossible *)
  assert (Key : forall c c' tc tc' x y, c <> c' -> c <> op_target w o -> get_tree w c = Some tc -> get_tree w c' = Some tc' ->
            In x (ids (forest_of tc)) -> In y (ids (forest_of tc')) -> In x (ids (forest_of t')) -> In y (ids (forest_of t')) -> False).
  { intros c c' tc tc' x y Ncc Nc Gc Gc' Hx Hy Hx' Hy'.
    assert (Gc2 : get_tree w' c = Some tc) by (rewrite (Ext c Nc (get_tree_lt w c tc Gc)); exact Gc).
    assert (Ejc : j = c).
    { destruct (Nat.eq_dec j c) as [E|E]; [exact E|]. exfalso. exact (trees_disjoint w' j c t' tc x H' E Gj Gc2 Hx' Hx). }
    subst j. rewrite Gc2 in Gj. injection Gj as <-.
    exact (trees_disjoint w c' c tc' tc y H (fun E => Ncc (eq_sym E)) Gc' Gc Hy Hy'). }
  destruct (Nat.eq_dec a (op_target w o)) as [Ea|Na'].
  - apply (Key b a tb ta m n); auto. congruence.
  - apply (Key a b ta tb n m); auto.
Qed.

Lemma uniq_step wk o : WFk wk -> forall t' n m z, In t' (trees (snd (step (kbase wk) o))) -> In n (reg t') -> In m (reg t') ->
  km_get (kkeys wk) n = Some z -> km_get (kkeys wk) m = Some z -> n = m.
Proof.
  intros H t' n m z Ht' Hn Hm Kn Km. assert (H' : WFw (snd (step (kbase wk) o))) by (apply WFw_step; apply H).
  assert (Wt' : WF t') by (exact (proj1 (Forall_forall _ _) (ww_trees _ H') t' Ht')).
  destruct (same_tree_before (kbase wk) o t' n m (wk_base _ H) Ht') as (t & Ht & Xn & Xm).
  - apply (Permutation_in _ (wf_reg t' Wt')). exact Hn.
  - apply (Permutation_in _ (wf_reg t' Wt')). exact Hm.
  - apply (wk_alloc _ H n z Kn).
  - apply (wk_alloc _ H m z Km).
  - assert (Wt : WF t) by (exact (proj1 (Forall_forall _ _) (ww_trees _ (wk_base _ H)) t Ht)).
    apply (wk_uniq _ H t n m z Ht); auto; apply (Permutation_in _ (Permutation_sym (wf_reg t Wt))); assumption.
Qed.

Lemma WFk_base_step wk o : WFk wk -> WFk (WK (snd (step (kbase wk) o)) (kkeys wk)).
Proof.
  intros H. split; cbn [kbase kkeys].
  - apply WFw_step. apply H.
  - intros n z K. destruct (wk_alloc _ H n z K) as [L Z]. split; [|exact Z].
    destruct (WFx_step (kbase wk) o (wk_base _ H)) as (_ & Lx & _). lia.
  - apply uniq_step. exact H.
Qed.

Lemma WFk_bump wk k : WFk wk -> WFk (WK (bump (kbase wk) k) (kkeys wk)).
Proof.
  intros H. split; cbn [kbase kkeys].
  - apply WFw_bump. apply H.
  - intros n z K. destruct (wk_alloc _ H n z K) as [L Z]. split; [cbn; lia|exact Z].
  - cbn [bump trees]. apply (wk_uniq _ H).
Qed.

(* what a successful op_add looks like (only what is needed here) *)
Lemma op_add_ok_shape w ti p d e k b n w' t : get_tree w ti = Some t -> op_add w ti p d e k b = (Ok [n], w') ->
  n = next w /\ exists t', get_tree w' ti = Some t' /\ reg t' = reg t ++ [n] /\ next w' = S (next w).
Proof.
  intros Gt. unfold op_add. rewrite Gt. destruct (parent_path p (forest_of t)) as [pq|]; [|discriminate].
  destruct (get_ch pq (forest_of t)) as [ch|]; [|discriminate]. destruct (negb (before_ok (norm_before b) ch)); [discriminate|].
  destruct (match e with Some x => Some x | None => calc_id (calc t) d end) as [id|]; [|discriminate].
  destruct (collides t p id); [discriminate|]. intros X. injection X as <- <-. split; [reflexivity|].
  eexists. split; [apply (get_put_same _ _ t); exact Gt|]. split; [reflexivity|]. cbn. lia.
Qed.

Lemma op_add_err_shape w ti p d e k b x w' : op_add w ti p d e k b = (Err x, w') -> w' = w \/ w' = bump w 1.
Proof.
  unfold op_add. destruct (get_tree w ti) as [t|]; [|intros [= _ <-]; now left].
  destruct (parent_path p (forest_of t)) as [pq|]; [|intros [= _ <-]; now left].
  destruct (get_ch pq (forest_of t)) as [ch|]; [|intros [= _ <-]; now left].
  destruct (negb (before_ok (norm_before b) ch)); [intros [= _ <-]; now left|].
  destruct (match e with Some x => Some x | None => calc_id (calc t) d end) as [id|]; [|intros [= _ <-]; now right].
  destruct (collides t p id); [intros [= _ <-]; now right|discriminate].
Qed.

Theorem WFk_step_k wk o : WFk wk -> WFk (snd (step_k wk o)).
Proof.
  intros H. destruct o as [o|ti p d e k b z]; cbn [step_k].
  - assert (X := WFk_base_step wk o H). destruct (step (kbase wk) o) as [r w']. exact X.
  - unfold op_add_id. destruct (get_tree (kbase wk) ti) as [t|] eqn:Gt; [|exact H].
    destruct (op_add (kbase wk) ti p d e k b) as [[r|x] w'] eqn:Ea.
    + destruct r as [|n [|n2 r]]; [exact H| |exact H]. destruct (key_taken (kkeys wk) t z) eqn:Kt; cbn [snd]; [now apply WFk_bump|].
      destruct (op_add_ok_shape _ _ _ _ _ _ _ _ _ t Gt Ea) as (-> & t' & Gt' & Rt' & Nx).
      assert (Hs := WFk_base_step wk (OAdd ti p d e k b) H). cbn [step] in Hs. rewrite Ea in Hs. cbn [snd] in Hs.
      apply orb_false_iff in Kt. destruct Kt as [Z0 Kt]. apply Z.eqb_neq in Z0.
      assert (Fresh : km_get (kkeys wk) (next (kbase wk)) = None).
      { destruct (km_get (kkeys wk) (next (kbase wk))) as [z'|] eqn:E; [|reflexivity]. destruct (wk_alloc _ H _ _ E). lia. }
      split; cbn [kbase kkeys].
      * apply Hs.
      * intros n z1. cbn [km_get]. destruct (Nat.eqb (next (kbase wk)) n) eqn:En.
        -- apply Nat.eqb_eq in En. subst n. intros [= <-]. split; [lia|exact Z0].
        -- intros K. destruct (wk_alloc _ H n z1 K). split; [lia|assumption].
      * (* a node of the new world's tree t'' that carries z *)
        assert (Old : forall t'' y z1, In t'' (trees w') -> In (next (kbase wk)) (reg t'') -> In y (reg t'') -> y <> next (kbase wk) ->
                        km_get (kkeys wk) y = Some z1 -> z1 <> z).
        { intros t'' y z1 Ht'' Hn Hy Ny Ky ->.
          assert (Hw' : WFw w') by apply Hs.
          assert (Wt'' : WF t'') by (exact (proj1 (Forall_forall _ _) (ww_trees _ Hw') t'' Ht'')).
          assert (Wt' : WF t') by (exact (proj1 (Forall_forall _ _) (ww_trees _ Hw') t' (get_tree_in _ _ _ Gt'))).
          destruct (in_tree_get w' t'' Ht'') as (j & Gj).
          assert (Ej : j = ti).
          { destruct (Nat.eq_dec j ti) as [E|E]; [exact E|]. exfalso.
            apply (trees_disjoint w' j ti t'' t' (next (kbase wk)) Hw' E Gj Gt').
            - apply (Permutation_in _ (wf_reg t'' Wt'')). exact Hn.
            - apply (Permutation_in _ (wf_reg t' Wt')). rewrite Rt'. apply in_or_app. right. now left. }
          subst j. rewrite Gt' in Gj. injection Gj as <-. rewrite Rt' in Hy. apply in_app_or in Hy. destruct Hy as [Hy|[Hy|[]]]; [|congruence].
          assert (X : existsb (fun n => match km_get (kkeys wk) n with Some z' => Z.eqb z' z | None => false end) (reg t) = true).
          { apply existsb_exists. exists y. split; [exact Hy|]. rewrite Ky. apply Z.eqb_refl. }
          congruence. }
        intros t'' n m z1 Ht'' Hn Hm. cbn [km_get].
        destruct (Nat.eqb (next (kbase wk)) n) eqn:En; destruct (Nat.eqb (next (kbase wk)) m) eqn:Em.
        -- apply Nat.eqb_eq in En, Em. congruence.
        -- apply Nat.eqb_eq in En. apply Nat.eqb_neq in Em. subst n. intros [= <-] Km. exfalso.
           apply (Old t'' m z Ht'' Hn Hm (fun E => Em (eq_sym E)) Km). reflexivity.
        -- apply Nat.eqb_neq in En. apply Nat.eqb_eq in Em. subst m. intros Kn [= <-]. exfalso.
           apply (Old t'' n z Ht'' Hm Hn (fun E => En (eq_sym E)) Kn). reflexivity.
        -- intros Kn Km. exact (wk_uniq _ Hs t'' n m z1 Ht'' Hn Hm Kn Km).
    + destruct (Nat.eqb x EUnique && key_taken (kkeys wk) t z); cbn [snd];
        (destruct (op_add_err_shape _ _ _ _ _ _ _ _ _ Ea) as [->| ->]; [destruct wk; exact H|now apply WFk_bump]).
Qed.

Lemma op_add_ok_single w ti p d e k b r w' : op_add w ti p d e k b = (Ok r, w') -> r = [next w].
Proof.
  unfold op_add. destruct (get_tree w ti) as [t|]; [|discriminate]. destruct (parent_path p (forest_of t)) as [pq|]; [|discriminate].
  destruct (get_ch pq (forest_of t)) as [ch|]; [|discriminate]. destruct (negb (before_ok (norm_before b) ch)); [discriminate|].
  destruct (match e with Some x => Some x | None => calc_id (calc t) d end) as [id|]; [|discriminate].
  destruct (collides t p id); [discriminate|]. now intros [= <- _].
Qed.

Theorem WFk_run_k ops : forall wk, WFk wk -> WFk (run_k ops wk).
Proof. induction ops as [|o ops IH]; intros wk H; [exact H|]. apply IH. now apply WFk_step_k. Qed.

Corollary keys_nodup_after_history ops t : In t (trees (kbase (run_k ops empty_worldk))) ->
  NoDup (map (nkey_of (kkeys (run_k ops empty_worldk))) (reg t)).
Proof. apply keys_nodup. apply WFk_run_k. exact WFk_empty. Qed.

(* the refusal: a key that is 0 or registered in the tree is never accepted; no tree changes, the table does not
   change; and unless an EARLIER check fails (unknown parent, invalid `before`, raising calc_data_id) the answer is
   the assertion error - also when the data_id collides as well (the assertion comes first) *)
Theorem add_id_refused wk ti p d e k b z t : get_tree (kbase wk) ti = Some t -> key_taken (kkeys wk) t z = true ->
  exists x, fst (op_add_id wk ti p d e k b z) = Err x /\
    trees (kbase (snd (op_add_id wk ti p d e k b z))) = trees (kbase wk) /\
    kkeys (snd (op_add_id wk ti p d e k b z)) = kkeys wk /\
    (forall r, fst (step (kbase wk) (OAdd ti p d e k b)) = Ok r -> x = EAssert) /\
    (fst (step (kbase wk) (OAdd ti p d e k b)) = Err EUnique -> x = EAssert).
Proof.
  intros Gt Kt. unfold op_add_id. rewrite Gt, Kt. cbn [step]. destruct (op_add (kbase wk) ti p d e k b) as [[r|x] w'] eqn:Ea.
  - destruct r as [|n [|n2 r]].
    + exists EModel. cbn [fst snd]. repeat split; auto; try discriminate.
      intros r _. exfalso. discriminate (op_add_ok_single _ _ _ _ _ _ _ _ _ Ea).
    + exists EAssert. cbn [fst snd kbase kkeys bump trees]. repeat split; auto.
    + exists EModel. cbn [fst snd]. repeat split; auto; try discriminate.
      intros r' _. exfalso. discriminate (op_add_ok_single _ _ _ _ _ _ _ _ _ Ea).
  - assert (Tr : trees w' = trees (kbase wk)) by (destruct (op_add_err_shape _ _ _ _ _ _ _ _ _ Ea) as [->| ->]; reflexivity).
    rewrite andb_true_r. destruct (Nat.eqb x EUnique) eqn:Ex.
    + exists EAssert. cbn [fst snd kbase kkeys]. repeat split; auto.
    + exists x. cbn [fst snd kbase kkeys]. repeat split; auto; [discriminate|]. intros [= ->]. discriminate Ex.
Qed.

(* a successful call: it is the machine's add_child, the new node carries the explicit key, every other node keeps its key *)
Theorem add_id_ok wk ti p d e k b z r wk' : WFk wk -> op_add_id wk ti p d e k b z = (Ok r, wk') ->
  exists t, get_tree (kbase wk) ti = Some t /\ key_taken (kkeys wk) t z = false /\
    op_add (kbase wk) ti p d e k b = (Ok r, kbase wk') /\ r = [next (kbase wk)] /\
    nkey_of (kkeys wk') (next (kbase wk)) = KExp z /\
    forall m, m <> next (kbase wk) -> nkey_of (kkeys wk') m = nkey_of (kkeys wk) m.
Proof.
  intros H. unfold op_add_id. destruct (get_tree (kbase wk) ti) as [t|] eqn:Gt; [|discriminate].
  destruct (op_add (kbase wk) ti p d e k b) as [[r0|x] w'] eqn:Ea.
  - destruct r0 as [|n [|n2 r0]]; [discriminate| |discriminate]. destruct (key_taken (kkeys wk) t z) eqn:Kt; [discriminate|].
    intros X. injection X as <- <-. destruct (op_add_ok_shape _ _ _ _ _ _ _ _ _ t Gt Ea) as (-> & _).
    exists t. cbn [kbase kkeys]. refine (conj eq_refl (conj Kt (conj eq_refl (conj eq_refl (conj _ _))))).
    + unfold nkey_of. cbn [km_get]. now rewrite Nat.eqb_refl.
    + intros m Hm. unfold nkey_of. cbn [km_get]. apply Nat.eqb_neq in Hm. rewrite Nat.eqb_sym in Hm. now rewrite Hm.
  - destruct (Nat.eqb x EUnique && key_taken (kkeys wk) t z); discriminate.
Qed.

(* every other operation leaves all keys alone; nodes it creates have automatic keys *)
Theorem base_op_keys wk o : WFk wk -> kkeys (snd (step_k wk (KOp o))) = kkeys wk /\
  forall n, next (kbase wk) <= n -> nkey_of (kkeys wk) n = KAuto n.
Proof.
  intros H. split; [cbn [step_k]; now destruct (step (kbase wk) o)|]. intros n Hn. unfold nkey_of.
  destruct (km_get (kkeys wk) n) as [z|] eqn:E; [|reflexivity]. destruct (wk_alloc _ H n z E). lia.
Qed.
