(* tree.py: Tree._self_check on the pointer-level state of Mut/Heap.v – executable model, no proofs (MiscSelfCheckProofs.v).

       node_list = []
       for node in self:                                           # pre-order walk over the child lists from the root
           node_list.append(node)
           assert node._tree is self
           assert node in node._parent._children
           assert node._data_id in self._nodes_by_data_id
           assert node._node_id == id(node)                        # [+]
           assert node._children is None or len(node._children) > 0   # [+]
       assert len(self._node_by_id) == len(node_list)
       clone_count = 0
       for data_id, nodes in self._nodes_by_data_id.items():
           clone_count += len(nodes)
           for node in nodes:
               assert node._node_id in self._node_by_id
               assert node._data_id == data_id
       assert clone_count == len(node_list)
       return True

   [h_self_check h = true] = the method returns True; false = it raises (AssertionError, or AttributeError on a None
   `_parent`), or the walk does not come back.  [+] not expressible on [hstate]: Layer B identifies node_id with the
   object identity, and [] stands for None in [hch].  `node in parent._children` compares by == in Python; the model
   compares identities (stronger; the same on lists without equal-comparing strangers). *)
From Coq Require Import List ZArith Bool Arith.
From NT Require Import Sx Rose Surgery Machine Heap.
Import ListNotations.

Definition h_self_check (h : hstate) : bool :=
  match abs_forest h with
  | None => false
  | Some f =>
      let node_list := ids f in
      forallb (fun n =>
                 htr h n
                 && match hpar h n with Some p => memn n (hch h p) | None => false end
                 && idx_has (hdid h n) (hidx h)) node_list
      && Nat.eqb (length (hreg h)) (length node_list)
      && forallb (fun e => forallb (fun n => memn n (hreg h) && did_eqb (hdid h n) (fst e)) (snd e)) (hidx h)
      && Nat.eqb (list_sum (map (fun e => length (snd e)) (hidx h))) (length node_list)
  end.
