(* C04 (audit F3, F4): sortedness on DEFINED keys (the relation [kle] of Effects.v is True as soon as a key is
   missing), "Ok => every key was defined", and progress of sort: deep sort never fails by fuel. *)
From Coq Require Import List ZArith Bool Arith Lia Permutation Sorted.
From NT Require Import Sx Rose ListFacts RoseFacts Surgery SurgeryFacts Machine MachineFacts Effects HeapCopy.
Import ListNotations.

Lemma keys_ok_In k l : keys_ok k l = true <-> forall t, In t l -> exists a, key_of k (rid t) = Some a.
Proof.
  unfold keys_ok. rewrite forallb_forall. split; intros H t Ht.
  - specialize (H t Ht). destruct (key_of k (rid t)) as [a|]; [now exists a|discriminate].
  - destruct (H t Ht) as (a & ->). reflexivity.
Qed.

Lemma keys_ok_perm k l l' : Permutation l l' -> keys_ok k l = true -> keys_ok k l' = true.
Proof. intros P H. apply keys_ok_In. intros t Ht. apply (proj1 (keys_ok_In k l) H). apply (Permutation_in _ (Permutation_sym P) Ht). Qed.

(* the keys of a list all of whose keys are defined *)
Definition keys_of_list (k : keyt) (l : list rt) : list text :=
  map (fun t => match key_of k (rid t) with Some a => a | None => [] end) l.

Lemma keys_of_list_spec k l : keys_ok k l = true -> map (fun t => key_of k (rid t)) l = map Some (keys_of_list k l).
Proof.
  intros H. unfold keys_of_list. rewrite map_map. apply map_ext_in. intros t Ht.
  destruct (proj1 (keys_ok_In k l) H t Ht) as (a & ->). reflexivity.
Qed.

Lemma Sorted_keys (R : text -> text -> Prop) k l : keys_ok k l = true ->
  Sorted (fun x y => match key_of k (rid x), key_of k (rid y) with Some a, Some b => R a b | _, _ => True end) l ->
  Sorted R (keys_of_list k l).
Proof.
  intros H S. induction S as [|x l S IH Hd]; [constructor|]. cbn [keys_ok forallb] in H. apply andb_true_iff in H. destruct H as [Hx Hl].
  cbn [keys_of_list map]. constructor; [now apply IH|]. destruct Hd as [|y l' Hxy]; [constructor|]. cbn [map]. constructor.
  cbn [keys_ok forallb] in Hl. apply andb_true_iff in Hl. destruct Hl as [Hy _].
  destruct (key_of k (rid x)); [|discriminate]. destruct (key_of k (rid y)); [|discriminate]. exact Hxy.
Qed.

Lemma Sorted_impl {X} (P Q : X -> X -> Prop) l : (forall x y, P x y -> Q x y) -> Sorted P l -> Sorted Q l.
Proof.
  intros H S. induction S as [|x l S IH Hd]; constructor; [assumption|]. destruct Hd; constructor. now apply H.
Qed.

(* sorted by key, on the keys themselves: ascending, or descending with reverse=True *)
Theorem py_sort_sorted_keys k l : keys_ok k l = true ->
  map (fun t => key_of k (rid t)) (py_sort k false l) = map Some (keys_of_list k (py_sort k false l)) /\
  Sorted (fun a b => text_leb a b = true) (keys_of_list k (py_sort k false l)) /\
  map (fun t => key_of k (rid t)) (py_sort k true l) = map Some (keys_of_list k (py_sort k true l)) /\
  Sorted (fun a b => text_leb b a = true) (keys_of_list k (py_sort k true l)).
Proof.
  intros H. assert (H1 := keys_ok_perm k _ _ (Permutation_sym (py_sort_perm k false l)) H).
  assert (H2 := keys_ok_perm k _ _ (Permutation_sym (py_sort_perm k true l)) H). destruct (py_sort_sorted k l) as [S1 S2].
  refine (conj (keys_of_list_spec k _ H1) (conj _ (conj (keys_of_list_spec k _ H2) _))).
  - apply (Sorted_keys (fun a b => text_leb a b = true) k _ H1). exact S1.
  - apply (Sorted_keys (fun a b => text_leb b a = true) k _ H2). revert S2. apply Sorted_impl.
    intros x y. unfold kle. destruct (key_of k (rid y)), (key_of k (rid x)); auto.
Qed.

(* ---- Ok => the keys were defined ---- *)
Lemma sort_list_ok_keys k rv deep ch ch' : sort_list k rv deep ch = (ch', false) ->
  ch = [] \/ (length ch = 1 /\ deep = false) \/ keys_ok k ch = true.
Proof.
  unfold sort_list. destruct ch as [|c ch]; [now left|]. right.
  destruct (Nat.eqb (length (c :: ch)) 1 && negb deep) eqn:E1.
  - apply andb_true_iff in E1. destruct E1 as [E1 E2]. apply Nat.eqb_eq in E1. left. split; [exact E1|]. now destruct deep.
  - destruct (keys_ok k (c :: ch)); [now right|]. cbn [negb]. discriminate.
Qed.

(* ---- progress: deep sort succeeds whenever every key it asks for is defined; the fuel always suffices ---- *)
Fixpoint deep_keys_ok (k : keyt) (t : rt) : bool :=
  match t with T _ _ ch => keys_ok k ch && forallb (deep_keys_ok k) ch end.

Lemma deep_keys_ok_unfold k t : deep_keys_ok k t = keys_ok k (rch t) && forallb (deep_keys_ok k) (rch t).
Proof. destruct t; reflexivity. Qed.

Lemma sort_deep_progress k rv : forall fuel t, size t < fuel -> deep_keys_ok k t = true ->
  snd (sort_deep fuel k rv t false) = false.
Proof.
  induction fuel as [|fuel IH]; intros t Hs Hk; [lia|]. destruct t as [id i ch]. cbn [sort_deep].
  destruct ch as [|c0 ch0]; [reflexivity|]. cbn [deep_keys_ok] in Hk. apply andb_true_iff in Hk. destruct Hk as [K1 K2].
  rewrite K1. cbn [negb snd].
  assert (Hall : forall c, In c (py_sort k rv (c0 :: ch0)) -> size c < fuel /\ deep_keys_ok k c = true).
  { intros c Hc. apply (Permutation_in _ (py_sort_perm k rv (c0 :: ch0))) in Hc. split.
    - assert (X := size_le_in c (c0 :: ch0) Hc). rewrite size_unfold in Hs. lia.
    - rewrite forallb_forall in K2. now apply K2. }
  revert Hall. generalize (py_sort k rv (c0 :: ch0)). intros l Hall.
  assert (G : forall l0, (forall c, In c l0 -> size c < fuel /\ deep_keys_ok k c = true) ->
              snd ((fix go (l : list rt) (failed : bool) : list rt * bool :=
                      match l with
                      | [] => ([], failed)
                      | c :: l' => let (c', f1) := sort_deep fuel k rv c failed in
                                   let (r', f2) := go l' f1 in (c' :: r', f2)
                      end) l0 false) = false).
  { induction l0 as [|c l0 IHl]; intros H0; [reflexivity|]. destruct (H0 c (or_introl eq_refl)) as [S1 S2].
    assert (X := IH c S1 S2). destruct (sort_deep fuel k rv c false) as [c' f1]. cbn [snd] in X. subst f1.
    assert (Y := IHl (fun c1 H1 => H0 c1 (or_intror H1))).
    match goal with |- snd (let (r', f2) := ?e in _) = false => destruct e as [r' f2] end. exact Y. }
  exact (G l Hall).
Qed.

Lemma deep_go_progress k rv fuel : forall l0, (forall c, In c l0 -> size c < fuel /\ deep_keys_ok k c = true) ->
  snd ((fix go (l : list rt) (failed : bool) : list rt * bool :=
          match l with
          | [] => ([], failed)
          | c :: l' => let (c', f1) := sort_deep fuel k rv c failed in
                       let (r', f2) := go l' f1 in (c' :: r', f2)
          end) l0 false) = false.
Proof.
  induction l0 as [|c l0 IHl]; intros H0; [reflexivity|]. destruct (H0 c (or_introl eq_refl)) as [S1 S2].
  assert (X := sort_deep_progress k rv fuel c S1 S2). destruct (sort_deep fuel k rv c false) as [c' f1]. cbn [snd] in X. subst f1.
  assert (Y := IHl (fun c1 H1 => H0 c1 (or_intror H1))).
  match goal with |- snd (let (r', f2) := ?e in _) = false => destruct e as [r' f2] end. exact Y.
Qed.

(* the arguments sort_children documents as valid: the parent exists and the key function is defined wherever it
   is called (flat: on the children when there are at least two; deep: on every node below the parent) *)
Definition valid_sort (w : world) (ti p : nat) (k : keyt) (deep : bool) : bool :=
  match get_tree w ti with
  | Some t => match children_of p (forest_of t) with
              | Some ch => if deep then keys_ok k ch && forallb (deep_keys_ok k) ch
                           else Nat.leb (length ch) 1 || keys_ok k ch
              | None => false
              end
  | None => false
  end.

Theorem sort_progress w ti p k rv deep : valid_sort w ti p k deep = true -> fst (op_sort w ti p k rv deep) = Ok [].
Proof.
  unfold valid_sort, op_sort, children_of. destruct (get_tree w ti) as [t|]; [|discriminate].
  destruct (parent_path p (forest_of t)) as [pq|]; [|discriminate]. destruct (get_ch pq (forest_of t)) as [ch|]; [|discriminate].
  intros H. assert (F : snd (sort_list k rv deep ch) = false).
  { unfold sort_list. destruct ch as [|c ch]; [reflexivity|]. destruct deep.
    - apply andb_true_iff in H. destruct H as [K1 K2]. cbn [negb andb]. rewrite andb_false_r, K1. cbn [negb].
      apply deep_go_progress. intros x Hx. apply (Permutation_in _ (py_sort_perm k rv (c :: ch))) in Hx. split.
      + assert (X := size_le_in x (c :: ch) Hx). lia.
      + rewrite forallb_forall in K2. now apply K2.
    - cbn [negb]. rewrite andb_true_r. destruct (Nat.eqb (length (c :: ch)) 1) eqn:E1; [reflexivity|].
      apply orb_true_iff in H. destruct H as [H|H].
      + apply Nat.leb_le in H. apply Nat.eqb_neq in E1. cbn [length] in *. lia.
      + rewrite H. reflexivity. }
  destruct (sort_list k rv deep ch) as [ch' f]. cbn [snd] in F. subst f. reflexivity.
Qed.

(* a successful flat sort: the keys it compared were defined, and the new child list is sorted BY THOSE KEYS *)
Theorem sort_flat_sorted_keys w ti p k rv r w' :
  op_sort w ti p k rv false = (Ok r, w') ->
  exists t t' pq ch,
    get_tree w ti = Some t /\ get_tree w' ti = Some t' /\
    parent_path p (forest_of t) = Some pq /\ get_ch pq (forest_of t) = Some ch /\
    get_ch pq (forest_of t') = Some (py_sort k rv ch) /\ Permutation (py_sort k rv ch) ch /\
    (2 <= length ch ->
     keys_ok k ch = true /\
     map (fun x => key_of k (rid x)) (py_sort k rv ch) = map Some (keys_of_list k (py_sort k rv ch)) /\
     Sorted (fun a b => if rv then text_leb b a = true else text_leb a b = true) (keys_of_list k (py_sort k rv ch))).
Proof.
  intros H. destruct (sort_flat_effect w ti p k rv r w' H) as (t & t' & pq & ch & Gt & Gt' & Gp & Gc & Gc' & _).
  exists t, t', pq, ch. refine (conj Gt (conj Gt' (conj Gp (conj Gc (conj Gc' (conj (py_sort_perm k rv ch) _)))))).
  intros L2. unfold op_sort in H. rewrite Gt, Gp, Gc in H. destruct (sort_list k rv false ch) as [ch' f] eqn:Es.
  destruct f; [discriminate|]. destruct (sort_list_ok_keys k rv false ch ch' Es) as [->|[[L _]|K]]; [cbn in L2; lia|lia|].
  destruct (py_sort_sorted_keys k ch K) as (A1 & A2 & A3 & A4). split; [exact K|]. destruct rv; split; assumption.
Qed.
