(* C04 (audit F4): progress.  Every effect theorem of C04 has the hypothesis [step w o = (Ok r, w')]; a machine that
   refused every call would satisfy them all.  [valid_op w o] is a DECIDABLE description of the calls the library
   documents as valid (the referenced trees / nodes / parent exist; no sibling of the target parent carries the id
   to be placed; `before` names a child of the parent; a callback that is needed answers; a clone group is not
   re-keyed without a with_clones decision; ...), and a valid call answers Ok.
   Covered: add_child(data) and the four shortcuts, add_child(node), every remove, remove_children, clear, del,
   sort_children (flat and deep), set_data, rename, metadata edits, new tree, Tree.copy, Node.copy.
   move_to has its own predicate and theorem ([valid_move], [move_progress]: it needs WFw, the node must be found again
   after it was taken out).  NOT covered (valid_op = false): add(tree), copy_to(add_self=False), the in-place filter,
   from_dict. *)
From Coq Require Import List ZArith Bool Arith Lia Permutation.
From NT Require Import Sx Rose ListFacts RoseFacts Surgery SurgeryFacts Machine WF MachineFacts PreserveSteps PreserveOps
  PreserveRelabel Effects SortFacts.
Import ListNotations.

Definition is_some {X} (o : option X) : bool := match o with Some _ => true | None => false end.

Definition valid_add (w : world) (ti p : nat) (d : dat) (e : option did) (b : before) : bool :=
  match get_tree w ti with
  | Some t =>
      match children_of p (forest_of t) with
      | Some ch =>
          before_ok (norm_before b) ch &&
          match (match e with Some x => Some x | None => calc_id (calc t) d end) with
          | Some id => negb (collides t p id)
          | None => false
          end
      | None => false
      end
  | None => false
  end.

Lemma add_progress w ti p d e k b : valid_add w ti p d e b = true -> fst (op_add w ti p d e k b) = Ok [next w].
Proof.
  unfold valid_add, op_add, children_of. destruct (get_tree w ti) as [t|]; [|discriminate].
  destruct (parent_path p (forest_of t)) as [pq|]; [|discriminate]. destruct (get_ch pq (forest_of t)) as [ch|]; [|discriminate].
  intros H. apply andb_true_iff in H. destruct H as [H1 H2]. rewrite H1. cbn [negb].
  destruct (match e with Some x => Some x | None => calc_id (calc t) d end) as [id|]; [|discriminate].
  apply negb_true_iff in H2. now rewrite H2.
Qed.

Definition valid_add_node (w : world) (ti p sti src : nat) (e : option did) (b : before) (deep : option bool) : bool :=
  match get_tree w ti, get_tree w sti with
  | Some t, Some st =>
      match get_node src (forest_of st), children_of p (forest_of t) with
      | Some s, Some ch =>
          let dp := match deep with Some x => x | None => false end in
          Bool.eqb (typed t) (typed st) &&
          negb (dp && is_some e) &&
          negb (Nat.eqb ti sti && (match parent_of src (forest_of st) with Some q => Nat.eqb q p | None => false end)) &&
          (match e with Some x => did_eqb x (rdid s) | None => true end) &&
          negb (dp && Nat.eqb ti sti && is_desc_or_self src p (forest_of st)) &&
          before_ok (norm_before b) ch &&
          negb (collides t p (rdid s))
      | _, _ => false
      end
  | _, _ => false
  end.

Lemma add_node_progress w ti p sti src e k b deep : valid_add_node w ti p sti src e b deep = true ->
  fst (op_add_node w ti p sti src e k b deep) = Ok [next w].
Proof.
  unfold valid_add_node, op_add_node, children_of. destruct (get_tree w ti) as [t|]; [|discriminate]. destruct (get_tree w sti) as [st|]; [|discriminate].
  destruct (get_node src (forest_of st)) as [s|]; [|discriminate]. destruct (parent_path p (forest_of t)) as [pq|]; [|discriminate].
  destruct (get_ch pq (forest_of t)) as [ch|]; [|discriminate]. cbv zeta. intros H.
  repeat (apply andb_true_iff in H; destruct H as [H ?]).
  rename H into A1, H5 into A2, H4 into A3, H3 into A4, H2 into A5, H1 into A6, H0 into A7.
  apply Bool.eqb_prop in A1. rewrite A1, andb_negb_r.
  replace (match e with Some _ => true | None => false end) with (is_some e) by (now destruct e).
  apply negb_true_iff in A2. rewrite A2. apply negb_true_iff in A3. rewrite A3.
  assert (E2 : (match e with Some e0 => negb (did_eqb e0 (rdid s)) | None => false end) = false) by (destruct e; [now rewrite A4|reflexivity]).
  rewrite E2. apply negb_true_iff in A5. rewrite A5, A6. cbn [negb]. replace (negb (typed st) && typed st) with false by (now destruct (typed st)).
  assert (Eid : (match e with Some e0 => e0 | None => rdid s end) = rdid s) by (destruct e as [x|]; [apply did_eqb_eq in A4; exact A4|reflexivity]).
  rewrite Eid. apply negb_true_iff in A7. rewrite A7.
  destruct (if match deep with Some x => x | None => false end then _ else _) as [kids n']. destruct (register_all _ _ _). reflexivity.
Qed.

Definition valid_remove (w : world) (ti n : nat) (keep wc : bool) : bool :=
  match get_tree w ti with
  | Some t => match did_of n (forest_of t) with
              | Some d => let V := if wc then filter (fun c => negb (Nat.eqb c n)) (idx_get d (idx t)) ++ [n] else [n] in
                          negb (keep && existsb (keep_collides_all t V) V)
              | None => false
              end
  | None => false
  end.

Lemma remove_progress w ti n keep wc : valid_remove w ti n keep wc = true -> fst (op_remove w ti n keep wc) = Ok [].
Proof.
  unfold valid_remove, op_remove. destruct (get_tree w ti) as [t|]; [|discriminate]. destruct (did_of n (forest_of t)) as [d|]; [|discriminate].
  cbv zeta. intros H. apply negb_true_iff in H. now rewrite H.
Qed.

Definition valid_set_data (w : world) (ti n : nat) (d : option dat) (e : option did) (wc : option bool) : bool :=
  match get_tree w ti with
  | Some t =>
      match get_node n (forest_of t) with
      | Some s =>
          (is_some d || is_some e) &&
          match sd_did' t (sd_new_data s d) e with
          | Some did' =>
              let cur := idx_get (rdid s) (idx t) in
              let hc := Nat.ltb 1 (length cur) in
              negb (hc && negb (is_some wc)) &&
              match sd_new_did s did' with
              | Some x => let group := if hc && (match wc with Some true => true | _ => false end) then cur else [n] in
                          negb (existsb (sib_clash (forest_of t) group x) group)
              | None => true
              end
          | None => false
          end
      | None => false
      end
  | None => false
  end.

Lemma set_data_progress w ti n d e wc : valid_set_data w ti n d e wc = true -> fst (op_set_data w ti n d e wc) = Ok [].
Proof.
  unfold valid_set_data. rewrite op_set_data_eq. destruct (get_tree w ti) as [t|]; [|discriminate]. destruct (get_node n (forest_of t)) as [s|]; [|discriminate].
  intros H. apply andb_true_iff in H. destruct H as [H0 H].
  assert (X : match sd_did' t (sd_new_data s d) e with
              | None => (Err ECrash, w)
              | Some did' => set_data_core w ti t n s (sd_new_data s d) (sd_new_did s did') wc
              end = match d, e with None, None => (Err EValue, w) | _, _ =>
                match sd_did' t (sd_new_data s d) e with
                | None => (Err ECrash, w)
                | Some did' => set_data_core w ti t n s (sd_new_data s d) (sd_new_did s did') wc
                end end) by (destruct d, e; try reflexivity; discriminate).
  rewrite <- X. clear X. destruct (sd_did' t (sd_new_data s d) e) as [did'|]; [|discriminate]. cbv zeta in H.
  apply andb_true_iff in H. destruct H as [H1 H2]. apply negb_true_iff in H1. unfold set_data_core. cbv zeta.
  replace (match wc with None => true | _ => false end) with (negb (is_some wc)) by (now destruct wc). rewrite H1.
  destruct (sd_new_did s did') as [x|].
  - apply negb_true_iff in H2. now rewrite H2.
  - destruct (sd_new_data s d); reflexivity.
Qed.

(* ---- all covered operations ---- *)
Definition valid_op (w : world) (o : op) : bool :=
  match o with
  | OAdd ti p d e k b => valid_add w ti p d e b
  | OShort ti n how d e k =>
      match get_tree w ti with
      | Some t =>
          match how with
          | SAppendChild => valid_add w ti n d e BNone
          | SPrependChild => match children_of n (forest_of t) with
                             | Some (c :: _) => valid_add w ti n d e (BNode (rid c))
                             | Some [] => valid_add w ti n d e BNone
                             | None => false
                             end
          | SPrependSibling => match parent_of n (forest_of t), get_node n (forest_of t) with
                               | Some p, Some _ => valid_add w ti p d e (BNode n)
                               | _, _ => false
                               end
          | SAppendSibling => match parent_of n (forest_of t), node_loc n (forest_of t), get_node n (forest_of t) with
                              | Some p, Some (_, i, l), Some _ =>
                                  valid_add w ti p d e (match nth_error l (S i) with Some nx => BNode (rid nx) | None => BNone end)
                              | _, _, _ => false
                              end
          end
      | None => false
      end
  | OAddNode ti p sti src e k b deep => valid_add_node w ti p sti src e b deep
  | ORemove ti n keep wc => valid_remove w ti n keep wc
  | ORemoveChildren ti n => match get_tree w ti with Some t => is_some (children_of n (forest_of t)) | None => false end
  | OClear ti => is_some (get_tree w ti)
  | ODel ti k => match get_tree w ti with
                 | Some t => match getitem t k with Some [n] => is_some (did_of n (forest_of t)) | _ => false end
                 | None => false
                 end
  | OSort ti p k rv deep => valid_sort w ti p k deep
  | OSetData ti n d e wc => valid_set_data w ti n d e wc
  | ORename ti n d => match get_tree w ti with
                      | Some t => match get_node n (forest_of t) with
                                  | Some s => i_isstr (rinfo s) && valid_set_data w ti n (Some d) None None
                                  | None => false
                                  end
                      | None => false
                      end
  | OMeta ti n _ => match get_tree w ti with Some t => live t n | None => false end
  | ONewTree _ _ => true
  | OTreeCopy sti => is_some (get_tree w sti)
  | ONodeCopy sti src _ => match get_tree w sti with Some st => is_some (get_node src (forest_of st)) | None => false end
  | _ => false
  end.

Theorem progress w o : valid_op w o = true -> exists r, fst (step w o) = Ok r.
Proof.
  destruct o; cbn [valid_op step]; intros H; try discriminate.
  - eexists. now apply add_progress.
  - unfold op_shortcut. destruct (get_tree w ti) as [t|]; [|discriminate]. destruct how.
    + eexists. now apply add_progress.
    + destruct (children_of n (forest_of t)) as [[|c l]|]; [| |discriminate]; eexists; now apply add_progress.
    + destruct (parent_of n (forest_of t)) as [p|]; [|discriminate]. destruct (get_node n (forest_of t)) as [s|]; [|discriminate].
      eexists. now apply add_progress.
    + destruct (parent_of n (forest_of t)) as [p|]; [|discriminate]. destruct (node_loc n (forest_of t)) as [[[q0 i] l]|]; [|discriminate].
      destruct (get_node n (forest_of t)) as [s|]; [|discriminate]. eexists. now apply add_progress.
  - eexists. now apply add_node_progress.
  - unfold op_tree_copy. destruct (get_tree w sti) as [st|]; [|discriminate].
    destruct (copy_f _ _ _ _). destruct (register_all _ _ _). eexists. reflexivity.
  - unfold op_node_copy. destruct (get_tree w sti) as [st|]; [|discriminate]. destruct (get_node src (forest_of st)) as [s|]; [|discriminate].
    destruct (copy_f _ _ _ _). destruct (register_all _ _ _). eexists. reflexivity.
  - eexists. now apply remove_progress.
  - unfold op_remove_children, children_of in *. destruct (get_tree w ti) as [t|]; [|discriminate].
    destruct (parent_path n (forest_of t)) as [pq|]; [|discriminate]. destruct (get_ch pq (forest_of t)) as [ch|]; [|discriminate].
    destruct (unregister_all _ _ _). eexists. reflexivity.
  - eexists. now apply sort_progress.
  - eexists. now apply set_data_progress.
  - unfold op_rename. destruct (get_tree w ti) as [t|]; [|discriminate]. destruct (get_node n (forest_of t)) as [s|]; [|discriminate].
    apply andb_true_iff in H. destruct H as [H1 H2]. rewrite H1. eexists. now apply set_data_progress.
  - unfold op_meta. destruct (get_tree w ti) as [t|]; [|discriminate]. rewrite H. eexists. reflexivity.
  - eexists. reflexivity.
  - unfold op_clear, op_remove_children. destruct (get_tree w ti) as [t|]; [|discriminate]. cbn [parent_path Nat.eqb get_ch].
    destruct (unregister_all _ _ _). eexists. reflexivity.
  - unfold op_del. destruct (get_tree w ti) as [t|] eqn:Gt; [|discriminate]. destruct (getitem t k) as [[|n [|n2 l]]|]; try discriminate.
    eexists. apply remove_progress. unfold valid_remove. rewrite Gt. destruct (did_of n (forest_of t)); [reflexivity|discriminate].
Qed.

(* ---- no over-refusal (audit C03, medium; the area of D12): every uniqueness refusal has a documented cause ---- *)
From NT Require Import Invariant Refusal.

(* add(node) / add_child(node): EUnique only when the source already is a child of that parent, or the explicit data_id
   contradicts the source's, or the target parent really has a child with the source's data_id *)
Theorem add_node_unique_cause w ti p sti src e k b deep :
  WFw w -> fst (op_add_node w ti p sti src e k b deep) = Err EUnique ->
  exists t st s, get_tree w ti = Some t /\ get_tree w sti = Some st /\ get_node src (forest_of st) = Some s /\
    ((ti = sti /\ parent_of src (forest_of st) = Some p) \/
     (exists x, e = Some x /\ x <> rdid s) \/
     sibling_with (forest_of t) p (rdid s) 0).
Proof.
  intros H. unfold op_add_node. destruct (get_tree w ti) as [t|] eqn:Gt; [|discriminate]. destruct (get_tree w sti) as [st|] eqn:Gs; [|discriminate].
  destruct (get_node src (forest_of st)) as [s|] eqn:Gn; [|discriminate]. destruct (parent_path p (forest_of t)) as [pq|] eqn:Gp; [|discriminate].
  destruct (get_ch pq (forest_of t)) as [ch|] eqn:Gc; [|discriminate]. intros X. exists t, st, s. refine (conj eq_refl (conj eq_refl (conj Gn _))).
  destruct (typed t && negb (typed st)); [discriminate|]. cbv zeta in X.
  destruct (_ && match e with Some _ => true | None => false end); [discriminate|].
  destruct (Nat.eqb ti sti && _) eqn:E1.
  { left. apply andb_true_iff in E1. destruct E1 as [A B]. apply Nat.eqb_eq in A. split; [exact A|].
    destruct (parent_of src (forest_of st)) as [q|]; [|discriminate]. apply Nat.eqb_eq in B. now subst. }
  destruct (match e with Some e0 => negb (did_eqb e0 (rdid s)) | None => false end) eqn:E2.
  { right. left. destruct e as [x|]; [|discriminate]. exists x. split; [reflexivity|]. intros ->.
    apply negb_true_iff in E2. assert (Y : did_eqb (rdid s) (rdid s) = true) by now apply did_eqb_eq. congruence. }
  destruct (_ && is_desc_or_self src p (forest_of st)); [discriminate|]. destruct (negb (before_ok (norm_before b) ch)); [discriminate|].
  destruct (negb (typed t) && typed st); [discriminate|].
  assert (Eid : (match e with Some e0 => e0 | None => rdid s end) = rdid s).
  { destruct e as [x|]; [|reflexivity]. apply negb_false_iff in E2. now apply did_eqb_eq in E2. }
  rewrite Eid in X. destruct (collides t p (rdid s)) eqn:Ec.
  - right. right. assert (Wt : WF t) by exact (WFw_tree _ ti t H Gt).
    apply (collides_iff_sibling t p ch (rdid s) Wt); [unfold children_of; now rewrite Gp|exact Ec].
  - destruct (if match deep with Some x => x | None => false end then _ else _) as [kids n']. destruct (register_all _ _ _). discriminate.
Qed.

(* move_to: EUnique only when the target is another parent that has a child with the node's data_id *)
Theorem move_unique_cause w ti n tti target b :
  fst (op_move w ti n tti target b) = Err EUnique ->
  exists t s cur tch c, get_tree w ti = Some t /\ get_node n (forest_of t) = Some s /\ parent_of n (forest_of t) = Some cur /\
    cur <> target /\ children_of target (forest_of t) = Some tch /\ In c tch /\ rdid c = rdid s.
Proof.
  unfold op_move. destruct (get_tree w ti) as [t|] eqn:Gt; [|discriminate]. destruct (typed t); [discriminate|].
  destruct (negb (Nat.eqb ti tti)); [discriminate|]. destruct (get_node n (forest_of t)) as [s|] eqn:Gn; [|discriminate].
  destruct (children_of target (forest_of t)) as [tch|] eqn:Gc; [|discriminate]. destruct (parent_of n (forest_of t)) as [cur|] eqn:Gp; [|discriminate].
  destruct (is_desc_or_self n target (forest_of t)); [discriminate|]. cbv zeta. destruct (negb (before_ok (norm_before b) tch)); [discriminate|].
  destruct (negb (Nat.eqb cur target) && existsb (fun c => did_eqb (rdid c) (rdid s)) tch) eqn:E.
  - intros _. apply andb_true_iff in E. destruct E as [A B]. apply negb_true_iff, Nat.eqb_neq in A.
    apply existsb_exists in B. destruct B as (c & Hc & Ed). apply did_eqb_eq in Ed.
    exists t, s, cur, tch, c. refine (conj eq_refl (conj Gn (conj Gp (conj A (conj Gc (conj Hc Ed)))))).
  - destruct (match norm_before b with NNode s0 => Nat.eqb s0 n | _ => false end); [discriminate|].
    destruct (move_in t n target (norm_before b)); discriminate.
Qed.

(* ---- move_to: progress ---- *)
Lemma move_in_total t n target nb s tch : WF t -> get_node n (forest_of t) = Some s ->
  children_of target (forest_of t) = Some tch -> is_desc_or_self n target (forest_of t) = false ->
  exists t', move_in t n target nb = Some t'.
Proof.
  intros H Gn Gc Nd. unfold move_in. set (f := forest_of t) in *.
  destruct (get_node_loc n f s Gn) as (q0 & i & l & E & N).
  assert (D : detach n f = Some (s, upd_ch q0 (remove_nth i) f)) by (unfold detach; now rewrite E, N).
  rewrite D. set (f1 := upd_ch q0 (remove_nth i) f) in *.
  destruct (Nat.eqb target 0) eqn:T0; [unfold parent_path; rewrite T0; eexists; reflexivity|].
  assert (In1 : In target (ids f1)).
  { unfold children_of, parent_path in Gc. rewrite T0 in Gc. destruct (node_path target f) as [q|] eqn:Np; [|discriminate].
    destruct (node_path_sound target f q Np) as (s2 & Na & Rs2). destruct (node_at_loc q f s2 0 Na) as (_ & _ & P2 & _).
    assert (Inf : In target (ids f)) by (rewrite <- Rs2; unfold ids; now apply in_map).
    destruct (remove_branch t n) as [t'|] eqn:Rb.
    2:{ unfold remove_branch in Rb. fold f in Rb. rewrite D in Rb. destruct (unregister_all _ _ _); discriminate. }
    destruct (WF_remove_branch t n t' H Rb) as (_ & s0 & P0 & R0 & Pm).
    assert (Ft' : forest_of t' = f1).
    { unfold remove_branch in Rb. fold f in Rb. rewrite D in Rb. destruct (unregister_all _ _ _). injection Rb as <-. reflexivity. }
    rewrite Ft' in Pm. fold f in Pm, P0. destruct (get_node_spec n f s Gn) as (Ps & Rs).
    assert (s0 = s) by (apply (node_unique f); auto; [apply H|congruence]). subst s0.
    apply (Permutation_in _ Pm) in Inf. apply in_app_or in Inf. destruct Inf as [X|X]; [|exact X]. exfalso.
    unfold is_desc_or_self in Nd. fold f in Nd. rewrite Gn in Nd.
    assert (Y : existsb (Nat.eqb target) (ids_t s) = true) by (apply existsb_exists; exists target; split; [exact X|apply Nat.eqb_refl]).
    congruence. }
  destruct (node_path_complete target f1 In1) as (q & Hq). unfold parent_path. rewrite T0, Hq. eexists. reflexivity.
Qed.

(* move_to inside one plain tree: the node and the target exist, the target is not in the node's own branch, `before`
   names a child of the target, and (unless the node already is a child of the target) no child of the target carries
   the node's data_id *)
Definition valid_move (w : world) (ti n target : nat) (b : before) : bool :=
  match get_tree w ti with
  | Some t =>
      negb (typed t) &&
      match get_node n (forest_of t), children_of target (forest_of t), parent_of n (forest_of t) with
      | Some s, Some tch, Some cur =>
          negb (is_desc_or_self n target (forest_of t)) && before_ok (norm_before b) tch &&
          negb (negb (Nat.eqb cur target) && existsb (fun c => did_eqb (rdid c) (rdid s)) tch)
      | _, _, _ => false
      end
  | None => false
  end.

Theorem move_progress w ti n target b : WFw w -> valid_move w ti n target b = true -> fst (op_move w ti n ti target b) = Ok [].
Proof.
  intros W. unfold valid_move, op_move. destruct (get_tree w ti) as [t|] eqn:Gt; [|discriminate]. intros H.
  apply andb_true_iff in H. destruct H as [Ty H]. apply negb_true_iff in Ty. rewrite Ty, Nat.eqb_refl. cbn [negb].
  destruct (get_node n (forest_of t)) as [s|] eqn:Gn; [|discriminate]. destruct (children_of target (forest_of t)) as [tch|] eqn:Gc; [|discriminate].
  destruct (parent_of n (forest_of t)) as [cur|] eqn:Gp; [|discriminate].
  apply andb_true_iff in H. destruct H as [H H3]. apply andb_true_iff in H. destruct H as [H1 H2].
  apply negb_true_iff in H1, H3. rewrite H1, H2, H3. cbn [negb].
  destruct (match norm_before b with NNode s0 => Nat.eqb s0 n | _ => false end); [reflexivity|].
  destruct (move_in_total t n target (norm_before b) s tch (WFw_tree _ ti t W Gt) Gn Gc H1) as (t' & ->). reflexivity.
Qed.
