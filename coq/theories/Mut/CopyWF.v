(* C07, part 6: copies and well-formedness.
   (a) Tree.copy / Node.copy keep the world well-formed (C01-C03 invariant): the new tree is
       well-formed, its identities are disjoint from all others, the allocator stays ahead.
   (b) copying inside one tree: the source branch is still there, identical as a value
       (identities, payloads, metadata, child order), unless the copy was put inside it -
       which a deep copy never is. *)
From Coq Require Import List ZArith Bool Arith Lia Permutation.
From NT Require Import Sx Rose ListFacts RoseFacts Surgery SurgeryFacts Machine WF MachineFacts Effects FrameTrees CopyFacts CopyMulti.
Import ListNotations.

Local Ltac la := repeat (rewrite <- app_assoc || rewrite <- app_comm_cons); try reflexivity.

(* ------------------------------------------------------------------ *)
(* (a) *)
Lemma all_ids_snoc w t n : all_ids (W (trees w ++ [t]) n) = all_ids w ++ ids (forest_of t).
Proof. unfold all_ids. cbn [trees]. rewrite flat_map_app. cbn [flat_map]. now rewrite app_nil_r. Qed.

Lemma get_tree_In w ti t : get_tree w ti = Some t -> In t (trees w).
Proof. unfold get_tree. apply nth_error_In. Qed.

Lemma WFw_snoc w t k :
  WFw w -> 0 < next w -> WF t -> ids (forest_of t) = seq (next w) k -> WFw (W (trees w ++ [t]) (next w + k)).
Proof.
  (* written against the fields by name: WFw may carry more clauses (e.g. 0 < next) in other branches *)
  intros Hw Hpos Ht Ei.
  pose proof (ww_trees w Hw) as H1. pose proof (ww_disj w Hw) as H2. pose proof (ww_next w Hw) as H3.
  constructor.
  all: try match goal with |- 0 < _ => cbn [next]; lia end.
  - cbn [trees]. apply Forall_app. split; [exact H1|]. constructor; [exact Ht|constructor].
  - rewrite all_ids_snoc, Ei. apply NoDup_app_intro; [exact H2|apply seq_NoDup|].
    intros x Hx Hs. rewrite Forall_forall in H3. apply H3 in Hx. apply in_seq in Hs. lia.
  - rewrite all_ids_snoc, Ei. cbn [next]. apply Forall_app. split.
    + eapply Forall_impl; [|exact H3]. cbv beta. intros; lia.
    + apply Forall_forall. intros x Hs. apply in_seq in Hs. lia.
Qed.

Theorem tree_copy_WFw w sti r w' :
  WFw w -> 0 < next w -> op_tree_copy w sti = (Ok r, w') -> WFw w'.
Proof.
  intros Hw Hn H.
  destruct (tree_copy_effect w sti r w' H) as (st & kids & rg & ix & Est & _ & Et & Hs & Hi & _ & Hnx & Hr & Hix).
  destruct w' as [ts' n']. cbn [trees next] in *. subst ts' n'.
  apply (WFw_snoc w _ (size_f (forest_of st)) Hw Hn); [|exact Hi].
  assert (Hst : WF st).
  { pose proof (ww_trees w Hw) as H1. rewrite Forall_forall in H1. apply H1. now apply (get_tree_In w sti). }
  apply (WF_fresh_copy _ _ _ _ (forest_of st) (next w)); auto. apply (wf_su _ Hst).
Qed.

Lemma SU_branch f s : SU f -> In s (pre_f f) -> SU [s].
Proof.
  intros H Hs. constructor.
  - cbn. constructor; [intros []|constructor].
  - intros t [<-|[]]. now apply (SU_pre_f f).
Qed.

Lemma WF_fresh ty kids rg ix n k c :
  SU kids -> ids kids = seq n k -> 0 < n -> rg = ids kids -> IdxOK ix (keys kids) -> WF (TS kids rg ix ty c).
Proof.
  intros Hsu Ei Hn -> (I1 & I2 & I3). constructor; cbn [forest_of reg idx]; auto.
  - rewrite Ei. apply seq_NoDup.
  - rewrite Ei. now apply seq_not_in_0.
Qed.

Theorem node_copy_WFw w sti src add_self r w' :
  WFw w -> 0 < next w -> op_node_copy w sti src add_self = (Ok r, w') -> WFw w'.
Proof.
  intros Hw Hn H.
  destruct (node_copy_effect w sti src add_self r w' H)
    as (st & s & kids & rg & ix & Est & Es & _ & Et & Hk & _ & Hnx & Hr & Hix).
  assert (Hst : WF st).
  { pose proof (ww_trees w Hw) as H1. rewrite Forall_forall in H1. apply H1. now apply (get_tree_In w sti). }
  destruct (get_node_spec src _ s Es) as (Hin & _).
  assert (Hsus : SU (rch s)) by (apply (SU_pre_f (forest_of st)); [apply (wf_su _ Hst)|exact Hin]).
  destruct w' as [ts' n']. cbn [trees next] in *. subst ts' n'.
  destruct add_self.
  - destruct Hk as (x & -> & Hc).
    assert (Ei : ids [x] = seq (next w) (size s)).
    { change (ids [x]) with (map rid (pre x ++ [])). rewrite app_nil_r. exact (ic_ids _ _ _ _ _ _ Hc). }
    apply (WFw_snoc w _ (size s) Hw Hn); [|exact Ei].
    apply (WF_fresh _ _ _ _ (next w) (size s)); auto.
    constructor.
    + cbn. constructor; [intros []|constructor].
    + intros t [<-|[]]. apply (SU_strip_eq (typed st) (rch s)); [|exact Hsus].
      symmetry. exact (ic_kids _ _ _ _ _ _ Hc).
  - destruct Hk as (Hs & Hi).
    apply (WFw_snoc w _ (size_f (rch s)) Hw Hn); [|exact Hi].
    apply (WF_fresh_copy _ _ _ _ (rch s) (next w)); auto.
Qed.

(* ------------------------------------------------------------------ *)
(* (b) copying inside one tree *)

(* a branch that does not contain the owner of the updated child list is still a branch of the forest *)
Lemma upd_ch_keeps : forall pq f o c g s,
  get_ch pq f = Some c -> incl c (g c) -> In s (pre_f f) ->
  (pq <> [] -> ~ In (owner pq f o) (ids_t s)) ->
  In s (pre_f (upd_ch pq g f)).
Proof.
  induction pq as [|i rest IH]; intros f o c g s Hc Hg Hs Hn; cbn [get_ch upd_ch owner] in *.
  - injection Hc as <-. apply in_flat_map in Hs. destruct Hs as (t & Ht & Hs).
    apply in_flat_map. exists t. split; [now apply Hg|exact Hs].
  - destruct (nth_error f i) as [t|] eqn:E; [|discriminate].
    destruct (nth_error_split f i E) as (a & b & -> & <-).
    rewrite upd_nth_split. rewrite !flat_map_app in *. cbn [flat_map] in *.
    rewrite !in_app_iff in *. destruct Hs as [Hs|[Hs|Hs]]; [now left| |now right; right].
    right. left. destruct t as [id inf ch]. cbn [set_ch pre rch rid] in *.
    destruct Hs as [<-|Hs].
    + exfalso. apply Hn; [discriminate|].
      destruct (get_ch_owner rest ch id c Hc) as [(-> & _ & ->)|(u & Hu & <- & _)].
      * cbn. now left.
      * rewrite ids_t_unfold. cbn [rid rch]. right. unfold ids. now apply in_map.
    + right. apply (IH ch id c g s Hc Hg Hs). intros _. apply Hn. discriminate.
Qed.

Lemma incl_place nb x ch : incl ch (place nb x ch).
Proof.
  destruct (place_split nb x ch) as (a & b & -> & ->). intros y Hy. apply in_app_iff in Hy.
  apply in_app_iff. destruct Hy; [now left|right; now right].
Qed.

Lemma ids_rows f o : ids f = map r_id (rows o f).
Proof. symmetry. apply rows_ids. Qed.

(* add_child(node) / copy_to(add_self=True) inside one tree *)
Theorem add_node_same_tree w ti p src e k b deep r w' t s :
  op_add_node w ti p ti src e k b deep = (Ok r, w') ->
  get_tree w ti = Some t -> NoDup (ids (forest_of t)) -> (forall n, In n (ids (forest_of t)) -> n < next w) ->
  get_node src (forest_of t) = Some s ->
  exists t', get_tree w' ti = Some t' /\ NoDup (ids (forest_of t')) /\
    (* the source branch is still there, identical, unless the copy was put inside it *)
    (~ In p (ids_t s) -> get_node src (forest_of t') = Some s) /\
    (* a deep copy is never put inside its source *)
    (deep = Some true -> ~ In p (ids_t s)).
Proof.
  intros H Et ND Hlt Es.
  pose proof H as H0. unfold op_add_node in H0. rewrite Et, Es in H0.
  destruct (add_node_effect _ _ _ _ _ _ _ _ _ _ _ H)
    as (t0 & st0 & s0 & pq & ch & x & t' & Et0 & Est0 & Et' & Es0 & Ep & Ec & _ & _ & Hc & _ & _ & Hr & Hf & _).
  rewrite Et in Et0. injection Et0 as <-. rewrite Et in Est0. injection Est0 as <-.
  rewrite Es in Es0. injection Es0 as <-.
  exists t'. refine (conj Et' _).
  assert (ND' : NoDup (ids (forest_of t'))).
  { destruct Hr as (A & B & E1 & E2). rewrite (ids_rows _ 0), E2, !map_app.
    rewrite (ids_rows _ 0), E1, map_app in ND. rewrite (ids_rows _ 0), E1, map_app in Hlt.
    rewrite rows_ids_t, (ic_ids _ _ _ _ _ _ Hc).
    apply NoDup_app_intro; [now apply NoDup_app_l in ND| |].
    - apply NoDup_app_intro; [apply seq_NoDup|now apply NoDup_app_r in ND|].
      intros y Hy Hb. apply in_seq in Hy. specialize (Hlt y). rewrite in_app_iff in Hlt. specialize (Hlt (or_intror Hb)). lia.
    - intros y Ha Hy. apply in_app_iff in Hy. destruct Hy as [Hy|Hy].
      + apply in_seq in Hy. specialize (Hlt y). rewrite in_app_iff in Hlt. specialize (Hlt (or_introl Ha)). lia.
      + now apply (NoDup_app_disj _ _ y ND). }
  refine (conj ND' (conj _ _)).
  - intros Hn. destruct (get_node_spec src _ s Es) as (Hin & Hid).
    apply get_node_unique; [exact ND'| |exact Hid].
    rewrite Hf. apply (upd_ch_keeps pq (forest_of t) 0 ch); [exact Ec|apply incl_place|exact Hin|].
    intros _. now rewrite (parent_path_owner p _ pq ch Ep Ec).
  - intros ->. intros Hin. rewrite Ep, Ec in H0.
    destruct (typed t && negb (typed t)); [discriminate|]. cbn [andb] in H0.
    destruct (match e with Some _ => true | None => false end); [discriminate|].
    rewrite Nat.eqb_refl in H0. cbn [andb] in H0.
    destruct (match parent_of src (forest_of t) with Some q => Nat.eqb q p | None => false end); [discriminate|].
    destruct (match e with Some e0 => negb (did_eqb e0 (rdid s)) | None => false end); [discriminate|].
    unfold is_desc_or_self in H0. rewrite Es in H0.
    assert (X : existsb (Nat.eqb p) (ids_t s) = true).
    { apply existsb_exists. exists p. split; [exact Hin|apply Nat.eqb_refl]. }
    rewrite X in H0. discriminate.
Qed.
