(* Tree.load / TypedTree.load as an operation of the mutation machine (additive: Machine.v is not
   changed).  Python sources mirrored, at /repo HEAD:
     tree.py        Tree._from_list        (load() parses / uncompresses the file and calls it)
     typed_tree.py  TypedTree._from_list
   _from_list creates a NEW tree ([cls()]: default calc_data_id) and walks the node list
       for idx, (parent_idx, data) in enumerate(obj, 1):
           parent = node_idx_map[parent_idx]                       # KeyError for an unknown index
           str / dict :  n = parent.add(data_obj, kind=..., data_id=...)        -> Machine.op_add
           int        :  first = node_idx_map[data]
                         n = parent.add(first, kind=first.kind, data_id=first.data_id)
                                                                   -> Machine.op_add_node (a clone, shallow)
           node_idx_map[idx] = n
   so every uniqueness check is the one of Tree._register inside add().  An exception leaves the
   half-built tree unreferenced: the world keeps its trees, only the allocator has moved.
   No proofs here (MachineLoadProofs.v). *)
From Coq Require Import List ZArith Bool Arith.
From NT Require Import Sx Rose Surgery Machine.
Import ListNotations.

(* one entry of the node list, after the deserialisation mapper:
   [LData p d e k]  parent index, the data object the entry yields (a str, or what the mapper builds from the
                    dict), the explicit data_id of the dict (None for a str), the kind handed to add()
                    (typed: the dict's "kind" or None = DEFAULT_CHILD_TYPE; plain trees ignore it);
   [LRef p r]       parent index, index of the first occurrence (an int entry) *)
Inductive lentry := LData (p : nat) (d : dat) (e : option did) (k : kind) | LRef (p r : nat).

Definition kind_of (n : nat) (f : forest) : kind :=
  match get_node n f with Some s => i_kind (rinfo s) | None => None end.

(* one iteration; [m] = node_idx_map as a list (index -> node), m[0] = 0 = the system root *)
Definition load_entry (ti : nat) (w : world) (m : list nat) (e : lentry) : res * world :=
  match e with
  | LData p d ex k =>
      match nth_error m p with
      | None => (Err EKey, w)
      | Some P => op_add w ti P d ex k BNone
      end
  | LRef p r =>
      match nth_error m p with
      | None => (Err EKey, w)
      | Some P =>
          match nth_error m r with
          | None => (Err EKey, w)
          | Some src =>
              if Nat.eqb src 0 then (Err ECrash, w)          (* a reference to index 0: add(<system root>) *)
              else match get_tree w ti with
                   | Some t => op_add_node w ti P ti src (did_of src (forest_of t)) (kind_of src (forest_of t)) BNone None
                   | None => (Err EModel, w)
                   end
          end
      end
  end.

Fixpoint load_go (ti : nat) (l : list lentry) (w : world) (m : list nat) : res * world :=
  match l with
  | [] => (Ok m, w)
  | e :: l' =>
      match load_entry ti w m e with
      | (Ok [n], w1) => load_go ti l' w1 (m ++ [n])
      | (Ok _, w1) => (Err EModel, w1)
      | (Err x, w1) => (Err x, w1)
      end
  end.

(* cls._from_list(nodes): a new tree of the class; a failure drops it *)
Definition op_load (w : world) (ty : bool) (doc : list lentry) : res * world :=
  let ti := length (trees w) in
  let w0 := W (trees w ++ [TS [] [] [] ty None]) (next w) in
  match load_go ti doc w0 [0] with
  | (Ok _, w1) => (Ok [ti], w1)
  | (Err e, w1) => (Err e, W (trees w) (next w1))
  end.

(* the machine with the additional operation *)
Inductive op_x := OBase (o : op) | OLoad (typed : bool) (doc : list lentry).

Definition step_x (w : world) (o : op_x) : res * world :=
  match o with
  | OBase o => step w o
  | OLoad ty doc => op_load w ty doc
  end.

Definition run_x (ops : list op_x) (w : world) : world := fold_left (fun w o => snd (step_x w o)) ops w.
