(* Tree._self_check passes on every state the library can reach (model: MiscSelfCheck.v). *)
From Coq Require Import List ZArith Bool Arith Lia Permutation.
From NT Require Import Sx Rose ListFacts RoseFacts Surgery SurgeryFacts Machine WF Heap HeapProofs HeapRefine HeapRemove QueriesProofs Refusal Invariant HeapFull MiscSelfCheck.
Import ListNotations.

Lemma memn_In n l : memn n l = true <-> In n l.
Proof.
  unfold memn. rewrite existsb_exists. split.
  - intros (x & Hx & E). apply Nat.eqb_eq in E. subst. exact Hx.
  - intros H. exists n. split; [exact H|apply Nat.eqb_refl].
Qed.

Lemma idx_flat_has ix n d : In (n, d) (idx_flat ix) -> idx_has d ix = true.
Proof.
  unfold idx_flat, idx_has. intros H. apply in_flat_map in H as (e & He & H).
  apply in_map_iff in H as (m & E & _). injection E as _ <-.
  apply existsb_exists. exists e. split; [exact He|apply did_eqb_refl].
Qed.

Lemma idx_flat_length ix : length (idx_flat ix) = list_sum (map (fun e => length (snd e)) ix).
Proof.
  unfold idx_flat. induction ix as [|e r IH]; [reflexivity|]. cbn [flat_map map list_sum].
  rewrite app_length, map_length, IH. reflexivity.
Qed.

Lemma idx_flat_member ix e n : In e ix -> In n (snd e) -> In (n, fst e) (idx_flat ix).
Proof. intros He Hn. unfold idx_flat. apply in_flat_map. exists e. split; [exact He|]. apply in_map_iff. exists n. split; [reflexivity|exact Hn]. Qed.

Theorem self_check_passes h t : WF t -> Rep h t -> h_self_check h = true.
Proof.
  intros W R. unfold h_self_check. destruct (abs_correct h t W R) as [A _]. rewrite A.
  set (f := forest_of t).
  pose proof (wf_nodup t W) as ND. fold f in ND.
  rewrite (rep_reg h t R), (rep_idx h t R).
  repeat (apply andb_true_iff; split).
  - (* per node *)
    apply forallb_forall. intros n Hn.
    assert (Hr : exists r, In r (rows 0 f) /\ r_id r = n).
    { rewrite <- (rows_ids f 0) in Hn. apply in_map_iff in Hn as (r & E & Hr). exists r. split; [exact Hr|exact E]. }
    destruct Hr as (r & Hr & <-).
    destruct (rep_node h t R r Hr) as (P & T & _).
    rewrite T, P. cbn [andb].
    apply andb_true_iff; split.
    + apply memn_In. rewrite (rep_ch h t R). unfold kids. apply in_map_iff. exists r. split; [reflexivity|].
      apply filter_In. split; [exact Hr|apply Nat.eqb_refl].
    + unfold ids in Hn. apply in_map_iff in Hn as (s & E & Hs).
      pose proof (did_of_member f s ND Hs) as D. rewrite E in D.
      pose proof (did_of_agree h t (r_id r) W R) as G. fold f in G. rewrite D in G. destruct G as [_ G]. rewrite G.
      apply (idx_flat_has (idx t) (r_id r)).
      apply (Permutation_in _ (Permutation_sym (wf_idx t W))). apply did_of_keys; [exact ND|exact D].
  - apply Nat.eqb_eq. apply Permutation_length. exact (wf_reg t W).
  - apply forallb_forall. intros e He. apply forallb_forall. intros n Hn.
    pose proof (idx_flat_member (idx t) e n He Hn) as K.
    apply (Permutation_in _ (wf_idx t W)) in K. apply did_of_keys in K; [|exact ND].
    pose proof (did_of_agree h t n W R) as G. unfold f in K. rewrite K in G. destruct G as [L G].
    unfold h_live in L. rewrite (rep_reg h t R) in L. rewrite L, G. apply did_eqb_refl.
  - apply Nat.eqb_eq. rewrite <- idx_flat_length. rewrite (Permutation_length (wf_idx t W)).
    unfold keys, ids. rewrite !map_length. reflexivity.
Qed.

(* ... in particular after every history of operations, in every tree of the world *)
Corollary self_check_reachable ops : Forall (fun h => h_self_check h = true) (htrees (h_run ops h_empty_world)).
Proof.
  destruct (heap_refinement_all ops) as (RW & _ & _).
  assert (WW : WFw (run ops empty_world)) by (apply WFw_run; exact WFw_empty).
  pose proof (repw_trees _ _ RW) as F2. pose proof (ww_trees _ WW) as FW.
  revert FW. induction F2 as [|h t hs ts Hht F2 IH]; intros FW; constructor.
  - inversion FW; subst. eapply self_check_passes; eassumption.
  - apply IH. inversion FW; assumption.
Qed.
