(* Heap refinement: sort_children (flat), metadata, new tree, clear; the step theorem *)
From Coq Require Import List ZArith Bool Arith Lia Permutation.
From NT Require Import Sx Rose ListFacts RoseFacts Surgery SurgeryFacts Machine WF MachineFacts PreserveSteps PreserveOps
  PreserveRelabel Invariant Heap HeapProofs HeapRemove.
Import ListNotations.

Lemma upd_ch_same : forall pq f ch, get_ch pq f = Some ch -> upd_ch pq (fun _ => ch) f = f.
Proof.
  induction pq as [|i rest IH]; intros f ch G.
  - cbn in *. now injection G as <-.
  - cbn [get_ch upd_ch] in *. destruct (nth_error f i) as [t|] eqn:E; [|discriminate].
    destruct (nth_error_split f i E) as (a & b & -> & <-). rewrite upd_nth_split. f_equal. f_equal.
    destruct t as [id inf c]. cbn [set_ch rch] in *. f_equal. now apply IH.
Qed.

Lemma set_forest_same t : set_forest t (forest_of t) = t.
Proof. now destruct t. Qed.

(* ---- sorting on identities = sorting the sub-trees ---- *)
Lemma ins_sorted_map k x l : map rid (ins_sorted k x l) = ins_sorted_n k (rid x) (map rid l).
Proof.
  induction l as [|y l IH]; [reflexivity|]. cbn [ins_sorted ins_sorted_n map].
  destruct (key_of k (rid x)); [|reflexivity]. destruct (key_of k (rid y)); [|reflexivity].
  destruct (text_leb t t0); [reflexivity|]. cbn [map]. now rewrite IH.
Qed.

Lemma isort_map k l : map rid (isort k l) = fold_right (ins_sorted_n k) [] (map rid l).
Proof. unfold isort. induction l as [|x l IH]; [reflexivity|]. cbn [fold_right map]. now rewrite ins_sorted_map, IH. Qed.

Lemma py_sort_map k r l : map rid (py_sort k r l) = py_sort_n k r (map rid l).
Proof. unfold py_sort, py_sort_n. destruct r; [|apply isort_map]. now rewrite map_rev, isort_map, map_rev. Qed.

Lemma keys_ok_map k l : keys_ok k l = keys_ok_n k (map rid l).
Proof. unfold keys_ok, keys_ok_n. induction l as [|x l IH]; [reflexivity|]. cbn. now rewrite IH. Qed.

(* a block of rows whose tree does not contain q contributes nothing to q's children *)
Lemma kids_block_none q o x : q <> o -> ~ In q (ids_t x) -> kids q (rows_t o x) = [].
Proof.
  intros Ne Nq. apply kids_none. intros r Hr E. destruct (rows_par_t x o r Hr) as [X|X]; [congruence|].
  rewrite rows_ids_t in X. apply Nq. now rewrite <- E.
Qed.

Lemma kids_perm_blocks q o : q <> o -> forall l l', Permutation l l' -> NoDup (ids l) -> kids q (rows o l) = kids q (rows o l').
Proof.
  intros Ne l l' P. induction P as [|x l l' P IH|x y l|l1 l2 l3 P1 IH1 P2 IH2]; intros ND.
  - reflexivity.
  - cbn [flat_map]. rewrite !kids_app, IH; [reflexivity|]. change (x :: l) with ([x] ++ l) in ND. rewrite ids_app in ND. now apply NoDup_app_r in ND.
  - cbn [flat_map]. rewrite !kids_app, !app_assoc. f_equal.
    change (y :: x :: l) with ([y] ++ [x] ++ l) in ND. rewrite !ids_app, !ids_single in ND.
    destruct (in_dec Nat.eq_dec q (ids_t x)) as [Ix|Ix].
    + assert (Iy : ~ In q (ids_t y)).
      { intros Iy. apply (NoDup_app_disj _ _ q ND Iy). apply in_or_app. now left. }
      now rewrite (kids_block_none q o y Ne Iy), app_nil_r.
    + now rewrite (kids_block_none q o x Ne Ix), app_nil_r.
  - rewrite IH1, IH2; [reflexivity| |assumption]. unfold ids in *. apply (Permutation_NoDup (l := map rid (pre_f l1))); [|assumption].
    apply Permutation_map. now apply Permutation_flat_map.
Qed.

(* SUB-STEP: the child list of a parent is permuted *)
Lemma Rep_rearrange h t p pq ch ch' : WF t -> Rep h t ->
  parent_path p (forest_of t) = Some pq -> get_ch pq (forest_of t) = Some ch -> Permutation ch ch' ->
  Rep (set_chl h p (map rid ch')) (set_forest t (upd_ch pq (fun _ => ch') (forest_of t))).
Proof.
  intros W R Gp G P. set (f := forest_of t) in *.
  destruct (ctx_kids pq f 0 ch (wf_nodup t W) (wf_pos t W) G) as (A & B & E1 & E2 & E3 & E4 & E5).
  rewrite (parent_path_owner p f pq ch Gp G) in *. specialize (E2 (fun _ => ch')). cbn beta in E2.
  assert (Pi : Permutation (ids ch) (ids ch')) by (unfold ids; apply Permutation_map; now apply Permutation_flat_map).
  assert (NDc := NoDup_child_list pq f ch (wf_nodup t W) G).
  assert (Mem : forall r, In r (rows 0 (upd_ch pq (fun _ => ch') f)) <-> In r (rows 0 f)).
  { intros r. rewrite E1, E2, !in_app_iff. assert (X : In r (rows p ch') <-> In r (rows p ch)); [|tauto].
    split; apply Permutation_in; [symmetry|]; now apply Permutation_flat_map. }
  constructor; cbn [set_forest forest_of reg idx typed calc set_chl hreg hidx htyped hcalc hch hpar htr hinf hall]; try apply R.
  - intros q. fold f. unfold upd. destruct (Nat.eqb q p) eqn:Eq.
    + apply Nat.eqb_eq in Eq. subst q. rewrite E2, !kids_app.
      rewrite (kids_none p A), (kids_none p B), app_nil_r; try (intros r Hr; apply E3; apply in_or_app; tauto). cbn [app].
      symmetry. apply kids_top. intros Y. apply E4. now apply (Permutation_in _ (Permutation_sym Pi)).
    + apply Nat.eqb_neq in Eq. rewrite (rep_ch h t R q). fold f. rewrite E1, E2, !kids_app. f_equal. f_equal.
      now apply kids_perm_blocks.
  - intros r Hr. fold f in Hr. apply Mem in Hr. now apply (rep_node h t R).
  - intros m Hm. apply (rep_all h t R). fold f. fold f in Hm. rewrite <- (rows_ids _ 0) in Hm. apply in_map_iff in Hm.
    destruct Hm as (r & <- & Hr). apply Mem in Hr. now apply (rows_id_in f 0).
Qed.

Theorem sim_op_sort_flat hw w ti p k rev : WFw w -> RepW hw w ->
  Sim (h_op_sort_flat hw ti p k rev) (op_sort w ti p k rev false).
Proof.
  intros W RW. unfold h_op_sort_flat, op_sort. assert (G := RepW_get hw w ti RW).
  destruct (h_get hw ti) as [h|]; destruct (get_tree w ti) as [t|] eqn:Gt; try contradiction; [|now apply Sim_same].
  assert (Wt := WFw_tree w ti t W Gt). assert (Pl := h_plive_path h t p Wt G).
  destruct (parent_path p (forest_of t)) as [pq|] eqn:Gp.
  2:{ replace (h_plive h p) with false; [now apply Sim_same|]. destruct (h_plive h p); [|reflexivity].
      destruct (proj1 Pl eq_refl) as (pq & X). discriminate. }
  replace (h_plive h p) with true by (symmetry; apply Pl; now exists pq). cbn [negb].
  destruct (parent_path_get p _ pq Gp) as (ch & Gc). rewrite Gc.
  assert (Hc := rep_children h t p pq ch Wt G Gp Gc).
  assert (Same : RepW (h_put hw ti h) (put_tree w ti (set_forest t (upd_ch pq (fun _ => ch) (forest_of t))))).
  { unfold h_put, put_tree. rewrite (repw_next hw w RW). apply RepW_put; [assumption|]. now rewrite (upd_ch_same pq _ ch Gc), set_forest_same. }
  unfold h_sort_flat, sort_list. rewrite Hc. destruct ch as [|c0 [|c1 ch]]; cbn [map length Nat.eqb negb andb].
  - split; [reflexivity|exact Same].
  - split; [reflexivity|exact Same].
  - change (rid c0 :: rid c1 :: map rid ch) with (map rid (c0 :: c1 :: ch)). rewrite <- keys_ok_map.
    destruct (negb (keys_ok k (c0 :: c1 :: ch))).
    + split; [reflexivity|exact Same].
    + split; [reflexivity|]. cbn [snd]. unfold h_put, put_tree. rewrite (repw_next hw w RW). apply RepW_put; [assumption|].
      rewrite <- py_sort_map. apply (Rep_rearrange h t p pq _ _ Wt G Gp Gc). symmetry. apply PreserveSort.py_sort_perm.
Qed.

(* ---- payload changes: no pointer moves ---- *)
Lemma kids_rel p G g R : kids p (map (rel_row G g) R) = kids p R.
Proof.
  induction R as [|r R IH]; [reflexivity|]. cbn [map]. rewrite !kids_cons, IH, rel_row_par, rel_row_id. reflexivity.
Qed.

Lemma Rep_set_info h t n g : WF t -> Rep h t ->
  Rep (set_inf h n (g (hinf h n))) (set_forest t (set_info_at n g (forest_of t))).
Proof.
  intros W R. set (f := forest_of t) in *.
  assert (E := set_info_at_rows n g f 0 (wf_nodup t W)).
  constructor; cbn [set_forest forest_of reg idx typed calc set_inf hreg hidx htyped hcalc hch hpar htr hinf hall]; try apply R.
  - intros p. fold f. rewrite E, kids_rel. apply R.
  - intros r' Hr'. fold f in Hr'. rewrite E in Hr'. apply in_map_iff in Hr'. destruct Hr' as (r & <- & Hr).
    destruct (rep_node h t R r Hr) as (H1 & H2 & H3). rewrite rel_row_id, rel_row_par. refine (conj H1 (conj H2 _)).
    unfold rel_row, inb, upd. cbn [existsb]. rewrite orb_false_r. destruct (Nat.eqb (r_id r) n) eqn:En.
    + apply Nat.eqb_eq in En. cbn [r_info snd]. rewrite <- En, H3. reflexivity.
    + exact H3.
  - intros m Hm. apply (rep_all h t R). fold f. fold f in Hm. rewrite <- (rows_ids _ 0) in Hm. rewrite E, map_rel_ids, rows_ids in Hm. exact Hm.
Qed.

Theorem sim_op_meta hw w ti n o : WFw w -> RepW hw w -> Sim (h_op_meta hw ti n o) (op_meta w ti n o).
Proof.
  intros W RW. unfold h_op_meta, op_meta. assert (G := RepW_get hw w ti RW).
  destruct (h_get hw ti) as [h|]; destruct (get_tree w ti) as [t|] eqn:Gt; try contradiction; [|now apply Sim_same].
  assert (Wt := WFw_tree w ti t W Gt). rewrite (live_agree h t n Wt G).
  destruct (live t n) eqn:L; [|now apply Sim_same].
  split; [reflexivity|]. cbn [snd]. unfold h_put, put_tree. rewrite (repw_next hw w RW). apply RepW_put; [assumption|].
  assert (Hn : In n (ids (forest_of t))).
  { unfold live in L. apply existsb_exists in L. destruct L as (m & Hm & E). apply Nat.eqb_eq in E. now subst. }
  destruct (get_node_complete n _ Hn) as (s & Gs). destruct (get_node_spec n _ s Gs) as (Ps & Rs).
  assert (Ei : hinf h n = rinfo s) by (rewrite <- Rs; now apply (rep_info h t s G)).
  assert (X := Rep_set_info h t n (fun i => set_meta_i (apply_meta o (i_meta i)) i) Wt G). cbn beta in X. exact X.
Qed.

(* ---- the empty tree ---- *)
Lemma Rep_empty ty c : Rep (h_empty ty c) (TS [] [] [] ty c).
Proof.
  constructor; cbn; try reflexivity; auto.
  - intros r [].
  - intros m [].
Qed.

Lemma RepW_empty : RepW h_empty_world empty_world.
Proof. constructor; [reflexivity|constructor]. Qed.

