(* C13: the callbacks that are not callbacks of the mutation machine - visitor,
   deserialisation mapper - on the models that exist for them, and the mapper of
   Node.from_dict on an attached node at machine level.

   The read-only operations are pure functions of a forest in their models
   (Traverse.v, DictList.v, Filter.v): a function has no state it could change,
   so "the tree is unchanged" is not a theorem one can state about them without
   faking it; it is checked on the implementation by the snapshot oracle of
   harness/mut_c13.py (run_probes: every read-only call, clean and with a fault
   at every invocation k).  What the models do say about a raising callback is
   stated here:
   * visit (Traverse.v, call-index callbacks [cbT]): an exception at call k ends
     the traversal - exactly the first k+1 nodes of the order were called - and
     is re-raised (C06's [visit_stop_at_call] at [HErr e]);
   * Tree.from_dict / Node.from_dict mappers (DictList.v, [dmapper] may answer
     [inr e]): a result is returned only if the mapper raised on NO item of the
     input, at any depth; the raising invocation's error is the result and no
     forest is built;
   * the copying filter (Filter.v) has no exception exit in its model (only the
     control signals): harness only.
   Node.from_dict(mapper) on an attached node mutates: machine-level model below
   ([op_from_dict_m]: the items up to the raising invocation are added, then the
   rollback of D48 removes them). *)
From Coq Require Import List ZArith Bool Arith Lia Permutation.
From NT Require Import Sx Rose ListFacts RoseFacts Traverse TraverseProofs TraverseLevelOrd TraverseVisit TraverseStop DictList.
From NT Require Import Surgery Machine WF PreserveSteps PreserveMore Invariant RefusalC13.
Import ListNotations.

(* ------------------------------------------------------------------ *)
(* visitor *)
Theorem visitor_fault_at_call (cb : cbT) s m a k e l :
  at_call cb k (Traverse.Err e) -> visit_supported m = true -> iterator s m a = Some l ->
  visit cb s m a = if Nat.ltb k (length l) then (firstn (S k) (map rid l), Traverse.VRaise e) else (map rid l, Traverse.VReturn None).
Proof. intros H. exact (visit_stop_at_call cb s m a k (HErr e) l H). Qed.

(* ------------------------------------------------------------------ *)
(* deserialisation mapper (Tree.from_dict / Node.from_dict as functions) *)
Section Mapper.
Variable dd : dmapper.
Variable calc : info -> DictList.res did.

Fixpoint pt_all (P : jdict -> Prop) (p : pt) {struct p} : Prop :=
  match p with
  | PBad => True
  | PT d kids => P d /\ (fix go (l : list pt) : Prop := match l with [] => True | x :: xs => pt_all P x /\ go xs end) kids
  end.
Fixpoint pts_all (P : jdict -> Prop) (l : list pt) : Prop :=
  match l with [] => True | x :: xs => pt_all P x /\ pts_all P xs end.

Definition mapped (d : jdict) : Prop := exists r, dd d = inl r.

(* an item is rebuilt only if the mapper raised neither on it nor on any item below it *)
Lemma fd_item_all_mapped : forall p seen used t, fd_item dd calc p seen used = inl t -> pt_all mapped p.
Proof.
  fix IH 1. intros [d kids|] seen used t; cbn [fd_item]; [|discriminate].
  destruct (dd d) as [[i0 d']|e] eqn:E; [|discriminate].
  destruct (if did_early (dget k_data_id d') then did_for calc (dget k_data_id d') i0 else inl (DInt 0)); [|discriminate].
  destruct (nid_check (dget k_node_id d') used) as [nid|]; [|discriminate].
  destruct (did_for calc (dget k_data_id d') i0) as [dv|]; [|discriminate].
  destruct (existsb (did_eqb dv) seen); [discriminate|].
  match goal with |- match ?L kids [] ?u with _ => _ end = _ -> _ => set (loop := L); generalize u; generalize (@nil did) end.
  intros s0 u0 Hr. cbn [pt_all]. split; [now exists (i0, d')|].
  destruct (loop kids s0 u0) as [ch|] eqn:EL; [clear Hr|discriminate].
  revert s0 u0 ch EL. induction kids as [|x xs IHk]; intros s0 u0 ch EL; [exact Logic.I|].
  cbn in EL. destruct (fd_item dd calc x s0 u0) as [tx|] eqn:Ex; [|discriminate].
  fold loop in EL. destruct (loop xs (s0 ++ [rdid tx]) (u0 ++ nids dd x)) as [ts|] eqn:El2; [|discriminate].
  split; [exact (IH x s0 u0 tx Ex)|exact (IHk _ _ _ El2)].
Qed.

Lemma fd_loop_all_mapped : forall l seen used f, fd_loop dd calc l seen used = inl f -> pts_all mapped l.
Proof.
  induction l as [|x xs IH]; intros seen used f; cbn [fd_loop pts_all]; [intros _; exact Logic.I|].
  destruct (fd_item dd calc x seen used) as [t|] eqn:E; [|discriminate].
  destruct (fd_loop dd calc xs (seen ++ [rdid t]) (used ++ nids dd x)) as [ts|] eqn:E2; [|discriminate].
  intros _. split; [exact (fd_item_all_mapped x seen used t E)|exact (IH _ _ _ E2)].
Qed.

(* Tree.from_dict / Node.from_dict return a tree only if no invocation of the mapper raised *)
Theorem from_dict_all_mapped next obj f : from_dict dd calc next obj = inl f -> pts_all mapped (map parse obj).
Proof.
  unfold from_dict. destruct (fd_loop dd calc (map parse obj) [] []) as [g|] eqn:E; [|discriminate].
  intros _. exact (fd_loop_all_mapped _ _ _ _ E).
Qed.

Theorem node_from_dict_all_mapped next f target obj g :
  node_from_dict dd calc next f target obj = inl g -> pts_all mapped (map parse obj).
Proof.
  unfold node_from_dict. destruct (find_node target f) as [[id i [|c ch]]|]; try discriminate.
  destruct (from_dict dd calc next obj) as [ch|] eqn:E; [|discriminate]. intros _. exact (from_dict_all_mapped next obj ch E).
Qed.

(* the raising invocation's error is the result of its item *)
Lemma fd_item_mapper_raises d kids seen used e : dd d = inr e -> fd_item dd calc (PT d kids) seen used = inr e.
Proof. intros E. cbn [fd_item]. now rewrite E. Qed.

End Mapper.

(* ------------------------------------------------------------------ *)
(* Node.from_dict(items, mapper) on an attached node, machine level.  An item whose mapper
   invocation raises is [MI None ..]; the mapper runs on an item just before the item is added,
   items are processed in pre-order: when it raises, exactly the items before it (pre-order) have
   been added - the truncated item list - and the exception handler of Node.from_dict (fix D48)
   removes the half-built branch again. *)
Inductive mitem := MI (d : option dat) (e : option did) (ch : list mitem).

(* the items processed before the first raising invocation; true = an invocation raised *)
Fixpoint trunc_item (it : mitem) {struct it} : option ditem * bool :=
  match it with
  | MI None _ _ => (None, true)
  | MI (Some d) e ch =>
      let r := (fix go (l : list mitem) : list ditem * bool :=
                  match l with
                  | [] => ([], false)
                  | x :: l' => match trunc_item x with
                               | (Some x', false) => let (r', h) := go l' in (x' :: r', h)
                               | (Some x', true) => ([x'], true)
                               | (None, h) => ([], h)
                               end
                  end) ch in
      (Some (DI d e (fst r)), snd r)
  end.
Fixpoint trunc_items (l : list mitem) : list ditem * bool :=
  match l with
  | [] => ([], false)
  | x :: l' => match trunc_item x with
               | (Some x', false) => let (r', h) := trunc_items l' in (x' :: r', h)
               | (Some x', true) => ([x'], true)
               | (None, h) => ([], h)
               end
  end.

Definition op_from_dict_m (w : world) (ti p : nat) (items : list mitem) : res * world :=
  let (its, raised) := trunc_items items in
  if raised then
    match get_tree w ti with
    | None => (Err EModel, w)
    | Some t =>
        match children_of p (forest_of t) with
        | None => (Err EModel, w)
        | Some (_ :: _) => (Err EAssert, w)
        | Some [] =>
            match from_dict_items ti p its w with
            | (Ok _, w1) => (Err ECrash, W (trees w) (next w1))      (* the mapper's exception, after the rollback *)
            | (Err e, w1) => (Err e, W (trees w) (next w1))          (* an earlier item was refused *)
            end
        end
    end
  else op_from_dict w ti p its.

(* a raising mapper never yields a result ... *)
Theorem from_dict_m_raises w ti p items :
  snd (trunc_items items) = true -> exists e, fst (op_from_dict_m w ti p items) = Err e.
Proof.
  intros R. unfold op_from_dict_m. destruct (trunc_items items) as [its raised]. cbn [snd] in R. subst raised.
  destruct (get_tree w ti) as [t|]; [|now eexists]. destruct (children_of p (forest_of t)) as [[|c l]|]; try now eexists.
  destruct (from_dict_items ti p its w) as [[r|e] w1]; now eexists.
Qed.

(* ... whatever fails - the mapper at any invocation, calc_data_id, a refused item - nothing is
   left behind, in any world ... *)
Theorem from_dict_m_unchanged w ti p items e :
  fst (op_from_dict_m w ti p items) = Err e -> trees (snd (op_from_dict_m w ti p items)) = trees w.
Proof.
  unfold op_from_dict_m. destruct (trunc_items items) as [its raised]. destruct raised.
  - destruct (get_tree w ti) as [t|]; [|reflexivity]. destruct (children_of p (forest_of t)) as [[|c l]|]; try reflexivity.
    destruct (from_dict_items ti p its w) as [[r|e'] w1]; reflexivity.
  - intros E. assert (K := keeps_op_from_dict w ti p its). unfold keeps in K. rewrite E in K. exact K.
Qed.

(* ... and the world stays well-formed *)
Theorem from_dict_m_WFw w ti p items : WFw w -> WFw (snd (op_from_dict_m w ti p items)).
Proof.
  intros H. unfold op_from_dict_m. destruct (trunc_items items) as [its raised]. destruct raised; [|now apply WFw_op_from_dict].
  destruct (get_tree w ti) as [t|]; [|exact H]. destruct (children_of p (forest_of t)) as [[|c l]|]; try exact H.
  assert (X := from_dict_items_spec its ti p w H).
  destruct (from_dict_items ti p its w) as [[r|e'] w1]; cbn [snd] in *; (apply WFw_next_up; [assumption|apply X]).
Qed.
