(* Heap refinement: set_data / rename (no pointer changes; payload, registry, index) *)
From Coq Require Import List ZArith Bool Arith Lia Permutation.
From NT Require Import Sx Rose ListFacts RoseFacts Surgery SurgeryFacts Machine WF MachineFacts PreserveSteps PreserveOps
  PreserveRelabel Heap HeapProofs HeapRemove HeapMore HeapMove.
Import ListNotations.

Lemma h_relabel_fields g : forall G h,
  let h' := h_relabel h G g in
  hpar h' = hpar h /\ hch h' = hch h /\ htr h' = htr h /\ hall h' = hall h /\ hreg h' = hreg h /\ hidx h' = hidx h /\
  htyped h' = htyped h /\ hcalc h' = hcalc h /\
  (NoDup G -> forall x, hinf h' x = if memn x G then g (hinf h x) else hinf h x).
Proof.
  unfold h_relabel. induction G as [|m G IH]; intros h; cbn [fold_left]; [repeat split; reflexivity|].
  destruct (IH (set_inf h m (g (hinf h m)))) as (I1 & I2 & I3 & I4 & I5 & I6 & I7 & I8 & I9).
  cbn [set_inf hpar hch htr hall hreg hidx htyped hcalc hinf] in *.
  refine (conj I1 (conj I2 (conj I3 (conj I4 (conj I5 (conj I6 (conj I7 (conj I8 _)))))))).
  intros ND x. inversion ND as [|y ys Nm NDG]; subst. rewrite (I9 NDG). cbn [memn existsb]. unfold upd. rewrite (Nat.eqb_sym x m).
  destruct (Nat.eqb m x) eqn:E; cbn [orb]; [|reflexivity]. apply Nat.eqb_eq in E. subst x.
  replace (memn m G) with false by (symmetry; now apply memn_false). reflexivity.
Qed.

(* SUB-STEP: the payload of a group of nodes changes *)
Lemma Rep_relabel h t G g r' ix' : WF t -> Rep h t -> NoDup G ->
  Rep (set_regidx (h_relabel h G g) r' ix') (set_all t (relabel G g (forest_of t)) r' ix').
Proof.
  intros W R NG. set (f := forest_of t) in *.
  destruct (relabel_rows g 0 G f (wf_nodup t W) NG) as (E1 & E2).
  destruct (h_relabel_fields g G h) as (I1 & I2 & I3 & I4 & I5 & I6 & I7 & I8 & I9). specialize (I9 NG).
  constructor; cbn [set_all forest_of reg idx typed calc set_regidx hreg hidx htyped hcalc hch hpar htr hinf hall]; fold f;
    rewrite ?I1, ?I2, ?I3, ?I4, ?I7, ?I8; try reflexivity; try apply R.
  - intros p. rewrite E1, kids_rel. apply R.
  - intros r0 Hr0. rewrite E1 in Hr0. apply in_map_iff in Hr0. destruct Hr0 as (r & <- & Hr).
    destruct (rep_node h t R r Hr) as (H1 & H2 & H3). rewrite rel_row_id, rel_row_par. refine (conj H1 (conj H2 _)).
    rewrite I9. unfold rel_row, inb. fold (memn (r_id r) G). destruct (memn (r_id r) G); [cbn [r_info snd]; now rewrite H3|exact H3].
  - rewrite E2. apply R.
Qed.

Lemma Rep_relabel_keep h t G g : WF t -> Rep h t -> NoDup G ->
  Rep (h_relabel h G g) (set_forest t (relabel G g (forest_of t))).
Proof.
  intros W R NG. assert (X := Rep_relabel h t G g (reg t) (idx t) W R NG).
  destruct (h_relabel_fields g G h) as (_ & _ & _ & _ & I5 & I6 & _).
  replace (set_regidx (h_relabel h G g) (reg t) (idx t)) with (h_relabel h G g) in X.
  - now destruct t.
  - unfold set_regidx. rewrite <- (rep_reg h t R), <- (rep_idx h t R), <- I5, <- I6. now destruct (h_relabel h G g).
Qed.

(* the sibling test of set_data *)
Lemma sib_clash_agree h t G e m dold : WF t -> Rep h t -> In m (ids (forest_of t)) -> In m G -> e <> dold ->
  (forall x, In x G -> In (x, dold) (keys (forest_of t))) ->
  h_sib_clash h e m = sib_clash (forest_of t) G e m.
Proof.
  intros W R Hm Gm Ne HG. set (f := forest_of t) in *. unfold h_sib_clash, sib_clash. fold f.
  destruct (get_node_complete m f Hm) as (s & Gs). destruct (get_node_loc m f s Gs) as (q0 & i & l & E & N). rewrite E.
  destruct (node_loc_spec m f q0 i l E) as (Gc & s' & N' & Rs & _ & Ps). rewrite N in N'. injection N' as <-.
  assert (Row := rows_child_in q0 f l 0 s Gc (nth_error_In _ _ N)). rewrite Rs in Row.
  destruct (rep_node h t R _ Row) as (Hp & _). cbn [r_id r_par fst snd] in Hp. rewrite Hp.
  assert (Hl := rep_children_ctx h t q0 l W R Gc). fold f in Hl. rewrite Hl, existsb_map. apply existsb_ext_in'. intros x Hx.
  assert (Px : In x (pre_f f)) by (apply (get_ch_pre q0 f l Gc); now apply in_pre_f_top).
  unfold hdid. rewrite (rep_info h t x R Px). fold (rdid x).
  destruct (did_eqb (rdid x) e) eqn:Ed; [|reflexivity]. apply did_eqb_eq in Ed. cbn [andb]. symmetry. apply negb_true_iff.
  fold (inb (rid x) G). apply inb_false. intros Y. apply Ne. rewrite <- Ed.
  assert (K1 := HG _ Y). assert (K2 := keys_in f x Px).
  assert (NK : NoDup (map fst (keys f))) by (rewrite keys_fst; apply W).
  assert (X := NoDup_map_inj fst _ _ _ NK K2 K1 eq_refl). now injection X.
Qed.

Lemma sim_set_data_core hw w ti h t n s new_data new_did wcl :
  WFw w -> RepW hw w -> h_get hw ti = Some h -> get_tree w ti = Some t -> Rep h t ->
  get_node n (forest_of t) = Some s -> (forall e, new_did = Some e -> e <> rdid s) ->
  Sim (h_set_data_core hw ti h n new_data new_did wcl) (set_data_core w ti t n s new_data new_did wcl).
Proof.
  intros W RW Gh Gt R Gn Hne. assert (Wt := WFw_tree w ti t W Gt). set (f := forest_of t) in *.
  destruct (get_node_spec n f s Gn) as (Ps & Rs).
  assert (Ed : hdid h n = rdid s) by (unfold hdid; rewrite <- Rs; now rewrite (rep_info h t s R Ps)).
  unfold h_set_data_core, set_data_core. rewrite Ed, (rep_idx h t R). fold f.
  set (cur := idx_get (rdid s) (idx t)).
  assert (Kn : In (n, rdid s) (keys f)) by (rewrite <- Rs; now apply keys_in).
  assert (Hcur : forall m, In m cur <-> In (m, rdid s) (keys f)) by (intros m; apply (idx_get_keys t m (rdid s) Wt)).
  assert (Ncur : NoDup cur).
  { destruct (WF_spelled t Wt) as (_ & _ & _ & _ & Gr & _). unfold cur, idx_get.
    destruct (find (fun e => did_eqb (fst e) (rdid s)) (idx t)) as [e0|] eqn:E; [|constructor].
    apply find_some in E. destruct E as [E _]. rewrite Forall_forall in Gr. now apply (Gr e0 E). }
  destruct (Nat.ltb 1 (length cur) && match wcl with None => true | _ => false end); [now apply Sim_same|].
  set (wc := match wcl with Some true => true | _ => false end).
  destruct new_did as [e|].
  - specialize (Hne e eq_refl).
    set (G := if Nat.ltb 1 (length cur) && wc then cur else [n]).
    assert (NG : NoDup G) by (unfold G; destruct (Nat.ltb 1 (length cur) && wc); [assumption|constructor; [intros []|constructor]]).
    assert (HG : forall m, In m G -> In (m, rdid s) (keys f)).
    { unfold G. destruct (Nat.ltb 1 (length cur) && wc); [intros m Hm; now apply Hcur|intros m [<-|[]]; assumption]. }
    assert (HGi : forall m, In m G -> In m (ids f)).
    { intros m Hm. rewrite <- (keys_fst f). change m with (fst (m, rdid s)). apply in_map. now apply HG. }
    replace (existsb (h_sib_clash h e) G) with (existsb (sib_clash f G e) G)
      by (apply existsb_ext_in'; intros m Hm; symmetry; apply (sib_clash_agree h t G e m (rdid s)); auto).
    destruct (existsb (sib_clash f G e) G); [now apply Sim_same|].
    split; [reflexivity|]. cbn [snd]. unfold h_put, put_tree. rewrite (repw_next hw w RW). apply RepW_put; [assumption|].
    rewrite (rep_reg h t R). now apply Rep_relabel.
  - destruct new_data as [x|]; [|now apply Sim_same].
    set (G := if wc then cur else [n]).
    assert (NG : NoDup G) by (unfold G; destruct wc; [assumption|constructor; [intros []|constructor]]).
    split; [reflexivity|]. cbn [snd]. unfold h_put, put_tree. rewrite (repw_next hw w RW). apply RepW_put; [assumption|].
    now apply Rep_relabel_keep.
Qed.

Theorem sim_op_set_data hw w ti n d explicit wcl : WFw w -> RepW hw w ->
  Sim (h_op_set_data hw ti n d explicit wcl) (op_set_data w ti n d explicit wcl).
Proof.
  intros W RW. rewrite op_set_data_eq. unfold h_op_set_data. assert (G := RepW_get hw w ti RW).
  destruct (h_get hw ti) as [h|] eqn:Gh; destruct (get_tree w ti) as [t|] eqn:Gt; try contradiction; [|now apply Sim_same].
  assert (Wt := WFw_tree w ti t W Gt). assert (Ln := h_live_ids h t n Wt G).
  destruct (get_node n (forest_of t)) as [s|] eqn:Gn.
  2:{ replace (h_live h n) with false; [now apply Sim_same|]. destruct (h_live h n); [|reflexivity].
      destruct (get_node_complete n _ (proj1 Ln eq_refl)) as (s & X). congruence. }
  destruct (get_node_spec n _ s Gn) as (Ps & Rs).
  replace (h_live h n) with true by (symmetry; apply Ln; rewrite <- Rs; unfold ids; now apply in_map). cbn [negb].
  assert (Ei : hinf h n = rinfo s) by (rewrite <- Rs; now apply (rep_info h t s G Ps)).
  rewrite Ei, (rep_calc h t G). fold (rdid s).
  assert (Core : forall nd did', Sim (h_set_data_core hw ti h n nd (sd_new_did s did') wcl) (set_data_core w ti t n s nd (sd_new_did s did') wcl)).
  { intros nd did'. apply sim_set_data_core; auto. intros e E. unfold sd_new_did in E.
    destruct did' as [e1|]; [|discriminate]. destruct (did_eqb e1 (rdid s)) eqn:Q; [discriminate|].
    injection E as <-. intros X. rewrite X, did_eqb_refl in Q. discriminate. }
  unfold sd_new_did in Core.
  destruct d as [x|]; destruct explicit as [e0|]; try (now apply Sim_same); unfold sd_did', sd_new_data, sd_new_did; cbn [option_map];
    try destruct (Z.eqb (d_obj x) (i_obj (rinfo s))); cbn [option_map]; try destruct (calc_id (calc t) x); cbn [option_map];
    try (now apply Sim_same);
    match goal with
    | |- Sim (h_set_data_core _ _ _ _ ?nd (if did_eqb ?e _ then _ else _) _) _ => exact (Core nd (Some e))
    | |- Sim (h_set_data_core _ _ _ _ ?nd None _) _ => exact (Core nd None)
    end.
Qed.

Theorem sim_op_rename hw w ti n d : WFw w -> RepW hw w -> Sim (h_op_rename hw ti n d) (op_rename w ti n d).
Proof.
  intros W RW. unfold h_op_rename, op_rename. assert (G := RepW_get hw w ti RW).
  destruct (h_get hw ti) as [h|] eqn:Gh; destruct (get_tree w ti) as [t|] eqn:Gt; try contradiction; [|now apply Sim_same].
  assert (Wt := WFw_tree w ti t W Gt). assert (Ln := h_live_ids h t n Wt G).
  destruct (get_node n (forest_of t)) as [s|] eqn:Gn.
  2:{ replace (h_live h n) with false; [now apply Sim_same|]. destruct (h_live h n); [|reflexivity].
      destruct (get_node_complete n _ (proj1 Ln eq_refl)) as (s & X). congruence. }
  destruct (get_node_spec n _ s Gn) as (Ps & Rs).
  replace (h_live h n) with true by (symmetry; apply Ln; rewrite <- Rs; unfold ids; now apply in_map). cbn [negb].
  rewrite <- Rs, (rep_info h t s G Ps), Rs. destruct (i_isstr (rinfo s)); [now apply sim_op_set_data|now apply Sim_same].
Qed.
