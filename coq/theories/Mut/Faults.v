(* C13, fault half: exceptions escaping from user callbacks, and what partial
   effect may remain.  The callbacks of the machine are tables that may answer
   "raise" for any argument (calc_data_id: [calcspec]; sort key: [keyt]; filter
   predicate: [verdicts]); all theorems quantify over the whole table, so "the
   k-th invocation raises" is covered for every k at once.

   Uses the preservation theorem of Invariant.v (WFw is kept by every step).
   set_data, rename and remove return the world itself on every error exit. *)
From Coq Require Import List ZArith Bool Arith Lia Permutation.
From NT Require Import Sx Rose ListFacts RoseFacts Surgery SurgeryFacts Machine WF MachineFacts
  PreserveSteps PreserveOps PreserveSort PreserveMore Invariant Effects RefusalC13.
Import ListNotations.

(* [keeps_eq w r]: an error exit returns the world itself (not even an allocation) *)
Definition keeps_eq (w : world) (r : res * world) : Prop :=
  match fst r with Err _ => snd r = w | Ok _ => True end.

Lemma keeps_eq_set_data w ti n d e wc : keeps_eq w (op_set_data w ti n d e wc).
Proof. unfold keeps_eq, op_set_data. brk; fin. Qed.

Lemma keeps_eq_rename w ti n d : keeps_eq w (op_rename w ti n d).
Proof.
  unfold op_rename. destruct (get_tree w ti); [|reflexivity]. destruct (get_node n (forest_of t)); [|reflexivity].
  destruct (i_isstr (rinfo r)); [apply keeps_eq_set_data|reflexivity].
Qed.

Lemma keeps_eq_remove w ti n keep wc : keeps_eq w (op_remove w ti n keep wc).
Proof. unfold keeps_eq, op_remove. brk; fin. Qed.

(* every error exit of every operation - in particular every escaped callback
   exception - leaves a well-formed world: an instance of the step theorem of
   Invariant.v (WFw is kept by EVERY step, whatever its result) *)
Theorem error_WFw w o e : WFw w -> fst (step w o) = Err e -> WFw (snd (step w o)).
Proof. intros H _. now apply WFw_step. Qed.

Corollary callback_fault_WFw w o : WFw w -> fst (step w o) = Err ECrash -> WFw (snd (step w o)).
Proof. intros H E. now apply (error_WFw w o ECrash). Qed.

(* ---- which operations invoke a user callback ---- *)
Definition takes_callback (o : op) : bool :=
  match o with
  | OAdd _ _ _ _ _ _ | OShort _ _ _ _ _ _ | OSetData _ _ _ _ _ | ORename _ _ _ | ODel _ _
  | OFromDict _ _ _ | OSort _ _ _ _ _ | OFilter _ _ _ => true
  | _ => false
  end.

(* calc_data_id raising (add, shortcuts, set_data, rename, del, from_dict): nothing changed *)
Theorem calc_fault_unchanged w o :
  takes_callback o = true -> partial_on_crash o = false -> fst (step w o) = Err ECrash ->
  trees (snd (step w o)) = trees w.
Proof.
  intros T P E. apply (error_single w o ECrash); try assumption. destruct o; try discriminate T; reflexivity.
Qed.

(* ---- sort: whatever the key table answers, only the order of child lists changes ---- *)
Lemma get_put_len w ti t t' : get_tree w ti = Some t -> length (trees (put_tree w ti t')) = length (trees w).
Proof.
  unfold get_tree, put_tree. cbn [trees]. intros G. destruct (nth_error_split _ _ G) as (a & b & -> & <-).
  rewrite upd_nth_split, !app_length. reflexivity.
Qed.

Theorem sort_effect w ti p k rv dp t :
  get_tree w ti = Some t ->
  exists t', get_tree (snd (op_sort w ti p k rv dp)) ti = Some t'
    /\ reg t' = reg t /\ idx t' = idx t
    /\ Permutation (rows 0 (forest_of t)) (rows 0 (forest_of t'))
    /\ (forall tj, tj <> ti -> get_tree (snd (op_sort w ti p k rv dp)) tj = get_tree w tj)
    /\ next (snd (op_sort w ti p k rv dp)) = next w.
Proof.
  intros Gt. unfold op_sort. rewrite Gt.
  destruct (parent_path p (forest_of t)) as [pq|]; [|exists t; cbn [snd]; repeat split; auto].
  destruct (get_ch pq (forest_of t)) as [ch|] eqn:G; [|exists t; cbn [snd]; repeat split; auto].
  assert (L := sort_list_rel k rv dp ch). destruct (sort_list k rv dp ch) as [ch' failed]. cbn [fst snd] in *.
  eexists. split; [apply (get_put_same w ti t _ Gt)|]. cbn [reg idx set_forest forest_of].
  split; [reflexivity|]. split; [reflexivity|]. split; [|split; [|reflexivity]].
  - destruct (upd_ch_context pq (forest_of t) 0 ch G) as (A & B & E1 & E2). rewrite E1, E2.
    apply Permutation_app_head, Permutation_app_tail. apply L.
  - intros tj Hj. apply get_put_other. congruence.
Qed.

(* the rows of a forest list (parent, node, payload) of every node: a permutation of
   the rows means that every node kept its parent, data, data_id, kind and meta and
   that every child list is a permutation of what it was *)

(* ---- in-place filter: whatever the verdict table answers, nodes are only removed ---- *)
Lemma rows_cut_incl pq f a X b o : get_ch pq f = Some (a ++ X ++ b) ->
  incl (rows o (upd_ch pq (fun _ => a ++ b) f)) (rows o f).
Proof.
  intros G r Hr. apply (Permutation_in _ (Permutation_sym (rows_cut_perm pq f a X b o G))). apply in_or_app. now right.
Qed.

Lemma remove_branch_rows t n t' : remove_branch t n = Some t' -> incl (rows 0 (forest_of t')) (rows 0 (forest_of t)).
Proof.
  unfold remove_branch. destruct (detach n (forest_of t)) as [[s f1]|] eqn:E; [|discriminate].
  destruct (detach_spec n _ s f1 E) as (q0 & a & b & G & -> & _).
  destruct (unregister_all _ _ _). intros X. injection X as <-. cbn [forest_of set_all].
  apply (rows_cut_incl q0 (forest_of t) a [s] b 0 G).
Qed.

Lemma remove_kids_rows t n t' : remove_kids t n = Some t' -> incl (rows 0 (forest_of t')) (rows 0 (forest_of t)).
Proof.
  unfold remove_kids. destruct (parent_path n (forest_of t)) as [pq|]; [|discriminate].
  destruct (get_ch pq (forest_of t)) as [ch|] eqn:G; [|discriminate].
  destruct (unregister_all _ _ _). intros X. injection X as <-. cbn [forest_of set_all].
  assert (G' : get_ch pq (forest_of t) = Some ([] ++ ch ++ [])) by (now rewrite app_nil_r).
  apply (rows_cut_incl pq (forest_of t) [] ch [] 0 G').
Qed.

Lemma apply_fact_rows t a : incl (rows 0 (forest_of (apply_fact t a))) (rows 0 (forest_of t)).
Proof.
  destruct a as [n|n]; cbn [apply_fact].
  - destruct (remove_branch t n) as [t'|] eqn:E; [now apply (remove_branch_rows t n)|apply incl_refl].
  - destruct (remove_kids t n) as [t'|] eqn:E; [now apply (remove_kids_rows t n)|apply incl_refl].
Qed.

Lemma apply_facts_rows acts : forall t, incl (rows 0 (forest_of (fold_left apply_fact acts t))) (rows 0 (forest_of t)).
Proof.
  induction acts as [|a acts IH]; intros t; cbn [fold_left]; [apply incl_refl|].
  intros r Hr. apply (apply_fact_rows t a). now apply IH.
Qed.

Theorem filter_effect w ti n vd t :
  get_tree w ti = Some t ->
  exists t', get_tree (snd (op_filter w ti n vd)) ti = Some t'
    /\ incl (rows 0 (forest_of t')) (rows 0 (forest_of t))
    /\ (forall tj, tj <> ti -> get_tree (snd (op_filter w ti n vd)) tj = get_tree w tj)
    /\ next (snd (op_filter w ti n vd)) = next w.
Proof.
  intros Gt. unfold op_filter. rewrite Gt.
  destruct (children_of n (forest_of t)) as [ch|]; [|exists t; cbn [snd]; repeat split; auto; apply incl_refl].
  destruct (fvisit vd (T 0 dummy_info ch) false) as [[[must acts] stopped] failed]. cbn [snd].
  eexists. split; [apply (get_put_same w ti t _ Gt)|]. split; [apply apply_facts_rows|]. split; [|reflexivity].
  intros tj Hj. apply get_put_other. congruence.
Qed.

(* ---- read-only: Tree.copy / Node.copy leave every existing tree as it is ---- *)
Theorem tree_copy_pure w sti ti : ti < length (trees w) ->
  get_tree (snd (op_tree_copy w sti)) ti = get_tree w ti.
Proof.
  intros L. unfold op_tree_copy. destruct (get_tree w sti) as [st|]; [|reflexivity].
  destruct (copy_f _ _ _ _) as [kids n']. destruct (register_all _ _ _). cbn [snd]. unfold get_tree. cbn [trees].
  now apply nth_error_app1.
Qed.

Theorem node_copy_pure w sti src a ti : ti < length (trees w) ->
  get_tree (snd (op_node_copy w sti src a)) ti = get_tree w ti.
Proof.
  intros L. unfold op_node_copy. destruct (get_tree w sti) as [st|]; [|reflexivity].
  destruct (get_node src (forest_of st)) as [s|]; [|reflexivity].
  destruct (copy_f _ _ _ _) as [kids n']. destruct (register_all _ _ _). cbn [snd]. unfold get_tree. cbn [trees].
  now apply nth_error_app1.
Qed.

(* ---- copies between trees: the source tree (any tree but the target) keeps its state ---- *)
Lemma add_node_other w ti p sti src e k b deep tj : tj <> ti ->
  get_tree (snd (op_add_node w ti p sti src e k b deep)) tj = get_tree w tj.
Proof.
  intros Hj. unfold op_add_node. brk; cbn [snd]; try reflexivity; (rewrite get_put_other by congruence); reflexivity.
Qed.

Lemma add_nodes_other srcs : forall w ti p sti b deep acc tj, tj <> ti ->
  get_tree (snd (add_nodes w ti p sti srcs b deep acc)) tj = get_tree w tj.
Proof.
  induction srcs as [|s rest IH]; intros w ti p sti b deep acc tj Hj; cbn [add_nodes]; [reflexivity|].
  assert (X := add_node_other w ti p sti s None None b deep tj Hj).
  destruct (op_add_node w ti p sti s None None b deep) as [[r|e] w']; cbn [snd] in *; [|exact X].
  rewrite IH by assumption. exact X.
Qed.

Theorem add_tree_source_pure w ti p sti b deep tj : tj <> ti ->
  get_tree (snd (op_add_tree w ti p sti b deep)) tj = get_tree w tj.
Proof.
  intros Hj. unfold op_add_tree. destruct (get_tree w ti) as [t|]; [|reflexivity]. destruct (get_tree w sti) as [st|]; [|reflexivity].
  repeat match goal with |- context [if ?c then (Err _, w) else _] => destruct c; [reflexivity|] end.
  cbv zeta.
  match goal with |- context [add_nodes w ti p sti ?o ?bb ?d []] => assert (X := add_nodes_other o w ti p sti bb d [] tj Hj);
    destruct (add_nodes w ti p sti o bb d []) as [[r|e] w'] end; exact X.
Qed.

Theorem copy_to_source_pure w sti src ti target add_self b deep tj : tj <> ti ->
  get_tree (snd (op_copy_to w sti src ti target add_self b deep)) tj = get_tree w tj.
Proof.
  intros Hj. unfold op_copy_to. destruct add_self; [now apply add_node_other|].
  destruct (get_tree w ti) as [t|]; [|reflexivity]. destruct (get_tree w sti) as [st|]; [|reflexivity].
  destruct (children_of src (forest_of st)) as [[|c ch]|]; [reflexivity| |reflexivity].
  repeat match goal with |- context [if ?c then (Err _, w) else _] => destruct c; [reflexivity|] end.
  match goal with |- context [add_nodes w ti target sti ?o BNone ?d []] => assert (X := add_nodes_other o w ti target sti BNone d [] tj Hj);
    destruct (add_nodes w ti target sti o BNone d []) as [[r|e] w'] end; exact X.
Qed.

(* ---- ECrash is the class of escaped callback exceptions: only operations that invoke a
   callback can end with it ---- *)
Definition no_crash (r : res * world) : Prop := fst r <> Err ECrash.

Lemma no_crash_add_node w ti p sti src e k b deep : no_crash (op_add_node w ti p sti src e k b deep).
Proof. unfold no_crash, op_add_node. brk; cbn [fst]; discriminate. Qed.

Lemma no_crash_add_nodes srcs : forall w ti p sti b deep acc, no_crash (add_nodes w ti p sti srcs b deep acc).
Proof.
  induction srcs as [|s rest IH]; intros w ti p sti b deep acc; cbn [add_nodes]; [discriminate|].
  assert (X := no_crash_add_node w ti p sti s None None b deep).
  destruct (op_add_node w ti p sti s None None b deep) as [[r|e] w']; [apply IH|exact X].
Qed.

Lemma no_crash_add_tree w ti p sti b deep : no_crash (op_add_tree w ti p sti b deep).
Proof.
  unfold op_add_tree. destruct (get_tree w ti) as [t|]; [|discriminate]. destruct (get_tree w sti) as [st|]; [|discriminate].
  repeat match goal with |- context [if ?c then (Err _, w) else _] => destruct c; [discriminate|] end. cbv zeta.
  match goal with |- context [add_nodes w ti p sti ?o ?bb ?d []] => assert (X := no_crash_add_nodes o w ti p sti bb d []);
    destruct (add_nodes w ti p sti o bb d []) as [[r|e] w'] end; [discriminate|exact X].
Qed.

Lemma no_crash_copy_to w sti src ti target a b deep : no_crash (op_copy_to w sti src ti target a b deep).
Proof.
  unfold op_copy_to. destruct a; [apply no_crash_add_node|].
  destruct (get_tree w ti) as [t|]; [|discriminate]. destruct (get_tree w sti) as [st|]; [|discriminate].
  destruct (children_of src (forest_of st)) as [[|c ch]|]; [discriminate| |discriminate].
  repeat match goal with |- context [if ?c then (Err _, w) else _] => destruct c; [discriminate|] end.
  match goal with |- context [add_nodes w ti target sti ?o BNone ?d []] => assert (X := no_crash_add_nodes o w ti target sti BNone d []);
    destruct (add_nodes w ti target sti o BNone d []) as [[r|e] w'] end; [discriminate|exact X].
Qed.

Definition may_invoke_callback (o : op) : bool :=
  takes_callback o || match o with OTreeFromDict _ => true | _ => false end.

Theorem crash_only_with_callback w o : fst (step w o) = Err ECrash -> may_invoke_callback o = true.
Proof.
  destruct o; cbn [step]; try reflexivity; intros E; exfalso; revert E.
  - apply no_crash_add_node.
  - apply no_crash_add_tree.
  - apply no_crash_copy_to.
  - unfold op_tree_copy. brk; cbn [fst]; discriminate.
  - unfold op_node_copy. destruct (get_tree w sti) as [st|]; [|discriminate]. destruct (get_node src (forest_of st)); [|discriminate].
    destruct (copy_f _ _ _ _). destruct (register_all _ _ _). discriminate.
  - unfold op_move. brk; cbn [fst]; discriminate.
  - unfold op_remove. brk; cbn [fst]; discriminate.
  - unfold op_remove_children. brk; cbn [fst]; discriminate.
  - unfold op_meta. brk; cbn [fst]; discriminate.
  - discriminate.
  - unfold op_clear, op_remove_children. brk; cbn [fst]; discriminate.
Qed.
