(* remove(keep_children=True, with_clones=True): a sequence of splices validated
   up front on the fully contracted sibling lists ([keep_collides_all]). *)
From Coq Require Import List ZArith Bool Arith Lia Permutation.
From NT Require Import Sx Rose ListFacts RoseFacts Surgery SurgeryFacts Machine WF MachineFacts PreserveSteps PreserveOps PreserveRelabel.
Import ListNotations.

Section Contract.
  Variable V : list nat.

  Definition dc (l : list rt) : list did := map rdid (flat_map (contract_t V) l).
  (* the child lists of a forest *)
  Definition CL (f : forest) (l : list rt) : Prop := l = f \/ exists x, In x (pre_f f) /\ l = rch x.

  Lemma dc_app a b : dc (a ++ b) = dc a ++ dc b.
  Proof. unfold dc. now rewrite flat_map_app, map_app. Qed.
  Lemma dc_cons t l : dc (t :: l) = dc [t] ++ dc l.
  Proof. apply (dc_app [t] l). Qed.
  Lemma dc_in t : In (rid t) V -> dc [t] = dc (rch t).
  Proof. intros H. unfold dc. cbn [flat_map]. now rewrite app_nil_r, contract_t_in. Qed.
  Lemma dc_out t : ~ In (rid t) V -> dc [t] = [rdid t].
  Proof. intros H. unfold dc. cbn [flat_map]. now rewrite app_nil_r, contract_t_out. Qed.

  Lemma CL_sub f t l : In t (pre_f f) -> CL (rch t) l -> CL f l.
  Proof.
    intros Ht [->|(y & Hy & ->)]; right; [now exists t|]. exists y. split; [|reflexivity]. now apply (pre_f_sub f t).
  Qed.

  (* splicing a victim changes no contracted list *)
  Lemma splice_dc : forall q0 f a s b, get_ch q0 f = Some (a ++ s :: b) -> In (rid s) V ->
    dc (upd_ch q0 (fun _ => a ++ rch s ++ b) f) = dc f /\
    forall l', CL (upd_ch q0 (fun _ => a ++ rch s ++ b) f) l' -> exists l0, CL f l0 /\ dc l' = dc l0.
  Proof.
    induction q0 as [|i rest IH]; intros f a s b G Hs.
    - cbn in G. injection G as ->. cbn [upd_ch].
      assert (E : dc (a ++ rch s ++ b) = dc (a ++ s :: b)).
      { rewrite !dc_app, (dc_cons s b), (dc_in s Hs). reflexivity. }
      split; [exact E|]. intros l' [->|(x & Hx & ->)].
      + exists (a ++ s :: b). split; [now left|exact E].
      + exists (rch x). split; [|reflexivity]. right. exists x. split; [|reflexivity].
        rewrite !flat_map_app in *. cbn [flat_map]. rewrite !in_app_iff in *. destruct Hx as [Hx|[Hx|Hx]]; [now left| |right; now right].
        right. left. rewrite pre_unfold. now right.
    - cbn [get_ch upd_ch] in *. destruct (nth_error f i) as [t|] eqn:E; [|discriminate].
      destruct (nth_error_split f i E) as (f1 & f2 & -> & <-). rewrite upd_nth_split.
      destruct (IH (rch t) a s b G Hs) as (D1 & D2).
      set (t' := set_ch (upd_ch rest (fun _ => a ++ rch s ++ b)) t) in *.
      assert (Rt : rid t' = rid t) by (now destruct t). assert (Dt : rdid t' = rdid t) by (now destruct t).
      assert (Ct : rch t' = upd_ch rest (fun _ => a ++ rch s ++ b) (rch t)) by (now destruct t).
      assert (E1 : dc [t'] = dc [t]).
      { destruct (in_dec Nat.eq_dec (rid t) V) as [I|I].
        - rewrite (dc_in t' (eq_ind_r (fun z => In z V) I Rt)), (dc_in t I), Ct. exact D1.
        - rewrite (dc_out t I), dc_out by (now rewrite Rt). now rewrite Dt. }
      assert (Ht : In t (pre_f (f1 ++ t :: f2))) by (apply in_pre_f_top, in_or_app; right; now left).
      split.
      + rewrite !dc_app, (dc_cons t' f2), (dc_cons t f2), E1. reflexivity.
      + intros l' [->|(x & Hx & ->)].
        * exists (f1 ++ t :: f2). split; [now left|]. rewrite !dc_app, (dc_cons t' f2), (dc_cons t f2), E1. reflexivity.
        * rewrite flat_map_app in Hx. cbn [flat_map] in Hx. rewrite !in_app_iff in Hx. destruct Hx as [Hx|[Hx|Hx]].
          -- exists (rch x). split; [|reflexivity]. right. exists x. split; [|reflexivity]. rewrite flat_map_app. apply in_or_app. now left.
          -- rewrite pre_unfold in Hx. destruct Hx as [<-|Hx].
             ++ destruct (D2 (rch t')) as (l0 & C0 & E0); [left; exact Ct|]. exists l0. split; [|exact E0]. now apply (CL_sub _ t).
             ++ destruct (D2 (rch x)) as (l0 & C0 & E0); [right; exists x; split; [now rewrite <- Ct|reflexivity]|].
                exists l0. split; [|exact E0]. now apply (CL_sub _ t).
          -- exists (rch x). split; [|reflexivity]. right. exists x. split; [|reflexivity]. rewrite flat_map_app. apply in_or_app. right.
             cbn [flat_map]. apply in_or_app. now right.
  Qed.
End Contract.

(* rows of children *)
Lemma rows_child_of :
  (forall t o x c, In x (pre t) -> In c (rch x) -> In (rid x, rid c, rinfo c) (rows_t o t)) /\
  (forall f o x c, In x (pre_f f) -> In c (rch x) -> In (rid x, rid c, rinfo c) (rows o f)).
Proof.
  apply rt_forest_ind.
  - intros id i ch IH o x c Hx Hc. cbn [pre] in Hx. cbn [rows_t]. destruct Hx as [<-|Hx].
    + right. cbn [rid rch] in *. now apply rows_top.
    + right. now apply IH.
  - intros o x c [].
  - intros t f IHt IHf o x c Hx Hc. cbn [flat_map] in *. apply in_app_or in Hx. apply in_or_app.
    destruct Hx as [Hx|Hx]; [left; now apply IHt|right; now apply IHf].
Qed.

Lemma CL_unique f l1 l2 y : NoDup (ids f) -> ~ In 0 (ids f) -> CL f l1 -> CL f l2 -> In y l1 -> In y l2 -> l1 = l2.
Proof.
  intros ND Z C1 C2 H1 H2.
  assert (Top : forall l, l = f -> In y l -> In (0, rid y, rinfo y) (rows 0 f)) by (intros l -> Hy; now apply rows_top).
  assert (Sub : forall x, In x (pre_f f) -> In y (rch x) -> In (rid x, rid y, rinfo y) (rows 0 f))
    by (intros x Hx Hy; now apply (proj2 rows_child_of)).
  destruct C1 as [->|(x1 & Hx1 & ->)]; destruct C2 as [->|(x2 & Hx2 & ->)]; [reflexivity| | |].
  - exfalso. assert (E := rows_id_unique f 0 _ _ ND (Top f eq_refl H1) (Sub x2 Hx2 H2) eq_refl).
    injection E as E. apply Z. rewrite E. unfold ids. now apply in_map.
  - exfalso. assert (E := rows_id_unique f 0 _ _ ND (Top f eq_refl H2) (Sub x1 Hx1 H1) eq_refl).
    injection E as E. apply Z. rewrite E. unfold ids. now apply in_map.
  - assert (E := rows_id_unique f 0 _ _ ND (Sub x1 Hx1 H1) (Sub x2 Hx2 H2) eq_refl). injection E as E.
    now rewrite (node_unique f x1 x2 ND Hx1 Hx2 E).
Qed.

Lemma get_ch_CL q f l : get_ch q f = Some l -> CL f l.
Proof.
  intros G. destruct (get_ch_owner q f 0 l G) as [(_ & -> & _)|(s & Hs & _ & <-)]; [now left|right; now exists s].
Qed.

Lemma CL_pre f l y : CL f l -> In y l -> In y (pre_f f).
Proof. intros [->|(x & Hx & ->)] Hy; [now apply in_pre_f_top|now apply (pre_f_child_closed f x)]. Qed.

Lemma CL_SU f l : SU f -> CL f l -> SU l.
Proof. intros S [->|(x & Hx & ->)]; [assumption|now apply (SU_pre_f f)]. Qed.

(* all contracted child lists are duplicate-free once the up-front check passed *)
Definition Gall (V : list nat) (f : forest) : Prop := forall l, CL f l -> NoDup (dc V l).

Lemma Gall_init t V : WF t -> (forall v, In v V -> keep_collides_all t V v = false) -> Gall V (forest_of t).
Proof.
  intros H Hk l C. set (f := forest_of t) in *.
  destruct (existsb (fun y => inb (rid y) V) l) eqn:Ex.
  - apply existsb_exists in Ex. destruct Ex as (y & Hy & Iy). apply inb_In in Iy.
    specialize (Hk _ Iy). unfold keep_collides_all in Hk. fold f in Hk.
    assert (Py := CL_pre f l y C Hy).
    assert (Hid : In (rid y) (ids f)) by (unfold ids; now apply in_map).
    destruct (get_node_complete _ f Hid) as (s & Gs). destruct (get_node_loc _ f s Gs) as (q0 & i & lv & E & N).
    rewrite E in Hk. apply has_dup_did_spec in Hk.
    destruct (node_loc_spec _ f q0 i lv E) as (G & s' & N' & Rs & _ & Ps). rewrite N in N'. injection N' as <-.
    assert (s = y) by (apply (node_unique f); auto; apply H). subst s.
    assert (l = lv).
    { apply (CL_unique f l lv y); auto; try apply H. - now apply (get_ch_CL q0). - now apply nth_error_In in N. }
    subst lv. exact Hk.
  - unfold dc. rewrite contract_out.
    + apply SU_top. apply (CL_SU f); [apply H|assumption].
    + intros x Hx Ix. assert (Y : existsb (fun y => inb (rid y) V) l = true).
      { apply existsb_exists. exists x. split; [assumption|now apply inb_In]. }
      congruence.
Qed.

Lemma dc_member V l x : In x l -> ~ In (rid x) V -> In (rdid x) (dc V l).
Proof.
  intros Hx Nx. destruct (in_split _ _ Hx) as (l1 & l2 & ->). rewrite dc_app, dc_cons, (dc_out V x Nx).
  apply in_or_app. right. now left.
Qed.

Lemma splice_keys q0 f a s b : get_ch q0 f = Some (a ++ s :: b) ->
  Permutation (keys f) ((rid s, rdid s) :: keys (upd_ch q0 (fun _ => a ++ rch s ++ b) f)).
Proof.
  intros G. destruct (keys_context q0 f _ G) as (A' & B' & K1 & K2). specialize (K2 (fun _ => a ++ rch s ++ b)). cbn beta in K2.
  rewrite K1, K2, !keys_app, keys_cons. la. rewrite !(app_assoc A' (keys a)). symmetry. apply Permutation_middle.
Qed.

Lemma remove_keep_spec t n t' : remove_keep t n = Some t' ->
  exists q0 a s b, get_ch q0 (forest_of t) = Some (a ++ s :: b) /\ rid s = n /\
    t' = set_all t (upd_ch q0 (fun _ => a ++ rch s ++ b) (forest_of t)) (reg_del n (reg t)) (idx_del (rdid s) n (idx t)).
Proof.
  unfold remove_keep. destruct (node_loc n (forest_of t)) as [[[q0 i] l]|] eqn:E; [|discriminate].
  destruct (node_loc_spec n _ q0 i l E) as (G & s & N & R & _ & P). rewrite N.
  destruct (nth_error_split l i N) as (a & b & -> & <-).
  assert (Hf : upd_ch q0 (fun l => firstn (length a) l ++ rch s ++ skipn (S (length a)) l) (forest_of t)
               = upd_ch q0 (fun _ => a ++ rch s ++ b) (forest_of t)).
  { rewrite (upd_ch_const q0 _ _ _ G). destruct (firstn_skipn_split a s b) as [E1 E2]. now rewrite E1, E2. }
  rewrite Hf. intros X. injection X as <-. now exists q0, a, s, b.
Qed.

Section KeepClones.
  Variables (V : list nat) (d : did).

  Definition Vdid (t : tstate) : Prop := forall u, In u V -> In u (ids (forest_of t)) -> In (u, d) (keys (forest_of t)).

  Lemma Vdid_node t x : WF t -> Vdid t -> In x (pre_f (forest_of t)) -> In (rid x) V -> rdid x = d.
  Proof.
    intros H Hv Px Ix. assert (K1 := keys_in _ x Px). assert (K2 := Hv _ Ix (in_map rid _ _ Px)).
    assert (ND : NoDup (map fst (keys (forest_of t)))) by (rewrite keys_fst; apply H).
    assert (E := NoDup_map_inj fst _ _ _ ND K1 K2 eq_refl). now injection E.
  Qed.

  Lemma keep_step t q0 a s b : WF t -> Gall V (forest_of t) -> Vdid t -> In (rid s) V ->
    get_ch q0 (forest_of t) = Some (a ++ s :: b) ->
    forall c o, In c (rch s) -> In o (a ++ b) -> rdid o <> rdid c.
  Proof.
    intros H Ga Hv Is G c o Hc Ho E. set (f := forest_of t) in *.
    assert (C := get_ch_CL q0 f _ G). assert (ND := Ga _ C).
    assert (Sl : SU (a ++ s :: b)) by (apply (CL_SU f); [apply H|assumption]).
    assert (NS : ~ In (rdid s) (map rdid (a ++ b))).
    { apply SU_top in Sl. rewrite map_app in *. cbn [map] in Sl. now apply NoDup_remove_2 in Sl. }
    assert (Ps : In s (pre_f f)) by (apply (CL_pre f _ s C); apply in_or_app; right; now left).
    assert (Po : In o (pre_f f)).
    { apply (CL_pre f _ o C). apply in_app_or in Ho. apply in_or_app. destruct Ho; [now left|right; now right]. }
    assert (Pc : In c (pre_f f)) by (now apply (pre_f_child_closed f s)).
    assert (Ds := Vdid_node t s H Hv Ps Is).
    destruct (in_dec Nat.eq_dec (rid o) V) as [Io|Io].
    - apply NS. rewrite Ds, <- (Vdid_node t o H Hv Po Io). now apply in_map.
    - destruct (in_dec Nat.eq_dec (rid c) V) as [Ic|Ic].
      + apply NS. rewrite Ds, <- (Vdid_node t c H Hv Pc Ic), <- E. now apply in_map.
      + rewrite dc_app, dc_cons, (dc_in V s Is) in ND.
        assert (Mc := dc_member V (rch s) c Hc Ic). apply in_app_or in Ho. destruct Ho as [Ho|Ho].
        * apply (NoDup_app_disj _ _ (rdid c) ND); [rewrite <- E; now apply dc_member|]. apply in_or_app. now left.
        * apply NoDup_app_r in ND. apply (NoDup_app_disj _ _ (rdid c) ND); [assumption|]. rewrite <- E. now apply dc_member.
  Qed.

  Lemma keep_fold : forall vs t, incl vs V -> WF t -> Gall V (forest_of t) -> Vdid t ->
    let r := fold_left (fun acc v => if live acc v
                                     then match remove_one acc v true with Some a => a | None => acc end
                                     else acc) vs t in
    WF r /\ incl (ids (forest_of r)) (ids (forest_of t)).
  Proof.
    induction vs as [|v vs IH]; intros t Hi H Ga Hv; cbn [fold_left]; [split; [assumption|apply incl_refl]|].
    assert (Hi' : incl vs V) by (intros x Hx; apply Hi; now right).
    destruct (live t v); [|now apply IH]. cbn [remove_one].
    destruct (remove_keep t v) as [t1|] eqn:E; [|now apply IH].
    destruct (remove_keep_spec t v t1 E) as (q0 & a & s & b & G & R & ->).
    assert (Is : In (rid s) V) by (rewrite R; apply Hi; now left).
    destruct (WF_splice t q0 a s b H G (keep_step t q0 a s b H Ga Hv Is G)) as (W1 & P). rewrite R in W1.
    assert (Pk := splice_keys q0 _ a s b G).
    set (t1 := set_all t (upd_ch q0 (fun _ => a ++ rch s ++ b) (forest_of t)) (reg_del v (reg t)) (idx_del (rdid s) v (idx t))) in *.
    assert (Ga1 : Gall V (forest_of t1)).
    { intros l' C'. destruct (proj2 (splice_dc V q0 _ a s b G Is) l' C') as (l0 & C0 & E0). rewrite E0. now apply Ga. }
    assert (Hv1 : Vdid t1).
    { intros u Iu Hu. cbn [forest_of t1 set_all] in *.
      assert (Hu0 : In u (ids (forest_of t))) by (apply (Permutation_in _ (Permutation_sym P)); now right).
      assert (K := Hv u Iu Hu0). apply (Permutation_in _ Pk) in K. destruct K as [K|K]; [|assumption].
      exfalso. assert (Eu : rid s = u) by congruence. assert (ND : NoDup (rid s :: ids (upd_ch q0 (fun _ => a ++ rch s ++ b) (forest_of t)))) by (apply (Permutation_NoDup P), H).
      inversion ND as [|x l N1 N2]; subst. apply N1. exact Hu. }
    destruct (IH t1 Hi' W1 Ga1 Hv1) as (Wr & Ir). split; [assumption|].
    intros m Hm. apply Ir in Hm. apply (Permutation_in _ (Permutation_sym P)). now right.
  Qed.
End KeepClones.

(* remove(), every combination of keep_children / with_clones *)
Theorem WFx_op_remove_full w ti n keep wc : WFw w -> WFx w (snd (op_remove w ti n keep wc)).
Proof.
  intros H. destruct keep; [|now apply WFx_op_remove].
  unfold op_remove. destruct (get_tree w ti) as [t|] eqn:Gt; [|exact (WFx_refl w H)].
  destruct (did_of n (forest_of t)) as [d|] eqn:Dn; [|exact (WFx_refl w H)].
  assert (Wt := WFw_tree w ti t H Gt).
  set (V := if wc then filter (fun c => negb (Nat.eqb c n)) (idx_get d (idx t)) ++ [n] else [n]).
  cbn [andb]. destruct (existsb (keep_collides_all t V) V) eqn:Col; [exact (WFx_refl w H)|].
  cbn [snd]. unfold put_tree.
  assert (Kn : In (n, d) (keys (forest_of t))).
  { unfold did_of in Dn. destruct (get_node n (forest_of t)) as [s|] eqn:Gn; [|discriminate]. cbn in Dn. injection Dn as <-.
    destruct (get_node_spec n _ s Gn) as (Ps & <-). now apply keys_in. }
  assert (Hv : Vdid V d t).
  { intros u Iu _. unfold V in Iu. destruct wc.
    - apply in_app_or in Iu. destruct Iu as [Iu|[<-|[]]]; [|assumption]. apply filter_In in Iu. destruct Iu as [Iu _].
      now apply (idx_get_keys t u d Wt).
    - destruct Iu as [<-|[]]. assumption. }
  destruct (keep_fold V d V t (incl_refl V) Wt (Gall_init t V Wt (existsb_false_forall _ _ Col)) Hv) as (Wr & Ir).
  apply (WFx_put w ti t); auto.
Qed.

Theorem WFw_op_remove_full w ti n keep wc : WFw w -> WFw (snd (op_remove w ti n keep wc)).
Proof. intros H0. exact (proj1 (WFx_op_remove_full w ti n keep wc H0)). Qed.

