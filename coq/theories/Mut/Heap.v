(* Pointer-level model of the mutators of node.py / tree.py (as repaired, /repo HEAD):
   every node carries the raw attributes the Python object has,
     [hpar n] = n._parent      (Some 0 = the tree's system root, None = cleared / the root itself)
     [hch n]  = n._children    ([] stands for None: the code never stores an empty list)
     [htr n]  = n._tree is not None
     [hinf n] = data, data_id, kind, meta
   as total maps with functional update, one heap per tree (nodes never migrate between
   trees: cross-tree move_to is refused), key 0 = the system root of that tree; [hall] lists
   every node ever allocated in the tree (live, removed, or refused by _register).
   The registry and the clone index are the SAME explicit state as Machine.tstate.
   Each mutator is the sequence of attribute assignments the method performs.
   Executable definitions only, no proofs here. *)
From Coq Require Import List ZArith Bool Arith.
From NT Require Import Sx Rose Surgery Machine.
Import ListNotations.

Definition upd {X} (f : nat -> X) (k : nat) (v : X) : nat -> X :=
  fun n => if Nat.eqb n k then v else f n.

Record hstate := HS {
  hpar : nat -> option nat;
  hch : nat -> list nat;
  htr : nat -> bool;
  hinf : nat -> info;
  hall : list nat;
  hreg : list nat;
  hidx : idxt;
  htyped : bool;
  hcalc : calcspec;
  hfresh : bool      (* the system root still holds its initial EMPTY LIST object (`_children = []`, not None) *)
}.

Record hworld := HW { htrees : list hstate; hnext : nat }.

Definition dummy_i : info := I 0 0 0 false [] (DInt 0) None [].

(* Tree.__init__: the system root has no parent and belongs to the tree *)
Definition h_empty (ty : bool) (c : calcspec) : hstate :=
  HS (fun _ => None) (fun _ => []) (fun n => Nat.eqb n 0) (fun _ => dummy_i) [] [] [] ty c true.

Definition set_par (h : hstate) (n : nat) (v : option nat) : hstate :=
  HS (upd (hpar h) n v) (hch h) (htr h) (hinf h) (hall h) (hreg h) (hidx h) (htyped h) (hcalc h) (hfresh h).
Definition set_chl (h : hstate) (n : nat) (v : list nat) : hstate :=
  HS (hpar h) (upd (hch h) n v) (htr h) (hinf h) (hall h) (hreg h) (hidx h) (htyped h) (hcalc h) (hfresh h).
Definition set_tr (h : hstate) (n : nat) (v : bool) : hstate :=
  HS (hpar h) (hch h) (upd (htr h) n v) (hinf h) (hall h) (hreg h) (hidx h) (htyped h) (hcalc h) (hfresh h).
Definition set_inf (h : hstate) (n : nat) (v : info) : hstate :=
  HS (hpar h) (hch h) (htr h) (upd (hinf h) n v) (hall h) (hreg h) (hidx h) (htyped h) (hcalc h) (hfresh h).
Definition set_regidx (h : hstate) (r : list nat) (ix : idxt) : hstate :=
  HS (hpar h) (hch h) (htr h) (hinf h) (hall h) r ix (htyped h) (hcalc h) (hfresh h).
Definition add_all (h : hstate) (n : nat) : hstate :=
  HS (hpar h) (hch h) (htr h) (hinf h) (hall h ++ [n]) (hreg h) (hidx h) (htyped h) (hcalc h) (hfresh h).

(* the root's list object is (re)assigned or emptied: from now on an empty child list is None *)
Definition touch_root (h : hstate) (p : nat) : hstate :=
  if Nat.eqb p 0 then HS (hpar h) (hch h) (htr h) (hinf h) (hall h) (hreg h) (hidx h) (htyped h) (hcalc h) false else h.

Definition hdid (h : hstate) (n : nat) : did := i_did (hinf h n).
Definition memn (n : nat) (l : list nat) : bool := existsb (Nat.eqb n) l.

Definition h_get (w : hworld) (ti : nat) : option hstate := nth_error (htrees w) ti.
Definition h_put (w : hworld) (ti : nat) (h : hstate) : hworld :=
  HW (upd_nth ti (fun _ => h) (htrees w)) (hnext w).
Definition h_bump (w : hworld) (k : nat) : hworld := HW (htrees w) (hnext w + k).

(* a live parent reference: the root, or a registered node *)
Definition h_live (h : hstate) (n : nat) : bool := memn n (hreg h).
Definition h_plive (h : hstate) (p : nat) : bool := Nat.eqb p 0 || h_live h p.

(* ---- list placement on identities (children.insert / append) ---- *)
Fixpoint index_of (n : nat) (l : list nat) : option nat :=
  match l with
  | [] => None
  | x :: l' => if Nat.eqb x n then Some 0
               else match index_of n l' with Some k => Some (S k) | None => None end
  end.

Definition place_ids (b : nbefore) (x : nat) (ch : list nat) : list nat :=
  match ch with
  | [] => [x]                                        (* self._children = [node] *)
  | _ => match b with
         | NApp => ch ++ [x]                         (* children.append(node) *)
         | NIdx z => py_insert z x ch                (* children.insert(before, node) *)
         | NNode s => match index_of s ch with       (* children.insert(Node.get_index(before), node) *)
                      | Some j => insert_at j x ch
                      | None => ch ++ [x]
                      end
         end
  end.

(* `before._parent is self` *)
Definition h_before_ok (h : hstate) (p : nat) (b : nbefore) : bool :=
  match b with NNode s => memn s (hch h p) | _ => true end.

(* Tree._register: `for clone in clone_list: if clone.parent is node.parent: raise` *)
Definition h_collides (h : hstate) (p : nat) (d : did) : bool :=
  existsb (fun c => match hpar h c with Some q => Nat.eqb q p | None => false end) (idx_get d (hidx h)).

(* Node.__init__ up to (not including) tree._register *)
Definition h_init (h : hstate) (n p : nat) (inf : info) : hstate :=
  add_all (set_inf (set_chl (set_tr (set_par h n (Some p)) n true) n []) n inf) n.

(* Tree._register (success) *)
Definition h_register (h : hstate) (n : nat) : hstate :=
  set_regidx h (hreg h ++ [n]) (idx_add (hdid h n) n (hidx h)).

(* ---- add_child(data) ---- *)
Definition h_op_add (w : hworld) (ti p : nat) (d : dat) (explicit : option did) (k : kind) (b : before)
  : res * hworld :=
  match h_get w ti with
  | None => (Err EModel, w)
  | Some h =>
      if negb (h_plive h p) then (Err EModel, w)
      else
        let nb := norm_before b in
        if negb (h_before_ok h p nb) then (Err EValue, w)
        else
          let n := hnext w in
          let w1 := h_bump w 1 in
          match (match explicit with Some e => Some e | None => calc_id (hcalc h) d end) with
          | None => (Err ECrash, h_put w1 ti (h_init h n p dummy_i))   (* calc_data_id raised inside __init__: a dangling object *)
          | Some id =>
              let kd := if htyped h then match k with Some _ => k | None => Some [99; 104; 105; 108; 100]%Z end else None in
              let h1 := h_init h n p (mk_info d id kd []) in
              if h_collides h p id then (Err EUnique, h_put w1 ti h1)    (* _register raised: a dangling node *)
              else
                let h2 := h_register h1 n in
                let h3 := set_chl h2 p (place_ids nb n (hch h2 p)) in
                (Ok [n], h_put w1 ti (touch_root h3 p))
          end
  end.

(* ---- Tree._unregister(node): registry, index, then the attributes are nulled ---- *)
Definition h_unregister (h : hstate) (m : nat) : hstate :=
  let h1 := set_regidx h (reg_del m (hreg h)) (idx_del (hdid h m) m (hidx h)) in
  set_chl (set_par (set_tr h1 m false) m None) m [].

(* Node._iter_post of the descendants of n (fuel bounds the depth) *)
Fixpoint h_post (fuel : nat) (h : hstate) (n : nat) : list nat :=
  match fuel with
  | 0 => []
  | S f => flat_map (fun c => h_post f h c ++ [c]) (hch h n)
  end.
Fixpoint h_pre (fuel : nat) (h : hstate) (n : nat) : list nat :=
  match fuel with
  | 0 => []
  | S f => flat_map (fun c => c :: h_pre f h c) (hch h n)
  end.

Definition h_fuel (h : hstate) : nat := S (length (hall h)).

(* Node.remove_children *)
Definition h_remove_children (h : hstate) (n : nat) : hstate :=
  let h1 := fold_left h_unregister (h_post (h_fuel h) h n) h in
  touch_root (set_chl h1 n []) n.

Fixpoint remove_first_n (n : nat) (l : list nat) : list nat :=
  match l with
  | [] => []
  | x :: l' => if Nat.eqb x n then l' else x :: remove_first_n n l'
  end.

(* Node.remove() *)
Definition h_remove_plain (h : hstate) (n : nat) : hstate :=
  match hpar h n with
  | None => h
  | Some p =>
      let h1 := h_remove_children h n in
      let h2 := set_chl h1 p (remove_first_n n (hch h1 p)) in     (* del pc[idx]; None instead of [] *)
      h_unregister h2 n
  end.

(* Node.remove(keep_children=True): the children take the node's place *)
Fixpoint splice_n (n : nat) (kids : list nat) (l : list nat) : list nat :=
  match l with
  | [] => []
  | x :: l' => if Nat.eqb x n then kids ++ l' else x :: splice_n n kids l'
  end.

Definition h_remove_keep (h : hstate) (n : nat) : hstate :=
  match hpar h n with
  | None => h
  | Some p =>
      let kids := hch h n in
      let h1 := fold_left (fun a c => set_par a c (Some p)) kids h in       (* c._parent = self._parent *)
      let h2 := set_chl h1 p (splice_n n kids (hch h1 p)) in                (* pc[idx:idx+1] = children *)
      let h3 := set_chl h2 n [] in                                          (* self._children = None *)
      h_unregister h3 n
  end.

(* Node._check_keep_children on identities *)
Fixpoint h_kept (fuel : nat) (h : hstate) (victims : list nat) (p : nat) : list nat :=
  match fuel with
  | 0 => []
  | S f => flat_map (fun c => if memn c victims then h_kept f h victims c else [c]) (hch h p)
  end.
Definition h_keep_collides_all (h : hstate) (victims : list nat) (n : nat) : bool :=
  match hpar h n with
  | Some p => has_dup_did (map (hdid h) (h_kept (h_fuel h) h victims p))
  | None => false
  end.

Definition h_op_remove (w : hworld) (ti n : nat) (keep with_clones : bool) : res * hworld :=
  match h_get w ti with
  | None => (Err EModel, w)
  | Some h =>
      if negb (h_live h n) then (Err EModel, w)
      else
        let d := hdid h n in
        let victims := if with_clones then filter (fun c => negb (Nat.eqb c n)) (idx_get d (hidx h)) ++ [n] else [n] in
        if keep && existsb (h_keep_collides_all h victims) victims then (Err EUnique, w)
        else
          (* `if c._tree is None: continue`: for a node registered when the loop starts, _tree is None
             exactly when its registry entry is gone (Tree._unregister does both) *)
          let h' := fold_left (fun acc v => if h_live acc v
                                           then (if keep then h_remove_keep acc v else h_remove_plain acc v)
                                           else acc) victims h in
          (Ok [], h_put w ti h')
  end.

Definition h_op_remove_children (w : hworld) (ti n : nat) : res * hworld :=
  match h_get w ti with
  | None => (Err EModel, w)
  | Some h => if negb (h_plive h n) then (Err EModel, w)
              else (Ok [], h_put w ti (h_remove_children h n))
  end.

(* ---- move_to (same tree) ---- *)
(* new_parent is self or new_parent.is_descendant_of(self): walk the parent pointers upwards *)
Fixpoint h_is_anc (fuel : nat) (h : hstate) (a n : nat) : bool :=     (* a is n or an ancestor of n *)
  match fuel with
  | 0 => false
  | S f => Nat.eqb n a || match hpar h n with Some q => if Nat.eqb q 0 then false else h_is_anc f h a q | None => false end
  end.

Definition h_move_do (h : hstate) (n target : nat) (nb : nbefore) : hstate :=
  match hpar h n with
  | None => h
  | Some p =>
      let h1 := set_chl h p (remove_first_n n (hch h p)) in       (* del self._parent._children[idx] *)
      let h2 := set_par h1 n (Some target) in                     (* self._parent = new_parent *)
      touch_root (set_chl h2 target (place_ids nb n (hch h2 target))) target   (* insert / append *)
  end.

Definition h_op_move (w : hworld) (ti n tti target : nat) (b : before) : res * hworld :=
  match h_get w ti with
  | None => (Err EModel, w)
  | Some h =>
      if htyped h then (Err ENotImpl, w)
      else if negb (Nat.eqb ti tti) then (Err ENotImpl, w)
      else if negb (h_live h n && h_plive h target) then (Err EModel, w)
      else
        match hpar h n with
        | None => (Err EModel, w)
        | Some cur =>
            if (if Nat.eqb target 0 then false else h_is_anc (h_fuel h) h n target) then (Err EValue, w)
            else
              let nb := norm_before b in
              if negb (h_before_ok h target nb) then (Err EValue, w)
              else if negb (Nat.eqb cur target) && existsb (fun c => did_eqb (hdid h c) (hdid h n)) (hch h target)
              then (Err EUnique, w)
              else if (match nb with NNode s0 => Nat.eqb s0 n | _ => false end) then (Ok [], w)
              else (Ok [], h_put w ti (h_move_do h n target nb))
        end
  end.

(* ---- sort_children: the list objects are permuted in place ---- *)
Fixpoint ins_sorted_n (k : keyt) (x : nat) (l : list nat) : list nat :=
  match l with
  | [] => [x]
  | y :: l' =>
      match key_of k x, key_of k y with
      | Some kx, Some ky => if text_leb kx ky then x :: l else y :: ins_sorted_n k x l'
      | _, _ => x :: l
      end
  end.
Definition py_sort_n (k : keyt) (reverse : bool) (l : list nat) : list nat :=
  if reverse then rev (fold_right (ins_sorted_n k) [] (rev l)) else fold_right (ins_sorted_n k) [] l.
Definition keys_ok_n (k : keyt) (l : list nat) : bool :=
  forallb (fun n => match key_of k n with Some _ => true | None => false end) l.

(* shallow sort of one node's children *)
Definition h_sort_flat (h : hstate) (p : nat) (k : keyt) (reverse : bool) : hstate * bool :=
  match hch h p with
  | [] => (h, false)
  | [_] => (h, false)
  | cl => if negb (keys_ok_n k cl) then (h, true) else (set_chl h p (py_sort_n k reverse cl), false)
  end.

Definition h_op_sort_flat (w : hworld) (ti p : nat) (k : keyt) (reverse : bool) : res * hworld :=
  match h_get w ti with
  | None => (Err EModel, w)
  | Some h => if negb (h_plive h p) then (Err EModel, w)
              else let (h', failed) := h_sort_flat h p k reverse in
                   (if failed then Err ECrash else Ok [], h_put w ti h')
  end.

(* ---- set_data / meta: no pointer changes; payload, registry and index as in Machine ---- *)
Definition h_relabel (h : hstate) (group : list nat) (g : info -> info) : hstate :=
  fold_left (fun a m => set_inf a m (g (hinf a m))) group h.

(* `for sibling in n._parent._children: if sibling._data_id == new_data_id: raise` *)
Definition h_sib_clash (h : hstate) (e : did) (m : nat) : bool :=
  match hpar h m with
  | Some p => existsb (fun x => did_eqb (hdid h x) e) (hch h p)
  | None => false
  end.

Definition h_set_data_core (w : hworld) (ti : nat) (h : hstate) (n : nat)
           (new_data : option dat) (new_did : option did) (with_clones : option bool) : res * hworld :=
  let cur := idx_get (hdid h n) (hidx h) in
  let has_clones := Nat.ltb 1 (length cur) in
  let wc := match with_clones with Some true => true | _ => false end in
  if has_clones && (match with_clones with None => true | _ => false end)
  then (Err EAmbiguous, w)
  else
    let setd := fun inf => match new_data with Some x => set_dat_i x inf | None => inf end in
    match new_did with
    | Some e =>
        let group := if has_clones && wc then cur else [n] in
        if existsb (h_sib_clash h e) group then (Err EUnique, w)
        else
          let h' := h_relabel h group (fun inf => set_did_i e (setd inf)) in      (* n._data_id = ..; n._data = .. *)
          let ix' := if has_clones && wc then idx_move_group (hdid h n) e cur (hidx h)
                     else idx_add e n (idx_del (hdid h n) n (hidx h)) in
          (Ok [], h_put w ti (set_regidx h' (hreg h) ix'))
    | None =>
        match new_data with
        | Some _ =>
            let group := if wc then cur else [n] in
            (Ok [], h_put w ti (h_relabel h group setd))
        | None => (Ok [], w)
        end
    end.

Definition h_op_set_data (w : hworld) (ti n : nat) (d : option dat) (explicit : option did)
           (with_clones : option bool) : res * hworld :=
  match h_get w ti with
  | None => (Err EModel, w)
  | Some h =>
      if negb (h_live h n) then (Err EModel, w)
      else
        let inf := hinf h n in
        let new_data := match d with
                        | Some x => if Z.eqb (d_obj x) (i_obj inf) then None else Some x
                        | None => None
                        end in
        match d, explicit with
        | None, None => (Err EValue, w)
        | _, _ =>
            match (match new_data, explicit with
                   | Some x, None => option_map Some (calc_id (hcalc h) x)
                   | _, e => Some e
                   end) with
            | None => (Err ECrash, w)
            | Some did' =>
                h_set_data_core w ti h n new_data
                  (match did' with Some e => if did_eqb e (i_did inf) then None else Some e | None => None end) with_clones
            end
        end
  end.

Definition h_op_rename (w : hworld) (ti n : nat) (d : dat) : res * hworld :=
  match h_get w ti with
  | None => (Err EModel, w)
  | Some h => if negb (h_live h n) then (Err EModel, w)
              else if i_isstr (hinf h n) then h_op_set_data w ti n (Some d) None None
              else (Err EValue, w)
  end.

Definition h_op_meta (w : hworld) (ti n : nat) (o : metaop) : res * hworld :=
  match h_get w ti with
  | None => (Err EModel, w)
  | Some h => if h_live h n
              then (Ok [], h_put w ti (set_inf h n (set_meta_i (apply_meta o (i_meta (hinf h n))) (hinf h n))))
              else (Err EModel, w)
  end.

(* ---- copies: add_child(node), _add_from ---- *)
Definition copy_info (keep_kind : bool) (i : info) : info :=
  I (i_obj i) (i_eqc i) (i_hash i) (i_isstr i) (i_name i) (i_did i) (if keep_kind then i_kind i else None) [].

(* Node._add_from: `for child in other.children: new_child = self.add_child(child.data, data_id=child._data_id);
   if child.children: new_child._add_from(child)` - [hs] is the heap the source is read from *)
Fixpoint h_add_from (fuel : nat) (keep_kind : bool) (hs : hstate) (src : nat) (h : hstate) (dst nx : nat) : hstate * nat :=
  match fuel with
  | 0 => (h, nx)
  | S f =>
      fold_left (fun (acc : hstate * nat) c =>
                   let (a, n) := acc in
                   let a1 := h_register (h_init a n dst (copy_info keep_kind (hinf hs c))) n in
                   let a2 := touch_root (set_chl a1 dst (hch a1 dst ++ [n])) dst in      (* children.append / [node] *)
                   h_add_from f keep_kind hs c a2 n (S n))
                (hch hs src) (h, nx)
  end.

Definition h_op_add_node (w : hworld) (ti p sti src : nat) (explicit : option did) (k : kind) (b : before)
           (deep : option bool) : res * hworld :=
  match h_get w ti, h_get w sti with
  | Some h, Some hs =>
      if negb (h_live hs src && h_plive h p) then (Err EModel, w)
      else if htyped h && negb (htyped hs) then (Err EType, w)
      else
        let dp := match deep with Some x => x | None => false end in
        if dp && (match explicit with Some _ => true | None => false end) then (Err EValue, w)
        else if Nat.eqb ti sti && (match hpar hs src with Some q => Nat.eqb q p | None => false end)
        then (Err EUnique, w)                                        (* source_node._parent is self *)
        else if (match explicit with Some e => negb (did_eqb e (hdid hs src)) | None => false end)
        then (Err EUnique, w)
        else if dp && Nat.eqb ti sti && (if Nat.eqb p 0 then false else h_is_anc (h_fuel hs) hs src p)
        then (Err EValue, w)                                         (* self is source or self.is_descendant_of(source) *)
        else
          let nb := norm_before b in
          if negb (h_before_ok h p nb) then (Err EValue, w)
          else if negb (htyped h) && htyped hs then (Err EType, w)
          else
            let n := hnext w in
            let id := match explicit with Some e => e | None => hdid hs src end in
            let kd := if htyped h then match k with Some _ => k | None => Some [99; 104; 105; 108; 100]%Z end else None in
            let si := hinf hs src in
            let inf := I (i_obj si) (i_eqc si) (i_hash si) (i_isstr si) (i_name si) id kd [] in
            let h1 := h_init h n p inf in
            if h_collides h p id then (Err EUnique, h_put (h_bump w 1) ti h1)
            else
              let h2 := h_register h1 n in
              let h3 := touch_root (set_chl h2 p (place_ids nb n (hch h2 p))) p in
              let (h4, n') := if dp then h_add_from (h_fuel hs) (htyped h) hs src h3 n (S n) else (h3, S n) in
              (Ok [n], h_put (HW (htrees w) n') ti h4)
  | _, _ => (Err EModel, w)
  end.

Fixpoint h_add_nodes (w : hworld) (ti p sti : nat) (srcs : list nat) (b : before) (deep : option bool)
         (acc : list nat) : res * hworld :=
  match srcs with
  | [] => (Ok acc, w)
  | s :: rest =>
      match h_op_add_node w ti p sti s None None b deep with
      | (Ok r, w') => h_add_nodes w' ti p sti rest b deep (acc ++ r)
      | (Err e, w') => (Err e, w')
      end
  end.

Definition h_any_collides (h : hstate) (p : nat) (hs : hstate) (srcs : list nat) : bool :=
  existsb (fun s => h_live hs s && h_collides h p (hdid hs s)) srcs.

Definition h_any_into_own_branch (ti sti : nat) (hs : hstate) (srcs : list nat) (p : nat) (deep : option bool) : bool :=
  match deep with
  | Some true => Nat.eqb ti sti && existsb (fun s => h_live hs s && h_plive hs p && (if Nat.eqb p 0 then false else h_is_anc (h_fuel hs) hs s p)) srcs
  | _ => false
  end.

Definition h_op_add_tree (w : hworld) (ti p sti : nat) (b : before) (deep : option bool) : res * hworld :=
  match h_get w ti, h_get w sti with
  | Some h, Some hs =>
      if htyped h && negb (htyped hs) then (Err EType, w)
      else
      let tops := hch hs 0 in
      let nch := if h_plive h p then length (hch h p) else 0 in
      let jb := match b with BTrue => Some 0 | BIdx z => Some (py_index z nch) | _ => None end in
      let order := match jb with Some _ => rev tops | None => tops end in
      let b := match jb with Some j => BIdx (Z.of_nat j) | None => b end in
      let dp := match deep with Some x => Some x | None => Some true end in
      if h_any_collides h p hs tops then (Err EUnique, w)
      else if h_any_into_own_branch ti sti hs tops p dp then (Err EValue, w)
      else match h_add_nodes w ti p sti order b dp [] with
           | (Ok r, w') => (Ok (if htyped h then [] else match rev r with x :: _ => [x] | [] => [] end), w')
           | other => other
           end
  | _, _ => (Err EModel, w)
  end.

Definition h_op_copy_to (w : hworld) (sti src ti target : nat) (add_self : bool) (b : before) (deep : bool)
  : res * hworld :=
  if add_self then h_op_add_node w ti target sti src None None b (Some deep)
  else
    match h_get w ti, h_get w sti with
    | Some h, Some hs =>
        if negb (h_plive hs src) then (Err EModel, w)
        else match hch hs src with
             | [] => (Err EValue, w)
             | ch =>
                 if h_any_collides h target hs ch then (Err EUnique, w)
                 else if h_any_into_own_branch ti sti hs ch target (Some deep) then (Err EValue, w)
                 else match h_add_nodes w ti target sti ch BNone (Some deep) [] with
                      | (Ok r, w') => (Ok (if Nat.eqb src 0 then [] else match r with x :: _ => [x] | [] => [] end), w')
                      | other => other
                      end
             end
    | _, _ => (Err EModel, w)
    end.

(* Tree.copy() / Node.copy(): a new tree, the branches copied below its root *)
Definition h_op_tree_copy (w : hworld) (sti : nat) : res * hworld :=
  match h_get w sti with
  | None => (Err EModel, w)
  | Some hs =>
      let (h', n') := h_add_from (h_fuel hs) (htyped hs) hs 0 (h_empty (htyped hs) None) 0 (hnext w) in
      (Ok [length (htrees w)], HW (htrees w ++ [h']) n')
  end.

Definition h_op_node_copy (w : hworld) (sti src : nat) (add_self : bool) : res * hworld :=
  match h_get w sti with
  | None => (Err EModel, w)
  | Some hs =>
      if negb (h_live hs src) then (Err EModel, w)
      else
        let h0 := h_empty (htyped hs) None in
        let (h', n') :=
          if add_self then
            let n := hnext w in
            let si := hinf hs src in
            let kd := if htyped hs then Some [99; 104; 105; 108; 100]%Z else None in
            let inf := I (i_obj si) (i_eqc si) (i_hash si) (i_isstr si) (i_name si) (i_did si) kd [] in
            let a1 := h_register (h_init h0 n 0 inf) n in
            let a2 := touch_root (set_chl a1 0 (hch a1 0 ++ [n])) 0 in
            h_add_from (h_fuel hs) (htyped hs) hs src a2 n (S n)
          else h_add_from (h_fuel hs) (htyped hs) hs src h0 0 (hnext w) in
        (Ok [length (htrees w)], HW (htrees w ++ [h']) n')
  end.

(* ---- sort_children(deep=True): sort this level, then every child in its new order ---- *)
Fixpoint h_sort_deep (fuel : nat) (k : keyt) (reverse : bool) (h : hstate) (p : nat) (failed : bool) : hstate * bool :=
  match fuel with
  | 0 => (h, true)
  | S f =>
      if failed then (h, true)
      else match hch h p with
           | [] => (h, false)
           | cl =>
               if negb (keys_ok_n k cl) then (h, true)
               else
                 let sorted := py_sort_n k reverse cl in
                 fold_left (fun (acc : hstate * bool) c => h_sort_deep f k reverse (fst acc) c (snd acc))
                           sorted (set_chl h p sorted, false)
           end
  end.

Definition h_op_sort_deep (w : hworld) (ti p : nat) (k : keyt) (reverse : bool) : res * hworld :=
  match h_get w ti with
  | None => (Err EModel, w)
  | Some h => if negb (h_plive h p) then (Err EModel, w)
              else let (h', failed) := h_sort_deep (h_fuel h) k reverse h p false in
                   (if failed then Err ECrash else Ok [], h_put w ti h')
  end.

(* ---- in-place filter: Node.filter._visit, the removals of a level happen after its loop ---- *)
Fixpoint h_fvisit (fuel : nat) (vd : verdicts) (h : hstate) (parent : nat) (stopped : bool)
  : bool * hstate * bool * bool :=                         (* must_keep, heap, stopped, predicate raised *)
  match fuel with
  | 0 => (false, h, stopped, false)
  | S f =>
      let '(must, pend, hh, s, raised) :=
        fold_left (fun (acc : bool * list nat * hstate * bool * bool) n =>
                     let '(must, pend, hh, s, raised) := acc in
                     if raised then acc
                     else match (if s then VSkip else verdict_of vd n) with
                          | VRaise => (must, pend, hh, s, true)
                          | VStop => (must, pend ++ [n], hh, true, false)
                          | VSkip => (must, pend ++ [n], hh, s, false)
                          | VSkipKeep => (true, pend, h_remove_children hh n, s, false)     (* n.remove_children() *)
                          | VSelect => (true, pend, hh, s, false)
                          | VTrue => match h_fvisit f vd hh n s with
                                     | (_, h2, s2, true) => (must, pend, h2, s2, true)
                                     | (_, h2, s2, false) => (true, pend, h2, s2, false)
                                     end
                          | VFalse => match h_fvisit f vd hh n s with
                                      | (_, h2, s2, true) => (must, pend, h2, s2, true)
                                      | (true, h2, s2, false) => (true, pend, h2, s2, false)
                                      | (false, h2, s2, false) => (must, pend ++ [n], h2, s2, false)
                                      end
                          end)
                  (hch h parent) (false, [], h, stopped, false) in
      if raised then (must, hh, s, true)
      else (must, fold_left h_remove_plain pend hh, s, false)          (* for n in remove_nodes: n.remove() *)
  end.

Definition h_op_filter (w : hworld) (ti n : nat) (vd : verdicts) : res * hworld :=
  match h_get w ti with
  | None => (Err EModel, w)
  | Some h =>
      if negb (h_plive h n) then (Err EModel, w)
      else match h_fvisit (h_fuel h) vd h n false with
           | (_, h', _, failed) => (if failed then Err ECrash else Ok [], h_put w ti h')
           end
  end.

(* ---- from_dict: append_child per item; `except: self.remove_children(); raise` at every level ---- *)
Definition h_cleanup (w : hworld) (ti p : nat) : hworld :=
  match h_get w ti with Some h => h_put w ti (h_remove_children h p) | None => w end.

Fixpoint h_from_dict_item (ti p : nat) (it : ditem) (w : hworld) {struct it} : res * hworld :=
  match it with
  | DI d e ch =>
      match h_op_add w ti p d e None BNone with
      | (Ok [n], w1) =>
          match ch with
          | [] => (Ok [], w1)
          | _ =>
              match (fix go (l : list ditem) (w : hworld) {struct l} : res * hworld :=
                       match l with
                       | [] => (Ok [], w)
                       | x :: l' => match h_from_dict_item ti n x w with
                                    | (Ok _, w2) => go l' w2
                                    | err => err
                                    end
                       end) ch w1 with
              | (Err x, w2) => (Err x, h_cleanup w2 ti n)
              | ok => ok
              end
          end
      | (Ok _, w1) => (Err EModel, w1)
      | (Err x, w1) => (Err x, w1)
      end
  end.

Fixpoint h_from_dict_items (ti p : nat) (l : list ditem) (w : hworld) : res * hworld :=
  match l with
  | [] => (Ok [], w)
  | x :: l' => match h_from_dict_item ti p x w with
               | (Ok _, w2) => h_from_dict_items ti p l' w2
               | err => err
               end
  end.

Definition h_op_from_dict (w : hworld) (ti p : nat) (items : list ditem) : res * hworld :=
  match h_get w ti with
  | None => (Err EModel, w)
  | Some h =>
      if negb (h_plive h p) then (Err EModel, w)
      else match hch h p with
           | _ :: _ => (Err EAssert, w)
           | [] =>
               match h_from_dict_items ti p items w with
               | (Ok _, w1) => (Ok [], w1)
               | (Err e, w1) => (Err e, h_cleanup w1 ti p)
               end
           end
  end.

Definition h_op_tree_from_dict (w : hworld) (items : list ditem) : res * hworld :=
  let ti := length (htrees w) in
  let w0 := HW (htrees w ++ [h_empty false None]) (hnext w) in
  match h_from_dict_items ti 0 items w0 with
  | (Ok _, w1) => (Ok [ti], w1)
  | (Err e, w1) => (Err e, HW (htrees w) (hnext w1))
  end.

(* ---- del tree[key] = tree[key].remove(): the lookup reads registry and index only ---- *)
Definition h_getitem (h : hstate) (k : delkey) : option (list nat) :=
  match k with
  | KNode n => Some (if h_live h n then [n] else [])
  | KDid e fb => if idx_has e (hidx h) then Some (idx_get e (hidx h))
                 else option_map (fun x => idx_get x (hidx h)) fb
  | KData d a =>
      match a with
      | Some e => if idx_has e (hidx h) then Some (idx_get e (hidx h))
                  else option_map (fun x => idx_get x (hidx h)) (calc_id (hcalc h) d)
      | None => option_map (fun x => idx_get x (hidx h)) (calc_id (hcalc h) d)
      end
  end.

Definition h_op_del (w : hworld) (ti : nat) (k : delkey) : res * hworld :=
  match h_get w ti with
  | None => (Err EModel, w)
  | Some h =>
      match h_getitem h k with
      | None => (Err ECrash, w)
      | Some [] => (Err EKey, w)
      | Some [n] => h_op_remove w ti n false false
      | Some _ => (Err EAmbiguous, w)
      end
  end.

(* ---- the shortcuts: the position is read off the pointers ---- *)
Fixpoint next_after (n : nat) (l : list nat) : option nat :=
  match l with
  | [] => None
  | x :: l' => if Nat.eqb x n then hd_error l' else next_after n l'
  end.

Definition h_op_shortcut (w : hworld) (ti n : nat) (how : shortcut) (d : dat) (explicit : option did) (k : kind)
  : res * hworld :=
  match h_get w ti with
  | None => (Err EModel, w)
  | Some h =>
      match how with
      | SAppendChild => h_op_add w ti n d explicit k BNone
      | SPrependChild =>                                   (* before = self.first_child() *)
          if negb (h_plive h n) then (Err EModel, w)
          else match hch h n with
               | c :: _ => h_op_add w ti n d explicit k (BNode c)
               | [] => h_op_add w ti n d explicit k BNone
               end
      | SPrependSibling =>                                 (* self._parent.add_child(.., before=self) *)
          if negb (h_live h n) then (Err EModel, w)
          else match hpar h n with
               | Some p => h_op_add w ti p d explicit (if htyped h then i_kind (hinf h n) else None) (BNode n)
               | None => (Err EModel, w)
               end
      | SAppendSibling =>                                  (* before = self.next_sibling() *)
          if negb (h_live h n) then (Err EModel, w)
          else match hpar h n with
               | Some p => h_op_add w ti p d explicit (if htyped h then i_kind (hinf h n) else None)
                             (match next_after n (hch h p) with Some nx => BNode nx | None => BNone end)
               | None => (Err EModel, w)
               end
      end
  end.

(* ---- the heap machine on the covered operations ---- *)
Definition modelled_heap (o : op) : bool :=
  match o with
  | OAdd _ _ _ _ _ _ => true
  | ORemove _ _ _ _ => true
  | ORemoveChildren _ _ => true
  | OClear _ => true
  | OMove _ _ _ _ _ => true
  | OSort _ _ _ _ _ => true
  | OMeta _ _ _ => true
  | ONewTree _ _ => true
  | ODel _ _ => true
  | OShort _ _ _ _ _ _ => true
  | OSetData _ _ _ _ _ => true
  | ORename _ _ _ => true
  | OAddNode _ _ _ _ _ _ _ _ => true
  | OAddTree _ _ _ _ _ => true
  | OCopyTo _ _ _ _ _ _ _ => true
  | OTreeCopy _ => true
  | ONodeCopy _ _ _ => true
  | OFilter _ _ _ => true
  | OFromDict _ _ _ => true
  | OTreeFromDict _ => true
  end.

Definition h_step (w : hworld) (o : op) : res * hworld :=
  match o with
  | OAdd ti p d e k b => h_op_add w ti p d e k b
  | ORemove ti n keep wc => h_op_remove w ti n keep wc
  | ORemoveChildren ti n => h_op_remove_children w ti n
  | OClear ti => h_op_remove_children w ti 0
  | OMove ti n tti target b => h_op_move w ti n tti target b
  | OSort ti p k r false => h_op_sort_flat w ti p k r
  | OSort ti p k r true => h_op_sort_deep w ti p k r
  | OAddNode ti p sti src e k b deep => h_op_add_node w ti p sti src e k b deep
  | OAddTree ti p sti b deep => h_op_add_tree w ti p sti b deep
  | OCopyTo sti src ti target a b deep => h_op_copy_to w sti src ti target a b deep
  | OTreeCopy sti => h_op_tree_copy w sti
  | ONodeCopy sti src a => h_op_node_copy w sti src a
  | OFilter ti n vd => h_op_filter w ti n vd
  | OFromDict ti p items => h_op_from_dict w ti p items
  | OTreeFromDict items => h_op_tree_from_dict w items
  | OMeta ti n o => h_op_meta w ti n o
  | ONewTree ty c => (Ok [length (htrees w)], HW (htrees w ++ [h_empty ty c]) (hnext w))
  | ODel ti k => h_op_del w ti k
  | OShort ti n how d e k => h_op_shortcut w ti n how d e k
  | OSetData ti n d e wc => h_op_set_data w ti n d e wc
  | ORename ti n d => h_op_rename w ti n d
  end.

Definition h_run (ops : list op) (w : hworld) : hworld := fold_left (fun w o => snd (h_step w o)) ops w.
Definition h_empty_world : hworld := HW [] 1.

(* ---- abstraction: unfold _children from the root; None = a cycle (fuel exhausted) ---- *)
Fixpoint mapM {X Y} (g : X -> option Y) (l : list X) : option (list Y) :=
  match l with
  | [] => Some []
  | x :: l' => match g x, mapM g l' with Some y, Some r => Some (y :: r) | _, _ => None end
  end.

Fixpoint h_build (fuel : nat) (h : hstate) (n : nat) : option rt :=
  match fuel with
  | 0 => None
  | S f => option_map (T n (hinf h n)) (mapM (h_build f h) (hch h n))
  end.

Definition abs_forest (h : hstate) : option forest := mapM (h_build (h_fuel h) h) (hch h 0).

Definition abs_tstate (h : hstate) : option tstate :=
  option_map (fun f => TS f (hreg h) (hidx h) (htyped h) (hcalc h)) (abs_forest h).

(* ancestors by parent pointers (nearest first), for the statement "never its own ancestor" *)
Fixpoint anc_heap (fuel : nat) (h : hstate) (n : nat) : list nat :=
  match fuel with
  | 0 => []
  | S f => match hpar h n with
           | Some q => if Nat.eqb q 0 then [] else q :: anc_heap f h q
           | None => []
           end
  end.

(* ---- observation of the raw pointers of every allocated node (harness/heap_obs.py) ---- *)
Definition sx_hnode (h : hstate) (n : nat) : sx :=
  L [sx_nat n;
     sx_opt sx_nat (hpar h n);                                         (* _parent: None / 0 = root / node *)
     match hch h n with [] => L [] | l => L [sx_ids l] end;            (* _children: None / list *)
     sx_bool (htr h n)].                                               (* _tree is not None *)
Definition sx_hstate (h : hstate) : sx :=
  L [ match hch h 0 with [] => if hfresh h then L [L []] else L [] | l => L [sx_ids l] end;   (* root._children *)
      L (map (sx_hnode h) (hall h)) ].
Definition sx_hworld (w : hworld) : sx := L (map sx_hstate (htrees w)).
