(* C01: "removed nodes are neither reachable nor counted" as ONE theorem over the victim set, for every removal
   route: remove() with every combination of keep_children / with_clones (clone victims' branches included),
   remove_children, clear, del, and ALL removals of the in-place filter (branches and cleared child lists), whatever
   the outcome of the filter.  Also: the [| None => acc] arms of op_remove / apply_fact are harmless. *)
From Coq Require Import List ZArith Bool Arith Lia Permutation.
From NT Require Import Sx Rose ListFacts RoseFacts Surgery SurgeryFacts Machine WF MachineFacts PreserveSteps PreserveOps
  PreserveMore PreserveKeepClones Invariant Effects EffectsClones Refusal HeapFromDict EffectsMore RefusalMore.
From NT Require Filter FilterProofs.
Import ListNotations.

(* ---- what the structural results say about identities ---- *)
Lemma cut_ids_incl B K f : incl (ids (cut B K f)) (ids f).
Proof. apply FilterProofs.emb_ids_incl. apply cut_emb. Qed.

Lemma pre_in_pre_f l s y : In s (pre_f l) -> In y (pre s) -> In y (pre_f l).
Proof. intros Hs Hy. destruct (pre_f_segment l s Hs) as (a & b & ->). apply in_or_app. right. apply in_or_app. now left. Qed.

Lemma ids_t_in_ids l s m : In s (pre_f l) -> In m (ids_t s) -> In m (ids l).
Proof. intros Hs Hm. unfold ids, ids_t in *. apply in_map_iff in Hm. destruct Hm as (y & <- & Hy). apply in_map. now apply (pre_in_pre_f l s). Qed.

Lemma cut_gone B K :
  (forall t, NoDup (ids_t t) -> forall s m, In s (pre t) ->
     (In (rid s) B /\ In m (ids_t s)) \/ (In (rid s) K /\ In m (ids (rch s))) -> ~ In m (ids (cut_t B K t))) /\
  (forall f, NoDup (ids f) -> forall s m, In s (pre_f f) ->
     (In (rid s) B /\ In m (ids_t s)) \/ (In (rid s) K /\ In m (ids (rch s))) -> ~ In m (ids (cut B K f))).
Proof.
  apply rt_forest_ind.
  - intros id i ch IH ND s m Hs Hv. rewrite ids_t_unfold in ND. cbn [rid rch] in ND. apply NoDup_cons_iff in ND. destruct ND as [Nid NDc].
    cbn [cut_t]. destruct (inl id B) eqn:Eb; [intros []|].
    assert (Em : In m (ids_t s)) by (destruct Hv as [[_ X]|[_ X]]; [exact X|rewrite ids_t_unfold; now right]).
    cbn [pre] in Hs. destruct Hs as [<-|Hs].
    + cbn [rid rch] in *. destruct Hv as [[X _]|[X Y]].
      * apply inl_true in X. congruence.
      * rewrite (inl_true id K X), ids_single, ids_t_unfold. cbn [rid rch ids flat_map map]. intros [E|[]]. subst m. contradiction.
    + assert (Hm : In m (ids ch)).
      { now apply (ids_t_in_ids ch s). }
      rewrite ids_single, ids_t_unfold. cbn [rid rch]. intros [E|Y]; [subst m; contradiction|].
      destruct (inl id K); [destruct Y|]. exact (IH NDc s m Hs Hv Y).
  - intros _ s m [].
  - intros t f IHt IHf ND s m Hs Hv. rewrite ids_cons_t in ND. cbn [flat_map] in *.
    assert (Em : In m (ids_t s)) by (destruct Hv as [[_ X]|[_ X]]; [exact X|rewrite ids_t_unfold; now right]).
    unfold ids. rewrite flat_map_app, map_app. fold (ids (cut_t B K t)) (ids (cut B K f)). intros Y. apply in_app_or in Y.
    apply in_app_or in Hs. destruct Hs as [Hs|Hs].
    + assert (Hmt : In m (ids_t t)).
      { rewrite <- ids_single. apply (ids_t_in_ids [t] s); [cbn [flat_map]; now rewrite app_nil_r|exact Em]. }
      destruct Y as [Y|Y]; [exact (IHt (NoDup_app_l _ _ ND) s m Hs Hv Y)|].
      apply (NoDup_app_disj _ _ m ND Hmt). now apply (cut_ids_incl B K f).
    + assert (Hmf : In m (ids f)).
      { now apply (ids_t_in_ids f s). }
      destruct Y as [Y|Y]; [|exact (IHf (NoDup_app_r _ _ ND) s m Hs Hv Y)].
      apply (NoDup_app_disj _ _ m ND); [|exact Hmf].
      assert (X := cut_ids_incl B K [t] m). cbn [flat_map] in X. rewrite app_nil_r, ids_single in X. now apply X.
Qed.

Lemma filter_map_fst {X} (g : X -> nat * info) (P : nat -> bool) l :
  map fst (filter (fun k => P (fst k)) (map g l)) = filter P (map (fun x => fst (g x)) l).
Proof. induction l as [|x l IH]; [reflexivity|]. cbn [map filter]. destruct (P (fst (g x))); cbn [map]; now rewrite IH. Qed.

Lemma splice_ids V f : ids (splice V f) = filter (fun m => negb (existsb (Nat.eqb m) V)) (ids f).
Proof.
  assert (X := splice_nodes_f V f). apply (f_equal (map fst)) in X. rewrite map_map in X. unfold outside in X.
  rewrite (filter_map_fst nd (fun m => negb (existsb (Nat.eqb m) V))) in X. exact X.
Qed.

(* ---- the swallowed [None] arms ---- *)
(* op_remove: a victim that is still in the tree is always removed (the arm [None => acc] is dead) *)
Theorem remove_one_total t v keep : live t v = true -> exists t', remove_one t v keep = Some t'.
Proof.
  intros L. unfold live in L. apply existsb_exists in L. destruct L as (m & Hm & E). apply Nat.eqb_eq in E. subst m.
  destruct (get_node_complete v _ Hm) as (s & Hs). now apply (remove_one_some t v keep s).
Qed.

(* apply_fact: the arm is taken exactly when the node is not in the tree, and then doing nothing IS the
   specified result (cutting an absent node changes nothing): the state equals the structural [cut] either way *)
Theorem apply_fact_is_cut t a : WF t -> ~ In 0 (Kof [a]) ->
  forest_of (apply_fact t a) = cut (Bof [a]) (Kof [a]) (forest_of t).
Proof. exact (apply_fact_cut t a). Qed.

(* ---- once gone, gone for ever ---- *)
Lemma gone_core w ti t w' t' m : WFw w -> get_tree w ti = Some t -> In m (ids (forest_of t)) ->
  WFw w' -> next w <= next w' -> trees w' = trees (put_tree w ti t') -> ~ In m (ids (forest_of t')) ->
  get_tree w' ti = Some t' /\ ~ In m (ids (forest_of t')) /\ ~ In m (reg t') /\ (forall d, ~ In m (idx_get d (idx t'))) /\
  forall ops, ~ In m (all_ids (run ops w')).
Proof.
  intros W Gt Hm W' Ln Et Nm.
  assert (Gt' : get_tree w' ti = Some t') by (unfold get_tree; rewrite Et; apply (get_put_tree w ti t t' Gt)).
  assert (Wt' := WFw_tree w' ti t' W' Gt'). destruct (unreachable_uncounted t' m Wt' Nm) as [U1 U2].
  refine (conj Gt' (conj Nm (conj U1 (conj U2 _)))). intros ops. apply never_comes_back; [exact W'| |].
  - assert (X := WFw_tree_lt w ti t m W Gt Hm). lia.
  - unfold all_ids. rewrite Et. exact (not_in_put w ti t t' m W Gt Hm Nm).
Qed.

(* ---- the victims of a removal, read off the arguments and the state BEFORE the call ---- *)
Definition victim (w : world) (o : op) (ti m : nat) : Prop :=
  match o with
  | ORemove ti' n keep wc =>
      ti = ti' /\ exists t d, get_tree w ti = Some t /\ did_of n (forest_of t) = Some d /\
        let V := if wc then filter (fun c => negb (Nat.eqb c n)) (idx_get d (idx t)) ++ [n] else [n] in
        if keep then In m V /\ In m (ids (forest_of t))                       (* the victims themselves; their children stay *)
        else exists s, In s (pre_f (forest_of t)) /\ In (rid s) V /\ In m (ids_t s)   (* every victim with its whole branch *)
  | ORemoveChildren ti' n =>
      ti = ti' /\ exists t ch, get_tree w ti = Some t /\ children_of n (forest_of t) = Some ch /\ In m (ids ch)
  | OClear ti' => ti = ti' /\ exists t, get_tree w ti = Some t /\ In m (ids (forest_of t))
  | ODel ti' k =>
      ti = ti' /\ exists t n s, get_tree w ti = Some t /\ getitem t k = Some [n] /\ get_node n (forest_of t) = Some s /\ In m (ids_t s)
  | OFilter ti' n vd =>
      ti = ti' /\ exists t ch must acts st fl, get_tree w ti = Some t /\ children_of n (forest_of t) = Some ch /\
        fvisit vd (T 0 dummy_info ch) false = (must, acts, st, fl) /\
        exists s, In s (pre_f (forest_of t)) /\
          ((In (rid s) (Bof acts) /\ In m (ids_t s)) \/ (In (rid s) (Kof acts) /\ In m (ids (rch s))))
  | _ => False
  end.

(* the call took effect: it answered Ok - or it is a filter, whose removals stay even if the predicate raised *)
Definition committed (w : world) (o : op) : Prop :=
  match o with OFilter _ _ _ => True | _ => exists r, fst (step w o) = Ok r end.

Definition Gone (w' : world) (ti m : nat) : Prop :=
  exists t', get_tree w' ti = Some t' /\ ~ In m (ids (forest_of t')) /\ ~ In m (reg t') /\
    (forall d, ~ In m (idx_get d (idx t'))) /\ forall ops, ~ In m (all_ids (run ops w')).

Lemma remove_gone w ti n keep wc t d m r : WFw w -> get_tree w ti = Some t -> did_of n (forest_of t) = Some d ->
  fst (op_remove w ti n keep wc) = Ok r ->
  (let V := if wc then filter (fun c => negb (Nat.eqb c n)) (idx_get d (idx t)) ++ [n] else [n] in
   if keep then In m V /\ In m (ids (forest_of t))
   else exists s, In s (pre_f (forest_of t)) /\ In (rid s) V /\ In m (ids_t s)) ->
  Gone (snd (op_remove w ti n keep wc)) ti m.
Proof.
  intros W Gt Ed Hok Hv. assert (W' := WFw_op_remove_full w ti n keep wc W). assert (Wt := WFw_tree w ti t W Gt). assert (ND := wf_nodup t Wt).
  unfold op_remove in *. rewrite Gt, Ed in *. cbv zeta in Hv.
  set (V := if wc then filter (fun c => negb (Nat.eqb c n)) (idx_get d (idx t)) ++ [n] else [n]) in *.
  destruct (keep && existsb (keep_collides_all t V) V); [discriminate|]. cbn [snd] in *.
  set (t' := fold_left _ V t) in *.
  assert (Hm : In m (ids (forest_of t)) /\ ~ In m (ids (forest_of t'))).
  { destruct keep.
    - destruct Hv as [Hv Hm]. split; [exact Hm|]. unfold t'. change (fold_left _ V t) with (fold_left km_step V t).
      rewrite (km_fold_splice V t ND), splice_ids. intros Y. apply filter_In in Y. destruct Y as [_ Y].
      assert (X : existsb (Nat.eqb m) V = true) by (apply existsb_exists; exists m; split; [assumption|apply Nat.eqb_refl]). rewrite X in Y. discriminate.
    - destruct Hv as (s & Ps & Hs & Hm). split; [now apply (ids_t_in_ids _ s)|]. unfold t'. change (fold_left _ V t) with (fold_left rm_step V t).
      rewrite (rm_fold_prune V t ND), prune_is_cut_f. apply (proj2 (cut_gone V []) _ ND s m Ps). left. now split. }
  destruct (gone_core w ti t (put_tree w ti t') t' m W Gt (proj1 Hm) W' (Nat.le_refl _) eq_refl (proj2 Hm)) as (A & B & C & D & E).
  exists t'. now repeat split.
Qed.

(* THE theorem: every victim of every removal route is unreachable, unregistered, in no index group - and stays so *)
Theorem removed_unreachable w o ti m : WFw w -> committed w o -> victim w o ti m -> Gone (snd (step w o)) ti m.
Proof.
  intros W C Hv. destruct o; try contradiction; cbn [victim step committed] in *.
  - (* remove *)
    destruct Hv as (-> & t & d & Gt & Ed & Hv). destruct C as (r & Hr). now apply (remove_gone w ti0 n keep with_clones t d m r).
  - (* remove_children *)
    destruct Hv as (-> & t & ch & Gt & Gc & Hm). destruct (removed_children_gone w ti0 n t ch W Gt Gc) as (t' & Gt' & Gone').
    assert (W' := WFw_op_remove_children w ti0 n W). destruct (children_of_split _ _ _ Gc) as (pq & Gp & G).
    assert (Hmt : In m (ids (forest_of t))) by (apply (ids_sub_child pq _ ch G); exact Hm).
    unfold op_remove_children in *. rewrite Gt, Gp, G in *. destruct (unregister_all (pre_f ch) (reg t) (idx t)) as [r' ix']. cbn [snd] in *.
    rewrite (get_put_tree w ti0 t _ Gt) in Gt'. injection Gt' as <-.
    destruct (gone_core w ti0 t _ _ m W Gt Hmt W' (Nat.le_refl _) eq_refl (proj1 (Gone' m Hm))) as (A & B & C0 & D & E).
    exact (ex_intro _ _ (conj A (conj B (conj C0 (conj D E))))).
  - (* clear *)
    destruct Hv as (-> & t & Gt & Hm). assert (Gc : children_of 0 (forest_of t) = Some (forest_of t)) by reflexivity.
    destruct (removed_children_gone w ti0 0 t _ W Gt Gc) as (t' & Gt' & Gone').
    assert (W' := WFw_op_remove_children w ti0 0 W). unfold op_clear, op_remove_children in *. rewrite Gt in *. cbn [parent_path Nat.eqb get_ch] in *.
    destruct (unregister_all (pre_f (forest_of t)) (reg t) (idx t)) as [r' ix']. cbn [snd] in *.
    rewrite (get_put_tree w ti0 t _ Gt) in Gt'. injection Gt' as <-.
    destruct (gone_core w ti0 t _ _ m W Gt Hm W' (Nat.le_refl _) eq_refl (proj1 (Gone' m Hm))) as (A & B & C0 & D & E).
    exact (ex_intro _ _ (conj A (conj B (conj C0 (conj D E))))).
  - (* del *)
    destruct Hv as (-> & t & n & s & Gt & Gi & Gn & Hm). destruct C as (r & Hr). unfold op_del in *. rewrite Gt, Gi in *.
    destruct (get_node_spec n _ s Gn) as (Ps & Rs).
    apply (remove_gone w ti0 n false false t (rdid s) m r W Gt); [unfold did_of; now rewrite Gn|exact Hr|].
    cbv zeta. exists s. refine (conj Ps (conj _ Hm)). rewrite Rs. now left.
  - (* filter *)
    destruct Hv as (-> & t & ch & must & acts & st & fl & Gt & Gc & Ef & s & Ps & Hs).
    assert (W' := WFw_op_filter w ti0 n vd W). assert (Wt := WFw_tree w ti0 t W Gt).
    destruct (children_of_split _ _ _ Gc) as (pq & Gp & G).
    assert (Sc : incl (ids ch) (ids (forest_of t))) by (apply (ids_sub_child pq); exact G).
    assert (Z : ~ In 0 (ids ch)) by (intros Y; apply (wf_pos t Wt); now apply Sc).
    assert (Sb := fsub_all vd (T 0 dummy_info ch) false must acts st fl Ef). cbn [rch] in Sb.
    unfold op_filter in *. rewrite Gt, Gc, Ef in *. cbn [snd] in *.
    assert (Hm : In m (ids (forest_of t))).
    { destruct Hs as [[_ X]|[_ X]]; [now apply (ids_t_in_ids _ s)|]. apply (ids_t_in_ids _ s); [assumption|]. rewrite ids_t_unfold. now right. }
    assert (Nm : ~ In m (ids (forest_of (fold_left apply_fact acts t)))).
    { rewrite apply_facts_cut; [|assumption|intros Y; apply Z; apply Sb; now right]. exact (proj2 (cut_gone _ _) _ (wf_nodup t Wt) s m Ps Hs). }
    destruct (gone_core w ti0 t _ _ m W Gt Hm W' (Nat.le_refl _) eq_refl Nm) as (A & B & C0 & D & E).
    exact (ex_intro _ _ (conj A (conj B (conj C0 (conj D E))))).
Qed.
