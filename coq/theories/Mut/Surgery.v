(* Path-based forest surgery (executable definitions only).
   A path is a list of child indexes from the top-level list; it designates a
   *child list*: [] is the top-level list, [i; j] the children of the j-th child
   of the i-th top-level node.  A node is designated by (path of its sibling
   list, index). *)
From Coq Require Import List ZArith Bool Arith Lia.
From NT Require Import Sx Rose.
Import ListNotations.

Definition path := list nat.

Fixpoint upd_nth {A} (n : nat) (g : A -> A) (l : list A) : list A :=
  match l, n with
  | [], _ => []
  | x :: xs, 0 => g x :: xs
  | x :: xs, S k => x :: upd_nth k g xs
  end.

Fixpoint remove_nth {A} (n : nat) (l : list A) : list A :=
  match l, n with
  | [], _ => []
  | _ :: xs, 0 => xs
  | x :: xs, S k => x :: remove_nth k xs
  end.

Definition set_ch (g : list rt -> list rt) (t : rt) : rt :=
  match t with T id i ch => T id i (g ch) end.

Fixpoint upd_ch (p : path) (g : list rt -> list rt) (f : forest) : forest :=
  match p with
  | [] => g f
  | i :: rest => upd_nth i (set_ch (upd_ch rest g)) f
  end.

Fixpoint get_ch (p : path) (f : forest) : option (list rt) :=
  match p with
  | [] => Some f
  | i :: rest => match nth_error f i with
                 | Some t => get_ch rest (rch t)
                 | None => None
                 end
  end.

(* path of the node with identity n: child indexes down to the node itself *)
Fixpoint find_path (n : nat) (t : rt) {struct t} : option path :=
  match t with
  | T id _ ch =>
      if Nat.eqb id n then Some []
      else (fix go (l : list rt) (i : nat) : option path :=
              match l with
              | [] => None
              | c :: l' => match find_path n c with
                           | Some p => Some (i :: p)
                           | None => go l' (S i)
                           end
              end) ch 0
  end.

Fixpoint find_path_in (n : nat) (l : list rt) (i : nat) : option path :=
  match l with
  | [] => None
  | c :: l' => match find_path n c with
               | Some p => Some (i :: p)
               | None => find_path_in n l' (S i)
               end
  end.

Definition node_path (n : nat) (f : forest) : option path := find_path_in n f 0.

(* path of the child list of a parent reference; 0 is the system root *)
Definition parent_path (p : nat) (f : forest) : option path :=
  if Nat.eqb p 0 then Some [] else node_path p f.

(* split a node path into (path of the sibling list, index) *)
Definition split_path (q : path) : option (path * nat) :=
  match rev q with
  | [] => None
  | i :: r => Some (rev r, i)
  end.

Definition get_node (n : nat) (f : forest) : option rt :=
  match node_path n f with
  | Some q => match split_path q with
              | Some (q0, i) => match get_ch q0 f with
                                | Some l => nth_error l i
                                | None => None
                                end
              | None => None
              end
  | None => None
  end.

(* the sibling list a node lives in, and its index *)
Definition node_loc (n : nat) (f : forest) : option (path * nat * list rt) :=
  match node_path n f with
  | Some q => match split_path q with
              | Some (q0, i) => match get_ch q0 f with
                                | Some l => Some (q0, i, l)
                                | None => None
                                end
              | None => None
              end
  | None => None
  end.

Definition children_of (p : nat) (f : forest) : option (list rt) :=
  match parent_path p f with
  | Some q => get_ch q f
  | None => None
  end.

(* Python list.insert(i, x): negative i counts from the end, both ends clamp *)
Definition py_index (i : Z) (len : nat) : nat :=
  let n := Z.of_nat len in
  if (i <? 0)%Z then Z.to_nat (Z.max 0 (n + i)) else Z.to_nat (Z.min i n).

Definition insert_at {A} (j : nat) (x : A) (l : list A) : list A :=
  firstn j l ++ x :: skipn j l.

Definition py_insert {A} (i : Z) (x : A) (l : list A) : list A :=
  insert_at (py_index i (length l)) x l.

Fixpoint index_by_id (n : nat) (l : list rt) : option nat :=
  match l with
  | [] => None
  | x :: l' => if Nat.eqb (rid x) n then Some 0
               else match index_by_id n l' with Some k => Some (S k) | None => None end
  end.

(* relabel every node of a tree/forest (used for re-keying clone groups) *)
Fixpoint map_info (g : nat -> info -> info) (t : rt) : rt :=
  match t with T id i ch => T id (g id i) (map (map_info g) ch) end.
