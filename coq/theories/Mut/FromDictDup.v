(* C03 (audit, high): the from_dict route at the level of the OPERATION, duplicates at any depth.
   [dup_free cs items]: no two sibling items, at any depth of the nested item list, resolve to the same data_id
   (explicit "data_id", else the callback / hash of the data object).
     - [from_dict_ok_dup_free]      Ok  =>  the items are dup_free            (so a duplicate anywhere is never accepted)
     - [from_dict_error_class]      an error of from_dict is the uniqueness error, unless some item's id cannot be
                                    computed (calc_data_id raises: the callback's failure)
     - [from_dict_duplicate_refused_anywhere]  all ids computable, a duplicate somewhere  =>  Err EUnique, and no tree
                                    changes (the half-built branch is removed again).
   A model that swallows the error of a nested / later item, or of the operation, violates the first statement. *)
From Coq Require Import List ZArith Bool Arith Lia Permutation.
From NT Require Import Sx Rose ListFacts RoseFacts Surgery SurgeryFacts Machine WF MachineFacts PreserveSteps PreserveOps
  PreserveMore Effects HeapFromDict EffectsMore.
Import ListNotations.

Definition item_id (cs : calcspec) (it : ditem) : option did :=
  match it with DI d e _ => match e with Some x => Some x | None => calc_id cs d end end.
Definition item_kids (it : ditem) : list ditem := match it with DI _ _ ch => ch end.

Inductive dup_free (cs : calcspec) : list ditem -> Prop :=
| dup_free_intro l : NoDup (map (item_id cs) l) -> (forall it, In it l -> dup_free cs (item_kids it)) -> dup_free cs l.

Fixpoint ids_def (cs : calcspec) (it : ditem) : bool :=
  match it with
  | DI d e ch => (match item_id cs (DI d e []) with Some _ => true | None => false end) && forallb (ids_def cs) ch
  end.

(* ---- what the items build ---- *)
Lemma built_inv cs ty n it x n' : built cs ty n it x n' ->
  item_id cs it = Some (rdid x) /\ builts cs ty (S n) (item_kids it) (rch x) n'.
Proof.
  intros H. inversion H as [n0 d e ch id kids n1 Hid Hk]; subst. cbn [item_id item_kids rch rdid rinfo mk_info i_did]. split; [|exact Hk].
  destruct Hid as [->|[-> Hc]]; [reflexivity|exact Hc].
Qed.

Lemma builts_ids cs ty : forall n l f n', builts cs ty n l f n' -> map (item_id cs) l = map Some (map rdid f).
Proof.
  intros n l f n' H. induction H as [n|n x l t f n1 n2 Hx Hl IH]; [reflexivity|]. cbn [map]. rewrite IH.
  now rewrite (proj1 (built_inv _ _ _ _ _ _ Hx)).
Qed.

Lemma builts_In cs ty : forall n l f n', builts cs ty n l f n' -> forall it, In it l ->
  exists n1 x n2, built cs ty n1 it x n2 /\ In x f.
Proof.
  intros n l f n' H. induction H as [n|n x l t f n1 n2 Hx Hl IH]; intros it Hi; [contradiction|]. destruct Hi as [<-|Hi].
  - exists n, t, n1. split; [exact Hx|now left].
  - destruct (IH it Hi) as (a & y & b & Hb & Hy). exists a, y, b. split; [exact Hb|now right].
Qed.

Lemma NoDup_map_Some {X} (l : list X) : NoDup l -> NoDup (map Some l).
Proof.
  induction 1 as [|x l Hx Hl IH]; cbn; constructor; [|exact IH]. intros Y. apply in_map_iff in Y. destruct Y as (y & [= ->] & Hy). contradiction.
Qed.

Lemma builts_dup_free cs ty l :
  (forall it, In it l -> forall n x n', built cs ty n it x n' -> SU (rch x) -> dup_free cs (item_kids it)) ->
  forall n f n', builts cs ty n l f n' -> SU f -> dup_free cs l.
Proof.
  intros IH n f n' B Su. constructor.
  - rewrite (builts_ids _ _ _ _ _ _ B). apply NoDup_map_Some. now apply SU_top.
  - intros it Hi. destruct (builts_In _ _ _ _ _ _ B it Hi) as (n1 & x & n2 & Bx & Hx). apply (IH it Hi n1 x n2 Bx). now apply (SU_child f).
Qed.

Lemma built_dup_free cs ty : forall it n x n', built cs ty n it x n' -> SU (rch x) -> dup_free cs (item_kids it).
Proof.
  induction it as [d e ch IH] using ditem_ind'. intros n x n' B Su. destruct (built_inv _ _ _ _ _ _ B) as (_ & Bk). cbn [item_kids] in *.
  apply (builts_dup_free cs ty ch) with (n := S n) (f := rch x) (n' := n'); [|exact Bk|exact Su].
  intros it Hi. rewrite Forall_forall in IH. exact (IH it Hi).
Qed.

Theorem from_dict_ok_dup_free w ti p items r w' : WFw w -> op_from_dict w ti p items = (Ok r, w') ->
  exists t, get_tree w ti = Some t /\ dup_free (calc t) items.
Proof.
  intros W H. assert (W' : WFw w') by (assert (X := WFw_op_from_dict w ti p items W); now rewrite H in X).
  destruct (from_dict_effect w ti p items r w' W H) as (t & t' & pq & kids & Gt & Gt' & Gp & Gc & B & _ & F & _).
  exists t. split; [exact Gt|]. assert (S' : SU (forest_of t')) by (apply wf_su; exact (WFw_tree _ ti t' W' Gt')).
  assert (Sk : SU kids). { apply (SU_get pq (forest_of t') kids S'). rewrite F. exact (get_ch_upd_ch pq (fun _ => kids) _ [] Gc). }
  apply (builts_dup_free (calc t) (typed t) items) with (n := next w) (f := kids) (n' := next w'); [|exact B|exact Sk].
  intros it _ n x n' Bx Sx. exact (built_dup_free _ _ it n x n' Bx Sx).
Qed.

(* ---- the error class ---- *)
Definition ItemErr (it : ditem) : Prop :=
  forall ti p w x w' t pq c, WFw w -> get_tree w ti = Some t ->
    parent_path p (forest_of t) = Some pq -> get_ch pq (forest_of t) = Some c ->
    from_dict_item ti p it w = (Err x, w') -> x = EUnique \/ (x = ECrash /\ ids_def (calc t) it = false).

Lemma items_err l : Forall ItemErr l ->
  forall ti p w x w' t pq c, WFw w -> get_tree w ti = Some t ->
    parent_path p (forest_of t) = Some pq -> get_ch pq (forest_of t) = Some c ->
    seq_items (from_dict_item ti p) l w = (Err x, w') -> x = EUnique \/ (x = ECrash /\ forallb (ids_def (calc t)) l = false).
Proof.
  induction 1 as [|it l Hx Hl IH]; intros ti p w x w' t pq c W Gt Gp Gc H; cbn [seq_items] in H; [discriminate|].
  destruct (from_dict_item ti p it w) as [[r1|e1] w1] eqn:E1.
  - destruct (item_ok it ti p w r1 w1 t pq c W Gt Gp Gc E1) as (x1 & t1 & B1 & Gt1 & F1 & Ty1 & Ca1 & W1 & O1).
    assert (Gp1 : parent_path p (forest_of t1) = Some pq) by (rewrite F1; now apply parent_path_stable).
    assert (Gc1 : get_ch pq (forest_of t1) = Some (c ++ [x1])) by (rewrite F1; exact (get_ch_upd_ch pq (fun c => c ++ [x1]) _ c Gc)).
    destruct (IH ti p w1 x w' t1 pq _ W1 Gt1 Gp1 Gc1 H) as [->|[-> Hd]]; [now left|right]. split; [reflexivity|].
    cbn [forallb]. rewrite Ca1 in Hd. rewrite Hd. apply andb_false_r.
  - injection H as <- <-. destruct (Hx ti p w e1 w1 t pq c W Gt Gp Gc E1) as [->|[-> Hd]]; [now left|right]. split; [reflexivity|].
    cbn [forallb]. now rewrite Hd.
Qed.

Lemma item_err : forall it, ItemErr it.
Proof.
  induction it as [d e ch IH] using ditem_ind'. intros ti p w x w' t pq c W Gt Gp Gc H. rewrite from_dict_item_eq in H.
  assert (W1 := WFw_op_add w ti p d e None BNone W).
  destruct (op_add w ti p d e None BNone) as [[[|n [|n2 r2]]|x0] w1] eqn:Ea; cbn [snd] in W1.
  - exfalso. unfold op_add in Ea. rewrite Gt, Gp, Gc in Ea. cbn [norm_before before_ok negb] in Ea.
    destruct (match e with Some e0 => Some e0 | None => calc_id (calc t) d end); [|discriminate]. destruct (collides t p d0); discriminate.
  - unfold op_add in Ea. rewrite Gt, Gp, Gc in Ea. cbn [norm_before before_ok negb] in Ea.
    destruct (match e with Some e0 => Some e0 | None => calc_id (calc t) d end) as [id|] eqn:Eid; [|discriminate].
    destruct (collides t p id); [discriminate|]. injection Ea as <- <-.
    set (n := next w) in *. set (inf := mk_info d id (default_kind t None) []).
    set (f1 := upd_ch pq (place NApp (T n inf [])) (forest_of t)) in *.
    assert (F1 : f1 = upd_ch pq (fun c => c ++ [T n inf []]) (forest_of t)).
    { unfold f1. rewrite (upd_ch_const pq _ c _ Gc). symmetry. rewrite (upd_ch_const pq _ c _ Gc). now rewrite place_append. }
    set (t1 := set_all t f1 (reg t ++ [n]) (idx_add id n (idx t))) in *.
    assert (Gt1 : get_tree (put_tree (bump w 1) ti t1) ti = Some t1) by (apply (get_put_same _ _ t); exact Gt).
    assert (Fn : ~ In n (ids (forest_of t))) by (intros Y; apply (WFw_tree_lt w ti t n W Gt) in Y; unfold n in Y; lia).
    assert (Nz : n <> 0) by (unfold n; destruct W; lia).
    assert (Gp1 : parent_path n (forest_of t1) = Some (pq ++ [length c])).
    { unfold parent_path, node_path. apply Nat.eqb_neq in Nz. rewrite Nz. cbn [t1 forest_of set_all]. rewrite F1. now apply append_leaf_path. }
    destruct (append_leaf_ctx n inf pq (forest_of t) c Gc) as (Gc1 & _). rewrite <- F1 in Gc1.
    destruct (items_err ch IH ti n _ x w' t1 _ [] W1 Gt1 Gp1 Gc1 H) as [->|[-> Hd]]; [now left|right]. split; [reflexivity|].
    cbn [ids_def item_id]. cbn [t1 calc set_all] in Hd. rewrite Hd. apply andb_false_r.
  - exfalso. unfold op_add in Ea. rewrite Gt, Gp, Gc in Ea. cbn [norm_before before_ok negb] in Ea.
    destruct (match e with Some e0 => Some e0 | None => calc_id (calc t) d end); [|discriminate]. destruct (collides t p d0); discriminate.
  - injection H as <- <-. unfold op_add in Ea. rewrite Gt, Gp, Gc in Ea. cbn [norm_before before_ok negb] in Ea.
    destruct (match e with Some e0 => Some e0 | None => calc_id (calc t) d end) as [id|] eqn:Eid.
    + destruct (collides t p id); [|discriminate]. injection Ea as <- _. now left.
    + injection Ea as <- _. right. split; [reflexivity|]. cbn [ids_def item_id]. now rewrite Eid.
Qed.

Theorem from_dict_error_class w ti p items x w' t : WFw w -> get_tree w ti = Some t ->
  children_of p (forest_of t) = Some [] -> op_from_dict w ti p items = (Err x, w') ->
  (x = EUnique \/ (x = ECrash /\ forallb (ids_def (calc t)) items = false)) /\ trees w' = trees w.
Proof.
  intros W Gt Gc0 H. unfold op_from_dict in H. rewrite Gt, Gc0 in H. unfold children_of in Gc0.
  destruct (parent_path p (forest_of t)) as [pq|] eqn:Gp; [|discriminate]. rewrite from_dict_items_eq in H.
  destruct (seq_items (from_dict_item ti p) items w) as [[r1|e1] w1] eqn:E; [discriminate|]. injection H as <- <-. split; [|reflexivity].
  exact (items_err items (proj2 (Forall_forall _ _) (fun y _ => item_err y)) ti p w e1 w1 t pq [] W Gt Gp Gc0 E).
Qed.

Theorem from_dict_duplicate_refused_anywhere w ti p items t : WFw w -> get_tree w ti = Some t ->
  children_of p (forest_of t) = Some [] -> forallb (ids_def (calc t)) items = true -> ~ dup_free (calc t) items ->
  fst (op_from_dict w ti p items) = Err EUnique /\ trees (snd (op_from_dict w ti p items)) = trees w.
Proof.
  intros W Gt Gc Hd Nd. destruct (op_from_dict w ti p items) as [[r|x] w'] eqn:E.
  - exfalso. destruct (from_dict_ok_dup_free w ti p items r w' W E) as (t0 & Gt0 & D). rewrite Gt in Gt0. injection Gt0 as <-. now apply Nd.
  - destruct (from_dict_error_class w ti p items x w' t W Gt Gc E) as ([->|[_ X]] & Tr); [split; [reflexivity|exact Tr]|congruence].
Qed.

(* ---- Tree.from_dict (a new plain tree: ids by hash, always defined) ---- *)
Theorem tree_from_dict_ok_dup_free w items r w' : WFw w -> op_tree_from_dict w items = (Ok r, w') -> dup_free None items.
Proof.
  intros Ww H. assert (W' : WFw w') by (assert (X := WFw_op_tree_from_dict w items Ww); now rewrite H in X).
  destruct (tree_from_dict_effect w items r w' Ww H) as (_ & t' & kids & Gt' & F & _ & _ & B & _).
  assert (Sk : SU kids) by (rewrite <- F; apply wf_su; exact (WFw_tree _ _ t' W' Gt')).
  apply (builts_dup_free None false items) with (n := next w) (f := kids) (n' := next w'); [|exact B|exact Sk].
  intros it _ n x n' Bx Sx. exact (built_dup_free _ _ it n x n' Bx Sx).
Qed.

Theorem tree_from_dict_error_class w items x w' : WFw w -> op_tree_from_dict w items = (Err x, w') ->
  (x = EUnique \/ (x = ECrash /\ forallb (ids_def None) items = false)) /\ trees w' = trees w.
Proof.
  intros Ww H. split; [|exact (tree_from_dict_refused w items x w' H)]. unfold op_tree_from_dict in H. rewrite from_dict_items_eq in H.
  set (ti := length (trees w)) in *. set (w0 := W (trees w ++ [TS [] [] [] false None]) (next w)) in *.
  destruct (seq_items (from_dict_item ti 0) items w0) as [[r1|e1] w1] eqn:E; [discriminate|]. injection H as <- _.
  assert (W0 : WFw w0) by (apply (WFw_new_tree w false None Ww)).
  assert (Gt : get_tree w0 ti = Some (TS [] [] [] false None)) by (unfold get_tree, w0, ti; cbn [trees]; apply nth_error_app_len).
  exact (items_err items (proj2 (Forall_forall _ _) (fun y _ => item_err y)) ti 0 w0 e1 w1 _ [] [] W0 Gt eq_refl eq_refl E).
Qed.

Lemma ids_def_hash : forall it, ids_def None it = true.
Proof. induction it as [d e ch IH] using ditem_ind'. cbn [ids_def item_id]. destruct e; cbn; apply forallb_forall; rewrite Forall_forall in IH; exact IH. Qed.

Theorem tree_from_dict_duplicate_refused_anywhere w items : WFw w -> ~ dup_free None items ->
  fst (op_tree_from_dict w items) = Err EUnique /\ trees (snd (op_tree_from_dict w items)) = trees w.
Proof.
  intros Ww Nd. destruct (op_tree_from_dict w items) as [[r|x] w'] eqn:E.
  - exfalso. apply Nd. exact (tree_from_dict_ok_dup_free w items r w' Ww E).
  - destruct (tree_from_dict_error_class w items x w' Ww E) as ([->|[_ X]] & Tr); [split; [reflexivity|exact Tr]|].
    exfalso. assert (Y : forallb (ids_def None) items = true) by (apply forallb_forall; intros it _; apply ids_def_hash). congruence.
Qed.
