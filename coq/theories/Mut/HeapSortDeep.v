(* Heap refinement: sort_children(deep=True) *)
From Coq Require Import List ZArith Bool Arith Lia Permutation.
From NT Require Import Sx Rose ListFacts RoseFacts Surgery SurgeryFacts Machine WF MachineFacts PreserveSteps PreserveOps
  PreserveSort PreserveKeepClones Heap HeapProofs HeapRemove HeapMore HeapMove.
Import ListNotations.

(* the child pointers of all nodes of the branches l *)
Definition SubCh (h : hstate) (l : list rt) : Prop := forall y, In y (pre_f l) -> hch h (rid y) = map rid (rch y).

Lemma Rel_ids t t' : Rel t t' -> forall z, In z (ids_t t') <-> In z (ids_t t).
Proof.
  intros R z. assert (P := Rel_rows t t' 0 R). rewrite <- !(rows_ids_t _ 0). split; intros H; apply in_map_iff in H; destruct H as (r & E & Hr); apply in_map_iff; exists r;
    (split; [assumption|]); [apply (Permutation_in _ (Permutation_sym P) Hr)|apply (Permutation_in _ P Hr)].
Qed.

Definition AgreeN (k : keyt) (rev : bool) (t0 : rt) : Prop :=
  forall fm fh h failed, size t0 <= fm -> size t0 <= fh -> NoDup (ids_t t0) -> SubCh h [t0] ->
    snd (h_sort_deep fh k rev h (rid t0) failed) = snd (sort_deep fm k rev t0 failed) /\
    SubCh (fst (h_sort_deep fh k rev h (rid t0) failed)) [fst (sort_deep fm k rev t0 failed)] /\
    (forall q, ~ In q (ids_t t0) -> hch (fst (h_sort_deep fh k rev h (rid t0) failed)) q = hch h q).

Lemma SubCh_single h t : SubCh h [t] <-> forall y, In y (pre t) -> hch h (rid y) = map rid (rch y).
Proof. unfold SubCh. cbn [flat_map]. split; intros H y Hy; apply H; [now rewrite app_nil_r|now rewrite app_nil_r in Hy]. Qed.

(* the children, one after the other *)
Lemma agree_list k rev fm fh (go : list rt -> bool -> list rt * bool) :
  (forall fl, go [] fl = ([], fl)) ->
  (forall c l fl, go (c :: l) fl = let (c', f1) := sort_deep fm k rev c fl in let (r', f2) := go l f1 in (c' :: r', f2)) ->
  forall l, Forall (AgreeN k rev) l -> NoDup (ids l) -> (forall c, In c l -> size c <= fm /\ size c <= fh) ->
  forall h failed, SubCh h l ->
    snd (fold_left (fun acc c => h_sort_deep fh k rev (fst acc) c (snd acc)) (map rid l) (h, failed)) = snd (go l failed) /\
    SubCh (fst (fold_left (fun acc c => h_sort_deep fh k rev (fst acc) c (snd acc)) (map rid l) (h, failed))) (fst (go l failed)) /\
    (forall q, ~ In q (ids l) -> hch (fst (fold_left (fun acc c => h_sort_deep fh k rev (fst acc) c (snd acc)) (map rid l) (h, failed))) q = hch h q) /\
    map rid (fst (go l failed)) = map rid l.
Proof.
  intros G0 G1. induction l as [|c l IH]; intros FA ND Sz h failed S.
  - rewrite G0. cbn. repeat split; auto; try (intros y []).
  - inversion FA as [|x xs Ac FAl]; subst. change (c :: l) with ([c] ++ l) in ND. rewrite ids_app, ids_single in ND.
    assert (NDc := NoDup_app_l _ _ ND). assert (NDl := NoDup_app_r _ _ ND).
    destruct (Sz c (or_introl eq_refl)) as (Sm & Sh).
    assert (Sc : SubCh h [c]) by (intros y Hy; apply S; cbn [flat_map] in *; rewrite app_nil_r in Hy; apply in_or_app; now left).
    destruct (Ac fm fh h failed Sm Sh NDc Sc) as (A1 & A2 & A3).
    assert (Rc := sort_deep_rel fm k rev c failed).
    rewrite G1. cbn [map fold_left fst snd].
    destruct (sort_deep fm k rev c failed) as [c' f1] eqn:Em. destruct (h_sort_deep fh k rev h (rid c) failed) as [h1 f1'] eqn:Eh.
    cbn [fst snd] in *. subst f1'.
    assert (S1 : SubCh h1 l).
    { intros y Hy. rewrite A3; [apply S; cbn [flat_map]; apply in_or_app; now right|].
      intros Y. apply (NoDup_app_disj _ _ (rid y) ND Y). unfold ids. now apply in_map. }
    destruct (IH FAl NDl (fun c0 H0 => Sz c0 (or_intror H0)) h1 f1 S1) as (I1 & I2 & I3 & I4).
    destruct (go l f1) as [r' f2] eqn:Eg. cbn [fst snd] in *.
    refine (conj I1 (conj _ (conj _ _))).
    + intros y Hy. cbn [flat_map] in Hy. apply in_app_or in Hy. destruct Hy as [Hy|Hy]; [|now apply I2].
      rewrite I3; [apply A2; cbn [flat_map]; now rewrite app_nil_r|].
      intros Y. assert (Iy : In (rid y) (ids_t c)) by (apply (Rel_ids c c' Rc); unfold ids_t; now apply in_map).
      apply (NoDup_app_disj _ _ (rid y) ND Iy Y).
    + intros q Hq. rewrite I3, A3; [reflexivity| |]; intros Y; apply Hq; change (c :: l) with ([c] ++ l); rewrite ids_app, ids_single; apply in_or_app; [now left|now right].
    + cbn [map]. rewrite I4. f_equal. destruct Rc as (E & _). exact E.
Qed.

Lemma size_le_in' c l : In c l -> size c <= size_f l.
Proof. induction l as [|y l IH]; intros H; [contradiction|]. rewrite size_f_cons. destruct H as [->|H]; [lia|]. specialize (IH H). lia. Qed.

Lemma perm_pre_f l l' y : Permutation l l' -> In y (pre_f l') -> In y (pre_f l).
Proof. intros P H. apply (Permutation_in _ (Permutation_flat_map pre (Permutation_sym P)) H). Qed.

Lemma perm_ids l l' : Permutation l l' -> Permutation (ids l) (ids l').
Proof. intros P. unfold ids. apply Permutation_map. now apply Permutation_flat_map. Qed.

Lemma agree_node k rev : forall t0, AgreeN k rev t0.
Proof.
  induction t0 as [id i ch IH] using rt_ind'. intros fm fh h failed Lm Lh ND S.
  rewrite size_unfold in Lm, Lh. destruct fm as [|fm]; [lia|]. destruct fh as [|fh]; [lia|].
  cbn [sort_deep h_sort_deep rid]. destruct failed.
  - cbn [fst snd]. repeat split; auto.
  - assert (Hid : hch h id = map rid ch) by (apply (S (T id i ch)); cbn; now left).
    rewrite Hid. destruct ch as [|c0 ch0]; [cbn [map fst snd]; repeat split; auto|].
    cbn [map]. change (rid c0 :: map rid ch0) with (map rid (c0 :: ch0)). set (ch := c0 :: ch0) in *.
    rewrite <- keys_ok_map.
    destruct (negb (keys_ok k ch)); [cbn [fst snd]; repeat split; auto|].
    rewrite <- py_sort_map. set (l := py_sort k rev ch).
    assert (P : Permutation l ch) by (apply py_sort_perm).
    rewrite ids_t_unfold in ND. cbn [rid rch] in ND. inversion ND as [|y ys Nid NDch]; subst y ys.
    assert (FAl : Forall (AgreeN k rev) l).
    { rewrite Forall_forall in *. intros c Hc. apply IH. now apply (Permutation_in _ P). }
    assert (NDl : NoDup (ids l)) by (apply (Permutation_NoDup (Permutation_sym (perm_ids l ch P)) NDch)).
    assert (Szl : forall c, In c l -> size c <= fm /\ size c <= fh).
    { intros c Hc. apply (Permutation_in _ P) in Hc. assert (X := size_le_in' c ch Hc). lia. }
    set (h0 := set_chl h id (map rid l)).
    assert (S0 : SubCh h0 l).
    { intros y Hy. apply (perm_pre_f ch l y (Permutation_sym P)) in Hy. unfold h0. cbn [set_chl hch].
      rewrite upd_neq; [apply S; cbn [flat_map pre]; right; now rewrite app_nil_r|].
      intros E. apply Nid. rewrite <- E. unfold ids. now apply in_map. }
    match goal with |- context [?g l false] =>
      destruct (agree_list k rev fm fh g (fun fl => eq_refl) (fun c l0 fl => eq_refl) l FAl NDl Szl h0 false S0) as (I1 & I2 & I3 & I4) end.
    cbv zeta. cbn [fst snd] in *.
    refine (conj I1 (conj _ _)).
    + apply SubCh_single. intros y Hy. cbn [pre] in Hy. destruct Hy as [<-|Hy].
      * cbn [rid rch]. rewrite I3; [unfold h0; cbn [set_chl hch]; rewrite upd_eq; now rewrite I4|].
        intros Y. apply Nid. now apply (Permutation_in _ (perm_ids l ch P)).
      * now apply I2.
    + intros q Hq. rewrite ids_t_unfold in Hq. cbn [rid rch] in Hq. rewrite I3.
      * unfold h0. cbn [set_chl hch]. apply upd_neq. intros E. apply Hq. now left.
      * intros Y. apply Hq. right. now apply (Permutation_in _ (perm_ids l ch P)).
Qed.

(* sorting touches child lists only *)
Definition same_but_ch (h h' : hstate) : Prop :=
  hpar h' = hpar h /\ htr h' = htr h /\ hinf h' = hinf h /\ hall h' = hall h /\ hreg h' = hreg h /\ hidx h' = hidx h /\
  htyped h' = htyped h /\ hcalc h' = hcalc h.

Lemma same_refl h : same_but_ch h h.
Proof. repeat split. Qed.
Lemma same_trans a b c : same_but_ch a b -> same_but_ch b c -> same_but_ch a c.
Proof. intros (A1 & A2 & A3 & A4 & A5 & A6 & A7 & A8) (B1 & B2 & B3 & B4 & B5 & B6 & B7 & B8). repeat split; congruence. Qed.

Lemma sort_deep_same k rev : forall fuel h p failed, same_but_ch h (fst (h_sort_deep fuel k rev h p failed)).
Proof.
  induction fuel as [|fuel IH]; intros h p failed; [apply same_refl|]. cbn [h_sort_deep]. destruct failed; [apply same_refl|].
  destruct (hch h p) as [|c0 cl]; [apply same_refl|]. destruct (negb (keys_ok_n k (c0 :: cl))); [apply same_refl|].
  assert (X : forall l a fl, same_but_ch h a ->
             same_but_ch h (fst (fold_left (fun acc c => h_sort_deep fuel k rev (fst acc) c (snd acc)) l (a, fl)))).
  { induction l as [|c l IHl]; intros a fl Ha; [exact Ha|]. cbn [fold_left fst snd].
    destruct (h_sort_deep fuel k rev a c fl) as [a' fl'] eqn:E. apply IHl. apply (same_trans h a a' Ha).
    assert (Y := IH a c fl). now rewrite E in Y. }
  apply X. repeat split.
Qed.

Lemma agree_top k rev h p ch fh : hch h p = map rid ch -> SubCh h ch -> NoDup (ids ch) -> ~ In p (ids ch) -> size_f ch <= fh ->
  snd (h_sort_deep (S fh) k rev h p false) = snd (sort_list k rev true ch) /\
  SubCh (fst (h_sort_deep (S fh) k rev h p false)) (fst (sort_list k rev true ch)) /\
  hch (fst (h_sort_deep (S fh) k rev h p false)) p = map rid (fst (sort_list k rev true ch)) /\
  (forall q, q <> p -> ~ In q (ids ch) -> hch (fst (h_sort_deep (S fh) k rev h p false)) q = hch h q).
Proof.
  intros Hp Sb ND Np Lf. unfold sort_list. cbn [h_sort_deep]. rewrite Hp.
  destruct ch as [|c0 ch0]; [cbn [map fst snd]; repeat split; auto|].
  cbn [map]. change (rid c0 :: map rid ch0) with (map rid (c0 :: ch0)). set (ch := c0 :: ch0) in *.
  rewrite andb_false_r. rewrite <- keys_ok_map.
  destruct (negb (keys_ok k ch)); [cbn [fst snd]; repeat split; auto|].
  rewrite <- py_sort_map. set (l := py_sort k rev ch).
  assert (P : Permutation l ch) by (apply py_sort_perm).
  assert (FAl : Forall (AgreeN k rev) l) by (apply Forall_forall; intros c _; apply agree_node).
  assert (NDl : NoDup (ids l)) by (apply (Permutation_NoDup (Permutation_sym (perm_ids l ch P)) ND)).
  assert (Szl : forall c, In c l -> size c <= S (size_f ch) /\ size c <= fh).
  { intros c Hc. apply (Permutation_in _ P) in Hc. assert (X := size_le_in' c ch Hc). lia. }
  set (h0 := set_chl h p (map rid l)).
  assert (S0 : SubCh h0 l).
  { intros y Hy. apply (perm_pre_f ch l y (Permutation_sym P)) in Hy. unfold h0. cbn [set_chl hch].
    rewrite upd_neq; [now apply Sb|]. intros E. apply Np. rewrite <- E. unfold ids. now apply in_map. }
  match goal with |- context [?g l false] =>
    destruct (agree_list k rev (S (size_f ch)) fh g (fun fl => eq_refl) (fun c l0 fl => eq_refl) l FAl NDl Szl h0 false S0) as (I1 & I2 & I3 & I4) end.
  refine (conj I1 (conj I2 (conj _ _))).
  - rewrite I3; [unfold h0; cbn [set_chl hch]; rewrite upd_eq; now rewrite I4|].
    intros Y. apply Np. now apply (Permutation_in _ (perm_ids l ch P)).
  - intros q Qp Qc. rewrite I3; [unfold h0; cbn [set_chl hch]; now apply upd_neq|].
    intros Y. apply Qc. now apply (Permutation_in _ (perm_ids l ch P)).
Qed.

(* SUB-STEP: the branches below a parent are rearranged recursively *)
Lemma Rep_resort h h' t p pq ch ch' : WF t -> Rep h t ->
  parent_path p (forest_of t) = Some pq -> get_ch pq (forest_of t) = Some ch -> LRel ch ch' ->
  same_but_ch h h' -> hch h' p = map rid ch' -> SubCh h' ch' ->
  (forall q, q <> p -> ~ In q (ids ch) -> hch h' q = hch h q) ->
  Rep h' (set_forest t (upd_ch pq (fun _ => ch') (forest_of t))).
Proof.
  intros W R Gp G (L1 & L2) (Sa1 & Sa2 & Sa3 & Sa4 & Sa5 & Sa6 & Sa7 & Sa8) Hp Sb Fr. set (f := forest_of t) in *.
  assert (ND := wf_nodup t W). assert (Z := wf_pos t W). fold f in ND, Z.
  destruct (ctx_kids pq f 0 ch ND Z G) as (A & B & E1 & E2 & E3 & E4 & E5).
  rewrite (parent_path_owner p f pq ch Gp G) in *. specialize (E2 (fun _ => ch')). cbn beta in E2.
  set (f' := upd_ch pq (fun _ => ch') f) in *.
  assert (Pi : Permutation (ids ch) (ids ch')).
  { rewrite <- (rows_ids ch p), <- (rows_ids ch' p). apply Permutation_map. apply L1. }
  assert (NDc := NoDup_child_list pq f ch ND G). assert (NDc' : NoDup (ids ch')) by (apply (Permutation_NoDup Pi NDc)).
  assert (Np' : ~ In p (ids ch')) by (intros Y; apply E4; now apply (Permutation_in _ (Permutation_sym Pi))).
  assert (Mem : forall r, In r (rows 0 f') <-> In r (rows 0 f)).
  { intros r. rewrite E1, E2, !in_app_iff. assert (X : In r (rows p ch') <-> In r (rows p ch)); [|tauto].
    split; apply Permutation_in; [symmetry|]; apply L1. }
  (* rows outside the block have no parent inside it *)
  assert (NDR : NoDup (map r_id (rows 0 f))) by (now rewrite rows_ids).
  assert (OutPar : forall r, In r (A ++ B) -> ~ In (r_par r) (ids ch)).
  { intros r Hr Y. assert (Hr' : In r (rows 0 f)) by (rewrite E1, !in_app_iff in *; tauto).
    unfold ids in Y. apply in_map_iff in Y. destruct Y as (y & Ry & Hy).
    destruct r as [[q c] inf]. cbn [r_par fst snd] in Ry.
    destruct (proj2 rows_member f 0 q c inf Hr') as [(E0 & _)|(s' & Ps' & Rs' & x & Hx & Rx & Ix)].
    - apply Z. rewrite <- E0, <- Ry. unfold ids. apply in_map. now apply (get_ch_pre pq f ch G).
    - assert (s' = y) by (apply (node_unique f); auto; [now apply (get_ch_pre pq f ch G)|congruence]). subst s'.
      assert (Pc : In x (pre_f ch)) by (now apply (pre_f_child_closed ch y)).
      assert (InBlock : In (q, c, inf) (rows p ch)).
      { rewrite <- Rs', <- Rx, <- Ix. now apply (proj2 rows_child_of). }
      (* the row occurs in the block and outside of it: its identity would occur twice *)
      rewrite E1 in NDR. rewrite !map_app in NDR.
      assert (I1 : In c (map r_id (rows p ch))) by (change c with (r_id (q, c, inf)); now apply in_map).
      apply in_app_or in Hr. destruct Hr as [Hr|Hr].
      + apply (NoDup_app_disj _ _ c NDR); [change c with (r_id (q, c, inf)); now apply in_map|apply in_or_app; now left].
      + apply NoDup_app_r in NDR. apply (NoDup_app_disj _ _ c NDR I1). change c with (r_id (q, c, inf)). now apply in_map. }
  constructor; cbn [set_forest forest_of reg idx typed calc]; fold f f'; rewrite ?Sa1, ?Sa2, ?Sa3, ?Sa4, ?Sa5, ?Sa6, ?Sa7, ?Sa8; try apply R.
  - intros q. destruct (Nat.eq_dec q p) as [->|Qp].
    + rewrite Hp, E2, !kids_app. rewrite (kids_none p A), (kids_none p B), app_nil_r; try (intros r Hr; apply E3; apply in_or_app; tauto).
      cbn [app]. symmetry. now apply kids_top.
    + destruct (in_dec Nat.eq_dec q (ids ch)) as [Iq|Iq].
      * apply (Permutation_in _ Pi) in Iq. unfold ids in Iq. apply in_map_iff in Iq. destruct Iq as (y & <- & Hy).
        assert (Iy : In (rid y) (ids ch)) by (apply (Permutation_in _ (Permutation_sym Pi)); unfold ids; now apply in_map).
        rewrite (Sb y Hy), E2, !kids_app.
        rewrite (kids_none (rid y) A), (kids_none (rid y) B), app_nil_r.
        -- cbn [app]. symmetry. now apply (proj2 kids_node ch' p y NDc' Np' Hy).
        -- intros r Hr E. apply (OutPar r (in_or_app A B r (or_intror Hr))). now rewrite E.
        -- intros r Hr E. apply (OutPar r (in_or_app A B r (or_introl Hr))). now rewrite E.
      * rewrite (Fr q Qp Iq), (rep_ch h t R q). fold f. rewrite E1, E2, !kids_app. f_equal. f_equal.
        rewrite (kids_none q (rows p ch)) by (intros r Hr E; apply rows_par in Hr; destruct Hr as [X|X]; [congruence|]; apply Iq; now rewrite <- E).
        rewrite (kids_none q (rows p ch')) by (intros r Hr E; apply rows_par in Hr; destruct Hr as [X|X]; [congruence|]; apply Iq; rewrite <- E; now apply (Permutation_in _ (Permutation_sym Pi))).
        reflexivity.
  - intros r Hr. apply Mem in Hr. now apply (rep_node h t R).
  - intros m Hm. apply (rep_all h t R). fold f. rewrite <- (rows_ids _ 0) in Hm. apply in_map_iff in Hm.
    destruct Hm as (r & <- & Hr). apply Mem in Hr. now apply (rows_id_in f 0).
Qed.

Theorem sim_op_sort_deep hw w ti p k rev : WFw w -> RepW hw w ->
  Sim (h_op_sort_deep hw ti p k rev) (op_sort w ti p k rev true).
Proof.
  intros W RW. unfold h_op_sort_deep, op_sort. assert (G := RepW_get hw w ti RW).
  destruct (h_get hw ti) as [h|]; destruct (get_tree w ti) as [t|] eqn:Gt; try contradiction; [|now apply Sim_same].
  assert (Wt := WFw_tree w ti t W Gt). assert (Pl := h_plive_path h t p Wt G).
  destruct (parent_path p (forest_of t)) as [pq|] eqn:Gp.
  2:{ replace (h_plive h p) with false; [now apply Sim_same|]. destruct (h_plive h p); [|reflexivity].
      destruct (proj1 Pl eq_refl) as (pq & X). discriminate. }
  replace (h_plive h p) with true by (symmetry; apply Pl; now exists pq). cbn [negb].
  destruct (parent_path_get p _ pq Gp) as (ch & Gc). rewrite Gc.
  assert (Hc := rep_children h t p pq ch Wt G Gp Gc).
  assert (NDc := NoDup_child_list pq _ ch (wf_nodup t Wt) Gc). assert (Ic := ids_sub_child pq _ ch Gc).
  assert (Sb : SubCh h ch).
  { intros y Hy. apply (rep_node_children h t y Wt G). now apply (get_ch_pre pq _ ch Gc). }
  destruct (ctx_kids pq _ 0 ch (wf_nodup t Wt) (wf_pos t Wt) Gc) as (_ & _ & _ & _ & _ & E4 & _).
  rewrite (parent_path_owner p _ pq ch Gp Gc) in E4.
  assert (Lf := fuel_enough h t ch Wt G NDc Ic). unfold h_fuel in *.
  destruct (agree_top k rev h p ch (length (hall h)) Hc Sb NDc E4 ltac:(lia)) as (A1 & A2 & A3 & A4).
  assert (Sm := sort_deep_same k rev (S (length (hall h))) h p false).
  assert (L := sort_list_rel k rev true ch).
  destruct (h_sort_deep (S (length (hall h))) k rev h p false) as [h' fl']. destruct (sort_list k rev true ch) as [ch' fl].
  cbn [fst snd] in *. subst fl'. split; [reflexivity|]. cbn [snd]. unfold h_put, put_tree. rewrite (repw_next hw w RW).
  apply RepW_put; [assumption|]. now apply (Rep_resort h h' t p pq ch ch').
Qed.
