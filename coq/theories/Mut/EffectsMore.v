(* C04 - effects and frames of the remaining mutators:
   remove(keep_children=True, with_clones=True)  = contraction of the whole victim group ([splice]),
   in-place filter                                = the kept rows in unchanged order,
   from_dict / Tree.from_dict                     = new rows below the parent, or nothing at all (D48). *)
From Coq Require Import List ZArith Bool Arith Lia Permutation.
From NT Require Import Sx Rose ListFacts RoseFacts Surgery SurgeryFacts Machine WF MachineFacts PreserveSteps PreserveOps
  PreserveMore PreserveKeepClones Effects EffectsClones HeapMore HeapFromDict.
From NT Require Filter FilterProofs.
Import ListNotations.

(* ------------------------------------------------------------------ *)
(* Part 1: remove(keep_children=True [, with_clones=True]) *)

(* the structural specification: every node of V is taken out, its children take its place, in order *)
Fixpoint splice_t (V : list nat) (t : rt) : list rt :=
  match t with
  | T id i ch => if existsb (Nat.eqb id) V then flat_map (splice_t V) ch else [T id i (flat_map (splice_t V) ch)]
  end.
Notation splice V := (flat_map (splice_t V)).

Lemma splice_app V a b : splice V (a ++ b) = splice V a ++ splice V b.
Proof. apply flat_map_app. Qed.

Lemma splice_absent_aux V : forall ch,
  Forall (fun c => (forall v, In v V -> ~ In v (ids_t c)) -> splice_t V c = [c]) ch ->
  (forall v, In v V -> ~ In v (ids ch)) -> splice V ch = ch.
Proof.
  induction ch as [|c ch IHch]; intros F H; [reflexivity|]. inversion F as [|? ? Hc Hch]; subst.
  cbn [flat_map]. rewrite Hc.
  - cbn [app]. f_equal. apply IHch; [exact Hch|]. intros v Hv Hin. apply (H v Hv). apply in_ids_cons. now right.
  - intros v Hv Hin. apply (H v Hv). apply in_ids_cons. now left.
Qed.

Lemma splice_absent V : forall t, (forall v, In v V -> ~ In v (ids_t t)) -> splice_t V t = [t].
Proof.
  induction t as [id i ch IH] using rt_ind'. intros H. cbn [splice_t].
  destruct (existsb (Nat.eqb id) V) eqn:E.
  - exfalso. apply existsb_exists in E. destruct E as (v & Hv & Ev). apply Nat.eqb_eq in Ev. subst v.
    apply (H id Hv). apply in_ids_t. now left.
  - f_equal. f_equal. apply splice_absent_aux; [exact IH|]. intros v Hv Hin. apply (H v Hv). apply in_ids_t. now right.
Qed.

Lemma splice_absent_f V f : (forall v, In v V -> ~ In v (ids f)) -> splice V f = f.
Proof. intros H. apply splice_absent_aux; [|exact H]. apply Forall_forall. intros c _. apply splice_absent. Qed.

(* one splice by path surgery = the contraction of that node *)
Lemma splice_one_path v : forall q0 f a s b,
  get_ch q0 f = Some (a ++ s :: b) -> rid s = v -> NoDup (ids f) ->
  splice [v] f = upd_ch q0 (fun _ => a ++ rch s ++ b) f.
Proof.
  induction q0 as [|j rest IH]; intros f a s b Hg Hr ND.
  - cbn in Hg. injection Hg as ->. cbn [upd_ch]. rewrite !splice_app. cbn [flat_map].
    rewrite ids_app in ND.
    assert (Hv : In v (ids (s :: b))) by (apply in_ids_cons; left; rewrite ids_t_unfold; left; exact Hr).
    assert (Ha : splice [v] a = a).
    { apply splice_absent_f. intros x [<-|[]] Hin. exact (nodup_app_disj _ _ _ ND Hin Hv). }
    apply NoDup_app_r in ND. rewrite ids_cons, Hr in ND. apply NoDup_cons_iff in ND. destruct ND as (Hnn & ND2).
    assert (Hb : splice [v] b = b).
    { apply splice_absent_f. intros x [<-|[]] Hin. apply Hnn. apply in_or_app. now right. }
    assert (Hc : splice [v] (rch s) = rch s).
    { apply splice_absent_f. intros x [<-|[]] Hin. apply Hnn. apply in_or_app. now left. }
    rewrite Ha, Hb. destruct s as [id inf ch]. cbn [rid rch] in *. subst id. cbn [splice_t existsb]. rewrite Nat.eqb_refl. cbn [orb].
    now rewrite Hc.
  - cbn [get_ch] in Hg. destruct (nth_error f j) as [t|] eqn:Ej; [|discriminate].
    destruct (nth_error_split f j Ej) as (a0 & b0 & -> & <-).
    cbn [upd_ch]. rewrite upd_nth_split, splice_app. cbn [flat_map].
    assert (Hin : In v (ids (rch t))).
    { pose proof (get_ch_pre rest (rch t) _ Hg) as Hi. unfold ids. rewrite <- Hr. apply in_map. apply Hi.
      apply in_flat_map. exists s. split; [apply in_or_app; right; now left|]. destruct s; now left. }
    rewrite ids_app in ND.
    assert (Hv : In v (ids (t :: b0))) by (apply in_ids_cons; left; rewrite ids_t_unfold; right; exact Hin).
    assert (Ha : splice [v] a0 = a0).
    { apply splice_absent_f. intros x [<-|[]] Hx. exact (nodup_app_disj _ _ _ ND Hx Hv). }
    apply NoDup_app_r in ND. rewrite ids_cons in ND.
    apply NoDup_cons_iff in ND. destruct ND as (Hnt & ND2).
    assert (Hb : splice [v] b0 = b0).
    { apply splice_absent_f. intros x [<-|[]] Hx. exact (nodup_app_disj _ _ _ ND2 Hin Hx). }
    assert (Ht : rid t <> v) by (intros E; apply Hnt; apply in_or_app; left; now rewrite E).
    rewrite Ha, Hb. destruct t as [id inf ch]. cbn [rid rch set_ch] in *. cbn [splice_t existsb].
    apply Nat.eqb_neq in Ht. rewrite Ht. cbn [orb app].
    rewrite (IH ch a s b Hg Hr); [reflexivity|]. now apply NoDup_app_l in ND2.
Qed.

Lemma remove_keep_splice t n t' : NoDup (ids (forest_of t)) ->
  remove_keep t n = Some t' -> forest_of t' = splice [n] (forest_of t).
Proof.
  intros ND H. destruct (remove_keep_spec t n t' H) as (q0 & a & s & b & G & R & ->). cbn [forest_of set_all].
  symmetry. now apply (splice_one_path n q0 _ a s b).
Qed.

Lemma remove_keep_nodup t n t' : NoDup (ids (forest_of t)) ->
  remove_keep t n = Some t' -> NoDup (ids (forest_of t')).
Proof.
  intros ND H. destruct (remove_keep_effect t n t' H) as (q0 & i & a & s & c & o & _ & _ & _ & _ & A & B & E1 & E2).
  rewrite <- (rows_ids (forest_of t) 0) in ND. rewrite <- (rows_ids (forest_of t') 0).
  rewrite E2. rewrite E1, !map_app in ND. cbn [map] in ND. rewrite !map_app, !rows_ids in *.
  now apply NoDup_remove_1 in ND.
Qed.

Lemma splice_splice A B : forall t, splice A (splice_t B t) = splice_t (B ++ A) t.
Proof.
  induction t as [id i ch IH] using rt_ind'. cbn [splice_t]. rewrite existsb_app.
  assert (Hch : splice A (splice B ch) = splice (B ++ A) ch).
  { induction ch as [|c ch IHch]; [reflexivity|]. inversion IH as [|? ? Hc Hcs]; subst.
    cbn [flat_map]. rewrite splice_app, Hc, (IHch Hcs). reflexivity. }
  destruct (existsb (Nat.eqb id) B); cbn [orb]; [exact Hch|].
  cbn [flat_map splice_t]. rewrite app_nil_r. destruct (existsb (Nat.eqb id) A); [exact Hch|]. now rewrite Hch.
Qed.

Lemma splice_splice_f A B f : splice A (splice B f) = splice (B ++ A) f.
Proof. induction f as [|t f IH]; [reflexivity|]. cbn [flat_map]. rewrite splice_app, splice_splice, IH. reflexivity. Qed.

(* one round of the loop in op_remove (keep_children = True) *)
Definition km_step (acc : tstate) (v : nat) : tstate :=
  if live acc v then match remove_one acc v true with Some a => a | None => acc end else acc.

Lemma km_step_splice acc v : NoDup (ids (forest_of acc)) ->
  forest_of (km_step acc v) = splice [v] (forest_of acc) /\ NoDup (ids (forest_of (km_step acc v))).
Proof.
  intros ND. unfold km_step. destruct (live acc v) eqn:El.
  - cbn [remove_one]. destruct (remove_keep acc v) as [a|] eqn:E.
    + split; [now apply remove_keep_splice|now apply (remove_keep_nodup acc v)].
    + exfalso. unfold live in El. apply existsb_exists in El. destruct El as (m & Hm & Em). apply Nat.eqb_eq in Em. subst m.
      destruct (get_node_complete v _ Hm) as (s & Hs). destruct (remove_one_some acc v true s Hs) as (t' & Ht).
      cbn [remove_one] in Ht. congruence.
  - split; [|exact ND]. symmetry. apply splice_absent_f. intros x [<-|[]] Hin.
    unfold live in El. assert (existsb (Nat.eqb v) (ids (forest_of acc)) = true); [|congruence].
    apply existsb_exists. exists v. split; [exact Hin|apply Nat.eqb_refl].
Qed.

Lemma km_fold_splice : forall V acc, NoDup (ids (forest_of acc)) ->
  forest_of (fold_left km_step V acc) = splice V (forest_of acc).
Proof.
  induction V as [|v V IH]; intros acc ND; cbn [fold_left].
  - symmetry. apply splice_absent_f. intros v [].
  - destruct (km_step_splice acc v ND) as (E & ND'). rewrite (IH _ ND'), E, splice_splice_f. reflexivity.
Qed.

(* frame of a contraction: the surviving nodes, their payloads and their pre-order are unchanged *)
Definition nd (x : rt) : nat * info := (rid x, rinfo x).
Definition outside (V : list nat) (k : nat * info) : bool := negb (existsb (Nat.eqb (fst k)) V).

Lemma splice_nodes V : forall t, map nd (pre_f (splice_t V t)) = filter (outside V) (map nd (pre t)).
Proof.
  induction t as [id i ch IH] using rt_ind'.
  assert (Hch : map nd (pre_f (splice V ch)) = filter (outside V) (map nd (pre_f ch))).
  { induction ch as [|c ch IHch]; [reflexivity|]. inversion IH as [|? ? Hc Hcs]; subst.
    cbn [flat_map]. rewrite !flat_map_app, !map_app, filter_app, Hc, (IHch Hcs). reflexivity. }
  cbn [splice_t pre map filter].
  change (outside V (nd (T id i ch))) with (negb (existsb (Nat.eqb id) V)).
  destruct (existsb (Nat.eqb id) V); cbn [negb]; [exact Hch|].
  cbn [flat_map pre]. rewrite app_nil_r. cbn [map]. rewrite Hch. reflexivity.
Qed.

Lemma splice_nodes_f V f : map nd (pre_f (splice V f)) = filter (outside V) (map nd (pre_f f)).
Proof.
  induction f as [|t f IH]; [reflexivity|]. cbn [flat_map]. rewrite !flat_map_app, !map_app, filter_app, splice_nodes, IH. reflexivity.
Qed.

(* remove(keep_children=True) and remove(keep_children=True, with_clones=True): the whole victim group is
   contracted - validated up front, then every victim is replaced by its children - and nothing else changes *)
Theorem remove_keep_clones_effect w ti n wc r w' :
  op_remove w ti n true wc = (Ok r, w') ->
  exists t t' d,
    get_tree w ti = Some t /\ get_tree w' ti = Some t' /\ did_of n (forest_of t) = Some d /\ r = [] /\
    next w' = next w /\ (forall tj, tj <> ti -> get_tree w' tj = get_tree w tj) /\
    let V := if wc then filter (fun c => negb (Nat.eqb c n)) (idx_get d (idx t)) ++ [n] else [n] in
    existsb (keep_collides_all t V) V = false /\
    (NoDup (ids (forest_of t)) ->
     forest_of t' = splice V (forest_of t) /\
     map nd (pre_f (forest_of t')) = filter (outside V) (map nd (pre_f (forest_of t)))).
Proof.
  unfold op_remove. intros H.
  destruct (get_tree w ti) as [t|] eqn:Et; [|discriminate].
  destruct (did_of n (forest_of t)) as [d|] eqn:Ed; [|discriminate].
  cbn [andb] in H. destruct (existsb _ _) eqn:Col in H; [discriminate|]. injection H as <- <-.
  eexists t, _, d. split; [first [reflexivity|exact Et]|]. split; [exact (get_put_same _ _ t _ Et)|].
  split; [first [reflexivity|exact Ed]|]. split; [reflexivity|]. split; [reflexivity|].
  split; [intros tj Hj; rewrite get_put_other by congruence; reflexivity|]. cbv zeta. split; [exact Col|]. intros ND.
  assert (E := km_fold_splice (if wc then filter (fun c => negb (Nat.eqb c n)) (idx_get d (idx t)) ++ [n] else [n]) t ND).
  unfold km_step in E. split; [exact E|]. rewrite <- splice_nodes_f. apply (f_equal (fun z => map nd (pre_f z))). exact E.
Qed.

(* a refused remove() changes nothing, whatever the flags *)
Theorem remove_refused_unchanged w ti n keep wc e w' : op_remove w ti n keep wc = (Err e, w') -> w' = w.
Proof.
  unfold op_remove. destruct (get_tree w ti) as [t|]; [|intros H; now injection H].
  destruct (did_of n (forest_of t)) as [d|]; [|intros H; now injection H].
  destruct (keep && existsb _ _); intros H; [now injection H|discriminate].
Qed.

(* ------------------------------------------------------------------ *)
(* Part 2: from_dict / Tree.from_dict *)

(* -- paths of fresh and of untouched nodes -- *)
Lemma find_path_absent n c : ~ In n (ids_t c) -> find_path n c = None.
Proof.
  intros H. destruct (find_path n c) as [p|] eqn:E; [|reflexivity]. exfalso. apply H.
  destruct (proj1 find_path_sound c n p E) as (s & Hs & <-).
  destruct (sub_at_loc p c s Hs) as (_ & _ & Hin & _). unfold ids_t. now apply in_map.
Qed.

Lemma find_in_mid n a t b r : (forall c, In c a -> find_path n c = None) -> find_path n t = Some r ->
  forall k, find_path_in n (a ++ t :: b) k = Some ((k + length a) :: r).
Proof.
  induction a as [|c a IH]; intros Ha Ht k; cbn [app find_path_in length].
  - rewrite Ht, Nat.add_0_r. reflexivity.
  - rewrite (Ha c (or_introl eq_refl)), IH by (auto; intros x Hx; apply Ha; now right). f_equal. f_equal. lia.
Qed.

Lemma find_in_inv n : forall f k q, find_path_in n f k = Some q ->
  exists a t b r, f = a ++ t :: b /\ q = (k + length a) :: r /\ find_path n t = Some r /\ (forall c, In c a -> find_path n c = None).
Proof.
  induction f as [|c f IH]; intros k q H; [discriminate|]. cbn [find_path_in] in H. destruct (find_path n c) as [p|] eqn:E.
  - injection H as <-. exists [], c, f, p. cbn [app length]. rewrite Nat.add_0_r. repeat split; auto. intros x [].
  - destruct (IH (S k) q H) as (a & t & b & r & -> & -> & Ht & Ha). exists (c :: a), t, b, r. cbn [app length].
    repeat split; auto; [f_equal; lia|]. intros x [<-|Hx]; auto.
Qed.

Lemma set_ch_set_ch g h t : set_ch g (set_ch h t) = set_ch (fun c => g (h c)) t.
Proof. now destruct t. Qed.

(* the path of a node does not move when its own child list is rewritten *)
Lemma find_path_stable n g : forall r t, find_path n t = Some r -> find_path n (set_ch (upd_ch r g) t) = Some r.
Proof.
  induction r as [|j rest IH]; intros [id i ch] H; rewrite find_path_unfold in H; cbn [set_ch]; rewrite find_path_unfold;
    destruct (Nat.eqb id n) eqn:E; try reflexivity; try discriminate.
  - destruct (find_in_inv n ch 0 [] H) as (a & t & b & r & _ & X & _). discriminate.
  - destruct (find_in_inv n ch 0 _ H) as (a & t & b & r & -> & X & Ht & Ha). cbn [Nat.add] in X. injection X as -> <-.
    cbn [upd_ch]. rewrite upd_nth_split. rewrite (find_in_mid n a _ b rest Ha (IH t Ht) 0). reflexivity.
Qed.

Lemma parent_path_stable p g f pq : parent_path p f = Some pq -> parent_path p (upd_ch pq g f) = Some pq.
Proof.
  unfold parent_path, node_path. destruct (Nat.eqb p 0); [auto|]. intros H.
  destruct (find_in_inv p f 0 pq H) as (a & t & b & r & -> & -> & Ht & Ha). cbn [Nat.add upd_ch]. rewrite upd_nth_split.
  now rewrite (find_in_mid p a _ b r Ha (find_path_stable p g r t Ht) 0).
Qed.

Lemma ids_t_sub x f n : In x f -> In n (ids_t x) -> In n (ids f).
Proof.
  unfold ids, ids_t. intros Hx H. apply in_map_iff in H. destruct H as (s & <- & Hs). apply in_map. apply in_flat_map. now exists x.
Qed.

(* a leaf with a fresh identity is appended below a parent: where it is found, and what rewriting its
   (empty) child list amounts to *)
Lemma append_leaf_path n i : forall q f c, get_ch q f = Some c -> ~ In n (ids f) ->
  find_path_in n (upd_ch q (fun c => c ++ [T n i []]) f) 0 = Some (q ++ [length c]).
Proof.
  induction q as [|j rest IH]; intros f c G Fn.
  - cbn in G. injection G as ->. cbn [upd_ch app].
    rewrite (find_in_mid n c (T n i []) [] []); [reflexivity| |cbn; now rewrite Nat.eqb_refl].
    intros x Hx. apply find_path_absent. intros Y. apply Fn. now apply (ids_t_sub x).
  - cbn [get_ch] in G. destruct (nth_error f j) as [t|] eqn:E; [|discriminate].
    destruct (nth_error_split f j E) as (a & b & -> & <-). cbn [upd_ch]. rewrite upd_nth_split.
    assert (Fa : forall x, In x a -> find_path n x = None).
    { intros x Hx. apply find_path_absent. intros Y. apply Fn. apply (ids_t_sub x); [apply in_or_app; now left|exact Y]. }
    assert (Ft : ~ In n (ids_t t)).
    { intros Y. apply Fn. apply (ids_t_sub t); [apply in_or_app; right; now left|exact Y]. }
    rewrite (find_in_mid n a _ b (rest ++ [length c]) Fa); [reflexivity|].
    destruct t as [id inf ch]. cbn [set_ch rch] in *. rewrite find_path_unfold.
    replace (Nat.eqb id n) with false by (symmetry; apply Nat.eqb_neq; intros ->; apply Ft; apply in_ids_t; now left).
    apply IH; [exact G|]. intros Y. apply Ft. apply in_ids_t. now right.
Qed.

Lemma append_leaf_ctx n i : forall q f c, get_ch q f = Some c ->
  get_ch (q ++ [length c]) (upd_ch q (fun c => c ++ [T n i []]) f) = Some [] /\
  forall g, upd_ch (q ++ [length c]) g (upd_ch q (fun c => c ++ [T n i []]) f) = upd_ch q (fun c => c ++ [T n i (g [])]) f.
Proof.
  induction q as [|j rest IH]; intros f c G.
  - cbn in G. injection G as ->. cbn [upd_ch app get_ch]. rewrite nth_error_app_len. cbn [rch get_ch]. split; [reflexivity|].
    intros g. now rewrite upd_nth_split.
  - cbn [get_ch] in G. destruct (nth_error f j) as [t|] eqn:E; [|discriminate].
    destruct (nth_error_split f j E) as (a & b & -> & <-). cbn [upd_ch app get_ch]. rewrite !upd_nth_split, nth_error_app_len.
    destruct (IH (rch t) c G) as (I1 & I2). destruct t as [id inf ch]. cbn [set_ch rch] in *. split; [exact I1|].
    intros g. rewrite !upd_nth_split. cbn [set_ch]. now rewrite I2.
Qed.

Lemma upd_ch_comp : forall q g h f, upd_ch q g (upd_ch q h f) = upd_ch q (fun c => g (h c)) f.
Proof.
  induction q as [|j rest IH]; intros g h f; [reflexivity|]. cbn [upd_ch].
  destruct (nth_error f j) as [t|] eqn:E.
  - destruct (nth_error_split f j E) as (a & b & -> & <-). rewrite !upd_nth_split, set_ch_set_ch. f_equal. f_equal.
    destruct t as [id inf ch]. cbn [set_ch]. now rewrite IH.
  - now rewrite !(upd_nth_none _ _ _ E).
Qed.

(* -- what the items build: one node per item, fresh identities in pre-order of the items -- *)
Definition dkind (ty : bool) : kind := if ty then Some [99; 104; 105; 108; 100]%Z else None.

Inductive built (cs : calcspec) (ty : bool) : nat -> ditem -> rt -> nat -> Prop :=
| built_item n d e ch id kids n' :
    (e = Some id \/ e = None /\ calc_id cs d = Some id) -> builts cs ty (S n) ch kids n' ->
    built cs ty n (DI d e ch) (T n (mk_info d id (dkind ty) []) kids) n'
with builts (cs : calcspec) (ty : bool) : nat -> list ditem -> list rt -> nat -> Prop :=
| builts_nil n : builts cs ty n [] [] n
| builts_cons n x l t f n1 n2 : built cs ty n x t n1 -> builts cs ty n1 l f n2 -> builts cs ty n (x :: l) (t :: f) n2.

Definition app1 (x : rt) : list rt -> list rt := fun c => c ++ [x].

Definition ItemOK (it : ditem) : Prop :=
  forall ti p w r w' t pq c, WFw w -> get_tree w ti = Some t ->
    parent_path p (forest_of t) = Some pq -> get_ch pq (forest_of t) = Some c ->
    from_dict_item ti p it w = (Ok r, w') ->
    exists x t', built (calc t) (typed t) (next w) it x (next w') /\ get_tree w' ti = Some t' /\
      forest_of t' = upd_ch pq (fun c => c ++ [x]) (forest_of t) /\ typed t' = typed t /\ calc t' = calc t /\ WFw w' /\
      (forall tj, tj <> ti -> get_tree w' tj = get_tree w tj).

Lemma items_ok l : Forall ItemOK l ->
  forall ti p w r w' t pq c, WFw w -> get_tree w ti = Some t ->
    parent_path p (forest_of t) = Some pq -> get_ch pq (forest_of t) = Some c ->
    seq_items (from_dict_item ti p) l w = (Ok r, w') ->
    exists xs t', builts (calc t) (typed t) (next w) l xs (next w') /\ get_tree w' ti = Some t' /\
      forest_of t' = upd_ch pq (fun c => c ++ xs) (forest_of t) /\ typed t' = typed t /\ calc t' = calc t /\ WFw w' /\
      (forall tj, tj <> ti -> get_tree w' tj = get_tree w tj).
Proof.
  induction 1 as [|x l Hx Hl IH]; intros ti p w r w' t pq c W Gt Gp Gc H; cbn [seq_items] in H.
  - injection H as <- <-. exists [], t. refine (conj (builts_nil _ _ _) (conj Gt (conj _ (conj eq_refl (conj eq_refl (conj W (fun _ _ => eq_refl))))))).
    rewrite (upd_ch_const pq _ c _ Gc), app_nil_r. symmetry. now apply upd_ch_same.
  - destruct (from_dict_item ti p x w) as [[r1|e1] w1] eqn:E1; [|discriminate].
    destruct (Hx ti p w r1 w1 t pq c W Gt Gp Gc E1) as (x1 & t1 & B1 & Gt1 & F1 & Ty1 & Ca1 & W1 & O1).
    assert (Gp1 : parent_path p (forest_of t1) = Some pq) by (rewrite F1; now apply parent_path_stable).
    assert (Gc1 : get_ch pq (forest_of t1) = Some (c ++ [x1])) by (rewrite F1; exact (get_ch_upd_ch pq (fun c => c ++ [x1]) _ c Gc)).
    destruct (IH ti p w1 r w' t1 pq _ W1 Gt1 Gp1 Gc1 H) as (xs & t' & B2 & Gt' & F2 & Ty2 & Ca2 & W2 & O2).
    rewrite Ty1, Ca1 in B2. exists (x1 :: xs), t'.
    refine (conj (builts_cons _ _ _ _ _ _ _ _ _ B1 B2) (conj Gt' (conj _ (conj _ (conj _ (conj W2 _)))))); try congruence.
    + rewrite F2, F1, upd_ch_comp, (upd_ch_const pq _ c _ Gc). symmetry. rewrite (upd_ch_const pq _ c _ Gc). now rewrite <- app_assoc.
    + intros tj Hj. rewrite (O2 tj Hj). now apply O1.
Qed.

Lemma item_ok : forall it, ItemOK it.
Proof.
  induction it as [d e ch IH] using ditem_ind'. intros ti p w r w' t pq c W Gt Gp Gc H. rewrite from_dict_item_eq in H.
  assert (W1 := WFw_op_add w ti p d e None BNone W).
  destruct (op_add w ti p d e None BNone) as [[[|n [|n2 r2]]|x] w1] eqn:Ea; try discriminate. cbn [snd] in W1.
  unfold op_add in Ea. rewrite Gt, Gp, Gc in Ea. destruct (negb (before_ok (norm_before BNone) c)); [discriminate|].
  destruct (match e with Some e0 => Some e0 | None => calc_id (calc t) d end) as [id|] eqn:Eid; [|discriminate].
  destruct (collides t p id); [discriminate|]. injection Ea as <- <-.
  set (n := next w) in *. set (inf := mk_info d id (default_kind t None) []).
  assert (Ek : default_kind t None = dkind (typed t)) by (unfold default_kind, dkind; now destruct (typed t)).
  set (f1 := upd_ch pq (place (norm_before BNone) (T n inf [])) (forest_of t)) in *.
  assert (F1 : f1 = upd_ch pq (fun c => c ++ [T n inf []]) (forest_of t)).
  { unfold f1. rewrite (upd_ch_const pq _ c _ Gc). symmetry. rewrite (upd_ch_const pq _ c _ Gc). cbn [norm_before]. now rewrite place_append. }
  set (t1 := set_all t f1 (reg t ++ [n]) (idx_add id n (idx t))) in *.
  assert (Gt1 : get_tree (put_tree (bump w 1) ti t1) ti = Some t1) by (apply (get_put_same _ _ t); exact Gt).
  assert (Fn : ~ In n (ids (forest_of t))) by (intros Y; apply (WFw_tree_lt w ti t n W Gt) in Y; unfold n in Y; lia).
  assert (Nz : n <> 0) by (unfold n; destruct W; lia).
  assert (Gp1 : parent_path n (forest_of t1) = Some (pq ++ [length c])).
  { unfold parent_path, node_path. apply Nat.eqb_neq in Nz. rewrite Nz. cbn [t1 forest_of set_all]. rewrite F1. now apply append_leaf_path. }
  destruct (append_leaf_ctx n inf pq (forest_of t) c Gc) as (Gc1 & Up). rewrite <- F1 in Gc1, Up.
  destruct (items_ok ch IH ti n _ r w' t1 _ [] W1 Gt1 Gp1 Gc1 H) as (xs & t' & B & Gt' & F' & Ty & Ca & W' & O').
  cbn [t1 forest_of set_all typed calc next bump] in *. exists (T n inf xs), t'.
  refine (conj _ (conj Gt' (conj _ (conj Ty (conj Ca (conj W' _)))))).
  - unfold inf. rewrite Ek. constructor.
    + destruct e as [e0|]; [left; congruence|right; now split].
    + replace (S n) with (n + 1) by lia. exact B.
  - rewrite F', Up. reflexivity.
  - intros tj Hj. rewrite (O' tj Hj). rewrite get_put_other by congruence. reflexivity.
Qed.

(* the identities of what the items build are consecutive, in pre-order, from the allocator *)
Lemma built_ids cs ty :
  (forall n it x n', built cs ty n it x n' -> ids_t x = seq n (n' - n) /\ n < n') /\
  (forall n l f n', builts cs ty n l f n' -> ids f = seq n (n' - n) /\ n <= n').
Proof.
  assert (Hi : forall it n x n', built cs ty n it x n' -> ids_t x = seq n (n' - n) /\ n < n').
  { induction it as [d e ch IH] using ditem_ind'. intros n x n' H. inversion H as [n0 d0 e0 ch0 id kids n1 Hid Hk]; subst.
    assert (Hl : ids kids = seq (S n) (n' - S n) /\ S n <= n').
    { clear H Hid. revert kids Hk. generalize (S n). induction IH as [|c ch Hc Hcs IHl]; intros m kids Hk; inversion Hk as [|n0 x0 l0 t f n1 n2 Hb Hbs]; subst.
      - rewrite Nat.sub_diag. split; [reflexivity|lia].
      - destruct (Hc _ _ _ Hb) as (E1 & L1). destruct (IHl _ _ Hbs) as (E2 & L2). split; [|lia].
        change (t :: f) with ([t] ++ f). rewrite ids_app. replace (ids [t]) with (ids_t t) by (unfold ids, ids_t; cbn; now rewrite app_nil_r).
        rewrite E1, E2. replace (n' - m) with ((n1 - m) + (n' - n1)) by lia. rewrite seq_app. f_equal. f_equal. lia. }
    destruct Hl as (E & L). rewrite ids_t_unfold. cbn [rid rch]. rewrite E. split; [|lia].
    replace (n' - n) with (S (n' - S n)) by lia. reflexivity. }
  split; [intros n it; apply Hi|].
  intros n l f n' H. induction H as [n|n x l t f n1 n2 Hx Hl IH].
  - rewrite Nat.sub_diag. split; [reflexivity|lia].
  - destruct (Hi _ _ _ _ Hx) as (E1 & L1). destruct IH as (E2 & L2). split; [|lia].
    change (t :: f) with ([t] ++ f). rewrite ids_app. replace (ids [t]) with (ids_t t) by (unfold ids, ids_t; cbn; now rewrite app_nil_r).
    rewrite E1, E2. replace (n2 - n) with ((n1 - n) + (n2 - n1)) by lia. rewrite seq_app. f_equal. f_equal. lia.
Qed.

(* Node.from_dict on a childless node: the branches the items describe, appended below the node; every
   other row of the tree stays as it is, in unchanged order; no other tree changes *)
Theorem from_dict_effect w ti p items r w' : WFw w ->
  op_from_dict w ti p items = (Ok r, w') ->
  exists t t' pq kids,
    get_tree w ti = Some t /\ get_tree w' ti = Some t' /\
    parent_path p (forest_of t) = Some pq /\ get_ch pq (forest_of t) = Some [] /\
    builts (calc t) (typed t) (next w) items kids (next w') /\
    ids kids = seq (next w) (next w' - next w) /\
    forest_of t' = upd_ch pq (fun _ => kids) (forest_of t) /\
    repl_rows [] (rows p kids) (rows 0 (forest_of t)) (rows 0 (forest_of t')) /\
    (forall tj, tj <> ti -> get_tree w' tj = get_tree w tj).
Proof.
  intros W H. unfold op_from_dict, children_of in H. destruct (get_tree w ti) as [t|] eqn:Gt; [|discriminate].
  destruct (parent_path p (forest_of t)) as [pq|] eqn:Gp; [|discriminate].
  destruct (get_ch pq (forest_of t)) as [[|c0 c]|] eqn:Gc; try discriminate.
  rewrite from_dict_items_eq in H. destruct (seq_items (from_dict_item ti p) items w) as [[r1|e1] w1] eqn:E; [|discriminate].
  injection H as <- <-.
  destruct (items_ok items (proj2 (Forall_forall _ _) (fun x _ => item_ok x)) ti p w r1 w1 t pq [] W Gt Gp Gc E)
    as (kids & t' & B & Gt' & F & _ & _ & _ & O).
  assert (Ei := proj1 (proj2 (built_ids _ _) _ _ _ _ B)).
  assert (F' : forest_of t' = upd_ch pq (fun _ => kids) (forest_of t)) by (rewrite F; exact (upd_ch_const pq _ [] (fun c => c ++ kids) Gc)).
  exists t, t', pq, kids. refine (conj eq_refl (conj Gt' (conj Gp (conj Gc (conj B (conj Ei (conj F' (conj _ O)))))))).
  rewrite F'. destruct (upd_ch_context pq (forest_of t) 0 [] Gc) as (A & B0 & E1 & E2).
  rewrite (parent_path_owner p _ pq [] Gp Gc) in E1, E2. exists A, B0. split; [exact E1|]. now rewrite E2.
Qed.

(* a refused from_dict leaves every tree as it was (fix D48); only the allocator has moved *)
Theorem from_dict_refused w ti p items e w' : op_from_dict w ti p items = (Err e, w') -> trees w' = trees w.
Proof.
  unfold op_from_dict. destruct (get_tree w ti) as [t|]; [|intros H; now injection H as _ <-].
  destruct (children_of p (forest_of t)) as [[|c0 c]|]; try (intros H; now injection H as _ <-).
  destruct (from_dict_items ti p items w) as [[r1|e1] w1]; [discriminate|]. intros H. now injection H as _ <-.
Qed.

(* Tree.from_dict: a new plain tree holding the branches the items describe; a refusal drops it *)
Theorem tree_from_dict_effect w items r w' : WFw w ->
  op_tree_from_dict w items = (Ok r, w') ->
  r = [length (trees w)] /\
  exists t' kids,
    get_tree w' (length (trees w)) = Some t' /\ forest_of t' = kids /\ typed t' = false /\ calc t' = None /\
    builts None false (next w) items kids (next w') /\ ids kids = seq (next w) (next w' - next w) /\
    (forall tj, tj < length (trees w) -> get_tree w' tj = get_tree w tj).
Proof.
  intros Ww H. unfold op_tree_from_dict in H. rewrite from_dict_items_eq in H.
  set (ti := length (trees w)) in *. set (w0 := W (trees w ++ [TS [] [] [] false None]) (next w)) in *.
  destruct (seq_items (from_dict_item ti 0) items w0) as [[r1|e1] w1] eqn:E; [|discriminate]. injection H as <- <-.
  assert (W0 : WFw w0) by (apply (WFw_new_tree w false None Ww)).
  assert (Gt : get_tree w0 ti = Some (TS [] [] [] false None)) by (unfold get_tree, w0, ti; cbn [trees]; apply nth_error_app_len).
  destruct (items_ok items (proj2 (Forall_forall _ _) (fun x _ => item_ok x)) ti 0 w0 r1 w1 _ [] [] W0 Gt eq_refl eq_refl E)
    as (kids & t' & B & Gt' & F & Ty & Ca & _ & O).
  split; [reflexivity|]. exists t', kids. cbn [forest_of typed calc upd_ch app] in *.
  assert (Ei := proj1 (proj2 (built_ids _ _) _ _ _ _ B)).
  refine (conj Gt' (conj F (conj Ty (conj Ca (conj B (conj Ei _)))))).
  intros tj Hj. rewrite O by lia. unfold get_tree, w0. cbn [trees]. now apply nth_error_app1.
Qed.

Theorem tree_from_dict_refused w items e w' : op_tree_from_dict w items = (Err e, w') -> trees w' = trees w.
Proof.
  unfold op_tree_from_dict. destruct (from_dict_items _ 0 items _) as [[r1|e1] w1]; [discriminate|]. intros H. now injection H as _ <-.
Qed.

(* ------------------------------------------------------------------ *)
(* Part 3: in-place filter *)

(* the structural reading of a list of removals: branches rooted in B go, nodes of K lose their children *)
Definition inl (x : nat) (l : list nat) : bool := existsb (Nat.eqb x) l.
Fixpoint cut_t (B K : list nat) (t : rt) : list rt :=
  match t with
  | T id i ch => if inl id B then [] else [T id i (if inl id K then [] else flat_map (cut_t B K) ch)]
  end.
Notation cut B K := (flat_map (cut_t B K)).

Lemma cut_app B K a b : cut B K (a ++ b) = cut B K a ++ cut B K b.
Proof. apply flat_map_app. Qed.

Lemma cut_ext B K B' K' : forall t,
  (forall x, In x (ids_t t) -> inl x B = inl x B' /\ inl x K = inl x K') -> cut_t B K t = cut_t B' K' t.
Proof.
  induction t as [id i ch IH] using rt_ind'. intros H. cbn [cut_t].
  destruct (H id (proj2 (in_ids_t id id i ch) (or_introl eq_refl))) as [E1 E2]. rewrite E1, E2.
  destruct (inl id B'); [reflexivity|]. destruct (inl id K'); [reflexivity|]. f_equal. f_equal.
  assert (Hc : forall x, In x (ids ch) -> inl x B = inl x B' /\ inl x K = inl x K') by (intros x Hx; apply H; apply in_ids_t; now right).
  clear H E1 E2. induction ch as [|c ch IHch]; [reflexivity|]. inversion IH as [|? ? Hc1 Hcs]; subst. cbn [flat_map]. f_equal.
  - apply Hc1. intros x Hx. apply Hc. apply in_ids_cons. now left.
  - apply IHch; [exact Hcs|]. intros x Hx. apply Hc. apply in_ids_cons. now right.
Qed.

Lemma cut_ext_f B K B' K' f :
  (forall x, In x (ids f) -> inl x B = inl x B' /\ inl x K = inl x K') -> cut B K f = cut B' K' f.
Proof.
  induction f as [|t f IH]; intros H; [reflexivity|]. cbn [flat_map]. f_equal.
  - apply cut_ext. intros x Hx. apply H. apply in_ids_cons. now left.
  - apply IH. intros x Hx. apply H. apply in_ids_cons. now right.
Qed.

Lemma cut_nil : forall t, cut_t [] [] t = [t].
Proof.
  induction t as [id i ch IH] using rt_ind'. cbn [cut_t inl existsb]. f_equal. f_equal.
  induction ch as [|c ch IHch]; [reflexivity|]. inversion IH as [|? ? Hc Hcs]; subst. cbn [flat_map]. rewrite Hc, (IHch Hcs). reflexivity.
Qed.

Lemma cut_nil_f f : cut [] [] f = f.
Proof. induction f as [|t f IH]; [reflexivity|]. cbn [flat_map]. now rewrite cut_nil, IH. Qed.

Lemma inl_false x l : ~ In x l -> inl x l = false.
Proof.
  intros H. unfold inl. destruct (existsb (Nat.eqb x) l) eqn:E; [|reflexivity]. exfalso. apply H.
  apply existsb_exists in E. destruct E as (y & Hy & Ey). apply Nat.eqb_eq in Ey. now subst.
Qed.

Lemma inl_true x l : In x l -> inl x l = true.
Proof. intros H. apply existsb_exists. exists x. split; [assumption|apply Nat.eqb_refl]. Qed.

Lemma cut_absent B K f : (forall x, In x (ids f) -> ~ In x B /\ ~ In x K) -> cut B K f = f.
Proof.
  intros H. rewrite <- (cut_nil_f f) at 2. apply cut_ext_f. intros x Hx. destruct (H x Hx). split; now apply inl_false.
Qed.

Lemma cut_cut B1 K1 B2 K2 : forall t, cut B2 K2 (cut_t B1 K1 t) = cut_t (B1 ++ B2) (K1 ++ K2) t.
Proof.
  induction t as [id i ch IH] using rt_ind'. cbn [cut_t]. unfold inl. rewrite !existsb_app. fold (inl id B1) (inl id B2) (inl id K1) (inl id K2).
  destruct (inl id B1); [reflexivity|]. cbn [orb flat_map cut_t]. rewrite app_nil_r.
  destruct (inl id B2); [reflexivity|]. f_equal. f_equal.
  destruct (inl id K1); cbn [orb]; [now destruct (inl id K2)|]. destruct (inl id K2); [reflexivity|].
  induction ch as [|c ch IHch]; [reflexivity|]. inversion IH as [|? ? Hc Hcs]; subst.
  cbn [flat_map]. rewrite cut_app, Hc, (IHch Hcs). reflexivity.
Qed.

Lemma cut_cut_f B1 K1 B2 K2 f : cut B2 K2 (cut B1 K1 f) = cut (B1 ++ B2) (K1 ++ K2) f.
Proof. induction f as [|t f IH]; [reflexivity|]. cbn [flat_map]. rewrite cut_app, cut_cut, IH. reflexivity. Qed.

Lemma prune_is_cut V : forall t, prune_t V t = cut_t V [] t.
Proof.
  induction t as [id i ch IH] using rt_ind'. cbn [prune_t cut_t inl existsb]. fold (inl id V). destruct (inl id V); [reflexivity|]. f_equal. f_equal.
  induction ch as [|c ch IHch]; [reflexivity|]. inversion IH as [|? ? Hc Hcs]; subst. cbn [flat_map]. now rewrite Hc, (IHch Hcs).
Qed.

Lemma prune_is_cut_f V f : prune V f = cut V [] f.
Proof. induction f as [|t f IH]; [reflexivity|]. cbn [flat_map]. now rewrite prune_is_cut, IH. Qed.

Lemma ids_cons_t t f : ids (t :: f) = ids_t t ++ ids f.
Proof. unfold ids, ids_t. cbn [flat_map]. now rewrite map_app. Qed.

(* remove_children() of one node by path surgery = cutting below that node *)
Lemma cut_kids_t n : forall r t, find_path n t = Some r -> NoDup (ids_t t) ->
  cut_t [] [n] t = [set_ch (upd_ch r (fun _ => [])) t].
Proof.
  induction r as [|j rest IH]; intros [id i ch] H ND; rewrite find_path_unfold in H; cbn [set_ch cut_t inl existsb];
    destruct (Nat.eqb id n) eqn:E; try discriminate.
  - reflexivity.
  - destruct (find_in_inv n ch 0 [] H) as (a & t & b & r & _ & X & _). discriminate.
  - destruct (find_in_inv n ch 0 _ H) as (a & t & b & r & -> & X & Ht & Ha). cbn [Nat.add] in X. injection X as -> <-.
    cbn [orb upd_ch]. rewrite upd_nth_split, !cut_app. cbn [flat_map]. f_equal. f_equal.
    rewrite ids_t_unfold in ND. cbn [rid rch] in ND. apply NoDup_cons_iff in ND. destruct ND as [_ ND]. rewrite ids_app, ids_cons_t in ND.
    assert (Hn : In n (ids_t t)).
    { destruct (proj1 find_path_sound t n rest Ht) as (s & Hs & <-). destruct (sub_at_loc rest t s Hs) as (_ & _ & Hin & _). unfold ids_t. now apply in_map. }
    assert (Ca : cut [] [n] a = a).
    { apply cut_absent. intros x Hx. split; [intros []|]. intros [<-|[]]. apply (NoDup_app_disj _ _ n ND Hx). apply in_or_app. now left. }
    assert (Cb : cut [] [n] b = b).
    { apply cut_absent. intros x Hx. split; [intros []|]. intros [<-|[]]. apply NoDup_app_r in ND. apply (NoDup_app_disj _ _ n ND Hn Hx). }
    rewrite Ca, Cb, (IH t Ht); [reflexivity|]. apply NoDup_app_r in ND. now apply NoDup_app_l in ND.
Qed.

Lemma cut_kids_f n f pq : find_path_in n f 0 = Some pq -> NoDup (ids f) ->
  cut [] [n] f = upd_ch pq (fun _ => []) f.
Proof.
  intros H ND. destruct (find_in_inv n f 0 _ H) as (a & t & b & r & -> & -> & Ht & Ha). cbn [Nat.add upd_ch].
  rewrite upd_nth_split, !cut_app. cbn [flat_map]. rewrite ids_app, ids_cons_t in ND.
  assert (Hn : In n (ids_t t)).
  { destruct (proj1 find_path_sound t n r Ht) as (s & Hs & <-). destruct (sub_at_loc r t s Hs) as (_ & _ & Hin & _). unfold ids_t. now apply in_map. }
  assert (Ca : cut [] [n] a = a).
  { apply cut_absent. intros x Hx. split; [intros []|]. intros [<-|[]]. apply (NoDup_app_disj _ _ n ND Hx). apply in_or_app. now left. }
  assert (Cb : cut [] [n] b = b).
  { apply cut_absent. intros x Hx. split; [intros []|]. intros [<-|[]]. apply NoDup_app_r in ND. apply (NoDup_app_disj _ _ n ND Hn Hx). }
  rewrite Ca, Cb, (cut_kids_t n r t Ht); [reflexivity|]. apply NoDup_app_r in ND. now apply NoDup_app_l in ND.
Qed.

Definition Bof (acts : list fact) : list nat := flat_map (fun a => match a with FBranch n => [n] | FKids _ => [] end) acts.
Definition Kof (acts : list fact) : list nat := flat_map (fun a => match a with FKids n => [n] | FBranch _ => [] end) acts.

Lemma Bof_app a b : Bof (a ++ b) = Bof a ++ Bof b. Proof. apply flat_map_app. Qed.
Lemma Kof_app a b : Kof (a ++ b) = Kof a ++ Kof b. Proof. apply flat_map_app. Qed.
Lemma Bof_branches l : Bof (map FBranch l) = l.
Proof. induction l as [|x l IH]; [reflexivity|]. cbn [map]. change (Bof (FBranch x :: map FBranch l)) with (x :: Bof (map FBranch l)). now rewrite IH. Qed.
Lemma Kof_branches l : Kof (map FBranch l) = [].
Proof. induction l as [|x l IH]; [reflexivity|]. cbn [map]. change (Kof (FBranch x :: map FBranch l)) with (Kof (map FBranch l)). exact IH. Qed.

(* one removal of the filter = one cut *)
Lemma apply_fact_cut t a : WF t -> ~ In 0 (Kof [a]) ->
  forest_of (apply_fact t a) = cut (Bof [a]) (Kof [a]) (forest_of t).
Proof.
  intros W Nz. assert (ND := wf_nodup t W). destruct a as [n|n]; cbn [apply_fact Bof Kof flat_map app].
  - rewrite <- prune_is_cut_f. destruct (remove_branch t n) as [t'|] eqn:E; [now apply remove_branch_prune|].
    symmetry. apply prune_absent_f. intros x [<-|[]] Hin.
    destruct (get_node_complete n _ Hin) as (s & Hs). destruct (remove_one_some t n false s Hs) as (t' & Ht). cbn [remove_one] in Ht. congruence.
  - assert (Nn : n <> 0) by (intros ->; apply Nz; now left).
    unfold remove_kids, parent_path, node_path. apply Nat.eqb_neq in Nn. rewrite Nn.
    destruct (find_path_in n (forest_of t) 0) as [pq|] eqn:E.
    + assert (Gp : parent_path n (forest_of t) = Some pq) by (unfold parent_path, node_path; now rewrite Nn).
      destruct (parent_path_get n _ pq Gp) as (ch & Gc). rewrite Gc. destruct (unregister_all (pre_f ch) (reg t) (idx t)).
      cbn [forest_of set_all]. symmetry. now apply cut_kids_f.
    + symmetry. apply cut_absent. intros x Hx. split; [intros []|]. intros [<-|[]].
      now apply (proj2 find_path_complete (forest_of t) n 0 E).
Qed.

Lemma apply_facts_cut acts : forall t, WF t -> ~ In 0 (Kof acts) ->
  forest_of (fold_left apply_fact acts t) = cut (Bof acts) (Kof acts) (forest_of t).
Proof.
  induction acts as [|a acts IH]; intros t W Nz; cbn [fold_left]; [symmetry; apply cut_nil_f|].
  change (a :: acts) with ([a] ++ acts) in *. rewrite Bof_app, Kof_app in *.
  rewrite IH; [|apply (WF_apply_fact t a W)|intros Y; apply Nz; apply in_or_app; now right].
  rewrite apply_fact_cut; [apply cut_cut_f|assumption|intros Y; apply Nz; apply in_or_app; now left].
Qed.

(* -- the visit of Node.filter against the specification F of Forest/Filter.v -- *)
Definition conv (x : verdict) : Filter.verdict :=
  match x with
  | VTrue => Filter.VTrue | VFalse => Filter.VFalse | VSkip => Filter.VSkip | VSkipKeep => Filter.VSkipKeepSelf
  | VSelect => Filter.VSelect | VStop => Filter.VStop | VRaise => Filter.VFalse
  end.
Definition vof (vd : verdicts) : nat -> Filter.verdict := fun id => conv (verdict_of vd id).

Fixpoint fgo (vd : verdicts) (l : list rt) (s : bool) (pend : list nat) (must : bool) (acts : list fact) {struct l}
  : bool * list fact * bool * bool :=
  match l with
  | [] => (must, acts ++ map FBranch pend, s, false)
  | c :: l' =>
      match (if s then VSkip else verdict_of vd (rid c)) with
      | VRaise => (must, acts, s, true)
      | VStop => fgo vd l' true (pend ++ [rid c]) must acts
      | VSkip => fgo vd l' s (pend ++ [rid c]) must acts
      | VSkipKeep => fgo vd l' s pend true (acts ++ [FKids (rid c)])
      | VSelect => fgo vd l' s pend true acts
      | VTrue =>
          match fvisit vd c s with
          | (_, a, s', true) => (must, acts ++ a, s', true)
          | (_, a, s', false) => fgo vd l' s' pend true (acts ++ a)
          end
      | VFalse =>
          match fvisit vd c s with
          | (_, a, s', true) => (must, acts ++ a, s', true)
          | (true, a, s', false) => fgo vd l' s' pend true (acts ++ a)
          | (false, a, s', false) => fgo vd l' s' (pend ++ [rid c]) must (acts ++ a)
          end
      end
  end.

Lemma fvisit_unfold vd id i ch s : fvisit vd (T id i ch) s = fgo vd ch s [] false [].
Proof.
  cbn [fvisit].
  match goal with |- ?g ch s [] false [] = _ =>
    assert (H : forall l s pend must acts, g l s pend must acts = fgo vd l s pend must acts); [|apply H] end.
  induction l as [|c l IH]; intros s0 pend must acts; [reflexivity|]. cbn [fgo].
  destruct (if s0 then VSkip else verdict_of vd (rid c)); try apply IH; try reflexivity.
  - destruct (fvisit vd c s0) as [[[m a] s'] [|]]; [reflexivity|apply IH].
  - destruct (fvisit vd c s0) as [[[[|] a] s'] [|]]; try reflexivity; apply IH.
Qed.

Lemma inl_app x a b : inl x (a ++ b) = inl x a || inl x b.
Proof. unfold inl. apply existsb_app. Qed.

Lemma inl_in x l : inl x l = true <-> In x l.
Proof.
  unfold inl. rewrite existsb_exists. split; [intros (y & Hy & E); apply Nat.eqb_eq in E; now subst|].
  intros H. exists x. split; [assumption|apply Nat.eqb_refl].
Qed.

(* cutting a child list with removals that are sorted by where they apply *)
Lemma cons_cut id i ch l' a1 X' pend' :
  NoDup (ids (T id i ch :: l')) ->
  (forall x, In x (Bof a1) -> In x (ids ch)) -> (forall x, In x (Kof a1) -> x = id \/ In x (ids ch)) ->
  (forall x, In x (Bof X') -> In x (ids l') \/ In x pend') -> (forall x, In x (Kof X') -> In x (ids l')) ->
  (forall x, In x pend' -> ~ In x (ids l') /\ ~ In x (ids ch)) ->
  cut (Bof (a1 ++ X')) (Kof (a1 ++ X')) (T id i ch :: l') =
  (if inl id (Bof X') then [] else [T id i (if inl id (Kof a1) then [] else cut (Bof a1) (Kof a1) ch)]) ++ cut (Bof X') (Kof X') l'.
Proof.
  intros ND B1 K1 B2 K2 Pd. rewrite ids_cons_t, ids_t_unfold in ND. cbn [rid rch] in ND.
  assert (N1 : ~ In id (ids ch ++ ids l')) by (now apply NoDup_cons_iff in ND).
  assert (ND2 : NoDup (ids ch ++ ids l')) by (now apply NoDup_cons_iff in ND).
  assert (Dj : forall x, In x (ids ch) -> ~ In x (ids l')) by (intros x H1 H2; exact (NoDup_app_disj _ _ x ND2 H1 H2)).
  rewrite Bof_app, Kof_app. cbn [flat_map cut_t]. rewrite !inl_app.
  assert (E1 : inl id (Bof a1) = false).
  { apply inl_false. intros Y. apply N1. apply in_or_app. left. now apply B1. }
  assert (E2 : inl id (Kof X') = false).
  { apply inl_false. intros Y. apply N1. apply in_or_app. right. now apply K2. }
  rewrite E1, E2, orb_false_r. cbn [orb]. f_equal.
  - destruct (inl id (Bof X')); [reflexivity|]. f_equal. f_equal. destruct (inl id (Kof a1)); [reflexivity|].
    apply cut_ext_f. intros x Hx. rewrite !inl_app. split.
    + replace (inl x (Bof X')) with false; [apply orb_false_r|]. symmetry. apply inl_false. intros Y.
      destruct (B2 x Y) as [Z|Z]; [exact (Dj x Hx Z)|]. now apply (Pd x Z).
    + replace (inl x (Kof X')) with false; [apply orb_false_r|]. symmetry. apply inl_false. intros Y. exact (Dj x Hx (K2 x Y)).
  - apply cut_ext_f. intros x Hx. rewrite !inl_app. split.
    + replace (inl x (Bof a1)) with false; [reflexivity|]. symmetry. apply inl_false. intros Y. exact (Dj x (B1 x Y) Hx).
    + replace (inl x (Kof a1)) with false; [reflexivity|]. symmetry. apply inl_false. intros Y.
      destruct (K1 x Y) as [->|Z]; [apply N1; apply in_or_app; now right|exact (Dj x Z Hx)].
Qed.

Lemma assemble id i ch l' pend a1 X' (padd : bool) :
  NoDup (ids (T id i ch :: l')) -> (forall x, In x pend -> ~ In x (ids (T id i ch :: l'))) ->
  let pend' := if padd then pend ++ [id] else pend in
  incl pend' (Bof X') -> (forall x, In x (Bof X') -> In x (ids l') \/ In x pend') -> (forall x, In x (Kof X') -> In x (ids l')) ->
  (forall x, In x (Bof a1) -> In x (ids ch)) -> (forall x, In x (Kof a1) -> x = id \/ In x (ids ch)) ->
  incl pend (Bof (a1 ++ X')) /\
  (forall x, In x (Bof (a1 ++ X')) -> In x (ids (T id i ch :: l')) \/ In x pend) /\
  (forall x, In x (Kof (a1 ++ X')) -> In x (ids (T id i ch :: l'))) /\
  cut (Bof (a1 ++ X')) (Kof (a1 ++ X')) (T id i ch :: l') =
  (if padd then [] else [T id i (if inl id (Kof a1) then [] else cut (Bof a1) (Kof a1) ch)]) ++ cut (Bof X') (Kof X') l'.
Proof.
  intros ND Pd pend' I1 B2 K2 B1 K1.
  assert (ND' := ND). rewrite ids_cons_t, ids_t_unfold in ND'. cbn [rid rch] in ND'.
  assert (N1 : ~ In id (ids ch ++ ids l')) by (now apply NoDup_cons_iff in ND').
  assert (InC : forall x, In x (ids (T id i ch :: l')) <-> x = id \/ In x (ids ch) \/ In x (ids l')).
  { intros x. rewrite in_ids_cons, in_ids_t. tauto. }
  assert (Pd' : forall x, In x pend' -> ~ In x (ids l') /\ ~ In x (ids ch)).
  { intros x Hx. unfold pend' in Hx. assert (Hx' : In x pend \/ (padd = true /\ x = id)).
    { destruct padd; [apply in_app_or in Hx; destruct Hx as [Hx|[<-|[]]]; auto|auto]. }
    destruct Hx' as [Hx'|[_ ->]].
    - assert (Y := Pd x Hx'). rewrite InC in Y. tauto.
    - split; intros Y; apply N1; apply in_or_app; auto. }
  assert (Ip : incl pend pend') by (unfold pend'; destruct padd; [apply incl_appl|]; apply incl_refl).
  rewrite Bof_app, Kof_app. refine (conj _ (conj _ (conj _ _))).
  - intros x Hx. apply in_or_app. right. apply I1. now apply Ip.
  - intros x Hx. rewrite InC. apply in_app_or in Hx. destruct Hx as [Hx|Hx]; [left; right; left; now apply B1|].
    destruct (B2 x Hx) as [Y|Y]; [tauto|]. unfold pend' in Y. destruct padd; [|tauto].
    apply in_app_or in Y. destruct Y as [Y|[<-|[]]]; tauto.
  - intros x Hx. rewrite InC. apply in_app_or in Hx. destruct Hx as [Hx|Hx]; [destruct (K1 x Hx); tauto|right; right; now apply K2].
  - rewrite <- Bof_app, <- Kof_app, (cons_cut id i ch l' a1 X' pend' ND B1 K1 B2 K2 Pd'). f_equal.
    unfold pend' in *. destruct padd.
    + rewrite (inl_true id (Bof X')); [reflexivity|]. apply I1. apply in_or_app. right. now left.
    + rewrite (inl_false id (Bof X')); [reflexivity|]. intros Y. destruct (B2 id Y) as [Z|Z].
      * apply N1. apply in_or_app. now right.
      * apply (Pd id Z). apply InC. now left.
Qed.

Definition FOK (vd : verdicts) (t : rt) : Prop :=
  forall s m a s', NoDup (ids_t t) -> fvisit vd t s = (m, a, s', false) ->
    (forall x, In x (Bof a) -> In x (ids (rch t))) /\ (forall x, In x (Kof a) -> In x (ids (rch t))) /\
    cut (Bof a) (Kof a) (rch t) = fst (Filter.F_f (vof vd) s (rch t)) /\
    s' = snd (Filter.F_f (vof vd) s (rch t)) /\
    m = negb (Filter.is_nil (fst (Filter.F_f (vof vd) s (rch t)))).

Lemma fgo_spec vd l : Forall (FOK vd) l -> NoDup (ids l) ->
  forall s pend must acts m a s', (forall x, In x pend -> ~ In x (ids l)) ->
    fgo vd l s pend must acts = (m, a, s', false) ->
    exists X, a = acts ++ X /\ incl pend (Bof X) /\
      (forall x, In x (Bof X) -> In x (ids l) \/ In x pend) /\ (forall x, In x (Kof X) -> In x (ids l)) /\
      cut (Bof X) (Kof X) l = fst (Filter.F_f (vof vd) s l) /\
      s' = snd (Filter.F_f (vof vd) s l) /\
      m = must || negb (Filter.is_nil (fst (Filter.F_f (vof vd) s l))).
Proof.
  induction 1 as [|c l' Hc Hl IH]; intros ND s pend must acts m a s' Pd H.
  - cbn [fgo] in H. injection H as <- <- <-. exists (map FBranch pend). rewrite Bof_branches, Kof_branches.
    refine (conj eq_refl (conj (incl_refl _) (conj (fun x Hx => or_intror Hx) (conj (fun x (Hx : In x []) => match Hx with end) (conj eq_refl (conj eq_refl _)))))).
    cbn. now rewrite orb_false_r.
  - destruct c as [id i ch]. assert (ND' := ND). rewrite ids_cons_t in ND'.
    assert (NDc : NoDup (ids_t (T id i ch))) by (now apply NoDup_app_l in ND').
    assert (NDl : NoDup (ids l')) by (now apply NoDup_app_r in ND').
    assert (Hidl : ~ In id (ids l')).
    { intros Y. apply (NoDup_app_disj _ _ id ND'); [apply in_ids_t; now left|exact Y]. }
    assert (Pdl : forall x, In x pend -> ~ In x (ids l')) by (intros x Hx Y; apply (Pd x Hx); apply in_ids_cons; now right).
    assert (Pdl' : forall x, In x (pend ++ [id]) -> ~ In x (ids l')).
    { intros x Hx. apply in_app_or in Hx. destruct Hx as [Hx|[<-|[]]]; [now apply Pdl|exact Hidl]. }
    rewrite FilterProofs.F_f_cons, FilterProofs.F_t_unfold. cbn [fgo rid] in H.
    (* what a finished rest gives, put together with what was done for this child *)
    assert (Fin : forall (padd : bool) (a1 : list fact) (s1 must1 : bool) (keepc : option rt),
      fgo vd l' s1 (if padd then pend ++ [id] else pend) must1 (acts ++ a1) = (m, a, s', false) ->
      (forall x, In x (Bof a1) -> In x (ids ch)) -> (forall x, In x (Kof a1) -> x = id \/ In x (ids ch)) ->
      (if padd then [] else [T id i (if inl id (Kof a1) then [] else cut (Bof a1) (Kof a1) ch)]) = Filter.ocons keepc [] ->
      must1 = must || negb (Filter.is_nil (Filter.ocons keepc [])) ->
      exists X, a = acts ++ X /\ incl pend (Bof X) /\
        (forall x, In x (Bof X) -> In x (ids (T id i ch :: l')) \/ In x pend) /\ (forall x, In x (Kof X) -> In x (ids (T id i ch :: l'))) /\
        cut (Bof X) (Kof X) (T id i ch :: l') = Filter.ocons keepc (fst (Filter.F_f (vof vd) s1 l')) /\
        s' = snd (Filter.F_f (vof vd) s1 l') /\
        m = must || negb (Filter.is_nil (Filter.ocons keepc (fst (Filter.F_f (vof vd) s1 l'))))).
    { intros padd a1 s1 must1 keepc H1 B1 K1 Ek Em.
      destruct (IH NDl s1 _ must1 (acts ++ a1) m a s' (if padd as b return (forall x, In x (if b then pend ++ [id] else pend) -> ~ In x (ids l')) then Pdl' else Pdl) H1)
        as (X' & Ea & I1 & B2 & K2 & Ec & Es & Emm).
      destruct (assemble id i ch l' pend a1 X' padd ND Pd I1 B2 K2 B1 K1) as (J1 & J2 & J3 & J4).
      exists (a1 ++ X'). refine (conj _ (conj J1 (conj J2 (conj J3 (conj _ (conj Es _)))))).
      - now rewrite Ea, app_assoc.
      - rewrite J4, Ek, Ec. now destruct keepc.
      - rewrite Emm, Em. destruct keepc; cbn [Filter.ocons Filter.is_nil negb]; [now rewrite orb_true_r|now rewrite orb_false_r]. }
    assert (NoB : forall x, In x (Bof []) -> In x (ids ch)) by (intros x []).
    assert (NoK : forall x, In x (Kof []) -> x = id \/ In x (ids ch)) by (intros x []).
    destruct s.
    + (* stopped: the child goes *)
      cbn [fst snd]. rewrite <- (app_nil_r acts) in H.
      exact (Fin true [] true must None H NoB NoK eq_refl (eq_sym (orb_false_r must))).
    + assert (Ev' : vof vd id = conv (verdict_of vd id)) by reflexivity. rewrite Ev'. clear Ev'. revert H.
      destruct (verdict_of vd id) eqn:Ev; cbn [conv fst snd]; intros H.
      * (* True *)
        destruct (fvisit vd (T id i ch) false) as [[[m1 a1] s1] [|]] eqn:Ef; [discriminate|].
        destruct (Hc false m1 a1 s1 NDc Ef) as (B1 & K1 & Ec1 & Es1 & Em1). cbn [rch] in *.
        destruct (Fin false a1 s1 true (Some (T id i (fst (Filter.F_f (vof vd) false ch)))) H B1 (fun x Hx => or_intror (K1 x Hx))) as (X & R).
        { rewrite inl_false, Ec1; [reflexivity|]. intros Y. apply K1 in Y. rewrite ids_t_unfold in NDc. cbn [rid rch] in NDc. now apply NoDup_cons_iff in NDc. }
        { cbn. now rewrite orb_true_r. }
        exists X. now rewrite <- Es1.
      * (* False *)
        destruct (fvisit vd (T id i ch) false) as [[[m1 a1] s1] fl] eqn:Ef.
        assert (fl = false) by (destruct fl; [destruct m1; discriminate|reflexivity]). subst fl.
        destruct (Hc false m1 a1 s1 NDc Ef) as (B1 & K1 & Ec1 & Es1 & Em1). cbn [rch] in *.
        assert (Kn : inl id (Kof a1) = false).
        { apply inl_false. intros Y. apply K1 in Y. rewrite ids_t_unfold in NDc. cbn [rid rch] in NDc. now apply NoDup_cons_iff in NDc. }
        rewrite <- Es1. destruct m1.
        -- destruct (Filter.is_nil (fst (Filter.F_f (vof vd) false ch))) eqn:En; [discriminate|]. cbn [fst].
           apply (Fin false a1 s1 true (Some (T id i (fst (Filter.F_f (vof vd) false ch)))) H B1 (fun x Hx => or_intror (K1 x Hx))).
           ++ now rewrite Kn, Ec1.
           ++ cbn. now rewrite orb_true_r.
        -- destruct (Filter.is_nil (fst (Filter.F_f (vof vd) false ch))) eqn:En; [|discriminate]. cbn [fst].
           apply (Fin true a1 s1 must None H B1 (fun x Hx => or_intror (K1 x Hx)) eq_refl). cbn. now rewrite orb_false_r.
      * (* SkipBranch *)
        rewrite <- (app_nil_r acts) in H. exact (Fin true [] false must None H NoB NoK eq_refl (eq_sym (orb_false_r must))).
      * (* SkipBranch(and_self=False) *)
        apply (Fin false [FKids id] false true (Some (T id i [])) H).
        -- intros x [].
        -- intros x [<-|[]]. now left.
        -- cbn [Kof flat_map app inl existsb]. now rewrite Nat.eqb_refl.
        -- cbn. now rewrite orb_true_r.
      * (* SelectBranch *)
        rewrite <- (app_nil_r acts) in H. apply (Fin false [] false true (Some (T id i ch)) H NoB NoK).
        -- cbn [Kof Bof flat_map inl existsb]. now rewrite cut_nil_f.
        -- cbn. now rewrite orb_true_r.
      * (* StopTraversal *)
        rewrite <- (app_nil_r acts) in H. exact (Fin true [] true must None H NoB NoK eq_refl (eq_sym (orb_false_r must))).
      * discriminate.
Qed.

Lemma fok_all vd : forall t, FOK vd t.
Proof.
  induction t as [id i ch IH] using rt_ind'. intros s m a s' ND H. rewrite fvisit_unfold in H. cbn [rch].
  rewrite ids_t_unfold in ND. cbn [rid rch] in ND. apply NoDup_cons_iff in ND. destruct ND as [_ ND].
  destruct (fgo_spec vd ch IH ND s [] false [] m a s' (fun x (Hx : In x []) => match Hx with end) H) as (X & Ea & _ & B & K & Ec & Es & Em).
  cbn [app] in Ea. subst X. refine (conj _ (conj K (conj Ec (conj Es Em)))).
  intros x Hx. destruct (B x Hx) as [Y|[]]. exact Y.
Qed.

(* removals below one parent leave the rest of the forest alone *)
Lemma cut_local B K : forall pq f ch, get_ch pq f = Some ch -> NoDup (ids f) ->
  (forall x, In x B \/ In x K -> In x (ids ch)) -> cut B K f = upd_ch pq (fun _ => cut B K ch) f.
Proof.
  induction pq as [|j rest IH]; intros f ch G ND Sub.
  - cbn in G. injection G as <-. reflexivity.
  - cbn [get_ch] in G. destruct (nth_error f j) as [t|] eqn:E; [|discriminate].
    destruct (nth_error_split f j E) as (a & b & -> & <-). cbn [upd_ch]. rewrite upd_nth_split, !cut_app. cbn [flat_map].
    rewrite ids_app, ids_cons_t in ND.
    assert (Sc : incl (ids ch) (ids (rch t))) by (apply (ids_sub_child rest); exact G).
    assert (St : forall x, In x (ids (rch t)) -> In x (ids_t t)) by (intros x Hx; destruct t; apply in_ids_t; now right).
    assert (Ca : cut B K a = a).
    { apply cut_absent. intros x Hx. split; intros Y; apply (NoDup_app_disj _ _ x ND Hx); apply in_or_app; left; apply St, Sc, Sub; auto. }
    assert (Cb : cut B K b = b).
    { apply cut_absent. intros x Hx. apply NoDup_app_r in ND. split; intros Y; apply (NoDup_app_disj _ _ x ND (St x (Sc x (Sub x ltac:(auto)))) Hx). }
    rewrite Ca, Cb. destruct t as [id i c0]. cbn [rch set_ch cut_t] in *.
    assert (NDt : NoDup (ids_t (T id i c0))) by (apply NoDup_app_r in ND; now apply NoDup_app_l in ND).
    rewrite ids_t_unfold in NDt. cbn [rid rch] in NDt. apply NoDup_cons_iff in NDt. destruct NDt as [Ni NDc].
    rewrite !inl_false by (intros Y; apply Ni, Sc, Sub; auto). cbn [app]. now rewrite (IH c0 ch G NDc Sub).
Qed.

(* what survives a cut survives with its payload, below the same parent, in the same order *)
Lemma cut_emb B K : forall f, Filter.emb (cut B K f) f.
Proof.
  assert (Ht : forall t a b, Filter.emb a b -> Filter.emb (cut_t B K t ++ a) (t :: b)).
  { induction t as [id i ch IH] using rt_ind'. intros a b Hab. cbn [cut_t]. destruct (inl id B); cbn [app]; [now constructor|].
    constructor; [|assumption]. destruct (inl id K); [constructor|].
    induction ch as [|c ch IHch]; [constructor|]. inversion IH as [|? ? Hc Hcs]; subst. cbn [flat_map]. apply Hc. now apply IHch. }
  induction f as [|t f IH]; [constructor|]. cbn [flat_map]. now apply Ht.
Qed.

(* in-place filter: the child list below the start node becomes F of it (the specification of
   Forest/Filter.v, with the predicate's verdicts); the rest of the tree and all other trees are untouched *)
Theorem filter_effect w ti n vd r w' : WFw w ->
  op_filter w ti n vd = (Ok r, w') ->
  exists t t' pq ch,
    get_tree w ti = Some t /\ get_tree w' ti = Some t' /\
    parent_path n (forest_of t) = Some pq /\ get_ch pq (forest_of t) = Some ch /\
    forest_of t' = upd_ch pq (fun _ => Filter.F (vof vd) ch) (forest_of t) /\
    r = [] /\ next w' = next w /\ (forall tj, tj <> ti -> get_tree w' tj = get_tree w tj).
Proof.
  intros W H. unfold op_filter, children_of in H. destruct (get_tree w ti) as [t|] eqn:Gt; [|discriminate].
  destruct (parent_path n (forest_of t)) as [pq|] eqn:Gp; [|discriminate].
  destruct (get_ch pq (forest_of t)) as [ch|] eqn:Gc; [|discriminate].
  destruct (fvisit vd (T 0 dummy_info ch) false) as [[[m acts] s'] [|]] eqn:Ef; [discriminate|]. injection H as <- <-.
  assert (Wt := WFw_tree w ti t W Gt). assert (ND := wf_nodup t Wt).
  assert (Sc : incl (ids ch) (ids (forest_of t))) by (apply (ids_sub_child pq); exact Gc).
  assert (Z : ~ In 0 (ids ch)) by (intros Y; apply (wf_pos t Wt); now apply Sc).
  assert (NDr : NoDup (ids_t (T 0 dummy_info ch))).
  { rewrite ids_t_unfold. cbn [rid rch]. constructor; [exact Z|]. now apply (NoDup_child_list pq (forest_of t)). }
  destruct (fok_all vd (T 0 dummy_info ch) false m acts s' NDr Ef) as (B & K & Ec & _ & _). cbn [rch] in *.
  eexists t, _, pq, ch. split; [reflexivity|]. split; [exact (get_put_same _ _ t _ Gt)|]. split; [exact Gp|]. split; [exact Gc|].
  split; [|split; [reflexivity|split; [reflexivity|intros tj Hj; rewrite get_put_other by congruence; reflexivity]]].
  rewrite apply_facts_cut; [|assumption|intros Y; apply Z; now apply K].
  rewrite (cut_local (Bof acts) (Kof acts) pq _ ch Gc ND); [|intros x [Hx|Hx]; auto]. unfold Filter.F. now rewrite Ec.
Qed.

(* whatever the outcome of the visit, its removals concern nodes below the start node only *)
Definition FSub (vd : verdicts) (t : rt) : Prop :=
  forall s m a s' fl, fvisit vd t s = (m, a, s', fl) -> forall x, In x (Bof a) \/ In x (Kof a) -> In x (ids (rch t)).

Lemma fgo_sub vd l : Forall (FSub vd) l ->
  forall s pend must acts m a s' fl, fgo vd l s pend must acts = (m, a, s', fl) ->
    exists X, a = acts ++ X /\ forall x, In x (Bof X) \/ In x (Kof X) -> In x (ids l) \/ In x pend.
Proof.
  induction 1 as [|c l' Hc Hl IH]; intros s pend must acts m a s' fl H.
  - cbn [fgo] in H. injection H as <- <- <- <-. exists (map FBranch pend). split; [reflexivity|].
    rewrite Bof_branches, Kof_branches. intros x [Hx|[]]. now right.
  - assert (Rest : forall s1 (padd : bool) must1 a1, fgo vd l' s1 (if padd then pend ++ [rid c] else pend) must1 (acts ++ a1) = (m, a, s', fl) ->
              (forall x, In x (Bof a1) \/ In x (Kof a1) -> In x (ids_t c)) ->
              exists X, a = acts ++ X /\ forall x, In x (Bof X) \/ In x (Kof X) -> In x (ids (c :: l')) \/ In x pend).
    { intros s1 padd must1 a1 H1 S1. destruct (IH _ _ _ _ _ _ _ _ H1) as (X' & Ea & S2). exists (a1 ++ X'). split; [now rewrite Ea, app_assoc|].
      intros x Hx. rewrite Bof_app, Kof_app, !in_app_iff in Hx. rewrite in_ids_cons.
      assert (Hx' : (In x (Bof a1) \/ In x (Kof a1)) \/ (In x (Bof X') \/ In x (Kof X'))) by tauto. destruct Hx' as [Hx'|Hx'].
      - left. left. now apply S1.
      - destruct (S2 x Hx') as [Y|Y]; [tauto|]. destruct padd; [|tauto]. apply in_app_or in Y. destruct Y as [Y|[<-|[]]]; [tauto|].
        left. left. destruct c. apply in_ids_t. now left. }
    assert (No : forall x, In x (Bof []) \/ In x (Kof []) -> In x (ids_t c)) by (intros x [[]|[]]).
    assert (Sc : forall s0 m1 a1 s1 f1, fvisit vd c s0 = (m1, a1, s1, f1) -> forall x, In x (Bof a1) \/ In x (Kof a1) -> In x (ids_t c)).
    { intros s0 m1 a1 s1 f1 Ef x Hx. destruct c as [id i ch]. apply in_ids_t. right. exact (Hc s0 m1 a1 s1 f1 Ef x Hx). }
    assert (Stop : forall a1, (forall x, In x (Bof a1) \/ In x (Kof a1) -> In x (ids_t c)) ->
              exists X, acts ++ a1 = acts ++ X /\ forall x, In x (Bof X) \/ In x (Kof X) -> In x (ids (c :: l')) \/ In x pend).
    { intros a1 S1. exists a1. split; [reflexivity|]. intros x Hx. left. apply in_ids_cons. left. now apply S1. }
    cbn [fgo] in H. destruct (if s then VSkip else verdict_of vd (rid c)).
    + destruct (fvisit vd c s) as [[[m1 a1] s1] [|]] eqn:Ef.
      * injection H as <- <- <- <-. exact (Stop a1 (Sc _ _ _ _ _ Ef)).
      * exact (Rest s1 false true a1 H (Sc _ _ _ _ _ Ef)).
    + destruct (fvisit vd c s) as [[[[|] a1] s1] [|]] eqn:Ef.
      * injection H as <- <- <- <-. exact (Stop a1 (Sc _ _ _ _ _ Ef)).
      * exact (Rest s1 false true a1 H (Sc _ _ _ _ _ Ef)).
      * injection H as <- <- <- <-. exact (Stop a1 (Sc _ _ _ _ _ Ef)).
      * exact (Rest s1 true must a1 H (Sc _ _ _ _ _ Ef)).
    + rewrite <- (app_nil_r acts) in H. exact (Rest s true must [] H No).
    + apply (Rest s false true [FKids (rid c)] H). intros x [[]|[<-|[]]]. destruct c. apply in_ids_t. now left.
    + rewrite <- (app_nil_r acts) in H. exact (Rest s false true [] H No).
    + rewrite <- (app_nil_r acts) in H. exact (Rest true true must [] H No).
    + injection H as <- <- <- <-. exists []. split; [now rewrite app_nil_r|]. intros x [[]|[]].
Qed.

Lemma fsub_all vd : forall t, FSub vd t.
Proof.
  induction t as [id i ch IH] using rt_ind'. intros s m a s' fl H x Hx. rewrite fvisit_unfold in H. cbn [rch].
  destruct (fgo_sub vd ch IH _ _ _ _ _ _ _ _ H) as (X & Ea & S). cbn [app] in Ea. subst X. destruct (S x Hx) as [Y|[]]. exact Y.
Qed.

(* in-place filter, whatever its outcome (the predicate may have raised: then the removals made so far
   stay): only the branch below the start node changes, and what is left of it is an embedding of what was
   there - every surviving node keeps its payload, its parent and its order among the survivors *)
Theorem filter_frame w ti n vd r w' : WFw w ->
  op_filter w ti n vd = (r, w') -> forall t, get_tree w ti = Some t ->
  exists t', get_tree w' ti = Some t' /\
    match parent_path n (forest_of t) with
    | Some pq => match get_ch pq (forest_of t) with
                 | Some ch => exists ch', forest_of t' = upd_ch pq (fun _ => ch') (forest_of t) /\ Filter.emb ch' ch
                 | None => t' = t
                 end
    | None => t' = t
    end /\ next w' = next w /\ (forall tj, tj <> ti -> get_tree w' tj = get_tree w tj).
Proof.
  intros W H t Gt. unfold op_filter, children_of in H. rewrite Gt in H.
  destruct (parent_path n (forest_of t)) as [pq|] eqn:Gp.
  2:{ injection H as <- <-. exists t. repeat split; auto. }
  destruct (get_ch pq (forest_of t)) as [ch|] eqn:Gc.
  2:{ injection H as <- <-. exists t. repeat split; auto. }
  destruct (fvisit vd (T 0 dummy_info ch) false) as [[[m acts] s'] fl] eqn:Ef. injection H as <- <-.
  eexists. split; [exact (get_put_same _ _ t _ Gt)|]. split; [|split; [reflexivity|intros tj Hj; rewrite get_put_other by congruence; reflexivity]].
  assert (Wt := WFw_tree w ti t W Gt). assert (ND := wf_nodup t Wt).
  assert (Sc : incl (ids ch) (ids (forest_of t))) by (apply (ids_sub_child pq); exact Gc).
  assert (Z : ~ In 0 (ids ch)) by (intros Y; apply (wf_pos t Wt); now apply Sc).
  assert (S := fsub_all vd (T 0 dummy_info ch) false m acts s' fl Ef). cbn [rch] in S.
  exists (cut (Bof acts) (Kof acts) ch). split; [|apply cut_emb].
  rewrite apply_facts_cut; [|assumption|intros Y; apply Z; apply S; now right].
  now apply cut_local.
Qed.
