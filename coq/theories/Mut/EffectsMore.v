(* C04 - effects and frames of the remaining mutators:
   remove(keep_children=True, with_clones=True)  = contraction of the whole victim group ([splice]),
   in-place filter                                = the kept rows in unchanged order,
   from_dict / Tree.from_dict                     = new rows below the parent, or nothing at all (D48). *)
From Coq Require Import List ZArith Bool Arith Lia Permutation.
From NT Require Import Sx Rose ListFacts RoseFacts Surgery SurgeryFacts Machine WF MachineFacts PreserveSteps PreserveOps
  PreserveMore PreserveKeepClones Effects EffectsClones.
Import ListNotations.

(* ------------------------------------------------------------------ *)
(* Part 1: remove(keep_children=True [, with_clones=True]) *)

(* the structural specification: every node of V is taken out, its children take its place, in order *)
Fixpoint splice_t (V : list nat) (t : rt) : list rt :=
  match t with
  | T id i ch => if existsb (Nat.eqb id) V then flat_map (splice_t V) ch else [T id i (flat_map (splice_t V) ch)]
  end.
Notation splice V := (flat_map (splice_t V)).

Lemma splice_app V a b : splice V (a ++ b) = splice V a ++ splice V b.
Proof. apply flat_map_app. Qed.

Lemma splice_absent_aux V : forall ch,
  Forall (fun c => (forall v, In v V -> ~ In v (ids_t c)) -> splice_t V c = [c]) ch ->
  (forall v, In v V -> ~ In v (ids ch)) -> splice V ch = ch.
Proof.
  induction ch as [|c ch IHch]; intros F H; [reflexivity|]. inversion F as [|? ? Hc Hch]; subst.
  cbn [flat_map]. rewrite Hc.
  - cbn [app]. f_equal. apply IHch; [exact Hch|]. intros v Hv Hin. apply (H v Hv). apply in_ids_cons. now right.
  - intros v Hv Hin. apply (H v Hv). apply in_ids_cons. now left.
Qed.

Lemma splice_absent V : forall t, (forall v, In v V -> ~ In v (ids_t t)) -> splice_t V t = [t].
Proof.
  induction t as [id i ch IH] using rt_ind'. intros H. cbn [splice_t].
  destruct (existsb (Nat.eqb id) V) eqn:E.
  - exfalso. apply existsb_exists in E. destruct E as (v & Hv & Ev). apply Nat.eqb_eq in Ev. subst v.
    apply (H id Hv). apply in_ids_t. now left.
  - f_equal. f_equal. apply splice_absent_aux; [exact IH|]. intros v Hv Hin. apply (H v Hv). apply in_ids_t. now right.
Qed.

Lemma splice_absent_f V f : (forall v, In v V -> ~ In v (ids f)) -> splice V f = f.
Proof. intros H. apply splice_absent_aux; [|exact H]. apply Forall_forall. intros c _. apply splice_absent. Qed.

(* one splice by path surgery = the contraction of that node *)
Lemma splice_one_path v : forall q0 f a s b,
  get_ch q0 f = Some (a ++ s :: b) -> rid s = v -> NoDup (ids f) ->
  splice [v] f = upd_ch q0 (fun _ => a ++ rch s ++ b) f.
Proof.
  induction q0 as [|j rest IH]; intros f a s b Hg Hr ND.
  - cbn in Hg. injection Hg as ->. cbn [upd_ch]. rewrite !splice_app. cbn [flat_map].
    rewrite ids_app in ND.
    assert (Hv : In v (ids (s :: b))) by (apply in_ids_cons; left; rewrite ids_t_unfold; left; exact Hr).
    assert (Ha : splice [v] a = a).
    { apply splice_absent_f. intros x [<-|[]] Hin. exact (nodup_app_disj _ _ _ ND Hin Hv). }
    apply NoDup_app_r in ND. rewrite ids_cons, Hr in ND. apply NoDup_cons_iff in ND. destruct ND as (Hnn & ND2).
    assert (Hb : splice [v] b = b).
    { apply splice_absent_f. intros x [<-|[]] Hin. apply Hnn. apply in_or_app. now right. }
    assert (Hc : splice [v] (rch s) = rch s).
    { apply splice_absent_f. intros x [<-|[]] Hin. apply Hnn. apply in_or_app. now left. }
    rewrite Ha, Hb. destruct s as [id inf ch]. cbn [rid rch] in *. subst id. cbn [splice_t existsb]. rewrite Nat.eqb_refl. cbn [orb].
    now rewrite Hc.
  - cbn [get_ch] in Hg. destruct (nth_error f j) as [t|] eqn:Ej; [|discriminate].
    destruct (nth_error_split f j Ej) as (a0 & b0 & -> & <-).
    cbn [upd_ch]. rewrite upd_nth_split, splice_app. cbn [flat_map].
    assert (Hin : In v (ids (rch t))).
    { pose proof (get_ch_pre rest (rch t) _ Hg) as Hi. unfold ids. rewrite <- Hr. apply in_map. apply Hi.
      apply in_flat_map. exists s. split; [apply in_or_app; right; now left|]. destruct s; now left. }
    rewrite ids_app in ND.
    assert (Hv : In v (ids (t :: b0))) by (apply in_ids_cons; left; rewrite ids_t_unfold; right; exact Hin).
    assert (Ha : splice [v] a0 = a0).
    { apply splice_absent_f. intros x [<-|[]] Hx. exact (nodup_app_disj _ _ _ ND Hx Hv). }
    apply NoDup_app_r in ND. rewrite ids_cons in ND.
    apply NoDup_cons_iff in ND. destruct ND as (Hnt & ND2).
    assert (Hb : splice [v] b0 = b0).
    { apply splice_absent_f. intros x [<-|[]] Hx. exact (nodup_app_disj _ _ _ ND2 Hin Hx). }
    assert (Ht : rid t <> v) by (intros E; apply Hnt; apply in_or_app; left; now rewrite E).
    rewrite Ha, Hb. destruct t as [id inf ch]. cbn [rid rch set_ch] in *. cbn [splice_t existsb].
    apply Nat.eqb_neq in Ht. rewrite Ht. cbn [orb app].
    rewrite (IH ch a s b Hg Hr); [reflexivity|]. now apply NoDup_app_l in ND2.
Qed.

Lemma remove_keep_splice t n t' : NoDup (ids (forest_of t)) ->
  remove_keep t n = Some t' -> forest_of t' = splice [n] (forest_of t).
Proof.
  intros ND H. destruct (remove_keep_spec t n t' H) as (q0 & a & s & b & G & R & ->). cbn [forest_of set_all].
  symmetry. now apply (splice_one_path n q0 _ a s b).
Qed.

Lemma remove_keep_nodup t n t' : NoDup (ids (forest_of t)) ->
  remove_keep t n = Some t' -> NoDup (ids (forest_of t')).
Proof.
  intros ND H. destruct (remove_keep_effect t n t' H) as (q0 & i & a & s & c & o & _ & _ & _ & _ & A & B & E1 & E2).
  rewrite <- (rows_ids (forest_of t) 0) in ND. rewrite <- (rows_ids (forest_of t') 0).
  rewrite E2. rewrite E1, !map_app in ND. cbn [map] in ND. rewrite !map_app, !rows_ids in *.
  now apply NoDup_remove_1 in ND.
Qed.

Lemma splice_splice A B : forall t, splice A (splice_t B t) = splice_t (B ++ A) t.
Proof.
  induction t as [id i ch IH] using rt_ind'. cbn [splice_t]. rewrite existsb_app.
  assert (Hch : splice A (splice B ch) = splice (B ++ A) ch).
  { induction ch as [|c ch IHch]; [reflexivity|]. inversion IH as [|? ? Hc Hcs]; subst.
    cbn [flat_map]. rewrite splice_app, Hc, (IHch Hcs). reflexivity. }
  destruct (existsb (Nat.eqb id) B); cbn [orb]; [exact Hch|].
  cbn [flat_map splice_t]. rewrite app_nil_r. destruct (existsb (Nat.eqb id) A); [exact Hch|]. now rewrite Hch.
Qed.

Lemma splice_splice_f A B f : splice A (splice B f) = splice (B ++ A) f.
Proof. induction f as [|t f IH]; [reflexivity|]. cbn [flat_map]. rewrite splice_app, splice_splice, IH. reflexivity. Qed.

(* one round of the loop in op_remove (keep_children = True) *)
Definition km_step (acc : tstate) (v : nat) : tstate :=
  if live acc v then match remove_one acc v true with Some a => a | None => acc end else acc.

Lemma km_step_splice acc v : NoDup (ids (forest_of acc)) ->
  forest_of (km_step acc v) = splice [v] (forest_of acc) /\ NoDup (ids (forest_of (km_step acc v))).
Proof.
  intros ND. unfold km_step. destruct (live acc v) eqn:El.
  - cbn [remove_one]. destruct (remove_keep acc v) as [a|] eqn:E.
    + split; [now apply remove_keep_splice|now apply (remove_keep_nodup acc v)].
    + exfalso. unfold live in El. apply existsb_exists in El. destruct El as (m & Hm & Em). apply Nat.eqb_eq in Em. subst m.
      destruct (get_node_complete v _ Hm) as (s & Hs). destruct (remove_one_some acc v true s Hs) as (t' & Ht).
      cbn [remove_one] in Ht. congruence.
  - split; [|exact ND]. symmetry. apply splice_absent_f. intros x [<-|[]] Hin.
    unfold live in El. assert (existsb (Nat.eqb v) (ids (forest_of acc)) = true); [|congruence].
    apply existsb_exists. exists v. split; [exact Hin|apply Nat.eqb_refl].
Qed.

Lemma km_fold_splice : forall V acc, NoDup (ids (forest_of acc)) ->
  forest_of (fold_left km_step V acc) = splice V (forest_of acc).
Proof.
  induction V as [|v V IH]; intros acc ND; cbn [fold_left].
  - symmetry. apply splice_absent_f. intros v [].
  - destruct (km_step_splice acc v ND) as (E & ND'). rewrite (IH _ ND'), E, splice_splice_f. reflexivity.
Qed.

(* frame of a contraction: the surviving nodes, their payloads and their pre-order are unchanged *)
Definition nd (x : rt) : nat * info := (rid x, rinfo x).
Definition outside (V : list nat) (k : nat * info) : bool := negb (existsb (Nat.eqb (fst k)) V).

Lemma splice_nodes V : forall t, map nd (pre_f (splice_t V t)) = filter (outside V) (map nd (pre t)).
Proof.
  induction t as [id i ch IH] using rt_ind'.
  assert (Hch : map nd (pre_f (splice V ch)) = filter (outside V) (map nd (pre_f ch))).
  { induction ch as [|c ch IHch]; [reflexivity|]. inversion IH as [|? ? Hc Hcs]; subst.
    cbn [flat_map]. rewrite !flat_map_app, !map_app, filter_app, Hc, (IHch Hcs). reflexivity. }
  cbn [splice_t pre map filter].
  change (outside V (nd (T id i ch))) with (negb (existsb (Nat.eqb id) V)).
  destruct (existsb (Nat.eqb id) V); cbn [negb]; [exact Hch|].
  cbn [flat_map pre]. rewrite app_nil_r. cbn [map]. rewrite Hch. reflexivity.
Qed.

Lemma splice_nodes_f V f : map nd (pre_f (splice V f)) = filter (outside V) (map nd (pre_f f)).
Proof.
  induction f as [|t f IH]; [reflexivity|]. cbn [flat_map]. rewrite !flat_map_app, !map_app, filter_app, splice_nodes, IH. reflexivity.
Qed.

(* remove(keep_children=True) and remove(keep_children=True, with_clones=True): the whole victim group is
   contracted - validated up front, then every victim is replaced by its children - and nothing else changes *)
Theorem remove_keep_clones_effect w ti n wc r w' :
  op_remove w ti n true wc = (Ok r, w') ->
  exists t t' d,
    get_tree w ti = Some t /\ get_tree w' ti = Some t' /\ did_of n (forest_of t) = Some d /\ r = [] /\
    next w' = next w /\ (forall tj, tj <> ti -> get_tree w' tj = get_tree w tj) /\
    let V := if wc then filter (fun c => negb (Nat.eqb c n)) (idx_get d (idx t)) ++ [n] else [n] in
    existsb (keep_collides_all t V) V = false /\
    (NoDup (ids (forest_of t)) ->
     forest_of t' = splice V (forest_of t) /\
     map nd (pre_f (forest_of t')) = filter (outside V) (map nd (pre_f (forest_of t)))).
Proof.
  unfold op_remove. intros H.
  destruct (get_tree w ti) as [t|] eqn:Et; [|discriminate].
  destruct (did_of n (forest_of t)) as [d|] eqn:Ed; [|discriminate].
  cbn [andb] in H. destruct (existsb _ _) eqn:Col in H; [discriminate|]. injection H as <- <-.
  eexists t, _, d. split; [first [reflexivity|exact Et]|]. split; [exact (get_put_same _ _ t _ Et)|].
  split; [first [reflexivity|exact Ed]|]. split; [reflexivity|]. split; [reflexivity|].
  split; [intros tj Hj; rewrite get_put_other by congruence; reflexivity|]. cbv zeta. split; [exact Col|]. intros ND.
  assert (E := km_fold_splice (if wc then filter (fun c => negb (Nat.eqb c n)) (idx_get d (idx t)) ++ [n] else [n]) t ND).
  unfold km_step in E. split; [exact E|]. rewrite <- splice_nodes_f. apply (f_equal (fun z => map nd (pre_f z))). exact E.
Qed.

(* a refused remove() changes nothing, whatever the flags *)
Theorem remove_refused_unchanged w ti n keep wc e w' : op_remove w ti n keep wc = (Err e, w') -> w' = w.
Proof.
  unfold op_remove. destruct (get_tree w ti) as [t|]; [|intros H; now injection H].
  destruct (did_of n (forest_of t)) as [d|]; [|intros H; now injection H].
  destruct (keep && existsb _ _); intros H; [now injection H|discriminate].
Qed.
