(* Layer (a): lemmas about the primitives of Machine.v only
   (parent_of, idx_add / idx_del / idx_get, reg_del, remove_first, place,
   register_all / unregister_all, copy_t / copy_f, collides). *)
From Coq Require Import List ZArith Bool Arith Lia Permutation.
From NT Require Import Sx Rose ListFacts RoseFacts Surgery SurgeryFacts Machine WF.
Import ListNotations.

Lemma rows_keys' f o : map r_key (rows o f) = keys f.
Proof. exact (rows_keys f o). Qed.

Lemma rows_id_unique f o r1 r2 : NoDup (ids f) -> In r1 (rows o f) -> In r2 (rows o f) -> r_id r1 = r_id r2 -> r1 = r2.
Proof. intros ND. rewrite <- (rows_ids f o) in ND. now apply NoDup_map_inj. Qed.

(* ------------------------------------------------------------------ *)
(* parent_of reads the parent column of rows *)
Lemma parent_in_unfold n pid id i ch :
  parent_in n pid (T id i ch) = if Nat.eqb id n then Some pid else parent_in_f n id ch.
Proof.
  cbn [parent_in]. destruct (Nat.eqb id n); [reflexivity|].
  induction ch as [|c ch IH]; cbn [parent_in_f]; [reflexivity|].
  destruct (parent_in n id c); [reflexivity|apply IH].
Qed.

Lemma parent_in_sound :
  (forall t n o p, parent_in n o t = Some p -> exists inf, In (p, n, inf) (rows_t o t)) /\
  (forall f n o p, parent_in_f n o f = Some p -> exists inf, In (p, n, inf) (rows o f)).
Proof.
  apply rt_forest_ind.
  - intros id i ch IH n o p H. rewrite parent_in_unfold in H. destruct (Nat.eqb id n) eqn:E.
    + apply Nat.eqb_eq in E. injection H as <-. subst. exists i. now left.
    + destruct (IH n id p H) as (inf & Hin). exists inf. now right.
  - intros n o p H. discriminate.
  - intros t f IHt IHf n o p H. cbn [parent_in_f] in H. cbn [flat_map]. destruct (parent_in n o t) as [r|] eqn:E.
    + injection H as ->. destruct (IHt n o p E) as (inf & Hin). exists inf. apply in_or_app. now left.
    + destruct (IHf n o p H) as (inf & Hin). exists inf. apply in_or_app. now right.
Qed.

Lemma parent_in_complete :
  (forall t n o, parent_in n o t = None -> ~ In n (ids_t t)) /\
  (forall f n o, parent_in_f n o f = None -> ~ In n (ids f)).
Proof.
  apply rt_forest_ind.
  - intros id i ch IH n o H. rewrite parent_in_unfold in H. destruct (Nat.eqb id n) eqn:E; [discriminate|].
    apply Nat.eqb_neq in E. rewrite ids_t_unfold. cbn [rid rch]. intros [E'|E']; [contradiction|].
    now apply (IH n id H).
  - intros n o _ [].
  - intros t f IHt IHf n o H. cbn [parent_in_f] in H. destruct (parent_in n o t) as [p|] eqn:E; [discriminate|].
    change (t :: f) with ([t] ++ f). rewrite ids_app, in_app_iff.
    replace (ids [t]) with (ids_t t) by (unfold ids, ids_t; cbn; now rewrite app_nil_r).
    intros [H1|H1]; [now apply (IHt n o E)|now apply (IHf n o H)].
Qed.

Lemma parent_of_rows n f p : NoDup (ids f) ->
  (parent_of n f = Some p <-> exists inf, In (p, n, inf) (rows 0 f)).
Proof.
  intros ND. unfold parent_of. split; [apply (proj2 parent_in_sound)|].
  intros (inf & Hin). destruct (parent_in_f n 0 f) as [p'|] eqn:E.
  - destruct (proj2 parent_in_sound f n 0 p' E) as (inf' & Hin').
    assert (X := rows_id_unique f 0 _ _ ND Hin Hin' eq_refl). now injection X as -> _.
  - exfalso. apply (proj2 parent_in_complete f n 0 E). rewrite <- (rows_ids f 0).
    change n with (r_id (p, n, inf)). now apply in_map.
Qed.

(* ------------------------------------------------------------------ *)
(* registry *)
Lemma reg_del_perm n r R : NoDup r -> Permutation r (n :: R) -> Permutation (reg_del n r) R.
Proof.
  intros ND P. assert (NR : NoDup (n :: R)) by (apply (Permutation_NoDup P ND)).
  inversion NR as [|x l Hn NR' E]; subst. apply NoDup_Permutation; [now apply NoDup_filter|assumption|].
  intros x. unfold reg_del. rewrite filter_In, negb_true_iff, Nat.eqb_neq. split.
  - intros [H1 H2]. apply (Permutation_in _ P) in H1. destruct H1 as [->|H1]; [contradiction|assumption].
  - intros H. split; [apply (Permutation_in _ (Permutation_sym P)); now right|]. intros ->. contradiction.
Qed.

Lemma reg_del_nodup n r : NoDup r -> NoDup (reg_del n r).
Proof. apply NoDup_filter. Qed.

(* ------------------------------------------------------------------ *)
(* index *)
Definition IdxOK (ix : idxt) (K : list (nat * did)) : Prop :=
  NoDup (map fst ix) /\ Forall (fun e => snd e <> []) ix /\ Permutation (idx_flat ix) K.

Lemma IdxOK_perm ix K K' : IdxOK ix K -> Permutation K K' -> IdxOK ix K'.
Proof. intros (H1 & H2 & H3) P. repeat split; auto. now transitivity K. Qed.

Lemma idx_has_In d ix : idx_has d ix = true <-> In d (map fst ix).
Proof.
  unfold idx_has. rewrite existsb_exists, in_map_iff. split.
  - intros (e & He & E). apply did_eqb_eq in E. now exists e.
  - intros (e & E & He). exists e. split; [assumption|]. now apply did_eqb_eq.
Qed.

Lemma idx_flat_app a b : idx_flat (a ++ b) = idx_flat a ++ idx_flat b.
Proof. apply flat_map_app. Qed.

Lemma idx_flat_key ix n d : In (n, d) (idx_flat ix) -> In d (map fst ix).
Proof.
  intros H. apply in_flat_map in H. destruct H as (e & He & H). apply in_map_iff in H.
  destruct H as (m & E & _). injection E as _ <-. now apply in_map.
Qed.

Lemma idx_flat_cons e ix : idx_flat (e :: ix) = map (fun n => (n, fst e)) (snd e) ++ idx_flat ix.
Proof. reflexivity. Qed.

Section IdxAdd.
  Variables (d : did) (n : nat).
  Let upd := fun e : did * list nat => if did_eqb (fst e) d then (fst e, snd e ++ [n]) else e.

  Lemma idx_upd_id ix : ~ In d (map fst ix) -> map upd ix = ix.
  Proof.
    induction ix as [|e ix IH]; intros H; [reflexivity|]. cbn [map In] in *. rewrite IH by tauto. f_equal.
    unfold upd. destruct (did_eqb (fst e) d) eqn:E; [|reflexivity]. apply did_eqb_eq in E. tauto.
  Qed.

  Lemma idx_upd_flat ix : NoDup (map fst ix) -> In d (map fst ix) ->
    Permutation (idx_flat (map upd ix)) ((n, d) :: idx_flat ix).
  Proof.
    induction ix as [|e ix IH]; intros ND H; [contradiction|]. cbn [map] in *.
    inversion ND as [|x l Hx ND' E0]; subst. rewrite !idx_flat_cons.
    unfold upd at 1 2. destruct (did_eqb (fst e) d) eqn:E.
    - apply did_eqb_eq in E. rewrite E in Hx. rewrite (idx_upd_id ix Hx). cbn [fst snd]. rewrite map_app.
      cbn [map]. rewrite E. rewrite <- app_assoc. cbn [app]. symmetry. apply Permutation_middle.
    - destruct H as [H|H]; [rewrite H, did_eqb_refl in E; discriminate|].
      rewrite (IH ND' H). symmetry. apply Permutation_middle.
  Qed.

  Lemma idx_upd_keys ix : map fst (map upd ix) = map fst ix.
  Proof. rewrite map_map. apply map_ext. intros e. unfold upd. now destruct (did_eqb (fst e) d). Qed.

  Lemma idx_add_ok ix K : IdxOK ix K -> IdxOK (idx_add d n ix) ((n, d) :: K).
  Proof.
    intros (H1 & H2 & H3). unfold idx_add. destruct (idx_has d ix) eqn:E.
    - apply idx_has_In in E. fold upd. repeat split.
      + now rewrite idx_upd_keys.
      + apply Forall_forall. intros e He. apply in_map_iff in He. destruct He as (e0 & <- & He0).
        rewrite Forall_forall in H2. unfold upd. destruct (did_eqb (fst e0) d); [|now apply H2].
        cbn. intros X. now apply app_eq_nil in X as [_ X].
      + rewrite (idx_upd_flat ix H1 E). now constructor.
    - assert (Hn : ~ In d (map fst ix)) by (intros X; apply idx_has_In in X; congruence). repeat split.
      + rewrite map_app. cbn. apply NoDup_app_intro; auto. { constructor; [intros []|constructor]. }
        intros x Hx [<-|[]]. contradiction.
      + apply Forall_app. split; [assumption|]. constructor; [cbn; discriminate|constructor].
      + rewrite idx_flat_app. cbn. rewrite <- Permutation_cons_append. now constructor.
  Qed.
End IdxAdd.

Lemma remove_first_perm n l : In n l -> Permutation l (n :: remove_first n l).
Proof.
  induction l as [|x l IH]; intros H; [contradiction|]. cbn. destruct (Nat.eqb x n) eqn:E.
  - apply Nat.eqb_eq in E. now subst.
  - destruct H as [->|H]; [rewrite Nat.eqb_refl in E; discriminate|].
    rewrite (IH H) at 1. apply perm_swap.
Qed.

Section IdxDel.
  Variables (d : did) (n : nat).
  Let piece := fun e : did * list nat =>
     if did_eqb (fst e) d then match remove_first n (snd e) with [] => [] | l => [(fst e, l)] end else [e].

  Lemma idx_piece_flat e : idx_flat (piece e) =
     map (fun m => (m, fst e)) (if did_eqb (fst e) d then remove_first n (snd e) else snd e).
  Proof.
    unfold piece. destruct (did_eqb (fst e) d).
    - destruct (remove_first n (snd e)) as [|x l]; [reflexivity|]. cbn. now rewrite app_nil_r.
    - cbn. now rewrite app_nil_r.
  Qed.

  Lemma idx_piece_keys e k : In k (map fst (piece e)) -> k = fst e.
  Proof.
    unfold piece. destruct (did_eqb (fst e) d).
    - destruct (remove_first n (snd e)); cbn; [intros []|intros [<-|[]]; reflexivity].
    - cbn. intros [<-|[]]. reflexivity.
  Qed.

  Lemma idx_piece_nodup e : NoDup (map fst (piece e)).
  Proof.
    unfold piece. destruct (did_eqb (fst e) d).
    - destruct (remove_first n (snd e)); cbn; [constructor|constructor; [intros []|constructor]].
    - cbn. constructor; [intros []|constructor].
  Qed.

  Lemma idx_del_unfold e ix : idx_del d n (e :: ix) = piece e ++ idx_del d n ix.
  Proof. reflexivity. Qed.

  Lemma idx_del_keys ix k : In k (map fst (idx_del d n ix)) -> In k (map fst ix).
  Proof.
    induction ix as [|e ix IH]; [auto|]. rewrite idx_del_unfold, map_app, in_app_iff. cbn [map].
    intros [H|H]; [left; symmetry; now apply idx_piece_keys|right; auto].
  Qed.

  Lemma idx_del_nodup ix : NoDup (map fst ix) -> NoDup (map fst (idx_del d n ix)).
  Proof.
    induction ix as [|e ix IH]; intros ND; [constructor|]. cbn [map] in ND. inversion ND as [|x l Hx ND' E0]; subst.
    rewrite idx_del_unfold, map_app. apply NoDup_app_intro; [apply idx_piece_nodup|auto|].
    intros k H1 H2. apply idx_piece_keys in H1. subst k. apply Hx. now apply idx_del_keys.
  Qed.

  Lemma idx_del_ne ix : Forall (fun e => snd e <> []) ix -> Forall (fun e => snd e <> []) (idx_del d n ix).
  Proof.
    induction 1 as [|e ix He H IH]; [constructor|]. rewrite idx_del_unfold. apply Forall_app. split; [|assumption].
    unfold piece. destruct (did_eqb (fst e) d); [|now constructor].
    destruct (remove_first n (snd e)) eqn:E; constructor; [cbn; discriminate|constructor].
  Qed.

  Lemma idx_del_id ix : ~ In d (map fst ix) -> idx_del d n ix = ix.
  Proof.
    induction ix as [|e ix IH]; intros H; [reflexivity|]. cbn [map In] in H. rewrite idx_del_unfold, IH by tauto.
    unfold piece. destruct (did_eqb (fst e) d) eqn:E; [|reflexivity]. apply did_eqb_eq in E. tauto.
  Qed.

  Lemma idx_del_flat ix : NoDup (map fst ix) -> In (n, d) (idx_flat ix) ->
    Permutation (idx_flat ix) ((n, d) :: idx_flat (idx_del d n ix)).
  Proof.
    induction ix as [|e ix IH]; intros ND H; [contradiction|]. cbn [map] in ND. inversion ND as [|x l Hx ND' E0]; subst.
    rewrite idx_del_unfold, idx_flat_app, idx_piece_flat.
    change (idx_flat (e :: ix)) with (map (fun m => (m, fst e)) (snd e) ++ idx_flat ix) in *.
    apply in_app_or in H. destruct (did_eqb (fst e) d) eqn:E.
    - apply did_eqb_eq in E. rewrite E in *. rewrite (idx_del_id ix Hx).
      destruct H as [H|H]; [|apply idx_flat_key in H; contradiction].
      apply in_map_iff in H. destruct H as (m & E1 & Hm). injection E1 as ->.
      rewrite (remove_first_perm n (snd e) Hm) at 1. reflexivity.
    - destruct H as [H|H].
      + apply in_map_iff in H. destruct H as (m & E1 & _). injection E1 as _ E1. rewrite E1, did_eqb_refl in E. discriminate.
      + rewrite (IH ND' H) at 1. symmetry. apply Permutation_middle.
  Qed.

  Lemma idx_del_ok ix K : IdxOK ix ((n, d) :: K) -> IdxOK (idx_del d n ix) K.
  Proof.
    intros (H1 & H2 & H3). repeat split; [now apply idx_del_nodup|now apply idx_del_ne|].
    assert (Hin : In (n, d) (idx_flat ix)) by (apply (Permutation_in _ (Permutation_sym H3)); now left).
    rewrite (idx_del_flat ix H1 Hin) in H3. now apply Permutation_cons_inv in H3.
  Qed.
End IdxDel.

(* ------------------------------------------------------------------ *)
(* register_all / unregister_all *)
Lemma register_all_eq nodes : forall r ix,
  register_all nodes r ix = (r ++ map rid nodes, fold_left (fun a t => idx_add (rdid t) (rid t) a) nodes ix).
Proof.
  unfold register_all. induction nodes as [|t nodes IH]; intros r ix; cbn [fold_left map fst snd].
  - now rewrite app_nil_r.
  - rewrite IH. now rewrite <- app_assoc.
Qed.

Lemma register_all_ok nodes : forall ix K, IdxOK ix K ->
  IdxOK (fold_left (fun a t => idx_add (rdid t) (rid t) a) nodes ix) (map key_of_node nodes ++ K).
Proof.
  induction nodes as [|t nodes IH]; intros ix K H; [exact H|]. cbn [fold_left map].
  apply (IdxOK_perm _ (map key_of_node nodes ++ key_of_node t :: K)).
  - apply IH. now apply idx_add_ok.
  - symmetry. apply Permutation_middle.
Qed.

Lemma unregister_all_eq nodes : forall r ix,
  unregister_all nodes r ix = (fold_left (fun a t => reg_del (rid t) a) nodes r,
                               fold_left (fun a t => idx_del (rdid t) (rid t) a) nodes ix).
Proof.
  unfold unregister_all. induction nodes as [|t nodes IH]; intros r ix; cbn [fold_left fst snd]; [reflexivity|apply IH].
Qed.

Lemma unregister_idx_ok nodes : forall ix K, IdxOK ix (map key_of_node nodes ++ K) ->
  IdxOK (fold_left (fun a t => idx_del (rdid t) (rid t) a) nodes ix) K.
Proof.
  induction nodes as [|t nodes IH]; intros ix K H; [exact H|]. cbn [fold_left map] in *.
  apply IH. now apply idx_del_ok.
Qed.

Lemma unregister_reg_ok nodes : forall r R, NoDup r -> Permutation r (map rid nodes ++ R) ->
  Permutation (fold_left (fun a t => reg_del (rid t) a) nodes r) R.
Proof.
  induction nodes as [|t nodes IH]; intros r R ND P; [exact P|]. cbn [fold_left map] in *.
  apply IH; [now apply reg_del_nodup|now apply reg_del_perm].
Qed.

(* ------------------------------------------------------------------ *)
(* place *)
Lemma place_split nb x ch : exists a b, ch = a ++ b /\ place nb x ch = a ++ x :: b.
Proof.
  unfold place. destruct ch as [|c ch]; [exists [], []; now split|].
  destruct nb as [|z|s].
  - exists (c :: ch), []. now rewrite app_nil_r.
  - apply insert_at_split.
  - destruct (index_by_id s (c :: ch)); [apply insert_at_split|]. exists (c :: ch), []. now rewrite app_nil_r.
Qed.

(* ------------------------------------------------------------------ *)
(* deep copies: fresh consecutive identities in pre-order, same data_ids *)
Lemma copy_t_unfold kk dk n id i ch :
  copy_t kk dk n (T id i ch) =
  let r := copy_f kk dk (S n) ch in
  (T n (I (i_obj i) (i_eqc i) (i_hash i) (i_isstr i) (i_name i) (i_did i) (if kk then i_kind i else dk) []) (fst r), snd r).
Proof.
  cbn [copy_t]. cbv zeta.
  assert (E : forall l m, (fix go (n0 : nat) (l0 : list rt) {struct l0} : list rt * nat :=
               match l0 with
               | [] => ([], n0)
               | c :: l' => let (c', n1) := copy_t kk dk n0 c in let (r', n2) := go n1 l' in (c' :: r', n2)
               end) m l = copy_f kk dk m l).
  { induction l as [|c l IH]; intros m; cbn [copy_f]; [reflexivity|].
    destruct (copy_t kk dk m c) as [c' n1]. now rewrite IH. }
  now rewrite E.
Qed.

Lemma size_unfold id i ch : size (T id i ch) = S (size_f ch).
Proof. reflexivity. Qed.

Lemma size_f_cons t f : size_f (t :: f) = size t + size_f f.
Proof. reflexivity. Qed.

Lemma copy_spec :
  (forall t kk dk n, n + size t = snd (copy_t kk dk n t) /\ ids_t (fst (copy_t kk dk n t)) = seq n (size t)
                     /\ rdid (fst (copy_t kk dk n t)) = rdid t /\ (SU (rch t) -> SU (rch (fst (copy_t kk dk n t))))) /\
  (forall f kk dk n, n + size_f f = snd (copy_f kk dk n f) /\ ids (fst (copy_f kk dk n f)) = seq n (size_f f)
                     /\ map rdid (fst (copy_f kk dk n f)) = map rdid f /\ (SU f -> SU (fst (copy_f kk dk n f)))).
Proof.
  apply rt_forest_ind.
  - intros id i ch IH kk dk n. rewrite copy_t_unfold. cbv zeta. cbn [fst snd]. destruct (IH kk dk (S n)) as (H1 & H2 & H3 & H4).
    rewrite size_unfold. refine (conj _ (conj _ (conj _ _))).
    + rewrite <- H1. lia.
    + rewrite ids_t_unfold. cbn [rid rch seq]. now rewrite H2.
    + reflexivity.
    + cbn [rch]. exact H4.
  - intros kk dk n. cbn. refine (conj _ (conj _ (conj _ _))); auto.
  - intros t f IHt IHf kk dk n. cbn [copy_f]. destruct (IHt kk dk n) as (H1 & H2 & H3 & H4).
    destruct (copy_t kk dk n t) as [c' n1]. cbn [fst snd] in *. destruct (IHf kk dk n1) as (G1 & G2 & G3 & G4).
    destruct (copy_f kk dk n1 f) as [r' n2]. cbn [fst snd] in *. rewrite size_f_cons. refine (conj _ (conj _ (conj _ _))).
    + lia.
    + change (c' :: r') with ([c'] ++ r'). rewrite ids_app. replace (ids [c']) with (ids_t c') by (unfold ids, ids_t; cbn; now rewrite app_nil_r).
      rewrite H2, G2, seq_app. f_equal. f_equal. lia.
    + cbn [map]. now rewrite H3, G3.
    + intros S. constructor.
      * cbn [map]. rewrite H3, G3. now apply SU_top in S.
      * intros x [<-|Hx]; [apply H4; apply (SU_child _ t S); now left|].
        apply (SU_child r' x); [|assumption]. apply G4. constructor.
        -- apply SU_top in S. cbn [map] in S. now inversion S.
        -- intros y Hy. apply (SU_child _ y S). now right.
Qed.
