(* C07, part 9: a copy INSIDE the tree of its source is a clone of the source.

   The English clause "later changes to either side are never visible in the other" is false as
   written for such copies: they share the data_id, so the operations that work on clone groups
   (remove(with_clones=True), set_data(with_clones=True)) reach both - the library's documented
   clone semantics (example in Properties/C07.v).  What holds is the restricted form proved here:
   an operation that does not name clones and works on a node OUTSIDE a branch b (and not on an
   ancestor of b in a way that contains b) leaves b in the tree as the identical value
   (identities, payloads, metadata, child order). *)
From Coq Require Import List ZArith Bool Arith Lia Permutation.
From NT Require Import Sx Rose ListFacts RoseFacts Surgery SurgeryFacts Machine WF MachineFacts Effects FrameTrees
                       CopyFacts CopyMulti CopyWF.
Import ListNotations.

(* the generic step: a child list is rewritten; every element that contains b survives; the list is not inside b *)
Lemma upd_ch_keeps2 : forall pq f o c g b,
  get_ch pq f = Some c -> (forall t, In t c -> In b (pre t) -> In t (g c)) -> In b (pre_f f) ->
  (pq <> [] -> ~ In (owner pq f o) (ids_t b)) ->
  In b (pre_f (upd_ch pq g f)).
Proof.
  induction pq as [|i rest IH]; intros f o c g b Hc Hg Hs Hn; cbn [get_ch upd_ch owner] in *.
  - injection Hc as <-. apply in_flat_map in Hs. destruct Hs as (t & Ht & Hs).
    apply in_flat_map. exists t. split; [now apply Hg|exact Hs].
  - destruct (nth_error f i) as [t|] eqn:E; [|discriminate].
    destruct (nth_error_split f i E) as (a & b0 & -> & <-).
    rewrite upd_nth_split. rewrite !flat_map_app in *. cbn [flat_map] in *.
    rewrite !in_app_iff in *. destruct Hs as [Hs|[Hs|Hs]]; [now left| |now right; right].
    right. left. destruct t as [id inf ch]. cbn [set_ch pre rch rid] in *.
    destruct Hs as [<-|Hs].
    + exfalso. apply Hn; [discriminate|].
      destruct (get_ch_owner rest ch id c Hc) as [(-> & _ & ->)|(u & Hu & <- & _)].
      * cbn. now left.
      * rewrite ids_t_unfold. cbn [rid rch]. right. unfold ids. now apply in_map.
    + right. apply (IH ch id c g b Hc Hg Hs). intros _. apply Hn. discriminate.
Qed.

Lemma In_upd_nth_other {X} (h : X -> X) : forall l i t x, In t l -> nth_error l i = Some x -> t <> x -> In t (upd_nth i h l).
Proof.
  induction l as [|y l IH]; intros [|i] t x Ht Hx Hne; cbn in *; try contradiction.
  - injection Hx as ->. destruct Ht as [->|Ht]; [congruence|now right].
  - destruct Ht as [->|Ht]; [now left|right; eapply IH; eauto].
Qed.

Lemma In_remove_nth_other {X} : forall (l : list X) i t x, In t l -> nth_error l i = Some x -> t <> x -> In t (remove_nth i l).
Proof.
  induction l as [|y l IH]; intros [|i] t x Ht Hx Hne; cbn in *; try contradiction.
  - injection Hx as ->. destruct Ht as [->|Ht]; [congruence|exact Ht].
  - destruct Ht as [->|Ht]; [now left|right; eapply IH; eauto].
Qed.

(* the node n (found as a at position i of the list l at path q0) is outside b: then neither the element a contains b
   nor does the list's owner lie in b *)
Section Outside.
  Variables (f : forest) (b : rt) (n : nat).
  Hypothesis ND : NoDup (ids f).
  Hypothesis Hb : In b (pre_f f).

  Lemma owner_outside q0 i l a : get_ch q0 f = Some l -> nth_error l i = Some a -> rid a = n ->
    ~ In n (ids_t b) -> q0 <> [] -> ~ In (owner q0 f 0) (ids_t b).
  Proof.
    intros Hg Hi Ha Hn Hq Hin.
    destruct (get_ch_owner q0 f 0 l Hg) as [(-> & _)|(s & Hs & Ho & Hl)]; [congruence|].
    unfold ids_t in Hin. apply in_map_iff in Hin. destruct Hin as (u & Hu & Hub).
    assert (Huf : In u (pre_f f)).
    { destruct (pre_f_segment f b Hb) as (x & y & E). rewrite E. apply in_app_iff. right. apply in_app_iff. now left. }
    assert (u = s) by (apply (node_unique f); auto; congruence). subst u.
    apply Hn. rewrite <- Ha. unfold ids_t. apply in_map. apply (pre_child_closed b s a Hub). rewrite Hl.
    now apply nth_error_In in Hi.
  Qed.
End Outside.

(* ---- the forest transformations of the operations that do not name clones ---- *)
Section Keeps.
  Variables (f : forest) (b : rt) (n : nat).
  Hypothesis ND : NoDup (ids f).
  Hypothesis Hb : In b (pre_f f).
  Hypothesis Hn : ~ In n (ids_t b).                       (* n is not in the branch b *)

  (* payload of n changes (metadata, set_data without clones) *)
  Lemma keeps_set_info a h : get_node n f = Some a -> ~ In b (pre a) -> In b (pre_f (set_info_at n h f)).
  Proof.
    intros Ha Hab. unfold set_info_at.
    destruct (get_node_loc n f a Ha) as (q0 & i & l & El & En). rewrite El.
    destruct (node_loc_spec n f q0 i l El) as (Hg & s' & Hs' & Hr & _). rewrite En in Hs'. injection Hs' as <-.
    apply (upd_ch_keeps2 q0 f 0 l); auto.
    - intros t Ht Hbt. apply (In_upd_nth_other _ l i t a Ht En). intros ->. contradiction.
    - intros Hq. apply (owner_outside f b n ND Hb q0 i l a Hg En Hr Hn Hq).
  Qed.

  (* the branch of n is detached (remove) *)
  Lemma keeps_detach a s f' : get_node n f = Some a -> ~ In b (pre a) -> detach n f = Some (s, f') -> In b (pre_f f').
  Proof.
    intros Ha Hab Hd. unfold detach in Hd.
    destruct (node_loc n f) as [[[q0 i] l]|] eqn:El; [|discriminate].
    destruct (nth_error l i) as [a'|] eqn:En; [|discriminate]. injection Hd as <- <-.
    destruct (node_loc_spec n f q0 i l El) as (Hg & s' & Hs' & Hr & _). rewrite En in Hs'. injection Hs' as <-.
    assert (a' = a).
    { destruct (get_node_loc n f a Ha) as (q1 & i1 & l1 & El1 & En1). rewrite El in El1. injection El1 as <- <- <-. congruence. }
    subst a'.
    apply (upd_ch_keeps2 q0 f 0 l); auto.
    - intros t Ht Hbt. apply (In_remove_nth_other l i t a Ht En). intros ->. contradiction.
    - intros Hq. apply (owner_outside f b n ND Hb q0 i l a Hg En Hr Hn Hq).
  Qed.

  (* the child list of n is rewritten (add below n: grows; remove_children: emptied; flat sort: permuted) *)
  Lemma keeps_children pq ch g : parent_path n f = Some pq -> get_ch pq f = Some ch ->
    (forall t, In t ch -> In b (pre t) -> In t (g ch)) -> In b (pre_f (upd_ch pq g f)).
  Proof.
    intros Hp Hc Hg. apply (upd_ch_keeps2 pq f 0 ch); auto.
    intros Hq. now rewrite (parent_path_owner n f pq ch Hp Hc).
  Qed.
End Keeps.

(* ------------------------------------------------------------------ *)
(* operations that work on ONE node n of tree ti and do not name its clones *)
Inductive local_op (ti n : nat) : op -> Prop :=
| LMeta o : local_op ti n (OMeta ti n o)                                  (* set_meta / clear_meta / update_meta *)
| LAdd d e k b : local_op ti n (OAdd ti n d e k b)                        (* add_child(data) below n *)
| LRemoveChildren : local_op ti n (ORemoveChildren ti n)
| LRemove : local_op ti n (ORemove ti n false false)                      (* remove(), no keep_children, no with_clones *)
| LSort k rv : local_op ti n (OSort ti n k rv false)                      (* sort_children, not deep *)
| LSetData d e wc : wc <> Some true -> local_op ti n (OSetData ti n d e wc)
| LRename d : local_op ti n (ORename ti n d).

(* n is outside the branch b, and b is not below n *)
Definition outside (f : forest) (b : rt) (n : nat) : Prop :=
  ~ In n (ids_t b) /\
  (forall a, get_node n f = Some a -> ~ In b (pre a)) /\
  (forall ch, children_of n f = Some ch -> ~ In b (pre_f ch)).

Definition still_there (ti : nat) (b : rt) (w' : world) : Prop :=
  forall t', get_tree w' ti = Some t' -> In b (pre_f (forest_of t')).

Lemma live_get_node t n : live t n = true -> exists a, get_node n (forest_of t) = Some a.
Proof.
  unfold live. intros H. apply existsb_exists in H. destruct H as (x & Hx & E). apply Nat.eqb_eq in E. subst x.
  now apply get_node_complete.
Qed.

Section SameTree.
  Variables (w : world) (ti n : nat) (t : tstate) (b : rt).
  Hypothesis Et : get_tree w ti = Some t.
  Hypothesis ND : NoDup (ids (forest_of t)).
  Hypothesis Hb : In b (pre_f (forest_of t)).
  Hypothesis Ho : outside (forest_of t) b n.

  Lemma st_same : still_there ti b w.
  Proof. intros t' E. rewrite Et in E. now injection E as <-. Qed.

  Lemma st_put m t1 : In b (pre_f (forest_of t1)) -> still_there ti b (put_tree (W (trees w) m) ti t1).
  Proof. intros H t' E. rewrite (get_put_same' w ti t t1 m Et) in E. now injection E as <-. Qed.

  Lemma st_put' t1 : In b (pre_f (forest_of t1)) -> still_there ti b (put_tree w ti t1).
  Proof. intros H t' E. rewrite (get_put_same w ti t t1 Et) in E. now injection E as <-. Qed.

  Lemma st_next m : still_there ti b (W (trees w) m).
  Proof. intros t' E. apply st_same. exact E. Qed.

  Lemma set_info_kept h : live t n = true -> In b (pre_f (set_info_at n h (forest_of t))).
  Proof.
    intros Hl. destruct (live_get_node t n Hl) as (a & Ha). destruct Ho as (H1 & H2 & _).
    apply (keeps_set_info _ b n ND Hb H1 a h Ha (H2 a Ha)).
  Qed.

  Lemma meta_kept o : still_there ti b (snd (op_meta w ti n o)).
  Proof.
    unfold op_meta. rewrite Et. destruct (live t n) eqn:Hl; cbn [snd]; [|apply st_same].
    apply st_put'. cbn [forest_of set_forest]. now apply set_info_kept.
  Qed.

  Lemma add_kept d e k bf : still_there ti b (snd (op_add w ti n d e k bf)).
  Proof.
    unfold op_add, bump. rewrite Et.
    destruct (parent_path n (forest_of t)) as [pq|] eqn:Ep; [|apply st_same].
    destruct (get_ch pq (forest_of t)) as [ch|] eqn:Ec; [|apply st_same].
    destruct (negb (before_ok (norm_before bf) ch)); [apply st_same|].
    destruct (match e with Some e0 => Some e0 | None => calc_id (calc t) d end); [|apply st_next].
    destruct (collides t n d0); [apply st_next|]. cbn [snd]. apply st_put. cbn [forest_of set_all].
    destruct Ho as (H1 & _). apply (keeps_children _ b n Hb H1 pq ch _ Ep Ec). intros x Hx _. now apply incl_place.
  Qed.

  Lemma remove_children_kept : still_there ti b (snd (op_remove_children w ti n)).
  Proof.
    unfold op_remove_children. rewrite Et.
    destruct (parent_path n (forest_of t)) as [pq|] eqn:Ep; [|apply st_same].
    destruct (get_ch pq (forest_of t)) as [ch|] eqn:Ec; [|apply st_same].
    destruct (unregister_all (pre_f ch) (reg t) (idx t)) as [r' ix']. cbn [snd]. apply st_put'. cbn [forest_of set_all].
    destruct Ho as (H1 & _ & H3). apply (keeps_children _ b n Hb H1 pq ch _ Ep Ec). intros x Hx Hbx. exfalso.
    apply (H3 ch); [unfold children_of; now rewrite Ep|]. apply in_flat_map. now exists x.
  Qed.

  Lemma remove_kept : still_there ti b (snd (op_remove w ti n false false)).
  Proof.
    unfold op_remove. rewrite Et. destruct (did_of n (forest_of t)); [|apply st_same]. cbn [andb fold_left snd].
    destruct (live t n) eqn:Hl; [|apply st_put'; exact Hb].
    unfold remove_one, remove_branch.
    destruct (detach n (forest_of t)) as [[s f']|] eqn:Ed; [|apply st_put'; exact Hb].
    destruct (unregister_all (pre s) (reg t) (idx t)) as [r' ix']. apply st_put'. cbn [forest_of set_all].
    destruct (live_get_node t n Hl) as (a & Ha). destruct Ho as (H1 & H2 & _).
    apply (keeps_detach _ b n ND Hb H1 a s f' Ha (H2 a Ha) Ed).
  Qed.

  Lemma sort_flat_In k rv ch ch' fl x : sort_list k rv false ch = (ch', fl) -> In x ch -> In x ch'.
  Proof.
    unfold sort_list. destruct ch as [|c0 l0]; [now intros [= <- _]|].
    destruct (Nat.eqb (length (c0 :: l0)) 1 && negb false); [now intros [= <- _]|].
    destruct (negb (keys_ok k (c0 :: l0))); [now intros [= <- _]|].
    intros [= <- _] Hx. apply (Permutation_in _ (Permutation_sym (py_sort_perm k rv (c0 :: l0))) Hx).
  Qed.

  Lemma sort_kept k rv : still_there ti b (snd (op_sort w ti n k rv false)).
  Proof.
    unfold op_sort. rewrite Et.
    destruct (parent_path n (forest_of t)) as [pq|] eqn:Ep; [|apply st_same].
    destruct (get_ch pq (forest_of t)) as [ch|] eqn:Ec; [|apply st_same].
    destruct (sort_list k rv false ch) as [ch' fl] eqn:Es. cbn [snd]. apply st_put'. cbn [forest_of set_forest].
    destruct Ho as (H1 & _). apply (keeps_children _ b n Hb H1 pq ch _ Ep Ec). intros x Hx _.
    now apply (sort_flat_In k rv ch ch' fl).
  Qed.

  Lemma get_node_live' a : get_node n (forest_of t) = Some a -> live t n = true.
  Proof.
    intros Ha. destruct (get_node_spec n _ a Ha) as (Hin & Hid). unfold live. apply existsb_exists. exists n.
    split; [|apply Nat.eqb_refl]. subst n. unfold ids. now apply in_map.
  Qed.

  Lemma set_data_kept d e wc : wc <> Some true -> still_there ti b (snd (op_set_data w ti n d e wc)).
  Proof.
    intros Hwc. unfold op_set_data. rewrite Et.
    destruct (get_node n (forest_of t)) as [s|] eqn:Es; [|apply st_same].
    pose proof (get_node_live' s Es) as Hl.
    assert (Ewc : match wc with Some true => true | _ => false end = false) by (destruct wc as [[|]|]; congruence).
    rewrite Ewc. rewrite !andb_false_r.
    repeat match goal with
           | |- still_there _ _ (snd (_, _)) => cbn [snd]
           | |- still_there _ _ (snd (match ?x with _ => _ end)) => destruct x
           | |- still_there _ _ (snd (if ?x then _ else _)) => destruct x
           end;
    try apply st_same; apply st_put'; cbn [forest_of set_all set_forest relabel fold_left]; now apply set_info_kept.
  Qed.

  Lemma rename_kept d : still_there ti b (snd (op_rename w ti n d)).
  Proof.
    unfold op_rename. rewrite Et. destruct (get_node n (forest_of t)); [|apply st_same].
    destruct (i_isstr (rinfo r)); [|apply st_same]. apply set_data_kept. discriminate.
  Qed.

  (* THE restricted independence inside one tree: an operation on a node outside the branch b that does not
     name clones leaves b in the tree as the identical value - whatever the outcome of the operation *)
  Theorem same_tree_frame o : local_op ti n o -> still_there ti b (snd (step w o)).
  Proof.
    intros [mo|d e k bf| | |k rv|d e wc Hwc|d]; cbn [step].
    - apply meta_kept.
    - apply add_kept.
    - apply remove_children_kept.
    - apply remove_kept.
    - apply sort_kept.
    - now apply set_data_kept.
    - apply rename_kept.
  Qed.
End SameTree.

(* ------------------------------------------------------------------ *)
(* packaging *)

(* the hypothesis [0 < next w] of tree_copy_WFw / node_copy_WFw is part of WFw *)
Corollary tree_copy_WFw' w sti r w' : WFw w -> op_tree_copy w sti = (Ok r, w') -> WFw w'.
Proof. intros H. apply (tree_copy_WFw w sti r w' H (ww_pos w H)). Qed.

Corollary node_copy_WFw' w sti src add_self r w' : WFw w -> op_node_copy w sti src add_self = (Ok r, w') -> WFw w'.
Proof. intros H. apply (node_copy_WFw w sti src add_self r w' H (ww_pos w H)). Qed.

(* fresh = in NO tree of the world before: from the invariant of reachable worlds *)
Theorem add_node_fresh_everywhere w ti p sti src e k b deep r w' : WFw w ->
  op_add_node w ti p sti src e k b deep = (Ok r, w') ->
  exists t' x, get_tree w' ti = Some t' /\ In x (pre_f (forest_of t')) /\ rid x = next w /\
     forall m, In m (ids_t x) -> ~ In m (all_ids w).
Proof.
  intros HW H.
  destruct (add_node_effect _ _ _ _ _ _ _ _ _ _ _ H)
    as (t & st & s & pq & ch & x & t' & _ & _ & Et' & _ & _ & _ & _ & _ & Hc & _ & Hg & _).
  exists t', x. split; [exact Et'|]. split.
  - apply (get_ch_pre pq (forest_of t') _ Hg). apply in_pre_f_top.
    destruct (place_split (norm_before b) x ch) as (a & c & _ & ->). apply in_app_iff. right. now left.
  - split; [apply (ic_id _ _ _ _ _ _ Hc)|].
    intros m Hm Hin. rewrite (ic_ids _ _ _ _ _ _ Hc) in Hm. apply in_seq in Hm.
    pose proof (ww_next w HW) as F. rewrite Forall_forall in F. specialize (F m Hin). lia.
Qed.

Theorem tree_copy_fresh_everywhere w sti r w' : WFw w -> op_tree_copy w sti = (Ok r, w') ->
  exists tc, nth_error (trees w') (length (trees w)) = Some tc /\
             forall m, In m (ids (forest_of tc)) -> ~ In m (all_ids w).
Proof.
  intros HW H. destruct (tree_copy_effect w sti r w' H) as (st & kids & rg & ix & _ & _ & Et & _ & Hi & _).
  exists (TS kids rg ix (typed st) None). split.
  - rewrite Et, nth_error_app2 by lia. now rewrite Nat.sub_diag.
  - cbn [forest_of]. intros m Hm Hin. rewrite Hi in Hm. apply in_seq in Hm.
    pose proof (ww_next w HW) as F. rewrite Forall_forall in F. specialize (F m Hin). lia.
Qed.

(* the correspondence evaluates [step_chk] (CaseMut): it is [step] on operations whose references are live,
   and a no-op otherwise - so every theorem about [step] speaks about what the correspondence runs *)
From NT Require Import CaseMut.
Lemma step_chk_is_step w o :
  (op_live w o = true /\ step_chk w o = step w o) \/ (op_live w o = false /\ step_chk w o = (Err EModel, w)).
Proof. unfold step_chk. destruct (op_live w o); [left|right]; split; reflexivity. Qed.
