(* C04 - effect and frame lemmas for the mutation machine, in list algebra.

   Part 1: where [place] puts a new child (before = None/False/True/index/node).
   Part 2: access after update at the same path.
   Part 3: per operation, what happens to the child list named by the
           operation (effect) and to the pre-order list of rows
           (parent id, node id, payload) of the whole tree (frame): the rows
           of all other nodes are unchanged, in unchanged order.
   Part 4: sorting: permutation, sortedness by key, stability, reverse.

   Built on the context lemma [SurgeryFacts.upd_ch_context]. *)
From Coq Require Import List ZArith Bool Arith Lia Permutation Sorted.
From NT Require Import Sx Rose ListFacts RoseFacts Surgery SurgeryFacts Machine MachineFacts.
Import ListNotations.

Local Ltac la := repeat (rewrite <- app_assoc || rewrite <- app_comm_cons); try reflexivity.

(* ------------------------------------------------------------------ *)
(* Part 1: placement *)

Lemma norm_before_false : norm_before BFalse = norm_before BNone.
Proof. reflexivity. Qed.

Lemma norm_before_true : norm_before BTrue = norm_before (BIdx 0).
Proof. reflexivity. Qed.

Lemma place_empty nb x : place nb x [] = [x].
Proof. reflexivity. Qed.

Lemma place_append x ch : place NApp x ch = ch ++ [x].
Proof. destruct ch; reflexivity. Qed.

Lemma place_idx i x ch : ch <> [] -> place (NIdx i) x ch = py_insert i x ch.
Proof. destruct ch; [congruence|reflexivity]. Qed.

Lemma py_index_nonneg i len : (0 <= i)%Z -> py_index i len = Nat.min (Z.to_nat i) len.
Proof.
  intros H. unfold py_index. destruct (i <? 0)%Z eqn:E.
  - apply Z.ltb_lt in E. lia.
  - lia.
Qed.

Lemma py_index_neg i len : (i < 0)%Z -> py_index i len = len - Z.to_nat (- i).
Proof.
  intros H. unfold py_index. destruct (i <? 0)%Z eqn:E.
  - lia.
  - apply Z.ltb_ge in E. lia.
Qed.

(* before = <index j>, 0 <= j <= len: in front of the child that had index j *)
Lemma py_insert_nonneg {X} (j : nat) (x : X) l : j <= length l ->
  py_insert (Z.of_nat j) x l = firstn j l ++ x :: skipn j l.
Proof.
  intros H. unfold py_insert, insert_at. rewrite py_index_nonneg by lia.
  rewrite Nat2Z.id, Nat.min_l by assumption. reflexivity.
Qed.

(* negative index -k, 0 < k <= len: in front of the k-th child from the end *)
Lemma py_insert_neg {X} (k : nat) (x : X) l : 0 < k <= length l ->
  py_insert (- Z.of_nat k) x l = firstn (length l - k) l ++ x :: skipn (length l - k) l.
Proof.
  intros H. unfold py_insert, insert_at. rewrite py_index_neg by lia.
  rewrite Z.opp_involutive, Nat2Z.id. reflexivity.
Qed.

(* both ends clamp *)
Lemma py_insert_large {X} i (x : X) l : (Z.of_nat (length l) <= i)%Z -> py_insert i x l = l ++ [x].
Proof.
  intros H. unfold py_insert, insert_at. rewrite py_index_nonneg by lia.
  rewrite Nat.min_r by lia. rewrite firstn_all, skipn_all. reflexivity.
Qed.

Lemma py_insert_small {X} i (x : X) l : (i <= - Z.of_nat (length l))%Z -> py_insert i x l = x :: l.
Proof.
  intros H. unfold py_insert, insert_at.
  destruct (Z.eq_dec i 0) as [->|Hi].
  - rewrite py_index_nonneg by lia. reflexivity.
  - rewrite py_index_neg by lia. replace (length l - Z.to_nat (- i)) with 0 by lia. reflexivity.
Qed.

Lemma py_insert_0 {X} (x : X) l : py_insert 0 x l = x :: l.
Proof. unfold py_insert, insert_at. rewrite py_index_nonneg by lia. reflexivity. Qed.

Lemma place_first x ch : place (NIdx 0) x ch = x :: ch.
Proof. destruct ch as [|c ch]; [reflexivity|]. unfold place. apply py_insert_0. Qed.

(* before = <node s>: in front of the first child with identity s *)
Lemma index_by_id_spec s : forall ch j, index_by_id s ch = Some j ->
  exists a t b, ch = a ++ t :: b /\ length a = j /\ rid t = s /\ Forall (fun u => rid u <> s) a.
Proof.
  induction ch as [|c ch IH]; intros j H; [discriminate|]. cbn [index_by_id] in H.
  destruct (Nat.eqb (rid c) s) eqn:E.
  - injection H as <-. apply Nat.eqb_eq in E. exists [], c, ch. repeat split; auto.
  - destruct (index_by_id s ch) as [k|] eqn:G; [|discriminate]. injection H as <-.
    destruct (IH k eq_refl) as (a & t & b & -> & L & R & F). apply Nat.eqb_neq in E.
    exists (c :: a), t, b. repeat split; cbn; auto.
Qed.

Lemma place_node_ne s x c0 l0 :
  place (NNode s) x (c0 :: l0) =
  match index_by_id s (c0 :: l0) with Some j => insert_at j x (c0 :: l0) | None => (c0 :: l0) ++ [x] end.
Proof. reflexivity. Qed.

Lemma place_node s x ch j : index_by_id s ch = Some j ->
  exists a t b, ch = a ++ t :: b /\ rid t = s /\ Forall (fun u => rid u <> s) a /\
                place (NNode s) x ch = a ++ x :: t :: b.
Proof.
  intros H. destruct (index_by_id_spec s ch j H) as (a & t & b & E & L & R & F).
  exists a, t, b. repeat split; auto.
  destruct ch as [|c0 l0]; [destruct a; discriminate|].
  rewrite place_node_ne, H, E. unfold insert_at. subst j.
  rewrite firstn_app, Nat.sub_diag, firstn_all. cbn [firstn]. rewrite app_nil_r.
  rewrite skipn_app, Nat.sub_diag, skipn_all. reflexivity.
Qed.

(* the same, phrased on the [before] argument of the API *)
Lemma before_false_is_none x ch : place (norm_before BFalse) x ch = place (norm_before BNone) x ch.
Proof. reflexivity. Qed.

Lemma before_true_prepends x ch :
  place (norm_before BTrue) x ch = x :: ch /\ place (norm_before (BIdx 0)) x ch = x :: ch.
Proof. split; apply place_first. Qed.

Lemma before_index (j : nat) x ch : ch <> [] -> j <= length ch ->
  place (norm_before (BIdx (Z.of_nat j))) x ch = firstn j ch ++ x :: skipn j ch.
Proof. intros H L. cbn [norm_before]. rewrite place_idx by assumption. now apply py_insert_nonneg. Qed.

Lemma before_negative_index (k : nat) x ch : 0 < k <= length ch ->
  place (norm_before (BIdx (- Z.of_nat k))) x ch = firstn (length ch - k) ch ++ x :: skipn (length ch - k) ch.
Proof.
  intros H. cbn [norm_before]. rewrite place_idx by (destruct ch; cbn in *; [lia|congruence]).
  now apply py_insert_neg.
Qed.

Lemma before_index_clamps i x ch : ch <> [] ->
  ((Z.of_nat (length ch) <= i)%Z -> place (norm_before (BIdx i)) x ch = ch ++ [x]) /\
  ((i <= - Z.of_nat (length ch))%Z -> place (norm_before (BIdx i)) x ch = x :: ch).
Proof.
  intros H. cbn [norm_before]. rewrite place_idx by assumption.
  split; intros L; [now apply py_insert_large|now apply py_insert_small].
Qed.

Lemma before_node s x ch j : index_by_id s ch = Some j ->
  exists a t b, ch = a ++ t :: b /\ rid t = s /\ Forall (fun u => rid u <> s) a /\
                place (norm_before (BNode s)) x ch = a ++ x :: t :: b.
Proof. apply place_node. Qed.

Lemma before_any_first_child b x : place (norm_before b) x [] = [x].
Proof. apply place_empty. Qed.

(* ------------------------------------------------------------------ *)
(* Part 2: access after update *)

Lemma nth_error_upd_nth {X} (g : X -> X) : forall l i x, nth_error l i = Some x ->
  nth_error (upd_nth i g l) i = Some (g x).
Proof.
  induction l as [|y l IH]; intros [|i] x H; try discriminate; cbn in *.
  - now injection H as ->.
  - now apply IH.
Qed.

Lemma get_ch_upd_ch : forall p g f c, get_ch p f = Some c -> get_ch p (upd_ch p g f) = Some (g c).
Proof.
  induction p as [|i rest IH]; intros g f c H; cbn [get_ch upd_ch] in *.
  - now injection H as ->.
  - destruct (nth_error f i) as [t|] eqn:E; [|discriminate].
    rewrite (nth_error_upd_nth _ f i t E). destruct t as [id inf ch]. cbn [set_ch rch] in *. now apply IH.
Qed.

Lemma get_put_same w ti t t' : get_tree w ti = Some t -> get_tree (put_tree w ti t') ti = Some t'.
Proof.
  unfold get_tree, put_tree. cbn [trees]. intros H. now rewrite (nth_error_upd_nth _ _ _ _ H).
Qed.

Lemma nth_error_upd_nth_other {X} (g : X -> X) : forall l i j, i <> j -> nth_error (upd_nth i g l) j = nth_error l j.
Proof.
  induction l as [|y l IH]; intros [|i] [|j] H; cbn; try reflexivity; try congruence.
  apply IH. congruence.
Qed.

Lemma get_put_other w ti tj t' : ti <> tj -> get_tree (put_tree w ti t') tj = get_tree w tj.
Proof. unfold get_tree, put_tree. cbn [trees]. intros H. now apply nth_error_upd_nth_other. Qed.

Lemma firstn_mid {X} (a : list X) s c : firstn (length a) (a ++ s :: c) = a.
Proof. rewrite firstn_app, Nat.sub_diag, firstn_all. cbn [firstn]. apply app_nil_r. Qed.

Lemma skipn_mid {X} (a : list X) s c : skipn (S (length a)) (a ++ s :: c) = c.
Proof.
  rewrite skipn_app. rewrite (skipn_all2 a) by lia.
  replace (S (length a) - length a) with 1 by lia. reflexivity.
Qed.

(* ------------------------------------------------------------------ *)
(* Part 3: effects and frames *)

(* exactly one row inserted / removed, everything else in place *)
Definition ins_row (r : row) (l l' : list row) : Prop := exists A B, l = A ++ B /\ l' = A ++ r :: B.
(* a block of consecutive rows replaced by another block *)
Definition repl_rows (old new : list row) (l l' : list row) : Prop :=
  exists A B, l = A ++ old ++ B /\ l' = A ++ new ++ B.

Lemma rows_leaf o n i : rows_t o (T n i []) = [(o, n, i)].
Proof. reflexivity. Qed.

(* -- add_child(data) -- *)
Theorem add_effect w ti p d e k b r w' :
  op_add w ti p d e k b = (Ok r, w') ->
  exists t t' pq ch id,
    get_tree w ti = Some t /\ get_tree w' ti = Some t' /\
    parent_path p (forest_of t) = Some pq /\ get_ch pq (forest_of t) = Some ch /\
    (e = Some id \/ e = None /\ calc_id (calc t) d = Some id) /\
    r = [next w] /\ next w' = S (next w) /\
    let inf := mk_info d id (default_kind t k) [] in
    (* effect: the child list of p *)
    get_ch pq (forest_of t') = Some (place (norm_before b) (T (next w) inf []) ch) /\
    (* frame: one new row below p, all other rows as they were *)
    ins_row (p, next w, inf) (rows 0 (forest_of t)) (rows 0 (forest_of t')) /\
    (forall tj, tj <> ti -> get_tree w' tj = get_tree w tj).
Proof.
  unfold op_add. intros H.
  destruct (get_tree w ti) as [t|] eqn:Et; [|discriminate].
  destruct (parent_path p (forest_of t)) as [pq|] eqn:Ep; [|discriminate].
  destruct (get_ch pq (forest_of t)) as [ch|] eqn:Ec; [|discriminate].
  destruct (negb (before_ok (norm_before b) ch)); [discriminate|].
  set (oid := match e with Some e0 => Some e0 | None => calc_id (calc t) d end) in H.
  destruct oid as [id|] eqn:Eid; [|discriminate].
  destruct (collides t p id); [discriminate|].
  injection H as <- <-.
  set (inf := mk_info d id (default_kind t k) []).
  set (x := T (next w) inf []).
  set (t' := set_all t (upd_ch pq (place (norm_before b) x) (forest_of t)) (reg t ++ [next w]) (idx_add id (next w) (idx t))).
  assert (Et' : get_tree (put_tree (bump w 1) ti t') ti = Some t') by (apply (get_put_same _ _ t); exact Et).
  exists t, t', pq, ch, id. cbv zeta.
  split; [first [reflexivity|exact Et]|]. split; [exact Et'|]. split; [first [reflexivity|exact Ep]|].
  split; [first [reflexivity|exact Ec]|].
  split; [|split; [reflexivity|split; [|split; [|split]]]].
  - subst oid. destruct e as [e0|]; [left; congruence|right; split; [reflexivity|assumption]].
  - cbn. lia.
  - cbn [forest_of t' set_all]. now apply get_ch_upd_ch.
  - cbn [forest_of t' set_all].
    destruct (upd_ch_context pq (forest_of t) 0 ch Ec) as (A & B & E1 & E2).
    rewrite (parent_path_owner p _ pq ch Ep Ec) in E1, E2.
    destruct (place_split (norm_before b) x ch) as (a & c & Ea & Eb).
    exists (A ++ rows p a), (rows p c ++ B). split.
    + rewrite E1, Ea, rows_app. la.
    + rewrite E2, Eb, rows_app. cbn [flat_map]. unfold x at 1. rewrite rows_leaf. la.
  - intros tj Hj. rewrite get_put_other by congruence. reflexivity.
Qed.

(* -- remove(): the whole branch goes -- *)
Theorem remove_branch_effect t n t' :
  remove_branch t n = Some t' ->
  exists q0 i l s o,
    node_loc n (forest_of t) = Some (q0, i, l) /\ nth_error l i = Some s /\ rid s = n /\
    get_ch q0 (forest_of t') = Some (remove_nth i l) /\
    repl_rows (rows_t o s) [] (rows 0 (forest_of t)) (rows 0 (forest_of t')).
Proof.
  unfold remove_branch, detach. intros H.
  destruct (node_loc n (forest_of t)) as [[[q0 i] l]|] eqn:El; [|discriminate].
  destruct (nth_error l i) as [s|] eqn:En; [|discriminate].
  destruct (unregister_all (pre s) (reg t) (idx t)) as [r' ix'] eqn:Eu.
  injection H as <-. cbn [forest_of set_all].
  destruct (node_loc_spec n _ q0 i l El) as (Hg & s' & Hs & Hr & _).
  rewrite En in Hs. injection Hs as <-.
  exists q0, i, l, s, (owner q0 (forest_of t) 0). refine (conj eq_refl (conj En (conj Hr (conj _ _)))).
  - now apply get_ch_upd_ch.
  - destruct (upd_ch_context q0 (forest_of t) 0 l Hg) as (A & B & E1 & E2).
    destruct (nth_error_split l i En) as (a & c & -> & <-).
    exists (A ++ rows (owner q0 (forest_of t) 0) a), (rows (owner q0 (forest_of t) 0) c ++ B). split.
    + rewrite E1, rows_app. cbn [flat_map]. la.
    + rewrite E2, remove_nth_split, rows_app. cbn [app]. la.
Qed.

(* -- remove(keep_children=True): the children take the node's place, in order -- *)
Theorem remove_keep_effect t n t' :
  remove_keep t n = Some t' ->
  exists q0 i a s c o,
    node_loc n (forest_of t) = Some (q0, i, a ++ s :: c) /\ length a = i /\ rid s = n /\
    get_ch q0 (forest_of t') = Some (a ++ rch s ++ c) /\
    repl_rows ((o, n, rinfo s) :: rows n (rch s)) (rows o (rch s)) (rows 0 (forest_of t)) (rows 0 (forest_of t')).
Proof.
  unfold remove_keep. intros H.
  destruct (node_loc n (forest_of t)) as [[[q0 i] l]|] eqn:El; [|discriminate].
  destruct (nth_error l i) as [s|] eqn:En; [|discriminate].
  injection H as <-. cbn [forest_of set_all].
  destruct (node_loc_spec n _ q0 i l El) as (Hg & s' & Hs & Hr & _).
  rewrite En in Hs. injection Hs as <-.
  destruct (nth_error_split l i En) as (a & c & -> & L).
  set (o := owner q0 (forest_of t) 0).
  exists q0, i, a, s, c, o. refine (conj eq_refl (conj L (conj Hr (conj _ _)))).
  - rewrite (get_ch_upd_ch _ _ _ _ Hg). f_equal. subst i.
    change (match a ++ s :: c with [] => [] | _ :: l0 => skipn (length a) l0 end) with (skipn (S (length a)) (a ++ s :: c)).
    now rewrite firstn_mid, skipn_mid.
  - destruct (upd_ch_context q0 (forest_of t) 0 _ Hg) as (A & B & E1 & E2). fold o in E1, E2.
    exists (A ++ rows o a), (rows o c ++ B). split.
    + rewrite E1, rows_app, rows_cons, <- Hr. la.
    + rewrite E2. subst i.
      change (match a ++ s :: c with [] => [] | _ :: l0 => skipn (length a) l0 end) with (skipn (S (length a)) (a ++ s :: c)).
      rewrite firstn_mid, skipn_mid, !rows_app. la.
Qed.

(* -- remove_children() / clear() -- *)
Theorem remove_children_effect w ti n r w' :
  op_remove_children w ti n = (Ok r, w') ->
  exists t t' pq ch,
    get_tree w ti = Some t /\ get_tree w' ti = Some t' /\
    parent_path n (forest_of t) = Some pq /\ get_ch pq (forest_of t) = Some ch /\
    get_ch pq (forest_of t') = Some [] /\
    repl_rows (rows n ch) [] (rows 0 (forest_of t)) (rows 0 (forest_of t')) /\
    (forall tj, tj <> ti -> get_tree w' tj = get_tree w tj).
Proof.
  unfold op_remove_children. intros H.
  destruct (get_tree w ti) as [t|] eqn:Et; [|discriminate].
  destruct (parent_path n (forest_of t)) as [pq|] eqn:Ep; [|discriminate].
  destruct (get_ch pq (forest_of t)) as [ch|] eqn:Ec; [|discriminate].
  destruct (unregister_all (pre_f ch) (reg t) (idx t)) as [r' ix'] eqn:Eu.
  injection H as <- <-.
  eexists t, _, pq, ch.
  split; [first [reflexivity|exact Et]|]. split; [exact (get_put_same _ _ t _ Et)|].
  split; [first [reflexivity|exact Ep]|]. split; [first [reflexivity|exact Ec]|]. split; [|split].
  - cbn [forest_of set_all]. now rewrite (get_ch_upd_ch _ _ _ _ Ec).
  - cbn [forest_of set_all].
    destruct (upd_ch_context pq (forest_of t) 0 ch Ec) as (A & B & E1 & E2).
    rewrite (parent_path_owner n _ pq ch Ep Ec) in E1, E2.
    exists A, B. split; [exact E1|]. rewrite E2. reflexivity.
  - intros tj Hj. rewrite get_put_other by congruence. reflexivity.
Qed.

Corollary clear_effect w ti r w' :
  op_clear w ti = (Ok r, w') ->
  exists t t', get_tree w ti = Some t /\ get_tree w' ti = Some t' /\ forest_of t' = [] /\
               (forall tj, tj <> ti -> get_tree w' tj = get_tree w tj).
Proof.
  unfold op_clear. intros H.
  destruct (remove_children_effect w ti 0 r w' H) as (t & t' & pq & ch & E1 & E2 & E3 & E4 & E5 & _ & E7).
  exists t, t'. repeat split; auto. unfold parent_path in E3. cbn in E3. injection E3 as <-. cbn in E5. now injection E5.
Qed.

(* -- metadata / data of one node: exactly one row changes its payload -- *)
Theorem set_info_effect n g f :
  In n (ids f) ->
  exists A B o s, rows 0 f = A ++ (o, n, rinfo s) :: B /\ rid s = n /\
                  rows 0 (set_info_at n g f) = A ++ (o, n, g (rinfo s)) :: B.
Proof.
  intros Hin. unfold set_info_at.
  destruct (get_node_complete n f Hin) as (s & Hs).
  destruct (get_node_loc n f s Hs) as (q0 & i & l & El & En).
  rewrite El. destruct (node_loc_spec n f q0 i l El) as (Hg & s' & Hs' & Hr & _).
  rewrite En in Hs'. injection Hs' as <-.
  destruct (upd_ch_context q0 f 0 l Hg) as (A & B & E1 & E2).
  destruct (nth_error_split l i En) as (a & c & -> & L).
  set (o := owner q0 f 0) in *.
  exists (A ++ rows o a), (rows (rid s) (rch s) ++ rows o c ++ B), o, s. refine (conj _ (conj Hr _)).
  - rewrite E1, rows_app, rows_cons, Hr. la.
  - rewrite E2. subst i. rewrite upd_nth_split, rows_app. cbn [flat_map]. destruct s as [id inf ch].
    cbn [rows_t rid rinfo rch] in *. subst id. la.
Qed.

(* ------------------------------------------------------------------ *)
(* Part 4: sorting *)

Definition key_le (k : keyt) (x y : rt) : Prop :=
  match key_of k (rid x), key_of k (rid y) with
  | Some a, Some b => text_leb a b = true
  | _, _ => True
  end.

Lemma ins_sorted_perm k x : forall l, Permutation (ins_sorted k x l) (x :: l).
Proof.
  induction l as [|y l IH]; [reflexivity|]. cbn [ins_sorted].
  destruct (key_of k (rid x)) as [kx|]; [|reflexivity].
  destruct (key_of k (rid y)) as [ky|]; [|reflexivity].
  destruct (text_leb kx ky); [reflexivity|].
  rewrite IH. apply perm_swap.
Qed.

Theorem isort_perm k l : Permutation (isort k l) l.
Proof.
  induction l as [|x l IH]; [reflexivity|]. cbn [isort fold_right].
  fold (isort k l). rewrite ins_sorted_perm. now constructor.
Qed.

Theorem py_sort_perm k rv l : Permutation (py_sort k rv l) l.
Proof.
  unfold py_sort. destruct rv; [|apply isort_perm].
  rewrite <- Permutation_rev, isort_perm. symmetry. apply Permutation_rev.
Qed.

(* order of keys: text_leb is reflexive and total *)
Lemma text_leb_refl a : text_leb a a = true.
Proof.
  induction a as [|x a IH]; [reflexivity|]. cbn [text_leb]. rewrite Z.ltb_irrefl. exact IH.
Qed.

Lemma text_leb_total : forall a b, text_leb a b = false -> text_leb b a = true.
Proof.
  induction a as [|x a IH]; intros [|y b] H; cbn [text_leb] in *; try discriminate; try reflexivity.
  destruct (x <? y)%Z eqn:E1; [discriminate|].
  destruct (y <? x)%Z eqn:E2; [reflexivity|]. now apply IH.
Qed.

(* "x may stand before y": keys in order (vacuous when a key callback raises - the sort is then abandoned) *)
Definition kle (k : keyt) (x y : rt) : Prop :=
  match key_of k (rid x), key_of k (rid y) with
  | Some a, Some b => text_leb a b = true
  | _, _ => True
  end.

(* has key a *)
Definition hk (k : keyt) (a : text) (t : rt) : bool :=
  match key_of k (rid t) with Some b => text_eqb a b | None => false end.

Lemma HdRel_ins k x y l : HdRel (kle k) y l -> kle k y x -> HdRel (kle k) y (ins_sorted k x l).
Proof.
  intros H R. destruct l as [|z l]; [constructor; exact R|]. cbn [ins_sorted].
  destruct (key_of k (rid x)) as [kx|] eqn:Ex; [|constructor; exact R].
  destruct (key_of k (rid z)) as [kz|] eqn:Ez; [|constructor; exact R].
  destruct (text_leb kx kz); constructor; [exact R|]. now inversion H.
Qed.

Lemma ins_sorted_sorted k x : forall l, Sorted (kle k) l -> Sorted (kle k) (ins_sorted k x l).
Proof.
  induction l as [|y l IH]; intros S; [repeat constructor|]. cbn [ins_sorted].
  destruct (key_of k (rid x)) as [kx|] eqn:Ex.
  2:{ constructor; [exact S|]. constructor. unfold kle. now rewrite Ex. }
  destruct (key_of k (rid y)) as [ky|] eqn:Ey.
  2:{ constructor; [exact S|]. constructor. unfold kle. now rewrite Ex, Ey. }
  destruct (text_leb kx ky) eqn:E.
  - constructor; [exact S|]. constructor. unfold kle. now rewrite Ex, Ey.
  - inversion S as [|? ? S' Hd]; subst. constructor; [now apply IH|].
    apply HdRel_ins; [exact Hd|]. unfold kle. rewrite Ex, Ey. now apply text_leb_total.
Qed.

Theorem isort_sorted k l : Sorted (kle k) (isort k l).
Proof.
  induction l as [|x l IH]; [constructor|]. cbn [isort fold_right]. fold (isort k l). now apply ins_sorted_sorted.
Qed.

Lemma filter_ins_sorted k a x : forall l,
  filter (hk k a) (ins_sorted k x l) = (if hk k a x then [x] else []) ++ filter (hk k a) l.
Proof.
  induction l as [|y l IH]; [cbn; destruct (hk k a x); reflexivity|]. cbn [ins_sorted].
  destruct (key_of k (rid x)) as [kx|] eqn:Ex; [|cbn [filter]; destruct (hk k a x); reflexivity].
  destruct (key_of k (rid y)) as [ky|] eqn:Ey; [|cbn [filter]; destruct (hk k a x); reflexivity].
  destruct (text_leb kx ky) eqn:E; [cbn [filter]; destruct (hk k a x); reflexivity|].
  cbn [filter]. rewrite IH.
  destruct (hk k a x) eqn:Hx, (hk k a y) eqn:Hy; try reflexivity.
  exfalso. unfold hk in Hx, Hy. rewrite Ex in Hx. rewrite Ey in Hy.
  apply text_eqb_eq in Hx, Hy. subst kx ky. rewrite text_leb_refl in E. discriminate.
Qed.

(* stability: the nodes with one key keep their relative order *)
Theorem isort_stable k a l : filter (hk k a) (isort k l) = filter (hk k a) l.
Proof.
  induction l as [|x l IH]; [reflexivity|]. cbn [isort fold_right]. fold (isort k l).
  rewrite filter_ins_sorted, IH. cbn [filter]. destruct (hk k a x); reflexivity.
Qed.

Lemma filter_rev' {X} (f : X -> bool) l : filter f (rev l) = rev (filter f l).
Proof.
  induction l as [|x l IH]; [reflexivity|]. cbn [rev filter]. rewrite filter_app, IH. cbn [filter].
  destruct (f x); cbn [rev]; [reflexivity|now rewrite app_nil_r].
Qed.

Theorem py_sort_stable k rv a l : filter (hk k a) (py_sort k rv l) = filter (hk k a) l.
Proof.
  unfold py_sort. destruct rv; [|apply isort_stable].
  rewrite filter_rev', isort_stable, filter_rev', rev_involutive. reflexivity.
Qed.

Fixpoint lastopt {X} (l : list X) : option X :=
  match l with [] => None | [x] => Some x | _ :: l' => lastopt l' end.

Lemma Sorted_snoc {X} (Q : X -> X -> Prop) x : forall m,
  Sorted Q m -> (forall y, lastopt m = Some y -> Q y x) -> Sorted Q (m ++ [x]).
Proof.
  induction m as [|z m IH]; intros S H; [repeat constructor|]. cbn [app].
  inversion S as [|? ? S' Hd]; subst. constructor.
  - apply IH; [exact S'|]. intros y Hy. apply H. destruct m; [discriminate|exact Hy].
  - destruct m as [|z' m]; cbn [app]; constructor; [apply H; reflexivity|now inversion Hd].
Qed.

Lemma last_error_rev_cons {X} (y : X) l : lastopt (rev (y :: l)) = Some y.
Proof. cbn [rev]. induction (rev l) as [|z m IH]; [reflexivity|]. cbn [app]. destruct (m ++ [y]) eqn:E; [destruct m; discriminate|exact IH]. Qed.

Lemma Sorted_rev {X} (R : X -> X -> Prop) : forall l, Sorted R l -> Sorted (fun a b => R b a) (rev l).
Proof.
  induction l as [|x l IH]; intros S; [constructor|]. cbn [rev]. inversion S as [|? ? S' Hd]; subst.
  apply Sorted_snoc; [now apply IH|]. intros y Hy. destruct l as [|z l]; [discriminate|].
  rewrite last_error_rev_cons in Hy. injection Hy as <-. now inversion Hd.
Qed.

(* ascending without reverse, descending with reverse *)
Theorem py_sort_sorted k l :
  Sorted (kle k) (py_sort k false l) /\ Sorted (fun x y => kle k y x) (py_sort k true l).
Proof. unfold py_sort. split; [apply isort_sorted|apply Sorted_rev, isort_sorted]. Qed.

(* -- sort_children(deep=False) on the machine: the child list named by the op is replaced by its sorted
      permutation; rows outside are unchanged -- *)
Theorem sort_flat_effect w ti p k rv r w' :
  op_sort w ti p k rv false = (Ok r, w') ->
  exists t t' pq ch,
    get_tree w ti = Some t /\ get_tree w' ti = Some t' /\
    parent_path p (forest_of t) = Some pq /\ get_ch pq (forest_of t) = Some ch /\
    get_ch pq (forest_of t') = Some (py_sort k rv ch) /\
    repl_rows (rows p ch) (rows p (py_sort k rv ch)) (rows 0 (forest_of t)) (rows 0 (forest_of t')) /\
    (forall tj, tj <> ti -> get_tree w' tj = get_tree w tj).
Proof.
  unfold op_sort. intros H.
  destruct (get_tree w ti) as [t|] eqn:Et; [|discriminate].
  destruct (parent_path p (forest_of t)) as [pq|] eqn:Ep; [|discriminate].
  destruct (get_ch pq (forest_of t)) as [ch|] eqn:Ec; [|discriminate].
  destruct (sort_list k rv false ch) as [ch' failed] eqn:Es.
  destruct failed; [discriminate|]. injection H as <- <-.
  assert (E' : ch' = py_sort k rv ch).
  { unfold sort_list in Es. destruct ch as [|c0 ch0]; [injection Es as <-; destruct rv; reflexivity|].
    destruct (Nat.eqb (length (c0 :: ch0)) 1 && negb false) eqn:E1.
    - injection Es as <-. destruct ch0; [|discriminate]. unfold py_sort, isort. destruct rv; reflexivity.
    - destruct (negb (keys_ok k (c0 :: ch0))); [discriminate|]. now injection Es as <-. }
  subst ch'.
  eexists t, _, pq, ch.
  split; [first [reflexivity|exact Et]|]. split; [exact (get_put_same _ _ t _ Et)|].
  split; [first [reflexivity|exact Ep]|]. split; [first [reflexivity|exact Ec]|]. split; [|split].
  - cbn [forest_of set_forest]. now rewrite (get_ch_upd_ch _ _ _ _ Ec).
  - cbn [forest_of set_forest].
    destruct (upd_ch_context pq (forest_of t) 0 ch Ec) as (A & B & E1 & E2).
    rewrite (parent_path_owner p _ pq ch Ep Ec) in E1, E2.
    exists A, B. split; [exact E1|]. now rewrite E2.
  - intros tj Hj. rewrite get_put_other by congruence. reflexivity.
Qed.

(* ------------------------------------------------------------------ *)
(* Part 5: remove / move / shortcuts / metadata at the level of [step] *)

Lemma get_node_live t n s : get_node n (forest_of t) = Some s -> live t n = true.
Proof.
  intros H. destruct (get_node_spec n _ s H) as (Hin & Hr). unfold live. apply existsb_exists.
  exists n. split; [|apply Nat.eqb_refl]. unfold ids. rewrite <- Hr. now apply in_map.
Qed.

Lemma remove_one_some t n keep s : get_node n (forest_of t) = Some s -> exists t', remove_one t n keep = Some t'.
Proof.
  intros H. destruct (get_node_loc n _ s H) as (q0 & i & l & El & En).
  unfold remove_one, remove_keep, remove_branch, detach. rewrite El, En.
  destruct keep; [eexists; reflexivity|]. destruct (unregister_all _ _ _). eexists; reflexivity.
Qed.

(* remove(keep_children=k) of one node: [remove_keep] / [remove_branch] of exactly that node *)
Theorem remove_effect w ti n keep r w' :
  op_remove w ti n keep false = (Ok r, w') ->
  exists t t', get_tree w ti = Some t /\ get_tree w' ti = Some t' /\ r = [] /\
               (if keep then remove_keep t n = Some t' else remove_branch t n = Some t') /\
               next w' = next w /\ (forall tj, tj <> ti -> get_tree w' tj = get_tree w tj).
Proof.
  unfold op_remove. intros H.
  destruct (get_tree w ti) as [t|] eqn:Et; [|discriminate].
  destruct (did_of n (forest_of t)) as [d|] eqn:Ed; [|discriminate].
  unfold did_of in Ed. destruct (get_node n (forest_of t)) as [s|] eqn:Es; [|discriminate].
  destruct (keep && existsb (keep_collides_all t [n]) [n]); [discriminate|].
  injection H as <- <-. cbn [fold_left]. rewrite (get_node_live t n s Es).
  destruct (remove_one_some t n keep s Es) as (t' & E'). rewrite E'.
  exists t, t'. split; [first [reflexivity|exact Et]|]. split; [exact (get_put_same _ _ t _ Et)|].
  split; [reflexivity|]. split; [destruct keep; exact E'|]. split; [reflexivity|].
  intros tj Hj. rewrite get_put_other by congruence. reflexivity.
Qed.

Lemma parent_path_has_ch p f pq : parent_path p f = Some pq -> exists ch, get_ch pq f = Some ch.
Proof.
  unfold parent_path. destruct (Nat.eqb p 0).
  - intros H. injection H as <-. now exists f.
  - intros H. destruct (node_path_sound p f pq H) as (s & H1 & _).
    destruct (node_at_loc pq f s 0 H1) as (G & _). now exists (rch s).
Qed.

(* move_to: the branch leaves its place and is inserted, under its new parent, at the
   documented position of the target's child list as it is AFTER the node was taken out *)
Theorem move_effect w ti n target b r w' :
  op_move w ti n ti target b = (Ok r, w') ->
  (w' = w /\ norm_before b = NNode n) \/
  exists t t' s f1 pq ch1 o A B C D,
    get_tree w ti = Some t /\ get_tree w' ti = Some t' /\ rid s = n /\
    detach n (forest_of t) = Some (s, f1) /\
    parent_path target f1 = Some pq /\ get_ch pq f1 = Some ch1 /\
    get_ch pq (forest_of t') = Some (place (norm_before b) s ch1) /\
    rows 0 (forest_of t) = A ++ rows_t o s ++ B /\ rows 0 f1 = A ++ B /\
    rows 0 f1 = C ++ D /\ rows 0 (forest_of t') = C ++ rows_t target s ++ D /\
    reg t' = reg t /\ idx t' = idx t /\
    (forall tj, tj <> ti -> get_tree w' tj = get_tree w tj).
Proof.
  unfold op_move. intros H.
  destruct (get_tree w ti) as [t|] eqn:Et; [|discriminate].
  destruct (typed t); [discriminate|]. rewrite Nat.eqb_refl in H. cbn [negb] in H.
  destruct (get_node n (forest_of t)) as [s|] eqn:Es; [|discriminate].
  destruct (children_of target (forest_of t)) as [tch|] eqn:Etc; [|discriminate].
  destruct (parent_of n (forest_of t)) as [cur|] eqn:Ecur; [|discriminate].
  destruct (is_desc_or_self n target (forest_of t)); [discriminate|].
  destruct (negb (before_ok (norm_before b) tch)); [discriminate|].
  destruct (negb (Nat.eqb cur target) && existsb (fun c => did_eqb (rdid c) (rdid s)) tch); [discriminate|].
  destruct (norm_before b) as [|z|s0] eqn:Enb.
  1,2: right. 3: destruct (Nat.eqb s0 n) eqn:Es0; [left; injection H as _ <-; apply Nat.eqb_eq in Es0; subst s0; split; reflexivity|right].
  all: unfold move_in in H;
    destruct (detach n (forest_of t)) as [[s1 f1]|] eqn:Ed; [|discriminate];
    destruct (parent_path target f1) as [pq|] eqn:Ep; [|discriminate];
    injection H as <- <-;
    unfold detach in Ed;
    destruct (node_loc n (forest_of t)) as [[[q0 i] l]|] eqn:El; [|discriminate];
    destruct (nth_error l i) as [s2|] eqn:En; [|discriminate];
    injection Ed as <- <-;
    destruct (node_loc_spec n _ q0 i l El) as (Hg & s' & Hs & Hr & _);
    rewrite En in Hs; injection Hs as <-;
    destruct (parent_path_has_ch target _ pq Ep) as (ch1 & Ec1);
    destruct (upd_ch_context q0 (forest_of t) 0 l Hg) as (A & B & E1 & E2);
    destruct (nth_error_split l i En) as (a & c & -> & <-);
    destruct (upd_ch_context pq _ 0 ch1 Ec1) as (C & D & F1 & F2);
    rewrite (parent_path_owner target _ pq ch1 Ep Ec1) in F1, F2;
    destruct (place_split (norm_before b) s2 ch1) as (a1 & c1 & Ea & Eb);
    set (o := owner q0 (forest_of t) 0) in *;
    exists t, (set_forest t (upd_ch pq (place (norm_before b) s2) (upd_ch q0 (remove_nth (length a)) (forest_of t)))),
           s2, (upd_ch q0 (remove_nth (length a)) (forest_of t)), pq, ch1, o,
           (A ++ rows o a), (rows o c ++ B), (C ++ rows target a1), (rows target c1 ++ D);
    rewrite <- Enb;
    (split; [first [reflexivity|exact Et]|]); (split; [exact (get_put_same _ _ t _ Et)|]); (split; [exact Hr|]);
    (split; [unfold detach; rewrite El, En; reflexivity|]); (split; [exact Ep|]); (split; [exact Ec1|]);
    (split; [cbn [forest_of set_forest]; now rewrite (get_ch_upd_ch _ _ _ _ Ec1)|]);
    (split; [rewrite E1, rows_app; cbn [flat_map]; la|]);
    (split; [rewrite E2, remove_nth_split, rows_app; la|]);
    (split; [rewrite F1, Ea, rows_app; la|]);
    (split; [cbn [forest_of set_forest]; rewrite F2, Eb, rows_app; cbn [flat_map]; la|]);
    (split; [reflexivity|]); (split; [reflexivity|]);
    intros tj Hj; rewrite get_put_other by congruence; reflexivity.
Qed.

(* -- the shortcuts -- *)
Theorem append_child_is_add w ti n d e k t : get_tree w ti = Some t ->
  op_shortcut w ti n SAppendChild d e k = op_add w ti n d e k BNone.
Proof. intros H. unfold op_shortcut. now rewrite H. Qed.

Theorem prepend_child_is_add_first w ti n d e k t ch : get_tree w ti = Some t ->
  children_of n (forest_of t) = Some ch ->
  exists b, op_shortcut w ti n SPrependChild d e k = op_add w ti n d e k b /\
            forall x, place (norm_before b) x ch = x :: ch.
Proof.
  intros H Hc. unfold op_shortcut. rewrite H, Hc. destruct ch as [|c ch].
  - exists BNone. split; reflexivity.
  - exists (BNode (rid c)). split; [reflexivity|]. intros x. cbn [norm_before]. rewrite place_node_ne.
    cbn [index_by_id]. now rewrite Nat.eqb_refl.
Qed.

Lemma index_by_id_app s : forall a l, Forall (fun u => rid u <> s) a ->
  index_by_id s (a ++ l) = option_map (fun j => length a + j) (index_by_id s l).
Proof.
  induction a as [|c a IH]; intros l F; cbn [app index_by_id length].
  - destruct (index_by_id s l); reflexivity.
  - inversion F as [|? ? Hc F']; subst. apply Nat.eqb_neq in Hc. rewrite Hc, (IH l F').
    destruct (index_by_id s l); reflexivity.
Qed.

(* prepend_sibling / append_sibling: directly before / directly after the node *)
Theorem sibling_positions (a : list rt) t c x : NoDup (map rid (a ++ t :: c)) ->
  place (NNode (rid t)) x (a ++ t :: c) = a ++ x :: t :: c /\
  place (norm_before (match nth_error (a ++ t :: c) (S (length a)) with Some nx => BNode (rid nx) | None => BNone end)) x (a ++ t :: c)
    = a ++ t :: x :: c.
Proof.
  intros ND. rewrite map_app in ND. cbn [map] in ND.
  assert (Fa : Forall (fun u => rid u <> rid t) a).
  { apply Forall_forall. intros u Hu E. apply NoDup_remove_2 in ND. apply ND. apply in_or_app. left.
    rewrite <- E. now apply in_map. }
  assert (Hne : forall l0, exists c0 l1, a ++ t :: l0 = c0 :: l1) by (intros; destruct a; cbn; eauto).
  split.
  - destruct (Hne c) as (c0 & l1 & E0). rewrite E0, place_node_ne, <- E0.
    rewrite (index_by_id_app _ a _ Fa). cbn [index_by_id]. rewrite Nat.eqb_refl. cbn [option_map].
    unfold insert_at. rewrite Nat.add_0_r, firstn_app, Nat.sub_diag, firstn_all. cbn [firstn]. rewrite app_nil_r.
    rewrite skipn_app, Nat.sub_diag, skipn_all. reflexivity.
  - replace (nth_error (a ++ t :: c) (S (length a))) with (hd_error c).
    2:{ rewrite nth_error_app2 by lia. replace (S (length a) - length a) with 1 by lia. destruct c; reflexivity. }
    destruct c as [|nx c]; cbn [hd_error norm_before].
    + rewrite place_append. la.
    + destruct (Hne (nx :: c)) as (c0 & l1 & E0). rewrite E0, place_node_ne, <- E0.
      assert (Fb : Forall (fun u => rid u <> rid nx) (a ++ [t])).
      { apply Forall_forall. intros u Hu E. apply in_app_or in Hu.
        apply NoDup_remove in ND. destruct ND as (ND1 & ND2).
        destruct Hu as [Hu|[<-|[]]].
        - apply (in_map rid) in Hu. rewrite E in Hu.
          rewrite <- map_app in ND1. cbn [map] in ND1.
          assert (ND3 : NoDup (map rid a ++ rid nx :: map rid c)) by (rewrite map_app in ND1; exact ND1).
          apply NoDup_remove_2 in ND3. apply ND3. apply in_or_app. now left.
        - apply ND2. apply in_or_app. right. left. now symmetry. }
      replace (a ++ t :: nx :: c) with ((a ++ [t]) ++ nx :: c) by la.
      rewrite (index_by_id_app _ (a ++ [t]) _ Fb). cbn [index_by_id]. rewrite Nat.eqb_refl. cbn [option_map].
      unfold insert_at. rewrite Nat.add_0_r, firstn_app, Nat.sub_diag, firstn_all. cbn [firstn]. rewrite app_nil_r.
      rewrite skipn_app, Nat.sub_diag, skipn_all. la.
Qed.

(* -- set_meta / clear_meta / update_meta: the payload of exactly one row, and only its meta field -- *)
Theorem meta_effect w ti n o r w' :
  op_meta w ti n o = (Ok r, w') ->
  exists t t' A B p s,
    get_tree w ti = Some t /\ get_tree w' ti = Some t' /\ rid s = n /\
    rows 0 (forest_of t) = A ++ (p, n, rinfo s) :: B /\
    rows 0 (forest_of t') = A ++ (p, n, set_meta_i (apply_meta o (i_meta (rinfo s))) (rinfo s)) :: B /\
    reg t' = reg t /\ idx t' = idx t /\
    (forall tj, tj <> ti -> get_tree w' tj = get_tree w tj).
Proof.
  unfold op_meta. intros H.
  destruct (get_tree w ti) as [t|] eqn:Et; [|discriminate].
  destruct (live t n) eqn:El; [|discriminate]. injection H as <- <-.
  assert (Hin : In n (ids (forest_of t))).
  { unfold live in El. apply existsb_exists in El. destruct El as (m & Hm & E). apply Nat.eqb_eq in E. now subst m. }
  destruct (set_info_effect n (fun i => set_meta_i (apply_meta o (i_meta i)) i) (forest_of t) Hin) as (A & B & p & s & E1 & E2 & E3).
  eexists t, _, A, B, p, s.
  split; [first [reflexivity|exact Et]|]. split; [exact (get_put_same _ _ t _ Et)|]. split; [exact E2|].
  split; [exact E1|]. split; [exact E3|]. split; [reflexivity|]. split; [reflexivity|].
  intros tj Hj. rewrite get_put_other by congruence. reflexivity.
Qed.

(* ------------------------------------------------------------------ *)
(* Part 6: set_data / rename: the rows of exactly the re-labelled nodes change their payload *)

Definition upd_rows (group : list nat) (g : info -> info) (r : row) : row :=
  if existsb (Nat.eqb (r_id r)) group then (r_par r, r_id r, g (r_info r)) else r.

Lemma map_id_on {X} (f : X -> X) l : (forall x, In x l -> f x = x) -> map f l = l.
Proof. induction l as [|x l IH]; intros H; [reflexivity|]. cbn. rewrite H by now left. f_equal. apply IH. intros y Hy. apply H. now right. Qed.

Lemma set_info_rows_map n g f : NoDup (ids f) -> In n (ids f) ->
  rows 0 (set_info_at n g f) = map (upd_rows [n] g) (rows 0 f).
Proof.
  intros ND Hin. destruct (set_info_effect n g f Hin) as (A & B & o & s & E1 & _ & E2).
  rewrite E2, E1, map_app. cbn [map].
  assert (NDr : NoDup (map r_id (rows 0 f))) by (rewrite rows_ids; exact ND).
  rewrite E1, map_app in NDr. cbn [map] in NDr. change (r_id (o, n, rinfo s)) with n in NDr.
  pose proof (NoDup_remove_2 _ _ _ NDr) as Hn.
  assert (HA : map (upd_rows [n] g) A = A).
  { apply map_id_on. intros x Hx. unfold upd_rows. cbn [existsb]. destruct (Nat.eqb (r_id x) n) eqn:E; [|reflexivity].
    exfalso. apply Nat.eqb_eq in E. apply Hn. apply in_or_app. left. rewrite <- E. now apply in_map. }
  assert (HB : map (upd_rows [n] g) B = B).
  { apply map_id_on. intros x Hx. unfold upd_rows. cbn [existsb]. destruct (Nat.eqb (r_id x) n) eqn:E; [|reflexivity].
    exfalso. apply Nat.eqb_eq in E. apply Hn. apply in_or_app. right. rewrite <- E. now apply in_map. }
  apply (f_equal2 (@app row)); [symmetry; exact HA|]. apply (f_equal2 (@cons row)); [|symmetry; exact HB].
  unfold upd_rows. cbn [existsb r_id r_par r_info fst snd]. rewrite Nat.eqb_refl. reflexivity.
Qed.

Lemma upd_rows_id group g r : r_id (upd_rows group g r) = r_id r.
Proof. unfold upd_rows. destruct (existsb _ group); reflexivity. Qed.

Lemma set_info_ids n g f : NoDup (ids f) -> In n (ids f) -> ids (set_info_at n g f) = ids f.
Proof.
  intros ND Hin. rewrite <- !(rows_ids _ 0), (set_info_rows_map n g f ND Hin), map_map.
  apply map_ext. intros r. apply upd_rows_id.
Qed.

Lemma upd_rows_cons m group g r : ~ In m group ->
  upd_rows group g (upd_rows [m] g r) = upd_rows (m :: group) g r.
Proof.
  intros Hn. unfold upd_rows. cbn [existsb]. destruct (Nat.eqb (r_id r) m) eqn:E; cbn [orb]; [|reflexivity].
  cbn [r_id r_par r_info fst snd]. apply Nat.eqb_eq in E.
  destruct (existsb (Nat.eqb (r_id r)) group) eqn:Ex; [|reflexivity].
  exfalso. apply existsb_exists in Ex. destruct Ex as (y & Hy & Ey). apply Nat.eqb_eq in Ey.
  subst. contradiction.
Qed.

(* every member of the group gets g applied to its payload, all other rows stay *)
Theorem relabel_rows g : forall group f, NoDup (ids f) -> NoDup group -> incl group (ids f) ->
  rows 0 (relabel group g f) = map (upd_rows group g) (rows 0 f) /\ ids (relabel group g f) = ids f.
Proof.
  unfold relabel. induction group as [|m group IH]; intros f ND NDg Hi; cbn [fold_left].
  - split; [|reflexivity]. symmetry. apply map_id_on. intros r _. reflexivity.
  - assert (Hm : In m (ids f)) by (apply Hi; now left).
    inversion NDg as [|? ? Hnm NDg']; subst.
    pose proof (set_info_ids m g f ND Hm) as Eids.
    destruct (IH (set_info_at m g f)) as (E1 & E2).
    + now rewrite Eids.
    + exact NDg'.
    + rewrite Eids. intros x Hx. apply Hi. now right.
    + split; [|now rewrite E2]. rewrite E1, (set_info_rows_map m g f ND Hm), map_map.
      apply map_ext. intros r. now apply upd_rows_cons.
Qed.

(* set_data at the level of step: the forest is re-labelled on a group that is the node itself or
   (with_clones=True) its whole clone group; kind and meta are never touched; registry unchanged *)
Theorem set_data_effect w ti n d e wc r w' :
  op_set_data w ti n d e wc = (Ok r, w') ->
  exists t t' s group g,
    get_tree w ti = Some t /\ get_tree w' ti = Some t' /\ get_node n (forest_of t) = Some s /\
    forest_of t' = relabel group g (forest_of t) /\
    (group = [] \/ group = [n] \/ group = idx_get (rdid s) (idx t)) /\
    (forall i, i_kind (g i) = i_kind i /\ i_meta (g i) = i_meta i) /\
    reg t' = reg t /\ next w' = next w.
Proof.
  unfold op_set_data. intros H.
  destruct (get_tree w ti) as [t|] eqn:Et; [|discriminate].
  destruct (get_node n (forest_of t)) as [s|] eqn:Es; [|discriminate].
  assert (G : forall (P : Prop), (forall t' group g, 
             (w' = put_tree w ti t' \/ (w' = w /\ t' = t)) -> forest_of t' = relabel group g (forest_of t) ->
             (group = [] \/ group = [n] \/ group = idx_get (rdid s) (idx t)) ->
             (forall i, i_kind (g i) = i_kind i /\ i_meta (g i) = i_meta i) -> reg t' = reg t -> P) -> P).
  { intros P K.
    repeat match type of H with
           | (match ?x with _ => _ end) = _ => destruct x eqn:?
           | (if ?c then _ else _) = _ => destruct c eqn:?
           | (let (_, _) := ?x in _) = _ => destruct x eqn:?
           end; try discriminate; injection H as <- <-.
    all: try (eapply (K _ _ _ (or_introl eq_refl)); [cbn [forest_of set_all set_forest]; reflexivity| | |reflexivity];
              [first [right; left; reflexivity | right; right; reflexivity | idtac]
              | intros i; repeat match goal with |- context [match ?x with _ => _ end] => destruct x end; split; reflexivity]).
    all: try (eapply (K t [] (fun i => i) (or_intror (conj eq_refl eq_refl))); [reflexivity|left; reflexivity|intros; split; reflexivity|reflexivity]).
    all: repeat match goal with |- context [if ?c then _ else _] => destruct c end; auto. }
  apply G. intros t' group g Hw Hf Hg Hk Hr.
  destruct Hw as [->|(-> & ->)].
  - exists t, t', s, group, g. split; [first [reflexivity|exact Et]|]. split; [exact (get_put_same _ _ t _ Et)|].
    split; [first [reflexivity|exact Es]|]. repeat split; auto; apply Hk.
  - exists t, t, s, group, g. repeat split; auto; apply Hk.
Qed.

(* ------------------------------------------------------------------ *)
(* Part 7: sort(deep=True) *)

(* relational specification, independent of fuel and failure flags: at every level of the branch
   the child list is the stable sorted permutation [py_sort] of what it was, and the sorted
   children are themselves deep-sorted *)
Inductive deep_sorted (k : keyt) (rv : bool) : rt -> rt -> Prop :=
| DS id i ch ch' : Forall2 (deep_sorted k rv) (py_sort k rv ch) ch' -> deep_sorted k rv (T id i ch) (T id i ch').

Lemma sort_deep_failed fuel k rv t : sort_deep fuel k rv t true = (t, true).
Proof. destruct fuel; [reflexivity|]. destruct t; reflexivity. Qed.

(* the loop over the (already sorted) children, as it occurs in sort_deep and sort_list *)
Definition deep_loop (fuel : nat) (k : keyt) (rv : bool) :=
  fix go (l : list rt) (failed : bool) {struct l} : list rt * bool :=
    match l with
    | [] => ([], failed)
    | c :: l' => let (c', f1) := sort_deep fuel k rv c failed in
                 let (r', f2) := go l' f1 in (c' :: r', f2)
    end.

Lemma deep_loop_failed fuel k rv : forall l, deep_loop fuel k rv l true = (l, true).
Proof.
  induction l as [|c l IH]; [reflexivity|]. cbn [deep_loop]. rewrite sort_deep_failed.
  fold (deep_loop fuel k rv). now rewrite IH.
Qed.

Lemma deep_loop_spec fuel k rv
  (IH : forall c c', sort_deep fuel k rv c false = (c', false) -> size c < fuel -> deep_sorted k rv c c') :
  forall l l', deep_loop fuel k rv l false = (l', false) -> (forall c, In c l -> size c < fuel) ->
               Forall2 (deep_sorted k rv) l l'.
Proof.
  induction l as [|c l IHl]; intros l' H Hs.
  - cbn in H. injection H as <-. constructor.
  - cbn [deep_loop] in H. fold (deep_loop fuel k rv) in H.
    destruct (sort_deep fuel k rv c false) as [c' f1] eqn:Ec.
    destruct f1.
    + rewrite deep_loop_failed in H. discriminate.
    + destruct (deep_loop fuel k rv l false) as [r' f2] eqn:El. injection H as <- ->.
      constructor.
      * apply IH; [exact Ec|apply Hs; now left].
      * apply IHl; [reflexivity|]. intros x Hx. apply Hs. now right.
Qed.

Lemma size_le_sum c : forall l, In c l -> size c <= list_sum (map size l).
Proof.
  unfold list_sum. induction l as [|x l IH]; intros H; [destruct H|]. cbn [map fold_right]. destruct H as [->|H]; [lia|].
  specialize (IH H). lia.
Qed.

Lemma in_py_sort k rv c l : In c (py_sort k rv l) -> In c l.
Proof. intros H. eapply Permutation_in; [apply py_sort_perm|exact H]. Qed.

Theorem sort_deep_spec k rv : forall fuel t t',
  sort_deep fuel k rv t false = (t', false) -> size t < fuel -> deep_sorted k rv t t'.
Proof.
  induction fuel as [|fuel IH]; intros t t' H Hs; [lia|].
  destruct t as [id i ch]. cbn [sort_deep] in H.
  destruct ch as [|c0 ch0].
  - injection H as <-. constructor. destruct rv; constructor.
  - destruct (negb (keys_ok k (c0 :: ch0))); [discriminate|].
    fold (deep_loop fuel k rv) in H.
    destruct (deep_loop fuel k rv (py_sort k rv (c0 :: ch0)) false) as [r f] eqn:El.
    cbn [fst snd] in H. injection H as <- ->.
    constructor. apply (deep_loop_spec fuel k rv IH _ _ El).
    intros c Hc. apply in_py_sort in Hc. pose proof (size_le_sum c _ Hc) as L.
    change (size (T id i (c0 :: ch0))) with (S (list_sum (map size (c0 :: ch0)))) in Hs. lia.
Qed.

(* Tree.sort / sort_children(deep=True) on a child list *)
Theorem sort_list_deep_spec k rv ch ch' :
  sort_list k rv true ch = (ch', false) -> Forall2 (deep_sorted k rv) (py_sort k rv ch) ch'.
Proof.
  unfold sort_list. intros H. destruct ch as [|c0 ch0].
  - injection H as <-. destruct rv; constructor.
  - rewrite andb_false_r in H. destruct (negb (keys_ok k (c0 :: ch0))); [discriminate|].
    fold (deep_loop (S (size_f (c0 :: ch0))) k rv) in H.
    apply (deep_loop_spec _ k rv (fun c c' E L => sort_deep_spec k rv _ c c' E L) _ _ H).
    intros c Hc. apply in_py_sort in Hc. pose proof (size_le_sum c _ Hc) as L. unfold size_f. lia.
Qed.

(* what deep_sorted means for the tree: same root, every node of the result has a sorted child list,
   and the nodes are the same *)
Lemma deep_sorted_root k rv t t' : deep_sorted k rv t t' -> rid t' = rid t /\ rinfo t' = rinfo t.
Proof. intros H. destruct H. split; reflexivity. Qed.

(* sort at the level of step, any [deep]: the named child list becomes [ch'], everything outside unchanged;
   deep=false: ch' = py_sort ch; deep=true: ch' is py_sort ch with every child deep-sorted *)
Theorem sort_effect w ti p k rv dp r w' :
  op_sort w ti p k rv dp = (Ok r, w') ->
  exists t t' pq ch ch',
    get_tree w ti = Some t /\ get_tree w' ti = Some t' /\
    parent_path p (forest_of t) = Some pq /\ get_ch pq (forest_of t) = Some ch /\
    get_ch pq (forest_of t') = Some ch' /\
    (if dp then Forall2 (deep_sorted k rv) (py_sort k rv ch) ch' else ch' = py_sort k rv ch) /\
    repl_rows (rows p ch) (rows p ch') (rows 0 (forest_of t)) (rows 0 (forest_of t')) /\
    reg t' = reg t /\ idx t' = idx t /\
    (forall tj, tj <> ti -> get_tree w' tj = get_tree w tj).
Proof.
  destruct dp.
  2:{ intros H. destruct (sort_flat_effect w ti p k rv r w' H) as (t & t' & pq & ch & E1 & E2 & E3 & E4 & E5 & E6 & E7).
      exists t, t', pq, ch, (py_sort k rv ch). repeat split; auto.
      all: unfold op_sort in H; rewrite E1, E3, E4 in H; destruct (sort_list k rv false ch) as [x []]; try discriminate;
           injection H as _ <-; rewrite (get_put_same _ _ t _ E1) in E2; injection E2 as <-; reflexivity. }
  unfold op_sort. intros H.
  destruct (get_tree w ti) as [t|] eqn:Et; [|discriminate].
  destruct (parent_path p (forest_of t)) as [pq|] eqn:Ep; [|discriminate].
  destruct (get_ch pq (forest_of t)) as [ch|] eqn:Ec; [|discriminate].
  destruct (sort_list k rv true ch) as [ch' failed] eqn:Es.
  destruct failed; [discriminate|]. injection H as <- <-.
  eexists t, _, pq, ch, ch'.
  split; [first [reflexivity|exact Et]|]. split; [exact (get_put_same _ _ t _ Et)|].
  split; [first [reflexivity|exact Ep]|]. split; [first [reflexivity|exact Ec]|].
  split; [cbn [forest_of set_forest]; now rewrite (get_ch_upd_ch _ _ _ _ Ec)|].
  split; [now apply sort_list_deep_spec|].
  split.
  - cbn [forest_of set_forest].
    destruct (upd_ch_context pq (forest_of t) 0 ch Ec) as (A & B & E1 & E2).
    rewrite (parent_path_owner p _ pq ch Ep Ec) in E1, E2.
    exists A, B. split; [exact E1|]. now rewrite E2.
  - split; [reflexivity|]. split; [reflexivity|]. intros tj Hj. rewrite get_put_other by congruence. reflexivity.
Qed.

(* -- del tree[key] and rename are the operations they are documented to be -- *)
Theorem del_effect w ti key r w' :
  op_del w ti key = (Ok r, w') ->
  exists t n, get_tree w ti = Some t /\ getitem t key = Some [n] /\ op_remove w ti n false false = (Ok r, w').
Proof.
  unfold op_del. intros H. destruct (get_tree w ti) as [t|] eqn:Et; [|discriminate].
  destruct (getitem t key) as [[|n [|? ?]]|] eqn:Eg; try discriminate. exists t, n. auto.
Qed.

Theorem rename_effect w ti n d r w' :
  op_rename w ti n d = (Ok r, w') ->
  exists t s, get_tree w ti = Some t /\ get_node n (forest_of t) = Some s /\ i_isstr (rinfo s) = true /\
              op_set_data w ti n (Some d) None None = (Ok r, w').
Proof.
  unfold op_rename. intros H. destruct (get_tree w ti) as [t|] eqn:Et; [|discriminate].
  destruct (get_node n (forest_of t)) as [s|] eqn:Es; [|discriminate].
  destruct (i_isstr (rinfo s)) eqn:E; [|discriminate]. exists t, s. auto.
Qed.
