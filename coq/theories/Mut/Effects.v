(* C04 - effect and frame lemmas for the mutation machine, in list algebra.

   Part 1: where [place] puts a new child (before = None/False/True/index/node).
   Part 2: access after update at the same path.
   Part 3: per operation, what happens to the child list named by the
           operation (effect) and to the pre-order list of rows
           (parent id, node id, payload) of the whole tree (frame): the rows
           of all other nodes are unchanged, in unchanged order.
   Part 4: sorting: permutation, sortedness by key, stability, reverse.

   Built on the context lemma [SurgeryFacts.upd_ch_context]. *)
From Coq Require Import List ZArith Bool Arith Lia Permutation Sorted.
From NT Require Import Sx Rose ListFacts RoseFacts Surgery SurgeryFacts Machine MachineFacts.
Import ListNotations.

Local Ltac la := repeat (rewrite <- app_assoc || rewrite <- app_comm_cons); try reflexivity.

(* ------------------------------------------------------------------ *)
(* Part 1: placement *)

Lemma norm_before_false : norm_before BFalse = norm_before BNone.
Proof. reflexivity. Qed.

Lemma norm_before_true : norm_before BTrue = norm_before (BIdx 0).
Proof. reflexivity. Qed.

Lemma place_empty nb x : place nb x [] = [x].
Proof. reflexivity. Qed.

Lemma place_append x ch : place NApp x ch = ch ++ [x].
Proof. destruct ch; reflexivity. Qed.

Lemma place_idx i x ch : ch <> [] -> place (NIdx i) x ch = py_insert i x ch.
Proof. destruct ch; [congruence|reflexivity]. Qed.

Lemma py_index_nonneg i len : (0 <= i)%Z -> py_index i len = Nat.min (Z.to_nat i) len.
Proof.
  intros H. unfold py_index. destruct (i <? 0)%Z eqn:E.
  - apply Z.ltb_lt in E. lia.
  - lia.
Qed.

Lemma py_index_neg i len : (i < 0)%Z -> py_index i len = len - Z.to_nat (- i).
Proof.
  intros H. unfold py_index. destruct (i <? 0)%Z eqn:E.
  - lia.
  - apply Z.ltb_ge in E. lia.
Qed.

(* before = <index j>, 0 <= j <= len: in front of the child that had index j *)
Lemma py_insert_nonneg {X} (j : nat) (x : X) l : j <= length l ->
  py_insert (Z.of_nat j) x l = firstn j l ++ x :: skipn j l.
Proof.
  intros H. unfold py_insert, insert_at. rewrite py_index_nonneg by lia.
  rewrite Nat2Z.id, Nat.min_l by assumption. reflexivity.
Qed.

(* negative index -k, 0 < k <= len: in front of the k-th child from the end *)
Lemma py_insert_neg {X} (k : nat) (x : X) l : 0 < k <= length l ->
  py_insert (- Z.of_nat k) x l = firstn (length l - k) l ++ x :: skipn (length l - k) l.
Proof.
  intros H. unfold py_insert, insert_at. rewrite py_index_neg by lia.
  rewrite Z.opp_involutive, Nat2Z.id. reflexivity.
Qed.

(* both ends clamp *)
Lemma py_insert_large {X} i (x : X) l : (Z.of_nat (length l) <= i)%Z -> py_insert i x l = l ++ [x].
Proof.
  intros H. unfold py_insert, insert_at. rewrite py_index_nonneg by lia.
  rewrite Nat.min_r by lia. rewrite firstn_all, skipn_all. reflexivity.
Qed.

Lemma py_insert_small {X} i (x : X) l : (i <= - Z.of_nat (length l))%Z -> py_insert i x l = x :: l.
Proof.
  intros H. unfold py_insert, insert_at.
  destruct (Z.eq_dec i 0) as [->|Hi].
  - rewrite py_index_nonneg by lia. reflexivity.
  - rewrite py_index_neg by lia. replace (length l - Z.to_nat (- i)) with 0 by lia. reflexivity.
Qed.

Lemma py_insert_0 {X} (x : X) l : py_insert 0 x l = x :: l.
Proof. unfold py_insert, insert_at. rewrite py_index_nonneg by lia. reflexivity. Qed.

Lemma place_first x ch : place (NIdx 0) x ch = x :: ch.
Proof. destruct ch as [|c ch]; [reflexivity|]. unfold place. apply py_insert_0. Qed.

(* before = <node s>: in front of the first child with identity s *)
Lemma index_by_id_spec s : forall ch j, index_by_id s ch = Some j ->
  exists a t b, ch = a ++ t :: b /\ length a = j /\ rid t = s /\ Forall (fun u => rid u <> s) a.
Proof.
  induction ch as [|c ch IH]; intros j H; [discriminate|]. cbn [index_by_id] in H.
  destruct (Nat.eqb (rid c) s) eqn:E.
  - injection H as <-. apply Nat.eqb_eq in E. exists [], c, ch. repeat split; auto.
  - destruct (index_by_id s ch) as [k|] eqn:G; [|discriminate]. injection H as <-.
    destruct (IH k eq_refl) as (a & t & b & -> & L & R & F). apply Nat.eqb_neq in E.
    exists (c :: a), t, b. repeat split; cbn; auto.
Qed.

Lemma place_node_ne s x c0 l0 :
  place (NNode s) x (c0 :: l0) =
  match index_by_id s (c0 :: l0) with Some j => insert_at j x (c0 :: l0) | None => (c0 :: l0) ++ [x] end.
Proof. reflexivity. Qed.

Lemma place_node s x ch j : index_by_id s ch = Some j ->
  exists a t b, ch = a ++ t :: b /\ rid t = s /\ Forall (fun u => rid u <> s) a /\
                place (NNode s) x ch = a ++ x :: t :: b.
Proof.
  intros H. destruct (index_by_id_spec s ch j H) as (a & t & b & E & L & R & F).
  exists a, t, b. repeat split; auto.
  destruct ch as [|c0 l0]; [destruct a; discriminate|].
  rewrite place_node_ne, H, E. unfold insert_at. subst j.
  rewrite firstn_app, Nat.sub_diag, firstn_all. cbn [firstn]. rewrite app_nil_r.
  rewrite skipn_app, Nat.sub_diag, skipn_all. reflexivity.
Qed.

(* the same, phrased on the [before] argument of the API *)
Lemma before_false_is_none x ch : place (norm_before BFalse) x ch = place (norm_before BNone) x ch.
Proof. reflexivity. Qed.

Lemma before_true_prepends x ch :
  place (norm_before BTrue) x ch = x :: ch /\ place (norm_before (BIdx 0)) x ch = x :: ch.
Proof. split; apply place_first. Qed.

Lemma before_index (j : nat) x ch : ch <> [] -> j <= length ch ->
  place (norm_before (BIdx (Z.of_nat j))) x ch = firstn j ch ++ x :: skipn j ch.
Proof. intros H L. cbn [norm_before]. rewrite place_idx by assumption. now apply py_insert_nonneg. Qed.

Lemma before_negative_index (k : nat) x ch : 0 < k <= length ch ->
  place (norm_before (BIdx (- Z.of_nat k))) x ch = firstn (length ch - k) ch ++ x :: skipn (length ch - k) ch.
Proof.
  intros H. cbn [norm_before]. rewrite place_idx by (destruct ch; cbn in *; [lia|congruence]).
  now apply py_insert_neg.
Qed.

Lemma before_index_clamps i x ch : ch <> [] ->
  ((Z.of_nat (length ch) <= i)%Z -> place (norm_before (BIdx i)) x ch = ch ++ [x]) /\
  ((i <= - Z.of_nat (length ch))%Z -> place (norm_before (BIdx i)) x ch = x :: ch).
Proof.
  intros H. cbn [norm_before]. rewrite place_idx by assumption.
  split; intros L; [now apply py_insert_large|now apply py_insert_small].
Qed.

Lemma before_node s x ch j : index_by_id s ch = Some j ->
  exists a t b, ch = a ++ t :: b /\ rid t = s /\ Forall (fun u => rid u <> s) a /\
                place (norm_before (BNode s)) x ch = a ++ x :: t :: b.
Proof. apply place_node. Qed.

Lemma before_any_first_child b x : place (norm_before b) x [] = [x].
Proof. apply place_empty. Qed.

(* ------------------------------------------------------------------ *)
(* Part 2: access after update *)

Lemma nth_error_upd_nth {X} (g : X -> X) : forall l i x, nth_error l i = Some x ->
  nth_error (upd_nth i g l) i = Some (g x).
Proof.
  induction l as [|y l IH]; intros [|i] x H; try discriminate; cbn in *.
  - now injection H as ->.
  - now apply IH.
Qed.

Lemma get_ch_upd_ch : forall p g f c, get_ch p f = Some c -> get_ch p (upd_ch p g f) = Some (g c).
Proof.
  induction p as [|i rest IH]; intros g f c H; cbn [get_ch upd_ch] in *.
  - now injection H as ->.
  - destruct (nth_error f i) as [t|] eqn:E; [|discriminate].
    rewrite (nth_error_upd_nth _ f i t E). destruct t as [id inf ch]. cbn [set_ch rch] in *. now apply IH.
Qed.

Lemma get_put_same w ti t t' : get_tree w ti = Some t -> get_tree (put_tree w ti t') ti = Some t'.
Proof.
  unfold get_tree, put_tree. cbn [trees]. intros H. now rewrite (nth_error_upd_nth _ _ _ _ H).
Qed.

Lemma nth_error_upd_nth_other {X} (g : X -> X) : forall l i j, i <> j -> nth_error (upd_nth i g l) j = nth_error l j.
Proof.
  induction l as [|y l IH]; intros [|i] [|j] H; cbn; try reflexivity; try congruence.
  apply IH. congruence.
Qed.

Lemma get_put_other w ti tj t' : ti <> tj -> get_tree (put_tree w ti t') tj = get_tree w tj.
Proof. unfold get_tree, put_tree. cbn [trees]. intros H. now apply nth_error_upd_nth_other. Qed.

Lemma firstn_mid {X} (a : list X) s c : firstn (length a) (a ++ s :: c) = a.
Proof. rewrite firstn_app, Nat.sub_diag, firstn_all. cbn [firstn]. apply app_nil_r. Qed.

Lemma skipn_mid {X} (a : list X) s c : skipn (S (length a)) (a ++ s :: c) = c.
Proof.
  rewrite skipn_app. rewrite (skipn_all2 a) by lia.
  replace (S (length a) - length a) with 1 by lia. reflexivity.
Qed.

(* ------------------------------------------------------------------ *)
(* Part 3: effects and frames *)

(* exactly one row inserted / removed, everything else in place *)
Definition ins_row (r : row) (l l' : list row) : Prop := exists A B, l = A ++ B /\ l' = A ++ r :: B.
(* a block of consecutive rows replaced by another block *)
Definition repl_rows (old new : list row) (l l' : list row) : Prop :=
  exists A B, l = A ++ old ++ B /\ l' = A ++ new ++ B.

Lemma rows_leaf o n i : rows_t o (T n i []) = [(o, n, i)].
Proof. reflexivity. Qed.

(* -- add_child(data) -- *)
Theorem add_effect w ti p d e k b r w' :
  op_add w ti p d e k b = (Ok r, w') ->
  exists t t' pq ch id,
    get_tree w ti = Some t /\ get_tree w' ti = Some t' /\
    parent_path p (forest_of t) = Some pq /\ get_ch pq (forest_of t) = Some ch /\
    (e = Some id \/ e = None /\ calc_id (calc t) d = Some id) /\
    r = [next w] /\ next w' = S (next w) /\
    let inf := mk_info d id (default_kind t k) [] in
    (* effect: the child list of p *)
    get_ch pq (forest_of t') = Some (place (norm_before b) (T (next w) inf []) ch) /\
    (* frame: one new row below p, all other rows as they were *)
    ins_row (p, next w, inf) (rows 0 (forest_of t)) (rows 0 (forest_of t')) /\
    (forall tj, tj <> ti -> get_tree w' tj = get_tree w tj).
Proof.
  unfold op_add. intros H.
  destruct (get_tree w ti) as [t|] eqn:Et; [|discriminate].
  destruct (parent_path p (forest_of t)) as [pq|] eqn:Ep; [|discriminate].
  destruct (get_ch pq (forest_of t)) as [ch|] eqn:Ec; [|discriminate].
  destruct (negb (before_ok (norm_before b) ch)); [discriminate|].
  set (oid := match e with Some e0 => Some e0 | None => calc_id (calc t) d end) in H.
  destruct oid as [id|] eqn:Eid; [|discriminate].
  destruct (collides t p id); [discriminate|].
  injection H as <- <-.
  set (inf := mk_info d id (default_kind t k) []).
  set (x := T (next w) inf []).
  set (t' := set_all t (upd_ch pq (place (norm_before b) x) (forest_of t)) (reg t ++ [next w]) (idx_add id (next w) (idx t))).
  assert (Et' : get_tree (put_tree (bump w 1) ti t') ti = Some t') by (apply (get_put_same _ _ t); exact Et).
  exists t, t', pq, ch, id. cbv zeta.
  split; [first [reflexivity|exact Et]|]. split; [exact Et'|]. split; [first [reflexivity|exact Ep]|].
  split; [first [reflexivity|exact Ec]|].
  split; [|split; [reflexivity|split; [|split; [|split]]]].
  - subst oid. destruct e as [e0|]; [left; congruence|right; split; [reflexivity|assumption]].
  - cbn. lia.
  - cbn [forest_of t' set_all]. now apply get_ch_upd_ch.
  - cbn [forest_of t' set_all].
    destruct (upd_ch_context pq (forest_of t) 0 ch Ec) as (A & B & E1 & E2).
    rewrite (parent_path_owner p _ pq ch Ep Ec) in E1, E2.
    destruct (place_split (norm_before b) x ch) as (a & c & Ea & Eb).
    exists (A ++ rows p a), (rows p c ++ B). split.
    + rewrite E1, Ea, rows_app. la.
    + rewrite E2, Eb, rows_app. cbn [flat_map]. unfold x at 1. rewrite rows_leaf. la.
  - intros tj Hj. rewrite get_put_other by congruence. reflexivity.
Qed.

(* -- remove(): the whole branch goes -- *)
Theorem remove_branch_effect t n t' :
  remove_branch t n = Some t' ->
  exists q0 i l s o,
    node_loc n (forest_of t) = Some (q0, i, l) /\ nth_error l i = Some s /\ rid s = n /\
    get_ch q0 (forest_of t') = Some (remove_nth i l) /\
    repl_rows (rows_t o s) [] (rows 0 (forest_of t)) (rows 0 (forest_of t')).
Proof.
  unfold remove_branch, detach. intros H.
  destruct (node_loc n (forest_of t)) as [[[q0 i] l]|] eqn:El; [|discriminate].
  destruct (nth_error l i) as [s|] eqn:En; [|discriminate].
  destruct (unregister_all (pre s) (reg t) (idx t)) as [r' ix'] eqn:Eu.
  injection H as <-. cbn [forest_of set_all].
  destruct (node_loc_spec n _ q0 i l El) as (Hg & s' & Hs & Hr & _).
  rewrite En in Hs. injection Hs as <-.
  exists q0, i, l, s, (owner q0 (forest_of t) 0). refine (conj eq_refl (conj En (conj Hr (conj _ _)))).
  - now apply get_ch_upd_ch.
  - destruct (upd_ch_context q0 (forest_of t) 0 l Hg) as (A & B & E1 & E2).
    destruct (nth_error_split l i En) as (a & c & -> & <-).
    exists (A ++ rows (owner q0 (forest_of t) 0) a), (rows (owner q0 (forest_of t) 0) c ++ B). split.
    + rewrite E1, rows_app. cbn [flat_map]. la.
    + rewrite E2, remove_nth_split, rows_app. cbn [app]. la.
Qed.

(* -- remove(keep_children=True): the children take the node's place, in order -- *)
Theorem remove_keep_effect t n t' :
  remove_keep t n = Some t' ->
  exists q0 i a s c o,
    node_loc n (forest_of t) = Some (q0, i, a ++ s :: c) /\ length a = i /\ rid s = n /\
    get_ch q0 (forest_of t') = Some (a ++ rch s ++ c) /\
    repl_rows ((o, n, rinfo s) :: rows n (rch s)) (rows o (rch s)) (rows 0 (forest_of t)) (rows 0 (forest_of t')).
Proof.
  unfold remove_keep. intros H.
  destruct (node_loc n (forest_of t)) as [[[q0 i] l]|] eqn:El; [|discriminate].
  destruct (nth_error l i) as [s|] eqn:En; [|discriminate].
  injection H as <-. cbn [forest_of set_all].
  destruct (node_loc_spec n _ q0 i l El) as (Hg & s' & Hs & Hr & _).
  rewrite En in Hs. injection Hs as <-.
  destruct (nth_error_split l i En) as (a & c & -> & L).
  set (o := owner q0 (forest_of t) 0).
  exists q0, i, a, s, c, o. refine (conj eq_refl (conj L (conj Hr (conj _ _)))).
  - rewrite (get_ch_upd_ch _ _ _ _ Hg). f_equal. subst i.
    change (match a ++ s :: c with [] => [] | _ :: l0 => skipn (length a) l0 end) with (skipn (S (length a)) (a ++ s :: c)).
    now rewrite firstn_mid, skipn_mid.
  - destruct (upd_ch_context q0 (forest_of t) 0 _ Hg) as (A & B & E1 & E2). fold o in E1, E2.
    exists (A ++ rows o a), (rows o c ++ B). split.
    + rewrite E1, rows_app, rows_cons, <- Hr. la.
    + rewrite E2. subst i.
      change (match a ++ s :: c with [] => [] | _ :: l0 => skipn (length a) l0 end) with (skipn (S (length a)) (a ++ s :: c)).
      rewrite firstn_mid, skipn_mid, !rows_app. la.
Qed.

(* -- remove_children() / clear() -- *)
Theorem remove_children_effect w ti n r w' :
  op_remove_children w ti n = (Ok r, w') ->
  exists t t' pq ch,
    get_tree w ti = Some t /\ get_tree w' ti = Some t' /\
    parent_path n (forest_of t) = Some pq /\ get_ch pq (forest_of t) = Some ch /\
    get_ch pq (forest_of t') = Some [] /\
    repl_rows (rows n ch) [] (rows 0 (forest_of t)) (rows 0 (forest_of t')) /\
    (forall tj, tj <> ti -> get_tree w' tj = get_tree w tj).
Proof.
  unfold op_remove_children. intros H.
  destruct (get_tree w ti) as [t|] eqn:Et; [|discriminate].
  destruct (parent_path n (forest_of t)) as [pq|] eqn:Ep; [|discriminate].
  destruct (get_ch pq (forest_of t)) as [ch|] eqn:Ec; [|discriminate].
  destruct (unregister_all (pre_f ch) (reg t) (idx t)) as [r' ix'] eqn:Eu.
  injection H as <- <-.
  eexists t, _, pq, ch.
  split; [first [reflexivity|exact Et]|]. split; [exact (get_put_same _ _ t _ Et)|].
  split; [first [reflexivity|exact Ep]|]. split; [first [reflexivity|exact Ec]|]. split; [|split].
  - cbn [forest_of set_all]. now rewrite (get_ch_upd_ch _ _ _ _ Ec).
  - cbn [forest_of set_all].
    destruct (upd_ch_context pq (forest_of t) 0 ch Ec) as (A & B & E1 & E2).
    rewrite (parent_path_owner n _ pq ch Ep Ec) in E1, E2.
    exists A, B. split; [exact E1|]. rewrite E2. reflexivity.
  - intros tj Hj. rewrite get_put_other by congruence. reflexivity.
Qed.

Corollary clear_effect w ti r w' :
  op_clear w ti = (Ok r, w') ->
  exists t t', get_tree w ti = Some t /\ get_tree w' ti = Some t' /\ forest_of t' = [] /\
               (forall tj, tj <> ti -> get_tree w' tj = get_tree w tj).
Proof.
  unfold op_clear. intros H.
  destruct (remove_children_effect w ti 0 r w' H) as (t & t' & pq & ch & E1 & E2 & E3 & E4 & E5 & _ & E7).
  exists t, t'. repeat split; auto. unfold parent_path in E3. cbn in E3. injection E3 as <-. cbn in E5. now injection E5.
Qed.

(* -- metadata / data of one node: exactly one row changes its payload -- *)
Theorem set_info_effect n g f :
  In n (ids f) ->
  exists A B o s, rows 0 f = A ++ (o, n, rinfo s) :: B /\ rid s = n /\
                  rows 0 (set_info_at n g f) = A ++ (o, n, g (rinfo s)) :: B.
Proof.
  intros Hin. unfold set_info_at.
  destruct (get_node_complete n f Hin) as (s & Hs).
  destruct (get_node_loc n f s Hs) as (q0 & i & l & El & En).
  rewrite El. destruct (node_loc_spec n f q0 i l El) as (Hg & s' & Hs' & Hr & _).
  rewrite En in Hs'. injection Hs' as <-.
  destruct (upd_ch_context q0 f 0 l Hg) as (A & B & E1 & E2).
  destruct (nth_error_split l i En) as (a & c & -> & L).
  set (o := owner q0 f 0) in *.
  exists (A ++ rows o a), (rows (rid s) (rch s) ++ rows o c ++ B), o, s. refine (conj _ (conj Hr _)).
  - rewrite E1, rows_app, rows_cons, Hr. la.
  - rewrite E2. subst i. rewrite upd_nth_split, rows_app. cbn [flat_map]. destruct s as [id inf ch].
    cbn [rows_t rid rinfo rch] in *. subst id. la.
Qed.

(* ------------------------------------------------------------------ *)
(* Part 4: sorting *)

Definition key_le (k : keyt) (x y : rt) : Prop :=
  match key_of k (rid x), key_of k (rid y) with
  | Some a, Some b => text_leb a b = true
  | _, _ => True
  end.

Lemma ins_sorted_perm k x : forall l, Permutation (ins_sorted k x l) (x :: l).
Proof.
  induction l as [|y l IH]; [reflexivity|]. cbn [ins_sorted].
  destruct (key_of k (rid x)) as [kx|]; [|reflexivity].
  destruct (key_of k (rid y)) as [ky|]; [|reflexivity].
  destruct (text_leb kx ky); [reflexivity|].
  rewrite IH. apply perm_swap.
Qed.

Theorem isort_perm k l : Permutation (isort k l) l.
Proof.
  induction l as [|x l IH]; [reflexivity|]. cbn [isort fold_right].
  fold (isort k l). rewrite ins_sorted_perm. now constructor.
Qed.

Theorem py_sort_perm k rv l : Permutation (py_sort k rv l) l.
Proof.
  unfold py_sort. destruct rv; [|apply isort_perm].
  rewrite <- Permutation_rev, isort_perm. symmetry. apply Permutation_rev.
Qed.
