(* Heap refinement: del tree[key], the four shortcuts *)
From Coq Require Import List ZArith Bool Arith Lia Permutation.
From NT Require Import Sx Rose ListFacts RoseFacts Surgery SurgeryFacts Machine WF MachineFacts PreserveSteps PreserveOps
  PreserveKeepClones Refusal Heap HeapProofs HeapRemove HeapMove.
Import ListNotations.

Lemma getitem_agree h t k : WF t -> Rep h t -> h_getitem h k = getitem t k.
Proof.
  intros W R. unfold h_getitem, getitem. rewrite (rep_idx h t R), (rep_calc h t R).
  destruct k as [n|e fb|d a]; [|reflexivity|reflexivity]. now rewrite (live_agree h t n W R).
Qed.

Theorem sim_op_del hw w ti k : WFw w -> RepW hw w -> Sim (h_op_del hw ti k) (op_del w ti k).
Proof.
  intros W RW. unfold h_op_del, op_del. assert (G := RepW_get hw w ti RW).
  destruct (h_get hw ti) as [h|]; destruct (get_tree w ti) as [t|] eqn:Gt; try contradiction; [|now apply Sim_same].
  rewrite (getitem_agree h t k (WFw_tree w ti t W Gt) G).
  destruct (getitem t k) as [[|n [|m l]]|]; try (now apply Sim_same). now apply sim_op_remove_plain.
Qed.

Lemma next_after_mid a n b : ~ In n a -> next_after n (a ++ n :: b) = hd_error b.
Proof.
  induction a as [|x a IH]; intros H; cbn.
  - now rewrite Nat.eqb_refl.
  - replace (Nat.eqb x n) with false by (symmetry; apply Nat.eqb_neq; intros ->; apply H; now left). apply IH. intros Y. apply H. now right.
Qed.

Theorem sim_op_shortcut hw w ti n how d e k : WFw w -> RepW hw w ->
  Sim (h_op_shortcut hw ti n how d e k) (op_shortcut w ti n how d e k).
Proof.
  intros W RW. unfold h_op_shortcut, op_shortcut. assert (G := RepW_get hw w ti RW).
  destruct (h_get hw ti) as [h|]; destruct (get_tree w ti) as [t|] eqn:Gt; try contradiction; [|now apply Sim_same].
  assert (Wt := WFw_tree w ti t W Gt). set (f := forest_of t).
  assert (ND := wf_nodup t Wt). assert (Z := wf_pos t Wt). fold f in ND, Z.
  destruct how.
  - now apply sim_op_add.
  - (* prepend_child *)
    assert (Pl := h_plive_path h t n Wt G). fold f in Pl. unfold children_of.
    destruct (parent_path n f) as [pq|] eqn:Gp.
    2:{ replace (h_plive h n) with false; [now apply Sim_same|]. destruct (h_plive h n); [|reflexivity].
        destruct (proj1 Pl eq_refl) as (pq & X). discriminate. }
    replace (h_plive h n) with true by (symmetry; apply Pl; now exists pq). cbn [negb].
    destruct (parent_path_get n f pq Gp) as (ch & Gc). rewrite Gc, (rep_children h t n pq ch Wt G Gp Gc).
    destruct ch as [|c ch]; cbn [map]; now apply sim_op_add.
  - (* prepend_sibling *)
    assert (Ln := h_live_ids h t n Wt G). fold f in Ln.
    destruct (get_node n f) as [s|] eqn:Gn.
    2:{ replace (h_live h n) with false.
        - destruct (parent_of n f); now apply Sim_same.
        - destruct (h_live h n); [|reflexivity]. destruct (get_node_complete n f (proj1 Ln eq_refl)) as (s & X). congruence. }
    destruct (get_node_spec n f s Gn) as (Ps & Rs).
    assert (Hn : In n (ids f)) by (rewrite <- Rs; unfold ids; now apply in_map).
    replace (h_live h n) with true by (symmetry; now apply Ln). cbn [negb].
    destruct (row_of_node f 0 s Ps) as ([[p n'] inf] & Hr & En & Ei). cbn in En, Ei. rewrite Rs in En. subst n'.
    destruct (rep_node h t G _ Hr) as (Hp & _). cbn [r_id r_par fst snd] in Hp. rewrite Hp.
    assert (Pof : parent_of n f = Some p) by (apply parent_of_rows; [assumption|now exists inf]). rewrite Pof.
    rewrite (rep_typed h t G). replace (i_kind (hinf h n)) with (rkind s) by (unfold rkind; rewrite <- Rs, (rep_info h t s G Ps); reflexivity).
    now apply sim_op_add.
  - (* append_sibling *)
    assert (Ln := h_live_ids h t n Wt G). fold f in Ln.
    destruct (get_node n f) as [s|] eqn:Gn.
    2:{ replace (h_live h n) with false.
        - destruct (parent_of n f); [destruct (node_loc n f) as [[[q0 i] l]|]|]; now apply Sim_same.
        - destruct (h_live h n); [|reflexivity]. destruct (get_node_complete n f (proj1 Ln eq_refl)) as (s & X). congruence. }
    destruct (get_node_spec n f s Gn) as (Ps & Rs).
    replace (h_live h n) with true by (symmetry; apply Ln; rewrite <- Rs; unfold ids; now apply in_map). cbn [negb].
    destruct (row_of_node f 0 s Ps) as ([[p n'] inf] & Hr & En & Ei). cbn in En, Ei. rewrite Rs in En. subst n'.
    destruct (rep_node h t G _ Hr) as (Hp & _). cbn [r_id r_par fst snd] in Hp. rewrite Hp.
    assert (Pof : parent_of n f = Some p) by (apply parent_of_rows; [assumption|now exists inf]). rewrite Pof.
    destruct (get_node_loc n f s Gn) as (q0 & i & l & E & N). rewrite E.
    destruct (node_loc_spec n f q0 i l E) as (Gc & _).
    destruct (nth_error_split l i N) as (a & b & -> & <-).
    assert (Row := rows_child_in q0 f _ 0 s Gc (nth_error_In _ _ N)). rewrite Rs in Row.
    assert (Eo := rows_id_unique f 0 _ _ ND Hr Row eq_refl). injection Eo as Eo _.
    assert (Hl : hch h p = map rid (a ++ s :: b)) by (rewrite Eo; now apply (rep_children_ctx h t q0)).
    assert (Na : ~ In n (map rid a)).
    { assert (NLs := NoDup_child_list q0 f _ ND Gc). rewrite ids_mid in NLs. intros Y.
      apply (NoDup_app_disj _ _ n NLs); [now apply incl_top_ids|apply in_or_app; left; rewrite ids_t_unfold; now left]. }
    rewrite Hl, map_app. cbn [map]. rewrite Rs, (next_after_mid _ n _ Na), nth_error_app_S_len.
    rewrite (rep_typed h t G). replace (i_kind (hinf h n)) with (rkind s) by (unfold rkind; rewrite <- Rs, (rep_info h t s G Ps); reflexivity).
    destruct b as [|nx b]; cbn [map hd_error]; now apply sim_op_add.
Qed.
