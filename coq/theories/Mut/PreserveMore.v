(* Layer (c): clear, del, in-place filter, from_dict *)
From Coq Require Import List ZArith Bool Arith Lia Permutation.
From NT Require Import Sx Rose ListFacts RoseFacts Surgery SurgeryFacts Machine WF MachineFacts PreserveSteps PreserveOps.
Import ListNotations.

Lemma PreserveCopy_WFx_new_empty w ty c : WFw w -> WFx w (W (trees w ++ [TS [] [] [] ty c]) (next w)).
Proof.
  intros H. split; [apply (WFw_new_tree w ty c H)|]. split; [cbn; lia|]. intros m Hm. left.
  unfold all_ids in *. cbn [trees] in Hm. rewrite flat_map_app in Hm. cbn in Hm. now rewrite app_nil_r in Hm.
Qed.

Theorem WFx_op_clear w ti : WFw w -> WFx w (snd (op_clear w ti)).
Proof. apply WFx_op_remove_children. Qed.

Theorem WFw_op_clear w ti : WFw w -> WFw (snd (op_clear w ti)).
Proof. intros H0. exact (proj1 (WFx_op_clear w ti H0)). Qed.


Theorem WFx_op_del w ti k : WFw w -> WFx w (snd (op_del w ti k)).
Proof.
  intros H. unfold op_del. destruct (get_tree w ti) as [t|]; [|exact (WFx_refl w H)].
  destruct (getitem t k) as [[|n [|m l]]|]; try exact (WFx_refl w H). now apply WFx_op_remove.
Qed.

Theorem WFw_op_del w ti k : WFw w -> WFw (snd (op_del w ti k)).
Proof. intros H0. exact (proj1 (WFx_op_del w ti k H0)). Qed.


(* ---- in-place filter: a sequence of branch removals / remove_children ---- *)
Lemma WF_remove_kids t n t' : WF t -> remove_kids t n = Some t' ->
  WF t' /\ incl (ids (forest_of t')) (ids (forest_of t)).
Proof.
  intros H. unfold remove_kids. destruct (parent_path n (forest_of t)) as [pq|]; [|discriminate].
  destruct (get_ch pq (forest_of t)) as [ch|] eqn:G; [|discriminate].
  rewrite unregister_all_eq. intros X. injection X as <-.
  assert (G' : get_ch pq (forest_of t) = Some ([] ++ ch ++ [])) by (now rewrite app_nil_r).
  destruct (WF_cut t pq [] ch [] H G') as (W1 & W2). cbn [app] in W1, W2. split; [exact W1|].
  intros m Hm. apply (Permutation_in _ (Permutation_sym W2)). apply in_or_app. now right.
Qed.

Lemma WF_apply_fact t a : WF t -> WF (apply_fact t a) /\ incl (ids (forest_of (apply_fact t a))) (ids (forest_of t)).
Proof.
  intros H. destruct a as [n|n]; cbn [apply_fact].
  - destruct (remove_branch t n) as [t'|] eqn:E; [|split; [assumption|apply incl_refl]].
    destruct (WF_remove_branch t n t' H E) as (W' & s & _ & _ & P). split; [assumption|].
    intros m Hm. apply (Permutation_in _ (Permutation_sym P)). apply in_or_app. now right.
  - destruct (remove_kids t n) as [t'|] eqn:E; [|split; [assumption|apply incl_refl]].
    now apply (WF_remove_kids t n).
Qed.

Lemma WF_apply_facts acts : forall t, WF t ->
  WF (fold_left apply_fact acts t) /\ incl (ids (forest_of (fold_left apply_fact acts t))) (ids (forest_of t)).
Proof.
  induction acts as [|a acts IH]; intros t H; cbn [fold_left]; [split; [assumption|apply incl_refl]|].
  destruct (WF_apply_fact t a H) as (W1 & I1). destruct (IH _ W1) as (W2 & I2). split; [assumption|].
  intros m Hm. apply I1. now apply I2.
Qed.

Theorem WFx_op_filter w ti n vd : WFw w -> WFx w (snd (op_filter w ti n vd)).
Proof.
  intros H. unfold op_filter. destruct (get_tree w ti) as [t|] eqn:Gt; [|exact (WFx_refl w H)].
  destruct (children_of n (forest_of t)) as [ch|]; [|exact (WFx_refl w H)].
  destruct (fvisit vd (T 0 dummy_info ch) false) as [[[must acts] stopped] failed]. cbn [snd]. unfold put_tree.
  destruct (WF_apply_facts acts t (WFw_tree w ti t H Gt)) as (W' & I').
  apply (WFx_put w ti t); auto.
Qed.

Theorem WFw_op_filter w ti n vd : WFw w -> WFw (snd (op_filter w ti n vd)).
Proof. intros H0. exact (proj1 (WFx_op_filter w ti n vd H0)). Qed.


(* ---- from_dict: a sequence of add_child(data); a refusal drops what was built ---- *)
Lemma from_dict_spec :
  forall it ti p w, WFw w -> WFx w (snd (from_dict_item ti p it w)).
Proof.
  fix IH 1. intros [d e ch] ti p w H. cbn [from_dict_item].
  assert (X := WFx_op_add w ti p d e None BNone H).
  destruct (op_add w ti p d e None BNone) as [[[|n [|n2 r]]|err] w1]; cbn [snd] in *; try exact X.
  revert w1 X. induction ch as [|x l IHl]; intros w1 X; [exact X|].
  assert (X2 := IH x ti n w1 (proj1 X)).
  destruct (from_dict_item ti n x w1) as [[r2|e2] w2]; cbn [snd] in *; [|exact (WFx_trans _ _ _ X X2)].
  apply IHl. exact (WFx_trans _ _ _ X X2).
Qed.

Lemma from_dict_items_spec l : forall ti p w, WFw w -> WFx w (snd (from_dict_items ti p l w)).
Proof.
  induction l as [|x l IH]; intros ti p w H; cbn [from_dict_items]; [exact (WFx_refl w H)|].
  assert (X := from_dict_spec x ti p w H).
  destruct (from_dict_item ti p x w) as [[r|e] w2]; cbn [snd] in *; [|exact X].
  exact (WFx_trans _ _ _ X (IH ti p w2 (proj1 X))).
Qed.

Lemma WFw_next_up w nx : WFw w -> next w <= nx -> WFw (W (trees w) nx).
Proof. intros H L. exact (proj1 (WFx_W w nx H L)). Qed.

Theorem WFx_op_from_dict w ti p items : WFw w -> WFx w (snd (op_from_dict w ti p items)).
Proof.
  intros H. unfold op_from_dict. destruct (get_tree w ti) as [t|]; [|exact (WFx_refl w H)].
  destruct (children_of p (forest_of t)) as [[|c l]|]; try exact (WFx_refl w H).
  assert (X := from_dict_items_spec items ti p w H).
  destruct (from_dict_items ti p items w) as [[r|e] w1]; cbn [snd] in *; [assumption|]. apply WFx_W; [assumption|apply X].
Qed.

Theorem WFw_op_from_dict w ti p items : WFw w -> WFw (snd (op_from_dict w ti p items)).
Proof. intros H. exact (proj1 (WFx_op_from_dict w ti p items H)). Qed.

Theorem WFx_op_tree_from_dict w items : WFw w -> WFx w (snd (op_tree_from_dict w items)).
Proof.
  intros H. unfold op_tree_from_dict.
  assert (H0 : WFx w (W (trees w ++ [TS [] [] [] false None]) (next w))).
  { apply PreserveCopy_WFx_new_empty. exact H. }
  assert (X := from_dict_items_spec items (length (trees w)) 0 _ (proj1 H0)).
  destruct (from_dict_items (length (trees w)) 0 items _) as [[r|e] w1]; cbn [snd next] in *; [exact (WFx_trans _ _ _ H0 X)|].
  apply WFx_W; [assumption|]. destruct X as (_ & L & _). cbn [next] in L. exact L.
Qed.

Theorem WFw_op_tree_from_dict w items : WFw w -> WFw (snd (op_tree_from_dict w items)).
Proof. intros H. exact (proj1 (WFx_op_tree_from_dict w items H)). Qed.
