(* Heap refinement: remove(keep_children=True), with and without clones *)
From Coq Require Import List ZArith Bool Arith Lia Permutation.
From NT Require Import Sx Rose ListFacts RoseFacts Surgery SurgeryFacts Machine WF MachineFacts PreserveSteps PreserveOps
  PreserveRelabel PreserveKeepClones RowsSU Heap HeapProofs HeapRemove HeapMove.
Import ListNotations.

Lemma kids_rows_owner q o o' l : q <> o -> q <> o' -> kids q (rows o l) = kids q (rows o' l).
Proof.
  intros N1 N2. induction l as [|x l IH]; [reflexivity|]. cbn [flat_map]. rewrite !kids_app, IH. f_equal. now apply kids_block_owner.
Qed.

Lemma splice_n_mid a n kids b : ~ In n a -> splice_n n kids (a ++ n :: b) = a ++ kids ++ b.
Proof.
  induction a as [|x a IH]; intros H; cbn.
  - now rewrite Nat.eqb_refl.
  - replace (Nat.eqb x n) with false by (symmetry; apply Nat.eqb_neq; intros ->; apply H; now left). rewrite IH; [reflexivity|]. intros Y. apply H. now right.
Qed.

Lemma set_par_fold p : forall kids h,
  let h' := fold_left (fun a c => set_par a c (Some p)) kids h in
  hch h' = hch h /\ htr h' = htr h /\ hinf h' = hinf h /\ hall h' = hall h /\ hreg h' = hreg h /\ hidx h' = hidx h /\
  htyped h' = htyped h /\ hcalc h' = hcalc h /\ (forall x, hpar h' x = if memn x kids then Some p else hpar h x).
Proof.
  induction kids as [|c kids IH]; intros h; cbn [fold_left]; [repeat split; reflexivity|].
  destruct (IH (set_par h c (Some p))) as (I1 & I2 & I3 & I4 & I5 & I6 & I7 & I8 & I9). cbn [set_par hch htr hinf hall hreg hidx htyped hcalc hpar] in *.
  refine (conj I1 (conj I2 (conj I3 (conj I4 (conj I5 (conj I6 (conj I7 (conj I8 _)))))))).
  intros x. rewrite I9. cbn [memn existsb]. unfold upd. rewrite (Nat.eqb_sym x c). destruct (Nat.eqb c x) eqn:E; cbn [orb]; [|reflexivity].
  apply Nat.eqb_eq in E. subst. now destruct (memn x kids).
Qed.


(* the rows of a child list under another owner *)
Definition reparent (o o' : nat) (r : row) : row := if Nat.eqb (r_par r) o then (o', r_id r, r_info r) else r.

Lemma rows_reparent o o' : forall l, ~ In o (ids l) -> rows o' l = map (reparent o o') (rows o l).
Proof.
  induction l as [|x l IH]; intros H; [reflexivity|]. rewrite ids_cons in H. rewrite !rows_cons. cbn [map].
  unfold reparent at 1. cbn [r_par r_id r_info fst snd]. rewrite Nat.eqb_refl. f_equal. rewrite map_app. f_equal.
  - transitivity (map (fun r => r) (rows (rid x) (rch x))); [now rewrite map_id|]. apply map_ext_in. intros r Hr. unfold reparent.
    replace (Nat.eqb (r_par r) o) with false; [reflexivity|]. symmetry. apply Nat.eqb_neq. intros E. apply rows_par in Hr. apply H.
    rewrite <- E. destruct Hr as [->|Hr]; [now left|right; apply in_or_app; now left].
  - apply IH. intros Y. apply H. right. apply in_or_app. now right.
Qed.

Lemma kids_reparent q o o' R : q <> o -> q <> o' -> kids q (map (reparent o o') R) = kids q R.
Proof.
  intros N1 N2. induction R as [|r R IH]; [reflexivity|]. cbn [map]. rewrite !kids_cons, IH. f_equal. unfold reparent.
  destruct (Nat.eqb (r_par r) o) eqn:E; [|reflexivity]. apply Nat.eqb_eq in E. cbn [r_par r_id fst snd]. rewrite E.
  replace (Nat.eqb o' q) with false by (symmetry; apply Nat.eqb_neq; congruence).
  replace (Nat.eqb o q) with false by (symmetry; apply Nat.eqb_neq; congruence). reflexivity.
Qed.

(* SUB-STEP: a node is replaced by its children *)
Lemma Rep_splice h t q0 a s b : WF t -> Rep h t -> get_ch q0 (forest_of t) = Some (a ++ s :: b) ->
  Rep (h_remove_keep h (rid s))
      (set_all t (upd_ch q0 (fun _ => a ++ rch s ++ b) (forest_of t)) (reg_del (rid s) (reg t)) (idx_del (rdid s) (rid s) (idx t))).
Proof.
  intros W R G. set (f := forest_of t) in *. set (n := rid s). set (p := owner q0 f 0).
  assert (ND := wf_nodup t W). assert (Z := wf_pos t W). fold f in ND, Z.
  destruct (ctx_kids q0 f 0 _ ND Z G) as (A & B & E1 & E2 & E3 & E4 & E5). fold p in E1, E2, E3, E4.
  assert (E2c := E2 (fun _ => a ++ b)). specialize (E2 (fun _ => a ++ rch s ++ b)). cbn beta in E2, E2c.
  set (f' := upd_ch q0 (fun _ => a ++ rch s ++ b) f) in *. set (fc := upd_ch q0 (fun _ => a ++ b) f) in *.
  assert (Hs : In s (a ++ s :: b)) by (apply in_or_app; right; now left).
  assert (Ps : In s (pre_f f)) by (apply (get_ch_pre q0 f _ G); now apply in_pre_f_top).
  assert (Row := rows_child_in q0 f _ 0 s G Hs). fold p n in Row.
  destruct (rep_node h t R _ Row) as (Hp & _). cbn [r_id r_par fst snd] in Hp.
  assert (Hn : hch h n = map rid (rch s)) by (now apply (rep_node_children h t s W R)).
  assert (Hpl : hch h p = map rid (a ++ s :: b)) by (now apply (rep_children_ctx h t q0)).
  assert (NLs := NoDup_child_list q0 f _ ND G). rewrite ids_mid in NLs.
  assert (Na : ~ In n (map rid a)).
  { intros Y. apply (NoDup_app_disj _ _ n NLs); [now apply incl_top_ids|apply in_or_app; left; rewrite ids_t_unfold; now left]. }
  assert (NDs := NoDup_ids_sub f s ND Ps). rewrite ids_t_unfold in NDs. fold n in NDs. inversion NDs as [|y ys Nn NDc]; subst y ys.
  assert (InS : forall x, In x (ids_t s) -> In x (ids (a ++ s :: b))) by (intros x Hx; rewrite ids_mid; apply in_or_app; right; apply in_or_app; now left).
  assert (Pn : p <> n) by (intros E; apply E4, InS; rewrite ids_t_unfold; left; now rewrite E).
  assert (Pc : ~ In p (ids (rch s))) by (intros Y; apply E4, InS; rewrite ids_t_unfold; now right).
  (* the cut forest: everything outside the spliced node *)
  destruct (WF_cut t q0 a [s] b W G) as (Wc & Pic). cbn [forest_of set_all] in Pic. fold f fc in Pic. rewrite ids_single in Pic.
  assert (NDx : NoDup (ids_t s ++ ids fc)) by (apply (Permutation_NoDup Pic ND)).
  assert (IdO : forall r, In r (rows 0 fc) -> ~ In (r_id r) (ids_t s)).
  { intros r Hr Y. apply (NoDup_app_disj _ _ _ NDx Y). now apply (rows_id_in fc 0). }
  assert (ParO : forall r, In r (rows 0 fc) -> ~ In (r_par r) (ids_t s)).
  { intros r Hr Y. destruct (rows_parent_in fc 0 r Hr) as [E|E]; [apply Z, E5, InS; now rewrite <- E|apply (NoDup_app_disj _ _ _ NDx Y E)]. }
  rewrite flat_map_in_split, rows_t_unfold in E1. fold n in E1. rewrite !rows_app in E2. rewrite rows_app in E2c.
  rewrite (rows_reparent n p (rch s) Nn) in E2.
  set (I := rows n (rch s)) in *.
  assert (SubO : forall r, In r (rows 0 fc) -> In r (rows 0 f)).
  { intros r. rewrite E1, E2c, !in_app_iff. cbn [In]. repeat rewrite in_app_iff. tauto. }
  assert (SubI : forall r, In r I -> In r (rows 0 f)).
  { intros r Hr. rewrite E1, !in_app_iff. cbn [In]. repeat rewrite in_app_iff. tauto. }
  assert (Cases : forall r', In r' (rows 0 f') -> In r' (rows 0 fc) \/ exists r, In r I /\ r' = reparent n p r).
  { intros r'. rewrite E2, E2c, !in_app_iff, in_map_iff. intros [X|[[X|[(r & Er & Hr)|X]]|X]]; auto 6. right. now exists r. }
  assert (IdI : forall r, In r I -> In (r_id r) (ids (rch s))) by (intros r Hr; now apply (rows_id_in (rch s) n)).
  assert (TopI : forall r, In r I -> (r_par r = n <-> In (r_id r) (map rid (rch s)))).
  { intros r Hr. split.
    - intros Ep. destruct r as [[q c] inf]. cbn in Ep. subst q. destruct (rows_owner_top (rch s) n _ Nn Hr eq_refl) as (x & Hx & Rx & _).
      cbn [r_id fst snd] in *. rewrite <- Rx. now apply in_map.
    - intros Y. apply in_map_iff in Y. destruct Y as (c & Rc & Hc). assert (Top : In (n, rid c, rinfo c) I) by (now apply rows_top).
      assert (X := rows_id_unique f 0 _ _ ND (SubI r Hr) (SubI _ Top) (eq_sym Rc)). now rewrite X. }
  unfold h_remove_keep. fold n. rewrite Hp, Hn.
  destruct (set_par_fold p (map rid (rch s)) h) as (F1 & F2 & F3 & F4 & F5 & F6 & F7 & F8 & F9).
  set (h1 := fold_left (fun a0 c => set_par a0 c (Some p)) (map rid (rch s)) h) in *.
  constructor; cbn [set_all forest_of reg idx typed calc h_unregister set_regidx set_chl set_par set_tr hreg hidx htyped hcalc hch hpar htr hinf hall]; fold f f'.
  - rewrite F5. now rewrite (rep_reg h t R).
  - unfold hdid. cbn [set_chl hinf]. rewrite F3, F6, (rep_idx h t R). unfold n, rdid. now rewrite (rep_info h t s R Ps).
  - rewrite F7. apply R.
  - rewrite F8. apply R.
  - intros q. unfold upd at 1. destruct (Nat.eqb q n) eqn:Eqn.
    + apply Nat.eqb_eq in Eqn. subst q. symmetry. apply kids_none. intros r' Hr' Ep.
      destruct (Cases r' Hr') as [C|(r & Hr & ->)].
      * apply (ParO r' C). rewrite Ep, ids_t_unfold. now left.
      * unfold reparent in Ep. destruct (Nat.eqb (r_par r) n) eqn:En; [cbn in Ep; congruence|]. apply Nat.eqb_neq in En. contradiction.
    + apply Nat.eqb_neq in Eqn. rewrite !(upd_neq _ n [] q Eqn). unfold upd. destruct (Nat.eqb q p) eqn:Eqp.
      * apply Nat.eqb_eq in Eqp. subst q. rewrite F1, Hpl, map_app. cbn [map]. fold n. rewrite (splice_n_mid _ n _ _ Na).
        rewrite E2. unfold I. rewrite <- (rows_reparent n p (rch s) Nn), <- !rows_app, !kids_app.
        rewrite (kids_none p A), (kids_none p B), app_nil_r; try (intros r Hr; apply E3; apply in_or_app; tauto). cbn [app].
        rewrite kids_top; [now rewrite !map_app|]. rewrite !ids_app. intros Y. apply in_app_or in Y. destruct Y as [Y|Y].
        -- apply E4. rewrite ids_mid. apply in_or_app. now left.
        -- apply in_app_or in Y. destruct Y as [Y|Y]; [contradiction|]. apply E4. rewrite ids_mid. apply in_or_app. right. apply in_or_app. now right.
      * apply Nat.eqb_neq in Eqp. rewrite F1, (rep_ch h t R q). fold f.
        rewrite E1, E2, !kids_app, kids_cons. cbn [r_par fst snd]. replace (Nat.eqb p q) with false by (symmetry; apply Nat.eqb_neq; congruence). cbn [app].
        now rewrite (kids_reparent q n p I Eqn Eqp).
  - intros r' Hr'. destruct (Cases r' Hr') as [C|(r & Hr & ->)].
    + assert (Nr : r_id r' <> n) by (intros E; apply (IdO r' C); rewrite E, ids_t_unfold; now left).
      rewrite !(upd_neq _ n _ _ Nr), F9, F2, F3.
      replace (memn (r_id r') (map rid (rch s))) with false; [apply (rep_node h t R); now apply SubO|].
      symmetry. apply memn_false. intros Y. apply (IdO r' C). rewrite ids_t_unfold. right. now apply incl_top_ids.
    + assert (Nr : r_id r <> n) by (intros E; apply Nn; rewrite <- E; now apply IdI).
      destruct (rep_node h t R r (SubI r Hr)) as (O1 & O2 & O3).
      unfold reparent. destruct (Nat.eqb (r_par r) n) eqn:En; cbn [r_id r_par r_info fst snd]; rewrite !(upd_neq _ n _ _ Nr), F9, F2, F3.
      * apply Nat.eqb_eq in En. replace (memn (r_id r) (map rid (rch s))) with true by (symmetry; apply memn_In; now apply (TopI r Hr)). now repeat split.
      * apply Nat.eqb_neq in En. replace (memn (r_id r) (map rid (rch s))) with false; [now repeat split|].
        symmetry. apply memn_false. intros Y. apply En. now apply (TopI r Hr).
  - assert (N0 : 0 <> n) by (intros E; apply Z; rewrite E; unfold ids, n; now apply in_map).
    rewrite !(upd_neq _ n _ 0 N0), F9, F2. replace (memn 0 (map rid (rch s))) with false; [apply R|].
    symmetry. apply memn_false. intros Y. apply Z. apply E5, InS. rewrite ids_t_unfold. right. now apply incl_top_ids.
  - rewrite F4. intros m Hm. apply (rep_all h t R). fold f. rewrite <- (rows_ids f' 0) in Hm. apply in_map_iff in Hm. destruct Hm as (r' & <- & Hr').
    destruct (Cases r' Hr') as [C|(r & Hr & ->)]; [apply (rows_id_in f 0); now apply SubO|].
    unfold reparent. destruct (Nat.eqb (r_par r) n); cbn [r_id fst snd]; apply (rows_id_in f 0); now apply SubI.
Qed.

(* ---- Node._check_keep_children over the pointers = contraction of the sibling list ---- *)
Lemma memn_existsb c V : memn c V = existsb (Nat.eqb c) V.
Proof. reflexivity. Qed.

Lemma map_flat_map_l {X Y Z} (g : Y -> Z) (h : X -> list Y) l : map g (flat_map h l) = flat_map (fun x => map g (h x)) l.
Proof. induction l as [|x l IH]; [reflexivity|]. cbn. now rewrite map_app, IH. Qed.

Lemma h_kept_ok h V : forall fuel l x,
  hch h x = map rid l -> (forall s, In s (pre_f l) -> hch h (rid s) = map rid (rch s)) -> size_f l < fuel ->
  h_kept fuel h V x = map rid (flat_map (contract_t V) l).
Proof.
  induction fuel as [|fuel IH]; intros l x Hx Hs Lt; [lia|]. cbn [h_kept]. rewrite Hx, flat_map_map.
  rewrite map_flat_map_l. apply flat_map_ext_in'. intros c Hc.
  destruct (memn (rid c) V) eqn:M.
  - rewrite contract_t_in by (now apply memn_In). apply IH.
    + apply Hs. now apply in_pre_f_top.
    + intros s Hs'. apply Hs. apply in_flat_map. exists c. split; [assumption|]. rewrite pre_unfold. now right.
    + assert (size c <= size_f l).
      { clear -Hc. induction l as [|y l IHl]; [contradiction|]. rewrite size_f_cons. destruct Hc as [->|Hc]; [lia|]. specialize (IHl Hc). lia. }
      destruct c as [id i ch]. rewrite size_unfold in H. cbn [rch]. lia.
  - rewrite contract_t_out by (now apply memn_false). reflexivity.
Qed.

Lemma contract_sub V : (forall t x, In x (contract_t V t) -> In x (pre t)) /\
                       (forall l x, In x (flat_map (contract_t V) l) -> In x (pre_f l)).
Proof.
  apply rt_forest_ind.
  - intros id i ch IH x Hx. cbn [contract_t] in Hx. destruct (existsb (Nat.eqb id) V).
    + cbn [pre]. right. now apply IH.
    + destruct Hx as [<-|[]]. apply pre_in_self.
  - intros x [].
  - intros t f IHt IHf x Hx. cbn [flat_map] in *. apply in_app_or in Hx. apply in_or_app. destruct Hx; [left; now apply IHt|right; now apply IHf].
Qed.

Lemma keep_collides_agree h t V v : WF t -> Rep h t -> In v (ids (forest_of t)) ->
  h_keep_collides_all h V v = keep_collides_all t V v.
Proof.
  intros W R Hv. set (f := forest_of t) in *. unfold h_keep_collides_all, keep_collides_all. fold f.
  destruct (get_node_complete v f Hv) as (s & Gs). destruct (get_node_loc v f s Gs) as (q0 & i & l & E & N). rewrite E.
  destruct (node_loc_spec v f q0 i l E) as (G & s' & N' & Rs & _ & Ps). rewrite N in N'. injection N' as <-.
  assert (Row := rows_child_in q0 f l 0 s G (nth_error_In _ _ N)). rewrite Rs in Row.
  destruct (rep_node h t R _ Row) as (Hp & _). cbn [r_id r_par fst snd] in Hp. rewrite Hp.
  assert (Sub : forall x, In x (pre_f l) -> In x (pre_f f)) by (intros x Hx; now apply (get_ch_pre q0 f l G)).
  rewrite (h_kept_ok h V (h_fuel h) l).
  - rewrite map_map. f_equal. apply map_ext_in. intros x Hx. unfold hdid. rewrite (rep_info h t x R); [reflexivity|].
    apply Sub. now apply (proj2 (contract_sub V)).
  - now apply (rep_children_ctx h t q0).
  - intros x Hx. apply (rep_node_children h t x W R). now apply Sub.
  - apply (fuel_enough h t l W R); [now apply (NoDup_child_list q0 f l (wf_nodup t W))|now apply (ids_sub_child q0)].
Qed.

Lemma remove_keep_complete t v : In v (ids (forest_of t)) -> exists a, remove_keep t v = Some a.
Proof.
  intros Hv. destruct (get_node_complete v _ Hv) as (s & Gs). destruct (get_node_loc v _ s Gs) as (q0 & i & l & E & N).
  unfold remove_keep. rewrite E, N. eexists. reflexivity.
Qed.

Lemma fold_remove_keep V d : forall vs h t, incl vs V -> WF t -> Gall V (forest_of t) -> Vdid V d t -> Rep h t ->
  Rep (fold_left (fun acc v => if h_live acc v then (if true then h_remove_keep acc v else h_remove_plain acc v) else acc) vs h)
      (fold_left (fun acc v => if live acc v then match remove_one acc v true with Some a => a | None => acc end else acc) vs t).
Proof.
  induction vs as [|v vs IH]; intros h t Hi W Ga Hv R; cbn [fold_left]; [exact R|].
  assert (Hi' : incl vs V) by (intros x Hx; apply Hi; now right).
  rewrite (live_agree h t v W R). destruct (live t v) eqn:L; [|now apply IH]. cbn [remove_one].
  assert (Hin : In v (ids (forest_of t))).
  { unfold live in L. apply existsb_exists in L. destruct L as (m & Hm & E). apply Nat.eqb_eq in E. now subst. }
  destruct (remove_keep_complete t v Hin) as (t1 & E). rewrite E.
  destruct (remove_keep_spec t v t1 E) as (q0 & a & s & b & G & Rs & ->).
  assert (Is : In (rid s) V) by (rewrite Rs; apply Hi; now left).
  destruct (WF_splice t q0 a s b W G (keep_step V d t q0 a s b W Ga Hv Is G)) as (W1 & P). rewrite Rs in W1.
  assert (Pk := splice_keys q0 _ a s b G).
  assert (R1 := Rep_splice h t q0 a s b W R G). rewrite Rs in R1.
  set (t1 := set_all t (upd_ch q0 (fun _ => a ++ rch s ++ b) (forest_of t)) (reg_del v (reg t)) (idx_del (rdid s) v (idx t))) in *.
  apply IH; auto.
  - intros l' C'. destruct (proj2 (splice_dc V q0 _ a s b G Is) l' C') as (l0 & C0 & E0). rewrite E0. now apply Ga.
  - intros u Iu Hu. cbn [forest_of t1 set_all] in *.
    assert (Hu0 : In u (ids (forest_of t))) by (apply (Permutation_in _ (Permutation_sym P)); now right).
    assert (K := Hv u Iu Hu0). apply (Permutation_in _ Pk) in K. destruct K as [K|K]; [|assumption].
    exfalso. assert (Eu : rid s = u) by congruence. assert (NDu : NoDup (rid s :: ids (upd_ch q0 (fun _ => a ++ rch s ++ b) (forest_of t)))) by (apply (Permutation_NoDup P), W).
    inversion NDu as [|x l N1 N2]; subst. apply N1. exact Hu.
Qed.

Theorem sim_op_remove_keep hw w ti n wc : WFw w -> RepW hw w ->
  Sim (h_op_remove hw ti n true wc) (op_remove w ti n true wc).
Proof.
  intros W RW. unfold h_op_remove, op_remove. assert (G := RepW_get hw w ti RW).
  destruct (h_get hw ti) as [h|]; destruct (get_tree w ti) as [t|] eqn:Gt; try contradiction; [|now apply Sim_same].
  assert (Wt := WFw_tree w ti t W Gt). assert (D := did_of_agree h t n Wt G).
  destruct (did_of n (forest_of t)) as [d|] eqn:Dn.
  2:{ rewrite D. now apply Sim_same. }
  destruct D as (L & Ed). rewrite L, Ed, (rep_idx h t G). cbn [negb andb].
  set (V := if wc then filter (fun c => negb (Nat.eqb c n)) (idx_get d (idx t)) ++ [n] else [n]).
  assert (Kn : In (n, d) (keys (forest_of t))).
  { unfold did_of in Dn. destruct (get_node n (forest_of t)) as [s|] eqn:Gn; [|discriminate]. cbn in Dn. injection Dn as <-.
    destruct (get_node_spec n _ s Gn) as (Ps & <-). now apply keys_in. }
  assert (Hv : Vdid V d t).
  { intros u Iu _. unfold V in Iu. destruct wc.
    - apply in_app_or in Iu. destruct Iu as [Iu|[<-|[]]]; [|assumption]. apply filter_In in Iu. destruct Iu as [Iu _].
      now apply (idx_get_keys t u d Wt).
    - destruct Iu as [<-|[]]. assumption. }
  assert (Vl : forall u, In u V -> In u (ids (forest_of t))).
  { intros u Iu. assert (K := Hv u Iu). unfold V in Iu.
    assert (Ku : In (u, d) (keys (forest_of t))).
    { destruct wc; [apply in_app_or in Iu; destruct Iu as [Iu|[<-|[]]]; [|assumption]; apply filter_In in Iu; destruct Iu as [Iu _]; now apply (idx_get_keys t u d Wt)|destruct Iu as [<-|[]]; assumption]. }
    rewrite <- (keys_fst (forest_of t)). change u with (fst (u, d)). now apply in_map. }
  replace (existsb (h_keep_collides_all h V) V) with (existsb (keep_collides_all t V) V)
    by (apply existsb_ext_in'; intros u Iu; symmetry; apply keep_collides_agree; auto).
  destruct (existsb (keep_collides_all t V) V) eqn:Col; [now apply Sim_same|].
  split; [reflexivity|]. cbn [snd]. unfold h_put, put_tree. rewrite (repw_next hw w RW). apply RepW_put; [assumption|].
  apply (fold_remove_keep V d V h t (incl_refl V) Wt (Gall_init t V Wt (existsb_false_forall _ _ Col)) Hv G).
Qed.
