(* Heap refinement: the in-place filter.  The heap model interleaves the removals with the visit
   (as Node.filter does); the forest-level machine computes the action list on the initial value
   and applies it afterwards.  The proof shows that the visit reads every child list before any
   removal has touched it (removals only ever shrink child lists, and only inside the branch
   being processed). *)
From Coq Require Import List ZArith Bool Arith Lia Permutation.
From NT Require Import Sx Rose ListFacts RoseFacts Surgery SurgeryFacts Machine WF MachineFacts PreserveSteps PreserveOps
  PreserveMore PreserveKeepClones Heap HeapProofs HeapRemove HeapMove HeapSortDeep HeapRefine.
Import ListNotations.

(* ---- what removals do to child lists and to the registry (pointer level) ---- *)
Lemma reg_del_fold_in L : forall r z, In z (fold_left (fun r m => reg_del m r) L r) <-> In z r /\ ~ In z L.
Proof.
  induction L as [|m L IH]; intros r z; cbn [fold_left]; [cbn; tauto|].
  rewrite IH. unfold reg_del. rewrite filter_In, negb_true_iff, Nat.eqb_neq. cbn [In]. split.
  - intros [[H1 H2] H3]. split; [assumption|]. intros [E|E]; [congruence|contradiction].
  - intros [H1 H2]. split; [split; [assumption|]|]; intros E; apply H2; [left; congruence|now right].
Qed.

Lemma hch_remove_children h n q :
  hch (h_remove_children h n) q = if memn q (h_post (h_fuel h) h n) then [] else if Nat.eqb q n then [] else hch h q.
Proof.
  unfold h_remove_children. destruct (touch_fields (set_chl (fold_left h_unregister (h_post (h_fuel h) h n) h) n []) n) as (_ & T2 & _).
  rewrite T2. cbn [set_chl hch]. destruct (unreg_fold (h_post (h_fuel h) h n) h) as (_ & _ & _ & _ & _ & _ & I7 & _).
  unfold upd. destruct (Nat.eqb q n); [now destruct (memn q _)|apply I7].
Qed.

Lemma hreg_remove_children h n z :
  In z (hreg (h_remove_children h n)) <-> In z (hreg h) /\ ~ In z (h_post (h_fuel h) h n).
Proof.
  unfold h_remove_children. destruct (touch_fields (set_chl (fold_left h_unregister (h_post (h_fuel h) h n) h) n []) n) as (_ & _ & _ & _ & _ & T6 & _).
  rewrite T6. cbn [set_chl hreg]. destruct (unreg_fold (h_post (h_fuel h) h n) h) as (_ & _ & _ & _ & _ & _ & _ & I8 & _).
  rewrite I8. apply reg_del_fold_in.
Qed.

Lemma hch_remove_plain h m p q : hpar h m = Some p ->
  hch (h_remove_plain h m) q =
  if Nat.eqb q m then [] else if Nat.eqb q p then remove_first_n m (hch (h_remove_children h m) p) else hch (h_remove_children h m) q.
Proof.
  intros Hp. unfold h_remove_plain. rewrite Hp. cbn [h_unregister set_regidx set_chl set_par set_tr hch]. unfold upd.
  destruct (Nat.eqb q m); [reflexivity|]. now destruct (Nat.eqb q p).
Qed.

Lemma hreg_remove_plain h m p z : hpar h m = Some p ->
  In z (hreg (h_remove_plain h m)) <-> In z (hreg h) /\ z <> m /\ ~ In z (h_post (h_fuel h) h m).
Proof.
  intros Hp. unfold h_remove_plain. rewrite Hp. cbn [h_unregister set_regidx set_chl set_par set_tr hreg].
  unfold reg_del. rewrite filter_In, negb_true_iff, Nat.eqb_neq, hreg_remove_children. tauto.
Qed.

Lemma remove_first_n_incl n l : incl (remove_first_n n l) l.
Proof.
  induction l as [|x l IH]; [apply incl_refl|]. cbn. destruct (Nat.eqb x n); [intros y Hy; now right|].
  intros y [<-|Hy]; [now left|right; now apply IH].
Qed.

(* removals only shrink child lists *)
Lemma remove_children_mono h n q : incl (hch (h_remove_children h n) q) (hch h q).
Proof. rewrite hch_remove_children. destruct (memn q _); [intros y []|]. destruct (Nat.eqb q n); [intros y []|apply incl_refl]. Qed.

Lemma remove_plain_mono h m p q : hpar h m = Some p -> incl (hch (h_remove_plain h m) q) (hch h q).
Proof.
  intros Hp. rewrite (hch_remove_plain h m p q Hp). destruct (Nat.eqb q m); [intros y []|]. destruct (Nat.eqb q p) eqn:E.
  - apply Nat.eqb_eq in E. subst q. intros y Hy. apply remove_first_n_incl in Hy. now apply (remove_children_mono h m p).
  - apply remove_children_mono.
Qed.

(* everything a post-order walk below m can reach lies inside the original branch of m, as long as the
   child lists have only shrunk *)
Lemma post_incl h0 hh : (forall q, incl (hch hh q) (hch h0 q)) -> forall fuel m,
  SubCh h0 [m] -> incl (h_post fuel hh (rid m)) (ids (rch m)).
Proof.
  intros Mono. induction fuel as [|fuel IH]; intros m Sm; [intros y []|]. cbn [h_post]. intros y Hy.
  apply in_flat_map in Hy. destruct Hy as (c & Hc & Hy). apply Mono in Hc.
  rewrite (proj1 (SubCh_single h0 m) Sm m (pre_in_self m)) in Hc. apply in_map_iff in Hc. destruct Hc as (c' & <- & Hc').
  assert (Sc : SubCh h0 [c']).
  { apply SubCh_single. intros z Hz. apply (proj1 (SubCh_single h0 m) Sm). rewrite pre_unfold. right. apply in_flat_map. now exists c'. }
  assert (It : incl (ids_t c') (ids (rch m))).
  { intros z Hz. unfold ids_t in Hz. apply in_map_iff in Hz. destruct Hz as (w & <- & Hw). unfold ids. apply in_map. apply in_flat_map. now exists c'. }
  apply in_app_or in Hy. destruct Hy as [Hy|[<-|[]]].
  - apply It. rewrite ids_t_unfold. right. now apply (IH c' Sc).
  - apply It. rewrite ids_t_unfold. now left.
Qed.

(* ---- one action, on both levels ---- *)
Lemma fact_kids h t m : WF t -> Rep h t -> m = 0 \/ In m (ids (forest_of t)) ->
  WF (apply_fact t (FKids m)) /\ Rep (h_remove_children h m) (apply_fact t (FKids m)).
Proof.
  intros W R L. cbn [apply_fact]. destruct (proj2 (parent_path_live m (forest_of t)) L) as (pq & Gp).
  destruct (parent_path_get m _ pq Gp) as (ch & Gc).
  assert (E : remove_kids t m = Some (set_all t (upd_ch pq (fun _ => []) (forest_of t))
                 (fold_left (fun a s => reg_del (rid s) a) (pre_f ch) (reg t))
                 (fold_left (fun a s => idx_del (rdid s) (rid s) a) (pre_f ch) (idx t)))).
  { unfold remove_kids. now rewrite Gp, Gc, unregister_all_eq. }
  rewrite E. split; [apply (WF_remove_kids t m _ W E)|now apply Rep_remove_children].
Qed.

Lemma fact_branch h t m : WF t -> Rep h t -> In m (ids (forest_of t)) ->
  WF (apply_fact t (FBranch m)) /\ Rep (h_remove_plain h m) (apply_fact t (FBranch m)).
Proof.
  intros W R L. cbn [apply_fact]. destruct (remove_branch_complete' t m L) as (a & E). rewrite E.
  split; [apply (WF_remove_branch t m a W E)|now apply (Rep_remove_plain h t m a)].
Qed.

(* ---- the loop of _visit as a recursion over the (snapshot of the) child list ---- *)
Fixpoint h_go (f : nat) (vd : verdicts) (l : list nat) (hh : hstate) (s : bool) (pend : list nat) (must : bool)
  : bool * list nat * hstate * bool * bool :=
  match l with
  | [] => (must, pend, hh, s, false)
  | n :: l' =>
      match (if s then VSkip else verdict_of vd n) with
      | VRaise => (must, pend, hh, s, true)
      | VStop => h_go f vd l' hh true (pend ++ [n]) must
      | VSkip => h_go f vd l' hh s (pend ++ [n]) must
      | VSkipKeep => h_go f vd l' (h_remove_children hh n) s pend true
      | VSelect => h_go f vd l' hh s pend true
      | VTrue => match h_fvisit f vd hh n s with
                 | (_, h2, s2, true) => (must, pend, h2, s2, true)
                 | (_, h2, s2, false) => h_go f vd l' h2 s2 pend true
                 end
      | VFalse => match h_fvisit f vd hh n s with
                  | (_, h2, s2, true) => (must, pend, h2, s2, true)
                  | (true, h2, s2, false) => h_go f vd l' h2 s2 pend true
                  | (false, h2, s2, false) => h_go f vd l' h2 s2 (pend ++ [n]) must
                  end
      end
  end.

Lemma h_fvisit_unfold f vd h parent stopped :
  h_fvisit (S f) vd h parent stopped =
  let '(must, pend, hh, s, raised) := h_go f vd (hch h parent) h stopped [] false in
  if raised then (must, hh, s, true) else (must, fold_left h_remove_plain pend hh, s, false).
Proof.
  cbn [h_fvisit].
  set (step := fun (acc : bool * list nat * hstate * bool * bool) n => _).
  assert (Stuck : forall l must pend hh s, fold_left step l (must, pend, hh, s, true) = (must, pend, hh, s, true)).
  { induction l as [|n l IH]; intros; [reflexivity|]. cbn [fold_left]. unfold step at 2. apply IH. }
  assert (E : forall l must pend hh s, fold_left step l (must, pend, hh, s, false) = h_go f vd l hh s pend must).
  { induction l as [|n l IH]; intros must pend hh s; [reflexivity|]. cbn [fold_left h_go]. unfold step at 2.
    destruct (if s then VSkip else verdict_of vd n); try apply IH; try apply Stuck.
    - destruct (h_fvisit f vd hh n s) as [[[m2 h2] s2] [|]]; [apply Stuck|apply IH].
    - destruct (h_fvisit f vd hh n s) as [[[[|] h2] s2] [|]]; try apply Stuck; apply IH. }
  now rewrite E.
Qed.

Lemma remove_first_n_in x m l : x <> m -> In x l -> In x (remove_first_n m l).
Proof.
  intros Ne. induction l as [|y l IH]; intros H; [contradiction|]. cbn. destruct (Nat.eqb y m) eqn:E.
  - apply Nat.eqb_eq in E. destruct H as [->|H]; [congruence|assumption].
  - destruct H as [->|H]; [now left|right; now apply IH].
Qed.

Lemma child_live h t P c : WF t -> Rep h t -> In c (hch h P) -> In c (ids (forest_of t)) /\ hpar h c = Some P.
Proof.
  intros W R Hc. destruct (proj1 (ok_link h (Rep_HeapOK h t W R) P c) Hc) as (L & Hp). split; [|exact Hp].
  now apply (reg_ids h t W R).
Qed.

Definition Mono (h h' : hstate) : Prop := forall q, incl (hch h' q) (hch h q).

(* the removals at the end of a level *)
Lemma final_phase P l h0 : SubCh h0 l -> NoDup (ids l) -> ~ In P (ids l) ->
  forall pend hh t, WF t -> Rep hh t -> Mono h0 hh -> NoDup pend -> incl pend (map rid l) -> incl pend (hch hh P) ->
  let h' := fold_left h_remove_plain pend hh in
  let t' := fold_left apply_fact (map FBranch pend) t in
  WF t' /\ Rep h' t' /\ Mono hh h' /\
  (forall q, q <> P -> ~ In q (ids l) -> hch h' q = hch hh q) /\
  (forall z, ~ In z (ids l) -> (In z (hreg h') <-> In z (hreg hh))).
Proof.
  intros S0 ND NP. induction pend as [|m pend IH]; intros hh t W R Mo NDp Il Ip; cbn [fold_left map].
  - refine (conj W (conj R (conj _ (conj _ _)))); [intros q; apply incl_refl|intros; reflexivity|intros; reflexivity].
  - inversion NDp as [|x xs Nm NDp']; subst.
    destruct (child_live hh t P m W R (Ip m (or_introl eq_refl))) as (Lm & Hp).
    destruct (fact_branch hh t m W R Lm) as (W1 & R1).
    assert (Im : In m (map rid l)) by (apply Il; now left). apply in_map_iff in Im. destruct Im as (mv & Rm & Hmv).
    assert (Sm : SubCh h0 [mv]).
    { apply SubCh_single. intros y Hy. apply S0. apply in_flat_map. now exists mv. }
    assert (Lsub : incl (h_post (h_fuel hh) hh m) (ids l)).
    { rewrite <- Rm. intros y Hy. apply (post_incl h0 hh Mo _ mv Sm) in Hy. unfold ids in *. apply in_map_iff in Hy. destruct Hy as (w & <- & Hw).
      apply in_map. apply in_flat_map. exists mv. split; [assumption|]. rewrite pre_unfold. now right. }
    assert (Iml : In m (ids l)) by (rewrite <- Rm; now apply incl_top_ids, in_map).
    assert (Pm : P <> m) by (intros ->; contradiction).
    assert (PL : ~ In P (h_post (h_fuel hh) hh m)) by (intros Y; apply NP; now apply Lsub).
    assert (Mo1 : Mono hh (h_remove_plain hh m)) by (intros q; now apply (remove_plain_mono hh m P q)).
    assert (HP1 : hch (h_remove_plain hh m) P = remove_first_n m (hch hh P)).
    { rewrite (hch_remove_plain hh m P P Hp). replace (Nat.eqb P m) with false by (symmetry; now apply Nat.eqb_neq). rewrite Nat.eqb_refl.
      rewrite hch_remove_children. replace (memn P (h_post (h_fuel hh) hh m)) with false by (symmetry; now apply memn_false).
      replace (Nat.eqb P m) with false by (symmetry; now apply Nat.eqb_neq). reflexivity. }
    destruct (IH (h_remove_plain hh m) (apply_fact t (FBranch m)) W1 R1) as (W2 & R2 & Mo2 & F2 & G2); auto.
    + intros q y Hy. apply Mo. now apply Mo1.
    + intros x Hx. apply Il. now right.
    + intros x Hx. rewrite HP1. apply remove_first_n_in; [intros ->; contradiction|]. apply Ip. now right.
    + refine (conj W2 (conj R2 (conj _ (conj _ _)))).
      * intros q y Hy. apply Mo1. now apply Mo2.
      * intros q Qp Ql. rewrite (F2 q Qp Ql), (hch_remove_plain hh m P q Hp).
        replace (Nat.eqb q m) with false by (symmetry; apply Nat.eqb_neq; intros ->; contradiction).
        replace (Nat.eqb q P) with false by (symmetry; now apply Nat.eqb_neq).
        rewrite hch_remove_children. replace (memn q (h_post (h_fuel hh) hh m)) with false by (symmetry; apply memn_false; intros Y; apply Ql; now apply Lsub).
        replace (Nat.eqb q m) with false by (symmetry; apply Nat.eqb_neq; intros ->; contradiction). reflexivity.
      * intros z Zl. rewrite (G2 z Zl), (hreg_remove_plain hh m P z Hp). split; [tauto|]. intros Hz. split; [assumption|]. split; [intros ->; contradiction|].
        intros Y. apply Zl. now apply Lsub.
Qed.

(* ---- one level of the visit: the children l of the parent P ---- *)
Definition VC (vd : verdicts) (P : nat) (l : list rt) : Prop :=
  forall f hh t s, size_f l <= f -> WF t -> Rep hh t -> hch hh P = map rid l -> SubCh hh l -> NoDup (ids l) -> ~ In P (ids l) ->
  match fvisit vd (T 0 dummy_info l) s, h_fvisit (S f) vd hh P s with
  | (mM, aM, sM, rM), (mH, h', sH, rH) =>
      mM = mH /\ sM = sH /\ rM = rH /\
      WF (fold_left apply_fact aM t) /\ Rep h' (fold_left apply_fact aM t) /\ Mono hh h' /\
      (forall q, q <> P -> ~ In q (ids l) -> hch h' q = hch hh q) /\
      (forall z, ~ In z (ids l) -> (In z (hreg h') <-> In z (hreg hh)))
  end.

Lemma fvisit_children vd c s : fvisit vd c s = fvisit vd (T 0 dummy_info (rch c)) s.
Proof. now destruct c. Qed.

Lemma ids_cons_split c l z : In z (ids (c :: l)) <-> z = rid c \/ In z (ids (rch c)) \/ In z (ids l).
Proof. rewrite ids_cons. cbn [In]. rewrite in_app_iff. intuition congruence. Qed.

Lemma SubCh_tail h c l : SubCh h (c :: l) -> SubCh h [c] /\ SubCh h l /\ SubCh h (rch c) /\ hch h (rid c) = map rid (rch c).
Proof.
  intros S. refine (conj _ (conj _ (conj _ _))).
  - intros y Hy. apply S. cbn [flat_map] in *. rewrite app_nil_r in Hy. apply in_or_app. now left.
  - intros y Hy. apply S. cbn [flat_map]. apply in_or_app. now right.
  - intros y Hy. apply S. cbn [flat_map]. apply in_or_app. left. rewrite pre_unfold. now right.
  - apply S. cbn [flat_map]. apply in_or_app. left. apply pre_in_self.
Qed.

Lemma NoDup_ids_cons c l : NoDup (ids (c :: l)) ->
  NoDup (ids (rch c)) /\ ~ In (rid c) (ids (rch c)) /\ NoDup (ids l) /\ ~ In (rid c) (ids l) /\
  (forall z, In z (ids (rch c)) -> ~ In z (ids l)).
Proof.
  intros ND. rewrite ids_cons in ND. inversion ND as [|x xs N1 N2]; subst.
  refine (conj (NoDup_app_l _ _ N2) (conj _ (conj (NoDup_app_r _ _ N2) (conj _ _)))).
  - intros Y. apply N1. apply in_or_app. now left.
  - intros Y. apply N1. apply in_or_app. now right.
  - intros z Z1 Z2. apply (NoDup_app_disj _ _ z N2 Z1 Z2).
Qed.

Definition LoopOut (P : nat) (l : list rt) (hh : hstate) (t : tstate) (pend : list nat) (acts : list fact)
  (M : bool * list fact * bool * bool) (H : bool * list nat * hstate * bool * bool) : Prop :=
  match M, H with
  | (mM, aM, sM, rM), (mH, pH, hH, sH, rH) =>
      mM = mH /\ sM = sH /\ rM = rH /\
      exists D pend', pH = pend ++ pend' /\ incl pend' (map rid l) /\ NoDup pend' /\
        aM = acts ++ D ++ (if rH then [] else map FBranch pH) /\
        WF (fold_left apply_fact D t) /\ Rep hH (fold_left apply_fact D t) /\ Mono hh hH /\
        (forall q, ~ In q (ids l) -> hch hH q = hch hh q) /\
        (forall z, ~ In z (ids l) -> (In z (hreg hH) <-> In z (hreg hh)))
  end.

(* one child processed: the heap went from hh to h2 by the actions a, then the rest of the list *)
Lemma LoopOut_step P c l hh t h2 a pend acts M H (addp : bool) :
  (addp = true -> ~ In (rid c) (map rid l)) ->
  Mono hh h2 ->
  (forall q, q <> rid c -> ~ In q (ids (rch c)) -> hch h2 q = hch hh q) ->
  (forall z, ~ In z (ids (rch c)) -> (In z (hreg h2) <-> In z (hreg hh))) ->
  LoopOut P l h2 (fold_left apply_fact a t) (if addp then pend ++ [rid c] else pend) (acts ++ a) M H ->
  LoopOut P (c :: l) hh t pend acts M H.
Proof.
  intros Nc Mo2 Fr2 Fg2. unfold LoopOut. destruct M as [[[mM aM] sM] rM]. destruct H as [[[[mH pH] hH] sH] rH].
  intros (E1 & E2 & E3 & D & pend' & Ep & Ip & NDp & Ea & W & R & Mo & Fr & Fg).
  refine (conj E1 (conj E2 (conj E3 _))). exists (a ++ D), (if addp then rid c :: pend' else pend').
  refine (conj _ (conj _ (conj _ (conj _ (conj _ (conj _ (conj _ (conj _ _)))))))).
  - destruct addp; [now rewrite Ep, <- app_assoc|exact Ep].
  - destruct addp; intros x Hx; [destruct Hx as [<-|Hx]; [now left|right; now apply Ip]|right; now apply Ip].
  - destruct addp; [constructor; [|assumption]; intros Y; apply (Nc eq_refl); now apply Ip|assumption].
  - rewrite Ea. now rewrite <- !app_assoc.
  - now rewrite fold_left_app.
  - now rewrite fold_left_app.
  - intros q y Hy. apply Mo2. now apply Mo.
  - intros q Hq. rewrite Fr by (intros Y; apply Hq; apply ids_cons_split; tauto).
    apply Fr2; [intros E|intros Y]; apply Hq; apply ids_cons_split; [left; congruence|tauto].
  - intros z Hz. rewrite Fg by (intros Y; apply Hz; apply ids_cons_split; tauto).
    apply Fg2. intros Y. apply Hz. apply ids_cons_split. tauto.
Qed.

Lemma Mono_refl h : Mono h h.
Proof. intros q. apply incl_refl. Qed.

Lemma LoopOut_raised P c l hh t h2 a pend acts must s' :
  WF (fold_left apply_fact a t) -> Rep h2 (fold_left apply_fact a t) -> Mono hh h2 ->
  (forall q, q <> rid c -> ~ In q (ids (rch c)) -> hch h2 q = hch hh q) ->
  (forall z, ~ In z (ids (rch c)) -> (In z (hreg h2) <-> In z (hreg hh))) ->
  LoopOut P (c :: l) hh t pend acts (must, acts ++ a, s', true) (must, pend, h2, s', true).
Proof.
  intros W R Mo Fr Fg. cbn [LoopOut]. refine (conj eq_refl (conj eq_refl (conj eq_refl _))). exists a, [].
  refine (conj _ (conj _ (conj _ (conj _ (conj W (conj R (conj Mo (conj _ _)))))))).
  - now rewrite app_nil_r.
  - intros x [].
  - constructor.
  - now rewrite app_nil_r.
  - intros q Hq. apply Fr; [intros E|intros Y]; apply Hq; apply ids_cons_split; [left; congruence|tauto].
  - intros z Hz. apply Fg. intros Y. apply Hz. apply ids_cons_split. tauto.
Qed.

Lemma go_loop vd P f
  (go : list rt -> bool -> list nat -> bool -> list fact -> bool * list fact * bool * bool) :
  (forall s pend must acts, go [] s pend must acts = (must, acts ++ map FBranch pend, s, false)) ->
  (forall c l' s pend must acts, go (c :: l') s pend must acts =
     match (if s then VSkip else verdict_of vd (rid c)) with
     | VRaise => (must, acts, s, true)
     | VStop => go l' true (pend ++ [rid c]) must acts
     | VSkip => go l' s (pend ++ [rid c]) must acts
     | VSkipKeep => go l' s pend true (acts ++ [FKids (rid c)])
     | VSelect => go l' s pend true acts
     | VTrue => match fvisit vd c s with
                | (_, a, s', true) => (must, acts ++ a, s', true)
                | (_, a, s', false) => go l' s' pend true (acts ++ a)
                end
     | VFalse => match fvisit vd c s with
                 | (_, a, s', true) => (must, acts ++ a, s', true)
                 | (true, a, s', false) => go l' s' pend true (acts ++ a)
                 | (false, a, s', false) => go l' s' (pend ++ [rid c]) must (acts ++ a)
                 end
     end) ->
  forall l, Forall (fun c => VC vd (rid c) (rch c)) l -> (forall c, In c l -> size c <= f) -> NoDup (ids l) -> ~ In P (ids l) ->
  forall hh t s pend must acts, WF t -> Rep hh t -> SubCh hh l -> (forall c, In c l -> In (rid c) (hch hh P)) ->
  LoopOut P l hh t pend acts (go l s pend must acts) (h_go f vd (map rid l) hh s pend must).
Proof.
  intros G0 G1. induction l as [|c l IH]; intros FA Sz ND NP hh t s pend must acts W R Sb Lk.
  - rewrite G0. cbn [map h_go LoopOut]. refine (conj eq_refl (conj eq_refl (conj eq_refl _))). exists [], [].
    refine (conj _ (conj _ (conj _ (conj _ (conj W (conj R (conj (Mono_refl hh) (conj _ _)))))))).
    + now rewrite app_nil_r.
    + intros x [].
    + constructor.
    + reflexivity.
    + intros; reflexivity.
    + intros; reflexivity.
  - inversion FA as [|x xs Vc FAl]; subst.
    destruct (NoDup_ids_cons c l ND) as (NDc & Ncc & NDl & Ncl & Dcl).
    destruct (SubCh_tail hh c l Sb) as (Sc1 & Sl & Scc & Hcc).
    assert (NPl : ~ In P (ids l)) by (intros Y; apply NP; apply ids_cons_split; tauto).
    assert (NPc : P <> rid c /\ ~ In P (ids (rch c))) by (split; intros Y; apply NP; apply ids_cons_split; [left; congruence|tauto]).
    assert (Szl : forall c0, In c0 l -> size c0 <= f) by (intros c0 H0; apply Sz; now right).
    assert (Lkl : forall c0, In c0 l -> In (rid c0) (hch hh P)) by (intros c0 H0; apply Lk; now right).
    assert (Nrc : ~ In (rid c) (map rid l)) by (intros Y; apply Ncl; now apply incl_top_ids).
    destruct (child_live hh t P (rid c) W R (Lk c (or_introl eq_refl))) as (Lc & _).
    (* continuing with the rest of the list after the heap moved to h2 *)
    assert (Cont : forall h2 a s2 pend2 must2, WF (fold_left apply_fact a t) -> Rep h2 (fold_left apply_fact a t) ->
              (forall q, q <> rid c -> ~ In q (ids (rch c)) -> hch h2 q = hch hh q) ->
              LoopOut P l h2 (fold_left apply_fact a t) pend2 (acts ++ a) (go l s2 pend2 must2 (acts ++ a)) (h_go f vd (map rid l) h2 s2 pend2 must2)).
    { intros h2 a s2 pend2 must2 W2 R2 Fr2. apply IH; auto.
      - intros y Hy. rewrite Fr2; [now apply Sl| |].
        + intros E. apply Ncl. rewrite <- E. unfold ids. now apply in_map.
        + intros Y. apply (Dcl _ Y). unfold ids. now apply in_map.
      - intros c0 H0. rewrite Fr2; [now apply Lkl|tauto|tauto]. }
    rewrite G1. cbn [map h_go].
    destruct (if s then VSkip else verdict_of vd (rid c)) eqn:Ev.
    + (* VTrue *)
      destruct f as [|f']; [assert (X := Sz c (or_introl eq_refl)); destruct c; rewrite size_unfold in X; lia|].
      assert (Szc : size_f (rch c) <= f') by (assert (X := Sz c (or_introl eq_refl)); destruct c; rewrite size_unfold in X; cbn [rch]; lia).
      assert (V := Vc f' hh t s Szc W R Hcc Scc NDc Ncc). rewrite <- fvisit_children in V.
      destruct (fvisit vd c s) as [[[mc a] s'] rc]. destruct (h_fvisit (S f') vd hh (rid c) s) as [[[mh h2] s2] rh].
      destruct V as (V1 & V2 & V3 & V4 & V5 & V6 & V7 & V8). subst mh s2 rh.
      destruct rc; [now apply LoopOut_raised|].
      apply (LoopOut_step P c l hh t h2 a pend acts _ _ false); [discriminate|exact V6|exact V7|exact V8|]. now apply Cont.
    + (* VFalse *)
      destruct f as [|f']; [assert (X := Sz c (or_introl eq_refl)); destruct c; rewrite size_unfold in X; lia|].
      assert (Szc : size_f (rch c) <= f') by (assert (X := Sz c (or_introl eq_refl)); destruct c; rewrite size_unfold in X; cbn [rch]; lia).
      assert (V := Vc f' hh t s Szc W R Hcc Scc NDc Ncc). rewrite <- fvisit_children in V.
      destruct (fvisit vd c s) as [[[mc a] s'] rc]. destruct (h_fvisit (S f') vd hh (rid c) s) as [[[mh h2] s2] rh].
      destruct V as (V1 & V2 & V3 & V4 & V5 & V6 & V7 & V8). subst mh s2 rh.
      destruct rc; [destruct mc; now apply LoopOut_raised|].
      destruct mc.
      * apply (LoopOut_step P c l hh t h2 a pend acts _ _ false); [discriminate|exact V6|exact V7|exact V8|]. now apply Cont.
      * apply (LoopOut_step P c l hh t h2 a pend acts _ _ true); [intros _; exact Nrc|exact V6|exact V7|exact V8|]. now apply Cont.
    + (* VSkip *)
      apply (LoopOut_step P c l hh t hh [] pend acts _ _ true); [intros _; exact Nrc|apply Mono_refl|intros; reflexivity|intros; reflexivity|].
      rewrite app_nil_r. cbn [fold_left]. apply IH; auto.
    + (* VSkipKeep *)
      destruct (fact_kids hh t (rid c) W R (or_intror Lc)) as (W1 & R1).
      assert (Lsub : incl (h_post (h_fuel hh) hh (rid c)) (ids (rch c))) by (apply (post_incl hh hh (Mono_refl hh) _ c Sc1)).
      assert (Fr1 : forall q, q <> rid c -> ~ In q (ids (rch c)) -> hch (h_remove_children hh (rid c)) q = hch hh q).
      { intros q Q1 Q2. rewrite hch_remove_children. replace (memn q (h_post (h_fuel hh) hh (rid c))) with false by (symmetry; apply memn_false; intros Y; apply Q2; now apply Lsub).
        replace (Nat.eqb q (rid c)) with false by (symmetry; now apply Nat.eqb_neq). reflexivity. }
      apply (LoopOut_step P c l hh t (h_remove_children hh (rid c)) [FKids (rid c)] pend acts _ _ false); [discriminate| |exact Fr1| |].
      * intros q. apply remove_children_mono.
      * intros z Hz. rewrite hreg_remove_children. split; [tauto|]. intros Y. split; [assumption|]. intros Y2. apply Hz. now apply Lsub.
      * now apply Cont.
    + (* VSelect *)
      apply (LoopOut_step P c l hh t hh [] pend acts _ _ false); [discriminate|apply Mono_refl|intros; reflexivity|intros; reflexivity|].
      rewrite app_nil_r. cbn [fold_left]. apply IH; auto.
    + (* VStop *)
      apply (LoopOut_step P c l hh t hh [] pend acts _ _ true); [intros _; exact Nrc|apply Mono_refl|intros; reflexivity|intros; reflexivity|].
      rewrite app_nil_r. cbn [fold_left]. apply IH; auto.
    + (* VRaise *)
      replace acts with (acts ++ []) at 2 by apply app_nil_r.
      apply (LoopOut_raised P c l hh t hh [] pend acts must s); [exact W|exact R|apply Mono_refl|intros; reflexivity|intros; reflexivity].
Qed.

Lemma VC_step vd P l : Forall (fun c => VC vd (rid c) (rch c)) l -> VC vd P l.
Proof.
  intros FA f hh t s Sz W R HP Sb ND NP.
  rewrite h_fvisit_unfold, HP. cbn [fvisit].
  assert (Szc : forall c, In c l -> size c <= f) by (intros c Hc; assert (X := size_le_in' c l Hc); lia).
  assert (Lk : forall c, In c l -> In (rid c) (hch hh P)) by (intros c Hc; rewrite HP; now apply in_map).
  match goal with |- context [?g l s [] false []] =>
    assert (X := go_loop vd P f g (fun s0 pend must acts => eq_refl) (fun c l' s0 pend must acts => eq_refl) l FA Szc ND NP hh t s [] false [] W R Sb Lk);
    destruct (g l s [] false []) as [[[mM aM] sM] rM] end.
  destruct (h_go f vd (map rid l) hh s [] false) as [[[[mH pH] hH] sH] rH].
  destruct X as (E1 & E2 & E3 & D & pend' & Ep & Ip & NDp & Ea & W' & R' & Mo' & Fr' & Fg').
  cbn [app] in Ep, Ea. subst mH sH rH pH. destruct rM.
  - rewrite app_nil_r in Ea. subst aM. refine (conj eq_refl (conj eq_refl (conj eq_refl (conj W' (conj R' (conj Mo' (conj _ Fg'))))))).
    intros q _ Hq. now apply Fr'.
  - subst aM. rewrite fold_left_app.
    assert (HP' : hch hH P = map rid l) by (rewrite Fr' by exact NP; exact HP).
    destruct (final_phase P l hh Sb ND NP pend' hH (fold_left apply_fact D t) W' R' Mo' NDp Ip) as (W2 & R2 & Mo2 & F2 & G2).
    { rewrite HP'. exact Ip. }
    refine (conj eq_refl (conj eq_refl (conj eq_refl (conj W2 (conj R2 (conj _ (conj _ _))))))).
    + intros q y Hy. apply Mo'. now apply Mo2.
    + intros q Qp Ql. rewrite (F2 q Qp Ql). now apply Fr'.
    + intros z Zl. rewrite (G2 z Zl). now apply Fg'.
Qed.

Lemma VC_all vd : forall c, VC vd (rid c) (rch c).
Proof. induction c as [id i ch IH] using rt_ind'. cbn [rid rch]. now apply VC_step. Qed.

Theorem sim_op_filter hw w ti n vd : WFw w -> RepW hw w -> Sim (h_op_filter hw ti n vd) (op_filter w ti n vd).
Proof.
  intros W RW. unfold h_op_filter, op_filter. assert (G := RepW_get hw w ti RW).
  destruct (h_get hw ti) as [h|]; destruct (get_tree w ti) as [t|] eqn:Gt; try contradiction; [|now apply Sim_same].
  assert (Wt := WFw_tree w ti t W Gt). assert (Pl := h_plive_path h t n Wt G). unfold children_of.
  destruct (parent_path n (forest_of t)) as [pq|] eqn:Gp.
  2:{ replace (h_plive h n) with false; [now apply Sim_same|]. destruct (h_plive h n); [|reflexivity].
      destruct (proj1 Pl eq_refl) as (pq & X). discriminate. }
  replace (h_plive h n) with true by (symmetry; apply Pl; now exists pq). cbn [negb].
  destruct (parent_path_get n _ pq Gp) as (ch & Gc). rewrite Gc.
  assert (Hc := rep_children h t n pq ch Wt G Gp Gc).
  assert (NDc := NoDup_child_list pq _ ch (wf_nodup t Wt) Gc). assert (Ic := ids_sub_child pq _ ch Gc).
  assert (Sb : SubCh h ch).
  { intros y Hy. apply (rep_node_children h t y Wt G). now apply (get_ch_pre pq _ ch Gc). }
  destruct (ctx_kids pq _ 0 ch (wf_nodup t Wt) (wf_pos t Wt) Gc) as (_ & _ & _ & _ & _ & E4 & _).
  rewrite (parent_path_owner n _ pq ch Gp Gc) in E4.
  assert (Lf := fuel_enough h t ch Wt G NDc Ic). unfold h_fuel in *.
  assert (FA : Forall (fun c => VC vd (rid c) (rch c)) ch) by (apply Forall_forall; intros c _; apply VC_all).
  assert (V := VC_step vd n ch FA (length (hall h)) h t false ltac:(lia) Wt G Hc Sb NDc E4).
  destruct (fvisit vd (T 0 dummy_info ch) false) as [[[mM aM] sM] rM]. destruct (h_fvisit (S (length (hall h))) vd h n false) as [[[mH h'] sH] rH].
  destruct V as (_ & _ & E3 & _ & R' & _). subst rH.
  split; [reflexivity|]. cbn [snd]. unfold h_put, put_tree. rewrite (repw_next hw w RW). now apply RepW_put.
Qed.
