(* C13: faults by call INDEX.  The callbacks of Machine.v are tables keyed by the
   argument (calcspec: data object, keyt / verdicts: node).  "The k-th invocation
   raises, whatever its argument" is expressed here on top of [step], additively:

   * sort key / filter predicate: every node is an argument of at most one
     invocation, so the k-th invocation is the k-th element of the call sequence
     of the run ([sort_calls], [filter_calls], defined below by the same recursion
     as the operation) and the fault table is the table with that node poisoned;
   * calc_data_id can be called twice on one object within one operation
     (from_dict with the same object under two parents): an argument-keyed table
     cannot say "the first call is fine, the second raises".  Here the k-th
     CALLING item of from_dict (pre-order, items without an explicit data_id, tree
     with a callback) is replaced by an item whose data object is not in the
     callback table - for which the callback raises.  Nothing else of that item is
     ever read, because the add that invokes the callback fails.

   [step_k w o k] is [step] with the k-th invocation (0-based, in call order)
   raising; k beyond the number of invocations = the clean run.  Every [step_k]
   is a [step] of a poisoned operation ([step_k_is_step]), so the theorems proved
   for ALL tables and items apply to every k. *)
From Coq Require Import List ZArith Bool Arith Lia Permutation.
From NT Require Import Sx Rose ListFacts RoseFacts Surgery SurgeryFacts Machine WF MachineFacts
  PreserveSteps Invariant Effects RefusalC13 Faults.
Import ListNotations.

(* ------------------------------------------------------------------ *)
(* calc_data_id *)
Definition fresh_obj (tbl : list (Z * option did)) : Z := 1 + fold_right Z.max 0%Z (map fst tbl).

Lemma fresh_obj_gt tbl : forall e, In e tbl -> (fst e < fresh_obj tbl)%Z.
Proof.
  unfold fresh_obj. induction tbl as [|x tbl IH]; intros e []; cbn [map fold_right].
  - subst. lia.
  - specialize (IH e H). lia.
Qed.

Definition poison_dat (tbl : list (Z * option did)) (d : dat) : dat :=
  D (fresh_obj tbl) (d_eqc d) (d_hash d) (d_isstr d) (d_name d).

(* the callback raises on the poisoned object *)
Lemma calc_poisoned tbl d : calc_id (Some tbl) (poison_dat tbl d) = None.
Proof.
  unfold calc_id, poison_dat. cbn [d_obj].
  destruct (find (fun e => Z.eqb (fst e) (fresh_obj tbl)) tbl) as [e|] eqn:F; [|reflexivity].
  apply find_some in F. destruct F as (Hin & E). apply Z.eqb_eq in E. assert (X := fresh_obj_gt tbl e Hin). lia.
Qed.

(* from_dict: poison the k-th calling item in pre-order; returns the items and the remaining count
   (None = the fault has been placed) *)
Fixpoint poison_item (tbl : list (Z * option did)) (it : ditem) (k : option nat) {struct it} : ditem * option nat :=
  match it with
  | DI d e ch =>
      match k with
      | None => (it, None)
      | Some n =>
          match e with
          | Some _ =>                                  (* explicit data_id: no invocation *)
              let r := (fix go (l : list ditem) (k : option nat) : list ditem * option nat :=
                          match l with
                          | [] => ([], k)
                          | x :: l' => let (x', k1) := poison_item tbl x k in
                                       let (r', k2) := go l' k1 in (x' :: r', k2)
                          end) ch k in
              (DI d e (fst r), snd r)
          | None =>
              match n with
              | 0 => (DI (poison_dat tbl d) None ch, None)
              | S n' =>
                  let r := (fix go (l : list ditem) (k : option nat) : list ditem * option nat :=
                              match l with
                              | [] => ([], k)
                              | x :: l' => let (x', k1) := poison_item tbl x k in
                                           let (r', k2) := go l' k1 in (x' :: r', k2)
                              end) ch (Some n') in
                  (DI d e (fst r), snd r)
              end
          end
      end
  end.
Fixpoint poison_items (tbl : list (Z * option did)) (l : list ditem) (k : option nat) : list ditem * option nat :=
  match l with
  | [] => ([], k)
  | x :: l' => let (x', k1) := poison_item tbl x k in
               let (r', k2) := poison_items tbl l' k1 in (x' :: r', k2)
  end.

Definition tree_calc (w : world) (ti : nat) : calcspec :=
  match get_tree w ti with Some t => calc t | None => None end.

(* one invocation (add, shortcuts, set_data with new data and no explicit id, rename) *)
Definition poison_one (w : world) (ti : nat) (explicit : option did) (d : dat) (k : nat) : dat :=
  match tree_calc w ti, explicit, k with
  | Some tbl, None, 0 => poison_dat tbl d
  | _, _, _ => d
  end.

(* ------------------------------------------------------------------ *)
(* sort key: the invocations of a run, in order (the recursion of sort_list / sort_deep:
   list.sort calls the key once per element, in list order, before it reorders anything;
   then the sorted children are visited in their new order) *)
(* the invocations on one level: list order, up to and including the first raising key *)
Fixpoint level_calls (k : keyt) (l : list rt) : list nat :=
  match l with
  | [] => []
  | c :: l' => rid c :: (match key_of k (rid c) with Some _ => level_calls k l' | None => [] end)
  end.

Fixpoint calls_deep (fuel : nat) (k : keyt) (reverse : bool) (t : rt) (failed : bool) {struct fuel} : list nat * bool :=
  match fuel with
  | 0 => ([], true)
  | S fuel' =>
      if failed then ([], true)
      else match rch t with
           | [] => ([], false)
           | ch =>
               if keys_ok k ch then
                 let r := (fix go (l : list rt) (failed : bool) : list nat * bool :=
                             match l with
                             | [] => ([], failed)
                             | c :: l' => let (a, f1) := calls_deep fuel' k reverse c failed in
                                          let (b0, f2) := go l' f1 in (a ++ b0, f2)
                             end) (py_sort k reverse ch) false in
                 (level_calls k ch ++ fst r, snd r)
               else (level_calls k ch, true)
           end
  end.

Definition sort_calls (k : keyt) (reverse deep : bool) (ch : list rt) : list nat :=
  match ch with
  | [] => []
  | _ =>
      if Nat.eqb (length ch) 1 && negb deep then []
      else if keys_ok k ch && deep then
             level_calls k ch ++
             fst ((fix go (l : list rt) (failed : bool) : list nat * bool :=
                     match l with
                     | [] => ([], failed)
                     | c :: l' => let (a, f1) := calls_deep (S (size_f ch)) k reverse c failed in
                                  let (b0, f2) := go l' f1 in (a ++ b0, f2)
                     end) (py_sort k reverse ch) false)
           else level_calls k ch
  end.

Definition poison_key (calls : list nat) (i : nat) (k : keyt) : keyt :=
  match nth_error calls i with Some n => (n, None) :: k | None => k end.

Lemma key_of_poisoned n k : key_of ((n, None) :: k) n = None.
Proof. unfold key_of. cbn [find fst]. now rewrite Nat.eqb_refl. Qed.

(* ------------------------------------------------------------------ *)
(* filter predicate: the invocations of a run, in order (the recursion of fvisit) *)
Fixpoint fcalls (vd : verdicts) (t : rt) (stopped : bool) {struct t} : list nat * bool * bool :=   (* calls, stopped, raised *)
  match t with
  | T _ _ ch =>
      (fix go (l : list rt) (s : bool) (acc : list nat) {struct l} : list nat * bool * bool :=
         match l with
         | [] => (acc, s, false)
         | c :: l' =>
             if s then go l' s acc
             else
               match verdict_of vd (rid c) with
               | VRaise => (acc ++ [rid c], s, true)
               | VStop => go l' true (acc ++ [rid c])
               | VSkip | VSkipKeep | VSelect => go l' s (acc ++ [rid c])
               | VTrue | VFalse =>
                   match fcalls vd c s with
                   | (a, s', true) => (acc ++ rid c :: a, s', true)
                   | (a, s', false) => go l' s' (acc ++ rid c :: a)
                   end
               end
         end) ch stopped []
  end.

Definition filter_calls (vd : verdicts) (ch : list rt) : list nat := fst (fst (fcalls vd (T 0 dummy_info ch) false)).

Definition poison_verdict (calls : list nat) (i : nat) (vd : verdicts) : verdicts :=
  match nth_error calls i with Some n => (n, VRaise) :: vd | None => vd end.

Lemma verdict_of_poisoned n vd : verdict_of ((n, VRaise) :: vd) n = VRaise.
Proof. unfold verdict_of. cbn [find fst]. now rewrite Nat.eqb_refl. Qed.

(* ------------------------------------------------------------------ *)
(* the operation in which the k-th invocation raises *)
Definition poison_op (w : world) (o : op) (k : nat) : op :=
  match o with
  | OAdd ti p d e kd b => OAdd ti p (poison_one w ti e d k) e kd b
  | OShort ti n how d e kd => OShort ti n how (poison_one w ti e d k) e kd
  | OSetData ti n (Some d) e wc => OSetData ti n (Some (poison_one w ti e d k)) e wc
  | ORename ti n d => ORename ti n (poison_one w ti None d k)
  | ODel ti (KData d a) => ODel ti (KData (poison_one w ti None d k) a)
  | ODel ti (KDid e (Some fb)) => ODel ti (KDid e (match k with 0 => None | _ => Some fb end))
  | OFromDict ti p items =>
      match tree_calc w ti with
      | Some tbl => OFromDict ti p (fst (poison_items tbl items (Some k)))
      | None => o
      end
  | OSort ti p kt r dp =>
      match get_tree w ti with
      | Some t => match children_of p (forest_of t) with
                  | Some ch => OSort ti p (poison_key (sort_calls kt r dp ch) k kt) r dp
                  | None => o
                  end
      | None => o
      end
  | OFilter ti n vd =>
      match get_tree w ti with
      | Some t => match children_of n (forest_of t) with
                  | Some ch => OFilter ti n (poison_verdict (filter_calls vd ch) k vd)
                  | None => o
                  end
      | None => o
      end
  | _ => o
  end.

Definition step_k (w : world) (o : op) (k : nat) : res * world := step w (poison_op w o k).

Theorem step_k_is_step w o k : exists o', step_k w o k = step w o'.
Proof. now exists (poison_op w o k). Qed.

(* ---- for EVERY call index: C01-C03 survive, and what may remain is what the theorems for
   all tables say ---- *)
Theorem step_k_WFw w o k : WFw w -> WFw (snd (step_k w o k)).
Proof. intros H. unfold step_k. now apply WFw_step. Qed.

Lemma poison_op_multi w o k : multi_source (poison_op w o k) = multi_source o.
Proof.
  destruct o; cbn [poison_op]; repeat match goal with |- context [match ?x with _ => _ end] => destruct x end; reflexivity.
Qed.

Lemma poison_op_partial w o k : partial_on_crash (poison_op w o k) = partial_on_crash o.
Proof.
  destruct o; cbn [poison_op]; repeat match goal with |- context [match ?x with _ => _ end] => destruct x end; reflexivity.
Qed.

(* calc_data_id at any call index, in add / shortcuts / set_data / rename / del / from_dict
   (also "the second call on the same object"): whatever the exit, nothing changed *)
Theorem step_k_calc_unchanged w o k e :
  multi_source o = false -> partial_on_crash o = false -> fst (step_k w o k) = Err e ->
  trees (snd (step_k w o k)) = trees w.
Proof.
  intros M P E. unfold step_k in *. apply (error_single w _ e); try assumption.
  - now rewrite poison_op_multi.
  - now rewrite poison_op_partial.
Qed.

(* sort key at any call index *)
Theorem sort_k_effect w ti p kt rv dp k t :
  get_tree w ti = Some t ->
  exists t', get_tree (snd (step_k w (OSort ti p kt rv dp) k)) ti = Some t'
    /\ reg t' = reg t /\ idx t' = idx t
    /\ Permutation (rows 0 (forest_of t)) (rows 0 (forest_of t')).
Proof.
  intros Gt. unfold step_k. cbn [poison_op]. rewrite Gt.
  destruct (children_of p (forest_of t)) as [ch|]; cbn [step];
    match goal with |- context [op_sort w ti p ?kk rv dp] => destruct (sort_effect w ti p kk rv dp t Gt) as (t' & G & R & I & P & _) end;
    exists t'; auto.
Qed.

(* filter predicate at any call index *)
Theorem filter_k_effect w ti n vd k t :
  get_tree w ti = Some t ->
  exists t', get_tree (snd (step_k w (OFilter ti n vd) k)) ti = Some t'
    /\ incl (rows 0 (forest_of t')) (rows 0 (forest_of t)).
Proof.
  intros Gt. unfold step_k. cbn [poison_op]. rewrite Gt.
  destruct (children_of n (forest_of t)) as [ch|]; cbn [step];
    match goal with |- context [op_filter w ti n ?vv] => destruct (filter_effect w ti n vv t Gt) as (t' & G & I & _) end;
    exists t'; auto.
Qed.
