(* C19 -- load_tree_from_fs mirrors the directory it scanned; the FileSystemTree
   mappers keep it through save/load.
   Statements only; proofs are in theories/Forest/FsLoadProofs.v, the executable
   model (of nutree/fs.py) in theories/Forest/FsLoad.v.

   PARTIAL by design (DESIGN.md section 6): the operating system, pathlib,
   symlinks and special files are outside the model -- a directory is an
   abstract value [fsn] whose listing ORDER is arbitrary (every theorem
   quantifies over it); special files appear only as [Other] = skipped. *)
From Coq Require Import List ZArith Bool Permutation Sorted.
From NT Require Import Sx Rose FsLoad FsLoadProofs FsSaveLoadProofs FsCanonProofs FsVisitProofs FsRepr FsReprProofs FsReprDecode.
From NTGen Require Import Generated.
Import ListNotations.
Open Scope Z_scope.

(* ---- the name order is Python's str order: a strict total order on code points ---- *)
Theorem C19_name_order_strict_total :
  (forall a, text_ltb a a = false) /\
  (forall a b c, text_ltb a b = true -> text_ltb b c = true -> text_ltb a c = true) /\
  (forall a b, text_ltb a b = false -> text_ltb b a = false -> a = b).
Proof. exact (conj text_ltb_irrefl (conj text_ltb_trans text_ltb_total)). Qed.
Print Assumptions C19_name_order_strict_total.

(* "B" < "_x" < "a" < "ä";  "10" < "9";  U+FFFF < U+10000 (not UTF-16 order) *)
Example C19_name_order_samples :
  map (fun p => text_ltb (fst p) (snd p))
      [([66], [95; 120]); ([95; 120], [97]); ([97], [228]); ([49; 48], [57]); ([97], [97; 97]);
       ([97; 65535], [97; 65536]); ([97], [66])]
  = [true; true; true; true; true; true; false].
Proof. vm_compute. reflexivity. Qed.

(* ---- the model of list.sort / sorted: sorted, a permutation, stable ---- *)
Theorem C19_sort_model : forall (X : Type) (key : X -> text) (l : list X),
  Sorted (key_le key) (sort_by key l) /\ Permutation (sort_by key l) l /\
  (forall k, filter (fun y => text_eqb (key y) k) (sort_by key l) = filter (fun y => text_eqb (key y) k) l).
Proof. intros X key l. exact (conj (sort_by_sorted key l) (conj (sort_by_perm key l) (fun k => sort_by_stable key k l))). Qed.
Print Assumptions C19_sort_model.

(* ---- the function with the loop structure of the source ([visit]: collect `files` and `dirs`,
   sorted(files, key=name), sorted(dirs, key=Path), recursion after sorting, fuel = nesting
   bound) is the structural function [load] all theorems below speak about -- for every root
   path; sorting sibling directories by their Path (component lists) is sorting by name ---- *)
Theorem C19_source_shaped_function_is_load : forall (sort : bool) (root : path) (listing : list fsn),
  load_tree_from_fs sort root listing = load sort listing.
Proof. exact load_tree_from_fs_is_load. Qed.
Print Assumptions C19_source_shaped_function_is_load.

Theorem C19_path_order_of_siblings_is_name_order : forall (parent : path) (a b : text),
  path_ltb (parent ++ [a]) (parent ++ [b]) = text_ltb a b.
Proof. exact path_ltb_siblings. Qed.
Print Assumptions C19_path_order_of_siblings_is_name_order.

(* ---- observation W1 (not observable through load_tree_from_fs on this platform): on a
   case-folding path flavour (Windows) `sorted(dirs, key=itemgetter(0))` orders sibling
   folders by their LOWER-CASED names while `files` are ordered by their names as they are.
   [visit_win] is [visit] with that Path order; its output for  B/  a/  B.t  a.t  lists the
   files as B.t, a.t and the folders as a, B -- the folder statement [ordered] fails.  The
   Path order of that flavour is exercised with PureWindowsPath (case kind CPathSortW).
   Sorting `dirs` by o.name instead of by the Path would make both orders the same on
   every flavour and changes nothing on POSIX (previous theorem). ---- *)
Theorem C19_windows_flavour_orders_folders_by_folded_name : forall (parent : path) (a b : text),
  path_ltb_win (parent ++ [a]) (parent ++ [b]) = text_ltb (fold_text a) (fold_text b).
Proof. exact path_ltb_win_siblings. Qed.
Print Assumptions C19_windows_flavour_orders_folders_by_folded_name.

Theorem C19_windows_flavour_breaks_folder_order :
  map ft_name (visit_win 2 [] win_witness) = [[66; 46; 116]; [97; 46; 116]; [97]; [66]] /\
  map ft_name (load true win_witness) = [[66; 46; 116]; [97; 46; 116]; [66]; [97]] /\
  ~ ordered (visit_win 2 [] win_witness).
Proof. exact (conj (proj1 win_witness_names) (conj (proj2 win_witness_names) win_witness_not_ordered)). Qed.
Print Assumptions C19_windows_flavour_breaks_folder_order.

(* ---- one node per file and folder, at the same path, with name / flag / size / mtime ----
   [dir_entries pre l]  = the (path, FileSystemEntry) pairs of all files and folders below a listing,
   [tree_entries pre f] = the (path, node.data) pairs of all nodes of a forest;
   the path lists the names of all ancestors, so equal paths mean equal depth and equal parent.
   Holds for sort on and off and for EVERY listing order. *)
Theorem C19_mirror : forall (sort : bool) (listing : list fsn) (pre : list text),
  Permutation (tree_entries pre (load sort listing)) (dir_entries pre listing).
Proof. exact load_mirror. Qed.
Print Assumptions C19_mirror.

(* read off: len(tree) = number of files and folders; every entry has its node at the same
   depth (length of the path) with the same name / flag / size / mtime *)
Theorem C19_node_count_and_depths : forall (sort : bool) (listing : list fsn),
  length (tree_entries [] (load sort listing)) = length (dir_entries [] listing) /\
  Permutation (map depth_entry (tree_entries [] (load sort listing))) (map depth_entry (dir_entries [] listing)).
Proof. intros s l. exact (conj (load_count s l) (load_depths s l)). Qed.
Print Assumptions C19_node_count_and_depths.

(* sort=False keeps the listing order at every level: the pre-order walk of the
   tree is the walk of the directory (equal lists, not only a permutation) *)
Theorem C19_unsorted_keeps_listing_order : forall (listing : list fsn) (pre : list text),
  tree_entries pre (load false listing) = dir_entries pre listing.
Proof. exact load_unsorted. Qed.
Print Assumptions C19_unsorted_keeps_listing_order.

(* one folder against its listing: the children of the root (and, through
   [conv_dir], of every folder node) are the regular entries of the listing *)
Theorem C19_children_are_the_listing : forall (sort : bool) (listing : list fsn),
  Permutation (map ft_entry (load sort listing)) (flat_map top_entry listing) /\
  map ft_entry (load false listing) = flat_map top_entry listing.
Proof. intros s l. exact (conj (load_top s l) (load_top_unsorted l)). Qed.
Print Assumptions C19_children_are_the_listing.

(* ---- sort=True: EVERY folder (root and every node, [folders]) lists its files first,
   sorted by name, then its sub-folders, sorted by name -- for every listing order ---- *)
Theorem C19_sorted : forall listing : list fsn, Forall ordered (folders (load true listing)).
Proof. exact load_sorted. Qed.
Print Assumptions C19_sorted.

(* names within a folder are distinct (every real directory): strictly increasing *)
Theorem C19_sorted_strict : forall ch : list ft,
  ordered ch -> NoDup (map ft_name ch) ->
  exists fs ds, ch = fs ++ ds /\
    Forall (fun t => ft_isdir t = false) fs /\ Forall (fun t => ft_isdir t = true) ds /\
    StronglySorted name_lt fs /\ StronglySorted name_lt ds.
Proof. exact ordered_strict. Qed.
Print Assumptions C19_sorted_strict.

(* ---- sort=True: the tree does not depend on the order in which the OS lists a folder ---- *)
Theorem C19_listing_order_irrelevant : forall l l' : list fsn,
  Permutation l l' -> NoDup (reg_names l) -> load true l = load true l'.
Proof. exact load_listing_independent. Qed.
Print Assumptions C19_listing_order_irrelevant.

(* ... at every depth: [lperm] relates directories that differ only in the order of
   their listings, [wf_listing] = names are distinct within each folder *)
Theorem C19_listing_order_irrelevant_deep : forall l l' : list fsn,
  lperm l l' -> wf_listing l -> load true l = load true l'.
Proof. exact load_order_independent. Qed.
Print Assumptions C19_listing_order_irrelevant_deep.

(* ---- the explicit bijection: the tree read back as a directory ([dir_of]: a node with the
   directory flag becomes a folder holding its children, any other node a file) IS the
   scanned directory without the skipped special files ([strip_l]) up to the order of
   every listing ([lperm]); so nodes and entries correspond one to one, with the same
   parent, name, flag, size, mtime.  For sort on and off, for every listing order ---- *)
Theorem C19_tree_is_the_directory : forall (sort : bool) (listing : list fsn),
  lperm (strip_l listing) (dir_of (load sort listing)).
Proof. exact load_is_directory. Qed.
Print Assumptions C19_tree_is_the_directory.

Theorem C19_special_files_are_ignored : forall (sort : bool) (listing : list fsn),
  load sort (strip_l listing) = load sort listing.
Proof. exact load_strip. Qed.
Print Assumptions C19_special_files_are_ignored.

(* ---- sort=True: the result is canonical ([canon]: every folder ordered, names distinct, folder
   nodes carry size 0 / no mtime, file nodes are leaves with an mtime) and it is the ONLY
   canonical tree that is the directory up to listing order: the statements above determine
   the output completely ---- *)
Theorem C19_sorted_tree_canonical : forall listing : list fsn,
  wf_listing listing -> canon (load true listing).
Proof. exact load_canon. Qed.
Print Assumptions C19_sorted_tree_canonical.

Theorem C19_sorted_tree_unique : forall (listing : list fsn) (g : list ft),
  wf_listing listing -> lperm listing (dir_of g) -> canon g -> load true listing = g.
Proof. exact load_unique. Qed.
Print Assumptions C19_sorted_tree_unique.

(* ---- the FileSystemTree mappers are inverse on FileSystemEntry ----
   [entry_ok]: a folder entry has size 0 and no mdate (what the constructor and the loader
   produce; files are unrestricted); [data] is the dict handed to the serialize mapper
   ({} or {"data_id": ..}); it must not already hold a key "d". *)
Theorem C19_mappers_inverse : forall (e : fse) (data : dict),
  dict_get k_d data = None -> entry_ok e -> deser (ser e data) = Some e.
Proof. exact deser_ser. Qed.
Print Assumptions C19_mappers_inverse.

(* every node of every loaded tree carries such an entry *)
Theorem C19_loaded_entries_ok : forall (sort : bool) (listing : list fsn) (pre : list text),
  Forall (fun pe => entry_ok (snd pe)) (tree_entries pre (load sort listing)).
Proof. exact load_entries_ok. Qed.
Print Assumptions C19_loaded_entries_ok.

(* FileSystemEntry.__init__: what an accepted call guarantees *)
Theorem C19_entry_constructor : forall n d s m e,
  mk_entry n d s m = Some e ->
  e_name e = n /\ e_isdir e = d /\ e_mdate e = m /\
  (d = true -> s = None /\ e_size e = 0) /\ (d = false -> s = Some (e_size e)).
Proof. exact mk_entry_inv. Qed.
Print Assumptions C19_entry_constructor.

(* ---- save + load of a FileSystemTree: [to_list] = Node.to_list_iter with the serialize mapper
   (parent-referencing flat list, pre-order numbers), [from_list] = Tree._from_list with the
   deserialize mapper; byte transport (json, zip) is the identity (trusted, exercised).
   Every forest whose entries are [entry_ok] comes back unchanged: same shape, same order,
   same name / flag / size / mtime on every node ---- *)
Theorem C19_save_load_roundtrip : forall f : list ft, ok_f f -> save_load f = Some f.
Proof. exact save_load_roundtrip. Qed.
Print Assumptions C19_save_load_roundtrip.

(* ... in particular every tree that load_tree_from_fs builds, for every directory, listing order, sort flag *)
Theorem C19_loaded_tree_survives_save_load : forall (sort : bool) (listing : list fsn),
  save_load (load sort listing) = Some (load sort listing).
Proof. exact load_save_load. Qed.
Print Assumptions C19_loaded_tree_survives_save_load.

(* outside [entry_ok] the mappers are NOT inverse (a folder entry built by hand with an
   mdate loses it): the hypothesis is needed; the loader never builds such an entry *)
Example C19_mappers_need_entry_ok :
  mk_entry [100] true None (Some (5, 1)) = Some (E [100] true 0 (Some (5, 1))) /\
  deser (ser (E [100] true 0 (Some (5, 1))) []) = Some (E [100] true 0 None).
Proof. vm_compute. split; reflexivity. Qed.

(* ---- surrounding code: FileSystemEntry.__repr__ (= node.name, what tree.format() prints) ----
   the date shown for an mtime: [civil_from_days] always yields a valid Gregorian date (month
   1..12, day within the month, leap years every 4th year except centuries not divisible by
   400) whose day number ([days_from_civil], the usual closed formula) is the given day *)
Theorem C19_repr_calendar : forall z : Z,
  let '(y, m, d) := civil_from_days z in
  1 <= m <= 12 /\ 1 <= d <= month_len y m /\ days_from_civil y m d = z.
Proof. exact civil_spec. Qed.
Print Assumptions C19_repr_calendar.

(* the quoted name ({self.name!r}) can be read back: a decoder of Python string literals
   ([decode]: the quote, backslash, t n r, xhh, uhhhh and Uhhhhhhhh escapes) inverts [repr_str] on every
   text of code points, whatever the Unicode database calls printable ([p]); so different
   file names are always shown differently *)
Theorem C19_repr_name_decodable : forall (p : Z -> bool) (s : text),
  Forall cp_ok s -> decode (repr_str p s) = Some s.
Proof. exact decode_repr_str. Qed.
Print Assumptions C19_repr_name_decodable.

Theorem C19_repr_name_injective : forall (p : Z -> bool) (a b : text),
  Forall cp_ok a -> Forall cp_ok b -> repr_str p a = repr_str p b -> a = b.
Proof. exact repr_str_injective. Qed.
Print Assumptions C19_repr_name_injective.

(* a name with both kinds of quotes, a backslash, TAB, U+00E9 (printable), U+200B (not), U+E0001 (not) *)
Example C19_repr_name_sample :
  repr_str (fun c => c =? 233) [105; 116; 39; 115; 32; 34; 120; 34; 92; 9; 233; 8203; 917505] =
  [39; 105; 116; 92; 39; 115; 32; 34; 120; 34; 92; 92; 92; 116; 233; 92; 117; 50; 48; 48; 98;
   92; 85; 48; 48; 48; 101; 48; 48; 48; 49; 39] /\
  decode [39; 105; 116; 92; 39; 115; 32; 34; 120; 34; 92; 92; 92; 116; 233; 92; 117; 50; 48; 48; 98;
          92; 85; 48; 48; 48; 101; 48; 48; 48; 49; 39] = Some [105; 116; 39; 115; 32; 34; 120; 34; 92; 9; 233; 8203; 917505].
Proof. vm_compute. split; reflexivity. Qed.

(* the size shown with ',' separators: removing the commas gives sign + decimal digits; a
   comma stands after every third digit from the right ([group3] works on the reversed digits) *)
Theorem C19_repr_thousands : forall z : Z,
  filter not_comma (fmt_thousands z) = (if z <? 0 then [45] else []) ++ dec_text z /\
  (forall a b c r, r <> [] -> group3 3 (a :: b :: c :: r) = a :: b :: c :: 44 :: group3 3 r) /\
  (forall l, (length l <= 3)%nat -> group3 3 l = l).
Proof. intros z. exact (conj (fmt_thousands_digits z) (conj group3_step group3_short)). Qed.
Print Assumptions C19_repr_thousands.

(* folders are shown as "[name]"; different names are shown differently *)
Theorem C19_repr_folder : forall (p : Z -> bool) (a b : text),
  repr_entry p (entry_dir a) = Some ([91] ++ a ++ [93]) /\
  (repr_entry p (entry_dir a) = repr_entry p (entry_dir b) -> a = b).
Proof. intros p a b. exact (conj (repr_dir p a) (repr_dir_injective p a b)). Qed.
Print Assumptions C19_repr_folder.

(* 'file_1.txt', 1,234,567 bytes, 2000-02-29 23:59:59   (951868799 = last second of a leap day) *)
Example C19_repr_sample :
  repr_entry (fun _ => false) (entry_file [102; 105; 108; 101; 95; 49; 46; 116; 120; 116] 1234567 (7614950399, 8)) =
  Some [39; 102; 105; 108; 101; 95; 49; 46; 116; 120; 116; 39; 44; 32; 49; 44; 50; 51; 52; 44; 53; 54; 55; 32; 98; 121; 116; 101; 115; 44; 32;
        50; 48; 48; 48; 45; 48; 50; 45; 50; 57; 32; 50; 51; 58; 53; 57; 58; 53; 57].
Proof. vm_compute. reflexivity. Qed.

(* ---- generated fact: FileSystemTree.DEFAULT_KEY_MAP is empty, so save() does not
   shorten "str" to "s" and the size key "s" of the mapper is not renamed on load ---- *)
Theorem C19_fs_key_map_empty : FS_KEY_MAP = [].
Proof. vm_compute. reflexivity. Qed.
Print Assumptions C19_fs_key_map_empty.

(* ---- generated facts (harness/gen_facts.py, ast walk of nutree/fs.py): the keys the two
   mappers write and read and the sort keys of load_tree_from_fs are the ones of the model;
   a change of the source text breaks these obligations ---- *)
Definition t_name : text := [110; 97; 109; 101].          (* "name" *)
Definition t_size : text := [115; 105; 122; 101].         (* "size" *)
Definition t_mdate : text := [109; 100; 97; 116; 101].    (* "mdate" *)
Definition t_True : text := [84; 114; 117; 101].          (* "True" *)
Definition t_data (k : text) : text := [100; 97; 116; 97; 58] ++ k.   (* data["k"] *)

Theorem C19_source_keys_are_model_keys :
  FS_SER_DIR = [(k_n, t_name); (k_d, t_True)] /\
  FS_SER_FILE = [(k_n, t_name); (k_s, t_size); (k_m, t_mdate)] /\
  map fst FS_SER_DIR = map fst (ser (E [] true 0 None) []) /\
  map fst FS_SER_FILE = map fst (ser (E [] false 0 None) []) /\
  FS_DESER_TEST = k_d /\
  FS_DESER_DIR = [([], t_data k_n); ([105; 115; 95; 100; 105; 114], t_True)] /\
  FS_DESER_FILE = [([], t_data k_n); (t_size, t_data k_s); (t_mdate, t_data k_m)] /\
  FS_SORT_CALLS = [([102; 105; 108; 101; 115], [97; 116; 116; 114; 103; 101; 116; 116; 101; 114; 58] ++ t_name);
                   ([100; 105; 114; 115], [105; 116; 101; 109; 103; 101; 116; 116; 101; 114; 58; 48])] /\
  FS_DIRS_TUPLE = [[99]; [111]].
Proof. vm_compute. repeat split; reflexivity. Qed.
Print Assumptions C19_source_keys_are_model_keys.

(* ---- non-vacuity: a directory with nesting, an empty folder, a special file,
   sort-sensitive names; two different listing orders ---- *)
Definition ex_dir : list fsn :=
  [ Dir [97] [File [49; 48] 3 (1000, 1); File [57] 0 (11, 2); Dir [66] []; File [95; 120] 1 (7, 1)];
    File [228] 13 (1600000000, 1); Other [112]; File [66] 2 (2, 1); Dir [95; 120] [Dir [121] [File [122] 9 (3, 1)]];
    File [98] 1 (1, 1); Dir [49; 48] []; Dir [57] [] ].
Definition ex_dir' : list fsn :=
  [ Dir [57] []; File [98] 1 (1, 1); Dir [95; 120] [Dir [121] [File [122] 9 (3, 1)]]; Other [112];
    Dir [97] [Dir [66] []; File [95; 120] 1 (7, 1); File [57] 0 (11, 2); File [49; 48] 3 (1000, 1)];
    Dir [49; 48] []; File [66] 2 (2, 1); File [228] 13 (1600000000, 1) ].

Example C19_example_sorted :
  map ft_name (load true ex_dir) = [[66]; [98]; [228]; [49; 48]; [57]; [95; 120]; [97]] /\
  map ft_name (load false ex_dir) = [[97]; [228]; [66]; [95; 120]; [98]; [49; 48]; [57]] /\
  length (folders (load true ex_dir)) = 14%nat /\
  length (tree_entries [] (load true ex_dir)) = 13%nat /\
  load true ex_dir = load true ex_dir' /\ load false ex_dir <> load false ex_dir' /\
  save_load (load true ex_dir) = Some (load true ex_dir).
Proof. vm_compute. repeat split; try reflexivity. intros H; discriminate H. Qed.

Ltac nodup19 := repeat (constructor; [cbn; intuition discriminate|]); constructor.
Ltac perm19 := apply NoDup_Permutation; [nodup19|nodup19|intros x; cbn; tauto].

Example C19_example_hypotheses :
  NoDup (reg_names ex_dir) /\ wf_listing ex_dir /\ lperm ex_dir ex_dir'.
Proof.
  split; [|split].
  - vm_compute. repeat (constructor; [cbn; intuition discriminate|]). constructor.
  - split; [vm_compute; nodup19|].
    cbn. repeat split; nodup19.
  - exists [ Dir [97] [Dir [66] []; File [95; 120] 1 (7, 1); File [57] 0 (11, 2); File [49; 48] 3 (1000, 1)];
             File [228] 13 (1600000000, 1); Other [112]; File [66] 2 (2, 1); Dir [95; 120] [Dir [121] [File [122] 9 (3, 1)]];
             File [98] 1 (1, 1); Dir [49; 48] []; Dir [57] [] ].
    split.
    + repeat constructor.
      eapply FP_dir with (l1 := [File [49; 48] 3 (1000, 1); File [57] 0 (11, 2); Dir [66] []; File [95; 120] 1 (7, 1)]).
      * repeat constructor. eapply FP_dir with (l1 := []); constructor.
      * perm19.
      * eapply FP_dir with (l1 := [Dir [121] [File [122] 9 (3, 1)]]); [|reflexivity].
        repeat constructor. eapply FP_dir with (l1 := [File [122] 9 (3, 1)]); [repeat constructor|reflexivity].
      * eapply FP_dir with (l1 := []); constructor.
      * eapply FP_dir with (l1 := []); constructor.
    + unfold ex_dir'. perm19.
Qed.

Example C19_example_canon :
  canon (load true ex_dir) /\ length (dir_of (load true ex_dir)) = 7%nat /\
  length (strip_l ex_dir) = 7%nat /\ length ex_dir = 8%nat /\
  load true (dir_of (load false ex_dir)) = load true ex_dir.
Proof.
  split; [apply C19_sorted_tree_canonical; apply C19_example_hypotheses|].
  vm_compute. repeat split; reflexivity.
Qed.

(* the generated facts this property uses were lifted from the current source *)
Theorem C19_generated_facts_present : GEN_FS_OK = true /\ GEN_CONST_OK = true.
Proof. split; reflexivity. Qed.
Print Assumptions C19_generated_facts_present.

(* ====================================================================================== *)
(* Glue C19 <-> C05/C12 (theories/Glue/GlueFs.v).  The save / load of a FileSystemTree above ([to_list],
   [from_list] of Forest/FsLoad.v, with FsLoad's own JSON values and dicts) is the INSTANCE of the general
   serialisation model Forest/Serialize.v for the class CFs and the FS mappers:
     [emb_f 1 f]  the FS tree as a forest of the general model (identity = pre-order position, payload = a
                  non-str object with identity hash and default data_id; the FileSystemEntry record in the
                  meta slot, where the mappers read it: [dec (einfo pos e) = e]),
     [ser_fs] / [deser_fs]  FileSystemTree.serialize_mapper / deserialize_mapper in the general model's
                  interface ([ser_fs i (tdict d) = tdict (ser (dec i) d)]),
     [tdict] / [tr_entry]   FsLoad's dicts and (parent index, dict) entries as values of the general JSON type.
   So C19_save_load_roundtrip is the general round trip of C05/C12 (writer = layout, reader (layout) =
   described, proved in Properties/C12.v) at this instance.  Imports: FsLoad*, Serialize.v, SerializeSpec.v and
   generated-fact-free proof files (SerLayFacts, SerUnflatProofs) only. *)
From NT Require Serialize GlueFs.

Theorem C19_mappers_are_the_general_models : forall i d,
  GlueFs.ser_fs i (GlueFs.tdict d) = GlueFs.tdict (ser (GlueFs.dec i) d) /\
  (forall pos e, GlueFs.dec (GlueFs.einfo pos e) = e).
Proof. intros i d. split; [apply GlueFs.ser_fs_is_ser|apply GlueFs.dec_einfo]. Qed.
Print Assumptions C19_mappers_are_the_general_models.

(* WRITER: Node.to_list_iter of the general model, run on the embedded tree with the FS serialize mapper and no
   key / value maps (C19_fs_key_map_empty), yields exactly the entries of [to_list] *)
Theorem C19_to_list_is_the_general_writer : forall f : list ft,
  Serialize.to_list_iter Serialize.CFs GlueFs.ser_fs [] [] (GlueFs.emb_f 1%nat f) = Serialize.Ok (map GlueFs.tr_entry (to_list f)).
Proof. exact GlueFs.fs_to_list_is_to_list_iter. Qed.
Print Assumptions C19_to_list_is_the_general_writer.

(* READER: on that file Tree._from_list of the general model, with the FS deserialize mapper, rebuilds the tree
   [from_list] rebuilds: same shape, same positions, same names (the general model's rebuilt data object
   carries name / str-ness / hash only; the remaining fields are covered by C19_mappers_inverse) *)
Theorem C19_from_list_is_the_general_reader : forall shash (f : list ft), ok_f f ->
  Serialize.from_list Serialize.CFs GlueFs.deser_fs shash (map GlueFs.tr_entry (to_list f)) = Serialize.Ok (map GlueFs.strip_t (GlueFs.emb_f 1%nat f)) /\
  from_list (to_list f) = Some f.
Proof. exact GlueFs.fs_from_list_is_from_list. Qed.
Print Assumptions C19_from_list_is_the_general_reader.

Example C19_general_model_nonvacuous :
  let f := [FN (entry_dir [100%Z]) [FN (entry_file [97%Z] 3 (7, 2)%Z) []; FN (entry_dir [101%Z]) []]; FN (entry_file [98%Z] 0 (1, 1)%Z) []] in
  Serialize.to_list_iter Serialize.CFs GlueFs.ser_fs [] [] (GlueFs.emb_f 1%nat f) = Serialize.Ok (map GlueFs.tr_entry (to_list f)) /\
  length (to_list f) = 4%nat /\
  Serialize.from_list Serialize.CFs GlueFs.deser_fs (fun _ => 0%Z) (map GlueFs.tr_entry (to_list f)) = Serialize.Ok (map GlueFs.strip_t (GlueFs.emb_f 1%nat f)) /\
  save_load f = Some f.
Proof. vm_compute. repeat split. Qed.
