(* C17 — stub, replaced below *)
From Coq Require Import List ZArith Bool Arith.
From NT Require Import Sx Rose Export.
Import ListNotations.
Theorem C17_stub : forall u s, length (dot_edges u true s) = length (desc_p s).
Proof. intros u s. unfold dot_edges. cbn. induction (desc_p s); cbn; auto. Qed.
Print Assumptions C17_stub.
