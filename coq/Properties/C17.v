(* C17 — DOT, Mermaid and RDF exports describe exactly the tree's edges.
   Statements only; proofs are in theories/Forest/ExportProofs.v, the
   executable model (node_to_dot, _node_to_mermaid_flowchart_iter,
   _add_child_node(s), node_to_rdf, tree_to_rdf) in theories/Forest/Export.v.

   [s] is the start node of an export with everything below it (the system
   root for the Tree API); all statements are for arbitrary [s] (unbounded).
   Vocabulary of the statements (all defined in ExportProofs.v, none of them
   by the recursion of the model):
     export a s        = (if a then [s] else []) ++ pre_f (rch s)   the exported nodes
     tree edge         = a pair (p, c) with In p (pre s) /\ In c (rch p)
     key u n           = KD (data_id n) if unique_nodes else KN (identity of n)
     first_occ l       = rev (nodup (rev l))         first occurrences, in order
     parent_in s c     = the parent of c, found by searching the nodes below s
     in_exportb a s p  = p is (by identity) one of the exported nodes
     kinv m i          = the key that the Mermaid node table m numbers i
   The flag [true] passed first to dot_nodes / rdf_* selects the repaired code
   (D36, D37); the last section refutes the statements for the code before. *)
From Coq Require Import List ZArith Bool Arith Permutation.
From NT Require Import Sx Rose Export ExportProofs.
From NT Require MiscMermaid MiscMermaidProofs.   (* part MERMAIDDEF, imported at the end of this file *)
From NT Require MiscWriters MiscWritersProofs.   (* part WRITERS, imported at the end of this file *)
From NT Require Nav.
From NT Require CaseC17.   (* the correspondence entry point is rebuilt with the obligations *)
From NTGen Require Import Generated.
Import ListNotations.

(* ================================================================ tree edges *)
(* [desc_p s] is what all three exporters iterate: each node below s with its
   _parent.  One pair per descendant, in pre-order: *)
Theorem C17_edges_one_per_descendant_in_preorder : forall s, map snd (desc_p s) = pre_f (rch s).
Proof. exact desc_p_snd. Qed.
Print Assumptions C17_edges_one_per_descendant_in_preorder.

(* the pairs are exactly the parent-child links below s *)
Theorem C17_edges_are_the_links : forall s p c, In (p, c) (desc_p s) <-> In p (pre s) /\ In c (rch p).
Proof. exact desc_p_in. Qed.
Print Assumptions C17_edges_are_the_links.

(* with unique node identities: every descendant occurs with exactly one
   parent, and it is the one a search over the nodes finds *)
Theorem C17_edges_unique_parent : forall s p1 p2 c,
  NoDup (ids_t s) -> In (p1, c) (desc_p s) -> In (p2, c) (desc_p s) -> p1 = p2.
Proof. exact desc_p_parent_unique. Qed.
Print Assumptions C17_edges_unique_parent.

Theorem C17_edges_by_search : forall s, NoDup (ids_t s) ->
  desc_p s = flat_map (fun c => match parent_in s c with Some p => [(p, c)] | None => [] end) (pre_f (rch s)).
Proof. exact desc_p_by_search. Qed.
Print Assumptions C17_edges_by_search.

(* the _parent the exporters read is the parent the relationship queries of C10
   report: [None] (top level) for a child of the system root, else that node *)
Theorem C17_edges_agree_with_parent_query : forall root p c,
  NoDup (ids_t root) -> In (p, c) (desc_p root) ->
  exists cx, Nav.locate_f (rid c) (rch root) = Some cx /\ Nav.c_self cx = c /\
             Nav.q_parent cx = if same_node p root then None else Some p.
Proof. exact edges_agree_with_parent_query. Qed.
Print Assumptions C17_edges_agree_with_parent_query.

(* ======================================================================= DOT *)
(* node definitions: one per distinct key, first occurrences of
   (start node?) ++ pre-order descendants *)
Theorem C17_dot_node_keys : forall u a isroot tn s, NoDup (ids_t s) ->
  map dkey (dot_nodes true u a isroot tn s) = first_occ (map (key u) (export a s)).
Proof. exact dot_nodes_keys. Qed.
Print Assumptions C17_dot_node_keys.

(* unique_nodes=True needs no hypothesis; unique_nodes=False never merges *)
Theorem C17_dot_node_keys_unique : forall a isroot tn s,
  map dkey (dot_nodes true true a isroot tn s) = first_occ (map (key true) (export a s)).
Proof. exact dot_nodes_keys_unique. Qed.
Print Assumptions C17_dot_node_keys_unique.

Theorem C17_dot_node_keys_per_node : forall a isroot tn s,
  map dkey (dot_nodes true false a isroot tn s) = map (key false) (export a s).
Proof. exact dot_nodes_keys_all. Qed.
Print Assumptions C17_dot_node_keys_per_node.

(* what first_occ means: no key twice, every key present *)
Theorem C17_first_occ_set : forall l, NoDup (first_occ l) /\ (forall k, In k (first_occ l) <-> In k l).
Proof. exact all_first_occ_set. Qed.
Print Assumptions C17_first_occ_set.

Theorem C17_dot_no_key_defined_twice : forall u a isroot tn s, NoDup (ids_t s) ->
  NoDup (map dkey (dot_nodes true u a isroot tn s)).
Proof. exact dot_nodes_keys_NoDup. Qed.
Print Assumptions C17_dot_no_key_defined_twice.

Theorem C17_dot_every_exported_node_defined : forall u a isroot tn s k, NoDup (ids_t s) ->
  (In k (map dkey (dot_nodes true u a isroot tn s)) <-> exists n, In n (export a s) /\ key u n = k).
Proof. exact dot_nodes_keys_In. Qed.
Print Assumptions C17_dot_every_exported_node_defined.

(* the start node's definition is first (boxed and named after the tree for
   the system root, unlabelled otherwise); every other definition carries the
   name of the first exported node with that key *)
Theorem C17_dot_start_definition : forall u isroot tn s,
  hd_error (dot_nodes true u true isroot tn s) = Some (key u s, if isroot then Some tn else None, isroot).
Proof. exact dot_nodes_head. Qed.
Print Assumptions C17_dot_start_definition.

Theorem C17_dot_labels : forall u a isroot tn s (d : ddef), NoDup (ids_t s) ->
  In d (dot_loop_part a (dot_nodes true u a isroot tn s)) ->
  exists n, In n (pre_f (rch s)) /\ find (has_key u (dkey d)) (export a s) = Some n /\
            d = (key u n, Some (rname n), false).
Proof. exact dot_nodes_labels. Qed.
Print Assumptions C17_dot_labels.

(* edges: exactly one (key parent, key n, kind n) per node whose parent is part
   of the export, in pre-order; for typed trees the label is the CHILD's kind *)
Theorem C17_dot_edges : forall u a s, NoDup (ids_t s) ->
  dot_edges u a s
  = map (fun pn => (key u (fst pn), key u (snd pn), rkind (snd pn)))
        (filter (fun pn => in_exportb a s (fst pn)) (desc_p s)).
Proof. exact dot_edges_spec. Qed.
Print Assumptions C17_dot_edges.

Theorem C17_dot_edges_with_start : forall u s,
  dot_edges u true s = map (fun pn => (key u (fst pn), key u (snd pn), rkind (snd pn))) (desc_p s).
Proof. exact dot_edges_with. Qed.
Print Assumptions C17_dot_edges_with_start.

(* excluding the start node removes the edges leaving it and nothing else:
   with it, every child c of s contributes (s -> c) followed by its own
   export; without it, just its own export *)
Theorem C17_dot_exclusion_edges : forall u s, NoDup (ids_t s) ->
  dot_edges u true s = flat_map (fun c => dot_edge u (s, c) :: dot_edges u true c) (rch s) /\
  dot_edges u false s = flat_map (fun c => dot_edges u true c) (rch s) /\
  Permutation (dot_edges u true s) (map (fun c => dot_edge u (s, c)) (rch s) ++ dot_edges u false s).
Proof. exact all_dot_exclusion_edges. Qed.
Print Assumptions C17_dot_exclusion_edges.

(* ... and removes the start node's definition only: the other definitions
   are those of the export without it, minus a clone of the start node *)
Theorem C17_dot_exclusion_nodes : forall u isroot tn s, NoDup (ids_t s) ->
  map dkey (dot_nodes true u true isroot tn s)
  = key u s :: filter (fun k => negb (gkey_eqb k (key u s))) (map dkey (dot_nodes true u false isroot tn s)).
Proof. exact dot_nodes_exclusion. Qed.
Print Assumptions C17_dot_exclusion_nodes.

Theorem C17_dot_edge_counts : forall u s, NoDup (ids_t s) ->
  length (dot_edges u true s) = length (pre_f (rch s)) /\
  length (dot_edges u true s) = length (rch s) + length (dot_edges u false s).
Proof. exact dot_edges_counts. Qed.
Print Assumptions C17_dot_edge_counts.

(* both ends of every edge are defined *)
Theorem C17_dot_edges_between_defined_nodes : forall u a isroot tn s x y l, NoDup (ids_t s) ->
  In (x, y, l) (dot_edges u a s) ->
  In x (map dkey (dot_nodes true u a isroot tn s)) /\ In y (map dkey (dot_nodes true u a isroot tn s)).
Proof. exact dot_edges_closed. Qed.
Print Assumptions C17_dot_edges_between_defined_nodes.

(* the DOT document as text ([dot_doc]: header, default definitions, one line
   per definition and per edge of the lists above, rendered with [attr_str]).
   Attribute dicts behave as Python dicts under a mapper's [data[k] = v]: *)
Theorem C17_dot_mapper_sets_one_attribute : forall k v d,
  aget k (dset k v d) = Some v /\
  (forall k2, k2 <> k -> aget k2 (dset k v d) = aget k2 d) /\
  map fst (dset k v d) = (if existsb (text_eqb k) (map fst d) then map fst d else map fst d ++ [k]).
Proof. exact all_dot_mapper_sets_one_attribute. Qed.
Print Assumptions C17_dot_mapper_sets_one_attribute.

(* the document is the rendering of exactly the definitions and edges above *)
Theorem C17_dot_document : forall o isroot tn s,
  dot_doc o isroot tn s
  = dot_head o tn
    ++ map (ddef_line (do_nmap o)) (dot_nodes true (do_unique o) (do_add_self o) isroot tn s)
    ++ [[]; D_edges]
    ++ map (dedge_line (do_emap o)) (dot_edges (do_unique o) (do_add_self o) s)
    ++ [[125%Z]].
Proof. reflexivity. Qed.
Print Assumptions C17_dot_document.

(* two different int data_ids never print as the same DOT key *)
Theorem C17_dot_int_keys_print_injectively : forall a b,
  key_text (KD (DInt a)) = key_text (KD (DInt b)) -> a = b.
Proof. exact key_text_int_inj. Qed.
Print Assumptions C17_dot_int_keys_print_injectively.

(* =================================================================== Mermaid *)
(* id_to_idx: the distinct keys in first-occurrence order, numbered
   consecutively from 0 (start node included) or 1 *)
Theorem C17_mermaid_table : forall u a s,
  map fst (mer_map u a s) = first_occ (map (key u) (export a s)) /\
  map snd (mer_map u a s) = seq (if a then 0 else 1) (length (first_occ (map (key u) (export a s)))).
Proof. exact all_mermaid_table. Qed.
Print Assumptions C17_mermaid_table.

(* node lines: one per table entry, in order; line i shows the name of the
   first exported node whose key is numbered i; index 0 alone is the hexagon *)
Theorem C17_mermaid_node_lines : forall u a s,
  map (fun d : mnode => fst (fst d)) (mer_nodes u a s) = map snd (mer_map u a s) /\
  (forall i nm r, In (i, nm, r) (mer_nodes u a s) ->
     exists n, In (key u n, i) (mer_map u a s) /\ find (has_key u (key u n)) (export a s) = Some n /\
               nm = rname n /\ r = Nat.eqb i 0).
Proof. exact all_mermaid_node_lines. Qed.
Print Assumptions C17_mermaid_node_lines.

(* edge lines: no table lookup fails, and decoding the two indices of every
   line through the table gives exactly the DOT edge list (same nodes, same
   order, kind of the child; an empty kind is drawn without label) *)
Theorem C17_mermaid_edges_decode : forall u a s,
  map (mer_decode (mer_map u a s)) (mer_edges u a s)
  = map (fun e : dedge => (Some (fst (fst e)), Some (snd (fst e)), mer_label (snd e))) (dot_edges u a s).
Proof. exact mer_edges_decode. Qed.
Print Assumptions C17_mermaid_edges_decode.

(* the text of the lines: obligations on the templates GENERATED from
   nutree/mermaid.py (a template change breaks these) *)
Theorem C17_mermaid_templates :
  tokenize MERMAID_DEFAULT_EDGE_TEMPLATE = Some [TField F_from_id; TLit S_arrow; TField F_to_id] /\
  tokenize MERMAID_DEFAULT_EDGE_TEMPLATE_TYPED
    = Some [TField F_from_id; TLit S_tarrow1; TField F_kind; TLit S_tarrow2; TField F_to_id] /\
  tokenize MERMAID_DEFAULT_NODE_TEMPLATE = Some [TField F_node_name].
Proof. exact all_mermaid_templates. Qed.
Print Assumptions C17_mermaid_templates.

Theorem C17_mermaid_line_text : forall i j k nm,
  mer_edge_text (Some i, Some j, None) = Some (dec i ++ S_arrow ++ dec j) /\
  mer_edge_text (Some i, Some j, Some k) = Some (dec i ++ S_tarrow1 ++ k ++ S_tarrow2 ++ dec j) /\
  mer_node_text (i, nm, false) = Some (dec i ++ [40; 34]%Z ++ nm ++ [34; 41]%Z) /\
  undec (dec i) = Some i.
Proof. exact all_mermaid_line_text. Qed.
Print Assumptions C17_mermaid_line_text.

Theorem C17_mermaid_every_edge_line_renders : forall u a s e, In e (mer_edges u a s) -> mer_edge_text e <> None.
Proof. exact mer_edge_text_defined. Qed.
Print Assumptions C17_mermaid_every_edge_line_renders.

(* the whole chart (header for the options, node lines, edge lines, closing
   fence).  Default mappers: the export never raises and its lines are the
   renderings of the node table and of the edge list above *)
Theorem C17_mermaid_chart_default : forall o s, mo_node_templ o = None -> mo_edge_templ o = None ->
  exists N E,
    mer_chart o s = Some (mer_head o s ++ N ++ [[]; L_edges] ++ E ++ mer_tail o) /\
    map Some N = map mer_node_text (mer_nodes (mo_unique o) (mo_add_root o) s) /\
    map Some E = map mer_edge_text (mer_edges (mo_unique o) (mo_add_root o) s).
Proof. exact mer_chart_default. Qed.
Print Assumptions C17_mermaid_chart_default.

(* any string templates: if the export does not raise, there is one node line
   per distinct key and one edge line per exported edge *)
Theorem C17_mermaid_chart_shape : forall o s ls, mer_chart o s = Some ls ->
  exists N E,
    ls = mer_head o s ++ N ++ [[]; L_edges] ++ E ++ mer_tail o /\
    length N = length (first_occ (map (key (mo_unique o)) (export (mo_add_root o) s))) /\
    length E = length (dot_edges (mo_unique o) (mo_add_root o) s).
Proof. exact mer_chart_shape. Qed.
Print Assumptions C17_mermaid_chart_shape.

(* the literal lines of both generators, lifted from the source by gen_facts
   (every [yield] in source order; {placeholders} as code point 0, other
   expressions as [1]): the model's line constants are these literals *)
Theorem C17_mermaid_source_lines :
  MERMAID_YIELDS =
  [ L_md_open; L_dashes; L_title ++ HOLE; L_dashes; []; L_generator; []; L_flowchart ++ HOLE;
    []; L_headers; []; L_nodes;
    [48; 123; 123; 34]%Z ++ HOLE ++ [34; 125; 125]%Z;
    HOLE ++ [40; 34]%Z ++ HOLE ++ [34; 41]%Z;
    []; L_edges; [1%Z]; L_md_close ].
Proof. exact mermaid_source_lines. Qed.
Print Assumptions C17_mermaid_source_lines.

Theorem C17_dot_source_lines :
  DOT_INDENT = D_indent /\
  DOT_YIELDS =
  [ D_generator; D_digraph ++ HOLE ++ D_open; [];
    HOLE ++ skipn 2 D_defaults; HOLE ++ skipn 2 D_graph ++ HOLE; HOLE ++ skipn 2 D_node ++ HOLE;
    HOLE ++ skipn 2 D_edge ++ HOLE; [];
    HOLE ++ skipn 2 D_nodes; HOLE ++ HOLE ++ HOLE; HOLE ++ HOLE ++ HOLE; [];
    HOLE ++ skipn 2 D_edges; HOLE ++ HOLE ++ D_arrow ++ HOLE ++ HOLE; [125%Z] ].
Proof. exact dot_source_lines. Qed.
Print Assumptions C17_dot_source_lines.

(* ======================================================================= RDF *)
(* a triple SET: the has_child triples are exactly the image of the tree edges
   whose parent is exported -- whatever a node_mapper answers ([sk n]: it
   answers False for n, which only suppresses n's standard attributes) *)
Theorem C17_rdf_edges_of_node : forall sk a s x y,
  In (THasChild x y) (rdf_of_node true sk a s) <->
  exists p c, In p (export a s) /\ In c (rch p) /\ x = RLit (rdid p) /\ y = RLit (rdid c).
Proof. exact rdf_of_node_has_child. Qed.
Print Assumptions C17_rdf_edges_of_node.

Theorem C17_rdf_edges_of_tree : forall tn root x y,
  In (THasChild x y) (rdf_of_tree true tn root) <->
  (x = RSys /\ exists c, In c (rch root) /\ y = RLit (rdid c)) \/
  (exists p c, In p (pre_f (rch root)) /\ In c (rch p) /\ x = RLit (rdid p) /\ y = RLit (rdid c)).
Proof. exact rdf_of_tree_has_child. Qed.
Print Assumptions C17_rdf_edges_of_tree.

(* one name triple (and kind triple for typed nodes) per exported node, one
   index triple per node below the start: its position among its siblings *)
Theorem C17_rdf_attributes_of_node : forall fx sk a s g,
  (forall nm, In (TName g nm) (rdf_of_node fx sk a s) <->
              exists n, In n (export a s) /\ sk n = false /\ g = RLit (rdid n) /\ nm = rname n) /\
  (forall k, In (TKind g k) (rdf_of_node fx sk a s) <->
             exists n, In n (export a s) /\ sk n = false /\ g = RLit (rdid n) /\ rkind n = Some k) /\
  (forall i, In (TIndex g i) (rdf_of_node fx sk a s) <->
             exists p c, In p (pre s) /\ nth_error (rch p) i = Some c /\ sk c = false /\ g = RLit (rdid c)).
Proof. exact all_rdf_attributes_of_node. Qed.
Print Assumptions C17_rdf_attributes_of_node.

Theorem C17_rdf_attributes_of_tree : forall fx tn root g,
  (forall nm, In (TName g nm) (rdf_of_tree fx tn root) <->
              (g = RSys /\ nm = tn) \/ exists n, In n (pre_f (rch root)) /\ g = RLit (rdid n) /\ nm = rname n) /\
  (forall k, In (TKind g k) (rdf_of_tree fx tn root) <->
             exists n, In n (pre_f (rch root)) /\ g = RLit (rdid n) /\ rkind n = Some k) /\
  (forall i, In (TIndex g i) (rdf_of_tree fx tn root) <->
             exists p c, In p (pre root) /\ nth_error (rch p) i = Some c /\ g = RLit (rdid c)).
Proof. exact all_rdf_attributes_of_tree. Qed.
Print Assumptions C17_rdf_attributes_of_tree.

(* the empty tree (reached by clear(), remove_children() on the root, a filter
   that keeps nothing ...) exports its root alone: no edge, no node triple *)
Theorem C17_empty_tree_exports : forall id i fx tn u a isroot,
  rdf_of_tree fx tn (T id i []) = [TName RSys tn] /\
  dot_edges u a (T id i []) = [] /\
  mer_edges u a (T id i []) = [] /\
  map dkey (dot_nodes true u a isroot tn (T id i [])) = (if a then [key u (T id i [])] else []) /\
  map (fun d : mnode => fst (fst d)) (mer_nodes u a (T id i [])) = (if a then [0] else []).
Proof. exact empty_tree_exports. Qed.
Print Assumptions C17_empty_tree_exports.

(* ============================================================== non-vacuity *)
(* a typed tree with a clone of the start node two levels below it, a falsy
   data_id (0), an empty data_id and an empty kind *)
Definition nd (id : nat) (nm : Z) (d : did) (k : kind) (ch : list rt) : rt :=
  T id (I (Z.of_nat id) (Z.of_nat id) 0 false [nm] d k []) ch.
Definition kK : kind := Some [107%Z].
Definition kM : kind := Some [109%Z].
Definition ex_a : rt :=
  nd 1 97 (DInt 10) kK
     [nd 2 98 (DInt 0) kM
         [nd 3 97 (DInt 10) kK [nd 4 99 (DStr []) (Some []) []]];
      nd 5 99 (DStr []) kM []].
Definition ex_root : rt := nd 0 84 (DStr ROOT_DATA_ID) None [ex_a; nd 6 100 (DInt 7) kM []].

Example ex_ids_unique : NoDup (ids_t ex_root) /\ NoDup (ids_t ex_a).
Proof. split; vm_compute; repeat (constructor; [cbn; intuition discriminate|]); constructor. Qed.

(* 5 nodes incl. the start, 3 distinct keys; 4 edges, 2 of them leave the start *)
Example ex_dot :
  map dkey (dot_nodes true true true false [] ex_a) = [KD (DInt 10); KD (DInt 0); KD (DStr [])] /\
  map dkey (dot_nodes true false true false [] ex_a) = [KN 1; KN 2; KN 3; KN 4; KN 5] /\
  dot_edges true true ex_a
    = [(KD (DInt 10), KD (DInt 0), kM); (KD (DInt 0), KD (DInt 10), kK);
       (KD (DInt 10), KD (DStr []), Some []); (KD (DInt 10), KD (DStr []), kM)] /\
  dot_edges true false ex_a
    = [(KD (DInt 0), KD (DInt 10), kK); (KD (DInt 10), KD (DStr []), Some [])].
Proof. vm_compute. repeat split. Qed.

Example ex_mermaid :
  mer_map true true ex_a = [(KD (DInt 10), 0); (KD (DInt 0), 1); (KD (DStr []), 2)] /\
  mer_edges true true ex_a
    = [(Some 0, Some 1, kM); (Some 1, Some 0, kK); (Some 0, Some 2, None); (Some 0, Some 2, kM)] /\
  map mer_edge_text (mer_edges true false ex_a)
    = [Some [49; 45; 45; 32; 34; 107; 34; 32; 45; 45; 62; 50]%Z; Some [50; 32; 45; 45; 62; 32; 51]%Z].
Proof. vm_compute. repeat split. Qed.

Example ex_rdf :
  In (THasChild (RLit (DInt 0)) (RLit (DInt 10))) (rdf_of_node true no_mapper false ex_a) /\
  ~ In (THasChild (RLit (DInt 10)) (RLit (DInt 0))) (rdf_of_node true no_mapper false ex_a) /\
  In (THasChild (RLit (DInt 10)) (RLit (DInt 0))) (rdf_of_node true no_mapper true ex_a) /\
  In (THasChild RSys (RLit (DInt 10))) (rdf_of_tree true [84%Z] ex_root).
Proof.
  vm_compute. repeat split; try tauto.
  intros H. repeat (destruct H as [H|H]; [discriminate H|]). exact H.
Qed.

(* a node_mapper answering False for node 2: its edges stay, its attributes go *)
Example ex_rdf_mapper :
  let sk := fun t : rt => Nat.eqb (rid t) 2 in
  In (THasChild (RLit (DInt 10)) (RLit (DInt 0))) (rdf_of_node true sk true ex_a) /\
  In (THasChild (RLit (DInt 0)) (RLit (DInt 10))) (rdf_of_node true sk true ex_a) /\
  ~ In (TName (RLit (DInt 0)) [98%Z]) (rdf_of_node true sk true ex_a) /\
  In (TName (RLit (DInt 0)) [98%Z]) (rdf_of_node true no_mapper true ex_a).
Proof.
  vm_compute. repeat split; try tauto.
  intros H. repeat (destruct H as [H|H]; [discriminate H|]). exact H.
Qed.

(* the correspondence entry point on the example: whole tree and two start nodes *)
Example ex_run17 :
  match CaseC17.run17 (ex_root, [0; 1; 3]%Z,
                       [(1%Z, MO false [84; 68]%Z TitleOff [] false true None None)],
                       [(1%Z, DO true true [] [([97], [98])]%Z [] None (Some ([99], [100]))%Z)], [2]%Z) with
  | L [L [L [L d0; L m0; L [_]]; L [_; _; L [_; _; _; _]]; L [_; _; L [_; _; _; _]]]; L [L chart]; L [L doc]] =>
      length d0 = 4 /\ length m0 = 4 /\ length chart = 13 /\ length doc = 17
  | _ => False
  end.
Proof. vm_compute. repeat split. Qed.

(* ============================================ the code before the repairs *)
(* D36: node_to_dot(add_self=True, unique_nodes=True) did not record the start
   node's key: C17_dot_no_key_defined_twice fails for the unrepaired loop *)
Theorem C17_D36_prerepair_refuted :
  ~ (forall u a isroot tn s, NoDup (ids_t s) -> NoDup (map dkey (dot_nodes false u a isroot tn s))).
Proof.
  intros H. specialize (H true true false [] ex_a (proj2 ex_ids_unique)).
  vm_compute in H. inversion H as [|? ? Hn _]; subst. apply Hn. right. now left.
Qed.
Print Assumptions C17_D36_prerepair_refuted.

(* D37: [if parent_graph_node:] dropped the edges of a parent whose data_id is
   falsy: C17_rdf_edges_of_node fails for the unrepaired test *)
Theorem C17_D37_prerepair_refuted :
  ~ (forall a s x y, (exists p c, In p (export a s) /\ In c (rch p) /\ x = RLit (rdid p) /\ y = RLit (rdid c)) ->
                     In (THasChild x y) (rdf_of_node false no_mapper a s)).
Proof.
  intros H.
  specialize (H true ex_a (RLit (DInt 0)) (RLit (DInt 10))).
  assert (P : exists p c, In p (export true ex_a) /\ In c (rch p) /\ RLit (DInt 0) = RLit (rdid p) /\ RLit (DInt 10) = RLit (rdid c)).
  { exists (nd 2 98 (DInt 0) kM [nd 3 97 (DInt 10) kK [nd 4 99 (DStr []) (Some []) []]]),
           (nd 3 97 (DInt 10) kK [nd 4 99 (DStr []) (Some []) []]).
    vm_compute. tauto. }
  specialize (H P). vm_compute in H.
  repeat (destruct H as [H|H]; [discriminate H|]). exact H.
Qed.
Print Assumptions C17_D37_prerepair_refuted.

(* the generated facts this property uses were lifted from the current source *)
Theorem C17_generated_facts_present : GEN_MERMAID_OK = true /\ GEN_EXPORT_OK = true.
Proof. split; reflexivity. Qed.
Print Assumptions C17_generated_facts_present.

(* ====================================================================================== *)
(* Glue (theories/Glue/GluePreExport.v): the edge enumeration [desc_p] (every node below s paired with its
   _parent node) is, as (parent id, id, payload) triples, exactly the row list of the mutation machine
   (Mut/SurgeryFacts.v [rows], the flattening all C01-C04 / heap theorems speak about); C12 identifies the
   same row list with the (parent id, node) enumeration of the serialisation model. *)
From NT Require SurgeryFacts GluePreExport.

Theorem C17_edges_are_the_machines_rows : forall t,
  map GluePreExport.edge_row (desc_p t) = SurgeryFacts.rows (rid t) (rch t).
Proof. exact GluePreExport.desc_p_rows. Qed.
Print Assumptions C17_edges_are_the_machines_rows.

(* with C12_preorder_is_the_machines_rows (same row list) the edges are also in the serialisation order *)

(* ==== PART MERMAIDDEF: to_mermaid_flowchart called without options (model theories/Forest/MiscMermaid.v,
   correspondence Cases/CaseMiscMermaid.v, harness parts_misc.MERMAIDDEF): the default arguments of the signatures are
   ONE options record of Export.v, lifted from the source. ==== *)
Import MiscMermaid MiscMermaidProofs.

(* without options the export never raises, and the chart is the markdown fence, the title block naming the start node,
   the generator comment, "flowchart <direction>", the node / edge lines of the unique-nodes export with the start node, the closing fence *)
Theorem C17_mermaid_default_chart : forall dir s,
  exists N E,
    default_chart dir s =
      Some ([L_md_open; L_dashes; L_title ++ rname s; L_dashes; []; L_generator; []; L_flowchart ++ dir; []; L_nodes]
            ++ N ++ [[]; L_edges] ++ E ++ [L_md_close]) /\
    map Some N = map mer_node_text (mer_nodes true true s) /\
    map Some E = map mer_edge_text (mer_edges true true s).
Proof. exact default_chart_total. Qed.
Print Assumptions C17_mermaid_default_chart.

Theorem C17_mermaid_default_direction_line : forall dir s ls,
  default_chart dir s = Some ls -> nth_error ls 7 = Some (L_flowchart ++ dir).
Proof. exact default_chart_direction_line. Qed.
Print Assumptions C17_mermaid_default_direction_line.

(* tie to the source (gen_facts section MISCMERMAID): the `direction` default of all four signatures
   (_node_to_mermaid_flowchart_iter, node_to_mermaid_flowchart, Node.to_mermaid_flowchart, Tree.to_mermaid_flowchart) is
   mermaid.DEFAULT_DIRECTION, and the default tables of the Node and the Tree method decode to the model's record *)
Theorem C17_mermaid_defaults_from_source :
  GEN_MISCMERMAID_OK = true /\
  Forall (fun d => d = MERMAID_DEFAULT_DIRECTION) MERMAID_DIRECTION_DEFAULTS /\ length MERMAID_DIRECTION_DEFAULTS = 4 /\
  mopts_of_defaults MERMAID_NODE_DEFAULTS [97; 100; 100; 95; 115; 101; 108; 102]%Z = Some (default_mopts MERMAID_DEFAULT_DIRECTION) /\
  mopts_of_defaults MERMAID_TREE_DEFAULTS [97; 100; 100; 95; 114; 111; 111; 116]%Z = Some (default_mopts MERMAID_DEFAULT_DIRECTION).
Proof. vm_compute. repeat split; repeat constructor. Qed.
Print Assumptions C17_mermaid_defaults_from_source.

(* non-vacuity: a decoding that is not the identity – a table with unique_nodes=False gives a different record *)
Example C17_mermaid_ex_decoding :
  option_map mo_unique (mopts_of_defaults
    (map (fun e => if text_eqb (fst e) k_unique then (fst e, [70; 97; 108; 115; 101]%Z) else e) MERMAID_NODE_DEFAULTS)
    [97; 100; 100; 95; 115; 101; 108; 102]%Z) = Some false.
Proof. vm_compute. reflexivity. Qed.

(* ==== PART WRITERS: dot.tree_to_dotfile and mermaid.node_to_mermaid_flowchart as writers (model theories/Forest/MiscWriters.v,
   correspondence Cases/CaseMiscWriters.v on streams and real files, harness parts_misc.WRITERS).  [wres]: [WStream t] the
   caller's stream received t; [WFile other t] a file did (the path, or the path with the suffix replaced – then the
   external converter, outside the model, is run); [WRefused] RuntimeError before anything is written; [WBroken ...  t]
   a mapper raised and t had been written by then. ==== *)
Import MiscWriters MiscWritersProofs.

(* every line is followed by one newline, and the text determines the lines (no line of the exporters contains a newline) *)
Theorem C17_writers_text_decodes : forall ls, Forall no_nl ls -> split_nl [] (lines_text ls) = ls.
Proof. exact lines_text_decodes. Qed.
Print Assumptions C17_writers_text_decodes.

(* to_dotfile: the four combinations of target and format *)
Theorem C17_writers_dotfile : forall doc,
  dotfile_write doc TStream false = WStream (lines_text doc) /\
  dotfile_write doc TStream true = WRefused /\
  dotfile_write doc TPath false = WFile false (lines_text doc) /\
  dotfile_write doc TPath true = WFile true (lines_text doc).
Proof. exact dotfile_cases. Qed.
Print Assumptions C17_writers_dotfile.

(* the yields of the Mermaid generator, run to the end, are the chart of this file's theorems *)
Theorem C17_writers_events_are_the_chart : forall o s, oseq (chart_events o s) = mer_chart o s.
Proof. exact chart_events_chart. Qed.
Print Assumptions C17_writers_events_are_the_chart.

(* no mapper fails: the whole chart is written, to the stream or to the path *)
Theorem C17_writers_mermaid_complete : forall o s ls, mer_chart o s = Some ls ->
  mermaid_write o s TStream false = WStream (lines_text ls) /\ mermaid_write o s TPath false = WFile false (lines_text ls).
Proof. exact mermaid_write_complete. Qed.
Print Assumptions C17_writers_mermaid_complete.

(* a mapper fails: the stream is left with exactly the lines before the first failing one (a truncated chart) *)
Theorem C17_writers_mermaid_partial : forall o s, mer_chart o s = None ->
  exists ls k, mermaid_write o s TStream false = WBroken TStream false (lines_text ls) /\
               nth_error (chart_events o s) k = Some None /\ map Some ls = firstn k (chart_events o s).
Proof. exact mermaid_write_broken. Qed.
Print Assumptions C17_writers_mermaid_partial.

(* format=: a stream is refused before anything is generated; a path receives the chart WITHOUT the markdown fence *)
Theorem C17_writers_mermaid_format : forall o s,
  mermaid_write o s TStream true = WRefused /\
  mermaid_write o s TPath true = mermaid_write (no_markdown o) s TPath true /\
  (forall ls, mer_chart (no_markdown o) s = Some ls -> mermaid_write o s TPath true = WFile true (lines_text ls)).
Proof. exact mermaid_write_format. Qed.
Print Assumptions C17_writers_mermaid_format.

(* non-vacuity: a node template with an unknown field on a one-node tree – the header and the root line are in the stream, nothing after *)
Example C17_writers_ex_partial :
  mermaid_write (MO false [84; 68]%Z TitleOff [] true true (Some [123; 120; 125]%Z) None)
                (T 0 (I 0 0 0 true [84]%Z (DInt 0) None []) [T 1 (I 1 1 1 true [97]%Z (DInt 1) None []) []]) TStream false =
  WBroken TStream false (lines_text [[]; L_generator; []; L_flowchart ++ [84; 68]%Z; []; L_nodes; [48; 123; 123; 34; 84; 34; 125; 125]%Z]).
Proof. vm_compute. reflexivity. Qed.
