(* C04 - every mutation has exactly its documented effect and no other.
   Statements only; proofs are in theories/Mut/Effects.v (on the mutation
   machine theories/Mut/Machine.v, which harness/props/C04.py ties to the
   implementation after every step of every generated history).

   Vocabulary: [rows 0 f] is the pre-order list of (parent id, node id, payload)
   of a forest - identity, data, data_id, kind, meta, parent and sibling order of
   every node.  [ins_row r l l'] : l' is l with exactly the row r inserted;
   [repl_rows old new l l'] : l' is l with the consecutive block old replaced by
   new.  The frame condition of an operation is such a statement about the rows
   of the whole tree: every other row is unchanged, in unchanged order. *)
From Coq Require Import List ZArith Bool Arith Permutation Sorted.
From NT Require Import Sx Rose Surgery SurgeryFacts Machine MachineFacts Effects FrameTrees EffectsClones.
Import ListNotations.

(* ---- where add_child puts the new node ---- *)
Theorem C04_before_none_appends : forall x ch, place (norm_before BNone) x ch = ch ++ [x].
Proof. exact place_append. Qed.
Print Assumptions C04_before_none_appends.

Theorem C04_before_false_is_none : forall x ch, place (norm_before BFalse) x ch = place (norm_before BNone) x ch.
Proof. exact before_false_is_none. Qed.
Print Assumptions C04_before_false_is_none.

Theorem C04_before_true_prepends : forall x ch,
  place (norm_before BTrue) x ch = x :: ch /\ place (norm_before (BIdx 0)) x ch = x :: ch.
Proof. exact before_true_prepends. Qed.
Print Assumptions C04_before_true_prepends.

(* an index 0 <= j <= len: in front of the child that had index j *)
Theorem C04_before_index : forall (j : nat) x ch, ch <> [] -> j <= length ch ->
  place (norm_before (BIdx (Z.of_nat j))) x ch = firstn j ch ++ x :: skipn j ch.
Proof. exact before_index. Qed.
Print Assumptions C04_before_index.

(* a negative index -k counts from the end (list.insert); both ends clamp *)
Theorem C04_before_negative_index : forall (k : nat) x ch, 0 < k <= length ch ->
  place (norm_before (BIdx (- Z.of_nat k))) x ch = firstn (length ch - k) ch ++ x :: skipn (length ch - k) ch.
Proof. exact before_negative_index. Qed.
Print Assumptions C04_before_negative_index.

Theorem C04_before_index_clamps : forall i x ch, ch <> [] ->
  ((Z.of_nat (length ch) <= i)%Z -> place (norm_before (BIdx i)) x ch = ch ++ [x]) /\
  ((i <= - Z.of_nat (length ch))%Z -> place (norm_before (BIdx i)) x ch = x :: ch).
Proof. exact before_index_clamps. Qed.
Print Assumptions C04_before_index_clamps.

(* before = <child s>: directly in front of s (the first child with that identity) *)
Theorem C04_before_node : forall s x ch j, index_by_id s ch = Some j ->
  exists a t b, ch = a ++ t :: b /\ rid t = s /\ Forall (fun u => rid u <> s) a /\
                place (norm_before (BNode s)) x ch = a ++ x :: t :: b.
Proof. exact before_node. Qed.
Print Assumptions C04_before_node.

(* a parent without children: any position gives the single child *)
Theorem C04_first_child : forall b x, place (norm_before b) x [] = [x].
Proof. exact before_any_first_child. Qed.
Print Assumptions C04_first_child.

(* ---- add_child(data): effect on the parent's child list + frame ---- *)
Theorem C04_add : forall w ti p d e k b r w',
  step w (OAdd ti p d e k b) = (Ok r, w') ->
  exists t t' pq ch id,
    get_tree w ti = Some t /\ get_tree w' ti = Some t' /\
    parent_path p (forest_of t) = Some pq /\ get_ch pq (forest_of t) = Some ch /\
    (e = Some id \/ e = None /\ calc_id (calc t) d = Some id) /\
    r = [next w] /\ next w' = S (next w) /\
    let inf := mk_info d id (default_kind t k) [] in
    get_ch pq (forest_of t') = Some (place (norm_before b) (T (next w) inf []) ch) /\
    ins_row (p, next w, inf) (rows 0 (forest_of t)) (rows 0 (forest_of t')) /\
    (forall tj, tj <> ti -> get_tree w' tj = get_tree w tj).
Proof. exact add_effect. Qed.
Print Assumptions C04_add.

(* ---- remove(): the branch is cut out, nothing else moves ---- *)
Theorem C04_remove_branch : forall t n t',
  remove_branch t n = Some t' ->
  exists q0 i l s o,
    node_loc n (forest_of t) = Some (q0, i, l) /\ nth_error l i = Some s /\ rid s = n /\
    get_ch q0 (forest_of t') = Some (remove_nth i l) /\
    repl_rows (rows_t o s) [] (rows 0 (forest_of t)) (rows 0 (forest_of t')).
Proof. exact remove_branch_effect. Qed.
Print Assumptions C04_remove_branch.

(* ---- remove(keep_children=True): the children take the node's place, in order,
        and their rows now name the node's parent ---- *)
Theorem C04_remove_keep : forall t n t',
  remove_keep t n = Some t' ->
  exists q0 i a s c o,
    node_loc n (forest_of t) = Some (q0, i, a ++ s :: c) /\ length a = i /\ rid s = n /\
    get_ch q0 (forest_of t') = Some (a ++ rch s ++ c) /\
    repl_rows ((o, n, rinfo s) :: rows n (rch s)) (rows o (rch s)) (rows 0 (forest_of t)) (rows 0 (forest_of t')).
Proof. exact remove_keep_effect. Qed.
Print Assumptions C04_remove_keep.

(* ---- remove_children() and clear() ---- *)
Theorem C04_remove_children : forall w ti n r w',
  step w (ORemoveChildren ti n) = (Ok r, w') ->
  exists t t' pq ch,
    get_tree w ti = Some t /\ get_tree w' ti = Some t' /\
    parent_path n (forest_of t) = Some pq /\ get_ch pq (forest_of t) = Some ch /\
    get_ch pq (forest_of t') = Some [] /\
    repl_rows (rows n ch) [] (rows 0 (forest_of t)) (rows 0 (forest_of t')) /\
    (forall tj, tj <> ti -> get_tree w' tj = get_tree w tj).
Proof. exact remove_children_effect. Qed.
Print Assumptions C04_remove_children.

Theorem C04_clear : forall w ti r w',
  step w (OClear ti) = (Ok r, w') ->
  exists t t', get_tree w ti = Some t /\ get_tree w' ti = Some t' /\ forest_of t' = [] /\
               (forall tj, tj <> ti -> get_tree w' tj = get_tree w tj).
Proof. exact clear_effect. Qed.
Print Assumptions C04_clear.

(* ---- set_data / rename / metadata edits touch the payload of exactly one row ---- *)
Theorem C04_set_info : forall n g f, In n (ids f) ->
  exists A B o s, rows 0 f = A ++ (o, n, rinfo s) :: B /\ rid s = n /\
                  rows 0 (set_info_at n g f) = A ++ (o, n, g (rinfo s)) :: B.
Proof. exact set_info_effect. Qed.
Print Assumptions C04_set_info.

(* ---- sort ---- *)
Theorem C04_sort_permutation : forall k rv l, Permutation (py_sort k rv l) l.
Proof. exact py_sort_perm. Qed.
Print Assumptions C04_sort_permutation.

(* sorted by key: ascending, descending with reverse=True (kle is vacuous for a node whose key
   callback raises - the machine abandons the sort in that case, see sort_list) *)
Theorem C04_sort_sorted : forall k l,
  Sorted (kle k) (py_sort k false l) /\ Sorted (fun x y => kle k y x) (py_sort k true l).
Proof. exact py_sort_sorted. Qed.
Print Assumptions C04_sort_sorted.

(* stable, also with reverse=True: the nodes with one key keep their relative order *)
Theorem C04_sort_stable : forall k rv a l, filter (hk k a) (py_sort k rv l) = filter (hk k a) l.
Proof. exact py_sort_stable. Qed.
Print Assumptions C04_sort_stable.

(* sort_children(deep=False): only the named child list is reordered *)
Theorem C04_sort_flat : forall w ti p k rv r w',
  step w (OSort ti p k rv false) = (Ok r, w') ->
  exists t t' pq ch,
    get_tree w ti = Some t /\ get_tree w' ti = Some t' /\
    parent_path p (forest_of t) = Some pq /\ get_ch pq (forest_of t) = Some ch /\
    get_ch pq (forest_of t') = Some (py_sort k rv ch) /\
    repl_rows (rows p ch) (rows p (py_sort k rv ch)) (rows 0 (forest_of t)) (rows 0 (forest_of t')) /\
    (forall tj, tj <> ti -> get_tree w' tj = get_tree w tj).
Proof. exact sort_flat_effect. Qed.
Print Assumptions C04_sort_flat.

(* ---- remove() of one node at the level of step ---- *)
Theorem C04_remove : forall w ti n keep r w',
  step w (ORemove ti n keep false) = (Ok r, w') ->
  exists t t', get_tree w ti = Some t /\ get_tree w' ti = Some t' /\ r = [] /\
               (if keep then remove_keep t n = Some t' else remove_branch t n = Some t') /\
               next w' = next w /\ (forall tj, tj <> ti -> get_tree w' tj = get_tree w tj).
Proof. exact remove_effect. Qed.
Print Assumptions C04_remove.

(* ---- remove() / remove(with_clones=True) against the structural specification [prune V f] = f without
        every branch whose root is in V (all other nodes keep payload, parent and order): the machine's
        sequence of path surgeries (which skips clones that went away with an outer clone) is prune of the
        node resp. of its whole clone group as listed by the index ---- *)
Theorem C04_remove_with_clones : forall w ti n wc r w',
  step w (ORemove ti n false wc) = (Ok r, w') ->
  exists t t' d,
    get_tree w ti = Some t /\ get_tree w' ti = Some t' /\ did_of n (forest_of t) = Some d /\
    (NoDup (ids (forest_of t)) ->
     forest_of t' = prune (if wc then filter (fun c => negb (Nat.eqb c n)) (idx_get d (idx t)) ++ [n] else [n]) (forest_of t)).
Proof. exact remove_prune. Qed.
Print Assumptions C04_remove_with_clones.

(* ---- move_to: the branch is cut out (rows A ++ branch ++ B -> A ++ B) and inserted under the
        target at the documented position of the child list AFTER the cut; only the top row of
        the branch changes (its parent); registry and index are untouched ---- *)
Theorem C04_move : forall w ti n target b r w',
  step w (OMove ti n ti target b) = (Ok r, w') ->
  (w' = w /\ norm_before b = NNode n) \/
  exists t t' s f1 pq ch1 o A B C D,
    get_tree w ti = Some t /\ get_tree w' ti = Some t' /\ rid s = n /\
    detach n (forest_of t) = Some (s, f1) /\
    parent_path target f1 = Some pq /\ get_ch pq f1 = Some ch1 /\
    get_ch pq (forest_of t') = Some (place (norm_before b) s ch1) /\
    rows 0 (forest_of t) = A ++ rows_t o s ++ B /\ rows 0 f1 = A ++ B /\
    rows 0 f1 = C ++ D /\ rows 0 (forest_of t') = C ++ rows_t target s ++ D /\
    reg t' = reg t /\ idx t' = idx t /\
    (forall tj, tj <> ti -> get_tree w' tj = get_tree w tj).
Proof. exact move_effect. Qed.
Print Assumptions C04_move.

(* ---- the shortcuts ---- *)
Theorem C04_append_child : forall w ti n d e k t, get_tree w ti = Some t ->
  step w (OShort ti n SAppendChild d e k) = step w (OAdd ti n d e k BNone).
Proof. exact append_child_is_add. Qed.
Print Assumptions C04_append_child.

Theorem C04_prepend_child : forall w ti n d e k t ch, get_tree w ti = Some t ->
  children_of n (forest_of t) = Some ch ->
  exists b, step w (OShort ti n SPrependChild d e k) = step w (OAdd ti n d e k b) /\
            forall x, place (norm_before b) x ch = x :: ch.
Proof. exact prepend_child_is_add_first. Qed.
Print Assumptions C04_prepend_child.

(* prepend_sibling uses before=self, append_sibling before=next sibling (or None): the new node lands
   directly before / directly after the node *)
Theorem C04_sibling_positions : forall (a : list rt) t c x, NoDup (map rid (a ++ t :: c)) ->
  place (NNode (rid t)) x (a ++ t :: c) = a ++ x :: t :: c /\
  place (norm_before (match nth_error (a ++ t :: c) (S (length a)) with Some nx => BNode (rid nx) | None => BNone end)) x (a ++ t :: c)
    = a ++ t :: x :: c.
Proof. exact sibling_positions. Qed.
Print Assumptions C04_sibling_positions.

(* ---- metadata edits: one row, only its meta field; registry and index untouched ---- *)
Theorem C04_meta : forall w ti n o r w',
  step w (OMeta ti n o) = (Ok r, w') ->
  exists t t' A B p s,
    get_tree w ti = Some t /\ get_tree w' ti = Some t' /\ rid s = n /\
    rows 0 (forest_of t) = A ++ (p, n, rinfo s) :: B /\
    rows 0 (forest_of t') = A ++ (p, n, set_meta_i (apply_meta o (i_meta (rinfo s))) (rinfo s)) :: B /\
    reg t' = reg t /\ idx t' = idx t /\
    (forall tj, tj <> ti -> get_tree w' tj = get_tree w tj).
Proof. exact meta_effect. Qed.
Print Assumptions C04_meta.

(* ---- set_data / rename at the level of step: the forest is re-labelled on a group that is empty
        (nothing to do), the node itself, or its whole clone group; kind and meta are never touched ---- *)
Theorem C04_set_data : forall w ti n d e wc r w',
  step w (OSetData ti n d e wc) = (Ok r, w') ->
  exists t t' s group g,
    get_tree w ti = Some t /\ get_tree w' ti = Some t' /\ get_node n (forest_of t) = Some s /\
    forest_of t' = relabel group g (forest_of t) /\
    (group = [] \/ group = [n] \/ group = idx_get (rdid s) (idx t)) /\
    (forall i, i_kind (g i) = i_kind i /\ i_meta (g i) = i_meta i) /\
    reg t' = reg t /\ next w' = next w.
Proof. exact set_data_effect. Qed.
Print Assumptions C04_set_data.

(* ... and re-labelling a group changes the payload of exactly the rows of the group:
   same nodes, same parents, same order *)
Theorem C04_relabel_frame : forall g group f, NoDup (ids f) -> NoDup group -> incl group (ids f) ->
  rows 0 (relabel group g f) = map (upd_rows group g) (rows 0 f) /\ ids (relabel group g f) = ids f.
Proof. exact relabel_rows. Qed.
Print Assumptions C04_relabel_frame.

(* ---- del tree[key] removes the one node the key resolves to; rename is set_data on a str node ---- *)
Theorem C04_del : forall w ti key r w',
  step w (ODel ti key) = (Ok r, w') ->
  exists t n, get_tree w ti = Some t /\ getitem t key = Some [n] /\ step w (ORemove ti n false false) = (Ok r, w').
Proof. exact del_effect. Qed.
Print Assumptions C04_del.

Theorem C04_rename : forall w ti n d r w',
  step w (ORename ti n d) = (Ok r, w') ->
  exists t s, get_tree w ti = Some t /\ get_node n (forest_of t) = Some s /\ i_isstr (rinfo s) = true /\
              step w (OSetData ti n (Some d) None None) = (Ok r, w').
Proof. exact rename_effect. Qed.
Print Assumptions C04_rename.

(* ---- frame across trees, for EVERY operation and EVERY outcome (success, refusal, failing
        callback): only the tree the operation works on can change; existing trees are never
        dropped (ext = no shorter, and equal at every other index) ---- *)
Theorem C04_frame_other_trees : forall w o,
  length (trees w) <= length (trees (snd (step w o))) /\
  forall tj, tj <> op_target w o -> tj < length (trees w) -> get_tree (snd (step w o)) tj = get_tree w tj.
Proof. exact step_frame_trees. Qed.
Print Assumptions C04_frame_other_trees.

(* ---- sort(deep=True): relational specification [deep_sorted] (no fuel, no failure flag): at every
        level of the branch the child list is the stable sorted permutation py_sort of what it was ---- *)
Theorem C04_sort_deep_branch : forall k rv fuel t t',
  sort_deep fuel k rv t false = (t', false) -> size t < fuel -> deep_sorted k rv t t'.
Proof. exact sort_deep_spec. Qed.
Print Assumptions C04_sort_deep_branch.

(* sort / sort_children at the level of step, deep or not: effect on the named child list, frame on
   all other rows, registry and index untouched *)
Theorem C04_sort : forall w ti p k rv dp r w',
  step w (OSort ti p k rv dp) = (Ok r, w') ->
  exists t t' pq ch ch',
    get_tree w ti = Some t /\ get_tree w' ti = Some t' /\
    parent_path p (forest_of t) = Some pq /\ get_ch pq (forest_of t) = Some ch /\
    get_ch pq (forest_of t') = Some ch' /\
    (if dp then Forall2 (deep_sorted k rv) (py_sort k rv ch) ch' else ch' = py_sort k rv ch) /\
    repl_rows (rows p ch) (rows p ch') (rows 0 (forest_of t)) (rows 0 (forest_of t')) /\
    reg t' = reg t /\ idx t' = idx t /\
    (forall tj, tj <> ti -> get_tree w' tj = get_tree w tj).
Proof. exact sort_effect. Qed.
Print Assumptions C04_sort.

(* non-vacuity: a concrete history on which the hypotheses hold *)
Definition dA : dat := D 0 0 11 true [97%Z].
Definition dB : dat := D 1 1 12 true [98%Z].
Definition w2 : world := run [ONewTree false None; OAdd 0 0 dA None None BNone; OAdd 0 1 dB None None BNone] empty_world.
Example C04_add_nonvacuous :
  exists r w', step w2 (OAdd 0 1 dA None None (BNode 2)) = (Ok r, w') /\
               option_map (map rid) (children_of 1 (forest_of (nth 0 (trees w') (TS [] [] [] false None)))) = Some [3; 2].
Proof. eexists _, _. split; vm_compute; reflexivity. Qed.
Example C04_remove_keep_nonvacuous :
  exists t t', get_tree w2 0 = Some t /\ remove_keep t 1 = Some t' /\ map rid (forest_of t') = [2].
Proof. eexists _, _. repeat split; vm_compute; reflexivity. Qed.
Example C04_move_nonvacuous :
  exists r w', step w2 (OMove 0 2 0 0 BTrue) = (Ok r, w') /\
               map rid (forest_of (nth 0 (trees w') (TS [] [] [] false None))) = [2; 1].
Proof. eexists _, _. split; vm_compute; reflexivity. Qed.
Example C04_sort_nonvacuous :
  let k : keyt := [(1, Some [98%Z]); (2, Some [97%Z]); (3, Some [98%Z])] in
  map rid (py_sort k false [T 1 dummy_info []; T 2 dummy_info []; T 3 dummy_info []]) = [2; 1; 3] /\
  map rid (py_sort k true [T 1 dummy_info []; T 2 dummy_info []; T 3 dummy_info []]) = [1; 3; 2].
Proof. split; vm_compute; reflexivity. Qed.
Example C04_sort_deep_nonvacuous :
  let k : keyt := [(1, Some [97%Z]); (2, Some [99%Z]); (3, Some [98%Z])] in
  let t := T 1 dummy_info [T 2 dummy_info []; T 3 dummy_info []] in
  exists t', sort_deep 5 k false t false = (t', false) /\ map rid (rch t') = [3; 2].
Proof. eexists. split; vm_compute; reflexivity. Qed.
Definition w3 : world := run [OAdd 0 2 dA None None BNone; OAdd 0 0 dB None None BNone] w2.   (* a > b > a', b'' : nested clone of a *)
Example C04_remove_with_clones_nonvacuous :
  exists r w', step w3 (ORemove 0 3 false true) = (Ok r, w') /\
               map rid (forest_of (nth 0 (trees w') (TS [] [] [] false None))) = [4] /\
               map rid (prune [1; 3] (forest_of (nth 0 (trees w3) (TS [] [] [] false None)))) = [4].
Proof. eexists _, _. repeat split; vm_compute; reflexivity. Qed.

(* ====================================================================================== *)
(* The remaining mutators (theories/Mut/EffectsMore.v).                                     *)
From NT Require Import WF EffectsMore.
From NT Require Filter FilterProofs.

(* ---- remove(keep_children=True) / remove(keep_children=True, with_clones=True): the whole victim
        group (the node, resp. its clone group as listed by the index) is CONTRACTED - every victim is
        replaced by its children, in place and in order ([splice V], a structural recursion) - after the
        up-front validation on the fully contracted sibling lists; the surviving nodes keep payload and
        pre-order; nothing else changes.  (With WF, C01 gives registry and index of the result.) ---- *)
Theorem C04_remove_keep_clones : forall w ti n wc r w',
  step w (ORemove ti n true wc) = (Ok r, w') ->
  exists t t' d,
    get_tree w ti = Some t /\ get_tree w' ti = Some t' /\ did_of n (forest_of t) = Some d /\ r = [] /\
    next w' = next w /\ (forall tj, tj <> ti -> get_tree w' tj = get_tree w tj) /\
    let V := if wc then filter (fun c => negb (Nat.eqb c n)) (idx_get d (idx t)) ++ [n] else [n] in
    existsb (keep_collides_all t V) V = false /\
    (NoDup (ids (forest_of t)) ->
     forest_of t' = splice V (forest_of t) /\
     map nd (pre_f (forest_of t')) = filter (outside V) (map nd (pre_f (forest_of t)))).
Proof. exact remove_keep_clones_effect. Qed.
Print Assumptions C04_remove_keep_clones.

(* a refused remove() - whatever its flags - changes nothing at all *)
Theorem C04_remove_refused_unchanged : forall w ti n keep wc e w',
  step w (ORemove ti n keep wc) = (Err e, w') -> w' = w.
Proof. exact remove_refused_unchanged. Qed.
Print Assumptions C04_remove_refused_unchanged.

(* ---- in-place filter: the child list below the start node becomes [F] of it - the filter
        specification of Forest/Filter.v (C08), instantiated with the verdicts of the predicate -;
        the rest of the tree, the allocator and all other trees are untouched ---- *)
Theorem C04_filter : forall w ti n vd r w', WFw w ->
  step w (OFilter ti n vd) = (Ok r, w') ->
  exists t t' pq ch,
    get_tree w ti = Some t /\ get_tree w' ti = Some t' /\
    parent_path n (forest_of t) = Some pq /\ get_ch pq (forest_of t) = Some ch /\
    forest_of t' = upd_ch pq (fun _ => Filter.F (vof vd) ch) (forest_of t) /\
    r = [] /\ next w' = next w /\ (forall tj, tj <> ti -> get_tree w' tj = get_tree w tj).
Proof. exact filter_effect. Qed.
Print Assumptions C04_filter.

(* hence: the kept nodes keep payload, parent and relative order (an embedding), in particular their
   identities are a sub-sequence of the old pre-order *)
Theorem C04_filter_keeps_order : forall vd ch,
  Filter.emb (Filter.F (vof vd) ch) ch /\ Filter.sublist (ids (Filter.F (vof vd) ch)) (ids ch).
Proof. intros vd ch. split; [apply FilterProofs.F_emb|apply FilterProofs.F_order]. Qed.
Print Assumptions C04_filter_keeps_order.

(* whatever the outcome (the predicate may raise an ordinary exception: ECrash, the removals made so far
   stay): only the branch below the start node changes, and what is left of it embeds into what was there *)
Theorem C04_filter_frame : forall w ti n vd r w', WFw w ->
  step w (OFilter ti n vd) = (r, w') -> forall t, get_tree w ti = Some t ->
  exists t', get_tree w' ti = Some t' /\
    match parent_path n (forest_of t) with
    | Some pq => match get_ch pq (forest_of t) with
                 | Some ch => exists ch', forest_of t' = upd_ch pq (fun _ => ch') (forest_of t) /\ Filter.emb ch' ch
                 | None => t' = t
                 end
    | None => t' = t
    end /\ next w' = next w /\ (forall tj, tj <> ti -> get_tree w' tj = get_tree w tj).
Proof. exact filter_frame. Qed.
Print Assumptions C04_filter_frame.

(* ---- Node.from_dict (on a childless node): exactly the branches the items describe - one node per
        item, fresh identities in pre-order of the items ([builts]), payload from the item - become the
        child list of the node; every other row of the tree is unchanged, in unchanged order ---- *)
Theorem C04_from_dict : forall w ti p items r w', WFw w ->
  step w (OFromDict ti p items) = (Ok r, w') ->
  exists t t' pq kids,
    get_tree w ti = Some t /\ get_tree w' ti = Some t' /\
    parent_path p (forest_of t) = Some pq /\ get_ch pq (forest_of t) = Some [] /\
    builts (calc t) (typed t) (next w) items kids (next w') /\
    ids kids = seq (next w) (next w' - next w) /\
    forest_of t' = upd_ch pq (fun _ => kids) (forest_of t) /\
    repl_rows [] (rows p kids) (rows 0 (forest_of t)) (rows 0 (forest_of t')) /\
    (forall tj, tj <> ti -> get_tree w' tj = get_tree w tj).
Proof. exact from_dict_effect. Qed.
Print Assumptions C04_from_dict.

(* a refused from_dict (fix D48: every level removes what it had built) leaves every tree exactly as it was *)
Theorem C04_from_dict_refused : forall w ti p items e w',
  step w (OFromDict ti p items) = (Err e, w') -> trees w' = trees w.
Proof. exact from_dict_refused. Qed.
Print Assumptions C04_from_dict_refused.

(* ---- Tree.from_dict: a new plain tree holding the branches the items describe ---- *)
Theorem C04_tree_from_dict : forall w items r w', WFw w ->
  step w (OTreeFromDict items) = (Ok r, w') ->
  r = [length (trees w)] /\
  exists t' kids,
    get_tree w' (length (trees w)) = Some t' /\ forest_of t' = kids /\ typed t' = false /\ calc t' = None /\
    builts None false (next w) items kids (next w') /\ ids kids = seq (next w) (next w' - next w) /\
    (forall tj, tj < length (trees w) -> get_tree w' tj = get_tree w tj).
Proof. exact tree_from_dict_effect. Qed.
Print Assumptions C04_tree_from_dict.

Theorem C04_tree_from_dict_refused : forall w items e w',
  step w (OTreeFromDict items) = (Err e, w') -> trees w' = trees w.
Proof. exact tree_from_dict_refused. Qed.
Print Assumptions C04_tree_from_dict_refused.

(* non-vacuity *)
Definition dC : dat := D 2 2 13 true [99%Z].
(* a(1) > b(2) > a'(3) > c(4) *)
Definition w4 : world := run [ONewTree false None; OAdd 0 0 dA None None BNone; OAdd 0 1 dB None None BNone;
                              OAdd 0 2 dA None None BNone; OAdd 0 3 dC None None BNone] empty_world.
Example C04_remove_keep_clones_nonvacuous :
  exists r w', step w4 (ORemove 0 3 true true) = (Ok r, w') /\
    forest_of (nth 0 (trees w') (TS [] [] [] false None)) = splice [1; 3] (forest_of (nth 0 (trees w4) (TS [] [] [] false None))) /\
    map rid (pre_f (forest_of (nth 0 (trees w') (TS [] [] [] false None)))) = [2; 4] /\
    (* in w3 the contraction would make the clones b(2) and b''(4) siblings: refused, nothing changes *)
    step w3 (ORemove 0 3 true true) = (Err EUnique, w3).
Proof. eexists _, _. repeat split; vm_compute; reflexivity. Qed.
Example C04_filter_nonvacuous :
  let vd := [(1, VFalse); (2, VFalse); (3, VTrue); (4, VSkip)] in
  exists r w', step w4 (OFilter 0 0 vd) = (Ok r, w') /\
    map rid (pre_f (forest_of (nth 0 (trees w') (TS [] [] [] false None)))) = [1; 2; 3] /\
    forest_of (nth 0 (trees w') (TS [] [] [] false None)) = Filter.F (vof vd) (forest_of (nth 0 (trees w4) (TS [] [] [] false None))).
Proof. eexists _, _. repeat split; vm_compute; reflexivity. Qed.
Definition c04_items : list ditem := [DI dA None [DI dB None []]; DI dB None []].
Example C04_from_dict_nonvacuous :
  exists r w', step w4 (OFromDict 0 4 c04_items) = (Ok r, w') /\
    map rid (pre_f (forest_of (nth 0 (trees w') (TS [] [] [] false None)))) = [1; 2; 3; 4; 5; 6; 7].
Proof. eexists _, _. split; vm_compute; reflexivity. Qed.
Example C04_from_dict_refused_nonvacuous :
  exists w'', step w4 (OFromDict 0 4 [DI dA None [DI dB None []; DI dB None []]]) = (Err EUnique, w'') /\
              trees w'' = trees w4 /\ next w'' = 8.
Proof. eexists. split; [vm_compute; reflexivity|]. split; vm_compute; reflexivity. Qed.
Example C04_tree_from_dict_nonvacuous :
  exists r w', step w4 (OTreeFromDict c04_items) = (Ok r, w') /\ r = [1] /\
               map rid (pre_f (forest_of (nth 1 (trees w') (TS [] [] [] false None)))) = [5; 6; 7].
Proof. eexists _, _. split; [vm_compute; reflexivity|]. split; vm_compute; reflexivity. Qed.

(* ====================================================================================== *)
(* set_data / rename, exactly.  C04_set_data above leaves the payload function [g] and the group existential
   (it only says that kind and meta are kept).  Here they are pinned: which nodes are relabelled (the node,
   or its whole clone group when with_clones=True and there are clones), what each of them gets (the new data
   object where one is given and differs, the new data_id where it differs), and what the index becomes. *)
From NT Require Import PreserveRelabel RefusalMore.

Theorem C04_set_data_exact : forall w ti n d e wc r w',
  step w (OSetData ti n d e wc) = (Ok r, w') ->
  exists t s did', get_tree w ti = Some t /\ get_node n (forest_of t) = Some s /\
    sd_did' t (sd_new_data s d) e = Some did' /\ r = [] /\
    let nd := sd_new_data s d in
    let ne := sd_new_did s did' in
    let cur := idx_get (rdid s) (idx t) in
    let hc := Nat.ltb 1 (length cur) in
    let wcb := match wc with Some true => true | _ => false end in
    let setd := fun inf => match nd with Some x => set_dat_i x inf | None => inf end in
    hc && (match wc with None => true | _ => false end) = false /\
    match ne, nd with
    | Some x, _ =>
        exists t', get_tree w' ti = Some t' /\
          forest_of t' = relabel (if hc && wcb then cur else [n]) (fun inf => set_did_i x (setd inf)) (forest_of t) /\
          reg t' = reg t /\
          idx t' = (if hc && wcb then idx_move_group (rdid s) x cur (idx t) else idx_add x n (idx_del (rdid s) n (idx t)))
    | None, Some _ =>
        exists t', get_tree w' ti = Some t' /\ forest_of t' = relabel (if wcb then cur else [n]) setd (forest_of t) /\
          reg t' = reg t /\ idx t' = idx t
    | None, None => w' = w
    end.
Proof. exact set_data_exact. Qed.
Print Assumptions C04_set_data_exact.

(* ====================================================================================== *)
(* The sibling shortcuts at the level of step (audit C04 F1; the area of D14-D16): prepend_sibling /
   append_sibling are add_child on the node's PARENT with before = the node / the node's next sibling (none:
   append), and in a typed tree the new node gets the node's kind. *)
Theorem C04_prepend_sibling : forall w ti n d e k t p s,
  get_tree w ti = Some t -> parent_of n (forest_of t) = Some p -> get_node n (forest_of t) = Some s ->
  step w (OShort ti n SPrependSibling d e k) = step w (OAdd ti p d e (if typed t then rkind s else None) (BNode n)).
Proof. exact prepend_sibling_is_add. Qed.
Print Assumptions C04_prepend_sibling.

Theorem C04_append_sibling : forall w ti n d e k t p s q0 i l,
  get_tree w ti = Some t -> parent_of n (forest_of t) = Some p -> get_node n (forest_of t) = Some s ->
  node_loc n (forest_of t) = Some (q0, i, l) ->
  step w (OShort ti n SAppendSibling d e k) =
  step w (OAdd ti p d e (if typed t then rkind s else None)
               (match nth_error l (S i) with Some nx => BNode (rid nx) | None => BNone end)).
Proof. exact append_sibling_is_add. Qed.
Print Assumptions C04_append_sibling.

(* composed with C04_add and C04_sibling_positions: where the node ends up, what it carries, what else changes *)
Theorem C04_sibling_shortcut_effect : forall w ti n (after : bool) d e k r w' t,
  WF.WFw w -> get_tree w ti = Some t ->
  step w (OShort ti n (if after then SAppendSibling else SPrependSibling) d e k) = (Ok r, w') ->
  exists p s pq a c t' id,
    parent_of n (forest_of t) = Some p /\ get_node n (forest_of t) = Some s /\
    parent_path p (forest_of t) = Some pq /\ get_ch pq (forest_of t) = Some (a ++ s :: c) /\
    get_tree w' ti = Some t' /\ r = [next w] /\
    (e = Some id \/ e = None /\ calc_id (calc t) d = Some id) /\
    let x := T (next w) (mk_info d id (default_kind t (if typed t then rkind s else None)) []) [] in
    get_ch pq (forest_of t') = Some (if after then a ++ s :: x :: c else a ++ x :: s :: c) /\
    ins_row (p, next w, rinfo x) (rows 0 (forest_of t)) (rows 0 (forest_of t')) /\
    (forall tj, tj <> ti -> get_tree w' tj = get_tree w tj).
Proof. exact sibling_shortcut_effect. Qed.
Print Assumptions C04_sibling_shortcut_effect.

Definition dD : dat := D 3 3 14 true [100%Z].
Example C04_sibling_shortcuts_nonvacuous :
  let w := run [ONewTree true None; OAdd 0 0 dA None (Some [120%Z]) BNone; OAdd 0 0 dB None (Some [121%Z]) BNone; OAdd 0 0 dC None None BNone] empty_world in
  let kids w' := map (fun c => (rid c, rkind c)) (forest_of (nth 0 (trees w') (TS [] [] [] false None))) in
  kids (snd (step w (OShort 0 2 SPrependSibling dD None None))) = [(1, Some [120%Z]); (4, Some [121%Z]); (2, Some [121%Z]); (3, Some [99; 104; 105; 108; 100]%Z)] /\
  kids (snd (step w (OShort 0 2 SAppendSibling dD None None))) = [(1, Some [120%Z]); (2, Some [121%Z]); (4, Some [121%Z]); (3, Some [99; 104; 105; 108; 100]%Z)] /\
  kids (snd (step w (OShort 0 3 SAppendSibling dD None None))) = [(1, Some [120%Z]); (2, Some [121%Z]); (3, Some [99; 104; 105; 108; 100]%Z); (4, Some [99; 104; 105; 108; 100]%Z)].
Proof. vm_compute. repeat split. Qed.

(* ====================================================================================== *)
(* Audit C04 F3/F4 (top-15 item 10).
   (a) [C04_sort_sorted] is stated with [kle], which holds vacuously when a key is None (the key callback raised).
       Restated on the keys themselves: a successful sort compared only DEFINED keys, and the resulting child list
       is ascending (descending with reverse=True) in those keys.
   (b) fuel: [sort_deep] recurses on fuel and reports exhaustion as failure; with the fuel [sort_list] passes
       (S (size_f ch) > size of every child) it never runs out: failure = some key undefined.
   (c) progress: a call the library documents as valid answers Ok ([valid_op], decidable; Mut/Progress.v lists what
       "valid" means per operation and which operations are not covered). *)
From NT Require Import SortFacts Progress.

Theorem C04_sort_sorted_on_keys : forall k l, keys_ok k l = true ->
  map (fun t => key_of k (rid t)) (py_sort k false l) = map Some (keys_of_list k (py_sort k false l)) /\
  Sorted (fun a b => text_leb a b = true) (keys_of_list k (py_sort k false l)) /\
  map (fun t => key_of k (rid t)) (py_sort k true l) = map Some (keys_of_list k (py_sort k true l)) /\
  Sorted (fun a b => text_leb b a = true) (keys_of_list k (py_sort k true l)).
Proof. exact py_sort_sorted_keys. Qed.
Print Assumptions C04_sort_sorted_on_keys.

Theorem C04_sort_ok_keys_defined : forall w ti p k rv r w',
  step w (OSort ti p k rv false) = (Ok r, w') ->
  exists t t' pq ch,
    get_tree w ti = Some t /\ get_tree w' ti = Some t' /\
    parent_path p (forest_of t) = Some pq /\ get_ch pq (forest_of t) = Some ch /\
    get_ch pq (forest_of t') = Some (py_sort k rv ch) /\ Permutation (py_sort k rv ch) ch /\
    (2 <= length ch ->
     keys_ok k ch = true /\
     map (fun x => key_of k (rid x)) (py_sort k rv ch) = map Some (keys_of_list k (py_sort k rv ch)) /\
     Sorted (fun a b => if rv then text_leb b a = true else text_leb a b = true) (keys_of_list k (py_sort k rv ch))).
Proof. exact sort_flat_sorted_keys. Qed.
Print Assumptions C04_sort_ok_keys_defined.

(* whatever the mode: when the sort did not fail and there was something to compare, the compared keys were defined *)
Theorem C04_sort_list_ok_keys : forall k rv deep ch ch', sort_list k rv deep ch = (ch', false) ->
  ch = [] \/ (length ch = 1 /\ deep = false) \/ keys_ok k ch = true.
Proof. exact sort_list_ok_keys. Qed.
Print Assumptions C04_sort_list_ok_keys.

Theorem C04_sort_deep_fuel_suffices : forall k rv fuel t, size t < fuel -> deep_keys_ok k t = true ->
  snd (sort_deep fuel k rv t false) = false.
Proof. exact sort_deep_progress. Qed.
Print Assumptions C04_sort_deep_fuel_suffices.

Theorem C04_sort_progress : forall w ti p k rv deep, valid_sort w ti p k deep = true ->
  fst (step w (OSort ti p k rv deep)) = Ok [].
Proof. exact sort_progress. Qed.
Print Assumptions C04_sort_progress.

Theorem C04_progress : forall w o, valid_op w o = true -> exists r, fst (step w o) = Ok r.
Proof. exact progress. Qed.
Print Assumptions C04_progress.

Theorem C04_add_progress : forall w ti p d e k b, valid_add w ti p d e b = true -> fst (step w (OAdd ti p d e k b)) = Ok [next w].
Proof. exact add_progress. Qed.
Print Assumptions C04_add_progress.
Theorem C04_remove_progress : forall w ti n keep wc, valid_remove w ti n keep wc = true -> fst (step w (ORemove ti n keep wc)) = Ok [].
Proof. exact remove_progress. Qed.
Print Assumptions C04_remove_progress.
Theorem C04_set_data_progress : forall w ti n d e wc, valid_set_data w ti n d e wc = true -> fst (step w (OSetData ti n d e wc)) = Ok [].
Proof. exact set_data_progress. Qed.
Print Assumptions C04_set_data_progress.

(* valid_op is not the empty predicate: it accepts a whole history, and it rejects what the library rejects *)
Definition dE : dat := D 4 4 15 true [101%Z].
Example C04_progress_nonvacuous :
  let ops := [ONewTree false None; OAdd 0 0 dA None None BNone; OAdd 0 0 dB None None BNone; OAdd 0 1 dC None None BNone;
              OShort 0 1 SAppendSibling dD None None; OAddNode 0 2 0 3 None None BNone None;
              OSort 0 0 [(1, Some [3%Z]); (2, Some [1%Z]); (4, Some [2%Z])] false false;
              OSetData 0 5 None (Some (DInt 77)) (Some true); ORename 0 1 dE; OMeta 0 2 (MClear None);
              ORemove 0 2 true false; OTreeCopy 0; ONodeCopy 0 1 true; ORemoveChildren 0 1; ODel 0 (KNode 4); OClear 0] in
  (fix go (l : list op) (w : world) : bool :=
     match l with [] => true | o :: l' => valid_op w o && go l' (snd (step w o)) end) ops empty_world = true /\
  let w := run [ONewTree false None; OAdd 0 0 dA None None BNone] empty_world in
  valid_op w (OAdd 0 0 dA None None BNone) = false /\ fst (step w (OAdd 0 0 dA None None BNone)) = Err EUnique /\
  valid_op w (OSort 0 0 [] false false) = true /\
  valid_op (snd (step w (OAdd 0 0 dB None None BNone))) (OSort 0 0 [(1, Some [3%Z])] false false) = false.
Proof. vm_compute. repeat split. Qed.

(* ====================================================================================== *)
(* Audit, cross-cutting "step vs step_chk": the effect theorems above have the premise [step w o = (Ok r, w')]; the
   correspondence evaluates the guarded [CaseMut.step_chk].  A successful guarded step is a successful step, so each
   of them applies verbatim to what the cases run; a refused guarded step is the machine's refusal or the
   stale-reference answer with the world untouched. *)
From NT Require Import CaseMut CaseMutFacts.

Theorem C04_step_chk_ok : forall w o r w', step_chk w o = (Ok r, w') -> step w o = (Ok r, w') /\ op_live w o = true.
Proof. exact step_chk_ok. Qed.
Print Assumptions C04_step_chk_ok.

Theorem C04_step_chk_err : forall w o e w', step_chk w o = (Err e, w') ->
  step w o = (Err e, w') \/ (op_live w o = false /\ e = EModel /\ w' = w).
Proof. exact step_chk_err. Qed.
Print Assumptions C04_step_chk_err.

(* move_to (progress, continued): needs the invariant - after the node is taken out the target must be found again *)
Theorem C04_move_progress : forall w ti n target b, WF.WFw w -> valid_move w ti n target b = true ->
  fst (step w (OMove ti n ti target b)) = Ok [].
Proof. exact move_progress. Qed.
Print Assumptions C04_move_progress.

Example C04_move_progress_nonvacuous :
  let w := run [ONewTree false None; OAdd 0 0 dA None None BNone; OAdd 0 0 dB None None BNone; OAdd 0 1 dC None None BNone] empty_world in
  valid_move w 0 3 2 BNone = true /\ valid_move w 0 1 3 BNone = false /\ valid_move w 0 3 0 (BNode 2) = true /\
  fst (step w (OMove 0 1 0 3 BNone)) = Err EValue.
Proof. vm_compute. repeat split. Qed.
