(* C05 — save() then load() reproduces the tree under every storage option.
   Statements only; proofs are in theories/Forest/Ser*.v.  (Model, specification and the meaning of
   the side conditions: see Properties/C12.v.)

   iso f f'  :=  same shape and child order, and for every node the same str-ness and text of the
                 (rebuilt) data, the same data_id and the same kind; hence the same clone partition.
   Byte transport (json, zipfile, TextIOWrapper) is not modelled: it is exercised by the correspondence. *)
From Coq Require Import List ZArith Bool String.
From NT Require Import Sx Rose Serialize SerializeSpec SerCompressProofs SerWriterProofs SerReaderProofs SerIsoProofs SerializeProofs
     SerTheorems SerWitness SerIsoRenamed SerWitness2.
From NT Require MiscZipIO MiscZipIOProofs.   (* part ZIPIO, imported at the end of this file *)
From NTGen Require Import Generated.
Import ListNotations.
Open Scope list_scope.

(* 1. Round trip: saving succeeds, loading the result succeeds, hands back the stored header and a tree
      iso to the source whose node ids are the pre-order positions; the data_ids in pre-order (hence
      the clone groups) are the source's. *)
Theorem C05_roundtrip : forall c ser deser shash f ko vo meta,
  tree_ok c f -> opts_ok c ser ko vo meta f -> mapper_ok c ser deser f -> id_stable c ser deser shash f ->
  exists j f', save_doc c ser ko vo meta f = Ok j /\
               load_doc c deser shash j = Ok (header_spec (resolve_km c ko) (resolve_vm c vo f) meta, f') /\
               iso f f' /\ map rdid (pre_f f') = map rdid (pre_f f) /\ ids f' = seq 1 (size_f f).
Proof. exact roundtrip. Qed.
Print Assumptions C05_roundtrip.

(* what iso means *)
Theorem C05_iso_meaning : forall f f', iso f f' ->
  map erase f = map erase f' /\ map rdid (pre_f f) = map rdid (pre_f f').
Proof. exact iso_meaning. Qed.
Print Assumptions C05_iso_meaning.

(* 2. The file meta handed back is the stored header: every user member, generator, version, maps in use *)
Theorem C05_meta : forall c ser deser shash f ko vo meta,
  tree_ok c f -> opts_ok c ser ko vo meta f -> mapper_ok c ser deser f -> id_stable c ser deser shash f ->
  exists j md f', save_doc c ser ko vo meta f = Ok j /\ load_doc c deser shash j = Ok (md, f') /\
    (forall k v, In (k, v) meta -> dget k md = Some v) /\
    dget k_generator md = Some (JStr (s_nutree_slash ++ NUTREE_VERSION)) /\
    dget k_format_version md = Some (JStr FILE_FORMAT_VERSION) /\
    dget k_key_map md = (if is_nil (resolve_km c ko) then None else Some (jv_key_map (resolve_km c ko))) /\
    dget k_value_map md = (if is_nil (resolve_vm c vo f) then None else Some (jv_value_map (resolve_vm c vo f))).
Proof. exact file_meta_back. Qed.
Print Assumptions C05_meta.

(* 3. key_map and value_map (default, off, custom) do not change the loaded tree *)
Theorem C05_option_independent : forall c ser deser shash f ko1 vo1 ko2 vo2 meta1 meta2,
  tree_ok c f -> opts_ok c ser ko1 vo1 meta1 f -> opts_ok c ser ko2 vo2 meta2 f ->
  mapper_ok c ser deser f -> id_stable c ser deser shash f ->
  exists j1 j2 md1 md2 f', save_doc c ser ko1 vo1 meta1 f = Ok j1 /\ save_doc c ser ko2 vo2 meta2 f = Ok j2 /\
                           load_doc c deser shash j1 = Ok (md1, f') /\ load_doc c deser shash j2 = Ok (md2, f').
Proof. exact option_independent. Qed.
Print Assumptions C05_option_independent.

(* 4. Default options and "maps off" are admissible for every tree (all tree classes): with the concrete
      mapper pair of SerWitness.v only the conditions on the tree remain *)
Theorem C05_roundtrip_default_options : forall c ko vo meta f,
  (ko = KTrue \/ ko = KFalse) -> (vo = VTrue \/ vo = VFalse) -> meta_ok meta ->
  ids_ok f -> sib_unique f -> str_hash_ok f -> kinds_ok c f -> clones_consistent f ->
  exists j f', save_doc c wser ko vo meta f = Ok j /\
               load_doc c (wdeser true) whash j = Ok (header_spec (resolve_km c ko) (resolve_vm c vo f) meta, f') /\
               iso f f'.
Proof. exact wroundtrip. Qed.
Print Assumptions C05_roundtrip_default_options.

(* 5. The uniqueness check of the reader never fires on a tree with unique sibling ids and stable ids *)
Theorem C05_no_spurious_unique_error : forall c ser deser shash f,
  ids_stable c ser deser shash f -> sib_unique f -> described_unique c ser deser shash f.
Proof. exact described_unique_of_source. Qed.
Print Assumptions C05_no_spurious_unique_error.

(* 5b. Data whose default id does NOT survive a rebuild (identity-hashed: plain objects, DictWrapper,
       FileSystemEntry).  [id_stable] is replaced by: the loaded ids are a renaming rho of the stored ones
       (the id rebuilt for the first occurrence), every later occurrence of a data_id has the kind of the
       first one (always true in a plain Tree) and rho does not merge ids of the tree.  Then shape, order,
       rebuilt data, kinds and the clone partition are reproduced (data_ids up to rho). *)
Theorem C05_roundtrip_any_data : forall c ser deser shash f ko vo meta,
  tree_ok c f -> opts_ok c ser ko vo meta f -> mapper_ok c ser deser f ->
  clones_same_kind f -> rho_inj f (rho_of c ser deser shash f) ->
  exists j f', save_doc c ser ko vo meta f = Ok j /\
               load_doc c deser shash j = Ok (header_spec (resolve_km c ko) (resolve_vm c vo f) meta, f') /\
               iso_upto (rho_of c ser deser shash f) f f' /\
               map rdid (pre_f f') = map (rho_of c ser deser shash f) (map rdid (pre_f f)) /\
               ids f' = seq 1 (size_f f).
Proof. exact roundtrip_any_data. Qed.
Print Assumptions C05_roundtrip_any_data.

(* ... for an arbitrary renaming *)
Theorem C05_roundtrip_renamed : forall c ser deser shash f rho ko vo meta,
  tree_ok c f -> opts_ok c ser ko vo meta f -> mapper_ok c ser deser f ->
  ids_renamed c ser deser shash f rho -> rho_inj f rho ->
  exists j f', save_doc c ser ko vo meta f = Ok j /\
               load_doc c deser shash j = Ok (header_spec (resolve_km c ko) (resolve_vm c vo f) meta, f') /\
               iso_upto rho f f' /\ map rdid (pre_f f') = map rho (map rdid (pre_f f)) /\ ids f' = seq 1 (size_f f).
Proof. exact roundtrip_renamed. Qed.
Print Assumptions C05_roundtrip_renamed.

(* in a plain Tree (and FileSystemTree) every clone has the kind of its first occurrence *)
Theorem C05_plain_clones_same_kind : forall c f, is_typed c = false -> kinds_ok c f -> clones_same_kind f.
Proof. exact plain_clones_same_kind. Qed.
Print Assumptions C05_plain_clones_same_kind.

(* 6. KNOWN FINDING D40.  The statement without [id_stable] (all other hypotheses kept, the reader's
      uniqueness condition granted) is false: a clone whose kind differs from its first occurrence's is
      written as an independent full entry; if the rebuilt object has a fresh default id (identity-hashed
      data) the clone leaves its group.  Witness: f_ty with the mapper wdeser false. *)
Definition C05_roundtrip_full_statement : Prop := roundtrip_without_id_stable.
Theorem C05_roundtrip_full_statement_refuted : ~ C05_roundtrip_full_statement.
Proof. exact roundtrip_without_id_stable_refuted. Qed.
Print Assumptions C05_roundtrip_full_statement_refuted.

Theorem C05_D40_witness :
  match save_doc CTyped wser KTrue VTrue [] f_ty with
  | Ok j => match load_doc CTyped (wdeser false) whash j with
            | Ok (_, f') => let ds := map rdid (pre_f f') in
                            nth 0 ds (DInt 0) = nth 4 ds (DInt 1) /\ nth 0 ds (DInt 0) <> nth 2 ds (DInt 0)
            | Err _ => False
            end
  | Err _ => False
  end.
Proof. exact d40_partition. Qed.
Print Assumptions C05_D40_witness.

(* non-vacuity of 5b: f_id (plain tree, an identity-hashed object cloned, fresh hashes on every rebuild):
   all hypotheses hold although id_stable does not, the ids change and the clone pair stays a pair *)
Example C05_any_data_hypotheses_satisfiable :
  tree_ok CPlain f_id /\ opts_ok CPlain wser KTrue VTrue ex_meta f_id /\ mapper_ok CPlain wser (wdeser false) f_id /\
  clones_same_kind f_id /\ rho_inj f_id (rho_of CPlain wser (wdeser false) whash f_id) /\
  ~ id_stable CPlain wser (wdeser false) whash f_id.
Proof. exact f_id_hypotheses. Qed.
Example C05_any_data_example :
  match save_doc CPlain wser KTrue VTrue [] f_id with
  | Ok j => match load_doc CPlain (wdeser false) whash j with
            | Ok (_, f') => let ds := map rdid (pre_f f') in
                            nth 0 ds (DInt 0) = nth 2 ds (DInt 1) /\ nth 0 ds (DInt 0) <> DInt 77 /\
                            nth 0 ds (DInt 0) <> nth 3 ds (DInt 0)
            | Err _ => False
            end
  | Err _ => False
  end.
Proof. exact f_id_roundtrip. Qed.

(* 7. KNOWN FINDING D51.  The clause of [opts_ok] "no entry key is a short name of the key_map" is necessary:
      the reader renames every key that equals a short name, also one the mapper wrote itself (a mapper
      storing "s" under Tree's default key_map {"str": "s"}: FileSystemTree's own mapper does, which is why
      that class sets DEFAULT_KEY_MAP = {}).  The statement without the clause is false. *)
Definition C05_roundtrip_without_short_name_clause : Prop := roundtrip_without_short_name_clause.
Theorem C05_roundtrip_without_short_name_clause_refuted : ~ C05_roundtrip_without_short_name_clause.
Proof. exact roundtrip_without_short_name_clause_refuted. Qed.
Print Assumptions C05_roundtrip_without_short_name_clause_refuted.

Theorem C05_D51_witness :
  exists j, save_doc CPlain sser KTrue VTrue [] f_s = Ok j /\ load_doc CPlain sdeser whash j = Err EKey.
Proof. exact d51_witness. Qed.
Print Assumptions C05_D51_witness.

(* ---- non-vacuity: all hypotheses of C05_roundtrip / C05_option_independent hold on f_ty (typed, a clone
   of another kind, value-hashed data) with default and with custom maps, and on f_ex *)
Example C05_hypotheses_satisfiable :
  tree_ok CTyped f_ty /\ opts_ok CTyped wser KTrue VTrue ex_meta f_ty /\
  opts_ok CTyped wser (KCustom ex_km) (VCustom ex_vm) [] f_ty /\ opts_ok CTyped wser KFalse VFalse [] f_ty /\
  mapper_ok CTyped wser (wdeser true) f_ty /\ id_stable CTyped wser (wdeser true) whash f_ty /\
  tree_ok CPlain f_ex /\ opts_ok CPlain wser KTrue VTrue ex_meta f_ex.
Proof.
  destruct (tree_okb_sound CPlain f_ex f_ex_ok) as (A1 & A2 & A3 & A4 & A5).
  destruct (tree_okb_sound CTyped f_ty f_ty_ok) as (B1 & B2 & B3 & B4 & B5).
  assert (Hm : meta_ok []) by (split; [constructor|intros k []]).
  split; [unfold tree_ok; auto|]. split; [apply wopts_ok; auto; apply ex_meta_ok|].
  split; [apply opts_okb_sound; [exact f_ty_custom_ok|exact Hm]|]. split; [apply wopts_ok; auto|].
  split; [split; [apply wmappers_ok|apply wmapper_rebuilds]|]. split; [now apply wid_stable|].
  split; [unfold tree_ok; auto|]. apply wopts_ok; auto. apply ex_meta_ok.
Qed.

(* the generated facts this property uses were lifted from the current source *)
Theorem C05_generated_facts_present : GEN_CONST_OK = true /\ GEN_DOCS_OK = true.
Proof. split; reflexivity. Qed.
Print Assumptions C05_generated_facts_present.

(* ==== PART ZIPIO: the byte transport of save()/load(): common.open_as_compressed_output_stream and
   open_as_uncompressed_input_stream (model theories/Forest/MiscZipIO.v, correspondence Cases/CaseMiscZipIO.v on real files,
   harness parts_misc.ZIPIO).  A file is [FPlain t] or a ZIP container [FZip members]; zipfile / bz2 / zlib / lzma / utf-8
   are the identity on the text (modelled, not verified). ==== *)
Import MiscZipIO MiscZipIOProofs.

(* whatever was written comes back, for every accepted compression setting (with auto_uncompress on, the default) *)
Theorem C05_transport_roundtrip : forall name c t f, write_file name c t = inr f -> read_file f true = RText t.
Proof. exact transport_roundtrip. Qed.
Print Assumptions C05_transport_roundtrip.

(* the writer refuses exactly the ints that are not a ZIP method *)
Theorem C05_transport_refused_iff : forall name c t,
  (exists e, write_file name c t = inl e) <-> exists z, c = CInt z /\ known_method z = false.
Proof. exact write_refused_iff. Qed.
Print Assumptions C05_transport_refused_iff.

(* only `False` writes a plain file: 0 (ZIP_STORED) is a container, True means BZIP2; one member named "<file name>.json" *)
Theorem C05_transport_shapes : forall name t,
  write_file name CFalse t = inr (FPlain t) /\
  write_file name CTrue t = inr (FZip [(name ++ t_json, ZIP_BZIP2, t)]) /\
  write_file name (CInt 0) t = inr (FZip [(name ++ t_json, ZIP_STORED, t)]) /\
  (forall z, known_method z = true -> write_file name (CInt z) t = inr (FZip [(name ++ t_json, z, t)])).
Proof. exact write_shapes. Qed.
Print Assumptions C05_transport_shapes.

(* the reader: a container is accepted iff it has exactly one member (any name, any method); without auto_uncompress a
   plain file still reads and a container is not interpreted *)
Theorem C05_transport_single_member : forall ms, (exists t, read_file (FZip ms) true = RText t) <-> List.length ms = 1%nat.
Proof. exact read_single_member_iff. Qed.
Print Assumptions C05_transport_single_member.

Theorem C05_transport_no_uncompress : forall f, read_file f false = match f with FPlain t => RText t | FZip _ => RRaw end.
Proof. exact read_without_uncompress. Qed.
Print Assumptions C05_transport_no_uncompress.

Example C05_transport_ex :
  write_file [102]%Z (CInt 1) [120]%Z = inl MiscZipIO.E_NOTIMPL /\
  read_file (FZip [([97]%Z, 0%Z, [49]%Z); ([98]%Z, 12%Z, [50]%Z)]) true = RErr MiscZipIO.E_VALUE /\
  read_file (FZip [([97]%Z, 8%Z, [49]%Z)]) true = RText [49]%Z.
Proof. repeat split. Qed.
