(* C05 — save() then load() reproduces the tree under every storage option. (stub, grown below) *)
From Coq Require Import List ZArith Bool.
From NT Require Import Sx Rose Serialize SerializeSpec.
Import ListNotations.
