(* C05 — save() then load() reproduces the tree under every storage option.
   Statements only; proofs are in theories/Forest/Ser*.v.  (Model, specification and the meaning of
   the side conditions: see Properties/C12.v.)

   iso f f'  :=  same shape and child order, and for every node the same str-ness and text of the
                 (rebuilt) data, the same data_id and the same kind; hence the same clone partition.
   Byte transport (json, zipfile, TextIOWrapper) is not modelled: it is exercised by the correspondence. *)
From Coq Require Import List ZArith Bool String.
From NT Require Import Sx Rose Serialize SerializeSpec SerCompressProofs SerWriterProofs SerReaderProofs SerIsoProofs SerializeProofs
     SerTheorems SerWitness SerIsoRenamed SerWitness2.
From NT Require MiscZipIO MiscZipIOProofs.   (* part ZIPIO, imported at the end of this file *)
From NTGen Require Import Generated.
Import ListNotations.
Open Scope list_scope.

(* 1. Round trip: saving succeeds, loading the result succeeds, hands back the stored header and a tree
      iso to the source whose node ids are the pre-order positions; the data_ids in pre-order (hence
      the clone groups) are the source's. *)
Theorem C05_roundtrip : forall c ser deser shash f ko vo meta,
  tree_ok c f -> opts_ok c ser ko vo meta f -> mapper_ok c ser deser f -> id_stable c ser deser shash f ->
  exists j f', save_doc c ser ko vo meta f = Ok j /\
               load_doc c deser shash j = Ok (header_spec (resolve_km c ko) (resolve_vm c vo f) meta, f') /\
               iso f f' /\ map rdid (pre_f f') = map rdid (pre_f f) /\ ids f' = seq 1 (size_f f).
Proof. exact roundtrip. Qed.
Print Assumptions C05_roundtrip.

(* what iso means *)
Theorem C05_iso_meaning : forall f f', iso f f' ->
  map erase f = map erase f' /\ map rdid (pre_f f) = map rdid (pre_f f').
Proof. exact iso_meaning. Qed.
Print Assumptions C05_iso_meaning.

(* 2. The file meta handed back is the stored header: every user member, generator, version, maps in use *)
Theorem C05_meta : forall c ser deser shash f ko vo meta,
  tree_ok c f -> opts_ok c ser ko vo meta f -> mapper_ok c ser deser f -> id_stable c ser deser shash f ->
  exists j md f', save_doc c ser ko vo meta f = Ok j /\ load_doc c deser shash j = Ok (md, f') /\
    (forall k v, In (k, v) meta -> dget k md = Some v) /\
    dget k_generator md = Some (JStr (s_nutree_slash ++ NUTREE_VERSION)) /\
    dget k_format_version md = Some (JStr FILE_FORMAT_VERSION) /\
    dget k_key_map md = (if is_nil (resolve_km c ko) then None else Some (jv_key_map (resolve_km c ko))) /\
    dget k_value_map md = (if is_nil (resolve_vm c vo f) then None else Some (jv_value_map (resolve_vm c vo f))).
Proof. exact file_meta_back. Qed.
Print Assumptions C05_meta.

(* 3. key_map and value_map (default, off, custom) do not change the loaded tree *)
Theorem C05_option_independent : forall c ser deser shash f ko1 vo1 ko2 vo2 meta1 meta2,
  tree_ok c f -> opts_ok c ser ko1 vo1 meta1 f -> opts_ok c ser ko2 vo2 meta2 f ->
  mapper_ok c ser deser f -> id_stable c ser deser shash f ->
  exists j1 j2 md1 md2 f', save_doc c ser ko1 vo1 meta1 f = Ok j1 /\ save_doc c ser ko2 vo2 meta2 f = Ok j2 /\
                           load_doc c deser shash j1 = Ok (md1, f') /\ load_doc c deser shash j2 = Ok (md2, f').
Proof. exact option_independent. Qed.
Print Assumptions C05_option_independent.

(* 4. Default options and "maps off" are admissible for every tree (all tree classes): with the concrete
      mapper pair of SerWitness.v only the conditions on the tree remain *)
Theorem C05_roundtrip_default_options : forall c ko vo meta f,
  (ko = KTrue \/ ko = KFalse) -> (vo = VTrue \/ vo = VFalse) -> meta_ok meta ->
  ids_ok f -> sib_unique f -> str_hash_ok f -> kinds_ok c f -> clones_consistent f ->
  exists j f', save_doc c wser ko vo meta f = Ok j /\
               load_doc c (wdeser true) whash j = Ok (header_spec (resolve_km c ko) (resolve_vm c vo f) meta, f') /\
               iso f f'.
Proof. exact wroundtrip. Qed.
Print Assumptions C05_roundtrip_default_options.

(* 5. The uniqueness check of the reader never fires on a tree with unique sibling ids and stable ids *)
Theorem C05_no_spurious_unique_error : forall c ser deser shash f,
  ids_stable c ser deser shash f -> sib_unique f -> described_unique c ser deser shash f.
Proof. exact described_unique_of_source. Qed.
Print Assumptions C05_no_spurious_unique_error.

(* 5b. Data whose default id does NOT survive a rebuild (identity-hashed: plain objects, DictWrapper,
       FileSystemEntry).  [id_stable] is replaced by: the loaded ids are a renaming rho of the stored ones
       (the id rebuilt for the first occurrence), every later occurrence of a data_id has the kind of the
       first one (always true in a plain Tree) and rho does not merge ids of the tree.  Then shape, order,
       rebuilt data, kinds and the clone partition are reproduced (data_ids up to rho). *)
Theorem C05_roundtrip_any_data : forall c ser deser shash f ko vo meta,
  tree_ok c f -> opts_ok c ser ko vo meta f -> mapper_ok c ser deser f ->
  clones_same_kind f -> rho_inj f (rho_of c ser deser shash f) ->
  exists j f', save_doc c ser ko vo meta f = Ok j /\
               load_doc c deser shash j = Ok (header_spec (resolve_km c ko) (resolve_vm c vo f) meta, f') /\
               iso_upto (rho_of c ser deser shash f) f f' /\
               map rdid (pre_f f') = map (rho_of c ser deser shash f) (map rdid (pre_f f)) /\
               ids f' = seq 1 (size_f f).
Proof. exact roundtrip_any_data. Qed.
Print Assumptions C05_roundtrip_any_data.

(* ... for an arbitrary renaming *)
Theorem C05_roundtrip_renamed : forall c ser deser shash f rho ko vo meta,
  tree_ok c f -> opts_ok c ser ko vo meta f -> mapper_ok c ser deser f ->
  ids_renamed c ser deser shash f rho -> rho_inj f rho ->
  exists j f', save_doc c ser ko vo meta f = Ok j /\
               load_doc c deser shash j = Ok (header_spec (resolve_km c ko) (resolve_vm c vo f) meta, f') /\
               iso_upto rho f f' /\ map rdid (pre_f f') = map rho (map rdid (pre_f f)) /\ ids f' = seq 1 (size_f f).
Proof. exact roundtrip_renamed. Qed.
Print Assumptions C05_roundtrip_renamed.

(* in a plain Tree (and FileSystemTree) every clone has the kind of its first occurrence *)
Theorem C05_plain_clones_same_kind : forall c f, is_typed c = false -> kinds_ok c f -> clones_same_kind f.
Proof. exact plain_clones_same_kind. Qed.
Print Assumptions C05_plain_clones_same_kind.

(* 6. KNOWN FINDING D40.  The statement without [id_stable] (all other hypotheses kept, the reader's
      uniqueness condition granted) is false: a clone whose kind differs from its first occurrence's is
      written as an independent full entry; if the rebuilt object has a fresh default id (identity-hashed
      data) the clone leaves its group.  Witness: f_ty with the mapper wdeser false. *)
Definition C05_roundtrip_full_statement : Prop := roundtrip_without_id_stable.
Theorem C05_roundtrip_full_statement_refuted : ~ C05_roundtrip_full_statement.
Proof. exact roundtrip_without_id_stable_refuted. Qed.
Print Assumptions C05_roundtrip_full_statement_refuted.

Theorem C05_D40_witness :
  match save_doc CTyped wser KTrue VTrue [] f_ty with
  | Ok j => match load_doc CTyped (wdeser false) whash j with
            | Ok (_, f') => let ds := map rdid (pre_f f') in
                            nth 0 ds (DInt 0) = nth 4 ds (DInt 1) /\ nth 0 ds (DInt 0) <> nth 2 ds (DInt 0)
            | Err _ => False
            end
  | Err _ => False
  end.
Proof. exact d40_partition. Qed.
Print Assumptions C05_D40_witness.

(* non-vacuity of 5b: f_id (plain tree, an identity-hashed object cloned, fresh hashes on every rebuild):
   all hypotheses hold although id_stable does not, the ids change and the clone pair stays a pair *)
Example C05_any_data_hypotheses_satisfiable :
  tree_ok CPlain f_id /\ opts_ok CPlain wser KTrue VTrue ex_meta f_id /\ mapper_ok CPlain wser (wdeser false) f_id /\
  clones_same_kind f_id /\ rho_inj f_id (rho_of CPlain wser (wdeser false) whash f_id) /\
  ~ id_stable CPlain wser (wdeser false) whash f_id.
Proof. exact f_id_hypotheses. Qed.
Example C05_any_data_example :
  match save_doc CPlain wser KTrue VTrue [] f_id with
  | Ok j => match load_doc CPlain (wdeser false) whash j with
            | Ok (_, f') => let ds := map rdid (pre_f f') in
                            nth 0 ds (DInt 0) = nth 2 ds (DInt 1) /\ nth 0 ds (DInt 0) <> DInt 77 /\
                            nth 0 ds (DInt 0) <> nth 3 ds (DInt 0)
            | Err _ => False
            end
  | Err _ => False
  end.
Proof. exact f_id_roundtrip. Qed.

(* 7. KNOWN FINDING D51.  The clause of [opts_ok] "no entry key is a short name of the key_map" is necessary:
      the reader renames every key that equals a short name, also one the mapper wrote itself (a mapper
      storing "s" under Tree's default key_map {"str": "s"}: FileSystemTree's own mapper does, which is why
      that class sets DEFAULT_KEY_MAP = {}).  The statement without the clause is false. *)
Definition C05_roundtrip_without_short_name_clause : Prop := roundtrip_without_short_name_clause.
Theorem C05_roundtrip_without_short_name_clause_refuted : ~ C05_roundtrip_without_short_name_clause.
Proof. exact roundtrip_without_short_name_clause_refuted. Qed.
Print Assumptions C05_roundtrip_without_short_name_clause_refuted.

Theorem C05_D51_witness :
  exists j, save_doc CPlain sser KTrue VTrue [] f_s = Ok j /\ load_doc CPlain sdeser whash j = Err EKey.
Proof. exact d51_witness. Qed.
Print Assumptions C05_D51_witness.

(* ---- non-vacuity: all hypotheses of C05_roundtrip / C05_option_independent hold on f_ty (typed, a clone
   of another kind, value-hashed data) with default and with custom maps, and on f_ex *)
Example C05_hypotheses_satisfiable :
  tree_ok CTyped f_ty /\ opts_ok CTyped wser KTrue VTrue ex_meta f_ty /\
  opts_ok CTyped wser (KCustom ex_km) (VCustom ex_vm) [] f_ty /\ opts_ok CTyped wser KFalse VFalse [] f_ty /\
  mapper_ok CTyped wser (wdeser true) f_ty /\ id_stable CTyped wser (wdeser true) whash f_ty /\
  tree_ok CPlain f_ex /\ opts_ok CPlain wser KTrue VTrue ex_meta f_ex.
Proof.
  destruct (tree_okb_sound CPlain f_ex f_ex_ok) as (A1 & A2 & A3 & A4 & A5).
  destruct (tree_okb_sound CTyped f_ty f_ty_ok) as (B1 & B2 & B3 & B4 & B5).
  assert (Hm : meta_ok []) by (split; [constructor|intros k []]).
  split; [unfold tree_ok; auto|]. split; [apply wopts_ok; auto; apply ex_meta_ok|].
  split; [apply opts_okb_sound; [exact f_ty_custom_ok|exact Hm]|]. split; [apply wopts_ok; auto|].
  split; [split; [apply wmappers_ok|apply wmapper_rebuilds]|]. split; [now apply wid_stable|].
  split; [unfold tree_ok; auto|]. apply wopts_ok; auto. apply ex_meta_ok.
Qed.

(* the generated facts this property uses were lifted from the current source *)
Theorem C05_generated_facts_present : GEN_CONST_OK = true /\ GEN_DOCS_OK = true.
Proof. split; reflexivity. Qed.
Print Assumptions C05_generated_facts_present.

(* ==== PART ZIPIO: the byte transport of save()/load(): common.open_as_compressed_output_stream and
   open_as_uncompressed_input_stream (model theories/Forest/MiscZipIO.v, correspondence Cases/CaseMiscZipIO.v on real files,
   harness parts_misc.ZIPIO).  A file is [FPlain t] or a ZIP container [FZip members]; zipfile / bz2 / zlib / lzma / utf-8
   are the identity on the text (modelled, not verified). ==== *)
Import MiscZipIO MiscZipIOProofs.

(* whatever was written comes back, for every accepted compression setting (with auto_uncompress on, the default) *)
Theorem C05_transport_roundtrip : forall name c t f, write_file name c t = inr f -> read_file f true = RText t.
Proof. exact transport_roundtrip. Qed.
Print Assumptions C05_transport_roundtrip.

(* the writer refuses exactly the ints that are not a ZIP method *)
Theorem C05_transport_refused_iff : forall name c t,
  (exists e, write_file name c t = inl e) <-> exists z, c = CInt z /\ known_method z = false.
Proof. exact write_refused_iff. Qed.
Print Assumptions C05_transport_refused_iff.

(* only `False` writes a plain file: 0 (ZIP_STORED) is a container, True means BZIP2; one member named "<file name>.json" *)
Theorem C05_transport_shapes : forall name t,
  write_file name CFalse t = inr (FPlain t) /\
  write_file name CTrue t = inr (FZip [(name ++ t_json, ZIP_BZIP2, t)]) /\
  write_file name (CInt 0) t = inr (FZip [(name ++ t_json, ZIP_STORED, t)]) /\
  (forall z, known_method z = true -> write_file name (CInt z) t = inr (FZip [(name ++ t_json, z, t)])).
Proof. exact write_shapes. Qed.
Print Assumptions C05_transport_shapes.

(* the reader: a container is accepted iff it has exactly one member (any name, any method); without auto_uncompress a
   plain file still reads and a container is not interpreted *)
Theorem C05_transport_single_member : forall ms, (exists t, read_file (FZip ms) true = RText t) <-> List.length ms = 1%nat.
Proof. exact read_single_member_iff. Qed.
Print Assumptions C05_transport_single_member.

Theorem C05_transport_no_uncompress : forall f, read_file f false = match f with FPlain t => RText t | FZip _ => RRaw end.
Proof. exact read_without_uncompress. Qed.
Print Assumptions C05_transport_no_uncompress.

Example C05_transport_ex :
  write_file [102]%Z (CInt 1) [120]%Z = inl MiscZipIO.E_NOTIMPL /\
  read_file (FZip [([97]%Z, 0%Z, [49]%Z); ([98]%Z, 12%Z, [50]%Z)]) true = RErr MiscZipIO.E_VALUE /\
  read_file (FZip [([97]%Z, 8%Z, [49]%Z)]) true = RText [49]%Z.
Proof. repeat split. Qed.

(* ====================================================================== audit follow-up *)
From NT Require Import SerAuditC05.
From NT Require Machine WF.

(* A1. Option independence and the file-meta clause ALSO for data whose ids do not survive a rebuild
       (identity-hashed: plain objects, DictWrapper, FileSystemEntry -- every FileSystemTree): the loaded tree
       is the same for all admissible (key_map, value_map, meta); it is iso to the source up to the renaming. *)
Theorem C05_option_independent_any_data : forall c ser deser shash f rho ko1 vo1 ko2 vo2 meta1 meta2,
  tree_ok c f -> opts_ok c ser ko1 vo1 meta1 f -> opts_ok c ser ko2 vo2 meta2 f -> mapper_ok c ser deser f ->
  ids_renamed c ser deser shash f rho -> rho_inj f rho ->
  exists j1 j2 md1 md2 f', save_doc c ser ko1 vo1 meta1 f = Ok j1 /\ save_doc c ser ko2 vo2 meta2 f = Ok j2 /\
                           load_doc c deser shash j1 = Ok (md1, f') /\ load_doc c deser shash j2 = Ok (md2, f') /\
                           iso_upto rho f f'.
Proof. exact option_independent_renamed. Qed.
Print Assumptions C05_option_independent_any_data.

Theorem C05_meta_any_data : forall c ser deser shash f rho ko vo meta,
  tree_ok c f -> opts_ok c ser ko vo meta f -> mapper_ok c ser deser f ->
  ids_renamed c ser deser shash f rho -> rho_inj f rho ->
  exists j md f', save_doc c ser ko vo meta f = Ok j /\ load_doc c deser shash j = Ok (md, f') /\
    (forall k v, In (k, v) meta -> dget k md = Some v) /\
    dget k_generator md = Some (JStr (s_nutree_slash ++ NUTREE_VERSION)) /\
    dget k_format_version md = Some (JStr FILE_FORMAT_VERSION) /\
    dget k_key_map md = (if is_nil (resolve_km c ko) then None else Some (jv_key_map (resolve_km c ko))) /\
    dget k_value_map md = (if is_nil (resolve_vm c vo f) then None else Some (jv_value_map (resolve_vm c vo f))).
Proof. exact file_meta_back_renamed. Qed.
Print Assumptions C05_meta_any_data.

(* A2. A primitive condition between [id_stable] and [clones_same_kind]: only the data_ids that have a later
       occurrence of ANOTHER kind (written in full twice) need stable ids; everything else may be identity-hashed. *)
Theorem C05_roundtrip_mixed : forall c ser deser shash f ko vo meta,
  tree_ok c f -> opts_ok c ser ko vo meta f -> mapper_ok c ser deser f ->
  kind_differing_stable c ser deser shash f -> rho_inj f (rho_of c ser deser shash f) ->
  exists j f', save_doc c ser ko vo meta f = Ok j /\
               load_doc c deser shash j = Ok (header_spec (resolve_km c ko) (resolve_vm c vo f) meta, f') /\
               iso_upto (rho_of c ser deser shash f) f f' /\
               map rdid (pre_f f') = map (rho_of c ser deser shash f) (map rdid (pre_f f)) /\ ids f' = seq 1 (size_f f).
Proof. exact roundtrip_mixed. Qed.
Print Assumptions C05_roundtrip_mixed.

(* A3. The library's OWN default mappers (no mapper argument): a TypedTree and a plain Tree of str data (explicit
       ids included: D50 and D92 repaired) round-trip under default options / maps off. *)
Theorem C05_roundtrip_default_mappers : forall c shash ko vo meta f,
  (c = CTyped \/ c = CPlain) -> all_str f ->
  (ko = KTrue \/ ko = KFalse) -> (vo = VTrue \/ vo = VFalse) -> meta_ok meta ->
  tree_ok c f -> str_hash_fn shash f ->
  exists j f', save_doc c default_ser ko vo meta f = Ok j /\
               load_doc c (default_deser c shash) shash j = Ok (header_spec (resolve_km c ko) (resolve_vm c vo f) meta, f') /\
               iso f f' /\ map rdid (pre_f f') = map rdid (pre_f f) /\ ids f' = seq 1 (size_f f).
Proof. exact roundtrip_default_mappers. Qed.
Print Assumptions C05_roundtrip_default_mappers.

(* D92 (FIXED, fixes/D92.diff): a plain Tree with a str node that has an explicit data_id is saved without a mapper
   (entry {"str", "data_id"}) and -- since the repair -- loaded without one, like a TypedTree; with the pre-repair
   default mapper (always NotImplementedError) the same document was refused.  Regression example. *)
Theorem C05_D92_witness :
  exists j, save_doc CPlain default_ser KTrue VTrue [] f_d92 = Ok j /\
            (exists md f', load_doc CPlain (default_deser CPlain whash) whash j = Ok (md, f') /\ iso f_d92 f') /\
            (exists md f', load_doc CTyped (default_deser CTyped whash) whash j = Ok (md, f')) /\
            load_doc CPlain default_deser_plain_prerepair whash j = Err ENotImpl.
Proof. exact d92_witness. Qed.
Print Assumptions C05_D92_witness.

(* A4. OUTSIDE THE DOMAIN of C05: [clones_consistent].  One data_id stands for one data object (that is what a
       clone is); an explicit data_id is the caller's statement that two nodes carry the same data.  The library
       accepts two nodes with one explicit data_id and different data; the second is written as a reference and
       comes back with the first one's data ("b" loads as "a").  The statement without the hypothesis is false. *)
Definition C05_roundtrip_without_clones_consistent : Prop := roundtrip_without_clones_consistent.
Theorem C05_roundtrip_without_clones_consistent_refuted : ~ C05_roundtrip_without_clones_consistent.
Proof. exact roundtrip_without_clones_consistent_refuted. Qed.
Print Assumptions C05_roundtrip_without_clones_consistent_refuted.

Example C05_outside_domain_same_id_different_data :
  ~ clones_consistent f_cc /\
  match save_doc CPlain wser KTrue VTrue [] f_cc with
  | Ok j => match load_doc CPlain (wdeser true) whash j with
            | Ok (_, f') => map (fun t => i_name (rinfo t)) (pre_f f') = [t_ "a"; t_ "x"; t_ "a"] /\
                            map rdid (pre_f f') = map rdid (pre_f f_cc)
            | Err _ => False
            end
  | Err _ => False
  end.
Proof. exact f_cc_outside. Qed.

(* Remaining exclusions of [opts_ok] besides D51, both user errors that the library does not validate: a custom key_map
   that maps two keys to one short name (the second overwrites the first member silently), and user meta that uses a
   reserved header key ($generator, $format_version, $key_map, $value_map: header.update(meta) overwrites it). *)

(* A5. Bridge to reachable states: every well-formed state of the mutation machine (Mut/WF.v, preserved by every
       operation: C01) has unique node ids different from the root's and unique sibling data_ids; the two remaining
       conditions of [tree_ok] are about the data ([kinds_ok]: the tree class; [clones_consistent]: A4). *)
Theorem C05_WF_gives_tree_side_conditions : forall t,
  WF.WF t -> ids_ok (Machine.forest_of t) /\ SerIsoProofs.sib_unique (Machine.forest_of t).
Proof. exact WF_tree_side_conditions. Qed.
Print Assumptions C05_WF_gives_tree_side_conditions.

Theorem C05_roundtrip_of_WF : forall c ser deser shash ko vo meta t,
  WF.WF t -> kinds_ok c (Machine.forest_of t) -> clones_consistent (Machine.forest_of t) ->
  opts_ok c ser ko vo meta (Machine.forest_of t) -> mapper_ok c ser deser (Machine.forest_of t) ->
  id_stable c ser deser shash (Machine.forest_of t) ->
  exists j f', save_doc c ser ko vo meta (Machine.forest_of t) = Ok j /\
               load_doc c deser shash j
               = Ok (header_spec (resolve_km c ko) (resolve_vm c vo (Machine.forest_of t)) meta, f') /\
               iso (Machine.forest_of t) f' /\ map rdid (pre_f f') = map rdid (pre_f (Machine.forest_of t)) /\
               ids f' = seq 1 (size_f (Machine.forest_of t)).
Proof. exact roundtrip_of_WF. Qed.
Print Assumptions C05_roundtrip_of_WF.
