(* C11 — diff() marks exactly the one-sided children and projects back to both inputs.
   Statements only; proofs are in theories/Forest/DiffProofs.v, the executable
   model of nutree/diff.py in theories/Forest/Diff.v.

   [diff_with order ordered reduce t0 t1] = (meta of the result's system root,
   result forest) where [order] is the iteration order of the Python set
   [added_nodes] in the re-classification loop; EVERY theorem below is stated
   for every [order] (any list of identities, complete or not, with repeats).
   What the correspondence check runs ([diff_tree_lit], literal branch
   structure of the source, order = hints first) is an instance
   (C11_code_is_instance).

   Vocabulary: [key x] = the == class of the node's data object; [new x] =
   marked ADDED or MOVED_HERE; [gone x] = marked REMOVED or MOVED_TO;
   [mark x] = meta["dc"]; result nodes copied from t0 have even, those copied
   from t1 odd identities.

   Domain ([dom t0 t1]; follows from the global form [sib_unique t0],
   [sib_unique t1], [eq_agree t0 t1]; decidable by [dom_b]): no two siblings
   with equal data, and == coincides with equality of data_ids between the
   child lists that are compared.  "Inputs unchanged" is a fact of the model
   being a pure function of the input values; for the implementation it is
   observed by the harness (both inputs before/after each call, and the model
   is compared against the inputs as they are AFTER the call). *)
From Coq Require Import List ZArith Bool Arith Permutation.
From NT Require Import Sx Rose Diff DiffProofs DiffMore DiffSrc DiffIds DiffMeta DiffBranch CaseC11.
From NT Require WF.
From NTGen Require Import Generated.
Import ListNotations.

(* ---- tie to the source: the enum the marks are written with ------------- *)
Theorem C11_diff_classes_generated :
  map snd DIFF_CLASSES = map dc_val [ADDED; REMOVED; MOVED_HERE; MOVED_TO] /\
  map fst DIFF_CLASSES = [[65; 68; 68; 69; 68]; [82; 69; 77; 79; 86; 69; 68];
                          [77; 79; 86; 69; 68; 95; 72; 69; 82; 69]; [77; 79; 86; 69; 68; 95; 84; 79]]%Z.
Proof. split; reflexivity. Qed.
Print Assumptions C11_diff_classes_generated.

(* ---- the domain ---------------------------------------------------------- *)
Theorem C11_domain_global : forall t0 t1, sib_unique t0 -> sib_unique t1 -> eq_agree t0 t1 -> dom t0 t1.
Proof. exact dom_of_global. Qed.
Print Assumptions C11_domain_global.

Theorem C11_domain_decidable : forall t0 t1, dom_b t0 t1 = true -> dom t0 t1.
Proof. exact dom_b_sound. Qed.
Print Assumptions C11_domain_decidable.

(* a non-trivial member of the domain, used by the examples below:
   t0 = a(b, c), d, e      t1 = e, a(c, x(b)), f(b)      (b occurs twice in t1: nodes 15 and 17) *)
Definition nd (id : nat) (l : Z) (ch : list rt) : rt := T id (I l l (100 + l) true [l] (DInt (100 + l)) None []) ch.
Definition ex_t0 : forest := [nd 1 1 [nd 2 2 []; nd 3 3 []]; nd 4 4 []; nd 5 5 []].
Definition ex_t1 : forest := [nd 11 5 []; nd 12 1 [nd 13 3 []; nd 14 9 [nd 15 2 []]]; nd 16 6 [nd 17 2 []]].
Example ex_in_domain : dom_b ex_t0 ex_t1 = true. Proof. reflexivity. Qed.
(* the re-classification is genuinely ambiguous on it: two iteration orders, two results *)
Example ex_order_matters :
  diff_with [id1 15] true false ex_t0 ex_t1 <> diff_with [id1 17] true false ex_t0 ex_t1.
Proof. vm_compute. discriminate. Qed.
Example ex_marks : map (fun x => (rid x, mark x)) (pre_f (snd (diff_with [id1 17] true false ex_t0 ex_t1))) =
  [ (2, Some (order_sx 0 1)); (4, Some (dc_sx MOVED_TO)); (6, Some (order_sx 1 0)); (29, Some (dc_sx ADDED)); (31, Some (dc_sx ADDED));
    (8, Some (dc_sx REMOVED)); (10, Some (order_sx 2 0)); (33, Some (dc_sx ADDED)); (35, Some (dc_sx MOVED_HERE)) ].
Proof. vm_compute. reflexivity. Qed.

(* ---- the master relation (everything at once) --------------------------- *)
Theorem C11_master : forall order ordered t0 t1, dom t0 t1 ->
  let r := diff_with order ordered false t0 t1 in
  lvl ordered (get_meta k_ren (fst r)) (snd r) t0 t1.
Proof. exact diff_lvl. Qed.
Print Assumptions C11_master.

(* ---- identical inputs: no marks ------------------------------------------ *)
(* [same]: equal data and data_id, node by node ([t1] is a copy of [t0] with
   other node identities); the result is the unmarked copy of t0, and
   reduce=True leaves nothing *)
Theorem C11_identical_no_marks : forall order ordered t0 t1, sib_unique t0 -> Forall2 same t0 t1 ->
  diff_with order ordered false t0 t1 = ([], map plain0 t0) /\
  diff_with order ordered true t0 t1 = ([], []).
Proof. exact identical_no_marks. Qed.
Print Assumptions C11_identical_no_marks.

Example ex_identical : sib_unique ex_t0 /\ Forall2 same ex_t0 (map (map_info (fun _ i => i)) ex_t0) /\
  Forall (fun x => rmeta x = []) (pre_f (map plain0 ex_t0)).
Proof.
  assert (S : forall t, same t t).
  { induction t as [id i ch IH] using rt_ind'. constructor; auto. cbn [rch].
    induction ch; constructor; inversion IH; auto. }
  split; [|split].
  - split; [repeat constructor; cbn; intuition discriminate|].
    intros x Hx. cbn in Hx. repeat destruct Hx as [<-|Hx]; try contradiction; repeat constructor; cbn; intuition discriminate.
  - cbn. repeat constructor; apply S.
  - repeat constructor.
Qed.

(* ---- projection to t1 ----------------------------------------------------- *)
(* dropping the REMOVED/MOVED_TO nodes leaves exactly t1's nodes, each under
   the same chain of ancestors (paths of data objects; sibling order is t0's
   for common children, then the added ones: hence a permutation) *)
Theorem C11_projection_t1 : forall order ordered t0 t1, dom t0 t1 ->
  Permutation (paths_f (flat_map drop10 (snd (diff_with order ordered false t0 t1)))) (paths_f t1).
Proof. intros order ordered t0 t1 H. exact (lvl_proj1 _ _ _ _ _ (diff_lvl order ordered t0 t1 H)). Qed.
Print Assumptions C11_projection_t1.

Example ex_projection_t1 :
  paths_f (flat_map drop10 (snd (diff_with [id1 17] true false ex_t0 ex_t1))) =
  [[1]; [1; 3]; [1; 9]; [1; 9; 2]; [5]; [6]; [6; 2]]%Z /\
  paths_f ex_t1 = [[5]; [1]; [1; 3]; [1; 9]; [1; 9; 2]; [6]; [6; 2]]%Z.
Proof. split; reflexivity. Qed.

(* the domain hypothesis is needed: a t1 child whose data_id equals that of an
   unequal t0 sibling is neither matched (by ==) nor added (by data_id) and is
   lost from the result *)
Example ex_projection_t1_needs_domain :
  let t0 := [T 1 (I 1 1 7 true [97] (DStr [107]) None []) []]%Z in
  let t1 := [T 2 (I 2 2 8 true [98] (DStr [107]) None []) []]%Z in
  dom_b t0 t1 = false /\
  paths_f (flat_map drop10 (snd (diff_with [] false false t0 t1))) = [] /\ paths_f t1 = [[2]]%Z.
Proof. repeat split. Qed.

(* ---- projection to t0 ----------------------------------------------------- *)
(* dropping ADDED/MOVED_HERE children gives t0's child list IN ORDER below the
   root and below every node present in both trees ([proj0] is defined by
   walking the result and t0 only) *)
Theorem C11_projection_t0 : forall order ordered t0 t1, dom t0 t1 ->
  proj0 (snd (diff_with order ordered false t0 t1)) t0.
Proof. intros order ordered t0 t1 H. exact (lvl_proj0 _ _ _ _ _ (diff_lvl order ordered t0 t1 H)). Qed.
Print Assumptions C11_projection_t0.

(* ---- marks exactly on the one-sided children ------------------------------ *)
Theorem C11_marks_exact : forall order ordered t0 t1, dom t0 t1 ->
  marks_exact (snd (diff_with order ordered false t0 t1)) t0 t1.
Proof. intros order ordered t0 t1 H. exact (lvl_marks_exact _ _ _ _ _ (diff_lvl order ordered t0 t1 H)). Qed.
Print Assumptions C11_marks_exact.

(* ---- MOVED_HERE <-> MOVED_TO, for ANY two forests (no domain hypothesis) --- *)
Theorem C11_moved_pairs : forall order ordered t0 t1,
  let f := snd (diff_with order ordered false t0 t1) in
  (forall x, In x (pre_f f) -> has_dc x MOVED_HERE = true ->
     exists y, In y (pre_f f) /\ has_dc y MOVED_TO = true /\ rdid y = rdid x /\
               Nat.odd (rid x) = true /\ Nat.even (rid y) = true) /\
  (forall y, In y (pre_f f) -> has_dc y MOVED_TO = true ->
     exists x, In x (pre_f f) /\ has_dc x MOVED_HERE = true /\ rdid x = rdid y).
Proof. exact moved_pairs. Qed.
Print Assumptions C11_moved_pairs.

(* ---- order marks ----------------------------------------------------------- *)
(* a child present in both carries (i0, i1) = its true indices iff ordered and
   i0 <> i1, nothing otherwise; dc_renumbered sits on a parent iff one of its
   children carries an order mark *)
Theorem C11_order_marks : forall order ordered t0 t1, dom t0 t1 ->
  let r := diff_with order ordered false t0 t1 in
  order_exact ordered (get_meta k_ren (fst r)) (snd r) t0 t1.
Proof. intros order ordered t0 t1 H. exact (lvl_order_exact _ _ _ _ _ (diff_lvl order ordered t0 t1 H)). Qed.
Print Assumptions C11_order_marks.

Theorem C11_no_order_marks_unless_ordered : forall ren r ch0 ch1, order_exact false ren r ch0 ch1 ->
  forall x c0 c1, In x r -> In c0 ch0 -> In c1 ch1 -> key c0 = key x -> key c1 = key x -> mark x = None.
Proof. exact order_exact_unordered. Qed.
Print Assumptions C11_no_order_marks_unless_ordered.

(* ---- reduce = marked nodes and their ancestors ----------------------------- *)
(* the reduced result, read in pre-order with depths (which determines its
   shape), is the unreduced result restricted to the nodes that are marked or
   have a marked descendant; identities, payload and marks unchanged *)
Theorem C11_reduce_exact : forall order ordered t0 t1,
  let full := diff_with order ordered false t0 t1 in
  let red := diff_with order ordered true t0 t1 in
  fst red = fst full /\
  map obs_d (flat_map (pre_d 0) (snd red)) =
  map obs_d (filter (fun p => existsb pred_dc (pre (snd p))) (flat_map (pre_d 0) (snd full))).
Proof. intros order ordered t0 t1. split; [reflexivity|]. apply reduce_exact. Qed.
Print Assumptions C11_reduce_exact.

Example ex_reduce : map (fun x => rid x) (pre_f (snd (diff_with [id1 17] false true ex_t0 ex_t1))) = [2; 4; 29; 31; 8; 33; 35].
Proof. reflexivity. Qed.

(* ---- what the correspondence runs is an instance --------------------------- *)
Theorem C11_code_is_instance : forall hints ordered reduce t0 t1 r,
  diff_tree_lit hints ordered reduce t0 t1 = Some r ->
  r = diff_with (eff_order hints (fst (compare ordered t0 t1))) ordered reduce t0 t1.
Proof. intros hints ordered reduce t0 t1 r H. rewrite diff_tree_lit_eq in H. now apply diff_tree_is_diff_with. Qed.
Print Assumptions C11_code_is_instance.

(* ---- diff() does not raise ---------------------------------------------------- *)
(* t2's nodes keep the data_ids of their sources (repair D20), and
   Tree._register raises UniqueConstraintError only for two siblings with one
   data_id: for inputs that are well-formed trees themselves ([dsu]: no two
   siblings with one data_id, what _register guarantees for every real tree)
   the model's check passes, whatever the data; no domain hypothesis *)
Theorem C11_no_error : forall hints ordered reduce t0 t1, dsu t0 -> dsu t1 ->
  diff_tree_lit hints ordered reduce t0 t1 =
  Some (diff_with (eff_order hints (fst (compare ordered t0 t1))) ordered reduce t0 t1).
Proof. exact diff_no_error. Qed.
Print Assumptions C11_no_error.

Example ex_no_error : exists r, diff_tree_lit [] true false ex_t0 ex_t1 = Some r.
Proof. eexists. vm_compute. reflexivity. Qed.
Example ex_error_needs_wellformed_input :   (* a forest value no real tree can have: two siblings with one data_id *)
  diff_tree_lit [] false false
    [T 1 (I 1 1 7 false [] (DStr [120%Z]) None []) []; T 2 (I 2 2 8 false [] (DStr [120%Z]) None []) []] [] = None.
Proof. reflexivity. Qed.

(* ---- the set order: a permutation of added_nodes; complete orders find every move --- *)
Theorem C11_set_order_is_permutation : forall hints ordered t0 t1, dom t0 t1 -> NoDup (ids t1) ->
  let raw := fst (compare ordered t0 t1) in
  Permutation (eff_order hints raw) (added_ids raw).
Proof. exact eff_order_is_permutation. Qed.
Print Assumptions C11_set_order_is_permutation.

(* every order that visits all added nodes (the Python loop does) leaves no
   REMOVED mark on a node whose data_id also occurs on a node copied from t1 *)
Theorem C11_moves_complete : forall order ordered t0 t1, dom t0 t1 -> NoDup (ids t1) ->
  incl (added_ids (fst (compare ordered t0 t1))) order ->
  let f := snd (diff_with order ordered false t0 t1) in
  forall x y, In x (pre_f f) -> In y (pre_f f) -> Nat.odd (rid x) = true -> has_dc y REMOVED = true ->
              rdid y <> rdid x.
Proof. exact diff_moves_complete. Qed.
Print Assumptions C11_moves_complete.

Theorem C11_hint_order_is_complete : forall hints f, incl (added_ids f) (eff_order hints f).
Proof. exact eff_order_complete. Qed.
Print Assumptions C11_hint_order_is_complete.

Theorem C11_no_raise_decidable : forall hints ordered reduce t0 t1, no_raise_b t0 t1 = true ->
  diff_tree_lit hints ordered reduce t0 t1 <> None.
Proof. exact no_raise_b_sound. Qed.
Print Assumptions C11_no_raise_decidable.
Example ex_no_raise_domain : no_raise_b ex_t0 ex_t1 = true. Proof. reflexivity. Qed.

(* ---- the property's own wording of the domain ------------------------------- *)
(* trees over a shared alphabet on which == and data_id agree (default ids:
   data_id = hash(data), or any other id function with that property), no two
   siblings with equal data: all hypotheses used in this file *)
Theorem C11_domain_ids_agree_with_data : forall t0 t1,
  sib_unique t0 -> sib_unique t1 -> did_is_data (pre_f t0 ++ pre_f t1) ->
  dom t0 t1 /\ did_inj (pre_f t0 ++ pre_f t1) /\ dsu t0 /\ dsu t1.
Proof. exact default_id_domain. Qed.
Print Assumptions C11_domain_ids_agree_with_data.

(* ---- result nodes wrap source data; moved pairs have equal DATA ------------- *)
Theorem C11_result_nodes_have_sources : forall order ordered t0 t1,
  Forall (fun x => exists s, In s (pre_f t0 ++ pre_f t1) /\ key x = key s /\ rdid x = rdid s)
         (pre_f (snd (diff_with order ordered false t0 t1))).
Proof. exact result_nodes_have_sources. Qed.
Print Assumptions C11_result_nodes_have_sources.

Theorem C11_moved_pairs_same_data : forall order ordered t0 t1, did_inj (pre_f t0 ++ pre_f t1) ->
  let f := snd (diff_with order ordered false t0 t1) in
  (forall x, In x (pre_f f) -> has_dc x MOVED_HERE = true ->
     exists y, In y (pre_f f) /\ has_dc y MOVED_TO = true /\ key y = key x) /\
  (forall y, In y (pre_f f) -> has_dc y MOVED_TO = true ->
     exists x, In x (pre_f f) /\ has_dc x MOVED_HERE = true /\ key x = key y).
Proof. exact moved_pairs_same_data. Qed.
Print Assumptions C11_moved_pairs_same_data.

(* ---- every source node is copied at most once -------------------------------- *)
Theorem C11_result_identities_distinct : forall order ordered t0 t1, dom t0 t1 -> NoDup (ids t0) -> NoDup (ids t1) ->
  NoDup (ids (snd (diff_with order ordered false t0 t1))).
Proof. exact result_ids_nodup. Qed.
Print Assumptions C11_result_identities_distinct.

(* the generated facts this property uses were lifted from the current source *)
Theorem C11_generated_facts_present : GEN_ENUMS_OK = true.
Proof. reflexivity. Qed.
Print Assumptions C11_generated_facts_present.

(* ---- the result carries only the diff's own metadata --------------------------- *)
(* for ANY two forests whose nodes carry ANY metadata, every iteration order and
   every configuration: the result's root and nodes carry only the keys "dc" and
   "dc_renumbered" (user metadata of the inputs is not copied) ... *)
Theorem C11_result_meta_is_diff_only : forall order ordered reduce t0 t1,
  let r := diff_with order ordered reduce t0 t1 in
  Forall (fun kv => fst kv = k_dc \/ fst kv = k_ren) (fst r) /\
  Forall (fun x => Forall (fun kv => fst kv = k_dc \/ fst kv = k_ren) (rmeta x)) (pre_f (snd r)).
Proof. exact result_meta_is_diff_only. Qed.
Print Assumptions C11_result_meta_is_diff_only.

(* ... and it is not read either: clearing the metadata of all input nodes gives
   the same result (so marks left in an input by whatever history cannot
   influence a later diff) *)
Theorem C11_diff_ignores_input_meta : forall order ordered reduce t0 t1,
  diff_with order ordered reduce (map strip t0) (map strip t1) = diff_with order ordered reduce t0 t1.
Proof. exact diff_ignores_input_meta. Qed.
Print Assumptions C11_diff_ignores_input_meta.

Example ex_user_meta_not_copied :
  let um := [([117], A 1)]%Z in
  let t0 := [T 1 (I 1 1 7 true [97] (DInt 7) None um) []; T 2 (I 2 2 8 true [98] (DInt 8) None um) []]%Z in
  let t1 := [T 3 (I 2 2 8 true [98] (DInt 8) None um) []]%Z in
  map (fun x => rmeta x) (pre_f (snd (diff_with [] true false t0 t1))) = [[(k_dc, dc_sx REMOVED)]; [(k_dc, order_sx 1 0)]] /\
  snd (diff_with [] true true t0 t1) = snd (diff_with [] true false t0 t1).
Proof. split; reflexivity. Qed.

(* ======== audit follow-up ===================================================== *)
(* ---- marks INSIDE an added branch (the rule of _copy_children) ----------------- *)
(* below the root and below every node present in both trees, every child marked
   ADDED/MOVED_HERE heads a branch whose FIRST LEVEL is marked ADDED/MOVED_HERE
   and whose deeper nodes carry no mark or MOVED_HERE -- for every iteration
   order (the re-classification can only turn nodes of the branch into
   MOVED_HERE; which ones is fixed by C11_moved_pairs / C11_moves_complete).
   The relation is also part of the master relation now ([copy1] in [lvl]). *)
Theorem C11_marks_inside_added_branches : forall order ordered t0 t1, dom t0 t1 ->
  added_rule (snd (diff_with order ordered false t0 t1)) t0 t1.
Proof. exact diff_added_rule. Qed.
Print Assumptions C11_marks_inside_added_branches.

(* non-vacuity, and the audit's counter-models are excluded: for t0 = [],
   t1 = a(b(c)) the real result marks a and b ADDED and c not at all; a result
   with b unmarked, or with c marked ADDED too, violates the rule *)
Definition ex_chain : forest := [nd 1 1 [nd 2 2 [nd 3 3 []]]].
Definition ex_ri (l : Z) (m : meta) := res_info (I l l (100 + l) true [l] (DInt (100 + l)) None []) m.
Example ex_added_branch_real :
  map (fun x => (rid x, mark x)) (pre_f (snd (diff_with [] false false [] ex_chain))) =
  [(3, Some (dc_sx ADDED)); (5, Some (dc_sx ADDED)); (7, None)].
Proof. reflexivity. Qed.
Example ex_added_branch_excludes_unmarked_first_level :
  ~ added_rule [T 3 (ex_ri 1 m_added) [T 5 (ex_ri 2 []) [T 7 (ex_ri 3 []) []]]] [] ex_chain.
Proof.
  intros H. inversion H as [? ? ? B _]; subst.
  specialize (B _ (or_introl eq_refl) eq_refl). inversion B as [|? ? [N _] _]; subst. discriminate N.
Qed.
Example ex_added_branch_excludes_all_levels_marked :
  ~ added_rule [T 3 (ex_ri 1 m_added) [T 5 (ex_ri 2 m_added) [T 7 (ex_ri 3 m_added) []]]] [] ex_chain.
Proof.
  intros H. inversion H as [? ? ? B _]; subst.
  specialize (B _ (or_introl eq_refl) eq_refl). inversion B as [|? ? [_ D] _]; subst.
  inversion D as [|? ? [E|E] _]; subst; discriminate E.
Qed.

(* inside such a branch, reduce=True keeps a deep node iff a MOVED_HERE node lies
   in its own sub-branch (with C11_reduce_exact: the shape of reduced added
   branches no longer rests on the correspondence alone) *)
Theorem C11_reduced_added_branch : forall z, Forall deep_mark_ok (pre z) ->
  (existsb pred_dc (pre z) = true <-> exists w, In w (pre z) /\ has_dc w MOVED_HERE = true).
Proof. exact deep_keep. Qed.
Print Assumptions C11_reduced_added_branch.

(* ---- the domain for reachable trees ------------------------------------------- *)
(* Mut/WF.v's [sib_unique] (proved for every reachable tree by C03) is sibling
   uniqueness of DATA_IDS = [dsu]; [DiffProofs.sib_unique] is sibling uniqueness
   of DATA.  Over a label alphabet on which == and data_id agree ([did_is_data]:
   an assumption about the alphabet -- no explicit ids that disagree with ==, no
   hash collisions) the first gives the second and every hypothesis used in this
   file: the domain costs nothing *)
Theorem C11_reachable_domain : forall t0 t1,
  WF.sib_unique t0 -> WF.sib_unique t1 -> did_is_data (pre_f t0 ++ pre_f t1) ->
  dom t0 t1 /\ DiffProofs.sib_unique t0 /\ DiffProofs.sib_unique t1 /\
  did_inj (pre_f t0 ++ pre_f t1) /\ dsu t0 /\ dsu t1.
Proof. exact reachable_domain. Qed.
Print Assumptions C11_reachable_domain.

Definition agree_b (l : list rt) : bool :=
  forallb (fun x => forallb (fun y => Bool.eqb (Z.eqb (key x) (key y)) (did_eqb (rdid x) (rdid y))) l) l.
Lemma agree_b_sound l : agree_b l = true -> did_is_data l.
Proof.
  unfold agree_b. intros H x y Hx Hy. rewrite forallb_forall in H. specialize (H x Hx). rewrite forallb_forall in H.
  specialize (H y Hy). apply Bool.eqb_prop in H. rewrite <- Z.eqb_eq, <- did_eqb_eq, H. tauto.
Qed.
Example ex_reachable_domain :
  WF.sib_unique ex_t0 /\ WF.sib_unique ex_t1 /\ did_is_data (pre_f ex_t0 ++ pre_f ex_t1) /\
  did_inj (pre_f ex_t0 ++ pre_f ex_t1).
Proof.
  assert (A : did_is_data (pre_f ex_t0 ++ pre_f ex_t1)) by (apply agree_b_sound; vm_compute; reflexivity).
  refine (conj _ (conj _ (conj A _))).
  - apply dsu_b_sound. reflexivity.
  - apply dsu_b_sound. reflexivity.
  - intros x y Hx Hy E. now apply A.
Qed.

(* ---- outside the domain: what the library (and the model) really does --------- *)
(* The property quantifies over trees "over a shared label alphabet": equal labels
   <=> equal data <=> equal data_id.  With explicit data_ids / a calc_data_id that
   disagree with ==, clauses 1-4 are false for the code and for the model: *)
(* (ii) a t1 child whose data_id equals that of an UNEQUAL t0 sibling is neither
   matched (by ==) nor added (by data_id): it is lost *)
Example C11_outside_domain_node_lost :
  let t0 := [T 1 (I 1 1 7 true [97] (DStr [107]) None []) []]%Z in
  let t1 := [T 2 (I 2 2 8 true [98] (DStr [107]) None []) []]%Z in
  dsu t0 /\ dsu t1 /\ dom_b t0 t1 = false /\
  paths_f (flat_map drop10 (snd (diff_with [] false false t0 t1))) = [] /\ paths_f t1 = [[2]]%Z.
Proof. refine (conj _ (conj _ _)); [apply dsu_b_sound; reflexivity|apply dsu_b_sound; reflexivity|repeat split]. Qed.
(* (i) two ==-equal siblings under different data_ids: the diff of the tree with
   itself carries an order mark and dc_renumbered *)
Example C11_outside_domain_self_diff_marks :
  let a1 := T 1 (I 1 1 7 true [97%Z] (DStr [120%Z]) None []) [] in
  let a2 := T 2 (I 2 1 7 true [97%Z] (DStr [121%Z]) None []) [] in
  dsu [a1; a2] /\ Forall2 same [a1; a2] [a1; a2] /\
  map (fun x => (rid x, mark x)) (pre_f (snd (diff_with [] true false [a1; a2] [a1; a2]))) =
    [(2, None); (4, Some (order_sx 1 0))] /\
  fst (diff_with [] true false [a1; a2] [a1; a2]) = [(k_ren, A 1%Z)].
Proof.
  refine (conj _ (conj _ (conj _ _))); [apply dsu_b_sound; reflexivity| |reflexivity|reflexivity].
  repeat constructor.
Qed.
(* (iii) == data under different data_ids across the trees: the t1 node is matched
   AND added, its branch appears twice in the result (two nodes with one identity) *)
Example C11_outside_domain_branch_copied_twice :
  let t0 := [T 1 (I 1 1 7 true [97%Z] (DStr [120%Z]) None []) []] in
  let t1 := [T 2 (I 2 1 7 true [97%Z] (DStr [121%Z]) None []) [T 3 (I 3 3 9 true [99%Z] (DInt 9) None []) []]] in
  dsu t0 /\ dsu t1 /\ dom_b t0 t1 = false /\
  ids (snd (diff_with [] false false t0 t1)) = [2; 7; 5; 7].
Proof. refine (conj _ (conj _ _)); [apply dsu_b_sound; reflexivity|apply dsu_b_sound; reflexivity|split; reflexivity]. Qed.

(* KNOWN FINDING D91: (ii) is reachable with DEFAULT data_ids when the alphabet has
   two unequal labels with one hash (CPython: hash(-1) == hash(-2) == -2).  The full
   statement of the projection law for all well-formed default-id trees is false: *)
Definition C11_projection_t1_unrestricted : Prop := forall order ordered t0 t1,
  dsu t0 -> dsu t1 -> default_ids (pre_f t0 ++ pre_f t1) ->
  Permutation (paths_f (flat_map drop10 (snd (diff_with order ordered false t0 t1)))) (paths_f t1).
Theorem C11_projection_t1_unrestricted_refuted : ~ C11_projection_t1_unrestricted.
Proof.
  intros H.
  set (t0 := [T 1 (I 1 1 (-2) false [45; 49] (DInt (-2)) None []) []]%Z).
  set (t1 := [T 2 (I 2 2 (-2) false [45; 50] (DInt (-2)) None []) []]%Z).
  assert (P := H [] false t0 t1).
  assert (D0 : dsu t0) by (apply dsu_b_sound; reflexivity).
  assert (D1 : dsu t1) by (apply dsu_b_sound; reflexivity).
  assert (DI : default_ids (pre_f t0 ++ pre_f t1)).
  { intros x Hx. cbn in Hx. destruct Hx as [<-|[<-|[]]]; reflexivity. }
  specialize (P D0 D1 DI). vm_compute in P. apply Permutation_nil in P. discriminate P.
Qed.
Print Assumptions C11_projection_t1_unrestricted_refuted.
