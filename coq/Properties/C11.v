(* C11 — diff(): placeholder while the proofs are being written *)
From Coq Require Import List ZArith Bool Arith.
From NT Require Import Sx Rose Diff CaseC11.
From NTGen Require Import Generated.
Import ListNotations.

Theorem C11_diff_classes_generated :
  map snd DIFF_CLASSES = map dc_val [ADDED; REMOVED; MOVED_HERE; MOVED_TO].
Proof. reflexivity. Qed.
Print Assumptions C11_diff_classes_generated.
