(* C10 — Relationship queries agree with the tree's actual shape.
   Statements only; proofs are in theories/Forest/NavProofs.v.
   [locate_f n f] resolves a node identity to its context (ancestors nearest
   first, sibling list, own sub-tree); every q_* query of Nav.v is computed
   from that context the way the Python accessor computes it from pointers. *)
From Coq Require Import List ZArith Bool Arith.
From NT Require Import Sx Rose Nav NavProofs.
Import ListNotations.

(* every node of a forest with unique identities has exactly its own context *)
Theorem C10_every_node_located : forall (f : forest) (t : rt),
  NoDup (ids f) -> In t (pre_f f) -> exists c, locate_f (rid t) f = Some c /\ c_self c = t /\ ctx_ok f c.
Proof. exact locate_f_self. Qed.
Print Assumptions C10_every_node_located.

Theorem C10_context_is_structural : forall (f : forest) (n : nat) (c : ctx),
  locate_f n f = Some c -> ctx_ok f c /\ rid (c_self c) = n.
Proof. exact locate_f_ok. Qed.
Print Assumptions C10_context_is_structural.

(* ancestor list / path: a real chain of parent-child links ending at a top-level node *)
Theorem C10_ancestors_form_a_path : forall f c, ctx_ok f c -> is_path f (c_self c) (c_anc c).
Proof. exact ctx_path. Qed.
Print Assumptions C10_ancestors_form_a_path.

(* parent, children, siblings(add_self), is-top *)
Theorem C10_parent_child : forall f c, ctx_ok f c ->
  match q_parent c with
  | Some p => In (c_self c) (rch p) /\ q_siblings c true = rch p
  | None => In (c_self c) f /\ q_siblings c true = f /\ q_is_top c = true
  end.
Proof. exact parent_child. Qed.
Print Assumptions C10_parent_child.

(* depth, ancestor list (both directions, with and without self), is-top *)
Theorem C10_depth_parent_list : forall c a b,
  q_depth c = S (length (q_parent_list c false b)) /\
  length (q_parent_list c true b) = q_depth c /\
  (q_is_top c = true <-> q_depth c = 1) /\
  (q_is_top c = true <-> q_parent c = None) /\
  q_parent_list c a true = rev (q_parent_list c a false).
Proof. exact depth_parent_list. Qed.
Print Assumptions C10_depth_parent_list.

Theorem C10_top_ancestor : forall f c, ctx_ok f c ->
  In (q_top c) f /\ (q_top c = c_self c \/ In (q_top c) (c_anc c)).
Proof. exact top_is_last_ancestor. Qed.
Print Assumptions C10_top_ancestor.

Theorem C10_up : forall c k,
  q_up c 0 = None /\
  (k < length (c_anc c) -> q_up c (S k) = option_map Some (nth_error (c_anc c) k)) /\
  q_up c (q_depth c) = Some None /\
  (q_depth c < k -> q_up c k = None).
Proof. exact up_spec. Qed.
Print Assumptions C10_up.

(* ancestor / descendant tests *)
Theorem C10_descendant_sound : forall f c o, ctx_ok f c -> q_is_descendant_of c o = true ->
  exists a, In a (c_anc c) /\ rid a = o /\ In (c_self c) (pre_f (rch a)).
Proof. exact descendant_sound. Qed.
Print Assumptions C10_descendant_sound.

Theorem C10_descendant_iff_ancestor : forall c o,
  q_is_descendant_of c (rid (c_self o)) = q_is_ancestor_of c (rid (c_self o)) /\
  (q_is_descendant_of c (rid (c_self o)) = true <-> In (rid (c_self o)) (map rid (c_anc c))).
Proof. exact descendant_iff_ancestor. Qed.
Print Assumptions C10_descendant_iff_ancestor.

Theorem C10_never_own_ancestor : forall f c, NoDup (ids f) -> ctx_ok f c ->
  q_is_descendant_of c (rid (c_self c)) = false.
Proof. exact not_own_ancestor. Qed.
Print Assumptions C10_never_own_ancestor.

(* sibling queries are positions in the parent's child list BY IDENTITY
   (equal-comparing data plays no role: only node identities occur) *)
Theorem C10_sibling_positions : forall f n c, NoDup (ids f) -> locate_f n f = Some c ->
  exists l1 l2, c_sibs c = l1 ++ c_self c :: l2 /\
  q_index c = Some (length l1) /\
  q_prev c = last_error l1 /\
  q_next c = hd_error l2 /\
  q_first_sibling c = hd_error (l1 ++ [c_self c]) /\
  q_last_sibling c = last_error (c_self c :: l2) /\
  (q_is_first c = true <-> l1 = []) /\
  (q_is_last c = true <-> l2 = []) /\
  q_siblings c false = l1 ++ l2.
Proof. exact sibling_positions_located. Qed.
Print Assumptions C10_sibling_positions.

(* descendant counts, leaf / has-children *)
Theorem C10_counts : forall c,
  q_count_desc c false = size (c_self c) - 1 /\
  q_count_desc c true = length (filter (fun t => match rch t with [] => true | _ => false end) (pre_f (rch (c_self c)))) /\
  (q_is_leaf c = true <-> q_count_desc c false = 0) /\
  q_has_children c = negb (q_is_leaf c).
Proof. exact count_descendants_size. Qed.
Print Assumptions C10_counts.

(* height: 0 for leaves, else 1 + the largest child height *)
Theorem C10_height : forall t,
  (rch t = [] -> height t = 0) /\
  (forall x, In x (rch t) -> height x < height t) /\
  (rch t <> [] -> exists x, In x (rch t) /\ height t = S (height x)).
Proof. exact height_spec. Qed.
Print Assumptions C10_height.

Theorem C10_tree_height : forall f i, tree_height f = height (T 0 i f).
Proof. exact tree_height_spec. Qed.
Print Assumptions C10_tree_height.

(* nearest common ancestor *)
Theorem C10_common_ancestor : forall c o a,
  q_common_ancestor c o = Some a ->
  In a (c_self c :: c_anc c) /\ In (rid a) (map rid (c_self o :: c_anc o)) /\
  exists l1 l2, c_self c :: c_anc c = l1 ++ a :: l2 /\
                forall x, In x l1 -> ~ In (rid x) (map rid (c_self o :: c_anc o)).
Proof. exact common_ancestor_spec. Qed.
Print Assumptions C10_common_ancestor.

Theorem C10_common_ancestor_none : forall c o,
  q_common_ancestor c o = None ->
  forall x, In x (c_self c :: c_anc c) -> ~ In (rid x) (map rid (c_self o :: c_anc o)).
Proof. exact common_ancestor_none. Qed.
Print Assumptions C10_common_ancestor_none.

(* non-vacuity: a forest whose siblings carry equal-comparing data (same i_eqc)
   under different identities; the queries distinguish them *)
Example C10_nonvacuous :
  let i d := I 0 7 0 false [] (DInt d) None [] in
  let f := [T 1 (i 1%Z) [T 2 (i 2%Z) []; T 3 (i 3%Z) [T 5 (i 5%Z) []]; T 4 (i 4%Z) []]] in
  NoDup (ids f) /\
  exists c, locate_f 3 f = Some c /\ q_index c = Some 1 /\ option_map rid (q_prev c) = Some 2 /\
            option_map rid (q_next c) = Some 4 /\ q_depth c = 2 /\ q_height c = 1 /\
            exists o, locate_f 5 f = Some o /\ q_is_descendant_of o 3 = true /\
                      option_map rid (q_common_ancestor o c) = Some 3.
Proof.
  cbv zeta. split.
  - vm_compute. repeat constructor; cbn; intuition discriminate.
  - eexists. split; [vm_compute; reflexivity|]. vm_compute.
    refine (conj eq_refl (conj eq_refl (conj eq_refl (conj eq_refl (conj eq_refl _))))).
    eexists. split; [reflexivity|]. split; reflexivity.
Qed.
