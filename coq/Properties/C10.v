(* C10 — Relationship queries agree with the tree's actual shape.
   Statements only; proofs are in theories/Forest/NavProofs.v.
   [locate_f n f] resolves a node identity to its context (ancestors nearest
   first, sibling list, own sub-tree); every q_* query of Nav.v is computed
   from that context the way the Python accessor computes it from pointers. *)
From Coq Require Import String.
From Coq Require Import List ZArith Bool Arith.
From NT Require Import Sx Rose Nav NavProofs NavLaws NavSource.
From NT Require FsRepr FsReprDecode MiscMapper MiscRepr MiscNode MiscNodeProofs.   (* part NODEMISC, imported at the end of this file *)
From NT Require MiscMapperProofs MiscForward MiscForwardProofs.   (* part FORWARD, imported at the end of this file *)
From NTGen Require Import Generated.
Import ListNotations.

(* every node of a forest with unique identities has exactly its own context *)
Theorem C10_every_node_located : forall (f : forest) (t : rt),
  NoDup (ids f) -> In t (pre_f f) -> exists c, locate_f (rid t) f = Some c /\ c_self c = t /\ ctx_ok f c.
Proof. exact locate_f_self. Qed.
Print Assumptions C10_every_node_located.

Theorem C10_context_is_structural : forall (f : forest) (n : nat) (c : ctx),
  locate_f n f = Some c -> ctx_ok f c /\ rid (c_self c) = n.
Proof. exact locate_f_ok. Qed.
Print Assumptions C10_context_is_structural.

(* ancestor list / path: a real chain of parent-child links ending at a top-level node *)
Theorem C10_ancestors_form_a_path : forall f c, ctx_ok f c -> is_path f (c_self c) (c_anc c).
Proof. exact ctx_path. Qed.
Print Assumptions C10_ancestors_form_a_path.

(* parent, children, siblings(add_self), is-top *)
Theorem C10_parent_child : forall f c, ctx_ok f c ->
  match q_parent c with
  | Some p => In (c_self c) (rch p) /\ q_siblings c true = rch p
  | None => In (c_self c) f /\ q_siblings c true = f /\ q_is_top c = true
  end.
Proof. exact parent_child. Qed.
Print Assumptions C10_parent_child.

(* depth, ancestor list (both directions, with and without self), is-top *)
Theorem C10_depth_parent_list : forall c a b,
  q_depth c = S (length (q_parent_list c false b)) /\
  length (q_parent_list c true b) = q_depth c /\
  (q_is_top c = true <-> q_depth c = 1) /\
  (q_is_top c = true <-> q_parent c = None) /\
  q_parent_list c a true = rev (q_parent_list c a false).
Proof. exact depth_parent_list. Qed.
Print Assumptions C10_depth_parent_list.

Theorem C10_top_ancestor : forall f c, ctx_ok f c ->
  In (q_top c) f /\ (q_top c = c_self c \/ In (q_top c) (c_anc c)).
Proof. exact top_is_last_ancestor. Qed.
Print Assumptions C10_top_ancestor.

Theorem C10_up : forall c k,
  q_up c 0 = None /\
  (k < length (c_anc c) -> q_up c (S k) = option_map Some (nth_error (c_anc c) k)) /\
  q_up c (q_depth c) = Some None /\
  (q_depth c < k -> q_up c k = None).
Proof. exact up_spec. Qed.
Print Assumptions C10_up.

(* ancestor / descendant tests *)
Theorem C10_descendant_sound : forall f c o, ctx_ok f c -> q_is_descendant_of c o = true ->
  exists a, In a (c_anc c) /\ rid a = o /\ In (c_self c) (pre_f (rch a)).
Proof. exact descendant_sound. Qed.
Print Assumptions C10_descendant_sound.

Theorem C10_descendant_iff_ancestor : forall c o,
  q_is_descendant_of c (rid (c_self o)) = q_is_ancestor_of c (rid (c_self o)) /\
  (q_is_descendant_of c (rid (c_self o)) = true <-> In (rid (c_self o)) (map rid (c_anc c))).
Proof. exact descendant_iff_ancestor. Qed.
Print Assumptions C10_descendant_iff_ancestor.

Theorem C10_never_own_ancestor : forall f c, NoDup (ids f) -> ctx_ok f c ->
  q_is_descendant_of c (rid (c_self c)) = false.
Proof. exact not_own_ancestor. Qed.
Print Assumptions C10_never_own_ancestor.

(* sibling queries are positions in the parent's child list BY IDENTITY
   (equal-comparing data plays no role: only node identities occur) *)
Theorem C10_sibling_positions : forall f n c, NoDup (ids f) -> locate_f n f = Some c ->
  exists l1 l2, c_sibs c = l1 ++ c_self c :: l2 /\
  q_index c = Some (length l1) /\
  q_prev c = last_error l1 /\
  q_next c = hd_error l2 /\
  q_first_sibling c = hd_error (l1 ++ [c_self c]) /\
  q_last_sibling c = last_error (c_self c :: l2) /\
  (q_is_first c = true <-> l1 = []) /\
  (q_is_last c = true <-> l2 = []) /\
  q_siblings c false = l1 ++ l2.
Proof. exact sibling_positions_located. Qed.
Print Assumptions C10_sibling_positions.

(* descendant counts, leaf / has-children *)
Theorem C10_counts : forall c,
  q_count_desc c false = size (c_self c) - 1 /\
  q_count_desc c true = length (filter (fun t => match rch t with [] => true | _ => false end) (pre_f (rch (c_self c)))) /\
  (q_is_leaf c = true <-> q_count_desc c false = 0) /\
  q_has_children c = negb (q_is_leaf c).
Proof. exact count_descendants_size. Qed.
Print Assumptions C10_counts.

(* height: 0 for leaves, else 1 + the largest child height *)
Theorem C10_height : forall t,
  (rch t = [] -> height t = 0) /\
  (forall x, In x (rch t) -> height x < height t) /\
  (rch t <> [] -> exists x, In x (rch t) /\ height t = S (height x)).
Proof. exact height_spec. Qed.
Print Assumptions C10_height.

Theorem C10_tree_height : forall f i, tree_height f = height (T 0 i f).
Proof. exact tree_height_spec. Qed.
Print Assumptions C10_tree_height.

(* nearest common ancestor *)
Theorem C10_common_ancestor : forall c o a,
  q_common_ancestor c o = Some a ->
  In a (c_self c :: c_anc c) /\ In (rid a) (map rid (c_self o :: c_anc o)) /\
  exists l1 l2, c_self c :: c_anc c = l1 ++ a :: l2 /\
                forall x, In x l1 -> ~ In (rid x) (map rid (c_self o :: c_anc o)).
Proof. exact common_ancestor_spec. Qed.
Print Assumptions C10_common_ancestor.

Theorem C10_common_ancestor_none : forall c o,
  q_common_ancestor c o = None ->
  forall x, In x (c_self c :: c_anc c) -> ~ In (rid x) (map rid (c_self o :: c_anc o)).
Proof. exact common_ancestor_none. Qed.
Print Assumptions C10_common_ancestor_none.

(* ================================================================== *)
(* Full strength, from PRE-ORDER MEMBERSHIP (NavLaws.v)                 *)
(* ================================================================== *)

(* the ancestor chain of every structural context, top first, is exactly the
   list of nodes whose branch contains the node's identity, in pre-order *)
Theorem C10_ancestors_are_the_containing_nodes : forall f c, NoDup (ids f) -> ctx_ok f c ->
  rev (c_anc c) = filter (fun a => existsb (Nat.eqb (rid (c_self c))) (ids (rch a))) (pre_f f).
Proof. exact anc_filter. Qed.
Print Assumptions C10_ancestors_are_the_containing_nodes.

Theorem C10_parent_list_is_preorder_filter : forall f n c, NoDup (ids f) -> locate_f n f = Some c ->
  q_parent_list c false false = filter (fun a => existsb (Nat.eqb n) (ids (rch a))) (pre_f f).
Proof. exact parent_list_filter. Qed.
Print Assumptions C10_parent_list_is_preorder_filter.

(* a node has exactly one structural context *)
Theorem C10_context_unique : forall f c c', NoDup (ids f) -> ctx_ok f c -> ctx_ok f c' ->
  rid (c_self c) = rid (c_self c') -> c = c'.
Proof. exact ctx_unique. Qed.
Print Assumptions C10_context_unique.

(* is_descendant_of: sound AND complete w.r.t. membership in the branch *)
Theorem C10_descendant_iff : forall f n c a, NoDup (ids f) -> locate_f n f = Some c -> In a (pre_f f) ->
  (q_is_descendant_of c (rid a) = true <-> In (c_self c) (pre_f (rch a))).
Proof. exact descendant_iff. Qed.
Print Assumptions C10_descendant_iff.

(* the converse of C10_descendant_sound, as asked *)
Theorem C10_descendant_complete : forall f n c a, NoDup (ids f) -> locate_f n f = Some c -> In a (pre_f f) ->
  In (c_self c) (pre_f (rch a)) -> q_is_descendant_of c (rid a) = true.
Proof. exact descendant_complete. Qed.
Print Assumptions C10_descendant_complete.

(* a.is_ancestor_of(b) <-> b in a's branch <-> b.is_descendant_of(a) *)
Theorem C10_ancestor_iff : forall f n m c o, NoDup (ids f) -> locate_f n f = Some c -> locate_f m f = Some o ->
  (q_is_ancestor_of o (rid (c_self c)) = true <-> In (c_self o) (pre_f (rch (c_self c)))) /\
  (q_is_ancestor_of o (rid (c_self c)) = q_is_descendant_of o (rid (c_self c))).
Proof. exact ancestor_iff. Qed.
Print Assumptions C10_ancestor_iff.

Theorem C10_descendant_transitive : forall f n m c b a, NoDup (ids f) -> locate_f n f = Some c ->
  locate_f m f = Some b -> In a (pre_f f) ->
  q_is_descendant_of c (rid (c_self b)) = true -> q_is_descendant_of b (rid a) = true ->
  q_is_descendant_of c (rid a) = true.
Proof. exact descendant_trans. Qed.
Print Assumptions C10_descendant_transitive.

Theorem C10_descendant_asymmetric : forall f n m c b, NoDup (ids f) -> locate_f n f = Some c ->
  locate_f m f = Some b ->
  q_is_descendant_of c (rid (c_self b)) = true -> q_is_descendant_of b (rid (c_self c)) = false.
Proof. exact descendant_asym. Qed.
Print Assumptions C10_descendant_asymmetric.

(* nearest common ancestor: an ancestor-or-self of BOTH nodes, and every node
   whose sub-tree contains both contains the answer (= the deepest such node);
   None exactly when no node contains both *)
Theorem C10_common_ancestor_full : forall f n m c o, NoDup (ids f) -> locate_f n f = Some c -> locate_f m f = Some o ->
  match q_common_ancestor c o with
  | Some a => In a (pre_f f) /\ In (c_self c) (pre a) /\ In (c_self o) (pre a) /\
              forall b, In b (pre_f f) -> In (c_self c) (pre b) -> In (c_self o) (pre b) -> In a (pre b)
  | None => forall b, In b (pre_f f) -> In (c_self c) (pre b) -> In (c_self o) (pre b) -> False
  end.
Proof. exact common_ancestor_full. Qed.
Print Assumptions C10_common_ancestor_full.

Theorem C10_common_ancestor_symmetric : forall f n m c o, NoDup (ids f) -> locate_f n f = Some c ->
  locate_f m f = Some o -> q_common_ancestor c o = q_common_ancestor o c.
Proof. exact common_ancestor_sym. Qed.
Print Assumptions C10_common_ancestor_symmetric.

(* ================================================================== *)
(* Mutual-consistency laws                                              *)
(* ================================================================== *)

(* children / parent are inverse *)
Theorem C10_children_parent_inverse : forall f n m c cx, NoDup (ids f) -> locate_f n f = Some c ->
  locate_f m f = Some cx ->
  (In (c_self cx) (q_children c) <-> q_parent cx = Some (c_self c)).
Proof. exact children_parent_inverse. Qed.
Print Assumptions C10_children_parent_inverse.

(* every query of a child, from its parent's: depth = S depth, siblings(add_self) = the parent's
   children, first/last sibling = first/last child, is-first/is-last, ancestor list, path, top, up *)
Theorem C10_child_laws : forall f n m c cx, NoDup (ids f) -> locate_f n f = Some c -> locate_f m f = Some cx ->
  In (c_self cx) (q_children c) ->
  q_parent cx = Some (c_self c) /\
  q_is_top cx = false /\
  q_depth cx = S (q_depth c) /\
  q_siblings cx true = q_children c /\
  q_first_sibling cx = q_first_child c /\
  q_last_sibling cx = q_last_child c /\
  (q_is_first cx = true <-> q_first_child c = Some (c_self cx)) /\
  (q_is_last cx = true <-> q_last_child c = Some (c_self cx)) /\
  q_parent_list cx false false = q_parent_list c true false /\
  q_path cx false = q_path c true /\
  q_path cx true = q_path c true ++ 47%Z :: node_name (c_self cx) /\
  q_top cx = q_top c /\
  q_up cx 1 = Some (Some (c_self c)) /\
  (forall k, q_up cx (S (S k)) = q_up c (S k)).
Proof. exact child_laws. Qed.
Print Assumptions C10_child_laws.

(* top-level nodes: the forest is their sibling list *)
Theorem C10_top_level_laws : forall f m cx, NoDup (ids f) -> locate_f m f = Some cx ->
  (In (c_self cx) f <-> q_parent cx = None) /\
  (q_parent cx = None ->
     q_is_top cx = true /\ q_depth cx = 1 /\ q_siblings cx true = f /\
     q_first_sibling cx = hd_error f /\ q_last_sibling cx = last_error f /\
     q_parent_list cx false false = [] /\ q_path cx false = [47%Z] /\
     q_path cx true = 47%Z :: node_name (c_self cx) /\ q_top cx = c_self cx /\ q_up cx 1 = Some None).
Proof. exact top_level_laws. Qed.
Print Assumptions C10_top_level_laws.

(* is_leaf <-> children = [] <-> height 0; first/last child = head/last of children *)
Theorem C10_leaf_laws : forall c,
  (q_is_leaf c = true <-> q_children c = []) /\
  (q_is_leaf c = true <-> q_height c = 0) /\
  (q_is_leaf c = true <-> q_first_child c = None) /\
  q_has_children c = negb (q_is_leaf c) /\
  q_first_child c = hd_error (q_children c) /\
  q_last_child c = last_error (q_children c) /\
  (forall x, q_first_child c = Some x -> In x (q_children c)) /\
  (forall x, q_last_child c = Some x -> In x (q_children c)).
Proof. exact leaf_laws. Qed.
Print Assumptions C10_leaf_laws.

(* height = depth of the deepest descendant, relative to the node *)
Theorem C10_height_is_deepest_descendant : forall f n c, NoDup (ids f) -> locate_f n f = Some c ->
  (forall m cd, locate_f m f = Some cd -> In (c_self cd) (pre (c_self c)) ->
     q_depth c <= q_depth cd <= q_depth c + q_height c) /\
  (exists m cd, locate_f m f = Some cd /\ In (c_self cd) (pre (c_self c)) /\
     q_depth cd = q_depth c + q_height c).
Proof. exact height_depth. Qed.
Print Assumptions C10_height_is_deepest_descendant.

(* Tree.calc_height = the largest depth of any node *)
Theorem C10_tree_height_is_max_depth : forall f, NoDup (ids f) ->
  (forall m cd, locate_f m f = Some cd -> q_depth cd <= tree_height f) /\
  (f <> [] -> exists m cd, locate_f m f = Some cd /\ q_depth cd = tree_height f) /\
  (f = [] -> tree_height f = 0).
Proof. exact tree_height_max_depth. Qed.
Print Assumptions C10_tree_height_is_max_depth.

(* count_descendants = |pre-order of the branch| - 1 = sum over children (1 + count);
   leaves only: sum over children (1 for a leaf, else its leaf count) *)
Theorem C10_count_laws : forall c,
  q_count_desc c false = length (pre_f (rch (c_self c))) /\
  S (q_count_desc c false) = length (pre (c_self c)) /\
  (forall cs, map c_self cs = q_children c ->
     q_count_desc c false = list_sum (map (fun cx => S (q_count_desc cx false)) cs) /\
     q_count_desc c true = list_sum (map (fun cx => if q_is_leaf cx then 1 else q_count_desc cx true) cs)) /\
  q_count_desc c true <= q_count_desc c false /\
  (q_is_leaf c = true -> q_count_desc c true = 0 /\ q_count_desc c false = 0) /\
  (q_is_leaf c = false -> 1 <= q_count_desc c true) /\
  q_count_desc c true = length (filter is_leaf_t (pre_f (rch (c_self c)))).
Proof. exact count_laws. Qed.
Print Assumptions C10_count_laws.

(* path = "/" + "/".join(names of the ancestor chain, top first) *)
Theorem C10_path_is_joined_names : forall c a,
  q_path c a = 47%Z :: join [47%Z] (map node_name (q_parent_list c a false)).
Proof. exact path_spec. Qed.
Print Assumptions C10_path_is_joined_names.

(* up(1) = parent (the system root for top-level nodes); up(j+k) = up(j) of up(k) *)
Theorem C10_up_one : forall c, q_up c 1 = Some (q_parent c).
Proof. exact up_one. Qed.
Print Assumptions C10_up_one.

Theorem C10_up_composes : forall f n c k p cp j, NoDup (ids f) -> locate_f n f = Some c ->
  q_up c k = Some (Some p) -> locate_f (rid p) f = Some cp -> 1 <= j ->
  q_up c (j + k) = q_up cp j.
Proof. exact up_compose. Qed.
Print Assumptions C10_up_composes.

(* get_top is THE top-level node whose sub-tree contains the node *)
Theorem C10_top_unique : forall f n c, NoDup (ids f) -> locate_f n f = Some c ->
  In (q_top c) f /\ In (c_self c) (pre (q_top c)) /\
  (forall x, In x f -> In (c_self c) (pre x) -> x = q_top c) /\
  (q_top c = c_self c <-> q_is_top c = true).
Proof. exact top_unique. Qed.
Print Assumptions C10_top_unique.

(* next_sibling / prev_sibling are inverse; the index advances by one; same parent *)
Theorem C10_next_prev_inverse : forall f n m c cy, NoDup (ids f) -> locate_f n f = Some c ->
  locate_f m f = Some cy ->
  (q_next c = Some (c_self cy) <-> q_prev cy = Some (c_self c)) /\
  (q_next c = Some (c_self cy) -> q_index cy = option_map S (q_index c) /\ q_parent cy = q_parent c).
Proof. exact next_prev_inverse. Qed.
Print Assumptions C10_next_prev_inverse.

(* get_index is THE position of the node in its sibling list (= siblings(add_self=True)): no other position
   holds a node with this identity *)
Theorem C10_index_is_position : forall f n c, NoDup (ids f) -> locate_f n f = Some c ->
  exists k, q_index c = Some k /\ nth_error (q_siblings c true) k = Some (c_self c) /\
    forall j x, nth_error (q_siblings c true) j = Some x -> rid x = rid (c_self c) -> j = k.
Proof. exact index_is_position. Qed.
Print Assumptions C10_index_is_position.

(* Tree-level accessors: tree.children / get_toplevel_nodes = the sibling list of every top-level node and exactly
   the nodes that are top-level; first_child / last_child its ends; len(tree) = tree.count = number of nodes =
   count_descendants of the system root = sum over the top-level nodes (1 + count); leaves likewise *)
Theorem C10_tree_level_laws : forall f, NoDup (ids f) ->
  (forall m cx, locate_f m f = Some cx -> q_is_top cx = true ->
     q_siblings cx true = tr_children f /\ q_first_sibling cx = tr_first_child f /\
     q_last_sibling cx = tr_last_child f /\ In (c_self cx) (tr_children f)) /\
  (forall x, In x (tr_children f) -> exists cx, locate_f (rid x) f = Some cx /\ c_self cx = x /\ q_is_top cx = true) /\
  tr_count f = length (ids f) /\
  tr_count f = tr_count_desc f false /\
  (forall cs, map c_self cs = tr_children f ->
     tr_count f = list_sum (map (fun c => S (q_count_desc c false)) cs) /\
     tr_count_desc f true = list_sum (map (fun c => if q_is_leaf c then 1 else q_count_desc c true) cs)) /\
  (tr_children f = [] <-> tr_count f = 0) /\
  (f <> [] -> 1 <= tr_count_desc f true <= tr_count f).
Proof. exact tree_level_laws. Qed.
Print Assumptions C10_tree_level_laws.

(* ================================================================== *)
(* Source tie: lexical facts lifted from nutree/node.py (Generated.v,   *)
(* section NAV) agree with what the model computes                       *)
(* ================================================================== *)

(* get_index / prev_sibling / next_sibling / is_first_sibling / is_last_sibling / get_siblings find the node's
   position BY IDENTITY (`is self`, directly or through get_index) in self._parent._children; no relationship
   accessor of node.py compares nodes with ==, !=, in, list.index/.count/.remove, or contains an `==` at all *)
Theorem C10_source_identity_not_equality : GEN_NAV_OK = true /\ node_identity_ok = true.
Proof. exact node_identity_holds. Qed.
Print Assumptions C10_source_identity_not_equality.

(* the literal subscripts of node.py ([0], [-1], [idx - 1], [idx + 1]) are the positions the model reads *)
Theorem C10_source_subscripts : forall c : ctx,
  q_first_child c = py_at (rch (c_self c)) (sub_lit "Node.first_child") /\
  q_last_child c = py_at (rch (c_self c)) (sub_lit "Node.last_child") /\
  q_first_sibling c = py_at (c_sibs c) (sub_lit "Node.first_sibling") /\
  q_last_sibling c = py_at (c_sibs c) (sub_lit "Node.last_sibling") /\
  q_is_first c = match py_at (c_sibs c) (sub_lit "Node.is_first_sibling") with
                 | Some t => is_self (rid (c_self c)) t | None => false end /\
  q_is_last c = match py_at (c_sibs c) (sub_lit "Node.is_last_sibling") with
                | Some t => is_self (rid (c_self c)) t | None => false end /\
  (forall i, q_index c = Some (S i) -> q_is_first c = false ->
     q_prev c = py_at (c_sibs c) (Z.of_nat (S i) + sub_var "Node.prev_sibling")) /\
  (forall i, q_index c = Some i -> q_is_last c = false ->
     q_next c = py_at (c_sibs c) (Z.of_nat i + sub_var "Node.next_sibling")).
Proof. exact node_subscripts_agree. Qed.
Print Assumptions C10_source_subscripts.

(* counters of calc_depth (`depth = 0`, `depth += 1` once per _parent link up to the system root),
   count_descendants (`i = 0`, `i += 1`), calc_height (`height = 0`, `_ch(self, 0)`, `h + 1`, `h > height`)
   and the guard of up() (`level < 1`) *)
Theorem C10_source_counters : forall c : ctx,
  Z.of_nat (q_depth c) = (NAV_DEPTH_INIT + NAV_DEPTH_STEP * Z.of_nat (S (length (c_anc c))))%Z /\
  Z.of_nat (q_count_desc c false) = (NAV_COUNT_INIT + NAV_COUNT_STEP * Z.of_nat (length (pre_f (rch (c_self c)))))%Z /\
  (NAV_HEIGHT_INIT = 0%Z /\ NAV_HEIGHT_START = 0%Z /\ NAV_HEIGHT_STEP = 1%Z /\ NAV_HEIGHT_CMP = tx "Gt") /\
  (forall k, cmp_eval NAV_UP_GUARD_OP (Z.of_nat k) NAV_UP_GUARD_K = Some true <-> k = 0) /\
  q_up c 0 = None.
Proof. exact node_counters_agree. Qed.
Print Assumptions C10_source_counters.

(* non-vacuity: a forest whose siblings carry equal-comparing data (same i_eqc)
   under different identities; the queries distinguish them *)
Example C10_nonvacuous :
  let i d := I 0 7 0 false [] (DInt d) None [] in
  let f := [T 1 (i 1%Z) [T 2 (i 2%Z) []; T 3 (i 3%Z) [T 5 (i 5%Z) []]; T 4 (i 4%Z) []]] in
  NoDup (ids f) /\
  exists c, locate_f 3 f = Some c /\ q_index c = Some 1 /\ option_map rid (q_prev c) = Some 2 /\
            option_map rid (q_next c) = Some 4 /\ q_depth c = 2 /\ q_height c = 1 /\
            exists o, locate_f 5 f = Some o /\ q_is_descendant_of o 3 = true /\
                      option_map rid (q_common_ancestor o c) = Some 3.
Proof.
  cbv zeta. split.
  - vm_compute. repeat constructor; cbn; intuition discriminate.
  - eexists. split; [vm_compute; reflexivity|]. vm_compute.
    refine (conj eq_refl (conj eq_refl (conj eq_refl (conj eq_refl (conj eq_refl _))))).
    eexists. split; [reflexivity|]. split; reflexivity.
Qed.

(* non-vacuity of the pre-order statements: node 5 lies in the branch of 3 and of 1 but not of 2;
   the common ancestor of the siblings' descendants 5 and 4 is 1; across top-level branches: None *)
Example C10_nonvacuous_full :
  let i d := I 0 7 0 false [] (DInt d) None [] in
  let t3 := T 3 (i 3%Z) [T 5 (i 5%Z) []] in
  let t1 := T 1 (i 1%Z) [T 2 (i 2%Z) []; t3; T 4 (i 4%Z) []] in
  let f := [t1; T 6 (i 6%Z) []] in
  NoDup (ids f) /\ In t3 (pre_f f) /\ In (T 5 (i 5%Z) []) (pre_f (rch t3)) /\
  exists c5 c4 c6, locate_f 5 f = Some c5 /\ locate_f 4 f = Some c4 /\ locate_f 6 f = Some c6 /\
    q_is_descendant_of c5 3 = true /\ q_is_descendant_of c5 2 = false /\
    option_map rid (q_common_ancestor c5 c4) = Some 1 /\ q_common_ancestor c5 c6 = None /\
    q_depth c5 = 3 /\ tree_height f = 3 /\ q_count_desc c4 true = 0.
Proof.
  cbv zeta. split; [|split; [|split]].
  - vm_compute. repeat constructor; cbn; intuition discriminate.
  - cbn. tauto.
  - cbn. tauto.
  - do 3 eexists. split; [vm_compute; reflexivity|]. split; [vm_compute; reflexivity|]. split; [vm_compute; reflexivity|].
    vm_compute. repeat split.
Qed.

(* ====================================================================================== *)
(* Glue C10 <-> C01 (theories/Glue/GlueNav.v).  The queries above are computed from the forest VALUE
   (a node is resolved to its context: ancestor chain, sibling list, own sub-tree).  The implementation
   follows _parent / _children pointers.  The heap model of C01 (Mut/Heap.v) has exactly those pointers,
   is refined by every mutator (C01_heap_refinement), and abstracts to the forest; on that forest the
   model's answers ARE the raw pointers of the heap - for every heap any history of operations produces:
     parent            = the _parent pointer (0 = the system root for a top-level node),
     children          = the _children list,           siblings incl. self = the parent's _children list,
     the ancestor chain = the chain of _parent pointers ([anc_heap], fuel = number of allocated objects),
     depth             = its length + 1,               is_descendant_of(o) = o occurs in that chain,
     and the node's _tree pointer is set, its payload is the object's. *)
From NT Require Machine Heap HeapProofs GlueNav.

Theorem C10_queries_are_the_raw_pointers : forall ops h, In h (Heap.htrees (Heap.h_run ops Heap.h_empty_world)) ->
  exists f, Heap.abs_forest h = Some f /\ forall n c, locate_f n f = Some c ->
    Heap.hpar h n = Some (match q_parent c with Some p => rid p | None => 0 end) /\
    Heap.hch h n = map rid (q_children c) /\
    Heap.hch h (match q_parent c with Some p => rid p | None => 0 end) = map rid (q_siblings c true) /\
    Heap.anc_heap (Heap.h_fuel h) h n = map rid (c_anc c) /\
    q_depth c = S (length (Heap.anc_heap (Heap.h_fuel h) h n)) /\
    (forall o, q_is_descendant_of c o = Heap.memn o (Heap.anc_heap (Heap.h_fuel h) h n)) /\
    Heap.htr h n = true /\ Heap.hinf h n = rinfo (c_self c).
Proof. exact GlueNav.queries_are_pointers_reachable. Qed.
Print Assumptions C10_queries_are_the_raw_pointers.

(* the same for any heap that represents a well-formed machine state *)
Theorem C10_queries_are_the_raw_pointers_rep : forall h t, WF.WF t -> HeapProofs.Rep h t ->
  forall n c, locate_f n (Machine.forest_of t) = Some c ->
    Heap.hpar h n = Some (match q_parent c with Some p => rid p | None => 0 end) /\
    Heap.hch h n = map rid (q_children c) /\
    Heap.hch h (match q_parent c with Some p => rid p | None => 0 end) = map rid (q_siblings c true) /\
    Heap.anc_heap (Heap.h_fuel h) h n = map rid (c_anc c) /\
    q_depth c = S (length (Heap.anc_heap (Heap.h_fuel h) h n)) /\
    (forall o, q_is_descendant_of c o = Heap.memn o (Heap.anc_heap (Heap.h_fuel h) h n)) /\
    Heap.htr h n = true /\ Heap.hinf h n = rinfo (c_self c).
Proof. exact GlueNav.queries_are_pointers. Qed.
Print Assumptions C10_queries_are_the_raw_pointers_rep.

(* Glue (theories/Glue/GluePreNav.v): the parent component of a row of the mutation machine's flattening
   is the parent this model finds for that node *)
From NT Require SurgeryFacts GluePreNav.

Theorem C10_parent_is_the_rows_parent : forall f, NoDup (ids f) -> ~ In 0 (ids f) -> forall r, In r (SurgeryFacts.rows 0 f) ->
  exists c, locate_f (SurgeryFacts.r_id r) f = Some c /\ rid (c_self c) = SurgeryFacts.r_id r /\ rinfo (c_self c) = SurgeryFacts.r_info r /\
            SurgeryFacts.r_par r = match q_parent c with Some p => rid p | None => 0 end.
Proof. exact GluePreNav.row_parent_is_nav_parent. Qed.
Print Assumptions C10_parent_is_the_rows_parent.

(* ==== PART NODEMISC: the accessors of Node / Tree that the relationship model does not contain (model
   theories/Forest/MiscNode.v, correspondence Cases/CaseMiscNode.v, harness parts_misc.NODEMISC).  [ent] = an object a
   caller can hold: [ERoot] the invisible system root, [ENode c] a node with its context; [raw_parent] is the `_parent`
   slot; [reg] the key order of `_node_by_id`, [reg_ok f reg] = it holds exactly the nodes of the forest (a clause of the
   C01 invariant); `random` is an explicit stream of draws. ==== *)
Import FsReprDecode MiscMapper MiscRepr MiscNode MiscNodeProofs.
Local Open Scope nat_scope.

(* is_system_root is true exactly for the system root: false for every node of every forest *)
Theorem C10_misc_is_system_root : (forall e, is_system_root e = true <-> e = ERoot) /\ (forall c, is_system_root (ENode c) = false).
Proof. exact (conj is_system_root_iff is_system_root_node). Qed.
Print Assumptions C10_misc_is_system_root.

(* a top-level node hangs below the root object itself, every other node below its parent node *)
Theorem C10_misc_parent_slot : forall c,
  (q_is_top c = true -> raw_parent (ENode c) = Some 0) /\
  (q_is_top c = false -> exists p, q_parent c = Some p /\ raw_parent (ENode c) = Some (rid p)).
Proof. intros c. exact (conj (top_parent_is_root c) (inner_parent_is_node c)). Qed.
Print Assumptions C10_misc_parent_slot.

(* Tree.system_root: its children are the top-level nodes; Tree.first_child/last_child are its first/last child;
   Node.get_children() is Node.children, Node.path is get_path() with the default arguments *)
Theorem C10_misc_system_root_children : forall f,
  ent_children f system_root = tr_children f /\ tree_first_child f = tr_first_child f /\ tree_last_child f = tr_last_child f.
Proof. exact root_children. Qed.
Print Assumptions C10_misc_system_root_children.

Theorem C10_misc_get_children_path : forall c f,
  ent_children f (ENode c) = q_children c /\ node_get_children c = q_children c /\ node_path c = q_path c true.
Proof. intros c f. exact (conj (proj1 (node_children c f)) (conj (proj2 (node_children c f)) (node_path_default c))). Qed.
Print Assumptions C10_misc_get_children_path.

(* Tree.__eq__ raises NotImplementedError for EVERY argument *)
Theorem C10_misc_tree_eq_raises : forall (X : Type) (other : X), tree_eq other = inl E_NOTIMPL.
Proof. exact tree_eq_always_raises. Qed.
Print Assumptions C10_misc_tree_eq_raises.

(* len(tree) = tree.count = number of nodes of the forest; bool(tree) iff the tree is not empty *)
Theorem C10_misc_len_count_bool : forall f reg, reg_ok f reg ->
  tree_len reg = tree_count reg /\ tree_count reg = tr_count f /\ (tree_bool reg = true <-> f <> []).
Proof. exact count_consistent. Qed.
Print Assumptions C10_misc_len_count_bool.

(* get_random_node: which node – position (draw mod count) of the registry *)
Theorem C10_misc_random_node_position : forall reg d, reg <> [] ->
  get_random_node reg d = inr (nth (Z.to_nat (d mod Z.of_nat (length reg))) reg 0).
Proof. exact grn_position. Qed.
Print Assumptions C10_misc_random_node_position.

(* the result is a node of the tree *)
Theorem C10_misc_random_node_member : forall f reg d n, reg_ok f reg -> get_random_node reg d = inr n -> In n (ids f).
Proof. exact grn_member. Qed.
Print Assumptions C10_misc_random_node_member.

(* every node can be drawn (the last one too); the draws 0..count-1 deliver the registry in its order, each node once per entry *)
Theorem C10_misc_random_node_surjective : forall f reg n, reg_ok f reg -> In n (ids f) ->
  exists d, (0 <= d < Z.of_nat (tree_count reg))%Z /\ get_random_node reg d = inr n.
Proof. exact grn_surjective. Qed.
Print Assumptions C10_misc_random_node_surjective.

Theorem C10_misc_random_node_enumerates : forall reg,
  map (fun k => get_random_node reg (Z.of_nat k)) (seq 0 (length reg)) = map inr reg.
Proof. exact grn_enumerates. Qed.
Print Assumptions C10_misc_random_node_enumerates.

Theorem C10_misc_random_node_periodic : forall reg d k, get_random_node reg (d + k * Z.of_nat (length reg)) = get_random_node reg d.
Proof. exact grn_periodic. Qed.
Print Assumptions C10_misc_random_node_periodic.

(* on an empty tree the code raises IndexError (random.choice of an empty list) – and fails in no other situation *)
Theorem C10_misc_random_node_fails_iff_empty : forall f reg d, reg_ok f reg -> (get_random_node reg d = inl E_INDEX <-> f = []).
Proof. exact grn_fails_iff_empty. Qed.
Print Assumptions C10_misc_random_node_fails_iff_empty.

(* __repr__ as exact text functions of (class name, name, data_id, kind): a plain node quotes its NAME (repr) and prints
   the data_id bare (str); a typed node prints kind and name bare and quotes a str DATA_ID; int ids print alike *)
Theorem C10_misc_repr_text : forall cls name d k t,
  node_repr cls t = repr_of cls (i_name (rinfo t)) (rdid t) (rkind t) /\
  repr_of cls name d None = cls ++ [60%Z] ++ repr_text name ++ t_data_id_eq ++ did_str d ++ [62%Z] /\
  repr_of cls name d (Some k) = cls ++ t_kind_eq ++ k ++ t_sep ++ name ++ t_data_id_eq ++ did_repr d ++ [62%Z].
Proof. intros. exact (conj (node_repr_fields cls t) (conj (repr_plain cls name d) (repr_typed cls name d k))). Qed.
Print Assumptions C10_misc_repr_text.

(* the text determines the name (for every name of valid code points; quotes and backslashes included) *)
Theorem C10_misc_repr_name_injective : forall cls a b d,
  Forall cp_ok a -> Forall cp_ok b ->
  (repr_of cls a d None = repr_of cls b d None -> a = b) /\
  (forall k, repr_of cls a d (Some k) = repr_of cls b d (Some k) -> a = b) /\
  (tree_repr cls a = tree_repr cls b -> a = b).
Proof.
  intros cls a b d Ha Hb.
  exact (conj (repr_plain_name_injective cls a b d Ha Hb)
              (conj (fun k => repr_typed_name_injective cls a b d k) (tree_repr_name_injective cls a b Ha Hb))).
Qed.
Print Assumptions C10_misc_repr_name_injective.

(* a name without quote and backslash (printable ASCII) is shown between apostrophes unchanged *)
Theorem C10_misc_repr_plain_names : forall s, forallb plain_char s = true -> repr_text s = [39%Z] ++ s ++ [39%Z].
Proof. exact repr_text_plain. Qed.
Print Assumptions C10_misc_repr_plain_names.

(* the system root's repr uses the data_id constant of the source *)
Example C10_misc_ex_root_repr :
  root_repr false [82]%Z [84]%Z ROOT_DATA_ID = [82; 60; 39; 84; 39; 44; 32; 100; 97; 116; 97; 95; 105; 100; 61; 95; 95; 114; 111; 111; 116; 95; 95; 62]%Z /\
  root_repr true [82]%Z [84]%Z ROOT_DATA_ID =
    [82; 60; 107; 105; 110; 100; 61; 78; 111; 110; 101; 44; 32; 84; 44; 32; 100; 97; 116; 97; 95; 105; 100; 61; 39; 95; 95; 114; 111; 111; 116; 95; 95; 39; 62]%Z.
Proof. vm_compute. split; reflexivity. Qed.

Example C10_misc_ex_random :
  map (get_random_node [3; 1; 2]) [0; 1; 2; 3; -1; 1000003]%Z = [inr 3; inr 1; inr 2; inr 3; inr 2; inr 1] /\
  get_random_node [] 0%Z = inl E_INDEX /\ reg_ok ex_forest [3; 1; 2].
Proof. exact ex_random_nodes. Qed.

Example C10_misc_ex_reprs :
  map (node_repr [78; 111; 100; 101]%Z) (pre_f ex_forest) =
  [ [78; 111; 100; 101; 60; 39; 97; 39; 44; 32; 100; 97; 116; 97; 95; 105; 100; 61; 45; 55; 62];
    [78; 111; 100; 101; 60; 34; 105; 116; 39; 115; 34; 44; 32; 100; 97; 116; 97; 95; 105; 100; 61; 105; 100; 62];
    [78; 111; 100; 101; 60; 39; 98; 39; 44; 32; 100; 97; 116; 97; 95; 105; 100; 61; 53; 62] ]%Z /\
  repr_of [84]%Z [110]%Z (DStr [105; 100]%Z) (Some [107]%Z) =
    [84; 60; 107; 105; 110; 100; 61; 107; 44; 32; 110; 44; 32; 100; 97; 116; 97; 95; 105; 100; 61; 39; 105; 100; 39; 62]%Z.
Proof. exact ex_reprs. Qed.

(* ==== PART FORWARD: Node.__getattr__, the attribute forwarding of Tree(forward_attrs=True) (model theories/Forest/MiscForward.v,
   correspondence Cases/CaseMiscForward.v, harness parts_misc.FORWARD).  [own] = the names the normal lookup finds on the node
   (slots, properties, methods); [tree_forward] = None for a node without a tree, else the tree's flag. ==== *)
Import MiscForward MiscForwardProofs.

(* a native name is never forwarded, whatever the data object has under that name *)
Theorem C10_forward_native_names_shadow : forall own tf attrs name, In name own -> node_getattr own tf attrs name = GOwn.
Proof. exact own_names_shadow. Qed.
Print Assumptions C10_forward_native_names_shadow.

(* forwarded exactly when the name is not native, the node has a tree with forward_attrs on, and the data object has the attribute *)
Theorem C10_forward_iff : forall own tf attrs name v,
  node_getattr own tf attrs name = GData v <-> ~ In name own /\ tf = Some true /\ d_get attrs name = Some v.
Proof. exact forwarded_iff. Qed.
Print Assumptions C10_forward_iff.

(* with forward_attrs off (the default), and on a removed node, nothing is ever forwarded *)
Theorem C10_forward_off : forall own tf attrs name, tf <> Some true ->
  node_getattr own tf attrs name = GOwn \/ node_getattr own tf attrs name = GAttrErr.
Proof. exact no_forwarding. Qed.
Print Assumptions C10_forward_off.

(* the lookup goes to the data object each time: a changed attribute is seen *)
Theorem C10_forward_sees_updates : forall own attrs name v,
  ~ In name own -> node_getattr own (Some true) (d_set attrs name v) name = GData v.
Proof. exact forwarding_sees_updates. Qed.
Print Assumptions C10_forward_sees_updates.

Example C10_forward_ex :
  map (node_getattr [[110; 97; 109; 101]%Z] (Some true) [([110; 97; 109; 101]%Z, PStr [65]%Z); ([97; 103; 101]%Z, PInt 23)])
      [[110; 97; 109; 101]%Z; [97; 103; 101]%Z; [120]%Z] = [GOwn; GData (PInt 23); GAttrErr].
Proof. reflexivity. Qed.

(* tie to the source (gen_facts section MISC): every name of the documented list of native attributes is found on the Node
   class itself (so it is never forwarded); `kind` is native on a TypedNode only – a plain node forwards it *)
Theorem C10_forward_native_names_from_source :
  GEN_MISC_OK = true /\
  forallb (fun n => mem_text n NODE_ATTR_NAMES)
    [[99; 104; 105; 108; 100; 114; 101; 110]; [100; 97; 116; 97; 95; 105; 100]; [100; 97; 116; 97]; [109; 101; 116; 97];
     [110; 111; 100; 101; 95; 105; 100]; [112; 97; 114; 101; 110; 116]; [116; 114; 101; 101]; [110; 97; 109; 101]; [112; 97; 116; 104]]%Z = true /\
  mem_text [107; 105; 110; 100]%Z NODE_ATTR_NAMES = false /\ mem_text [107; 105; 110; 100]%Z TYPED_NODE_EXTRA_ATTR_NAMES = true.
Proof. vm_compute. repeat split. Qed.
Print Assumptions C10_forward_native_names_from_source.

(* ---- Node.__eq__ and hash(node) (part NODEMISC; every ordered pair of nodes is compared on every case) ---- *)
(* `node == other` compares the DATA objects: an equivalence on nodes that ignores identity, kind, data_id, meta and position
   (so clones, and different nodes holding equal-comparing data, are ==; use `is` for identity); a node equals its own data object *)
Theorem C10_misc_node_eq : 
  (forall a, MiscNode.node_eq a a = true) /\ (forall a b, MiscNode.node_eq a b = MiscNode.node_eq b a) /\
  (forall a b c, MiscNode.node_eq a b = true -> MiscNode.node_eq b c = true -> MiscNode.node_eq a c = true) /\
  (forall id1 id2 i1 i2 ch1 ch2, i_eqc i1 = i_eqc i2 -> MiscNode.node_eq (T id1 i1 ch1) (T id2 i2 ch2) = true) /\
  (forall a, MiscNode.node_eq_obj a (i_eqc (rinfo a)) = true).
Proof.
  destruct MiscNodeProofs.node_eq_equivalence as (R & S & Tr).
  exact (conj R (conj S (conj Tr (conj MiscNodeProofs.node_eq_data_only MiscNodeProofs.node_eq_own_data)))).
Qed.
Print Assumptions C10_misc_node_eq.

(* Node defines __eq__ and no __hash__: hash(node) raises TypeError for every node (nodes cannot be set members or dict keys) *)
Theorem C10_misc_node_unhashable : forall (X : Type) (n : X), MiscNode.node_hash n = inl MiscNode.E_TYPE.
Proof. exact MiscNodeProofs.node_hash_always_raises. Qed.
Print Assumptions C10_misc_node_unhashable.

Example C10_misc_node_eq_ex :
  MiscNode.node_eq (T 1 (I 0 7 0 true [97]%Z (DInt 1) None []) []) (T 2 (I 5 7 0 true [97]%Z (DStr [120]%Z) (Some [107]%Z) []) [T 3 (I 1 1 1 true [] (DInt 2) None []) []]) = true.
Proof. reflexivity. Qed.
