(* C02 - lookups and clone queries reflect exactly the nodes currently in the tree.
   Statements only; proofs in theories/Mut/QueriesProofs.v (under [WF t]) and
   theories/Mut/Invariant.v ([WF] holds after every history).
   The functions are those of theories/Mut/Lookup.v (prefix lk_), which the correspondence
   runs against Tree.find_all / find_first / __getitem__ / __contains__ / count /
   count_unique and Node.get_clones / is_clone.
   [nodes_with f d] = the node identities of the forest whose CURRENT data_id is d;
   [did_of n f] = the current data_id of node n. *)
From Coq Require Import List ZArith Bool Arith Permutation.
From NT Require Import Sx Rose Surgery Machine WF Lookup QueriesProofs Invariant.
Import ListNotations.

(* ---- under WF ---- *)
Theorem C02_find_all_exact : forall t, WF t -> forall d,
  Permutation (lk_find_all_did t d) (nodes_with (forest_of t) d).
Proof. exact find_all_exact. Qed.
Print Assumptions C02_find_all_exact.

Theorem C02_find_all_live : forall t, WF t -> forall n d,
  In n (lk_find_all_did t d) <-> In n (ids (forest_of t)) /\ did_of n (forest_of t) = Some d.
Proof. exact find_all_live. Qed.
Print Assumptions C02_find_all_live.

Theorem C02_find_all_data : forall t, WF t -> forall dat e, calc_id (calc t) dat = Some e ->
  exists l, lk_find_all_data t dat = Some l /\ Permutation l (nodes_with (forest_of t) e).
Proof. exact find_all_data_exact. Qed.
Print Assumptions C02_find_all_data.

Theorem C02_find_first : forall t, WF t -> forall d,
  match lk_find_first_did t d with
  | Some n => In n (ids (forest_of t)) /\ did_of n (forest_of t) = Some d
  | None => forall n, In n (ids (forest_of t)) -> did_of n (forest_of t) <> Some d
  end.
Proof. exact find_first_exact. Qed.
Print Assumptions C02_find_first.

Theorem C02_find_by_node_id : forall t, WF t -> forall n, lk_find_nodeid t n = Some n <-> In n (ids (forest_of t)).
Proof. exact find_nodeid_exact. Qed.
Print Assumptions C02_find_by_node_id.

Theorem C02_contains_key : forall t, WF t -> forall e,
  lk_contains_key t (Some e) = Some true <-> exists n, In n (ids (forest_of t)) /\ did_of n (forest_of t) = Some e.
Proof. exact contains_key_exact. Qed.
Print Assumptions C02_contains_key.

Theorem C02_contains_data : forall t, WF t -> forall dat e, calc_id (calc t) dat = Some e ->
  (lk_contains_data t dat = Some true <-> exists n, In n (ids (forest_of t)) /\ did_of n (forest_of t) = Some e).
Proof. exact contains_data_exact. Qed.
Print Assumptions C02_contains_data.

Theorem C02_index_keys : forall t, WF t -> forall d,
  idx_has d (idx t) = true <-> exists n, In n (ids (forest_of t)) /\ did_of n (forest_of t) = Some d.
Proof. exact has_did_exact. Qed.
Print Assumptions C02_index_keys.

Theorem C02_getitem_sound : forall t, WF t -> forall k n, lk_getitem t k = Ok [n] -> In n (ids (forest_of t)).
Proof. exact getitem_sound. Qed.
Print Assumptions C02_getitem_sound.

Theorem C02_getitem_by_data_id : forall t, WF t -> forall e fb n, idx_has e (idx t) = true ->
  (lk_getitem t (LDid e fb) = Ok [n] <-> nodes_with (forest_of t) e = [n]).
Proof. exact getitem_did_exact. Qed.
Print Assumptions C02_getitem_by_data_id.

Theorem C02_getitem_unique_or_ambiguous : forall t e fb, WF t -> idx_has e (idx t) = true ->
  (exists n, lk_getitem t (LDid e fb) = Ok [n] /\ nodes_with (forest_of t) e = [n]) \/
  (lk_getitem t (LDid e fb) = Err EAmbiguous /\ 2 <= length (nodes_with (forest_of t) e)).
Proof. exact getitem_did_class. Qed.
Print Assumptions C02_getitem_unique_or_ambiguous.

(* get_clones = find_all(own data_id) without the node itself; is_clone = "more than one" *)
Theorem C02_get_clones_list : forall t n d, did_of n (forest_of t) = Some d ->
  lk_get_clones t n false = remove Nat.eq_dec n (lk_find_all_did t d) /\
  lk_get_clones t n true = lk_find_all_did t d /\
  lk_is_clone t n = Nat.ltb 1 (length (lk_find_all_did t d)).
Proof. exact get_clones_as_remove. Qed.
Print Assumptions C02_get_clones_list.

Theorem C02_get_clones : forall t, WF t -> forall n add_self c,
  In c (lk_get_clones t n add_self) <->
  In n (ids (forest_of t)) /\ In c (ids (forest_of t)) /\ did_of c (forest_of t) = did_of n (forest_of t) /\
  (add_self = true \/ c <> n).
Proof. exact get_clones_exact. Qed.
Print Assumptions C02_get_clones.

Theorem C02_get_clones_nodup : forall t, WF t -> forall n add_self, NoDup (lk_get_clones t n add_self).
Proof. exact get_clones_nodup. Qed.
Print Assumptions C02_get_clones_nodup.

Theorem C02_is_clone : forall t, WF t -> forall n, In n (ids (forest_of t)) ->
  (lk_is_clone t n = true <-> exists c, c <> n /\ In c (ids (forest_of t)) /\ did_of c (forest_of t) = did_of n (forest_of t)).
Proof. exact is_clone_exact. Qed.
Print Assumptions C02_is_clone.

Theorem C02_count : forall t, WF t -> lk_count t = length (ids (forest_of t)).
Proof. exact count_exact. Qed.
Print Assumptions C02_count.

Theorem C02_count_unique : forall t, WF t ->
  lk_count_unique t = length (nodup did_eq_dec (map rdid (pre_f (forest_of t)))).
Proof. exact count_unique_exact. Qed.
Print Assumptions C02_count_unique.

(* ---- data_id provenance: explicit, else the tree's callback, else hash(data) ---- *)
Theorem C02_did_of_new : forall t d explicit,
  lk_did_of_new t d explicit =
  match explicit with
  | Some e => Some e
  | None => match calc t with
            | None => Some (DInt (d_hash d))
            | Some tbl => match find (fun e => Z.eqb (fst e) (d_obj d)) tbl with Some e => snd e | None => None end
            end
  end.
Proof. exact did_of_new_spec. Qed.
Print Assumptions C02_did_of_new.

Theorem C02_added_node_has_that_id : forall w ti p d explicit k b n,
  WFw w -> fst (op_add w ti p d explicit k b) = Ok [n] ->
  exists t t' id, get_tree w ti = Some t /\ get_tree (snd (op_add w ti p d explicit k b)) ti = Some t' /\
                  lk_did_of_new t d explicit = Some id /\ did_of n (forest_of t') = Some id /\ n = next w.
Proof. exact add_did_provenance. Qed.
Print Assumptions C02_added_node_has_that_id.

(* ---- after every history (C01): the statements above hold for every tree of every
   reachable world, whatever mix of add / copy / move / remove / sort / filter /
   set_data (single nodes, whole clone groups, merging or splitting groups) ran before ---- *)
Lemma wf_after_history : forall ops w t, WFw w -> In t (trees (run ops w)) -> WF t.
Proof. intros ops w t H Ht. assert (X := WFw_run ops w H). destruct X as [X _ _ _]. rewrite Forall_forall in X. now apply X. Qed.

Theorem C02_after_history : forall ops w t, WFw w -> In t (trees (run ops w)) -> WF t.
Proof. exact wf_after_history. Qed.
Print Assumptions C02_after_history.

Theorem C02_find_all_after_history : forall ops t d, In t (trees (run ops empty_world)) ->
  Permutation (lk_find_all_did t d) (nodes_with (forest_of t) d).
Proof. intros ops t d Ht. apply find_all_exact. exact (wf_after_history ops empty_world t WFw_empty Ht). Qed.
Print Assumptions C02_find_all_after_history.

Theorem C02_clones_after_history : forall ops t n add_self c, In t (trees (run ops empty_world)) ->
  (In c (lk_get_clones t n add_self) <->
   In n (ids (forest_of t)) /\ In c (ids (forest_of t)) /\ did_of c (forest_of t) = did_of n (forest_of t) /\
   (add_self = true \/ c <> n)).
Proof. intros ops t n a c Ht. apply get_clones_exact. exact (wf_after_history ops empty_world t WFw_empty Ht). Qed.
Print Assumptions C02_clones_after_history.

(* set_data explicitly: one step of set_data (with or without clones) from a well-formed world *)
Theorem C02_after_set_data : forall w ti n d explicit wcl t d0, WFw w ->
  In t (trees (snd (op_set_data w ti n d explicit wcl))) ->
  Permutation (lk_find_all_did t d0) (nodes_with (forest_of t) d0).
Proof.
  intros w ti n d e wcl t d0 H Ht. apply find_all_exact.
  exact (wf_after_history [OSetData ti n d e wcl] w t H Ht).
Qed.
Print Assumptions C02_after_set_data.

(* ---- non-vacuity: groups merged and split by set_data ---- *)
Definition c02_dd (z : Z) : dat := D z z z false [z].
Definition c02_ops : list op :=
  [ONewTree false None;
   OAdd 0 0 (c02_dd 10) None None BNone;     (* 1: did 10 *)
   OAdd 0 1 (c02_dd 20) None None BNone;     (* 2: did 20 *)
   OAdd 0 0 (c02_dd 20) None None BNone;     (* 3: did 20, clone of 2 *)
   OAdd 0 3 (c02_dd 30) None None BNone;     (* 4: did 30 *)
   OAdd 0 4 (c02_dd 30) None None BNone;     (* 5: did 30, clone of 4 (and its child) *)
   OSetData 0 2 (Some (c02_dd 30)) None (Some true);   (* the group {2,3} is merged into {4,5} *)
   OSetData 0 5 (Some (c02_dd 40)) None (Some false);  (* 5 leaves the group *)
   ORemove 0 2 false false].
Definition c02_t : tstate := nth 0 (trees (run c02_ops empty_world)) (TS [] [] [] false None).
Example C02_nonvacuous :
  wf_b c02_t = true /\
  lk_find_all_did c02_t (DInt 30) = [4; 3] /\ lk_find_all_did c02_t (DInt 20) = [] /\
  lk_find_all_did c02_t (DInt 40) = [5] /\ lk_get_clones c02_t 3 false = [4] /\ lk_is_clone c02_t 5 = false /\
  lk_count c02_t = 4 /\ lk_count_unique c02_t = 3.
Proof. vm_compute. repeat split. Qed.
