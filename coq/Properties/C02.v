(* C02 - lookups and clone queries reflect exactly the nodes currently in the tree.
   Statements only; proofs in theories/Mut/QueriesProofs.v (under [WF t]) and
   theories/Mut/Invariant.v ([WF] holds after every history).
   The functions are those of theories/Mut/Lookup.v (prefix lk_), which the correspondence
   runs against Tree.find_all / find_first / __getitem__ / __contains__ / count /
   count_unique and Node.get_clones / is_clone.
   [nodes_with f d] = the node identities of the forest whose CURRENT data_id is d;
   [did_of n f] = the current data_id of node n. *)
From Coq Require Import List ZArith Bool Arith Permutation.
From NT Require Import Sx Rose Surgery Machine WF Lookup QueriesProofs Invariant.
Import ListNotations.

(* ---- under WF ---- *)
Theorem C02_find_all_exact : forall t, WF t -> forall d,
  Permutation (lk_find_all_did t d) (nodes_with (forest_of t) d).
Proof. exact find_all_exact. Qed.
Print Assumptions C02_find_all_exact.

(* find_all(data_id=d, max_results=k) (k = 0: no limit) *)
Theorem C02_find_all_max : forall t d k, WF t ->
  incl (lk_find_all_did_max t d k) (nodes_with (forest_of t) d) /\
  NoDup (lk_find_all_did_max t d k) /\
  length (lk_find_all_did_max t d k) =
    (if Nat.eqb k 0 then length (nodes_with (forest_of t) d) else Nat.min k (length (nodes_with (forest_of t) d))).
Proof. exact find_all_max_exact. Qed.
Print Assumptions C02_find_all_max.

Theorem C02_find_all_live : forall t, WF t -> forall n d,
  In n (lk_find_all_did t d) <-> In n (ids (forest_of t)) /\ did_of n (forest_of t) = Some d.
Proof. exact find_all_live. Qed.
Print Assumptions C02_find_all_live.

Theorem C02_find_all_data : forall t, WF t -> forall dat e, calc_id (calc t) dat = Some e ->
  exists l, lk_find_all_data t dat = Some l /\ Permutation l (nodes_with (forest_of t) e).
Proof. exact find_all_data_exact. Qed.
Print Assumptions C02_find_all_data.

Theorem C02_find_first : forall t, WF t -> forall d,
  match lk_find_first_did t d with
  | Some n => In n (ids (forest_of t)) /\ did_of n (forest_of t) = Some d
  | None => forall n, In n (ids (forest_of t)) -> did_of n (forest_of t) <> Some d
  end.
Proof. exact find_first_exact. Qed.
Print Assumptions C02_find_first.

Theorem C02_find_by_node_id : forall t, WF t -> forall n, lk_find_nodeid t n = Some n <-> In n (ids (forest_of t)).
Proof. exact find_nodeid_exact. Qed.
Print Assumptions C02_find_by_node_id.

Theorem C02_contains_key : forall t, WF t -> forall e,
  lk_contains_key t (Some e) = Some true <-> exists n, In n (ids (forest_of t)) /\ did_of n (forest_of t) = Some e.
Proof. exact contains_key_exact. Qed.
Print Assumptions C02_contains_key.

Theorem C02_contains_data : forall t, WF t -> forall dat e, calc_id (calc t) dat = Some e ->
  (lk_contains_data t dat = Some true <-> exists n, In n (ids (forest_of t)) /\ did_of n (forest_of t) = Some e).
Proof. exact contains_data_exact. Qed.
Print Assumptions C02_contains_data.

Theorem C02_index_keys : forall t, WF t -> forall d,
  idx_has d (idx t) = true <-> exists n, In n (ids (forest_of t)) /\ did_of n (forest_of t) = Some d.
Proof. exact has_did_exact. Qed.
Print Assumptions C02_index_keys.

Theorem C02_getitem_sound : forall t, WF t -> forall k n, lk_getitem t k = Ok [n] -> In n (ids (forest_of t)).
Proof. exact getitem_sound. Qed.
Print Assumptions C02_getitem_sound.

Theorem C02_getitem_by_data_id : forall t, WF t -> forall e fb n, idx_has e (idx t) = true ->
  (lk_getitem t (LDid e fb) = Ok [n] <-> nodes_with (forest_of t) e = [n]).
Proof. exact getitem_did_exact. Qed.
Print Assumptions C02_getitem_by_data_id.

Theorem C02_getitem_unique_or_ambiguous : forall t e fb, WF t -> idx_has e (idx t) = true ->
  (exists n, lk_getitem t (LDid e fb) = Ok [n] /\ nodes_with (forest_of t) e = [n]) \/
  (lk_getitem t (LDid e fb) = Err EAmbiguous /\ 2 <= length (nodes_with (forest_of t) e)).
Proof. exact getitem_did_class. Qed.
Print Assumptions C02_getitem_unique_or_ambiguous.

(* get_clones = find_all(own data_id) without the node itself; is_clone = "more than one" *)
Theorem C02_get_clones_list : forall t n d, did_of n (forest_of t) = Some d ->
  lk_get_clones t n false = remove Nat.eq_dec n (lk_find_all_did t d) /\
  lk_get_clones t n true = lk_find_all_did t d /\
  lk_is_clone t n = Nat.ltb 1 (length (lk_find_all_did t d)).
Proof. exact get_clones_as_remove. Qed.
Print Assumptions C02_get_clones_list.

Theorem C02_get_clones : forall t, WF t -> forall n add_self c,
  In c (lk_get_clones t n add_self) <->
  In n (ids (forest_of t)) /\ In c (ids (forest_of t)) /\ did_of c (forest_of t) = did_of n (forest_of t) /\
  (add_self = true \/ c <> n).
Proof. exact get_clones_exact. Qed.
Print Assumptions C02_get_clones.

Theorem C02_get_clones_nodup : forall t, WF t -> forall n add_self, NoDup (lk_get_clones t n add_self).
Proof. exact get_clones_nodup. Qed.
Print Assumptions C02_get_clones_nodup.

Theorem C02_is_clone : forall t, WF t -> forall n, In n (ids (forest_of t)) ->
  (lk_is_clone t n = true <-> exists c, c <> n /\ In c (ids (forest_of t)) /\ did_of c (forest_of t) = did_of n (forest_of t)).
Proof. exact is_clone_exact. Qed.
Print Assumptions C02_is_clone.

Theorem C02_count : forall t, WF t -> lk_count t = length (ids (forest_of t)).
Proof. exact count_exact. Qed.
Print Assumptions C02_count.

Theorem C02_count_unique : forall t, WF t ->
  lk_count_unique t = length (nodup did_eq_dec (map rdid (pre_f (forest_of t)))).
Proof. exact count_unique_exact. Qed.
Print Assumptions C02_count_unique.

(* ---- data_id provenance: explicit, else the tree's callback, else hash(data) ---- *)
Theorem C02_did_of_new : forall t d explicit,
  lk_did_of_new t d explicit =
  match explicit with
  | Some e => Some e
  | None => match calc t with
            | None => Some (DInt (d_hash d))
            | Some tbl => match find (fun e => Z.eqb (fst e) (d_obj d)) tbl with Some e => snd e | None => None end
            end
  end.
Proof. exact did_of_new_spec. Qed.
Print Assumptions C02_did_of_new.

Theorem C02_added_node_has_that_id : forall w ti p d explicit k b n,
  WFw w -> fst (op_add w ti p d explicit k b) = Ok [n] ->
  exists t t' id, get_tree w ti = Some t /\ get_tree (snd (op_add w ti p d explicit k b)) ti = Some t' /\
                  lk_did_of_new t d explicit = Some id /\ did_of n (forest_of t') = Some id /\ n = next w.
Proof. exact add_did_provenance. Qed.
Print Assumptions C02_added_node_has_that_id.

(* ---- after every history (C01): the statements above hold for every tree of every
   reachable world, whatever mix of add / copy / move / remove / sort / filter /
   set_data (single nodes, whole clone groups, merging or splitting groups) ran before ---- *)
Lemma wf_after_history : forall ops w t, WFw w -> In t (trees (run ops w)) -> WF t.
Proof. intros ops w t H Ht. assert (X := WFw_run ops w H). destruct X as [X _ _ _]. rewrite Forall_forall in X. now apply X. Qed.

Theorem C02_after_history : forall ops w t, WFw w -> In t (trees (run ops w)) -> WF t.
Proof. exact wf_after_history. Qed.
Print Assumptions C02_after_history.

Theorem C02_find_all_after_history : forall ops t d, In t (trees (run ops empty_world)) ->
  Permutation (lk_find_all_did t d) (nodes_with (forest_of t) d).
Proof. intros ops t d Ht. apply find_all_exact. exact (wf_after_history ops empty_world t WFw_empty Ht). Qed.
Print Assumptions C02_find_all_after_history.

Theorem C02_clones_after_history : forall ops t n add_self c, In t (trees (run ops empty_world)) ->
  (In c (lk_get_clones t n add_self) <->
   In n (ids (forest_of t)) /\ In c (ids (forest_of t)) /\ did_of c (forest_of t) = did_of n (forest_of t) /\
   (add_self = true \/ c <> n)).
Proof. intros ops t n a c Ht. apply get_clones_exact. exact (wf_after_history ops empty_world t WFw_empty Ht). Qed.
Print Assumptions C02_clones_after_history.

(* set_data explicitly: one step of set_data (with or without clones) from a well-formed world *)
Theorem C02_after_set_data : forall w ti n d explicit wcl t d0, WFw w ->
  In t (trees (snd (op_set_data w ti n d explicit wcl))) ->
  Permutation (lk_find_all_did t d0) (nodes_with (forest_of t) d0).
Proof.
  intros w ti n d e wcl t d0 H Ht. apply find_all_exact.
  exact (wf_after_history [OSetData ti n d e wcl] w t H Ht).
Qed.
Print Assumptions C02_after_set_data.

(* ---- non-vacuity: groups merged and split by set_data ---- *)
Definition c02_dd (z : Z) : dat := D z z z false [z].
Definition c02_ops : list op :=
  [ONewTree false None;
   OAdd 0 0 (c02_dd 10) None None BNone;     (* 1: did 10 *)
   OAdd 0 1 (c02_dd 20) None None BNone;     (* 2: did 20 *)
   OAdd 0 0 (c02_dd 20) None None BNone;     (* 3: did 20, clone of 2 *)
   OAdd 0 3 (c02_dd 30) None None BNone;     (* 4: did 30 *)
   OAdd 0 4 (c02_dd 30) None None BNone;     (* 5: did 30, clone of 4 (and its child) *)
   OSetData 0 2 (Some (c02_dd 30)) None (Some true);   (* the group {2,3} is merged into {4,5} *)
   OSetData 0 5 (Some (c02_dd 40)) None (Some false);  (* 5 leaves the group *)
   ORemove 0 2 false false].
Definition c02_t : tstate := nth 0 (trees (run c02_ops empty_world)) (TS [] [] [] false None).
Example C02_nonvacuous :
  wf_b c02_t = true /\
  lk_find_all_did c02_t (DInt 30) = [4; 3] /\ lk_find_all_did c02_t (DInt 20) = [] /\
  lk_find_all_did c02_t (DInt 40) = [5] /\ lk_get_clones c02_t 3 false = [4] /\ lk_is_clone c02_t 5 = false /\
  lk_count c02_t = 4 /\ lk_count_unique c02_t = 3.
Proof. vm_compute. repeat split. Qed.

(* ====================================================================================== *)
(* The same exactness, stated over the dictionaries and pointers of the heap model
   (theories/Mut/Heap.v: _node_by_id = hreg, _nodes_by_data_id = hidx, the objects' _children /
   data_id), through the refinement proved for every operation (C01_heap_refinement). *)
From NT Require Import Heap HeapProofs HeapRefine HeapFull HeapRefusal.

(* _node_by_id holds exactly the nodes reachable from the root through the _children pointers, each once *)
Theorem C02_heap_registry_exact : forall h t, WF t -> Rep h t ->
  exists f, abs_forest h = Some f /\ NoDup (hreg h) /\
    (forall n, In n (hreg h) <-> In n (ids f)) /\ length (hreg h) = length (ids f).
Proof. exact heap_registry_exact. Qed.
Print Assumptions C02_heap_registry_exact.

(* find_all(data_id=d) read from the heap's index: exactly the registered nodes whose object carries d *)
Theorem C02_heap_index_exact : forall h t, WF t -> Rep h t -> forall d n,
  In n (idx_get d (hidx h)) <-> In n (hreg h) /\ hdid h n = d.
Proof. exact heap_index_exact. Qed.
Print Assumptions C02_heap_index_exact.

Theorem C02_heap_index_shape : forall h t, WF t -> Rep h t ->
  NoDup (map fst (hidx h)) /\ Forall (fun e => snd e <> []) (hidx h) /\
  forall d, idx_has d (hidx h) = true <-> exists n, In n (hreg h) /\ hdid h n = d.
Proof. exact heap_index_shape. Qed.
Print Assumptions C02_heap_index_shape.

(* every heap ANY history of operations produces: its dictionaries are those of a well-formed machine
   state (so every lk_* above reads the heap's own dictionaries), and they are exact for the pointers *)
Theorem C02_heap_after_history : forall ops h, In h (htrees (h_run ops h_empty_world)) ->
  exists t, abs_tstate h = Some t /\ WF t /\ hreg h = reg t /\ hidx h = idx t /\ hcalc h = calc t /\ htyped h = typed t /\
    (forall d n, In n (idx_get d (hidx h)) <-> In n (hreg h) /\ hdid h n = d) /\
    (forall n, In n (hreg h) <-> In n (ids (forest_of t))) /\ NoDup (hreg h).
Proof. exact heap_lookups_reachable. Qed.
Print Assumptions C02_heap_after_history.

Example C02_heap_nonvacuous :
  match htrees (h_run c02_ops h_empty_world) with
  | [h] => hreg h = reg c02_t /\ hidx h = idx c02_t /\ idx_get (DInt 30) (hidx h) = [4; 3] /\
           hdid h 4 = DInt 30 /\ hdid h 3 = DInt 30 /\ hdid h 5 = DInt 40 /\ abs_tstate h = Some c02_t
  | _ => False
  end.
Proof. vm_compute. repeat split. Qed.

(* ====================================================================================== *)
(* set_data / rename DO re-key (audit C02 F1: every exactness theorem above is relative to the node's CURRENT
   data_id; a set_data that silently did nothing would satisfy them all).  When the call succeeds and the new
   id x differs from the old one: the node - and, with with_clones=True, its whole clone group - carries x, is
   found under x, and is no longer found under the old id. *)
From NT Require Import PreserveRelabel RefusalMore.

Theorem C02_set_data_rekeys : forall w ti n d e wc r w', WFw w -> step w (OSetData ti n d e wc) = (Ok r, w') ->
  exists t s did', get_tree w ti = Some t /\ get_node n (forest_of t) = Some s /\
    sd_did' t (sd_new_data s d) e = Some did' /\
    forall x, sd_new_did s did' = Some x ->
      x <> rdid s /\
      exists t', get_tree w' ti = Some t' /\
        let cur := idx_get (rdid s) (idx t) in
        let group := if Nat.ltb 1 (length cur) && (match wc with Some true => true | _ => false end) then cur else [n] in
        In n group /\
        forall m, In m group ->
          did_of m (forest_of t') = Some x /\ In m (lk_find_all_did t' x) /\ ~ In m (lk_find_all_did t' (rdid s)).
Proof. exact set_data_rekeys. Qed.
Print Assumptions C02_set_data_rekeys.

(* the plain case spelled out: set_data(data_id=x) on a node whose id is not x *)
Theorem C02_set_data_id : forall w ti n x wc r w' t s, WFw w -> get_tree w ti = Some t -> get_node n (forest_of t) = Some s ->
  x <> rdid s -> step w (OSetData ti n None (Some x) wc) = (Ok r, w') ->
  exists t', get_tree w' ti = Some t' /\ did_of n (forest_of t') = Some x /\
             In n (lk_find_all_did t' x) /\ ~ In n (lk_find_all_did t' (rdid s)).
Proof.
  intros w ti n x wc r w' t s W Gt Gn Nx H. destruct (set_data_rekeys w ti n None (Some x) wc r w' W H) as (t0 & s0 & did' & Gt0 & Gn0 & Ed & K).
  assert (t0 = t) by congruence. subst t0. assert (s0 = s) by congruence. subst s0. cbn in Ed. injection Ed as <-.
  assert (Ex : sd_new_did s (Some x) = Some x).
  { unfold sd_new_did. destruct (did_eqb x (rdid s)) eqn:E; [apply did_eqb_eq in E; contradiction|reflexivity]. }
  destruct (K x Ex) as (_ & t' & Gt' & Gin & Hall). exists t'. split; [exact Gt'|]. exact (Hall n Gin).
Qed.
Print Assumptions C02_set_data_id.

Example C02_set_data_rekeys_nonvacuous :
  let w := run [ONewTree false None; OAdd 0 0 (c02_dd 10) None None BNone] empty_world in
  let w' := snd (step w (OSetData 0 1 None (Some (DInt 77)) None)) in
  fst (step w (OSetData 0 1 None (Some (DInt 77)) None)) = Ok [] /\
  lk_find_all_did (nth 0 (trees w') (TS [] [] [] false None)) (DInt 77) = [1] /\
  lk_find_all_did (nth 0 (trees w') (TS [] [] [] false None)) (DInt 10) = [].
Proof. vm_compute. repeat split. Qed.
