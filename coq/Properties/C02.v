(* C02 - lookups and clone queries reflect exactly the nodes currently in the tree.
   Statements only; proofs in theories/Mut/QueriesProofs.v (under [WF t]) and
   theories/Mut/Invariant.v ([WF] holds after every history).
   The functions are those of theories/Mut/Lookup.v (prefix lk_), which the correspondence
   runs against Tree.find_all / find_first / __getitem__ / __contains__ / count /
   count_unique and Node.get_clones / is_clone.
   [nodes_with f d] = the node identities of the forest whose CURRENT data_id is d;
   [did_of n f] = the current data_id of node n. *)
From Coq Require Import List ZArith Bool Arith Permutation.
From NT Require Import Sx Rose Surgery Machine WF Lookup QueriesProofs Invariant.
From NT Require MiscMapper MiscMapperProofs MiscRepr MiscWrap MiscWrapProofs.   (* part WRAP, imported at the end of this file *)
Import ListNotations.

(* ---- under WF ---- *)
Theorem C02_find_all_exact : forall t, WF t -> forall d,
  Permutation (lk_find_all_did t d) (nodes_with (forest_of t) d).
Proof. exact find_all_exact. Qed.
Print Assumptions C02_find_all_exact.

(* find_all(data_id=d, max_results=k) (k = 0: no limit) *)
Theorem C02_find_all_max : forall t d k, WF t ->
  incl (lk_find_all_did_max t d k) (nodes_with (forest_of t) d) /\
  NoDup (lk_find_all_did_max t d k) /\
  length (lk_find_all_did_max t d k) =
    (if Nat.eqb k 0 then length (nodes_with (forest_of t) d) else Nat.min k (length (nodes_with (forest_of t) d))).
Proof. exact find_all_max_exact. Qed.
Print Assumptions C02_find_all_max.

Theorem C02_find_all_live : forall t, WF t -> forall n d,
  In n (lk_find_all_did t d) <-> In n (ids (forest_of t)) /\ did_of n (forest_of t) = Some d.
Proof. exact find_all_live. Qed.
Print Assumptions C02_find_all_live.

Theorem C02_find_all_data : forall t, WF t -> forall dat e, calc_id (calc t) dat = Some e ->
  exists l, lk_find_all_data t dat = Some l /\ Permutation l (nodes_with (forest_of t) e).
Proof. exact find_all_data_exact. Qed.
Print Assumptions C02_find_all_data.

Theorem C02_find_first : forall t, WF t -> forall d,
  match lk_find_first_did t d with
  | Some n => In n (ids (forest_of t)) /\ did_of n (forest_of t) = Some d
  | None => forall n, In n (ids (forest_of t)) -> did_of n (forest_of t) <> Some d
  end.
Proof. exact find_first_exact. Qed.
Print Assumptions C02_find_first.

Theorem C02_find_by_node_id : forall t, WF t -> forall n, lk_find_nodeid t n = Some n <-> In n (ids (forest_of t)).
Proof. exact find_nodeid_exact. Qed.
Print Assumptions C02_find_by_node_id.

Theorem C02_contains_key : forall t, WF t -> forall e,
  lk_contains_key t (Some e) = Some true <-> exists n, In n (ids (forest_of t)) /\ did_of n (forest_of t) = Some e.
Proof. exact contains_key_exact. Qed.
Print Assumptions C02_contains_key.

Theorem C02_contains_data : forall t, WF t -> forall dat e, calc_id (calc t) dat = Some e ->
  (lk_contains_data t dat = Some true <-> exists n, In n (ids (forest_of t)) /\ did_of n (forest_of t) = Some e).
Proof. exact contains_data_exact. Qed.
Print Assumptions C02_contains_data.

Theorem C02_index_keys : forall t, WF t -> forall d,
  idx_has d (idx t) = true <-> exists n, In n (ids (forest_of t)) /\ did_of n (forest_of t) = Some d.
Proof. exact has_did_exact. Qed.
Print Assumptions C02_index_keys.

Theorem C02_getitem_sound : forall t, WF t -> forall k n, lk_getitem t k = Ok [n] -> In n (ids (forest_of t)).
Proof. exact getitem_sound. Qed.
Print Assumptions C02_getitem_sound.

Theorem C02_getitem_by_data_id : forall t, WF t -> forall e fb n, idx_has e (idx t) = true ->
  (lk_getitem t (LDid e fb) = Ok [n] <-> nodes_with (forest_of t) e = [n]).
Proof. exact getitem_did_exact. Qed.
Print Assumptions C02_getitem_by_data_id.

Theorem C02_getitem_unique_or_ambiguous : forall t e fb, WF t -> idx_has e (idx t) = true ->
  (exists n, lk_getitem t (LDid e fb) = Ok [n] /\ nodes_with (forest_of t) e = [n]) \/
  (lk_getitem t (LDid e fb) = Err EAmbiguous /\ 2 <= length (nodes_with (forest_of t) e)).
Proof. exact getitem_did_class. Qed.
Print Assumptions C02_getitem_unique_or_ambiguous.

(* get_clones = find_all(own data_id) without the node itself; is_clone = "more than one" *)
Theorem C02_get_clones_list : forall t n d, did_of n (forest_of t) = Some d ->
  lk_get_clones t n false = remove Nat.eq_dec n (lk_find_all_did t d) /\
  lk_get_clones t n true = lk_find_all_did t d /\
  lk_is_clone t n = Nat.ltb 1 (length (lk_find_all_did t d)).
Proof. exact get_clones_as_remove. Qed.
Print Assumptions C02_get_clones_list.

Theorem C02_get_clones : forall t, WF t -> forall n add_self c,
  In c (lk_get_clones t n add_self) <->
  In n (ids (forest_of t)) /\ In c (ids (forest_of t)) /\ did_of c (forest_of t) = did_of n (forest_of t) /\
  (add_self = true \/ c <> n).
Proof. exact get_clones_exact. Qed.
Print Assumptions C02_get_clones.

Theorem C02_get_clones_nodup : forall t, WF t -> forall n add_self, NoDup (lk_get_clones t n add_self).
Proof. exact get_clones_nodup. Qed.
Print Assumptions C02_get_clones_nodup.

Theorem C02_is_clone : forall t, WF t -> forall n, In n (ids (forest_of t)) ->
  (lk_is_clone t n = true <-> exists c, c <> n /\ In c (ids (forest_of t)) /\ did_of c (forest_of t) = did_of n (forest_of t)).
Proof. exact is_clone_exact. Qed.
Print Assumptions C02_is_clone.

Theorem C02_count : forall t, WF t -> lk_count t = length (ids (forest_of t)).
Proof. exact count_exact. Qed.
Print Assumptions C02_count.

Theorem C02_count_unique : forall t, WF t ->
  lk_count_unique t = length (nodup did_eq_dec (map rdid (pre_f (forest_of t)))).
Proof. exact count_unique_exact. Qed.
Print Assumptions C02_count_unique.

(* ---- data_id provenance: explicit, else the tree's callback, else hash(data) ---- *)
Theorem C02_did_of_new : forall t d explicit,
  lk_did_of_new t d explicit =
  match explicit with
  | Some e => Some e
  | None => match calc t with
            | None => Some (DInt (d_hash d))
            | Some tbl => match find (fun e => Z.eqb (fst e) (d_obj d)) tbl with Some e => snd e | None => None end
            end
  end.
Proof. exact did_of_new_spec. Qed.
Print Assumptions C02_did_of_new.

Theorem C02_added_node_has_that_id : forall w ti p d explicit k b n,
  WFw w -> fst (op_add w ti p d explicit k b) = Ok [n] ->
  exists t t' id, get_tree w ti = Some t /\ get_tree (snd (op_add w ti p d explicit k b)) ti = Some t' /\
                  lk_did_of_new t d explicit = Some id /\ did_of n (forest_of t') = Some id /\ n = next w.
Proof. exact add_did_provenance. Qed.
Print Assumptions C02_added_node_has_that_id.

(* ---- after every history (C01): the statements above hold for every tree of every
   reachable world, whatever mix of add / copy / move / remove / sort / filter /
   set_data (single nodes, whole clone groups, merging or splitting groups) ran before ---- *)
Lemma wf_after_history : forall ops w t, WFw w -> In t (trees (run ops w)) -> WF t.
Proof. intros ops w t H Ht. assert (X := WFw_run ops w H). destruct X as [X _ _ _]. rewrite Forall_forall in X. now apply X. Qed.

Theorem C02_after_history : forall ops w t, WFw w -> In t (trees (run ops w)) -> WF t.
Proof. exact wf_after_history. Qed.
Print Assumptions C02_after_history.

Theorem C02_find_all_after_history : forall ops t d, In t (trees (run ops empty_world)) ->
  Permutation (lk_find_all_did t d) (nodes_with (forest_of t) d).
Proof. intros ops t d Ht. apply find_all_exact. exact (wf_after_history ops empty_world t WFw_empty Ht). Qed.
Print Assumptions C02_find_all_after_history.

Theorem C02_clones_after_history : forall ops t n add_self c, In t (trees (run ops empty_world)) ->
  (In c (lk_get_clones t n add_self) <->
   In n (ids (forest_of t)) /\ In c (ids (forest_of t)) /\ did_of c (forest_of t) = did_of n (forest_of t) /\
   (add_self = true \/ c <> n)).
Proof. intros ops t n a c Ht. apply get_clones_exact. exact (wf_after_history ops empty_world t WFw_empty Ht). Qed.
Print Assumptions C02_clones_after_history.

(* set_data explicitly: one step of set_data (with or without clones) from a well-formed world *)
Theorem C02_after_set_data : forall w ti n d explicit wcl t d0, WFw w ->
  In t (trees (snd (op_set_data w ti n d explicit wcl))) ->
  Permutation (lk_find_all_did t d0) (nodes_with (forest_of t) d0).
Proof.
  intros w ti n d e wcl t d0 H Ht. apply find_all_exact.
  exact (wf_after_history [OSetData ti n d e wcl] w t H Ht).
Qed.
Print Assumptions C02_after_set_data.

(* ---- non-vacuity: groups merged and split by set_data ---- *)
Definition c02_dd (z : Z) : dat := D z z z false [z].
Definition c02_ops : list op :=
  [ONewTree false None;
   OAdd 0 0 (c02_dd 10) None None BNone;     (* 1: did 10 *)
   OAdd 0 1 (c02_dd 20) None None BNone;     (* 2: did 20 *)
   OAdd 0 0 (c02_dd 20) None None BNone;     (* 3: did 20, clone of 2 *)
   OAdd 0 3 (c02_dd 30) None None BNone;     (* 4: did 30 *)
   OAdd 0 4 (c02_dd 30) None None BNone;     (* 5: did 30, clone of 4 (and its child) *)
   OSetData 0 2 (Some (c02_dd 30)) None (Some true);   (* the group {2,3} is merged into {4,5} *)
   OSetData 0 5 (Some (c02_dd 40)) None (Some false);  (* 5 leaves the group *)
   ORemove 0 2 false false].
Definition c02_t : tstate := nth 0 (trees (run c02_ops empty_world)) (TS [] [] [] false None).
Example C02_nonvacuous :
  wf_b c02_t = true /\
  lk_find_all_did c02_t (DInt 30) = [4; 3] /\ lk_find_all_did c02_t (DInt 20) = [] /\
  lk_find_all_did c02_t (DInt 40) = [5] /\ lk_get_clones c02_t 3 false = [4] /\ lk_is_clone c02_t 5 = false /\
  lk_count c02_t = 4 /\ lk_count_unique c02_t = 3.
Proof. vm_compute. repeat split. Qed.

(* ====================================================================================== *)
(* The same exactness, stated over the dictionaries and pointers of the heap model
   (theories/Mut/Heap.v: _node_by_id = hreg, _nodes_by_data_id = hidx, the objects' _children /
   data_id), through the refinement proved for every operation (C01_heap_refinement). *)
From NT Require Import Heap HeapProofs HeapRefine HeapFull HeapRefusal.

(* _node_by_id holds exactly the nodes reachable from the root through the _children pointers, each once *)
Theorem C02_heap_registry_exact : forall h t, WF t -> Rep h t ->
  exists f, abs_forest h = Some f /\ NoDup (hreg h) /\
    (forall n, In n (hreg h) <-> In n (ids f)) /\ length (hreg h) = length (ids f).
Proof. exact heap_registry_exact. Qed.
Print Assumptions C02_heap_registry_exact.

(* find_all(data_id=d) read from the heap's index: exactly the registered nodes whose object carries d *)
Theorem C02_heap_index_exact : forall h t, WF t -> Rep h t -> forall d n,
  In n (idx_get d (hidx h)) <-> In n (hreg h) /\ hdid h n = d.
Proof. exact heap_index_exact. Qed.
Print Assumptions C02_heap_index_exact.

Theorem C02_heap_index_shape : forall h t, WF t -> Rep h t ->
  NoDup (map fst (hidx h)) /\ Forall (fun e => snd e <> []) (hidx h) /\
  forall d, idx_has d (hidx h) = true <-> exists n, In n (hreg h) /\ hdid h n = d.
Proof. exact heap_index_shape. Qed.
Print Assumptions C02_heap_index_shape.

(* every heap ANY history of operations produces: its dictionaries are those of a well-formed machine
   state (so every lk_* above reads the heap's own dictionaries), and they are exact for the pointers *)
Theorem C02_heap_after_history : forall ops h, In h (htrees (h_run ops h_empty_world)) ->
  exists t, abs_tstate h = Some t /\ WF t /\ hreg h = reg t /\ hidx h = idx t /\ hcalc h = calc t /\ htyped h = typed t /\
    (forall d n, In n (idx_get d (hidx h)) <-> In n (hreg h) /\ hdid h n = d) /\
    (forall n, In n (hreg h) <-> In n (ids (forest_of t))) /\ NoDup (hreg h).
Proof. exact heap_lookups_reachable. Qed.
Print Assumptions C02_heap_after_history.

Example C02_heap_nonvacuous :
  match htrees (h_run c02_ops h_empty_world) with
  | [h] => hreg h = reg c02_t /\ hidx h = idx c02_t /\ idx_get (DInt 30) (hidx h) = [4; 3] /\
           hdid h 4 = DInt 30 /\ hdid h 3 = DInt 30 /\ hdid h 5 = DInt 40 /\ abs_tstate h = Some c02_t
  | _ => False
  end.
Proof. vm_compute. repeat split. Qed.

(* ====================================================================================== *)
(* set_data / rename DO re-key (audit C02 F1: every exactness theorem above is relative to the node's CURRENT
   data_id; a set_data that silently did nothing would satisfy them all).  When the call succeeds and the new
   id x differs from the old one: the node - and, with with_clones=True, its whole clone group - carries x, is
   found under x, and is no longer found under the old id. *)
From NT Require Import PreserveRelabel RefusalMore.

Theorem C02_set_data_rekeys : forall w ti n d e wc r w', WFw w -> step w (OSetData ti n d e wc) = (Ok r, w') ->
  exists t s did', get_tree w ti = Some t /\ get_node n (forest_of t) = Some s /\
    sd_did' t (sd_new_data s d) e = Some did' /\
    forall x, sd_new_did s did' = Some x ->
      x <> rdid s /\
      exists t', get_tree w' ti = Some t' /\
        let cur := idx_get (rdid s) (idx t) in
        let group := if Nat.ltb 1 (length cur) && (match wc with Some true => true | _ => false end) then cur else [n] in
        In n group /\
        forall m, In m group ->
          did_of m (forest_of t') = Some x /\ In m (lk_find_all_did t' x) /\ ~ In m (lk_find_all_did t' (rdid s)).
Proof. exact set_data_rekeys. Qed.
Print Assumptions C02_set_data_rekeys.

(* the plain case spelled out: set_data(data_id=x) on a node whose id is not x *)
Theorem C02_set_data_id : forall w ti n x wc r w' t s, WFw w -> get_tree w ti = Some t -> get_node n (forest_of t) = Some s ->
  x <> rdid s -> step w (OSetData ti n None (Some x) wc) = (Ok r, w') ->
  exists t', get_tree w' ti = Some t' /\ did_of n (forest_of t') = Some x /\
             In n (lk_find_all_did t' x) /\ ~ In n (lk_find_all_did t' (rdid s)).
Proof.
  intros w ti n x wc r w' t s W Gt Gn Nx H. destruct (set_data_rekeys w ti n None (Some x) wc r w' W H) as (t0 & s0 & did' & Gt0 & Gn0 & Ed & K).
  assert (t0 = t) by congruence. subst t0. assert (s0 = s) by congruence. subst s0. cbn in Ed. injection Ed as <-.
  assert (Ex : sd_new_did s (Some x) = Some x).
  { unfold sd_new_did. destruct (did_eqb x (rdid s)) eqn:E; [apply did_eqb_eq in E; contradiction|reflexivity]. }
  destruct (K x Ex) as (_ & t' & Gt' & Gin & Hall). exists t'. split; [exact Gt'|]. exact (Hall n Gin).
Qed.
Print Assumptions C02_set_data_id.

Example C02_set_data_rekeys_nonvacuous :
  let w := run [ONewTree false None; OAdd 0 0 (c02_dd 10) None None BNone] empty_world in
  let w' := snd (step w (OSetData 0 1 None (Some (DInt 77)) None)) in
  fst (step w (OSetData 0 1 None (Some (DInt 77)) None)) = Ok [] /\
  lk_find_all_did (nth 0 (trees w') (TS [] [] [] false None)) (DInt 77) = [1] /\
  lk_find_all_did (nth 0 (trees w') (TS [] [] [] false None)) (DInt 10) = [].
Proof. vm_compute. repeat split. Qed.

(* ==== PART WRAP: common.DictWrapper, the data flavour whose lookups go by the IDENTITY of a wrapped dict (model
   theories/Forest/MiscWrap.v, correspondence Cases/CaseMiscWrap.v, harness parts_misc.WRAP).  A [world] is the list of
   dict objects (index = identity, value = content) and the list of wrappers (value = identity of the dict in `_dict`);
   [addr di] is the id() of dict object di (an input; [addr_inj]: objects alive together have different ids). ==== *)
Import MiscMapper MiscMapperProofs MiscRepr MiscWrap MiscWrapProofs.

(* two wrappers are equal iff they wrap the same dict OBJECT; == is an equivalence and never looks at the content *)
Theorem C02_wrap_eq_iff_same_dict : forall w i j, w_eq w i j = true <-> dict_of w i = dict_of w j.
Proof. exact w_eq_iff. Qed.
Print Assumptions C02_wrap_eq_iff_same_dict.

Theorem C02_wrap_eq_equivalence : forall w,
  (forall i, w_eq w i i = true) /\ (forall i j, w_eq w i j = w_eq w j i) /\
  (forall i j k, w_eq w i j = true -> w_eq w j k = true -> w_eq w i k = true).
Proof. intros w. exact (conj (w_eq_refl w) (conj (w_eq_sym w) (w_eq_trans w))). Qed.
Print Assumptions C02_wrap_eq_equivalence.

Theorem C02_wrap_eq_content_blind : forall ds ds' ws i j, w_eq (W ds ws) i j = w_eq (W ds' ws) i j.
Proof. exact w_eq_content_blind. Qed.
Print Assumptions C02_wrap_eq_content_blind.

(* consistent with hash: equal wrappers hash alike; with distinct ids for distinct objects, hash decides equality *)
Theorem C02_wrap_eq_hash : forall addr w i j, w_eq w i j = true -> w_hash addr w i = w_hash addr w j.
Proof. exact w_eq_hash. Qed.
Print Assumptions C02_wrap_eq_hash.

Theorem C02_wrap_hash_decides_eq : forall addr w i j, addr_inj addr -> (w_hash addr w i = w_hash addr w j <-> w_eq w i j = true).
Proof. exact w_hash_eq. Qed.
Print Assumptions C02_wrap_hash_decides_eq.

(* DictWrapper(d_i), DictWrapper(d_j): equal iff i = j – whatever the two dicts contain (equal contents included) *)
Theorem C02_wrap_distinct_dicts_unequal : forall addr w di dj,
  w_eq (fst (step addr (fst (step addr w (OWrap (CDict di) []))) (OWrap (CDict dj) []))) (length (w_wraps w)) (S (length (w_wraps w)))
  = Nat.eqb di dj.
Proof. exact wrap_two. Qed.
Print Assumptions C02_wrap_distinct_dicts_unequal.

(* the constructor: a dict passed positionally is held by reference (an EMPTY one too); keywords make a new dict;
   dict + keywords is a ValueError, a non-dict a TypeError, both without any effect *)
Theorem C02_wrap_ctor_by_reference : forall addr w di,
  step addr w (OWrap (CDict di) []) = (W (w_dicts w) (w_wraps w ++ [di]), RWrap (length (w_wraps w))) /\
  dict_of (fst (step addr w (OWrap (CDict di) []))) (length (w_wraps w)) = di.
Proof. exact wrap_dict_by_reference. Qed.
Print Assumptions C02_wrap_ctor_by_reference.

Theorem C02_wrap_ctor_keywords : forall addr w kv,
  dict_of (fst (step addr w (OWrap CNone kv))) (length (w_wraps w)) = length (w_dicts w) /\
  content_of (fst (step addr w (OWrap CNone kv))) (length (w_wraps w)) = kv.
Proof. exact wrap_keywords_new_dict. Qed.
Print Assumptions C02_wrap_ctor_keywords.

Theorem C02_wrap_ctor_refusals : forall addr w di k v kv a,
  step addr w (OWrap (CDict di) ((k, v) :: kv)) = (w, RErr E_VALUE) /\ step addr w (OWrap COther a) = (w, RErr E_TYPE).
Proof. exact wrap_refusals. Qed.
Print Assumptions C02_wrap_ctor_refusals.

(* a wrapper made from keywords or by deserialize_mapper equals no wrapper that existed before *)
Theorem C02_wrap_fresh_unequal : forall addr w o wi,
  wf w -> (exists kv, o = OWrap CNone kv) \/ (exists di, o = ODeser di) -> wi < length (w_wraps w) ->
  w_eq (fst (step addr w o)) wi (length (w_wraps w)) = false.
Proof. exact fresh_wrapper_unequal. Qed.
Print Assumptions C02_wrap_fresh_unequal.

(* item writes go through to the wrapped dict and are visible through EVERY wrapper of it; nothing else changes *)
Theorem C02_wrap_write_through : forall addr w wi k v wj,
  dict_of w wi < length (w_dicts w) -> w_eq w wi wj = true ->
  step addr (fst (step addr w (OSet wi k v))) (OGet wj k) = (fst (step addr w (OSet wi k v)), RGot v) /\
  d_get (dict_at (fst (step addr w (OSet wi k v))) (dict_of w wi)) k = Some v.
Proof. exact set_visible. Qed.
Print Assumptions C02_wrap_write_through.

Theorem C02_wrap_write_frame : forall addr w wi k v,
  (forall k', dict_of w wi < length (w_dicts w) -> k' <> k ->
     d_get (dict_at (fst (step addr w (OSet wi k v))) (dict_of w wi)) k' = d_get (dict_at w (dict_of w wi)) k') /\
  (forall dj, dj <> dict_of w wi -> dict_at (fst (step addr w (OSet wi k v))) dj = dict_at w dj) /\
  (forall wj, w_eq w wi wj = false -> content_of (fst (step addr w (OSet wi k v))) wj = content_of w wj).
Proof.
  intros addr w wi k v.
  exact (conj (set_frame_key addr w wi k v) (conj (set_frame_dict addr w wi k v) (set_frame_wrapper addr w wi k v))).
Qed.
Print Assumptions C02_wrap_write_frame.

Theorem C02_wrap_direct_write_visible : forall addr w di k v wj, di < length (w_dicts w) -> dict_of w wj = di ->
  step addr (fst (step addr w (OSetDirect di k v))) (OGet wj k) = (fst (step addr w (OSetDirect di k v)), RGot v).
Proof. exact direct_write_visible. Qed.
Print Assumptions C02_wrap_direct_write_visible.

(* the mapper pair is inverse on the dict content: serialize_mapper hands out a NEW dict with the wrapped content,
   deserialize_mapper of it a NEW wrapper around a third dict with that content, unequal to the original, which is untouched *)
Theorem C02_wrap_mapper_pair_inverse : forall addr w wi,
  wf w -> wi < length (w_wraps w) ->
  let w1 := fst (step addr w (OSer wi)) in
  let w2 := fst (step addr w1 (ODeser (length (w_dicts w)))) in
  snd (step addr w (OSer wi)) = RDict (length (w_dicts w)) /\
  dict_at w1 (length (w_dicts w)) = content_of w wi /\
  content_of w2 (length (w_wraps w)) = content_of w wi /\
  dict_of w2 (length (w_wraps w)) = S (length (w_dicts w)) /\
  w_eq w2 wi (length (w_wraps w)) = false /\
  content_of w2 wi = content_of w wi.
Proof. exact mapper_roundtrip. Qed.
Print Assumptions C02_wrap_mapper_pair_inverse.

(* the data_id of a node holding a wrapper is the identity of the wrapped dict; two such nodes are clones iff their
   wrappers wrap the same dict, i.e. iff the wrappers are equal *)
Theorem C02_wrap_data_id : forall addr w wi, node_data_id addr w wi = addr (dict_of w wi).
Proof. exact data_id_is_dict_identity. Qed.
Print Assumptions C02_wrap_data_id.

Theorem C02_wrap_clones_iff_same_dict : forall addr w wi wj, addr_inj addr ->
  (In wj (clones_of addr w wi) <-> wj < length (w_wraps w) /\ dict_of w wj = dict_of w wi).
Proof. exact clones_iff_same_dict. Qed.
Print Assumptions C02_wrap_clones_iff_same_dict.

(* every script whose indices exist keeps "each wrapper holds an allocated dict" *)
Theorem C02_wrap_reachable_wf : forall addr ops, ops_ok addr empty_world ops -> wf (fst (run addr empty_world ops)).
Proof. intros addr ops. apply run_wf. exact wf_empty. Qed.
Print Assumptions C02_wrap_reachable_wf.

(* non-vacuity: equal-content dicts 0 and 1; wrappers 0,2 of dict 0 and 1 of dict 1: unequal / equal, the write through
   wrapper 2 is read through wrapper 0 and not through 1, the round trip gives an unequal wrapper with the same content,
   hashes are the dicts' ids, repr of the empty-dict wrapper after the write, clone group {0, 2} *)
Example C02_wrap_ex :
  snd (run ex_addr empty_world ex_script) =
  [RDict 0; RDict 1; RWrap 0; RWrap 1; RWrap 2; RBool false; RBool true; RUnit; RGot (PInt 5); RErr E_KEY; RDict 2; RWrap 3;
   RBool false; RGot (PInt 5); RInt 1000; RInt 1000; RInt 1008; RDict 4; RWrap 4; RUnit;
   RText [68; 105; 99; 116; 87; 114; 97; 112; 112; 101; 114; 60; 123; 39; 107; 39; 58; 32; 40; 41; 125; 62]%Z;
   RText [68; 105; 99; 116; 87; 114; 97; 112; 112; 101; 114; 60; 123; 39; 97; 39; 58; 32; 49; 44; 32; 39; 98; 39; 58; 32; 53; 125; 62]%Z] /\
  w_dicts (fst (run ex_addr empty_world ex_script)) =
  [[([97%Z], PInt 1); ([98%Z], PInt 5)]; [([97%Z], PInt 1)]; [([97%Z], PInt 1); ([98%Z], PInt 5)]; [([97%Z], PInt 1); ([98%Z], PInt 5)]; [([107%Z], PTuple [])]] /\
  clones_of ex_addr (fst (run ex_addr empty_world ex_script)) 0 = [0; 2].
Proof. exact ex_wrap_run. Qed.

Example C02_wrap_ex_addr_inj : addr_inj ex_addr.
Proof. exact ex_addr_inj. Qed.

(* ====================================================================================== *)
(* Audit C02 (low): the after-history statements are over [run]; the correspondence ([CaseC02.run02]) runs the guarded
   [CaseMut.run_chk], and load histories run [MachineLoad.run_x].  The same statements for those two. *)
From NT Require Import CaseMut CaseMutFacts MachineLoad MachineLoadProofs.

Theorem C02_after_history_chk : forall ops t, In t (trees (run_chk ops empty_world)) -> WF t.
Proof.
  intros ops t Ht. destruct (run_chk_reachable ops empty_world) as (ops' & _ & E). rewrite E in Ht.
  exact (wf_after_history ops' empty_world t WFw_empty Ht).
Qed.
Print Assumptions C02_after_history_chk.

Theorem C02_find_all_after_history_chk : forall ops t d, In t (trees (run_chk ops empty_world)) ->
  Permutation (lk_find_all_did t d) (nodes_with (forest_of t) d).
Proof. intros ops t d Ht. apply find_all_exact. now apply (C02_after_history_chk ops). Qed.
Print Assumptions C02_find_all_after_history_chk.

Theorem C02_after_load_history : forall ops t, In t (trees (run_x ops empty_world)) -> WF t.
Proof.
  intros ops t Ht. assert (X := WFw_run_x ops empty_world WFw_empty). destruct X as [X _ _ _].
  rewrite Forall_forall in X. now apply X.
Qed.
Print Assumptions C02_after_load_history.

Theorem C02_find_all_after_load_history : forall ops t d, In t (trees (run_x ops empty_world)) ->
  Permutation (lk_find_all_did t d) (nodes_with (forest_of t) d).
Proof. intros ops t d Ht. apply find_all_exact. now apply (C02_after_load_history ops). Qed.
Print Assumptions C02_find_all_after_load_history.

(* ====================================================================================== *)
(* Audit C02 (low findings 4, 5; medium finding 3): tree[key] is EXACT on every route, not only for a present int/str
   data_id ([C02_getitem_sound] alone is satisfied by Err EKey and by "any live node").
   Resolution of the key (Tree.__getitem__): a live node_id -> that node; else a present int/str key -> the key itself as
   data_id; else calc_data_id(key) (for a data object: through the tree's callback; for a foreign int/str: the harness
   supplied value [fb]).  Once the key is resolved to the data_id e, the outcome is determined by the carriers of e. *)
Theorem C02_getitem_by_node_id : forall t, WF t -> forall n fb, In n (ids (forest_of t)) -> lk_getitem t (Lookup.LNid n fb) = Ok [n].
Proof.
  intros t H n fb Hn. unfold lk_getitem. cbn [lk_candidates]. apply (C02_find_by_node_id t H n) in Hn. now rewrite Hn.
Qed.
Print Assumptions C02_getitem_by_node_id.

Theorem C02_getitem_resolution : forall t, WF t -> forall k,
  match k with
  | Lookup.LNid n fb => ~ In n (ids (forest_of t)) -> lk_candidates t k = option_map (lk_find_all_did t) fb
  | Lookup.LDid e fb => lk_candidates t k = if idx_has e (idx t) then Some (lk_find_all_did t e) else option_map (lk_find_all_did t) fb
  | Lookup.LData d a => lk_candidates t k =
                 match a with
                 | Some e => if idx_has e (idx t) then Some (lk_find_all_did t e) else option_map (lk_find_all_did t) (calc_id (calc t) d)
                 | None => option_map (lk_find_all_did t) (calc_id (calc t) d)
                 end
  end.
Proof.
  intros t H [n fb|e fb|d a]; cbn [lk_candidates]; try reflexivity. intros Hn.
  destruct (lk_find_nodeid t n) as [r|] eqn:F; [|reflexivity]. exfalso. apply Hn. apply (C02_find_by_node_id t H n).
  unfold lk_find_nodeid in *. destruct (existsb (Nat.eqb n) (reg t)); [reflexivity|discriminate].
Qed.
Print Assumptions C02_getitem_resolution.

Theorem C02_getitem_classified : forall t, WF t -> forall k e, lk_candidates t k = Some (lk_find_all_did t e) ->
  (forall m, lk_getitem t k = Ok [m] <-> nodes_with (forest_of t) e = [m]) /\
  (lk_getitem t k = Err EKey <-> nodes_with (forest_of t) e = []) /\
  (lk_getitem t k = Err EAmbiguous <-> 2 <= length (nodes_with (forest_of t) e)).
Proof.
  intros t H k e E. unfold lk_getitem. rewrite E. assert (P := C02_find_all_exact t H e).
  destruct (lk_find_all_did t e) as [|a [|b l]].
  - apply Permutation_nil in P. rewrite P. repeat split; try discriminate; auto. cbn. intros X. inversion X.
  - apply Permutation_length_1_inv in P. rewrite P. repeat split; try discriminate.
    + now intros [= ->]. + now intros [= ->]. + cbn. intros X. inversion X as [|? X']. inversion X'.
  - assert (L := Permutation_length P). cbn [length] in L. repeat split; try discriminate.
    + intros X. rewrite X in L. discriminate L. + intros X. rewrite X in L. discriminate L. + intros _. rewrite <- L. apply le_n_S, le_n_S, Nat.le_0_l.
Qed.
Print Assumptions C02_getitem_classified.

(* find_first(data), which the correspondence probes ([lk_find_first_data]) *)
Theorem C02_find_first_data : forall t, WF t -> forall dat e, calc_id (calc t) dat = Some e ->
  match lk_find_first_data t dat with
  | Some (Some n) => In n (ids (forest_of t)) /\ did_of n (forest_of t) = Some e
  | Some None => forall n, In n (ids (forest_of t)) -> did_of n (forest_of t) <> Some e
  | None => False
  end.
Proof. intros t H dat e C. unfold lk_find_first_data. rewrite C. cbn. apply (C02_find_first t H e). Qed.
Print Assumptions C02_find_first_data.

(* by node_id with EXPLICIT node ids (the registry as a key -> node map; Mut/MachineNodeId.v, see Properties/C01.v) *)
From NT Require Import MachineNodeId.
Theorem C02_find_by_key_exact : forall wk t key n, WFk wk -> In t (trees (kbase wk)) ->
  (lk_key (kkeys wk) t key = Some n <-> In n (ids (forest_of t)) /\ nkey_of (kkeys wk) n = key).
Proof. exact lk_key_exact. Qed.
Print Assumptions C02_find_by_key_exact.
