(* C01 - the node graph stays a well-formed tree after any mutation history.
   Statements only; proofs are in theories/Mut/{SurgeryFacts,MachineFacts,PreserveSteps,
   PreserveOps,PreserveSort,PreserveCopy,PreserveMore,Invariant}.v.

   [WFw w] (theories/Mut/WF.v): every tree state of the world satisfies [WF]
   (node identities unique, 0 never used, the registry is a permutation of the
   nodes of the forest, the clone index has one non-empty group per data_id and
   lists exactly the nodes by their CURRENT data_id, no two siblings - top level
   included - with the same data_id), no node occurs in two trees, and the
   allocator is ahead of every node.  Parent pointers are derived from the
   forest in the model ("exactly one parent, once in its child list, never its
   own ancestor" hold by construction); the correspondence compares them with
   the implementation's [_parent]/[_children]/[_tree] after every step. *)
From Coq Require Import List ZArith Bool Arith Permutation.
From NT Require Import Sx Rose Surgery Machine WF PreserveSteps PreserveOps PreserveSort PreserveCopy PreserveMore PreserveRelabel PreserveKeepClones Invariant CaseMut CaseWF.
From NT Require MiscMapper MiscRepr MiscRemoved MiscRemovedProofs.   (* part REMOVED, imported at the end of this file *)
From NT Require MiscSelfCheck MiscSelfCheckProofs.   (* part SELFCHECK, imported at the end of this file *)
From NTGen Require Generated.
Import ListNotations.

(* ---- the checker used by the correspondence decides WF ---- *)
Theorem C01_checker_sound : forall w, wf_world_b w = true <-> WFw w.
Proof. exact wf_world_b_WFw. Qed.
Print Assumptions C01_checker_sound.

(* WF is exactly the DESIGN.md 3.2 formulation (plus: 0 denotes the root and is not a node) *)
Theorem C01_wf_spelled : forall t, WF t ->
  NoDup (ids (forest_of t))
  /\ NoDup (reg t) /\ Permutation (reg t) (ids (forest_of t))
  /\ NoDup (map fst (idx t))
  /\ Forall (fun e => snd e <> [] /\ NoDup (snd e)) (idx t)
  /\ (forall n d, In n (idx_get d (idx t)) <-> In (n, d) (keys (forest_of t)))
  /\ sib_unique (forest_of t).
Proof. exact WF_spelled. Qed.
Print Assumptions C01_wf_spelled.

Theorem C01_wf_of_spelled : forall t,
  NoDup (ids (forest_of t)) -> ~ In 0 (ids (forest_of t)) ->
  Permutation (reg t) (ids (forest_of t)) ->
  NoDup (map fst (idx t)) ->
  Forall (fun e => snd e <> [] /\ NoDup (snd e)) (idx t) ->
  (forall n d, In n (idx_get d (idx t)) <-> In (n, d) (keys (forest_of t))) ->
  sib_unique (forest_of t) ->
  WF t.
Proof. exact WF_of_spelled. Qed.
Print Assumptions C01_wf_of_spelled.

Theorem C01_empty_world : WFw empty_world.
Proof. exact WFw_empty. Qed.
Print Assumptions C01_empty_world.

(* ---- one theorem per operation, for ALL arguments, error exits included ---- *)
Theorem C01_step_add : forall w ti p d explicit k b, WFw w -> WFw (snd (op_add w ti p d explicit k b)).
Proof. exact WFw_op_add. Qed.
Print Assumptions C01_step_add.

Theorem C01_step_shortcut : forall w ti n how d explicit k, WFw w -> WFw (snd (op_shortcut w ti n how d explicit k)).
Proof. exact WFw_op_shortcut. Qed.
Print Assumptions C01_step_shortcut.

Theorem C01_step_remove : forall w ti n keep wc, WFw w -> WFw (snd (op_remove w ti n keep wc)).
Proof. exact WFw_op_remove_full. Qed.
Print Assumptions C01_step_remove.

Theorem C01_step_remove_children : forall w ti n, WFw w -> WFw (snd (op_remove_children w ti n)).
Proof. exact WFw_op_remove_children. Qed.
Print Assumptions C01_step_remove_children.

Theorem C01_step_move : forall w ti n tti target b, WFw w -> WFw (snd (op_move w ti n tti target b)).
Proof. exact WFw_op_move. Qed.
Print Assumptions C01_step_move.

Theorem C01_step_sort : forall w ti p k rev deep, WFw w -> WFw (snd (op_sort w ti p k rev deep)).
Proof. exact WFw_op_sort. Qed.
Print Assumptions C01_step_sort.

Theorem C01_step_meta : forall w ti n o, WFw w -> WFw (snd (op_meta w ti n o)).
Proof. exact WFw_op_meta. Qed.
Print Assumptions C01_step_meta.

Theorem C01_step_set_data : forall w ti n d explicit wcl, WFw w -> WFw (snd (op_set_data w ti n d explicit wcl)).
Proof. exact WFw_op_set_data. Qed.
Print Assumptions C01_step_set_data.

Theorem C01_step_rename : forall w ti n d, WFw w -> WFw (snd (op_rename w ti n d)).
Proof. exact WFw_op_rename. Qed.
Print Assumptions C01_step_rename.

Theorem C01_step_add_node : forall w ti p sti src explicit k b deep,
  WFw w -> WFw (snd (op_add_node w ti p sti src explicit k b deep)).
Proof. exact WFw_op_add_node. Qed.
Print Assumptions C01_step_add_node.

Theorem C01_step_add_tree : forall w ti p sti b deep, WFw w -> WFw (snd (op_add_tree w ti p sti b deep)).
Proof. exact WFw_op_add_tree. Qed.
Print Assumptions C01_step_add_tree.

Theorem C01_step_copy_to : forall w sti src ti target add_self b deep,
  WFw w -> WFw (snd (op_copy_to w sti src ti target add_self b deep)).
Proof. exact WFw_op_copy_to. Qed.
Print Assumptions C01_step_copy_to.

Theorem C01_step_tree_copy : forall w sti, WFw w -> WFw (snd (op_tree_copy w sti)).
Proof. exact WFw_op_tree_copy. Qed.
Print Assumptions C01_step_tree_copy.

Theorem C01_step_node_copy : forall w sti src add_self, WFw w -> WFw (snd (op_node_copy w sti src add_self)).
Proof. exact WFw_op_node_copy. Qed.
Print Assumptions C01_step_node_copy.

Theorem C01_step_clear : forall w ti, WFw w -> WFw (snd (op_clear w ti)).
Proof. exact WFw_op_clear. Qed.
Print Assumptions C01_step_clear.

Theorem C01_step_del : forall w ti k, WFw w -> WFw (snd (op_del w ti k)).
Proof. exact WFw_op_del. Qed.
Print Assumptions C01_step_del.

Theorem C01_step_filter : forall w ti n vd, WFw w -> WFw (snd (op_filter w ti n vd)).
Proof. exact WFw_op_filter. Qed.
Print Assumptions C01_step_filter.

Theorem C01_step_from_dict : forall w ti p items, WFw w -> WFw (snd (op_from_dict w ti p items)).
Proof. exact WFw_op_from_dict. Qed.
Print Assumptions C01_step_from_dict.

Theorem C01_step_tree_from_dict : forall w items, WFw w -> WFw (snd (op_tree_from_dict w items)).
Proof. exact WFw_op_tree_from_dict. Qed.
Print Assumptions C01_step_tree_from_dict.

(* ---- every step, every history ---- *)
Theorem C01_step : forall w o, WFw w -> WFw (snd (step w o)).
Proof. exact WFw_step. Qed.
Print Assumptions C01_step.

Theorem C01_history : forall ops w, WFw w -> WFw (run ops w).
Proof. exact WFw_run. Qed.
Print Assumptions C01_history.

(* in particular every world reachable from the empty world *)
Theorem C01_reachable : forall ops, WFw (run ops empty_world).
Proof. intros ops. apply WFw_run. exact WFw_empty. Qed.
Print Assumptions C01_reachable.

(* a refused operation (whatever partial effect it keeps) leaves a well-formed world *)
Theorem C01_refused_keeps_wf : forall w o e, WFw w -> fst (step w o) = Err e -> WFw (snd (step w o)).
Proof. intros w o e H _. now apply WFw_step. Qed.
Print Assumptions C01_refused_keeps_wf.

(* the form the correspondence evaluates: along every case of CaseMut.v (guarded steps), the
   checker answers true on every model state *)
Theorem C01_model_flags_true : forall c : mcase, forallb (fun b => b) (wf_flags c) = true.
Proof. exact wf_flags_true. Qed.
Print Assumptions C01_model_flags_true.

(* a step only ever adds freshly allocated identities ([Fr]); identities are never reused *)
Theorem C01_step_frame : forall w o, WFw w ->
  next w <= next (snd (step w o)) /\
  forall m, In m (all_ids (snd (step w o))) -> In m (all_ids w) \/ next w <= m.
Proof. intros w o H. exact (proj2 (WFx_step w o H)). Qed.
Print Assumptions C01_step_frame.

Theorem C01_never_comes_back : forall ops w m, WFw w -> m < next w -> ~ In m (all_ids w) -> ~ In m (all_ids (run ops w)).
Proof. exact never_comes_back. Qed.
Print Assumptions C01_never_comes_back.

(* ---- corollaries spelled out ---- *)
(* the tree's node count (= len(_node_by_id)) is the number of reachable nodes *)
Theorem C01_count : forall t, WF t ->
  length (reg t) = length (ids (forest_of t)) /\ length (ids (forest_of t)) = size_f (forest_of t).
Proof. exact WF_count. Qed.
Print Assumptions C01_count.

Theorem C01_node_ids_unique : forall w, WFw w -> NoDup (all_ids w).
Proof. exact ww_disj. Qed.
Print Assumptions C01_node_ids_unique.

Theorem C01_removed_gone : forall w ti n t s,
  WFw w -> get_tree w ti = Some t -> get_node n (forest_of t) = Some s ->
  exists t', get_tree (snd (op_remove w ti n false false)) ti = Some t' /\ fst (op_remove w ti n false false) = Ok [] /\
    forall m, In m (ids_t s) -> ~ In m (ids (forest_of t')) /\ ~ In m (reg t').
Proof. exact removed_branch_gone. Qed.
Print Assumptions C01_removed_gone.

(* ... and stays out in every continuation of the history *)
Theorem C01_removed_never_returns : forall w ti n t s ops,
  WFw w -> get_tree w ti = Some t -> get_node n (forest_of t) = Some s ->
  forall m, In m (ids_t s) -> ~ In m (all_ids (run ops (snd (op_remove w ti n false false)))).
Proof. exact removed_never_returns. Qed.
Print Assumptions C01_removed_never_returns.

Theorem C01_removed_children_gone : forall w ti n t ch,
  WFw w -> get_tree w ti = Some t -> children_of n (forest_of t) = Some ch ->
  exists t', get_tree (snd (op_remove_children w ti n)) ti = Some t' /\
    forall m, In m (ids ch) -> ~ In m (ids (forest_of t')) /\ ~ In m (reg t').
Proof. exact removed_children_gone. Qed.
Print Assumptions C01_removed_children_gone.

Theorem C01_removed_keep_gone : forall w ti n t s,
  WFw w -> get_tree w ti = Some t -> get_node n (forest_of t) = Some s ->
  fst (op_remove w ti n true false) = Ok [] ->
  exists t', get_tree (snd (op_remove w ti n true false)) ti = Some t' /\
             ~ In n (ids (forest_of t')) /\ ~ In n (reg t') /\
             forall m, In m (ids (forest_of t)) -> m <> n -> In m (ids (forest_of t')).
Proof. exact removed_keep_gone. Qed.
Print Assumptions C01_removed_keep_gone.

Theorem C01_removed_clones_gone : forall w ti n t d,
  WFw w -> get_tree w ti = Some t -> did_of n (forest_of t) = Some d ->
  exists t', get_tree (snd (op_remove w ti n false true)) ti = Some t' /\
             forall c, In c (idx_get d (idx t)) -> ~ In c (ids (forest_of t')) /\ ~ In c (reg t').
Proof. exact removed_clones_gone. Qed.
Print Assumptions C01_removed_clones_gone.

(* whatever is not reachable is neither counted nor indexed - in every well-formed state, hence
   after remove / remove_children / clear / filter / del alike *)
Theorem C01_unreachable_uncounted : forall t n, WF t -> ~ In n (ids (forest_of t)) ->
  ~ In n (reg t) /\ forall d, ~ In n (idx_get d (idx t)).
Proof. exact unreachable_uncounted. Qed.
Print Assumptions C01_unreachable_uncounted.

Theorem C01_cleared_gone : forall w ti t, WFw w -> get_tree w ti = Some t ->
  exists t', get_tree (snd (op_clear w ti)) ti = Some t' /\ forest_of t' = [] /\ reg t' = [] /\ idx t' = [].
Proof. exact cleared_gone. Qed.
Print Assumptions C01_cleared_gone.

Theorem C01_deleted_gone : forall w ti k t n s,
  WFw w -> get_tree w ti = Some t -> getitem t k = Some [n] -> get_node n (forest_of t) = Some s ->
  exists t', get_tree (snd (op_del w ti k)) ti = Some t' /\ fst (op_del w ti k) = Ok [] /\
    forall m, In m (ids_t s) -> ~ In m (ids (forest_of t')) /\ ~ In m (reg t').
Proof. exact deleted_gone. Qed.
Print Assumptions C01_deleted_gone.

(* in-place filter: [FBranch v] = the filter removes the branch of node v *)
Theorem C01_filtered_gone : forall w ti n vd t ch must acts stopped failed,
  WFw w -> get_tree w ti = Some t -> children_of n (forest_of t) = Some ch ->
  fvisit vd (T 0 dummy_info ch) false = (must, acts, stopped, failed) ->
  exists t', get_tree (snd (op_filter w ti n vd)) ti = Some t' /\
    forall v, In (FBranch v) acts -> ~ In v (ids (forest_of t')) /\ ~ In v (reg t').
Proof. exact filtered_gone. Qed.
Print Assumptions C01_filtered_gone.

(* a node of one tree is not a node of another tree ("owner of every reachable node is the tree") *)
Theorem C01_trees_disjoint : forall w i j ti tj n, WFw w -> i <> j -> get_tree w i = Some ti -> get_tree w j = Some tj ->
  In n (ids (forest_of ti)) -> ~ In n (ids (forest_of tj)).
Proof. exact trees_disjoint. Qed.
Print Assumptions C01_trees_disjoint.

(* derived parent pointers - true by construction of the model, recorded: every node has exactly one
   parent (the root 0 or a node of the tree, never itself) and occurs once in that parent's child list *)
Theorem C01_parent_unique : forall t n, WF t -> In n (ids (forest_of t)) ->
  exists p ch, parent_of n (forest_of t) = Some p /\ (p = 0 \/ In p (ids (forest_of t))) /\ p <> n /\
               children_of p (forest_of t) = Some ch /\ In n (map rid ch) /\ NoDup (map rid ch).
Proof. exact parent_total_unique. Qed.
Print Assumptions C01_parent_unique.

(* ---- non-vacuity: a reachable world with two trees, clones, a moved branch, a deep copy ---- *)
Definition c01_dd (z : Z) : dat := D z z z false [z].
Definition c01_ops : list op :=
  [ONewTree false None;
   OAdd 0 0 (c01_dd 10) None None BNone;            (* 1 *)
   OAdd 0 1 (c01_dd 20) None None BNone;            (* 2 under 1 *)
   OAdd 0 1 (c01_dd 30) None None BTrue;            (* 3 under 1, first *)
   OAdd 0 0 (c01_dd 20) None None BNone;            (* 4: clone of 2 at top level *)
   OAdd 0 4 (c01_dd 10) (Some (DStr [120%Z])) None BNone;  (* 5 under 4, explicit id *)
   OMove 0 3 0 4 BNone;                             (* 3 moves below 4 *)
   OAddNode 0 0 0 1 None None BNone (Some true);    (* refused: same parent *)
   OTreeCopy 0;                                     (* tree 1 = deep copy *)
   OCopyTo 0 4 1 0 true BNone true;                 (* refused or copied into tree 1 *)
   ORemove 0 2 false false;
   ORemove 0 4 true true;                           (* keep_children + with_clones *)
   OSort 0 0 [(1, Some [2%Z]); (4, Some [1%Z])] false false;
   OMeta 0 1 (MSet [7%Z] (Some (A 1%Z)));
   OAdd 0 1 (c01_dd 20) None None BNone;            (* a second node with data_id 20 *)
   OSetData 0 4 (Some (c01_dd 50)) None (Some true);  (* re-key the clone group {4, new} *)
   ORename 0 1 (c01_dd 60)].                        (* refused: data is not a str *)
Example C01_nonvacuous :
  wf_world_b (run c01_ops empty_world) = true /\
  length (trees (run c01_ops empty_world)) = 2 /\ 6 <= length (all_ids (run c01_ops empty_world)).
Proof. vm_compute. repeat split. repeat constructor. Qed.

(* ====================================================================================== *)
(* Pointer-level refinement (theories/Mut/Heap.v, HeapProofs.v, HeapRemove.v, HeapMore.v,
   HeapMove.v, HeapShort.v, HeapKeep.v, HeapData.v, HeapCopy.v, HeapSortDeep.v, HeapRefine.v,
   HeapFilter.v, HeapFromDict.v, HeapFull.v).

   Heap.v models every node with the raw attributes of the Python object - _parent, _children
   (None vs list), _tree - and writes the mutators as the sequences of assignments the methods of
   node.py / tree.py perform.  [Rep h t]: the pointers of heap [h] are exactly the ones the forest
   value of the machine state [t] induces.  For EVERY operation of the machine the heap
   operation returns the same result as the forest-level operation and re-establishes [Rep] - for
   ALL arguments, error exits included - so "exactly one parent / exactly once by identity in that
   parent's child list / never its own ancestor / owner = the tree / reachable = counted" become
   theorems about the assignments the code executes ([HeapOK]).  The operations: add_child(data), the
   four shortcuts, remove (plain, keep_children, with_clones), remove_children, clear, del, move_to
   (cross-tree moves are refused by the code), sort_children (flat and deep), set_data / rename (incl.
   clone groups), metadata edits, new tree, the copies (add(node) shallow and deep - Node._add_from
   allocating node by node -, add(tree), copy_to, Tree.copy, Node.copy), in-place filter (the removals
   are interleaved with the visit: HeapFilter.v shows the interleaving equals the list of removals the
   Machine computes on the initial value) and from_dict / Tree.from_dict with the
   `except: remove_children(); raise` handler of every level (fix D48; HeapFromDict.v shows that the
   cascade of handlers gives back exactly the tree as it was, the allocator excepted). *)
From NT Require Import Heap HeapProofs HeapRefine HeapFull.

(* one step, ANY operation: same result, related states *)
Theorem C01_heap_step : forall hw w o, WFw w -> RepW hw w ->
  fst (h_step hw o) = fst (step w o) /\ RepW (snd (h_step hw o)) (snd (step w o)).
Proof. exact sim_step_all. Qed.
Print Assumptions C01_heap_step.

(* the commuting square with the EXECUTABLE abstraction [abs_world] (unfold every tree's child lists from
   its root, fuel = number of allocated nodes): abs (heap_op h) = machine_op (abs h), same result *)
Theorem C01_heap_commutes : forall hw w o, WFw w -> RepW hw w ->
  abs_world hw = Some w /\
  fst (h_step hw o) = fst (step w o) /\
  abs_world (snd (h_step hw o)) = Some (snd (step w o)).
Proof. exact heap_commutes_all. Qed.
Print Assumptions C01_heap_commutes.

(* ANY history from the empty world: the heap stays a representation of the machine state, is
   well-formed in pointer terms, and unfolding its child lists from the roots (with fuel = number of
   allocated nodes, i.e. no cycle) yields exactly the machine's tree states *)
Theorem C01_heap_refinement : forall ops,
  RepW (h_run ops h_empty_world) (run ops empty_world) /\
  Forall HeapOK (htrees (h_run ops h_empty_world)) /\
  map abs_tstate (htrees (h_run ops h_empty_world)) = map Some (trees (run ops empty_world)).
Proof. exact heap_refinement_all. Qed.
Print Assumptions C01_heap_refinement.

(* every result along ANY history is the Machine's result *)
Theorem C01_heap_results : forall ops,
  map fst (map (fun k => h_step (h_run (firstn k ops) h_empty_world) (nth k ops (ONewTree false None))) (seq 0 (length ops))) =
  map fst (map (fun k => step (run (firstn k ops) empty_world) (nth k ops (ONewTree false None))) (seq 0 (length ops))).
Proof. intros ops. apply sim_trace_all; [apply WFw_empty|apply HeapMore.RepW_empty]. Qed.
Print Assumptions C01_heap_results.

(* the abstraction function on a representing heap *)
Theorem C01_heap_abstraction : forall h t, WF t -> Rep h t ->
  abs_forest h = Some (forest_of t) /\ abs_tstate h = Some t.
Proof. exact abs_correct. Qed.
Print Assumptions C01_heap_abstraction.

(* the property's own words, about the raw pointers *)
Theorem C01_heap_ok : forall h t, WF t -> Rep h t -> HeapOK h.
Proof. exact Rep_HeapOK. Qed.
Print Assumptions C01_heap_ok.

Theorem C01_heap_exactly_one_parent : forall h, HeapOK h -> forall n, In n (hreg h) ->
  exists p, hpar h n = Some p /\ (p = 0 \/ In p (hreg h)) /\ In n (hch h p) /\ NoDup (hch h p) /\
            forall q, In n (hch h q) -> q = p.
Proof.
  intros h H n Hn. destruct (ok_parent h H n Hn) as (p & Hp & Lp). exists p. refine (conj Hp (conj Lp (conj _ (conj (ok_once h H p) _)))).
  - apply (ok_link h H p n). now split.
  - intros q Hq. apply (ok_link h H q n) in Hq. destruct Hq as [_ Hq]. congruence.
Qed.
Print Assumptions C01_heap_exactly_one_parent.

Theorem C01_heap_never_own_ancestor : forall h, HeapOK h -> forall n, In n (hreg h) -> ~ In n (anc_heap (h_fuel h) h n).
Proof. intros h H. exact (ok_acyclic h H). Qed.
Print Assumptions C01_heap_never_own_ancestor.

Theorem C01_heap_owner_and_count : forall h, HeapOK h ->
  (forall n, In n (hreg h) -> htr h n = true) /\
  exists f, abs_forest h = Some f /\ Permutation (hreg h) (ids f) /\ NoDup (ids f) /\ length (hreg h) = length (ids f).
Proof.
  intros h H. split; [exact (ok_owner h H)|]. destruct (ok_reach h H) as (f & A & P & N). exists f. repeat split; auto. now apply Permutation_length.
Qed.
Print Assumptions C01_heap_owner_and_count.

(* what the code does to the pointers of a removed node: remove() clears _parent, _tree and _children
   of the node and of every descendant *)
Example C01_heap_removed_pointers :
  let ops := [ONewTree false None; OAdd 0 0 (c01_dd 10) None None BNone; OAdd 0 1 (c01_dd 20) None None BNone;
              OAdd 0 2 (c01_dd 30) None None BNone; OAdd 0 0 (c01_dd 40) None None BNone;
              OMove 0 4 0 1 (BIdx 0); ORemove 0 2 false false] in
  match htrees (h_run ops h_empty_world) with
  | [h] => hch h 0 = [1] /\ hch h 1 = [4] /\ hpar h 4 = Some 1 /\
           hpar h 2 = None /\ htr h 2 = false /\ hch h 2 = [] /\ hpar h 3 = None /\ htr h 3 = false /\
           abs_forest h = option_map forest_of (nth_error (trees (run ops empty_world)) 0)
  | _ => False
  end.
Proof. vm_compute. repeat split. Qed.

(* from_dict refused two levels down (a duplicate sibling): every level's handler runs
   remove_children() and the tree is as before; only the allocator has moved on *)
Example C01_heap_from_dict_refused :
  let pre := [ONewTree false None; OAdd 0 0 (c01_dd 10) None None BNone; OAdd 0 0 (c01_dd 11) None None BNone] in
  let o := OFromDict 0 1 [DI (c01_dd 20) None [DI (c01_dd 30) None []; DI (c01_dd 31) None [DI (c01_dd 40) None []; DI (c01_dd 40) None []]]] in
  fst (h_step (h_run pre h_empty_world) o) = Err EUnique /\
  fst (step (run pre empty_world) o) = Err EUnique /\
  trees (snd (step (run pre empty_world) o)) = trees (run pre empty_world) /\
  match htrees (snd (h_step (h_run pre h_empty_world) o)) with
  | [h] => hch h 0 = [1; 2] /\ hch h 1 = [] /\ hreg h = [1; 2] /\
           hpar h 3 = None /\ htr h 3 = false /\ hch h 3 = [] /\
           hpar h 4 = None /\ htr h 4 = false /\ hpar h 6 = None /\ htr h 6 = false /\
           hpar h 7 = Some 5 /\ htr h 7 = true /\ hpar h 5 = None /\   (* the refused object still points at the parent it was made for, and at the tree *)
           abs_forest h = option_map forest_of (nth_error (trees (run pre empty_world)) 0)
  | _ => False
  end.
Proof. vm_compute. repeat split. Qed.

(* ====================================================================================== *)
(* Tree.load / TypedTree.load as one more way a tree comes into being (Mut/MachineLoad.v: [op_load], the
   loop of Tree._from_list over the node list of a file, made of add_child(data) and add_child(node) steps;
   [step_x] / [run_x] = the machine with the additional operation [OLoad]).  Well-formedness is preserved by
   it for every node list, valid or not, and hence holds after every history that also loads files; the
   identity frame (no identity is handed out twice, the allocator only moves forward) holds as well. *)
From NT Require Import MachineLoad MachineLoadProofs.

Theorem C01_load_step : forall w o, WFw w -> WFw (snd (step_x w o)).
Proof. exact WFw_step_x. Qed.
Print Assumptions C01_load_step.

Theorem C01_load_history : forall ops, WFw (run_x ops empty_world).
Proof. intros ops. apply WFw_run_x. exact WFw_empty. Qed.
Print Assumptions C01_load_history.

Theorem C01_load_identity_frame : forall w o, WFw w -> WFx w (snd (step_x w o)).
Proof. exact WFx_step_x. Qed.
Print Assumptions C01_load_identity_frame.

Example C01_load_nonvacuous :
  let doc := [LData 0 (c01_dd 10) None None; LData 1 (c01_dd 20) None None; LRef 0 2; LData 3 (c01_dd 30) None None] in
  fst (step_x (run c01_ops empty_world) (OLoad false doc)) = Ok [2] /\
  wf_world_b (snd (step_x (run c01_ops empty_world) (OLoad false doc))) = true /\
  length (trees (snd (step_x (run c01_ops empty_world) (OLoad false doc)))) = 3.
Proof. vm_compute. repeat split. Qed.

(* the removals of C01_removed_gone / _removed_clones_gone / _removed_children_gone always succeed (those
   theorems only spoke about the state afterwards) *)
From NT Require Import RefusalMore.

Theorem C01_remove_total : forall w ti n wc t d, get_tree w ti = Some t -> did_of n (forest_of t) = Some d ->
  fst (step w (ORemove ti n false wc)) = Ok [].
Proof. exact remove_total. Qed.
Print Assumptions C01_remove_total.

Theorem C01_remove_children_total : forall w ti n t ch, get_tree w ti = Some t -> children_of n (forest_of t) = Some ch ->
  fst (step w (ORemoveChildren ti n)) = Ok [].
Proof. exact remove_children_total. Qed.
Print Assumptions C01_remove_children_total.

(* ====================================================================================== *)
(* "Removed nodes are neither reachable nor counted" as ONE theorem (audit C01 F3).  [victim w o ti m]: m is
   removed by o from tree ti, read off the arguments and the state BEFORE the call:
     remove()                         the node's whole branch;  with_clones=True: the branch of every clone too
     remove(keep_children=True)       the node itself (with_clones: every clone), their children stay
     remove_children / clear / del    the children's branches / every node / the branch of the node the key finds
     filter (in place)                every branch the visit removes (FBranch) AND every descendant of a node whose
                                      children it removes (FKids: SkipBranch(and_self=False)) - for ANY outcome of
                                      the predicate (an exception leaves the removals made so far in place).
   [committed]: the call answered Ok (or is a filter).  Conclusion: in the state after the call the victim is in
   no child list of the tree, not in the registry, in no group of the clone index - and in no tree of any later
   state of any continuation of the history. *)
From NT Require Import RemovedGone.

Theorem C01_removed_unreachable : forall w o ti m, WFw w -> committed w o -> victim w o ti m ->
  exists t', get_tree (snd (step w o)) ti = Some t' /\
    ~ In m (ids (forest_of t')) /\ ~ In m (reg t') /\ (forall d, ~ In m (idx_get d (idx t'))) /\
    forall ops, ~ In m (all_ids (run ops (snd (step w o)))).
Proof. exact removed_unreachable. Qed.
Print Assumptions C01_removed_unreachable.

(* the arms [| None => acc] of op_remove and apply_fact (audit: "a silently failing removal keeps every theorem"):
   in op_remove the arm is dead - a victim that is still in the tree is always removed -, in apply_fact it is
   taken exactly for a node that is not in the tree, where doing nothing IS the specified result *)
Theorem C01_remove_one_total : forall t v keep, live t v = true -> exists t', remove_one t v keep = Some t'.
Proof. exact remove_one_total. Qed.
Print Assumptions C01_remove_one_total.

Theorem C01_apply_fact_is_cut : forall t a, WF t -> ~ In 0 (EffectsMore.Kof [a]) ->
  forest_of (apply_fact t a) = flat_map (EffectsMore.cut_t (EffectsMore.Bof [a]) (EffectsMore.Kof [a])) (forest_of t).
Proof. exact apply_fact_is_cut. Qed.
Print Assumptions C01_apply_fact_is_cut.

(* non-vacuity: a(1) > b(2) > c(3); e(4) > a'(5) (a clone of a) > d(6).  remove(with_clones=True) of node 1 takes
   both branches; remove(keep_children=True, with_clones=True) takes 1 and 5 only; a filter that answers
   SkipBranch(and_self=False) for 1 clears below it *)
Definition c01_rw : world :=
  run [ONewTree false None; OAdd 0 0 (c01_dd 10) None None BNone; OAdd 0 1 (c01_dd 20) None None BNone; OAdd 0 2 (c01_dd 30) None None BNone;
       OAdd 0 0 (c01_dd 60) None None BNone; OAdd 0 4 (c01_dd 10) None None BNone; OAdd 0 5 (c01_dd 50) None None BNone] empty_world.
Definition c01_pre (w : world) : list nat := map rid (pre_f (forest_of (nth 0 (trees w) (TS [] [] [] false None)))).
Example C01_removed_unreachable_nonvacuous :
  wf_world_b c01_rw = true /\ c01_pre c01_rw = [1; 2; 3; 4; 5; 6] /\
  c01_pre (snd (step c01_rw (ORemove 0 1 false true))) = [4] /\
  c01_pre (snd (step c01_rw (ORemove 0 1 true true))) = [2; 3; 4; 6] /\
  c01_pre (snd (step c01_rw (OFilter 0 0 [(1, VSkipKeep)]))) = [1; 4; 5; 6].
Proof. vm_compute. repeat split. Qed.

(* ==== PART REMOVED: a removed node is inert (model theories/Forest/MiscRemoved.v, correspondence Cases/CaseMiscRemoved.v,
   harness parts_misc.REMOVED).  [slots] are the raw attributes of a node object, [sheap] gives them for every object;
   [clear_slots tag clear s] is what Tree._unregister assigns; [eval h fuel n a] is accessor [a] of node.py evaluated on
   the object n, written on the slots as the Python method is (AttributeError on None, TypeError on None[...]);
   [cleared tag s] = every slot _unregister(clear=True) assigns has the assigned value.  `_kind` is not cleared. ==== *)
Import MiscMapper MiscRepr MiscRemoved MiscRemovedProofs.

(* what _unregister leaves behind (clear=True is the only form the library uses, see C01_removed_source_facts) *)
Theorem C01_removed_slots : forall tag b s,
  cleared tag (clear_slots tag true s) /\
  s_parent (clear_slots tag b s) = None /\ s_tree (clear_slots tag b s) = None /\ s_kind (clear_slots tag b s) = s_kind s.
Proof. intros tag b s. exact (conj (clear_slots_cleared tag s) (clear_slots_pointers tag b s)). Qed.
Print Assumptions C01_removed_slots.

(* the accessor table: EVERY accessor of a removed node answers exactly this – whatever the rest of the heap looks like,
   for every fuel: name/data = the tag, ids/meta/tree None, children [], is_system_root/is_leaf True, counts 0, path "/",
   parent/is_top/siblings/index/clones/get_top raise AttributeError, up() ValueError, relations False, ancestor None *)
Theorem C01_removed_accessor_table : forall h fuel tag n a,
  cleared tag (h n) -> eval h fuel n a = removed_table tag n (s_kind (h n)) a.
Proof. exact removed_answers. Qed.
Print Assumptions C01_removed_accessor_table.

(* inert: no accessor of a removed node hands out any node other than (iterator(add_self=True)) the removed node itself,
   hence never a node that is still in a tree *)
Theorem C01_removed_inert : forall h fuel tag n a m, cleared tag (h n) -> In m (nodes_of (eval h fuel n a)) -> m = n.
Proof. exact removed_inert. Qed.
Print Assumptions C01_removed_inert.

Theorem C01_removed_returns_no_live_node : forall h fuel tag (live : nat -> Prop) n a,
  cleared tag (h n) -> ~ live n -> forall m, In m (nodes_of (eval h fuel n a)) -> ~ live m.
Proof. exact removed_returns_no_live_node. Qed.
Print Assumptions C01_removed_returns_no_live_node.

(* and no other object's relation query walks into it: a removed node is on nobody's parent chain *)
Theorem C01_removed_on_no_chain : forall h fuel tag n o, cleared tag (h n) ->
  eval h fuel o (AIsDescendantOf n) = QBool false /\ eval h fuel n (AIsAncestorOf o) = QBool false.
Proof. exact removed_on_no_chain. Qed.
Print Assumptions C01_removed_on_no_chain.

(* the pointer part of the clearing is what the heap refinement's h_unregister does (Mut/Heap.v), for one node and for
   the node sequences remove_children / remove / clear unregister; cleared pointers stay cleared *)
Theorem C01_removed_agrees_with_heap : forall hs m tag b s,
  heap_view (Heap.h_unregister hs m) m = (None, false, []) /\
  ptr_view (clear_slots tag true s) = heap_view (Heap.h_unregister hs m) m /\
  fst (ptr_view (clear_slots tag b s)) = fst (heap_view (Heap.h_unregister hs m) m).
Proof. exact heap_unregister_agrees. Qed.
Print Assumptions C01_removed_agrees_with_heap.

Theorem C01_removed_all_cleared : forall l hs m, In m l -> ptr_cleared (fold_left Heap.h_unregister l hs) m.
Proof. exact heap_unregister_all. Qed.
Print Assumptions C01_removed_all_cleared.

Theorem C01_removed_stays_cleared : forall l hs m, ptr_cleared hs m -> ptr_cleared (fold_left Heap.h_unregister l hs) m.
Proof. exact fold_keeps_cleared. Qed.
Print Assumptions C01_removed_stays_cleared.

(* tie to the source (gen_facts section MISC): the tag, the default of `clear`, that no call site passes `clear`, and
   the attribute assignments of Tree._unregister are those of the model *)
Theorem C01_removed_source_facts :
  Generated.GEN_MISC_OK = true /\ Generated.UNREGISTER_CLEAR_DEFAULT = true /\ Generated.UNREGISTER_CALLS_PASSING_CLEAR = 0%Z /\
  Generated.UNREGISTER_ALWAYS = model_always /\ Generated.UNREGISTER_IF_CLEAR = model_if_clear /\ Generated.DELETED_TAG = ex_tag.
Proof. repeat split. Qed.
Print Assumptions C01_removed_source_facts.

(* non-vacuity: node 2 (typed, with meta and a child) removed below the live node 1 *)
Example C01_removed_ex :
  cleared ex_tag (ex_heap 2) /\
  map (eval ex_heap 5 2) [AName; AParent; AChildren; AIsSystemRoot; AKind; AIterator true; AGetMeta [107%Z]; AUp 1%Z; APath; AIsAncestorOf 1; ACommonAncestor 3] =
  [QText ex_tag; QErr E_ATTR; QNodes []; QBool true; QText [107%Z]; QNodes [2]; QNone; QErr E_VALUE; QText [47%Z]; QBool false; QNone] /\
  map (eval ex_heap 5 1) [AParent; AIsSystemRoot; AIsTop; ADepth; AGetTop; APath; AUp 1%Z; AUp 2%Z] =
  [QNone; QBool false; QBool true; QInt 1%Z; QNode 1; QText [47; 97]%Z; QNode 0; QErr E_VALUE].
Proof. exact ex_removed. Qed.

(* ==== PART SELFCHECK: the library's own sanity check Tree._self_check, written on the pointer-level state of Mut/Heap.v
   (model theories/Mut/MiscSelfCheck.v, correspondence Cases/CaseMiscSelfCheck.v on observed – healthy and hand-corrupted –
   trees, harness parts_misc.SELFCHECK).  [h_self_check h = true] = the method returns True.  Not expressible on [hstate]
   and therefore outside: `node._node_id == id(node)` and `_children is None or len(_children) > 0`. ==== *)
Import MiscSelfCheck MiscSelfCheckProofs.

(* the invariant implies the library's own check: on every heap that represents a well-formed tree state it returns True *)
Theorem C01_self_check_passes : forall h t, WF t -> Rep h t -> h_self_check h = true.
Proof. exact self_check_passes. Qed.
Print Assumptions C01_self_check_passes.

(* hence after EVERY history of operations (every exit: success, refusal, failing callback), in every tree of the world *)
Theorem C01_self_check_reachable : forall ops, Forall (fun h => h_self_check h = true) (htrees (h_run ops h_empty_world)).
Proof. exact self_check_reachable. Qed.
Print Assumptions C01_self_check_reachable.

(* non-vacuity, and the check is not vacuous: a fresh tree with one node passes; with the registry entry dropped it fails *)
Example C01_self_check_ex :
  h_self_check (HS (fun n => if Nat.eqb n 1 then Some 0 else None) (fun n => if Nat.eqb n 0 then [1] else []) (fun _ => true)
                   (fun _ => dummy_i) [1] [1] [(DInt 0, [1])] false None false) = true /\
  h_self_check (HS (fun n => if Nat.eqb n 1 then Some 0 else None) (fun n => if Nat.eqb n 0 then [1] else []) (fun _ => true)
                   (fun _ => dummy_i) [1] [] [(DInt 0, [1])] false None false) = false.
Proof. vm_compute. split; reflexivity. Qed.

(* ====================================================================================== *)
(* Audit, cross-cutting "step vs step_chk" (and C01 F2).  Every theorem above is about [Machine.step] / [run]; the
   correspondence evaluates [CaseMut.step_chk] / [run_chk] (Cases/CaseMut.v): the same step behind the guard
   [op_live] "every tree / node / `before` node the operation mentions is currently live".  The two are connected
   here, so the theorems formally cover the function the cases run:
     - live references: the guarded step IS the step;
     - a stale reference: the answer is the model-level error and the world is unchanged;
     - a guarded history is the plain history of its live operations, hence every world the correspondence visits
       is [run ops' empty_world] for some ops', and every step-invariant transfers.
   What this does NOT cover (F2): calls through stale references (a removed node, a cleared tree's node).  The
   library does answer some of them (`live.add(removed_node)` succeeds); the model refuses all with EModel and
   the harness never issues them (mut.py: NotLive).  "Any sequence of public mutating operations" is therefore
   proved and tested for sequences whose references are live at the time of the call; see manifest["note"] of
   harness/props/C01.py. *)
From NT Require Import CaseMutFacts.

Theorem C01_step_chk_live : forall w o, op_live w o = true -> step_chk w o = step w o.
Proof. exact step_chk_live. Qed.
Print Assumptions C01_step_chk_live.

Theorem C01_step_chk_stale : forall w o, op_live w o = false -> step_chk w o = (Err EModel, w).
Proof. exact step_chk_stale. Qed.
Print Assumptions C01_step_chk_stale.

Theorem C01_run_chk_is_run : forall ops w, exists ops', incl ops' ops /\ run_chk ops w = run ops' w.
Proof. exact run_chk_reachable. Qed.
Print Assumptions C01_run_chk_is_run.

Theorem C01_run_chk_invariant : forall P : world -> Prop, (forall w o, P w -> P (snd (step w o))) ->
  forall ops w, P w -> P (run_chk ops w).
Proof. exact run_chk_invariant. Qed.
Print Assumptions C01_run_chk_invariant.

(* the headline invariant, on the function the correspondence runs *)
Theorem C01_history_chk : forall ops, WFw (run_chk ops empty_world).
Proof. intros ops. apply (run_chk_invariant WFw); [intros w o H; now apply WFw_step|exact WFw_empty]. Qed.
Print Assumptions C01_history_chk.

Example C01_step_chk_nonvacuous :
  let w := run [ONewTree false None; OAdd 0 0 (D 1 1 1 false [1%Z]) None None BNone; ORemove 0 1 false false] empty_world in
  op_live w (OAdd 0 0 (D 2 2 2 false [2%Z]) None None BNone) = true /\
  op_live w (OAdd 0 1 (D 2 2 2 false [2%Z]) None None BNone) = false /\
  step_chk w (OAdd 0 1 (D 2 2 2 false [2%Z]) None None BNone) = (Err EModel, w).
Proof. vm_compute. repeat split. Qed.

(* ====================================================================================== *)
(* Audit C01 F1 / C02 F3 (top-15 item 8): explicit node ids.
   WHAT THE THEOREMS ABOVE MODEL: a node's node_id is identified with the node (its allocation index); [reg : list nat]
   is the list of registered nodes; "node ids are unique" (C01_node_ids_unique, wf_reg + wf_nodup) therefore says "no node
   is registered twice", and a registry that finds a DIFFERENT node under a key is not representable.  The public argument
   `node_id=` is not an operation of Machine.v.
   WHAT IS ADDED HERE (Mut/MachineNodeId.v, additive: a wrapper machine [step_k] over [step], like MachineLoad):
   `add_child(data, node_id=z)` as the operation [KAddId]; a node's key is [KExp z] (explicit) or [KAuto n] (id(node));
   ASSUMED: an explicit node_id never equals the address of a live node object of the same tree.
     - C01_node_keys_unique: after ANY history of machine operations and explicit-id adds, the keys registered in one
       tree are pairwise different;
     - C01_find_by_key_exact: `_node_by_id.get(key)` finds n  iff  n is a node of the tree and carries that key;
     - C01_add_id_refused: a node_id that is 0 or registered in the target tree is refused - with the assertion error
       whenever the same call without node_id would succeed or fail with the uniqueness error - no tree changes;
     - C01_add_id_ok: otherwise it is exactly add_child(data), the new node carries the key, other keys are untouched.
   The refusal is `assert ... not in self._node_by_id` (tree.py:204): with `python -O` the library registers the duplicate
   (count 1, two reachable nodes).  Tied to /repo (without -O) by the part NODEID of harness/props/C01.py
   (harness/mut_c01_nid.py, Cases/CaseNodeId.v), which fails if that assertion is removed.
   STILL NOT MODELLED: node_id= on the four shortcuts (forwarded to add_child), on add(node) (always ValueError), the
   "node_id" key of from_dict items, non-int node ids; Tree._self_check asserts node_id == id(node) and so rejects every
   tree that holds an explicit node id. *)
From NT Require Import MachineNodeId.

Theorem C01_node_keys_invariant : forall ops wk, WFk wk -> WFk (run_k ops wk).
Proof. exact WFk_run_k. Qed.
Print Assumptions C01_node_keys_invariant.

Theorem C01_node_keys_unique : forall ops t, In t (trees (kbase (run_k ops empty_worldk))) ->
  NoDup (map (nkey_of (kkeys (run_k ops empty_worldk))) (reg t)).
Proof. exact keys_nodup_after_history. Qed.
Print Assumptions C01_node_keys_unique.

Theorem C01_find_by_key_exact : forall wk t key n, WFk wk -> In t (trees (kbase wk)) ->
  (lk_key (kkeys wk) t key = Some n <-> In n (ids (forest_of t)) /\ nkey_of (kkeys wk) n = key).
Proof. exact lk_key_exact. Qed.
Print Assumptions C01_find_by_key_exact.

Theorem C01_add_id_refused : forall wk ti p d e k b z t, get_tree (kbase wk) ti = Some t -> key_taken (kkeys wk) t z = true ->
  exists x, fst (step_k wk (KAddId ti p d e k b z)) = Err x /\
    trees (kbase (snd (step_k wk (KAddId ti p d e k b z)))) = trees (kbase wk) /\
    kkeys (snd (step_k wk (KAddId ti p d e k b z))) = kkeys wk /\
    (forall r, fst (step (kbase wk) (OAdd ti p d e k b)) = Ok r -> x = EAssert) /\
    (fst (step (kbase wk) (OAdd ti p d e k b)) = Err EUnique -> x = EAssert).
Proof. exact add_id_refused. Qed.
Print Assumptions C01_add_id_refused.

Theorem C01_add_id_ok : forall wk ti p d e k b z r wk', WFk wk -> step_k wk (KAddId ti p d e k b z) = (Ok r, wk') ->
  exists t, get_tree (kbase wk) ti = Some t /\ key_taken (kkeys wk) t z = false /\
    step (kbase wk) (OAdd ti p d e k b) = (Ok r, kbase wk') /\ r = [next (kbase wk)] /\
    nkey_of (kkeys wk') (next (kbase wk)) = KExp z /\
    forall m, m <> next (kbase wk) -> nkey_of (kkeys wk') m = nkey_of (kkeys wk) m.
Proof. exact add_id_ok. Qed.
Print Assumptions C01_add_id_ok.

Theorem C01_other_ops_keep_keys : forall wk o, WFk wk -> kkeys (snd (step_k wk (KOp o))) = kkeys wk /\
  forall n, next (kbase wk) <= n -> nkey_of (kkeys wk) n = KAuto n.
Proof. exact base_op_keys. Qed.
Print Assumptions C01_other_ops_keep_keys.

Example C01_node_keys_nonvacuous :
  let dd z := D z z z false [z] in
  let wk := run_k [KOp (ONewTree false None); KAddId 0 0 (dd 1%Z) None None BNone 7; KOp (OAdd 0 0 (dd 2%Z) None None BNone)] empty_worldk in
  map (fun t => map (nkey_of (kkeys wk)) (reg t)) (trees (kbase wk)) = [[KExp 7; KAuto 2]] /\
  fst (step_k wk (KAddId 0 1 (dd 3%Z) None None BNone 7)) = Err EAssert /\
  fst (step_k wk (KAddId 0 0 (dd 1%Z) None None BNone 7)) = Err EAssert /\
  fst (step_k wk (KAddId 0 0 (dd 1%Z) None None BNone 8)) = Err EUnique /\
  fst (step_k wk (KAddId 0 1 (dd 3%Z) None None BNone 0)) = Err EAssert /\
  fst (step_k wk (KAddId 0 1 (dd 3%Z) None None BNone 8)) = Ok [3] /\
  fst (step_k (snd (step_k wk (KOp (ORemove 0 1 false false)))) (KAddId 0 0 (dd 3%Z) None None BNone 7)) = Ok [3].
Proof. vm_compute. repeat split. Qed.
